(* C14 — variant for exit_returns (both repairs applied): once an exit is pending and the loop
   thread is past a poll return, every step of the loop thread strictly decreases [rank], and a
   step of any other thread increases it by at most 2 (an enqueue).  Together with
   exit_poll_never_sleeps / loop_never_stuck (ProofsExit.v) and the finiteness of the scripts this
   bounds the number of loop-thread steps until muggle_evloop_run has returned (rank 1 = AFin). *)
From MV Require Import C14.Model C14.ProofsBase C14.ProofsWake C14.ProofsExit C14.ProofsHandover.

Definition rank (s : sys) (p : pc) : nat :=
  let Q := 2 * length (queue s) in
  let R := 2 * length (reg s) in
  let K := 2 * length (clr s) in
  match p with
  | SPollRet => Q + R + 20
  | ARead => Q + R + 19
  | SWake => Q + R + 18
  | AWLock => Q + R + 17
  | SRel PhDrain None => Q + R + 16
  | ARel PhDrain _ => Q + R + 15
  | SRel PhDrain (Some _) => Q + R + 14
  | AWUnlock => Q + R + 12
  | SWakeEnd => Q + R + 11
  | ARel PhClear _ => Q + K + 10
  | SRel PhClear _ => Q + K + 9
  | AXLock => Q + 8
  | SRel PhExit None => Q + 7
  | ARel PhExit _ => Q + 6
  | SRel PhExit (Some _) => Q + 5
  | AXUnlock => 3
  | SRet => 2
  | AFin => 1
  | _ => 0
  end.

Definition ranked (p : pc) : bool := past_poll p || leaving p.

Lemma drain_len C : c_fix_add C = true -> forall q rg lk n q' rg' lk' n' st,
  drain C q rg lk n = (q', rg', lk', n', st) -> length q' + length rg' = length q + length rg.
Proof.
  intros Hfix q rg lk n q' rg' lk' n' st H. apply (drain_spec C Hfix) in H.
  destruct H as (m & -> & -> & _ & _). rewrite !app_length. lia.
Qed.

Theorem loop_step_decreases_rank C s ch s' l :
  c_fix_exit C = true -> c_fix_add C = true ->
  BInv C s -> EInv C s -> HInv C s ->
  to_exit s <> 0 -> ranked (thr s (c_loop C)) = true -> thr s (c_loop C) <> Done ->
  step C s (c_loop C) ch = Some (s', l) ->
  ranked (thr s' (c_loop C)) = true /\
  rank s' (thr s' (c_loop C)) < rank s (thr s (c_loop C)).
Proof.
  intros Hfx Hfa B [Hd _] H Hne Hr Hnd Hs. pose proof (h_head _ _ H) as Hh.
  step_inv Hs.
  all: simpl in Hr, Hh; try discriminate Hr.
  all: repeat match goal with ph : phase |- _ => destruct ph end; simpl in Hr, Hh; try discriminate Hr.
  all: rewrite ?thr_set_pc_same.
  all: split; [try reflexivity|].
  all: repeat match goal with
       | E : drain _ _ _ _ _ = _ |- _ => apply (drain_len C Hfa) in E; simpl in E
       end.
  all: try (destruct Hh as [r0 Hq]; rewrite Hq in *; simpl tl in * ).
  all: unfold rank, set_pc; simpl.
  all: repeat match goal with Eq : queue _ = _ |- _ => rewrite Eq in *
                            | Eq : reg _ = _ |- _ => rewrite Eq in *
                            | Eq : clr _ = _ |- _ => simpl in Eq; rewrite Eq in * end; simpl in *.
  all: try lia.
  all: exfalso; unfold ST_EXIT, ST_WAKE in *;
    match goal with Hb : (_ =? 1) = false |- _ =>
      destruct (Nat.eqb_spec (to_exit s) 2); [discriminate Hb|apply Nat.eqb_neq in Hb; lia] end.
Qed.

(* steps of the other threads: only an enqueue changes the rank, by 2 *)
Theorem other_step_rank C s t ch s' l :
  BInv C s -> t <> c_loop C -> step C s t ch = Some (s', l) ->
  thr s' (c_loop C) = thr s (c_loop C) /\
  rank s' (thr s (c_loop C)) <= rank s (thr s (c_loop C)) + 2.
Proof.
  intros B Hne Hs. pose proof (b_loop _ _ B t) as Hl.
  step_inv Hs.
  all: simpl in Hl; try (exfalso; apply Hne; apply Hl; reflexivity).
  all: split; [unfold set_pc; simpl; apply upd_other; auto|].
  all: unfold rank, set_pc; simpl; rewrite ?app_length; simpl;
       destruct (thr s (c_loop C)) as [| | | | | | | | | | | | | | |ph [i|]|ph i| | | | | | |]; try destruct ph; lia.
Qed.

(* the loop thread finishes only through the return of muggle_evloop_run *)
Definition RInv (C : config) (s : sys) : Prop :=
  thr s (c_loop C) = AFin \/ thr s (c_loop C) = Done -> returned s = true.

Lemma step_rinv C s t ch s' l : RInv C s -> step C s t ch = Some (s', l) -> RInv C s'.
Proof.
  intros Hr Hs. unfold RInv in *.
  step_inv Hs.
  all: unfold set_pc; simpl; unfold upd.
  all: destruct (Nat.eqb_spec (c_loop C) t) as [e|ne];
    [ rewrite e in *; match goal with E : thr _ _ = _ |- _ => rewrite E in Hr end | try exact Hr ].
  all: try (intros [X|X]; discriminate X).
  all: try (intros _; reflexivity).
  all: try (intros _; apply Hr; auto; fail).
  all: try (intros X; apply Hr; exact X).
  exfalso. match goal with Hb : (?a =? ?a) = false |- _ => rewrite Nat.eqb_refl in Hb; discriminate Hb end.
Qed.

Lemma rinv_all C sched : RInv C (exec sys (step C) init sched).
Proof. apply inv_exec; [|intros [X|X]; discriminate X]. intros; eapply step_rinv; eauto. Qed.

(* for every schedule: the hypotheses of the two theorems hold in every reachable state *)
Theorem exit_variant_all C sched : c_fix_exit C = true -> c_fix_add C = true ->
  let s := exec sys (step C) init sched in
  (forall ch s' l, to_exit s <> 0 -> ranked (thr s (c_loop C)) = true -> thr s (c_loop C) <> Done ->
     step C s (c_loop C) ch = Some (s', l) ->
     ranked (thr s' (c_loop C)) = true /\ rank s' (thr s' (c_loop C)) < rank s (thr s (c_loop C))) /\
  (forall t ch s' l, t <> c_loop C -> step C s t ch = Some (s', l) ->
     thr s' (c_loop C) = thr s (c_loop C) /\ rank s' (thr s (c_loop C)) <= rank s (thr s (c_loop C)) + 2) /\
  (rank s (thr s (c_loop C)) = 1 -> returned s = true).
Proof.
  intros Hfx Hfa s. pose proof (binv_all C sched) as B. pose proof (einv_all C sched Hfx) as E.
  pose proof (hinv_all C sched Hfa) as H. pose proof (kinv_all C sched) as K. fold s in B, E, H, K.
  split; [|split].
  - intros. eapply loop_step_decreases_rank; eauto.
  - intros. eapply other_step_rank; eauto.
  - intros Hr1. destruct K as [Hk Hrt].
    destruct (thr s (c_loop C)) as [| | | | | | | | | | | | | | |ph [i|]|ph i| | | | | | |] eqn:EL;
      try destruct ph; simpl in Hr1; try lia.
    apply (rinv_all C sched). left. exact EL.
Qed.

