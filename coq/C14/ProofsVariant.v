(* C14 — variant for exit_returns (both repairs applied): once an exit is pending and the loop
   thread is on its way to an exit test that leaves (it is handling the wake-up whose promotion
   turns the request into EXIT - including the user's wake callback and its script -, or EXIT is
   set and it is in the rest of the pass, in the timer callback or past the loop), every step of
   the loop thread strictly decreases [rank], and a step of any other thread increases it by at
   most 2 (an enqueue).  Together with exit_poll_never_sleeps / loop_never_stuck (ProofsExit.v) and
   the finiteness of the scripts this bounds the number of loop-thread steps until
   muggle_evloop_run has returned (rank 1 = AFin).  The close dispatches of contexts that were shut
   down, the callbacks' scripts and the timer callback are all inside the bound. *)
From MV Require Import C14.Model C14.ProofsBase C14.ProofsWake C14.ProofsExit C14.ProofsHandover.

(* ---- two small invariants of the loop thread ---- *)
(* inside the loop evloop->tid is the loop thread; during the handling of a wake-up the pass has no
   reported signal left *)
Definition wake_pc (p : pc) : bool :=
  match p with
  | ARead | SWake | AWLock | SRel PhDrain _ | ARel PhDrain _ | AWUnlock | SWakeEnd => true
  | _ => false
  end.
Definition LInv (C : config) (s : sys) : Prop :=
  (is_loop_pc (thr s (c_loop C)) = true -> tidf s = c_loop C) /\
  (wake_pc (thr s (c_loop C)) = true \/ (exists q, thr s (c_loop C) = Cb q /\ cbk s = false) -> psig s = false).

Lemma init_linv C : LInv C init.
Proof. split; simpl; [discriminate|]. intros [K|(q & K & _)]; discriminate. Qed.

(* what the tail segments say about the two facts: the tid is untouched; if a tail ends at a wake
   program point (ARead) the reported signal has just been taken *)
Lemma exit_test_l C s t ns s' l : exit_test C s t ns = Some (s', l) ->
  tidf s' = tidf s /\ wake_pc (thr s' t) = false /\ (forall q, thr s' t <> Cb q).
Proof.
  unfold exit_test. intros H.
  destruct (to_exit s =? ST_EXIT); [destruct (c_bare C); [|destruct (reg s)]|];
    inversion H; subst; clear H; nrmg; rewrite upd_same; repeat split; try reflexivity; intros q K; discriminate K.
Qed.
Lemma fin_pass_l C s t ns s' l : fin_pass C s t ns = Some (s', l) ->
  tidf s' = tidf s /\ wake_pc (thr s' t) = false /\ (forall q, thr s' t = Cb q -> cbk s' = true).
Proof.
  unfold fin_pass. intros H. destruct (c_tmo C && c_cb_timer C).
  - match type of H with (if is_nil (cbs ?x) then _ else _) = _ => set (s1 := x) in * end.
    destruct (is_nil (cbs s1)).
    + apply exit_test_l in H. destruct H as (A & B & D). repeat split; auto. intros q K. exfalso. eapply D; eauto.
    + inversion H; subst; clear H. nrmg. rewrite upd_same. repeat split; auto.
  - apply exit_test_l in H. destruct H as (A & B & D). repeat split; auto. intros q K. exfalso. eapply D; eauto.
Qed.
Lemma seg_pass_l C s t ns s' l : seg_pass C s t ns = Some (s', l) ->
  tidf s' = tidf s /\ (wake_pc (thr s' t) = true -> psig s' = false) /\ (forall q, thr s' t = Cb q -> cbk s' = true).
Proof.
  unfold seg_pass. intros H.
  destruct (pass C (hup s) (peof s) (rdy s) (rdh s) (psig s) (pn s) (todo s) ns []) as [[[[n td] r] ns'] dr].
  destruct r as [|id|].
  - inversion H; subst; clear H. nrmg. rewrite upd_same. repeat split; auto. intros q K; discriminate K.
  - inversion H; subst; clear H. nrmg. rewrite upd_same. repeat split; auto; [intros K; discriminate K|intros q K; discriminate K].
  - apply fin_pass_l in H. destruct H as (A & B & D). repeat split; auto. intros K. congruence.
Qed.
Lemma wake_end_l C s t ns s' l : wake_end C s t ns = Some (s', l) ->
  tidf s' = tidf s /\ (wake_pc (thr s' t) = true -> psig s' = false) /\ (forall q, thr s' t = Cb q -> cbk s' = true).
Proof. unfold wake_end. intros H. apply seg_pass_l in H. exact H. Qed.
Lemma cb_end_l C s t ns s' l : cb_end C s t ns = Some (s', l) ->
  tidf s' = tidf s /\ (wake_pc (thr s' t) = true -> psig s' = false) /\ (forall q, thr s' t = Cb q -> cbk s' = true).
Proof.
  unfold cb_end. intros H. destruct (cbk s); [|eapply wake_end_l; eauto].
  apply exit_test_l in H. destruct H as (A & B & D). repeat split; auto; [intros K; congruence|intros q K; exfalso; eapply D; eauto].
Qed.
Lemma cb_next_l C s t k ns s' l : cb_next C s t k ns = Some (s', l) ->
  tidf s' = tidf s /\ (wake_pc (thr s' t) = true -> psig s' = false) /\
  (forall q, thr s' t = Cb q -> cbk s' = true \/ (cbk s' = cbk s /\ psig s' = psig s)).
Proof.
  unfold cb_next. intros H. destruct (S k <? length (cbs s)).
  - inversion H; subst; clear H. nrmg. rewrite upd_same. repeat split; auto. intros K; discriminate K.
  - apply cb_end_l in H. destruct H as (A & B & D). repeat split; auto.
    intros q K. left. eapply D; eauto.
Qed.

Lemma step_linv C s t ch s' l : BInv C s -> LInv C s -> step C s t ch = Some (s', l) -> LInv C s'.
Proof.
  intros B [L1 L2] Hs.
  destruct (Nat.eq_dec t (c_loop C)) as [e|ne].
  2: { pose proof (step_other_thr C s t ch s' l (c_loop C) Hs ltac:(auto)) as Ep.
       destruct (step_other_sig C s t ch s' l B ne Hs) as (_ & E1 & _).
       assert (E2 : tidf s' = tidf s /\ cbk s' = cbk s).
       { pose proof (b_loop _ _ B t) as Hl. clear Ep E1 L1 L2.
         step_inv Hs; simpl in Hl; try (exfalso; apply ne; apply Hl; reflexivity);
           try (exfalso; apply ne; apply Nat.eqb_eq; assumption); nrmg; auto. }
       destruct E2 as [E2 E3]. unfold LInv. rewrite Ep, E1, E2, E3. split; assumption. }
  subst t.
  step_inv Hs.
  all: repeat match goal with ph : phase |- _ => destruct ph end.
  all: simpl in L1, L2.
  (* tails *)
  all: try (match goal with
            | H : exit_test _ _ _ _ = Some _ |- _ => apply exit_test_l in H; destruct H as (A & Bw & D)
            | H : fin_pass _ _ _ _ = Some _ |- _ => apply fin_pass_l in H; destruct H as (A & Bw & D)
            end;
            split; [intros _; rewrite A; nrmg; first [apply L1; reflexivity | reflexivity]
                   |intros [K|(qq & K & K2)]; [congruence|first [exfalso; eapply D; eassumption | specialize (D _ K); congruence]]]; fail).
  all: try (match goal with
            | H : seg_pass _ _ _ _ = Some _ |- _ => apply seg_pass_l in H; destruct H as (A & Bw & D)
            | H : wake_end _ _ _ _ = Some _ |- _ => apply wake_end_l in H; destruct H as (A & Bw & D)
            | H : cb_end _ _ _ _ = Some _ |- _ => apply cb_end_l in H; destruct H as (A & Bw & D)
            end;
            split; [intros _; rewrite A; nrmg; first [apply L1; reflexivity | reflexivity]
                   |intros [K|(qq & K & K2)]; [apply Bw; exact K|specialize (D _ K); congruence]]; fail).
  all: try (match goal with
            | H : cb_next _ _ _ _ _ = Some _ |- _ => apply cb_next_l in H; destruct H as (A & Bw & D)
            end;
            split; [intros _; rewrite A; nrmg; first [apply L1; reflexivity | reflexivity]
                   |intros [K|(qq & K & K2)]; [apply Bw; exact K|];
                    destruct (D _ K) as [D1|[D1 D2]]; [congruence|]; rewrite D2; nrmg; nrmh D1;
                    apply L2; right; eexists; split; [reflexivity|congruence]]; fail).
  (* explicit steps *)
  all: unfold LInv; nrmg; rewrite ?upd_same; cbn [is_loop_pc wake_pc].
  all: split.
  all: try (intros K; first [discriminate K | reflexivity | apply L1; reflexivity]; fail).
  all: try (intros [K|(qq & K & K2)]; first [discriminate K | apply L2; auto; fail
                 | apply L2; right; eexists; split; [reflexivity|assumption] | reflexivity]; fail).
Qed.

Theorem linv_all C sched : LInv C (exec sys (step C) init sched).
Proof.
  assert (H : BInv C (exec sys (step C) init sched) /\ LInv C (exec sys (step C) init sched)).
  { apply (inv_exec sys (step C) (fun s => BInv C s /\ LInv C s)).
    - intros s t c s' l [B W] Hs. split; [eapply step_binv | eapply step_linv]; eauto.
    - split; [apply init_binv | apply init_linv]. }
  exact (proj2 H).
Qed.


(* ------------------------------------------------------------------ *)
(* the rank *)
Definition cbidx (q : spc) : nat :=
  match q with QY k | QO k | QW k | QT k | QHL k _ | QHE k _ | QHU k | QHW k => k end.
Definition cboff (q : spc) : nat :=
  match q with QY _ => 10 | QO _ => 9 | QHL _ _ => 8 | QHE _ _ => 7 | QHU _ => 4 | QHW _ => 3 | QW _ => 2 | QT _ => 1 end.
Definition cbrank (s : sys) (q : spc) : nat := 11 * (length (cbs s) - cbidx q) + cboff q.
(* what the timer callback / the user's wake callback of this iteration may still cost *)
Definition TS (C : config) (s : sys) : nat :=
  if c_tmo C && c_cb_timer C then 11 * length (if c_bare C then [] else nth (tmn s) (c_cbt C) []) + 12 else 0.
Definition WS (C : config) (s : sys) : nat :=
  if c_cb_wake C then 11 * length (nth (wkn s) (c_cbw C) []) + 12 else 0.

Definition rank (C : config) (s : sys) (p : pc) : nat :=
  let Q := 2 * length (queue s) in
  let R := 2 * length (reg s) in
  let K := 2 * length (clr s) in
  match p with
  | SPollRet => Q + R + TS C s + WS C s + 110
  | ARel PhClose _ => Q + R + TS C s + (if psig s then WS C s + 101 else 30)
  | SRel PhClose _ => Q + R + TS C s + (if psig s then WS C s + 100 else 29)
  | ARead => Q + R + TS C s + WS C s + 69
  | SWake => Q + R + TS C s + WS C s + 68
  | AWLock => Q + R + TS C s + WS C s + 67
  | SRel PhDrain None => Q + R + TS C s + WS C s + 66
  | ARel PhDrain _ => Q + R + TS C s + WS C s + 65
  | SRel PhDrain (Some _) => Q + R + TS C s + WS C s + 64
  | AWUnlock => Q + R + TS C s + WS C s + 62
  | SWakeEnd => Q + R + TS C s + WS C s + 61
  | Cb q => if cbk s then Q + R + 20 + cbrank s q else Q + R + TS C s + 40 + cbrank s q
  | ARel PhClear _ => Q + K + 10
  | SRel PhClear _ => Q + K + 9
  | AXLock => Q + 8
  | SRel PhExit None => Q + 7
  | ARel PhExit _ => Q + 6
  | SRel PhExit (Some _) => Q + 5
  | AXUnlock => 3
  | SRet => 2
  | AFin => 1
  | _ => 0
  end.

(* on the way to an exit test that leaves *)
Definition ranked (C : config) (s : sys) (p : pc) : bool :=
  match p with
  | ARead | SWake | AWLock | SRel PhDrain _ | ARel PhDrain _ | AWUnlock | SWakeEnd => true
  | Cb _ => negb (cbk s) || Nat.eqb (to_exit s) ST_EXIT
  | SRel PhClose None => Nat.eqb (to_exit s) ST_EXIT
  | SPollRet | SRel PhClose (Some _) | ARel PhClose _ =>
    Nat.eqb (to_exit s) ST_EXIT ||
    (psig s && has_none (todo s) && match c_be C with BPoll => false | _ => true end)
  | _ => leaving p
  end.

Lemma drop_length_le x l : length (drop x l) <= length l.
Proof. unfold drop. induction l as [|y l IH]; simpl; [lia|]. destruct (negb (y =? x)); simpl; lia. Qed.
Lemma drop_length_lt x l : In x l -> length (drop x l) < length l.
Proof.
  induction l as [|y l IH]; intros H; [destruct H|]. unfold drop. simpl.
  destruct (Nat.eqb_spec y x) as [->|ne]; simpl.
  - pose proof (drop_length_le x l). unfold drop in *. lia.
  - destruct H as [H|H]; [congruence|]. specialize (IH H). unfold drop in IH. lia.
Qed.

Lemma drain_len C : c_fix_add C = true -> forall q rg lk n q' rg' lk' n' st,
  drain C q rg lk n = (q', rg', lk', n', st) -> length q' + length rg' = length q + length rg.
Proof.
  intros Hfix q rg lk n q' rg' lk' n' st H. apply (drain_spec C Hfix) in H.
  destruct H as (m & -> & -> & _ & _). rewrite !app_length. lia.
Qed.

(* ---- the tail segments ---- *)
Lemma exit_test_rank C s t ns s' l : to_exit s = ST_EXIT -> exit_test C s t ns = Some (s', l) ->
  ranked C s' (thr s' t) = true /\ rank C s' (thr s' t) <= 2 * length (queue s) + 2 * length (reg s) + 8.
Proof.
  unfold exit_test. intros E H. rewrite E in H. cbn [Nat.eqb ST_EXIT] in H.
  destruct (c_bare C); [|destruct (reg s) as [|id r] eqn:Er];
    inversion H; subst; clear H; rewrite thr_set_pc_same; (split; [reflexivity|]); unfold rank; nrmg; simpl; lia.
Qed.

Lemma fin_pass_rank C s t ns s' l : to_exit s = ST_EXIT -> fin_pass C s t ns = Some (s', l) ->
  ranked C s' (thr s' t) = true /\ rank C s' (thr s' t) <= 2 * length (queue s) + 2 * length (reg s) + TS C s + 18.
Proof.
  unfold fin_pass, TS. intros E H.
  destruct (c_tmo C && c_cb_timer C).
  - match type of H with (if is_nil (cbs ?x) then _ else _) = _ => set (s1 := x) in * end.
    destruct (is_nil (cbs s1)) eqn:En.
    + destruct (exit_test_rank C s1 t _ s' l E H) as [A B]. split; [exact A|]. unfold s1 in B. nrmh B. lia.
    + inversion H; subst; clear H. rewrite thr_set_pc_same. split.
      * unfold ranked, s1. nrmg. rewrite E. rewrite Nat.eqb_refl. apply Bool.orb_true_r.
      * unfold rank, cbrank, s1. nrmg. simpl. lia.
  - destruct (exit_test_rank C s t _ s' l E H) as [A B]. split; [exact A|]. lia.
Qed.

Definition pass_pre (C : config) (s : sys) : Prop :=
  to_exit s = ST_EXIT \/ (psig s = true /\ In None (todo s) /\ c_be C <> BPoll).

Lemma ranked_pass_pre C s : to_exit s <> 0 ->
  (Nat.eqb (to_exit s) ST_EXIT || (psig s && has_none (todo s) && match c_be C with BPoll => false | _ => true end)) = true ->
  pass_pre C s.
Proof.
  intros _ H. apply Bool.orb_prop in H. destruct H as [H|H]; [left; apply Nat.eqb_eq; exact H|right].
  apply andb_prop in H. destruct H as [H H3]. apply andb_prop in H. destruct H as [H1 H2].
  split; [exact H1|]. split; [apply has_none_In; exact H2|]. intros K. rewrite K in H3. discriminate.
Qed.
Lemma pass_pre_ranked C s : pass_pre C s ->
  (Nat.eqb (to_exit s) ST_EXIT || (psig s && has_none (todo s) && match c_be C with BPoll => false | _ => true end)) = true.
Proof.
  intros [H|(H1 & H2 & H3)]; [rewrite H; reflexivity|]. apply Bool.orb_true_iff. right.
  rewrite H1. apply has_none_In in H2. rewrite H2. destruct (c_be C); auto; congruence.
Qed.

Lemma seg_pass_rank C s t ns s' l : pass_pre C s -> seg_pass C s t ns = Some (s', l) ->
  ranked C s' (thr s' t) = true /\
  rank C s' (thr s' t) <= 2 * length (queue s) + 2 * length (reg s) + TS C s + (if psig s then WS C s + 101 else 30).
Proof.
  intros Hp H. unfold seg_pass in H.
  destruct (pass C (hup s) (peof s) (rdy s) (rdh s) (psig s) (pn s) (todo s) ns []) as [[[[n td] r] ns'] dr] eqn:E.
  destruct r as [|id|].
  - inversion H; subst; clear H. rewrite thr_set_pc_same. split; [reflexivity|].
    apply pass_read_sg in E. destruct E as [E _]. rewrite E. unfold rank, TS, WS. nrmg. lia.
  - inversion H; subst; clear H. rewrite thr_set_pc_same. split.
    + unfold ranked. apply pass_pre_ranked. destruct Hp as [K|(K1 & K2 & K3)]; [left; exact K|right].
      nrmg. split; [exact K1|]. split; [|exact K3]. rewrite K1 in E. eapply pass_close_keeps_none; eauto.
    + unfold rank, TS, WS. nrmg. destruct (psig s); lia.
  - assert (Ex : to_exit s = ST_EXIT).
    { destruct Hp as [K|(K1 & K2 & K3)]; [exact K|]. exfalso. apply K3. rewrite K1 in E. eapply pass_end_none_poll; eauto. }
    match type of H with fin_pass _ ?x _ _ = _ => set (s1 := x) in * end.
    destruct (fin_pass_rank C s1 t _ s' l Ex H) as [A B]. split; [exact A|].
    unfold s1, TS in B. nrmh B. unfold TS. destruct (psig s); lia.
Qed.

Lemma wake_end_rank C s t ns s' l :
  (to_exit s = ST_EXIT \/ to_exit s = ST_WAKE) -> psig s = false -> wake_end C s t ns = Some (s', l) ->
  ranked C s' (thr s' t) = true /\ rank C s' (thr s' t) <= 2 * length (queue s) + 2 * length (reg s) + TS C s + 30.
Proof.
  intros Hd Hps H. unfold wake_end in H.
  match type of H with seg_pass _ ?x _ _ = _ => set (s1 := x) in * end.
  assert (P1 : pass_pre C s1).
  { left. unfold s1. nrmg. destruct Hd as [K|K]; rewrite K; reflexivity. }
  destruct (seg_pass_rank C s1 t _ s' l P1 H) as [A B]. split; [exact A|].
  unfold s1, TS in B. nrmh B. rewrite Hps in B. unfold TS. lia.
Qed.

Lemma cb_end_rank C s t ns s' l :
  (to_exit s = ST_EXIT \/ to_exit s = ST_WAKE) -> (cbk s = false -> psig s = false) -> (cbk s = true -> to_exit s = ST_EXIT) ->
  cb_end C s t ns = Some (s', l) ->
  ranked C s' (thr s' t) = true /\
  rank C s' (thr s' t) <= 2 * length (queue s) + 2 * length (reg s) + (if cbk s then 8 else TS C s + 30).
Proof.
  intros Hd Hps Hx H. unfold cb_end in H. destruct (cbk s).
  - eapply exit_test_rank; eauto.
  - destruct (wake_end_rank C s t _ s' l Hd (Hps eq_refl) H) as [A B]. split; [exact A|lia].
Qed.

Lemma cb_next_rank C s t k ns s' l :
  (to_exit s = ST_EXIT \/ to_exit s = ST_WAKE) -> (cbk s = false -> psig s = false) -> (cbk s = true -> to_exit s = ST_EXIT) ->
  cb_next C s t k ns = Some (s', l) ->
  ranked C s' (thr s' t) = true /\
  rank C s' (thr s' t) <= 2 * length (queue s) + 2 * length (reg s) + (if cbk s then 20 else TS C s + 40) + 11 * (length (cbs s) - k).
Proof.
  intros Hd Hps Hx H. unfold cb_next in H. destruct (S k <? length (cbs s)) eqn:El.
  - inversion H; subst; clear H. rewrite thr_set_pc_same. apply Nat.ltb_lt in El. split.
    + unfold ranked. nrmg. destruct (cbk s); [rewrite (Hx eq_refl); reflexivity|reflexivity].
    + unfold rank, cbrank, TS. nrmg. simpl cbidx. simpl cboff. destruct (cbk s); lia.
  - destruct (cb_end_rank C s t _ s' l Hd Hps Hx H) as [A B]. split; [exact A|]. destruct (cbk s); lia.
Qed.

Theorem loop_step_decreases_rank C s ch s' l :
  c_fix_exit C = true -> c_fix_add C = true ->
  BInv C s -> EInv C s -> HInv C s -> LInv C s ->
  to_exit s <> 0 -> ranked C s (thr s (c_loop C)) = true -> thr s (c_loop C) <> Done ->
  step C s (c_loop C) ch = Some (s', l) ->
  ranked C s' (thr s' (c_loop C)) = true /\
  rank C s' (thr s' (c_loop C)) < rank C s (thr s (c_loop C)).
Proof.
  intros Hfx Hfa B [Hd _] H [L1 L2] Hne Hr Hnd Hs. pose proof (h_head _ _ H) as Hh.
  assert (Hd2 : to_exit s = ST_EXIT \/ to_exit s = ST_WAKE) by (destruct Hd as [K|K]; [contradiction|exact K]).
  step_inv Hs.
  all: repeat match goal with ph : phase |- _ => destruct ph end.
  all: cbn [ranked leaving] in Hr; try discriminate Hr.
  all: simpl in Hh, L1, L2.
  (* tails *)
  all: try (match goal with H0 : cb_next _ ?s1 _ ?k0 _ = Some _ |- _ =>
              edestruct (fun a b c => cb_next_rank C s1 _ k0 _ _ _ a b c H0) as [A Bx];
              [ nrmg; first [exact Hd2 | left; reflexivity | right; reflexivity]
              | nrmg; intros Kc; apply L2; right; eexists; split; [reflexivity|exact Kc]
              | nrmg; intros Kc; rewrite Kc in Hr; first [reflexivity | apply Nat.eqb_eq; exact Hr]
              | split; [exact A|]; eapply Nat.le_lt_trans; [exact Bx|]; unfold rank, cbrank, TS, WS; nrmg; simpl cbidx; simpl cboff;
                destruct (cbk s); lia ] end; fail).
  all: try (match goal with H0 : cb_end _ ?s1 _ _ = Some _ |- _ =>
              edestruct (fun a b c => cb_end_rank C s1 _ _ _ _ a b c H0) as [A Bx];
              [ nrmg; exact Hd2
              | nrmg; intros Kc; apply L2; right; eexists; split; [reflexivity|exact Kc]
              | nrmg; intros Kc; rewrite Kc in Hr; apply Nat.eqb_eq; exact Hr
              | split; [exact A|]; eapply Nat.le_lt_trans; [exact Bx|]; unfold rank, cbrank, TS, WS; nrmg; simpl cbidx; simpl cboff;
                destruct (cbk s); lia ] end; fail).
  all: try (match goal with H0 : wake_end _ ?s1 _ _ = Some _ |- _ =>
              edestruct (fun a b => wake_end_rank C s1 _ _ _ _ a b H0) as [A Bx];
              [ nrmg; exact Hd2
              | nrmg; apply L2; left; reflexivity
              | split; [exact A|]; eapply Nat.le_lt_trans; [exact Bx|]; unfold rank, TS, WS; nrmg; lia ] end; fail).
  all: try (match goal with H0 : seg_pass _ ?s1 _ _ = Some _ |- _ =>
              edestruct (fun a => seg_pass_rank C s1 _ _ _ _ a H0) as [A Bx];
              [ apply ranked_pass_pre; [exact Hne|exact Hr]
              | split; [exact A|]; eapply Nat.le_lt_trans; [exact Bx|]; unfold rank, TS, WS; nrmg;
                try (match goal with |- context [drop ?x (reg ?z)] =>
                       pose proof (drop_length_lt x (reg z) (proj1 (h_closing _ _ H x ltac:(match goal with E : thr _ _ = _ |- _ => rewrite E; reflexivity end)))) end);
                destruct (psig s); lia ] end; fail).
  all: try (match goal with H0 : fin_pass _ ?s1 _ _ = Some _ |- _ =>
              edestruct (fun a => fin_pass_rank C s1 _ _ _ _ a H0) as [A Bx];
              [ nrmg; first [ apply Nat.eqb_eq; exact Hr
                            | destruct Hd2 as [K|K]; rewrite K; reflexivity
                            | (* after a close, poll back-end: the pass is over only with EXIT *)
                              apply Bool.orb_prop in Hr; destruct Hr as [Hr|Hr]; [apply Nat.eqb_eq; exact Hr|];
                              exfalso; unfold poll_done in *; destruct (c_be C); try discriminate;
                              rewrite Bool.andb_false_r in Hr; discriminate Hr ]
              | split; [exact A|]; eapply Nat.le_lt_trans; [exact Bx|]; unfold rank, TS, WS; nrmg;
                try (match goal with |- context [drop ?x (reg ?z)] =>
                       pose proof (drop_length_lt x (reg z) (proj1 (h_closing _ _ H x ltac:(match goal with E : thr _ _ = _ |- _ => rewrite E; reflexivity end)))) end);
                destruct (psig s); lia ] end; fail).
  (* explicit steps *)
  all: rewrite ?thr_set_pc_same.
  all: repeat match goal with
       | E : drain _ _ _ _ _ = _ |- _ => apply (drain_len C Hfa) in E; nrmh E
       end.
  all: try (destruct Hh as [r0 Hq]; rewrite Hq in *; simpl tl in * ).
  all: split; [unfold ranked; nrmg; cbn [leaving negb orb]; try reflexivity|].
  all: try (unfold rank, TS, WS, cbrank; nrmg; simpl cbidx; simpl cboff;
            repeat match goal with Eq : queue _ = _ |- _ => rewrite Eq in *
                                 | Eq : reg _ = _ |- _ => rewrite Eq in *
                                 | Eq : clr _ = _ |- _ => nrmh Eq; rewrite Eq in * end;
            rewrite ?app_length; simpl length in *; destruct (cbk s); destruct (psig s); lia).
  all: try exact Hr.
  all: try (apply Bool.orb_true_r).
  all: try (exfalso; assert (Kt : tidf s = c_loop C) by (apply L1; reflexivity);
            match goal with Hb : (tidf _ =? _) = false |- _ => rewrite Kt, Nat.eqb_refl in Hb; discriminate Hb end).
  unfold rank, TS, WS, cbrank. nrmg. simpl cbidx. simpl cboff.
  match goal with Hb : c_cb_wake C = true |- _ => rewrite Hb end. lia.
Qed.

(* steps of the other threads: only an enqueue changes the rank, by 2 *)
Theorem other_step_rank C s t ch s' l :
  BInv C s -> t <> c_loop C -> step C s t ch = Some (s', l) ->
  thr s' (c_loop C) = thr s (c_loop C) /\
  rank C s' (thr s (c_loop C)) <= rank C s (thr s (c_loop C)) + 2.
Proof.
  intros B Hne Hs. split; [eapply step_other_thr; eauto|].
  assert (E : reg s' = reg s /\ clr s' = clr s /\ psig s' = psig s /\ cbk s' = cbk s /\ cbs s' = cbs s /\ tmn s' = tmn s /\
              wkn s' = wkn s /\ (queue s' = queue s \/ exists id, queue s' = queue s ++ [id])).
  { pose proof (b_loop _ _ B t) as Hl.
    step_inv Hs; simpl in Hl; try (exfalso; apply Hne; apply Hl; reflexivity);
      try (exfalso; apply Hne; apply Nat.eqb_eq; assumption); nrmg; repeat split; eauto. }
  destruct E as (E1 & E2 & E3 & E4 & E5 & E6 & E7 & E8).
  unfold rank, TS, WS, cbrank. rewrite E1, E2, E3, E4, E5, E6, E7.
  assert (Hq : length (queue s') <= length (queue s) + 1).
  { destruct E8 as [->|[id ->]]; [lia|rewrite app_length; simpl; lia]. }
  destruct (thr s (c_loop C)); try lia;
    repeat match goal with ph : phase |- _ => destruct ph | o : option nat |- _ => destruct o end; try lia;
    destruct (cbk s); destruct (psig s); lia.
Qed.

(* the loop thread finishes only through the return of muggle_evloop_run *)
Definition RInv (C : config) (s : sys) : Prop :=
  thr s (c_loop C) = AFin \/ thr s (c_loop C) = Done -> returned s = true.

Lemma step_rinv C s t ch s' l : BInv C s -> RInv C s -> step C s t ch = Some (s', l) -> RInv C s'.
Proof.
  intros B Hr Hs. unfold RInv in *.
  destruct (Nat.eq_dec t (c_loop C)) as [e|ne].
  2: { rewrite (step_other_thr C s t ch s' l (c_loop C) Hs) by auto. intros K. specialize (Hr K).
       destruct (step_other_k C s t ch s' l B ne Hs) as (_ & _ & _ & _ & E & _). congruence. }
  subst t.
  step_inv Hs.
  all: repeat match goal with ph : phase |- _ => destruct ph end.
  (* tails: they end at AFin only through the bare loop's return *)
  all: try (match goal with
            | H : exit_test _ _ _ _ = Some _ |- _ => pose proof (exit_test_k _ _ _ _ _ _ H) as KT
            | H : fin_pass _ _ _ _ = Some _ |- _ => pose proof (fin_pass_k _ _ _ _ _ _ H) as KT
            | H : seg_pass _ _ _ _ = Some _ |- _ => pose proof (seg_pass_k _ _ _ _ _ _ H) as KT
            | H : wake_end _ _ _ _ = Some _ |- _ => pose proof (wake_end_k _ _ _ _ _ _ H) as KT
            | H : cb_end _ _ _ _ = Some _ |- _ => pose proof (cb_end_k _ _ _ _ _ _ H) as KT
            | H : cb_next _ _ _ _ _ = Some _ |- _ => pose proof (cb_next_k _ _ _ _ _ _ _ H) as KT
            end;
            destruct KT as (_ & T2 & T3); intros K;
            destruct T3 as [(_ & [T|[T|[[i0 T]|[k0 T]]]])|[(_ & i0 & T & _)|[(_ & T & _)|(T & Tb & Tr)]]];
            first [ exact Tr | exfalso; destruct K as [K|K]; congruence ]; fail).
  (* explicit steps *)
  all: nrmg; rewrite ?upd_same.
  all: try (intros [K|K]; discriminate K).
  all: try (intros _; reflexivity).
  all: try (intros _; apply Hr; left; assumption).
  - exfalso. match goal with Hb : (?a =? ?a) = false |- _ => rewrite Nat.eqb_refl in Hb; discriminate Hb end.
  - intros _. apply Hr. left. reflexivity.
Qed.

Lemma rinv_all C sched : RInv C (exec sys (step C) init sched).
Proof.
  assert (H : BInv C (exec sys (step C) init sched) /\ RInv C (exec sys (step C) init sched)).
  { apply (inv_exec sys (step C) (fun s => BInv C s /\ RInv C s)).
    - intros s t c s' l [B W] Hs. split; [eapply step_binv | eapply step_rinv]; eauto.
    - split; [apply init_binv | intros [X|X]; discriminate X]. }
  exact (proj2 H).
Qed.

(* for every schedule: the hypotheses of the two theorems hold in every reachable state *)
Theorem exit_variant_all C sched : c_fix_exit C = true -> c_fix_add C = true ->
  let s := exec sys (step C) init sched in
  (forall ch s' l, to_exit s <> 0 -> ranked C s (thr s (c_loop C)) = true -> thr s (c_loop C) <> Done ->
     step C s (c_loop C) ch = Some (s', l) ->
     ranked C s' (thr s' (c_loop C)) = true /\ rank C s' (thr s' (c_loop C)) < rank C s (thr s (c_loop C))) /\
  (forall t ch s' l, t <> c_loop C -> step C s t ch = Some (s', l) ->
     thr s' (c_loop C) = thr s (c_loop C) /\ rank C s' (thr s (c_loop C)) <= rank C s (thr s (c_loop C)) + 2) /\
  (rank C s (thr s (c_loop C)) = 1 -> returned s = true).
Proof.
  intros Hfx Hfa s. pose proof (binv_all C sched) as B. pose proof (einv_all C sched Hfx) as E.
  pose proof (hinv_all C sched Hfa) as H. pose proof (linv_all C sched) as L. fold s in B, E, H, L.
  split; [|split].
  - intros. eapply loop_step_decreases_rank; eauto.
  - intros. eapply other_step_rank; eauto.
  - intros Hr1. apply (rinv_all C sched). fold s. left.
    unfold rank, cbrank in Hr1. destruct (thr s (c_loop C)); try reflexivity; try lia;
      repeat match goal with ph : phase |- _ => destruct ph | o : option nat |- _ => destruct o | q : spc |- _ => destruct q end;
      simpl in Hr1; destruct (cbk s); destruct (psig s); lia.
Qed.

(* non-vacuity: shutdown and exit in the same iteration; at the end of on_wake the loop is on its
   way out and the rank bounds what is left (wake callback script, clear of the flagged context,
   exit callback, return) *)
Example variant_example :
  let C := cfg_shut_exit BEpoll in
  let s := exec sys (step C) init (repeat (0, 0) 20 ++ repeat (1, 0) 9) in
  thr s 1 = AWUnlock /\ to_exit s <> 0 /\ ranked C s (thr s 1) = true /\ rank C s (thr s 1) = 87.
Proof. vm_compute. repeat split; try reflexivity; discriminate. Qed.
