(* C14 — without the deletion (c_del = false) the loop is never marked freed and no call is
   counted on a deleted loop.  lfreed is written at two places only (the return of
   muggle_evloop_run: SRet, and the bare loop's exit test), both with the value c_del. *)
From MV Require Import C14.Model C14.ProofsBase C14.ProofsUaf.
From Coq Require Import List.
Import ListNotations.

Definition LF (C : config) (s s' : sys) : Prop := lfreed s' = lfreed s \/ lfreed s' = c_del C.

Lemma exit_test_lf C s t ns s' l : exit_test C s t ns = Some (s', l) -> LF C s s'.
Proof.
  unfold exit_test, LF. intros H.
  destruct (to_exit s =? ST_EXIT); [destruct (c_bare C); [|destruct (reg s) as [|id r]]|];
    inversion H; subst; clear H; nrmg; auto.
Qed.
Lemma fin_pass_lf C s t ns s' l : fin_pass C s t ns = Some (s', l) -> LF C s s'.
Proof.
  unfold fin_pass. intros H. destruct (c_tmo C && c_cb_timer C); [|eapply exit_test_lf; eauto].
  cbv zeta in H. match type of H with (if ?b then _ else _) = _ => destruct b end.
  - apply exit_test_lf in H. unfold LF in *. nrmh H. exact H.
  - inversion H; subst; clear H. unfold LF. nrmg. auto.
Qed.
Lemma seg_pass_lf C s t ns s' l : seg_pass C s t ns = Some (s', l) -> LF C s s'.
Proof.
  unfold seg_pass. intros H.
  destruct (pass C (hup s) (peof s) (rdy s) (rdh s) (psig s) (pn s) (todo s) ns []) as [[[[n td] r] ns'] dr].
  destruct r.
  3: { apply fin_pass_lf in H. unfold LF in *. nrmh H. exact H. }
  all: inversion H; subst; clear H; unfold LF; nrmg; auto.
Qed.
Lemma wake_end_lf C s t ns s' l : wake_end C s t ns = Some (s', l) -> LF C s s'.
Proof. unfold wake_end. cbv zeta. intros H. apply seg_pass_lf in H. unfold LF in *. nrmh H. exact H. Qed.
Lemma cb_end_lf C s t ns s' l : cb_end C s t ns = Some (s', l) -> LF C s s'.
Proof. unfold cb_end. intros H. destruct (cbk s); [eapply exit_test_lf|eapply wake_end_lf]; eauto. Qed.
Lemma cb_next_lf C s t k ns s' l : cb_next C s t k ns = Some (s', l) -> LF C s s'.
Proof.
  unfold cb_next. intros H. destruct (S k <? length (cbs s)); [|eapply cb_end_lf; eauto].
  inversion H; subst; clear H. unfold LF. nrmg. auto.
Qed.

Ltac tail_lf :=
  repeat match goal with
  | H : exit_test _ _ _ _ = Some _ |- _ => apply exit_test_lf in H
  | H : fin_pass _ _ _ _ = Some _ |- _ => apply fin_pass_lf in H
  | H : seg_pass _ _ _ _ = Some _ |- _ => apply seg_pass_lf in H
  | H : wake_end _ _ _ _ = Some _ |- _ => apply wake_end_lf in H
  | H : cb_end _ _ _ _ = Some _ |- _ => apply cb_end_lf in H
  | H : cb_next _ _ _ _ _ = Some _ |- _ => apply cb_next_lf in H
  end.

Lemma step_lf C s t ch s' l : step C s t ch = Some (s', l) -> LF C s s'.
Proof.
  intros Hs. step_inv Hs; tail_lf; unfold LF in *; nrm; auto.
Qed.

Theorem no_uaf_without_deletion C sched : c_del C = false ->
  let s := exec sys (step C) init sched in lfreed s = false /\ g_uaf s = 0.
Proof.
  intros Hd. cbv zeta.
  apply (inv_exec sys (step C) (fun s => lfreed s = false /\ g_uaf s = 0)); [|split; reflexivity].
  intros s t c s' l [I1 I2] Hs. split.
  - destruct (step_lf C s t c s' l Hs) as [E|E]; congruence.
  - destruct (uaf_step C s t c s' l Hs) as [E|[E _]]; congruence.
Qed.
