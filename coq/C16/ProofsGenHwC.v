(* C16 — second tie, the time-rotating handler (see C16/ProofsGen.v for the statements' vocabulary and the decision tactics). *)
From MV Require Import Lib.Leaf C16.Model C16.ProofsSeq C16.ProofsFmt gen.Params_C16 C16.ProofsGen.
From Coq Require Import ZifyBool.
Local Open Scope Z_scope.
Ltac Zify.zify_post_hook ::= Z.to_euclidean_division_equations.

Lemma gen_time_rot_write_eq : forall s, hw_dom s ->
  hw_spec (Z.of_nat code_limit) s (gen_time_rot_write s) (trot_wrote s) /\ rot_spec_time s (gen_time_rot_write s).
Proof.
  intros s Hd. unfold hw_dom in Hd. unfold rot_spec_time, trot_wrote, gen_time_rot_write, gen_time_rot_write_raw.
  split; hw_decide.
Qed.
