(* C16 — second tie, muggle_sync_logger_log (see C16/ProofsGen.v for the statements' vocabulary and the decision tactics). *)
From MV Require Import Lib.Leaf C16.Model C16.ProofsSeq C16.ProofsFmt gen.Params_C16 C16.ProofsGen.
From Coq Require Import ZifyBool.
Local Open Scope Z_scope.
Ltac Zify.zify_post_hook ::= Z.to_euclidean_division_equations.

Lemma gen_sync_log_eq : forall lg level s,
  (length (lg_handlers lg) <= lv_max_handler code_levels)%nat -> lg_dom lg level s ->
  sync_log_spec (Z.of_nat code_limit) (prefilter true lg level) level s (gen_sync_log s).
Proof.
  intros [hs low] level s Hlen (Hc & Hl & Hv & Ho). cbn [lg_handlers] in *.
  unfold code_levels in Hlen; cbn [lv_max_handler] in Hlen.
  unfold sync_log_spec, prefilter, gen_sync_log, gen_sync_log_raw. cbn [lg_handlers]. rewrite Hc, Hl, Hv, Ho.
  clear Hc Hl Hv Ho. enum_handlers hs Hlen lg_case.
Qed.
