(* C16 — second tie, the plain file handler and the console handler (see C16/ProofsGen.v for the statements' vocabulary and the decision tactics). *)
From MV Require Import Lib.Leaf C16.Model C16.ProofsSeq C16.ProofsFmt gen.Params_C16 C16.ProofsGen.
From Coq Require Import ZifyBool.
Local Open Scope Z_scope.
Ltac Zify.zify_post_hook ::= Z.to_euclidean_division_equations.

Lemma gen_file_write_eq : forall s, hw_dom s ->
  hw_spec (Z.of_nat code_limit) s (gen_file_write s) (negb (io_fp_ok s =? 0)).
Proof. intros s Hd. unfold hw_dom in Hd. unfold gen_file_write, gen_file_write_raw. hw_decide. Qed.

Lemma gen_console_write_eq : forall s, hw_dom s -> hw_spec (Z.of_nat code_limit) s (gen_console_write s) true.
Proof. intros s Hd. unfold hw_dom in Hd. unfold gen_console_write, gen_console_write_raw. hw_decide. Qed.
