(* C16 — second tie, the size-rotating handler (see C16/ProofsGen.v for the statements' vocabulary and the decision tactics). *)
From MV Require Import Lib.Leaf C16.Model C16.ProofsSeq C16.ProofsFmt gen.Params_C16 C16.ProofsGen.
From Coq Require Import ZifyBool.
Local Open Scope Z_scope.
Ltac Zify.zify_post_hook ::= Z.to_euclidean_division_equations.

Lemma gen_rotate_write_eq : forall s, hw_dom s ->
  hw_spec (Z.of_nat code_limit) s (gen_rotate_write s) (negb (io_fp_ok s =? 0)) /\
  rot_spec_size (Z.of_nat code_limit) s (gen_rotate_write s).
Proof.
  intros s Hd. unfold hw_dom in Hd. unfold rot_spec_size, gen_rotate_write, gen_rotate_write_raw. cbn [fst snd].
  split; hw_decide.
Qed.
