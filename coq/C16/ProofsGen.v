(* C16 — second tie: what lib/props/c16_slice.py re-translated from the C text of muggle/c/log on
   this run (gen/Params_C16.v) equals the model's definitions.

   The proofs are deliberately independent of the SHAPE of the generated terms (guard clauses,
   hoisted locals, helper functions, clamp written with a named maximum, store before or after the
   assignment): everything is unfolded, every comparison is split, and what is left is decided by
   lia, so that a behaviour-preserving rewrite of the C text keeps these obligations while a
   semantic change (an off-by-one in a clamp, > for >= in a level test, a swapped field of the
   prefix) breaks them.  Every arithmetic call is time-limited. *)
From MV Require Import Lib.Leaf C16.Model C16.ProofsSeq C16.ProofsFmt gen.Params_C16.
From Coq Require Import ZifyBool.
Local Open Scope Z_scope.
Ltac Zify.zify_post_hook ::= Z.to_euclidean_division_equations.

(* ------------------------------------------------------------------ *)
(* decision tactics                                                    *)

(* a C boolean that went through int and back *)
Lemma z2b_b2z b : z2b (Leaf.b2z b) = b.
Proof. destruct b; reflexivity. Qed.

Ltac leaf_unfold :=
  cbv beta zeta; rewrite ?z2b_b2z;
  unfold wrapu, z2b, Leaf.b2z, cdiv, crem in *;
  change (2 ^ 31) with 2147483648 in *; change (2 ^ 32) with 4294967296 in *;
  change (2 ^ 63) with 9223372036854775808 in *; change (2 ^ 64) with 18446744073709551616 in *.

(* closed sub-terms are computed (loop counters, lengths of concrete lists) *)
Ltac eval_closed :=
  repeat match goal with
  | |- context [Z.of_nat ?n] =>
    let v := eval vm_compute in (Z.of_nat n) in
    lazymatch v with Z0 => idtac | Zpos _ => idtac end; progress change (Z.of_nat n) with v
  | |- context [Z.to_nat ?z] =>
    let v := eval vm_compute in (Z.to_nat z) in
    lazymatch v with O => idtac | S _ => idtac end;
    let w := eval vm_compute in (Nat.leb v 64) in lazymatch w with true => idtac end;
    progress change (Z.to_nat z) with v
  | |- context [Z.ltb ?a ?b] =>
    let v := eval vm_compute in (Z.ltb a b) in
    lazymatch v with true => change (Z.ltb a b) with true | false => change (Z.ltb a b) with false end
  | |- context [Z.geb ?a ?b] =>
    let v := eval vm_compute in (Z.geb a b) in
    lazymatch v with true => change (Z.geb a b) with true | false => change (Z.geb a b) with false end
  | |- context [Z.eqb ?a ?b] =>
    let v := eval vm_compute in (Z.eqb a b) in
    lazymatch v with true => change (Z.eqb a b) with true | false => change (Z.eqb a b) with false end
  end.

Ltac simp_bool := cbn [andb orb negb]; cbv beta iota zeta.

(* split one comparison, wherever it occurs (conditions of the generated term and of the statement
   alike), and close the branch at once when it is impossible *)
Ltac split_atom :=
  match goal with
  | |- context [Z.ltb ?a ?b] => destruct (Z.ltb a b) eqn:?
  | |- context [Z.leb ?a ?b] => destruct (Z.leb a b) eqn:?
  | |- context [Z.gtb ?a ?b] => destruct (Z.gtb a b) eqn:?
  | |- context [Z.geb ?a ?b] => destruct (Z.geb a b) eqn:?
  | |- context [Z.eqb ?a ?b] => destruct (Z.eqb a b) eqn:?
  end; simp_bool; try (exfalso; timeout 10 lia).

(* the same without the attempt to refute the branch (for terms whose comparisons are independent) *)
Ltac split_atom0 :=
  match goal with
  | |- context [Z.ltb ?a ?b] => destruct (Z.ltb a b) eqn:?
  | |- context [Z.leb ?a ?b] => destruct (Z.leb a b) eqn:?
  | |- context [Z.gtb ?a ?b] => destruct (Z.gtb a b) eqn:?
  | |- context [Z.geb ?a ?b] => destruct (Z.geb a b) eqn:?
  | |- context [Z.eqb ?a ?b] => destruct (Z.eqb a b) eqn:?
  end; simp_bool.

Ltac finish :=
  repeat match goal with |- _ /\ _ => split end;
  first [ reflexivity | timeout 20 lia | (f_equal; timeout 20 lia) | (repeat f_equal; timeout 20 lia)
        | (exfalso; timeout 20 lia) | timeout 40 nia ].

Ltac decide_all := leaf_unfold; simp_bool; repeat split_atom; finish.

(* ------------------------------------------------------------------ *)
(* 1. the level test of a handler                                      *)

Lemma gen_should_write_eq : forall h level, gen_should_write (h_level h) level = should_write h level.
Proof.
  intros h level. unfold gen_should_write, gen_should_write_raw, should_write.
  generalize (h_level h). intros hl. decide_all.
Qed.

(* ------------------------------------------------------------------ *)
(* 2. level names                                                      *)

Lemma gen_level_index_eq : forall lv, gen_level_index lv = level_index code_fmtcfg lv.
Proof.
  intros lv. unfold gen_level_index, level_index, code_fmtcfg, code_level_offset. cbn [fc_offset fc_names].
  eval_closed. cbv zeta.
  first [ generalize (Z.shiftr lv 8); intros i; decide_all
        | (rewrite ?Z.shiftr_div_pow2 by lia; decide_all) ].
Qed.

(* ------------------------------------------------------------------ *)
(* 3. the layout of the two built-in formatters                        *)

Definition fenv_ok (e : fenv) : Prop :=
  0 <= fe_line e < 2 ^ 32 /\ 0 <= fe_tid e < 2 ^ 64 /\ 0 <= fe_nsec e < 1000000000 /\ 0 <= fe_sec e < 2 ^ 63.

Ltac lay_num :=
  first [ reflexivity | timeout 20 lia
        | (rewrite Z.quot_div_nonneg by (timeout 20 lia); first [reflexivity | timeout 20 lia]) ].

Ltac lay :=
  lazymatch goal with
  | |- @app _ _ _ = @app _ _ _ => apply f_equal2; [lay | lay]
  | |- @cons _ _ _ = @cons _ _ _ => apply f_equal2; [reflexivity | lay]
  | |- dec_pad _ _ = dec_pad _ _ => apply f_equal2; [reflexivity | lay_num]
  | |- _ => reflexivity
  end.

Ltac layout_decide :=
  cbn [render render_item]; cbv beta zeta; unfold nl; leaf_unfold;
  rewrite ?Z.mod_small by (timeout 20 lia);
  rewrite <- ?app_assoc; cbn [app]; lay.

Lemma gen_fmt_simple_eq : forall e, fenv_ok e -> render code_fmtcfg e gen_fmt_simple = fmt_simple code_fmtcfg e.
Proof.
  intros e (Hl & Ht & Hn & Hs). unfold gen_fmt_simple, fmt_simple. layout_decide.
Qed.

Lemma gen_fmt_complicated_eq : forall e, fenv_ok e ->
  render code_fmtcfg e gen_fmt_complicated = fmt_complicated code_fmtcfg e.
Proof.
  intros e (Hl & Ht & Hn & Hs). unfold gen_fmt_complicated, fmt_complicated. layout_decide.
Qed.

(* the formatters muggle_log_simple_init / muggle_log_complicated_init install (log.c) *)
Lemma gen_fmt_init_simple_eq : forall e, fenv_ok e ->
  render code_fmtcfg e gen_fmt_init_simple = fmt_init_simple code_fmtcfg e.
Proof.
  intros e (Hl & Ht & Hn & Hs). unfold gen_fmt_init_simple, fmt_init_simple. layout_decide.
Qed.

Lemma gen_fmt_init_complicated_eq : forall e, fenv_ok e ->
  render code_fmtcfg e gen_fmt_init_complicated = fmt_complicated code_fmtcfg e.
Proof.
  intros e (Hl & Ht & Hn & Hs). unfold gen_fmt_init_complicated, fmt_complicated. layout_decide.
Qed.

Lemma gen_fmt_init_ret_eq : forall r o, gen_fmt_init_simple_ret r o = r /\ gen_fmt_init_complicated_ret r o = r.
Proof.
  intros r o. unfold gen_fmt_init_simple_ret, gen_fmt_init_simple_ret_raw, gen_fmt_init_complicated_ret,
    gen_fmt_init_complicated_ret_raw.
  split; decide_all.
Qed.

(* the formatters hand snprintf's result back unchanged *)
Lemma gen_fmt_ret_eq : forall r o, gen_fmt_simple_ret r o = r /\ gen_fmt_complicated_ret r o = r.
Proof.
  intros r o. unfold gen_fmt_simple_ret, gen_fmt_simple_ret_raw, gen_fmt_complicated_ret, gen_fmt_complicated_ret_raw.
  split; decide_all.
Qed.

(* ------------------------------------------------------------------ *)
(* 4. the write functions of the four built-in handlers                *)

Definition clamp_buf (limit r : Z) (buf : list Z) : list Z :=
  match clamp_store limit r with Some (i, v) => lset buf i v | None => buf end.

(* s = the state before the call, t = after; wrote = does the line reach fwrite.
   - no formatter: -1, nothing touched;
   - the formatter is given the whole buffer (fmt_size = the capacity = LIMIT);
   - a negative result: -2, nothing written;
   - otherwise the count is clamped to LIMIT-1, the newline is stored at LIMIT-2 exactly when the
     line did not fit, and that count is what fwrite gets. *)
Definition hw_spec (L : Z) (s t : hwio) (wrote : bool) : Prop :=
  let r := io_fret s in
  let n := clamp_count L r in
  if io_fmt_ok s =? 0 then
    io_ret t = -1 /\ io_buf t = io_buf s /\ io_wr_n t = io_wr_n s /\ io_wr_cnt t = io_wr_cnt s
  else
    io_fmt_size t = L /\ io_buf_cap t = L /\
    if r <? 0 then io_ret t = -2 /\ io_buf t = io_buf s /\ io_wr_n t = io_wr_n s /\ io_wr_cnt t = io_wr_cnt s
    else io_ret t = n /\ io_buf t = clamp_buf L r (io_buf s) /\
         if wrote then io_wr_cnt t = n /\ io_wr_n t = io_wr_n s + 1
         else io_wr_cnt t = io_wr_cnt s /\ io_wr_n t = io_wr_n s.

(* the formatter's result is a C int *)
Definition hw_dom (s : hwio) : Prop := - 2 ^ 31 <= io_fret s < 2 ^ 31.

Ltac hw_proj :=
  cbn [io_buf io_fret io_fmt_ok io_fp_ok io_fp_ok2 io_need_mutex io_color io_level io_offset io_max_bytes
       io_rot_ret io_detect_ret io_ret io_fmt_size io_buf_cap io_wr_cnt io_wr_n io_rot_n io_rot_at io_detect_n].

Ltac hw_decide :=
  unfold hw_spec, clamp_count, clamp_buf, clamp_store, size_rot_after; cbn [fst snd];
  let v := eval vm_compute in (Z.of_nat code_limit) in change (Z.of_nat code_limit) with v;
  leaf_unfold; simp_bool;
  repeat (split_atom; hw_proj); hw_proj; finish.



(* size-rotating handler: the bytes written are added to the offset and the rotation test is
   offset >= max_bytes, after the write *)
Definition rot_spec_size (L : Z) (s t : hwio) : Prop :=
  if negb (io_fmt_ok s =? 0) && (0 <=? io_fret s) && negb (io_fp_ok s =? 0) then
    let n := clamp_count L (io_fret s) in
    io_offset t = fst (size_rot_after (io_offset s) n (io_max_bytes s)) /\
    (if snd (size_rot_after (io_offset s) n (io_max_bytes s))
     then io_rot_n t = io_rot_n s + 1 /\ io_rot_at t = io_wr_n s + 1
     else io_rot_n t = io_rot_n s)
  else io_offset t = io_offset s /\ io_rot_n t = io_rot_n s.


(* time-rotating handler: detect and rotate come BEFORE the write (rot_at = the number of writes so
   far), and the write goes to the stream as it is after the rotation *)
Definition trot_wrote (s : hwio) : bool :=
  if negb (io_fp_ok s =? 0) && negb (io_detect_ret s =? 0) then negb (io_fp_ok2 s =? 0) else negb (io_fp_ok s =? 0).
Definition rot_spec_time (s t : hwio) : Prop :=
  if negb (io_fmt_ok s =? 0) && (0 <=? io_fret s) && negb (io_fp_ok s =? 0) then
    io_detect_n t = io_detect_n s + 1 /\
    (if negb (io_detect_ret s =? 0) then io_rot_n t = io_rot_n s + 1 /\ io_rot_at t = io_wr_n s
     else io_rot_n t = io_rot_n s)
  else io_detect_n t = io_detect_n s /\ io_rot_n t = io_rot_n s.


(* the Z-level content above is the model's handler_write *)
Lemma model_clamp_count limit line : (2 <= limit)%nat ->
  Z.of_nat (hw_ret (handler_write true limit line)) = clamp_count (Z.of_nat limit) (Z.of_nat (length line)).
Proof.
  intros H2. unfold handler_write, clamp_count. cbn [andb].
  destruct (Nat.leb_spec limit (length line)); destruct (Z.leb_spec (Z.of_nat limit) (Z.of_nat (length line)));
    cbn [hw_ret]; lia.
Qed.

Lemma model_clamp_store limit line : (2 <= limit)%nat ->
  hw_writes (handler_write true limit line) =
  snprintf_writes limit line ++
  match clamp_store (Z.of_nat limit) (Z.of_nat (length line)) with Some (i, _) => [Z.to_nat i] | None => [] end /\
  (forall i v, clamp_store (Z.of_nat limit) (Z.of_nat (length line)) = Some (i, v) -> v = Z.of_N nl).
Proof.
  intros H2. unfold handler_write, clamp_store. cbn [andb].
  destruct (Nat.leb_spec limit (length line)); destruct (Z.leb_spec (Z.of_nat limit) (Z.of_nat (length line)));
    try lia; cbn [hw_writes]; split.
  - f_equal. f_equal. lia.
  - intros i v E. inversion E. reflexivity.
  - rewrite app_nil_r. reflexivity.
  - intros i v E. discriminate.
Qed.

(* ------------------------------------------------------------------ *)
(* 5. the log functions of the two loggers: pre-filter loop, payload clamp *)

Ltac lg_proj :=
  cbn [lo_cnt lo_levels lo_fmt_hint lo_level lo_alloc1_ok lo_alloc2_ok lo_chan_ret lo_msg_level lo_pay_size lo_pay_cap
       lo_written lo_queued lo_sentinel lo_freed lo_overrun lo_wr_n lo_wr_order].

(* the sliced function is run on the logger's handler count and handler levels, for a call at [level] *)
Definition lg_dom (lg : logger) (level : Z) (s : lgio) : Prop :=
  lo_cnt s = Z.of_nat (length (lg_handlers lg)) /\ lo_levels s = map h_level (lg_handlers lg) /\
  lo_level s = level /\ lo_overrun s = 0.

(* muggle_sync_logger_log: muggle_logger_write is reached iff some attached handler accepts the level
   (the model's prefilter, repaired form); the message carries the level of the call; vsnprintf is
   given LIMIT and the payload buffer holds at least that *)
Definition sync_log_spec (L : Z) (pf : bool) (level : Z) (s t : lgio) : Prop :=
  lo_overrun t = 0 /\
  if pf then lo_written t = lo_written s + 1 /\ lo_msg_level t = level /\ lo_pay_size t = L /\ L <= lo_pay_cap t
  else lo_written t = lo_written s /\ lo_msg_level t = lo_msg_level s /\ lo_pay_size t = lo_pay_size s.

(* muggle_async_logger_log: the message is queued iff the pre-filter passes and both allocations succeed
   (async_log_seq's Some (logger_write ..) case); one block is released when the payload allocation
   fails, two when the channel refuses the message *)
Definition async_log_spec (L : Z) (pf : bool) (level : Z) (s t : lgio) : Prop :=
  let a1 := negb (lo_alloc1_ok s =? 0) in
  let a2 := negb (lo_alloc2_ok s =? 0) in
  lo_overrun t = 0 /\
  if pf && a1 && a2 then
    lo_queued t = lo_queued s + 1 /\ lo_msg_level t = level /\ lo_pay_size t = L /\ L <= lo_pay_cap t /\
    lo_freed t = lo_freed s + (if lo_chan_ret s =? 0 then 0 else 2)
  else lo_queued t = lo_queued s /\ lo_freed t = lo_freed s + (if pf && a1 then 1 else 0).

(* complete enumeration of the handler lists of length <= MUGGLE_LOGGER_MAX_HANDLER (re-extracted) *)
Ltac enum_handlers hs Hlen tac :=
  let rec go fuel :=
    lazymatch fuel with
    | O => fail "more handler slots than the enumeration covers"
    | S ?f => destruct hs as [|? hs];
              [ tac | first [ (exfalso; cbn [length] in Hlen; timeout 10 lia) | go f ] ]
    end in
  go 40%nat.

Ltac lg_case :=
  cbn [length map existsb]; unfold should_write, lget;
  let v := eval vm_compute in (Z.of_nat code_limit) in change (Z.of_nat code_limit) with v;
  leaf_unfold; cbv beta zeta; eval_closed; cbn [nth]; simp_bool;
  repeat (split_atom0; lg_proj); lg_proj; finish.



(* every logger the application can build stays within the enumerated domain *)
Lemma built_within_max L hs : (length (lg_handlers (built L hs)) <= lv_max_handler L)%nat.
Proof. rewrite built_handlers. rewrite firstn_length. lia. Qed.
