(* C16 — sequential core: level filter, truncation at LIMIT-1, no out-of-bounds index. *)
From MV Require Import C16.Model.
Local Open Scope Z_scope.

(* ------------------------------------------------------------------ *)
(* level filter                                                        *)

Lemma should_write_iff h level : should_write h level = true <-> h_level h <= level.
Proof. unfold should_write. rewrite negb_true_iff, Z.ltb_ge. reflexivity. Qed.

Lemma should_write_leb h level : should_write h level = (h_level h <=? level).
Proof.
  unfold should_write. destruct (Z.ltb_spec level (h_level h)); destruct (Z.leb_spec (h_level h) level);
    simpl; try reflexivity; lia.
Qed.

(* the logger as the application builds it: init, then add_handler for each handler in turn *)
Definition built (L : levels) (hs : list handler) : logger :=
  fold_left (fun lg h => fst (add_handler L lg h)) hs (logger_init L).

(* the logger-level threshold never exceeds an attached handler's level *)
Definition lowest_ok (lg : logger) : Prop := forall h, In h (lg_handlers lg) -> lg_lowest lg <= h_level h.

Lemma add_handler_lowest_ok L lg h : lowest_ok lg -> lowest_ok (fst (add_handler L lg h)).
Proof.
  unfold lowest_ok, add_handler. intros H.
  destruct (Nat.leb (lv_max_handler L) (length (lg_handlers lg))); simpl; [exact H|].
  intros h' Hin. apply in_app_or in Hin. destruct (Z.ltb_spec (h_level h) (lg_lowest lg)).
  - destruct Hin as [Hin|[<-|[]]]; [specialize (H _ Hin); lia | lia].
  - destruct Hin as [Hin|[<-|[]]]; [apply H; exact Hin | lia].
Qed.

Lemma built_lowest_ok_gen L hs lg : lowest_ok lg ->
  lowest_ok (fold_left (fun lg h => fst (add_handler L lg h)) hs lg).
Proof.
  revert lg. induction hs as [|h r IH]; intros lg H; simpl; [exact H|].
  apply IH. apply add_handler_lowest_ok. exact H.
Qed.
Lemma built_lowest_ok L hs : lowest_ok (built L hs).
Proof. apply built_lowest_ok_gen. intros h []. Qed.

(* number of emissions addressed to handler index i *)
Definition emits_to (i : nat) (ems : list emission) : nat :=
  length (filter (fun e : emission => Nat.eqb (fst (fst e)) i) ems).

Lemma emits_to_app i a b : emits_to i (a ++ b) = (emits_to i a + emits_to i b)%nat.
Proof. unfold emits_to. rewrite filter_app, app_length. reflexivity. Qed.

Lemma handler_emit_idx format L limit fixed idx h m :
  fst (fst (handler_emit format L limit fixed idx h m)) = idx.
Proof.
  unfold handler_emit. destruct (h_kind h); try reflexivity.
  destruct (color && (m_level m >=? lv_warning L)); reflexivity.
Qed.

Lemma logger_write_from_count format L limit fixed m : forall hs j i,
  emits_to i (logger_write_from format L limit fixed j hs m) =
  match nth_error hs (i - j) with
  | Some h => if Nat.leb j i && should_write h (m_level m) then 1%nat else 0%nat
  | None => 0%nat
  end.
Proof.
  induction hs as [|h r IH]; intros j i.
  - simpl. destruct (i - j)%nat; reflexivity.
  - cbn [logger_write_from]. rewrite emits_to_app, IH.
    assert (Hhead : emits_to i (if should_write h (m_level m)
                     then [handler_emit format L limit fixed j h m] else []) =
                    if Nat.eqb j i && should_write h (m_level m) then 1%nat else 0%nat).
    { destruct (should_write h (m_level m)); [|rewrite andb_false_r; reflexivity].
      unfold emits_to. cbn [filter]. rewrite handler_emit_idx. destruct (Nat.eqb j i); reflexivity. }
    rewrite Hhead.
    destruct (Nat.eq_dec i j) as [->|Hne].
    + rewrite Nat.eqb_refl, Nat.sub_diag. cbn [nth_error]. rewrite Nat.leb_refl.
      replace (j - S j)%nat with 0%nat by lia.
      assert (Nat.leb (S j) j = false) as E by (apply Nat.leb_gt; lia). rewrite E.
      cbn [andb]. destruct (nth_error r 0); destruct (should_write h (m_level m)); reflexivity.
    + assert (Nat.eqb j i = false) as E by (apply Nat.eqb_neq; lia). rewrite E. cbn [andb].
      destruct (Nat.leb_spec j i).
      * replace (i - j)%nat with (S (i - S j)) by lia. cbn [nth_error].
        assert (Nat.leb (S j) i = true) as E2 by (apply Nat.leb_le; lia). rewrite E2. reflexivity.
      * replace (i - j)%nat with 0%nat by lia. replace (i - S j)%nat with 0%nat by lia. cbn [nth_error].
        assert (Nat.leb (S j) i = false) as E2 by (apply Nat.leb_gt; lia). rewrite E2. cbn [andb].
        destruct r; reflexivity.
Qed.

(* a call produces exactly one line for handler i iff level >= handler.level — provided the
   logger-level threshold is below every handler level (true for every logger built by
   add_handler; false after a set_level that lowers an attached handler) *)
(* repaired code: no invariant is needed, the early-out asks the handlers themselves *)
Lemma existsb_should_write_false hs level i h :
  existsb (fun h0 => should_write h0 level) hs = false -> nth_error hs i = Some h -> should_write h level = false.
Proof.
  intros He Hn. destruct (should_write h level) eqn:E; [|reflexivity].
  assert (existsb (fun h0 => should_write h0 level) hs = true).
  { apply existsb_exists. exists h. split; [eapply nth_error_In; eauto|exact E]. }
  congruence.
Qed.

Lemma filter_exact_repaired format L limit lg level id text i h :
  nth_error (lg_handlers lg) i = Some h ->
  emits_to i (sync_log format L limit true lg level id text) = if h_level h <=? level then 1%nat else 0%nat.
Proof.
  intros Hnth. unfold sync_log, prefilter, logger_write.
  destruct (existsb (fun h0 => should_write h0 level) (lg_handlers lg)) eqn:E; simpl.
  - rewrite logger_write_from_count. rewrite Nat.sub_0_r, Hnth. simpl. rewrite should_write_leb. reflexivity.
  - rewrite <- should_write_leb. rewrite (existsb_should_write_false _ _ _ _ E Hnth). reflexivity.
Qed.

Lemma filter_exact_gen format L limit fixed lg level id text i h :
  lowest_ok lg -> nth_error (lg_handlers lg) i = Some h ->
  emits_to i (sync_log format L limit fixed lg level id text) = if h_level h <=? level then 1%nat else 0%nat.
Proof.
  intros Hlow Hnth. destruct fixed; [apply filter_exact_repaired; exact Hnth|].
  unfold sync_log, prefilter, logger_write.
  pose proof (Hlow h (nth_error_In _ _ Hnth)) as Hle.
  destruct (Z.gtb_spec (lg_lowest lg) level) as [Hgt|Hgt]; simpl.
  - destruct (Z.leb_spec (h_level h) level); [lia|reflexivity].
  - rewrite logger_write_from_count. rewrite Nat.sub_0_r, Hnth. simpl.
    rewrite should_write_leb. reflexivity.
Qed.

Theorem filter_exact format L limit fixed hs level id text i h :
  nth_error (lg_handlers (built L hs)) i = Some h ->
  emits_to i (sync_log format L limit fixed (built L hs) level id text) = if h_level h <=? level then 1%nat else 0%nat.
Proof. apply filter_exact_gen. apply built_lowest_ok. Qed.

(* at most MUGGLE_LOGGER_MAX_HANDLER handlers are attached; the rest are refused and get nothing *)
Lemma built_handlers_gen L hs : forall lg,
  lg_handlers (fold_left (fun lg h => fst (add_handler L lg h)) hs lg) =
  lg_handlers lg ++ firstn (lv_max_handler L - length (lg_handlers lg)) hs.
Proof.
  induction hs as [|h r IH]; intros lg; simpl.
  - rewrite firstn_nil, app_nil_r. reflexivity.
  - rewrite IH. unfold add_handler.
    destruct (Nat.leb_spec (lv_max_handler L) (length (lg_handlers lg))); simpl.
    + replace (lv_max_handler L - length (lg_handlers lg))%nat with 0%nat by lia. reflexivity.
    + rewrite app_length. simpl.
      destruct (lv_max_handler L - length (lg_handlers lg))%nat eqn:E; [lia|].
      replace (lv_max_handler L - (length (lg_handlers lg) + 1))%nat with n by lia.
      simpl. rewrite <- app_assoc. reflexivity.
Qed.
Lemma built_handlers L hs : lg_handlers (built L hs) = firstn (lv_max_handler L) hs.
Proof. unfold built. rewrite built_handlers_gen. simpl. rewrite Nat.sub_0_r. reflexivity. Qed.

(* the async logger applies the same two tests (producer: logger threshold; writer thread:
   handler level), so an accepted message yields the sync logger's lines *)
Lemma async_seq_equals_sync format L limit fixed lg level id text :
  async_log_seq format L limit fixed lg level id text true true =
  Some (sync_log format L limit fixed lg level id text).
Proof. unfold async_log_seq, sync_log. destruct (prefilter fixed lg level); reflexivity. Qed.

(* ------------------------------------------------------------------ *)
(* truncation and buffer indices                                       *)

(* specification: the formatted line cut at the fixed maximum — at most limit-1 bytes, and a
   line that does not fit keeps its terminator *)
Definition cut (limit : nat) (line : list byte) : list byte :=
  if Nat.ltb (length line) limit then line else firstn (limit - 2) line ++ [nl].

Lemma map_nth_seq {A B} (f : A -> B) (d : A) : forall (l : list A) n, (n <= length l)%nat ->
  map (fun i => f (nth i l d)) (seq 0 n) = map f (firstn n l).
Proof.
  induction l as [|a r IH]; intros n Hn; simpl in *.
  - assert (n = 0%nat) by lia. subst. reflexivity.
  - destruct n as [|n]; [reflexivity|]. simpl. f_equal.
    rewrite <- seq_shift, map_map. apply IH. lia.
Qed.

Lemma cut_length limit line : (2 <= limit)%nat -> (length (cut limit line) <= limit - 1)%nat.
Proof.
  intros H. unfold cut. destruct (Nat.ltb_spec (length line) limit); [lia|].
  rewrite app_length, firstn_length. simpl. lia.
Qed.

Lemma handler_write_fixed_out limit line : (2 <= limit)%nat ->
  hw_out (handler_write true limit line) = map Init (cut limit line).
Proof.
  intros H2. unfold handler_write, cut. simpl.
  destruct (Nat.leb_spec limit (length line)) as [Hge|Hlt].
  - assert (Nat.ltb (length line) limit = false) as -> by (apply Nat.ltb_ge; lia).
    simpl.
    replace (limit - 1)%nat with (S (limit - 2)) by lia.
    rewrite seq_S, map_app. simpl. rewrite map_app. simpl. f_equal.
    + replace (S (limit - 2) - 1)%nat with (limit - 2)%nat by lia.
      rewrite <- (map_nth_seq Init nul line (limit - 2)) by lia.
      apply map_ext_in. intros i Hi. apply in_seq in Hi.
      unfold buf_set, buf_after_snprintf, snprintf_stored.
      match goal with |- context [Nat.eqb i ?x] => destruct (Nat.eqb_spec i x); [lia|] end.
      assert (Nat.leb limit i = false) as -> by (apply Nat.leb_gt; lia).
      assert (Nat.ltb i (Nat.min (length line) (limit - 1)) = true) as -> by (apply Nat.ltb_lt; lia).
      reflexivity.
    + unfold buf_set. replace (S (limit - 2) - 1)%nat with (limit - 2)%nat by lia.
      rewrite Nat.sub_0_r, Nat.eqb_refl.
      assert (Nat.leb limit (limit - 2) = false) as -> by (apply Nat.leb_gt; lia).
      reflexivity.
  - assert (Nat.ltb (length line) limit = true) as -> by (apply Nat.ltb_lt; lia).
    simpl. rewrite <- (firstn_all line) at 3.
    rewrite <- (map_nth_seq Init nul line (length line)) by lia.
    apply map_ext_in. intros i Hi. apply in_seq in Hi.
    unfold buf_after_snprintf, snprintf_stored.
    assert (Nat.leb limit i = false) as -> by (apply Nat.leb_gt; lia).
    assert (Nat.ltb i (Nat.min (length line) (limit - 1)) = true) as -> by (apply Nat.ltb_lt; lia).
    reflexivity.
Qed.

Lemma snprintf_writes_in limit line : (1 <= limit)%nat ->
  Forall (fun i => (i < limit)%nat) (snprintf_writes limit line).
Proof.
  intros H. unfold snprintf_writes, snprintf_stored. apply Forall_forall. intros i Hi.
  apply in_seq in Hi. lia.
Qed.

Lemma handler_write_fixed_in_bounds limit line : (2 <= limit)%nat ->
  let w := handler_write true limit line in
  Forall (fun i => (i < limit)%nat) (hw_reads w ++ hw_writes w) /\ (hw_ret w <= limit - 1)%nat /\
  Forall (fun c => exists b, c = Init b) (hw_out w).
Proof.
  intros H2 w. split; [|split].
  - subst w. unfold handler_write. cbn [andb].
    assert (Hsw : forall i, In i (snprintf_writes limit line) -> (i < limit)%nat).
    { apply Forall_forall. apply snprintf_writes_in. lia. }
    destruct (Nat.leb_spec limit (length line)); cbn [hw_reads hw_writes];
      apply Forall_forall; intros i Hi; apply in_app_or in Hi; destruct Hi as [Hi|Hi].
    + apply in_seq in Hi. lia.
    + apply in_app_or in Hi. destruct Hi as [Hi|Hi]; [apply Hsw; exact Hi|].
      destruct Hi as [<-|[]]. lia.
    + apply in_seq in Hi. lia.
    + apply Hsw; exact Hi.
  - subst w. unfold handler_write. simpl. destruct (Nat.leb_spec limit (length line)); simpl; lia.
  - subst w. rewrite handler_write_fixed_out by exact H2.
    apply Forall_forall. intros c Hc. apply in_map_iff in Hc. destruct Hc as [b [<- _]]. eauto.
Qed.

(* the code as first found: fine while the line fits ... *)
Lemma handler_write_unfixed_fits limit line : (length line < limit)%nat ->
  hw_out (handler_write false limit line) = map Init line.
Proof.
  intros Hlt. unfold handler_write. simpl.
  rewrite <- (firstn_all line) at 3.
  rewrite <- (map_nth_seq Init nul line (length line)) by lia.
  apply map_ext_in. intros i Hi. apply in_seq in Hi.
  unfold buf_after_snprintf, snprintf_stored.
  assert (Nat.leb limit i = false) as -> by (apply Nat.leb_gt; lia).
  assert (Nat.ltb i (Nat.min (length line) (limit - 1)) = true) as -> by (apply Nat.ltb_lt; lia).
  reflexivity.
Qed.

(* ... but as soon as the formatted line is longer than the buffer, fwrite is handed indices
   outside the buffer *)
Lemma handler_write_unfixed_oob limit line : (limit < length line)%nat ->
  let w := handler_write false limit line in
  In limit (hw_reads w) /\ In Oob (hw_out w).
Proof.
  intros Hlt w. subst w. unfold handler_write. simpl. split.
  - apply in_seq. lia.
  - apply in_map_iff. exists limit. split; [|apply in_seq; lia].
    unfold buf_after_snprintf. rewrite Nat.leb_refl. reflexivity.
Qed.

(* ... and a line of exactly LIMIT bytes loses its newline and gains the terminating NUL *)
Lemma handler_write_unfixed_exact limit line : (1 <= limit)%nat -> length line = limit ->
  hw_out (handler_write false limit line) = map Init (firstn (limit - 1) line ++ [nul]).
Proof.
  intros H1 Hl. destruct limit as [|n]; [lia|].
  unfold handler_write. cbn [andb hw_out]. rewrite Hl.
  replace (S n - 1)%nat with n by lia.
  rewrite seq_S, map_app, map_app. cbn [map app plus]. f_equal.
  - rewrite <- (map_nth_seq Init nul line n) by lia.
    apply map_ext_in. intros i Hi. apply in_seq in Hi.
    unfold buf_after_snprintf, snprintf_stored.
    assert (Nat.leb (S n) i = false) as -> by (apply Nat.leb_gt; lia).
    assert (Nat.ltb i (Nat.min (length line) (S n - 1)) = true) as -> by (apply Nat.ltb_lt; lia).
    reflexivity.
  - unfold buf_after_snprintf, snprintf_stored. rewrite Hl.
    assert (Nat.leb (S n) n = false) as -> by (apply Nat.leb_gt; lia).
    replace (Nat.min (S n) (S n - 1)) with n by lia.
    rewrite Nat.ltb_irrefl, Nat.eqb_refl. reflexivity.
Qed.

(* payload: bounded copy of the vsnprintf result *)
Lemma payload_length limit text : (length (payload_of limit text) <= limit - 1)%nat.
Proof. unfold payload_of. rewrite firstn_length. lia. Qed.
Lemma payload_prefix limit text : exists rest, text = payload_of limit text ++ rest.
Proof. exists (skipn (limit - 1) text). unfold payload_of. symmetry. apply firstn_skipn. Qed.

(* non-vacuity *)
Example ex_filter :
  let L := {| lv_warning := 768; lv_error := 1024; lv_fatal := 1280; lv_max_handler := 8 |} in
  let hs := [{| h_kind := HCap; h_level := 512; h_fmt := 0 |}; {| h_kind := HFile; h_level := 1024; h_fmt := 0 |}] in
  map (fun lv => (emits_to 0 (sync_log (fun _ m => m_payload m) L 16 true (built L hs) lv 0 [65%N]),
                  emits_to 1 (sync_log (fun _ m => m_payload m) L 16 true (built L hs) lv 0 [65%N])))
      [256; 512; 1024] = [(0, 0); (1, 0); (1, 1)]%nat.
Proof. vm_compute. reflexivity. Qed.

Example ex_cut : cut 6 [1;2;3;4;5;6;7;10]%N = [1;2;3;4;10]%N /\ cut 6 [1;2;3;4;10]%N = [1;2;3;4;10]%N.
Proof. vm_compute. split; reflexivity. Qed.

Example ex_unfixed_oob :
  hw_out (handler_write false 4 [1;2;3;4;5;10]%N) = [Init 1; Init 2; Init 3; Init 0; Oob; Oob]%N.
Proof. vm_compute. reflexivity. Qed.

(* ------------------------------------------------------------------ *)
(* histories with level changes: the handler level is live state, the logger threshold
   lowest_log_level is a snapshot that only add_handler updates *)

Inductive hop :=
  | HAdd (h : handler)                              (* add_handler *)
  | HSet (i : nat) (lv : Z)                         (* muggle_log_handler_set_level on handler i *)
  | HLog (level : Z) (id : nat) (text : list byte). (* a log call *)

Definition hstep (L : levels) (lg : logger) (o : hop) : logger :=
  match o with
  | HAdd h => fst (add_handler L lg h)
  | HSet i lv => set_level lg i lv
  | HLog _ _ _ => lg
  end.
Definition hrun (L : levels) (ops : list hop) : logger := fold_left (hstep L) ops (logger_init L).

(* repaired code, EVERY history of add_handler / set_level / log calls: a log call produces exactly
   one line for handler i iff its level is at or above that handler's level AT THE TIME OF THE CALL *)
Theorem filter_exact_history format L limit pre level id text i h :
  nth_error (lg_handlers (hrun L pre)) i = Some h ->
  emits_to i (sync_log format L limit true (hrun L pre) level id text)
  = if h_level h <=? level then 1%nat else 0%nat.
Proof. apply filter_exact_repaired. Qed.

(* in the concurrent scenarios the levels are static and the early-out is a fixed threshold *)
Lemma prefilter_static hs level :
  match min_level hs with
  | Some m => existsb (fun h => should_write h level) hs = (m <=? level)
  | None => hs = []
  end.
Proof.
  induction hs as [|h r IH]; simpl; [reflexivity|].
  rewrite should_write_leb. destruct (min_level r) as [m|].
  - rewrite IH. destruct (Z.ltb_spec (h_level h) m);
      destruct (Z.leb_spec (h_level h) level), (Z.leb_spec m level); simpl; try reflexivity; lia.
  - subst r. simpl. apply orb_false_r.
Qed.

(* the code as first found: a call reaches handler i iff it passes the snapshot test of the
   logger and the handler's current level test *)
Lemma filter_as_first_found format L limit lg level id text i h :
  nth_error (lg_handlers lg) i = Some h ->
  emits_to i (sync_log format L limit false lg level id text)
  = if (lg_lowest lg <=? level) && (h_level h <=? level) then 1%nat else 0%nat.
Proof.
  intros Hnth. unfold sync_log, prefilter, logger_write.
  destruct (Z.gtb_spec (lg_lowest lg) level) as [Hgt|Hgt]; simpl.
  - destruct (Z.leb_spec (lg_lowest lg) level); [lia|reflexivity].
  - rewrite logger_write_from_count. rewrite Nat.sub_0_r, Hnth. simpl.
    rewrite should_write_leb. destruct (Z.leb_spec (lg_lowest lg) level); [reflexivity|lia].
Qed.

(* ... so lowering an attached handler below the snapshot lost calls: handler attached at INFO,
   lowered to DEBUG, a DEBUG call.  Before the repair: no line; after: one line. *)
Definition stale_witness : list hop :=
  [HAdd {| h_kind := HCap; h_level := 512; h_fmt := 0 |}; HSet 0 256].

Lemma stale_before_and_after L : (512 <? lv_fatal L) = true -> Nat.leb 1 (lv_max_handler L) = true ->
  exists h, nth_error (lg_handlers (hrun L stale_witness)) 0 = Some h /\ h_level h <=? 256 = true /\
  forall format limit,
    emits_to 0 (sync_log format L limit false (hrun L stale_witness) 256 0 []) = 0%nat /\
    emits_to 0 (sync_log format L limit true (hrun L stale_witness) 256 0 []) = 1%nat.
Proof.
  intros Hf Hm. apply Z.ltb_lt in Hf. apply Nat.leb_le in Hm.
  unfold stale_witness, hrun. simpl. unfold add_handler. simpl.
  assert (Nat.leb (lv_max_handler L) 0 = false) as -> by (apply Nat.leb_gt; lia).
  simpl. assert (512 <? lv_fatal L = true) as -> by (apply Z.ltb_lt; lia). simpl.
  eexists. split; [reflexivity|]. split; [reflexivity|].
  intros format limit. split; reflexivity.
Qed.

(* non-vacuity of the history theorem: raise after add (the single-handler case), a lowering
   below the snapshot, a level above FATAL *)
Example ex_history :
  let L := {| lv_warning := 768; lv_error := 1024; lv_fatal := 1280; lv_max_handler := 8 |} in
  let pre := [HAdd {| h_kind := HCap; h_level := 512; h_fmt := 0 |}; HSet 0 1024; HLog 768 0 []; HSet 0 256] in
  emits_to 0 (sync_log (fun _ m => m_payload m) L 16 true (hrun L (firstn 2 pre)) 768 0 []) = 0%nat /\
  emits_to 0 (sync_log (fun _ m => m_payload m) L 16 true (hrun L pre) 256 1 []) = 1%nat /\
  emits_to 0 (sync_log (fun _ m => m_payload m) L 16 true (hrun L pre) 255 2 []) = 0%nat /\
  emits_to 0 (sync_log (fun _ m => m_payload m) L 16 true
                (hrun L [HAdd {| h_kind := HFile; h_level := 1536; h_fmt := 0 |}]) 1300 3 []) = 0%nat.
Proof. vm_compute. repeat split; reflexivity. Qed.

(* the queue view of the async logger: while the writer thread is not held a call is the plain
   async call; a message that waits in the queue is matched against the handler levels at the
   time the writer thread is released, not at the time of the call *)
Lemma aseq_unheld format L limit fixed lg pend level id text :
  fst (aseq_step format L limit fixed {| aq_lg := lg; aq_held := None; aq_pending := pend |} (AOLog false level id text))
  = {| aq_lg := lg; aq_held := None; aq_pending := pend |} /\
  Some (snd (aseq_step format L limit fixed {| aq_lg := lg; aq_held := None; aq_pending := pend |} (AOLog false level id text)))
  = async_log_seq format L limit fixed lg level id text true true.
Proof.
  unfold aseq_step, async_log_seq. simpl. destruct (prefilter fixed lg level); simpl; [|auto].
  destruct (lg_handlers lg); simpl; auto.
Qed.

Lemma aseq_release_uses_current_levels format L limit fixed lg m0 pend :
  snd (aseq_step format L limit fixed {| aq_lg := lg; aq_held := Some m0; aq_pending := pend |} AORelease)
  = logger_write_from format L limit fixed 1 (tl (lg_handlers lg)) m0 ++ flat_map (logger_write format L limit fixed lg) pend.
Proof. reflexivity. Qed.

Example ex_held_relevel :
  let L := {| lv_warning := 768; lv_error := 1024; lv_fatal := 1280; lv_max_handler := 8 |} in
  let f := fun (_ : nat) (m : lmsg) => m_payload m in
  let lg := hrun L [HAdd {| h_kind := HCap; h_level := 512; h_fmt := 0 |}] in
  let s0 := {| aq_lg := lg; aq_held := None; aq_pending := [] |} in
  let s1 := fst (aseq_step f L 16 true s0 (AOLog true 512 0 [65%N])) in       (* held inside handler 0 *)
  let s2 := fst (aseq_step f L 16 true s1 (AOLog false 512 1 [66%N])) in      (* queued: accepted at call time *)
  let s3 := fst (aseq_step f L 16 true s2 (AOSet 0 768)) in                   (* raised while it waits *)
  length (snd (aseq_step f L 16 true s0 (AOLog true 512 0 [65%N]))) = 1%nat /\
  aq_pending s2 = [{| m_level := 512; m_id := 1; m_payload := [66%N] |}] /\
  snd (aseq_step f L 16 true s3 AORelease) = [].                              (* ... so it is not written *)
Proof. vm_compute. repeat split; reflexivity. Qed.
