(* C16 — no free parameters in the interleaving statements: the threshold sc_lowest / as_lowest of
   the scenarios IS the code's pre-filter over the attached handlers, and the usable capacity
   as_usable IS the channel's rounding of the requested capacity. *)
From MV Require Import C16.Model C16.ProofsSeq C16.ProofsSync C16.ProofsAsync C16.ProofsAcct.
Local Open Scope Z_scope.

(* levels are C ints *)
Definition level_top : Z := 2 ^ 31.
(* the threshold of a scenario with static handler levels: the least handler level; with no handler
   attached nothing passes *)
Definition static_lowest (hs : list handler) : Z :=
  match min_level hs with Some m => m | None => level_top end.

(* the early-out [lowest >? level] of sstep / pstep is the code's pre-filter "no attached handler accepts" *)
Lemma static_threshold_is_prefilter hs level : level < level_top ->
  (static_lowest hs >? level) = negb (existsb (fun h => should_write h level) hs).
Proof.
  intros Hl. unfold static_lowest. pose proof (prefilter_static hs level) as H.
  destruct (min_level hs) as [m|].
  - rewrite H. destruct (Z.gtb_spec m level); destruct (Z.leb_spec m level); simpl; try reflexivity; lia.
  - subst hs. simpl. destruct (Z.gtb_spec level_top level); [reflexivity|lia].
Qed.

Definition sc_tied (Sc : scen) : Prop :=
  sc_lowest Sc = static_lowest (sc_handlers Sc) /\ forall t k, sc_level Sc t k < level_top.
Definition as_tied (A : ascen) : Prop :=
  as_lowest A = static_lowest (as_handlers A) /\ forall t k, as_level A t k < level_top.

(* with the threshold tied, "accepted by handler i" is that handler's own level test and nothing else *)
Lemma accepts_tied Sc t i k : sc_tied Sc -> accepts Sc t i k = acc_h (sc_handlers Sc) i (sc_level Sc t k).
Proof.
  intros [Hl Hb]. unfold accepts. rewrite Hl, (static_threshold_is_prefilter _ _ (Hb t k)), negb_involutive.
  unfold acc_h. destruct (nth_error (sc_handlers Sc) i) as [h|] eqn:E; [|apply andb_false_r].
  destruct (should_write h (sc_level Sc t k)) eqn:S; [|apply andb_false_r].
  rewrite andb_true_r. apply existsb_exists. exists h. split; [eapply nth_error_In; eauto|exact S].
Qed.

(* sync logger, every schedule: thread t's lines in handler i's stream are exactly its calls at or above
   handler i's level, once each, in call order *)
Theorem per_thread_order_tied Sc sched t i : sc_tied Sc ->
  let s := exec ssys (sstep Sc) sinit sched in
  firsts_of t (s_out s i) =
  filter (fun k => acc_h (sc_handlers Sc) i (sc_level Sc t k)) (seq 0 (progress (s_thr s t) i)) /\
  (s_pc (s_thr s t) = SDone ->
   firsts_of t (s_out s i) = filter (fun k => acc_h (sc_handlers Sc) i (sc_level Sc t k)) (seq 0 (sc_msgs Sc))).
Proof.
  intros Ht s. destruct (sync_order_exact Sc sched) as [Ho Hp Hk Hf Hlt]. fold s in Ho, Hf.
  assert (E : forall n, filter (accepts Sc t i) (seq 0 n) =
                        filter (fun k => acc_h (sc_handlers Sc) i (sc_level Sc t k)) (seq 0 n)).
  { intros n. apply filter_ext. intros k. apply accepts_tied. exact Ht. }
  split.
  - rewrite Ho. apply E.
  - intros Hd. rewrite Ho, <- E. unfold progress. rewrite Hd. simpl. rewrite (Hf t) by (right; exact Hd). reflexivity.
Qed.

(* async logger: a producer's call goes on to the allocation / the queue iff some attached handler accepts it *)
Lemma async_call_passes_iff_prefilter fixed A s t : as_tied A ->
  p_pc (a_thr s t) = PCall ->
  let level := as_level A t (p_k (a_thr s t)) in
  match pstep fixed A s t with
  | Some (s', _) =>
    p_pc (a_thr s' t) = PMallocMsg <-> existsb (fun h => should_write h level) (as_handlers A) = true
  | None => False
  end.
Proof.
  intros [Hl Hb] Hpc level. unfold pstep. rewrite Hpc. rewrite Hl.
  rewrite (static_threshold_is_prefilter _ _ (Hb t (p_k (a_thr s t)))). fold level.
  destruct (existsb (fun h => should_write h level) (as_handlers A)); cbn [negb].
  - cbn [a_set_thr a_thr]. unfold upd. rewrite Nat.eqb_refl. cbn [p_pc]. split; auto.
  - cbn [a_set_thr a_thr]. unfold upd. rewrite Nat.eqb_refl. unfold p_next.
    destruct (Nat.ltb (S (p_k (a_thr s t))) (as_msgs A)); cbn [p_pc]; split; intros; discriminate.
Qed.

(* ------------------------------------------------------------------ *)
(* the channel's capacity: rounded up to a power of two, two slots unusable *)

Lemma pow2_ge_spec : forall fuel n j e, e = (j + fuel)%nat ->
  (n <= 2 ^ e)%nat -> (j = 0 \/ 2 ^ (j - 1) < n)%nat ->
  exists k, pow2_ge fuel n (2 ^ j) = (2 ^ k)%nat /\ (n <= 2 ^ k)%nat /\ (k = 0 \/ 2 ^ (k - 1) < n)%nat.
Proof.
  induction fuel as [|f IH]; intros n j e He Hn Hj; subst e.
  - exists j. rewrite Nat.add_0_r in Hn. cbn [pow2_ge]. auto.
  - cbn [pow2_ge]. destruct (Nat.leb_spec n (2 ^ j)).
    + exists j. auto.
    + replace (2 * 2 ^ j)%nat with (2 ^ S j)%nat by (rewrite Nat.pow_succ_r'; reflexivity).
      apply (IH n (S j) (j + S f)%nat).
      * lia.
      * exact Hn.
      * right. replace (S j - 1)%nat with j by lia. exact H.
Qed.

(* usable_of c = P - 2 where P is the least power of two >= c (for every capacity below 2^40) *)
Definition cap_exp : nat := 40.
Notation cap_bound := (2 ^ cap_exp)%nat (only parsing).

Theorem usable_of_spec c : (c <= cap_bound)%nat ->
  exists k, usable_of c = (2 ^ k - 2)%nat /\ (c <= 2 ^ k)%nat /\ (k = 0 \/ 2 ^ (k - 1) < c)%nat.
Proof.
  intros Hc. unfold usable_of.
  assert (Hj : (0 = 0 \/ 2 ^ (0 - 1) < c)%nat) by (left; reflexivity).
  pose proof (pow2_ge_spec 40 c 0 cap_exp eq_refl Hc Hj) as H.
  destruct H as (k & E & H1 & H2).
  exists k. rewrite Nat.pow_0_r in E. rewrite E. auto.
Qed.

(* the known class (no usable slot) is exactly "requested capacity <= 2" *)
Theorem unusable_iff_capacity_le_2 c : (c <= cap_bound)%nat -> (usable_of c = 0%nat <-> (c <= 2)%nat).
Proof.
  intros Hc. destruct (usable_of_spec c Hc) as (k & E & H1 & H2). clear Hc. rewrite E. clear E. split.
  - intros H0. destruct k as [|[|k]].
    + rewrite Nat.pow_0_r in H1. lia.
    + rewrite Nat.pow_1_r in H1. lia.
    + exfalso. rewrite !Nat.pow_succ_r' in H0. pose proof (Nat.pow_nonzero 2 k ltac:(lia)). lia.
  - intros H3. destruct k as [|[|k]].
    + reflexivity.
    + reflexivity.
    + exfalso. destruct H2 as [H2|H2]; [discriminate|].
      replace (S (S k) - 1)%nat with (S k) in H2 by lia. rewrite Nat.pow_succ_r' in H2.
      pose proof (Nat.pow_nonzero 2 k ltac:(lia)). lia.
Qed.

Example ex_usable : map usable_of [1; 2; 3; 4; 5; 8; 9; 64; 100]%nat = [0; 0; 2; 2; 6; 6; 14; 62; 126]%nat.
Proof. vm_compute. reflexivity. Qed.

Example ex_tied :
  let hs := [{| h_kind := HCap; h_level := 512; h_fmt := 0 |}; {| h_kind := HFile; h_level := 256; h_fmt := 1 |}] in
  static_lowest hs = 256 /\ static_lowest [] = level_top.
Proof. vm_compute. split; reflexivity. Qed.
