(* C16 — async logger: the writer thread produces, for the history the channel accepted, the
   lines the sync logger would produce, whole and in queue order; each producer's accepted calls
   keep their order; destroy returns only after the writer thread has left through the
   sentinel with everything it took written. *)
From MV Require Import C16.Model C16.ProofsSync.
Local Open Scope Z_scope.

Definition msgs_of (q : list qitem) : list (nat * nat) :=
  flat_map (fun x => match x with QMsg t k => [(t, k)] | QNull => [] end) q.
Lemma msgs_of_app a b : msgs_of (a ++ b) = msgs_of a ++ msgs_of b.
Proof. unfold msgs_of. apply flat_map_app. Qed.

Definition cmid (c : cpc) (i : nat) : bool :=
  match c with CYield j | CEmit2 j => Nat.eqb j i | _ => false end.
(* the line of the message in progress has been started on handler i (or there is no message
   in progress) *)
Definition cpassed (c : cpc) (i : nat) : bool :=
  match c with
  | CEmit1 j => Nat.ltb i j
  | CYield j | CEmit2 j => Nat.leb i j
  | _ => true
  end.
Definition c_at (c : cpc) : option nat :=
  match c with CEmit1 j | CYield j | CEmit2 j => Some j | _ => None end.

(* (thread, call) of the lines (first parts) of a stream, in stream order *)
Definition lines_of (l : list chunk) : list (nat * nat) :=
  map (fun c : chunk => fst c) (filter (fun c : chunk => Nat.eqb (snd c) 1) l).
Lemma lines_of_app a b : lines_of (a ++ b) = lines_of a ++ lines_of b.
Proof. unfold lines_of. rewrite filter_app, map_app. reflexivity. Qed.

Definition macc (A : ascen) (i : nat) (m : nat * nat) : bool :=
  acc_h (as_handlers A) i (as_level A (fst m) (snd m)).

Definition done_part (s : asys) (i : nat) : list (nat * nat) :=
  if cpassed (a_cons s) i then a_consumed s else removelast (a_consumed s).

Record AInv (A : ascen) (s : asys) : Prop := {
  ai_fifo : a_accepted s = a_consumed s ++ msgs_of (a_queue s);
  ai_cur : forall j, c_at (a_cons s) = Some j ->
           (exists pre, a_consumed s = pre ++ [a_cur s]) /\ macc A j (a_cur s) = true;
  ai_out : forall i, lines_of (a_out s i) = filter (macc A i) (done_part s i);
  ai_whole : forall i, cmid (a_cons s) i = false -> whole (a_out s i);
  ai_mid : forall i, cmid (a_cons s) i = true ->
           exists l, whole l /\ a_out s i = l ++ [(fst (a_cur s), snd (a_cur s), 1%nat)];
}.

Lemma ainit_inv A : AInv A (ainit A).
Proof.
  constructor; simpl; intros; try discriminate; try reflexivity. constructor.
Qed.

Ltac inv_some H := inversion H; subst; clear H.

(* a step that touches neither the writer thread's state nor the queue/ghost lists/streams *)
Lemma ainv_frame A s s' :
  AInv A s ->
  a_accepted s' = a_accepted s -> a_consumed s' = a_consumed s -> msgs_of (a_queue s') = msgs_of (a_queue s) ->
  a_cons s' = a_cons s -> a_cur s' = a_cur s -> a_out s' = a_out s ->
  AInv A s'.
Proof.
  intros [F C O W M] E1 E2 E3 E4 E5 E6. constructor.
  - rewrite E1, E2, E3. exact F.
  - rewrite E4, E5, E2. exact C.
  - intros i. unfold done_part. rewrite E6, E4, E2. apply O.
  - intros i. rewrite E4, E6. apply W.
  - intros i. rewrite E4, E5, E6. apply M.
Qed.

(* the writer thread moves between two points with no message in progress *)
Lemma ainv_idle A s c' :
  AInv A s -> c_at (a_cons s) = None -> c_at c' = None ->
  (forall i, cmid c' i = false) -> (forall i, cpassed c' i = true) ->
  AInv A (a_set_cons s c').
Proof.
  intros [F C O W M] H0 H1 H2 H3.
  assert (P0 : forall i, cpassed (a_cons s) i = true) by (intros i; destruct (a_cons s); try discriminate; reflexivity).
  assert (M0 : forall i, cmid (a_cons s) i = false) by (intros i; destruct (a_cons s); try discriminate; reflexivity).
  constructor; simpl.
  - exact F.
  - intros j Hj. congruence.
  - intros i. rewrite O. unfold done_part. simpl. rewrite H3, P0. reflexivity.
  - intros i _. apply W. apply M0.
  - intros i Hi. rewrite H2 in Hi. discriminate.
Qed.

Lemma removelast_snoc {X} (l : list X) x : removelast (l ++ [x]) = l.
Proof. apply removelast_last. Qed.

Lemma filter_snoc {X} (f : X -> bool) l x : filter f (l ++ [x]) = filter f l ++ (if f x then [x] else []).
Proof. rewrite filter_app. simpl. destruct (f x); reflexivity. Qed.

(* after handler [from]-1: next accepting handler or release *)
Lemma c_after_spec A level from :
  match c_after A level from with
  | CEmit1 j => (from <= j)%nat /\ acc_h (as_handlers A) j level = true /\
                (forall m, (from <= m < j)%nat -> acc_h (as_handlers A) m level = false)
  | CFreePay => forall m, (from <= m)%nat -> acc_h (as_handlers A) m level = false
  | _ => False
  end.
Proof.
  unfold c_after. destruct (next_from (as_handlers A) from level) as [j|] eqn:E.
  - apply next_from_some. exact E.
  - apply next_from_none. exact E.
Qed.

Lemma cstep_ainv A s s' l : AInv A s -> cstep A s = Some (s', l) -> AInv A s'.
Proof.
  intros I Hs. unfold cstep in Hs. destruct (a_cur s) as [ct ck] eqn:Ecur.
  destruct (a_cons s) as [| | | |i|i|i| | | | | |] eqn:Ec.
  - (* CCheck *)
    inv_some Hs. destruct (a_queue s); apply ainv_idle; auto; rewrite Ec; reflexivity.
  - (* CWait *)
    destruct (a_queue s); inv_some Hs; apply ainv_idle; auto; rewrite Ec; reflexivity.
  - discriminate.
  - (* CPop *)
    destruct I as [F C O W M].
    assert (P0 : forall i, done_part s i = a_consumed s) by (intros i; unfold done_part; rewrite Ec; reflexivity).
    destruct (a_queue s) as [|[t k|] q] eqn:Eq; [discriminate| |]; inv_some Hs.
    + (* a message *)
      pose proof (c_after_spec A (as_level A t k) 0) as Sp.
      constructor; simpl.
      * rewrite F. simpl. rewrite <- app_assoc. reflexivity.
      * intros j Hj. destruct (c_after A (as_level A t k) 0) eqn:Ea; try discriminate; try contradiction. inv_some Hj.
        split; [eexists; reflexivity|]. unfold macc. simpl. tauto.
      * intros i. rewrite O, P0. unfold done_part. simpl.
        destruct (c_after A (as_level A t k) 0) eqn:Ea; try contradiction; simpl.
        -- destruct Sp as (_ & _ & Hgap). destruct (Nat.ltb_spec i i0).
           ++ rewrite filter_snoc.
           match goal with |- context [macc A ?ii ?mm] => assert (macc A ii mm = false) as -> by (unfold macc; simpl; apply Hgap; lia) end.
           rewrite app_nil_r. reflexivity.
           ++ rewrite removelast_snoc. reflexivity.
        -- rewrite filter_snoc.
           match goal with |- context [macc A ?ii ?mm] => assert (macc A ii mm = false) as -> by (unfold macc; simpl; apply Sp; lia) end.
           rewrite app_nil_r. reflexivity.
      * intros i _. apply W. rewrite Ec. reflexivity.
      * intros i Hi. destruct (c_after A (as_level A t k) 0) eqn:Ea; try discriminate; contradiction.
    + (* the sentinel *)
      constructor; simpl.
      * rewrite F. reflexivity.
      * discriminate.
      * intros i. rewrite O, P0. reflexivity.
      * intros i _. apply W. rewrite Ec. reflexivity.
      * discriminate.
  - (* CEmit1 i *)
    inv_some Hs. destruct I as [F C O W M].
    destruct (C i) as ((pre & Hpre) & Hacc); [rewrite Ec; reflexivity|]. rewrite Ecur in *.
    constructor; simpl.
    + exact F.
    + intros j Hj. inv_some Hj. rewrite Ecur. split; [eauto|exact Hacc].
    + intros j. unfold upd. unfold done_part in *. simpl. specialize (O j). rewrite Ec in O. simpl in O.
      destruct (Nat.eqb_spec j i); subst.
      * rewrite lines_of_app, O. rewrite Nat.ltb_irrefl, Nat.leb_refl.
        rewrite Hpre, removelast_snoc, filter_snoc, Hacc. reflexivity.
      * rewrite O. destruct (Nat.ltb_spec j i), (Nat.leb_spec j i); try reflexivity; lia.
    + intros j Hj. unfold upd. destruct (Nat.eqb_spec j i); subst; [rewrite Nat.eqb_refl in Hj; discriminate|].
      apply W. rewrite Ec. reflexivity.
    + intros j Hj. apply Nat.eqb_eq in Hj. subst. unfold upd. rewrite Nat.eqb_refl. rewrite Ecur. simpl.
      exists (a_out s j). split; [apply W; rewrite Ec; reflexivity|reflexivity].
  - (* CYield i *)
    inv_some Hs. destruct I as [F C O W M]. constructor; simpl.
    + exact F.
    + intros j Hj. inv_some Hj. apply C. rewrite Ec. reflexivity.
    + intros j. rewrite O. unfold done_part. simpl. rewrite Ec. reflexivity.
    + intros j Hj. apply W. rewrite Ec. exact Hj.
    + intros j Hj. apply M. rewrite Ec. exact Hj.
  - (* CEmit2 i *)
    inv_some Hs. destruct I as [F C O W M].
    destruct (C i) as ((pre & Hpre) & Hacc); [rewrite Ec; reflexivity|]. rewrite Ecur in *.
    pose proof (c_after_spec A (as_level A ct ck) (S i)) as Sp.
    destruct (M i) as (l0 & Hw0 & Hout0); [rewrite Ec; simpl; apply Nat.eqb_refl|].
    constructor; simpl.
    + exact F.
    + intros j Hj. destruct (c_after A (as_level A ct ck) (S i)) eqn:Ea; try discriminate; try contradiction. inv_some Hj.
      rewrite Ecur. split; [eauto|]. unfold macc. simpl. tauto.
    + intros j. unfold done_part in *. simpl. specialize (O j). rewrite Ec in O. simpl in O.
      assert (Hl : lines_of (upd (a_out s) i (a_out s i ++ [(ct, ck, 2%nat)]) j) = lines_of (a_out s j)).
      { unfold upd. destruct (Nat.eqb_spec j i); subst; [|reflexivity].
        rewrite lines_of_app. unfold lines_of at 2. simpl. apply app_nil_r. }
      etransitivity; [exact Hl|]. rewrite O.
      destruct (c_after A (as_level A ct ck) (S i)) eqn:Ea; try contradiction; simpl.
      * destruct Sp as (Hle & _ & Hgap).
        destruct (Nat.leb_spec j i), (Nat.ltb_spec j i0); try reflexivity; try lia.
        rewrite Hpre, removelast_snoc, filter_snoc.
           match goal with |- context [macc A ?ii ?mm] => assert (macc A ii mm = false) as -> by (unfold macc; simpl; apply Hgap; lia) end.
           rewrite app_nil_r. reflexivity.
      * destruct (Nat.leb_spec j i); [reflexivity|].
        rewrite Hpre, removelast_snoc, filter_snoc.
           match goal with |- context [macc A ?ii ?mm] => assert (macc A ii mm = false) as -> by (unfold macc; simpl; apply Sp; lia) end.
           rewrite app_nil_r. reflexivity.
    + intros j Hj. unfold upd. destruct (Nat.eqb_spec j i); subst.
      * rewrite Hout0. simpl. rewrite <- app_assoc. simpl. apply whole_snoc. exact Hw0.
      * apply W. rewrite Ec. simpl. apply Nat.eqb_neq. congruence.
    + intros j Hj. destruct (c_after A (as_level A ct ck) (S i)) eqn:Ea; try discriminate; contradiction.
  - (* CFreePay *)
    inv_some Hs. apply (ainv_idle A (a_set_live s (pred (a_live s))) CFreeMsg); auto.
    + apply (ainv_frame A s); auto.
    + simpl. rewrite Ec. reflexivity.
  - (* CFreeMsg *)
    inv_some Hs. apply (ainv_idle A (a_set_live s (pred (a_live s))) CCheck); auto.
    + apply (ainv_frame A s); auto.
    + simpl. rewrite Ec. reflexivity.
  - (* CExitNote *)
    inv_some Hs. apply (ainv_frame A (a_set_cons s CWakeJoin)); try (simpl; rewrite ?Ecur; reflexivity).
    apply ainv_idle; auto. rewrite Ec. reflexivity.
  - (* CWakeJoin *)
    inv_some Hs. apply (ainv_frame A (a_set_cons s CFin)); try (simpl; rewrite ?Ecur; reflexivity).
    apply ainv_idle; auto. rewrite Ec. reflexivity.
  - (* CFin *)
    inv_some Hs. apply ainv_idle; auto. rewrite Ec. reflexivity.
  - discriminate.
Qed.

Lemma pstep_ainv fixed A s t s' l : AInv A s -> pstep fixed A s t = Some (s', l) -> AInv A s'.
Proof.
  intros I Hs. unfold pstep in Hs.
  destruct (p_pc (a_thr s t)) as [| | | | | |f| | | | | | | | |f| | | | | | | | | |] eqn:Epc;
    try discriminate.
  - (* PCall *) destruct (as_lowest A >? _); inv_some Hs; apply (ainv_frame A s); auto.
  - inv_some Hs; apply (ainv_frame A s); auto.
  - inv_some Hs; apply (ainv_frame A s); auto.
  - destruct (a_wlock s); inv_some Hs; apply (ainv_frame A s); auto.
  - inv_some Hs; apply (ainv_frame A s); auto.
  - (* PPush *)
    inv_some Hs. destruct I as [F C O W M]. constructor; simpl; auto.
    rewrite F, msgs_of_app. simpl. rewrite <- app_assoc. reflexivity.
  - (* PUnlock *)
    destruct f; [destruct fixed|]; inv_some Hs; apply (ainv_frame A s); auto.
  - (* PWake: may make the sleeping writer thread runnable again *)
    destruct (a_cons s) eqn:Ec; inv_some Hs; try (apply (ainv_frame A s); auto; fail).
    apply (ainv_frame A (a_set_cons s CCheck)); try reflexivity.
    apply ainv_idle; auto. rewrite Ec. reflexivity.
  - inv_some Hs; apply (ainv_frame A s); auto.
  - inv_some Hs; apply (ainv_frame A s); auto.
  - inv_some Hs; apply (ainv_frame A s); auto.
  - inv_some Hs; apply (ainv_frame A s); auto.
  - destruct (a_wlock s); inv_some Hs; apply (ainv_frame A s); auto.
  - inv_some Hs; apply (ainv_frame A s); auto.
  - (* PDPush: the sentinel carries no message *)
    inv_some Hs. apply (ainv_frame A s); auto. simpl. rewrite msgs_of_app. simpl. apply app_nil_r.
  - inv_some Hs; apply (ainv_frame A s); auto.
  - (* PDWake *)
    destruct (a_cons s) eqn:Ec; inv_some Hs; try (apply (ainv_frame A s); auto; fail).
    apply (ainv_frame A (a_set_cons s CCheck)); try reflexivity.
    apply ainv_idle; auto. rewrite Ec. reflexivity.
  - inv_some Hs; apply (ainv_frame A s); auto.
  - inv_some Hs; apply (ainv_frame A s); auto.
  - destruct (a_joinword s); inv_some Hs; apply (ainv_frame A s); auto.
  - inv_some Hs; apply (ainv_frame A s); auto.
  - inv_some Hs; apply (ainv_frame A s); auto.
  - inv_some Hs; apply (ainv_frame A s); auto.
  - inv_some Hs; apply (ainv_frame A s); auto.
Qed.

Lemma astep_ainv fixed A s t ch s' l : AInv A s -> astep fixed A s t ch = Some (s', l) -> AInv A s'.
Proof.
  intros I Hs. unfold astep in Hs. destruct t.
  - eapply cstep_ainv; eauto.
  - destruct (Nat.ltb (as_n A) (S t)); [discriminate|]. eapply pstep_ainv; eauto.
Qed.

Theorem async_invariant fixed A sched : AInv A (exec asys (astep fixed A) (ainit A) sched).
Proof. apply inv_exec; [|apply ainit_inv]. intros; eapply astep_ainv; eauto. Qed.

(* ------------------------------------------------------------------ *)
(* destroy returns only after the writer thread has left through the sentinel *)

Definition cexited (c : cpc) : bool := match c with CWakeJoin | CFin | CEnd => true | _ => false end.
Definition post_join (p : ppc) : bool :=
  match p with PChanFree1 | PChanFree2 | PDestroyed => true | _ => false end.

Record JInv (s : asys) : Prop := {
  ji_word : a_joinword s = true -> cexited (a_cons s) = true;
  ji_post : forall t, post_join (p_pc (a_thr s t)) = true -> a_joinword s = true;
  ji_destroyed : a_destroyed s = true -> a_joinword s = true;
}.

Lemma ainit_jinv A : JInv (ainit A).
Proof.
  constructor; simpl; try discriminate. intros t. destruct (Nat.eqb (as_msgs A) 0); discriminate.
Qed.

Lemma wake_joiners_post thr u : post_join (p_pc (wake_joiners thr u)) = post_join (p_pc (thr u)).
Proof. unfold wake_joiners. destruct (p_pc (thr u)) eqn:E; simpl; rewrite ?E; reflexivity. Qed.

Ltac jinv_thr J2 t :=
  let u := fresh "u" in let Hu := fresh "Hu" in
  intros u Hu; unfold upd in Hu; destruct (Nat.eqb_spec u t); subst; simpl in Hu;
  [try discriminate | apply (J2 u); exact Hu].

Lemma astep_jinv fixed A s t ch s' l : JInv s -> astep fixed A s t ch = Some (s', l) -> JInv s'.
Proof.
  intros [J1 J2 J3] Hs. unfold astep in Hs. destruct t as [|t].
  - unfold cstep in Hs. destruct (a_cur s) as [ct ck].
    destruct (a_cons s) eqn:Ec; try discriminate.
    + inv_some Hs; constructor; simpl; auto; try (intros H; specialize (J1 H); discriminate).
    + destruct (a_queue s); inv_some Hs; constructor; simpl; auto; try (intros H; specialize (J1 H); discriminate).
    + destruct (a_queue s) as [|[tt kk|] q]; try discriminate; inv_some Hs; constructor; simpl; auto;
        try (intros H; specialize (J1 H); discriminate).
    + inv_some Hs; constructor; simpl; auto; try (intros H; specialize (J1 H); discriminate).
    + inv_some Hs; constructor; simpl; auto; try (intros H; specialize (J1 H); discriminate).
    + inv_some Hs; constructor; simpl; auto; try (intros H; specialize (J1 H); discriminate).
    + inv_some Hs; constructor; simpl; auto; try (intros H; specialize (J1 H); discriminate).
    + inv_some Hs; constructor; simpl; auto; try (intros H; specialize (J1 H); discriminate).
    + inv_some Hs. constructor; simpl; auto.
    + inv_some Hs. constructor; simpl; auto.
      intros u Hu. rewrite wake_joiners_post in Hu. apply (J2 u). exact Hu.
    + inv_some Hs. constructor; simpl; auto.
  - destruct (Nat.ltb (as_n A) (S t)); [discriminate|]. unfold pstep in Hs.
    set (T := S t) in *.
    destruct (p_pc (a_thr s T)) eqn:Epc; try discriminate.
    + destruct (as_lowest A >? _); inv_some Hs; constructor; simpl; auto; jinv_thr J2 T.
      unfold p_next in Hu. destruct (Nat.ltb _ _); discriminate.
    + inv_some Hs; constructor; simpl; auto; jinv_thr J2 T.
    + inv_some Hs; constructor; simpl; auto; jinv_thr J2 T.
    + destruct (a_wlock s); inv_some Hs; constructor; simpl; auto; jinv_thr J2 T.
    + inv_some Hs; constructor; simpl; auto; jinv_thr J2 T. destruct (Nat.leb _ _); discriminate.
    + inv_some Hs; constructor; simpl; auto; jinv_thr J2 T.
    + destruct full; [destruct fixed|]; inv_some Hs; constructor; simpl; auto; jinv_thr J2 T;
        unfold p_next in Hu; destruct (Nat.ltb _ _); discriminate.
    + destruct (a_cons s) eqn:Ec; inv_some Hs; constructor; simpl; auto;
        try (intros H; specialize (J1 H); discriminate);
        try (intros _; rewrite Ec; reflexivity);
        try (jinv_thr J2 T; unfold p_next in Hu; destruct (Nat.ltb _ _); discriminate).
    + inv_some Hs; constructor; simpl; auto; jinv_thr J2 T.
    + inv_some Hs; constructor; simpl; auto; jinv_thr J2 T.
      unfold p_next in Hu. destruct (Nat.ltb _ _); discriminate.
    + inv_some Hs; constructor; simpl; auto; jinv_thr J2 T. destruct (Nat.eqb _ 0); discriminate.
    + inv_some Hs; constructor; simpl; auto; jinv_thr J2 T.
    + destruct (a_wlock s); inv_some Hs; constructor; simpl; auto; jinv_thr J2 T.
    + inv_some Hs; constructor; simpl; auto; jinv_thr J2 T. destruct (Nat.leb _ _); discriminate.
    + inv_some Hs; constructor; simpl; auto; jinv_thr J2 T.
    + inv_some Hs; constructor; simpl; auto; jinv_thr J2 T. destruct full; [destruct fixed|]; discriminate.
    + destruct (a_cons s) eqn:Ec; inv_some Hs; constructor; simpl; auto;
        try (intros H; specialize (J1 H); discriminate);
        try (intros _; rewrite Ec; reflexivity); try (jinv_thr J2 T).
    + inv_some Hs; constructor; simpl; auto; jinv_thr J2 T.
    + inv_some Hs; constructor; simpl; auto; jinv_thr J2 T.
      destruct (a_joinword s) eqn:Ej; [reflexivity|discriminate].
    + destruct (a_joinword s) eqn:Ej; inv_some Hs; constructor; simpl; rewrite ?Ej; auto;
        try (intros u Hu; unfold upd in Hu; destruct (Nat.eqb_spec u T); subst; simpl in Hu;
             try discriminate; try reflexivity; exact (J2 u Hu)).
    + inv_some Hs; constructor; simpl; auto; jinv_thr J2 T. apply (J2 T). rewrite Epc. reflexivity.
    + inv_some Hs; constructor; simpl; auto; jinv_thr J2 T. apply (J2 T). rewrite Epc. reflexivity.
    + inv_some Hs; constructor; simpl; auto; [jinv_thr J2 T|]. intros _. apply (J2 T). rewrite Epc. reflexivity.
    + inv_some Hs; constructor; simpl; auto; jinv_thr J2 T.
Qed.

Theorem async_join_invariant fixed A sched : JInv (exec asys (astep fixed A) (ainit A) sched).
Proof. apply inv_exec; [|apply ainit_jinv]. intros; eapply astep_jinv; eauto. Qed.

(* once destroy has returned: the writer thread has exited, no line is in progress, and every
   message it took from the queue is on every accepting handler's stream, whole, in queue order *)
Lemma destroyed_all_written fixed A sched :
  let s := exec asys (astep fixed A) (ainit A) sched in
  a_destroyed s = true ->
  cexited (a_cons s) = true /\
  a_accepted s = a_consumed s ++ msgs_of (a_queue s) /\
  forall i, whole (a_out s i) /\ lines_of (a_out s i) = filter (macc A i) (a_consumed s).
Proof.
  intros s Hd. destruct (async_join_invariant fixed A sched) as [J1 J2 J3].
  destruct (async_invariant fixed A sched) as [F C O W M]. fold s in J1, J2, J3, F, C, O, W, M.
  pose proof (J1 (J3 Hd)) as Hex. split; [exact Hex|]. split; [exact F|].
  intros i. split.
  - apply W. destruct (a_cons s); try discriminate; reflexivity.
  - rewrite O. unfold done_part. destruct (a_cons s); try discriminate; reflexivity.
Qed.

(* ------------------------------------------------------------------ *)
(* each producer's accepted calls keep their order                     *)

Definition ks_of (t : nat) (l : list (nat * nat)) : list nat :=
  map snd (filter (fun m : nat * nat => Nat.eqb (fst m) t) l).
Fixpoint incr_from (lo : nat) (l : list nat) : Prop :=
  match l with [] => True | x :: r => (lo <= x)%nat /\ incr_from (S x) r end.
Definition pushed (p : ppc) : bool := match p with PUnlock false | PWake => true | _ => false end.
Definition abound (x : pthread) : nat := if pushed (p_pc x) then S (p_k x) else p_k x.

Lemma incr_from_snoc k : forall l lo, incr_from lo l -> Forall (fun x => (x < k)%nat) l -> (lo <= k)%nat ->
  incr_from lo (l ++ [k]).
Proof.
  induction l as [|x r IH]; intros lo Hi Hf Hlo; simpl in *.
  - auto.
  - destruct Hi as [H1 H2]. inversion Hf; subst. split; [exact H1|]. apply IH; auto.
Qed.

Definition PInv (s : asys) : Prop :=
  forall t, incr_from 0 (ks_of t (a_accepted s)) /\
            Forall (fun x => (x < abound (a_thr s t))%nat) (ks_of t (a_accepted s)).

Lemma pinv_frame s s' :
  PInv s -> a_accepted s' = a_accepted s ->
  (forall u, (abound (a_thr s u) <= abound (a_thr s' u))%nat) -> PInv s'.
Proof.
  intros P E B t. rewrite E. destruct (P t) as [H1 H2]. split; [exact H1|].
  eapply Forall_impl; [|exact H2]. intros x Hx. simpl in Hx. specialize (B t). lia.
Qed.

Lemma abound_upd thr t x' : (abound (thr t) <= abound x')%nat ->
  forall u, (abound (thr u) <= abound (upd thr t x' u))%nat.
Proof. intros H u. unfold upd. destruct (Nat.eqb_spec u t); subst; [exact H|lia]. Qed.

Lemma abound_p_next A k : abound (p_next A k) = S k.
Proof. unfold p_next. destruct (Nat.ltb (S k) (as_msgs A)); reflexivity. Qed.

Lemma astep_pinv fixed A s t ch s' l : PInv s -> astep fixed A s t ch = Some (s', l) -> PInv s'.
Proof.
  intros P Hs. unfold astep in Hs. destruct t as [|t].
  - (* the writer thread never touches the accepted list; wake-up keeps every producer's bound *)
    assert (E : a_accepted s' = a_accepted s /\ (forall u, (abound (a_thr s u) <= abound (a_thr s' u))%nat)).
    { unfold cstep in Hs. destruct (a_cur s) as [ct ck].
      destruct (a_cons s); try discriminate;
        try (destruct (a_queue s) as [|[tt kk|] q]; try discriminate); inv_some Hs; simpl; split; auto.
      all: intros u; unfold wake_joiners, abound; destruct (p_pc (a_thr s u)) eqn:E; simpl; rewrite ?E; simpl; lia. }
    destruct E as [E1 E2]. eapply pinv_frame; eauto.
  - destruct (Nat.ltb (as_n A) (S t)); [discriminate|]. unfold pstep in Hs.
    set (T := S t) in *. clearbody T.
    assert (Hk : forall p, p_pc (a_thr s T) = p -> abound (a_thr s T) = if pushed p then S (p_k (a_thr s T)) else p_k (a_thr s T)).
    { intros p Hp. unfold abound. rewrite Hp. reflexivity. }
    destruct (p_pc (a_thr s T)) eqn:Epc; try discriminate; specialize (Hk _ eq_refl); simpl in Hk;
      try (solve [ repeat match type of Hs with context [if ?b then _ else _] => destruct b end;
                   repeat match type of Hs with context [match ?c with _ => _ end] => destruct c eqn:? end;
                   inv_some Hs; (eapply pinv_frame; [exact P | reflexivity |]); simpl;
                   apply abound_upd; rewrite Hk, ?abound_p_next; unfold abound; simpl; lia ]).
    + (* PPush: call k of thread T joins the accepted list *)
      inv_some Hs. intros u. simpl. unfold ks_of. rewrite filter_app, map_app. simpl.
      destruct (P u) as [H1 H2]. unfold upd. destruct (Nat.eqb_spec T u).
      * subst u. rewrite Nat.eqb_refl. simpl. rewrite Hk in H2. split.
        -- apply incr_from_snoc; [exact H1|exact H2|lia].
        -- apply Forall_app. split.
           ++ eapply Forall_impl; [|exact H2]. intros x Hx. simpl in *. unfold abound. simpl. lia.
           ++ constructor; [unfold abound; simpl; lia|constructor].
      * assert (Nat.eqb u T = false) as -> by (apply Nat.eqb_neq; congruence).
        simpl. rewrite !app_nil_r. split; [exact H1|exact H2].
Qed.

Theorem async_accept_order fixed A sched : PInv (exec asys (astep fixed A) (ainit A) sched).
Proof.
  apply inv_exec.
  - intros; eapply astep_pinv; eauto.
  - intros t. simpl. split; [exact I|constructor].
Qed.

(* ------------------------------------------------------------------ *)
(* the code as first found: a concrete history in which two messages are refused by the full
   queue and leaked, the NULL sentinel is refused too, and destroy never returns; the same
   history on the repaired code ends with everything released and destroy returned *)

Definition ex_ascen : ascen :=
  {| as_n := 1; as_msgs := 4; as_level := fun _ _ => 512;
     as_handlers := [{| h_kind := HCap; h_level := 0; h_fmt := 0 |}]; as_lowest := 0; as_usable := usable_of 4 |}.
Definition ex_sched : list (nat * nat) :=
  repeat (1, 0)%nat 60 ++ flat_map (fun _ => [(0, 0); (1, 0)]%nat) (seq 0 100).

Lemma unrepaired_witness :
  let s := exec asys (astep false ex_ascen) (ainit ex_ascen) ex_sched in
  a_dropped s = [(1, 2); (1, 3)]%nat /\ a_live s = 6%nat /\ a_destroyed s = false /\
  a_cons s = CBlocked /\ p_pc (a_thr s 1%nat) = PJoinBlocked /\
  (forall t ch, astep false ex_ascen s t ch = None).
Proof.
  vm_compute. repeat split; try reflexivity.
  intros t ch. destruct t as [|[|t]]; reflexivity.
Qed.

Lemma repaired_witness :
  let s := exec asys (astep true ex_ascen) (ainit ex_ascen) ex_sched in
  a_dropped s = [(1, 2); (1, 3)]%nat /\ a_live s = 0%nat /\ a_destroyed s = true /\
  a_cons s = CEnd /\ p_pc (a_thr s 1%nat) = PEnd /\ a_consumed s = a_accepted s /\
  lines_of (a_out s 0%nat) = [(1, 0); (1, 1)]%nat.
Proof. vm_compute. repeat split; reflexivity. Qed.

(* the refused message is released by the producer before its next call (repaired code) *)
Lemma refused_message_released A s t k :
  p_pc (a_thr s t) = PUnlock true -> p_k (a_thr s t) = k ->
  exists s1 l1 s2 l2 s3 l3,
    pstep true A s t = Some (s1, l1) /\ pstep true A s1 t = Some (s2, l2) /\ pstep true A s2 t = Some (s3, l3) /\
    a_live s3 = pred (pred (a_live s)) /\ a_dropped s3 = a_dropped s ++ [(t, k)] /\
    a_thr s3 t = p_next A k /\ a_queue s3 = a_queue s /\ a_accepted s3 = a_accepted s.
Proof.
  intros Hpc Hk.
  set (s1 := a_set_thr (a_set_wlock s false) t {| p_pc := PFreePay; p_k := p_k (a_thr s t) |}).
  set (s2 := a_set_thr (a_set_live s1 (pred (a_live s1))) t {| p_pc := PFreeMsg; p_k := k |}).
  set (s3 := a_set_thr (a_drop (a_set_live s2 (pred (a_live s2))) (t, k)) t (p_next A k)).
  assert (H1 : a_thr s1 t = {| p_pc := PFreePay; p_k := k |}) by (simpl; rewrite upd_same, Hk; reflexivity).
  assert (H2 : a_thr s2 t = {| p_pc := PFreeMsg; p_k := k |}) by (simpl; rewrite !upd_same; reflexivity).
  exists s1, (ev OMunlock cell_wmtx 0 0 0), s2, (LPlain [(note_free, 0)]), s3, (LPlain [(note_free, 0)]).
  split. { unfold pstep. rewrite Hpc. reflexivity. }
  split. { unfold pstep. rewrite H1. reflexivity. }
  split. { unfold pstep. rewrite H2. reflexivity. }
  subst s3. simpl. rewrite !upd_same. simpl. repeat split; reflexivity.
Qed.
