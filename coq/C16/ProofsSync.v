(* C16 — sync logger under N threads: lines are whole (handler mutex), each thread's lines keep
   their order, and exactly the accepted calls appear — for every schedule, any number of
   threads, any number of handlers. *)
From MV Require Import C16.Model.
Local Open Scope Z_scope.

(* ------------------------------------------------------------------ *)
(* next accepting handler                                              *)

Definition acc_h (hs : list handler) (i : nat) (level : Z) : bool :=
  match nth_error hs i with Some h => should_write h level | None => false end.

Lemma nth_error_skipn_plus {A} (l : list A) : forall n m, nth_error (skipn n l) m = nth_error l (n + m).
Proof.
  induction l as [|a r IH]; intros n m.
  - rewrite skipn_nil. destruct m, n; reflexivity.
  - destruct n; simpl; [reflexivity|apply IH].
Qed.

Lemma next_handler_spec level : forall l b,
  match next_handler l b level with
  | Some j => (b <= j)%nat /\
              (exists h, nth_error l (j - b) = Some h /\ should_write h level = true) /\
              (forall m h, (b <= m < j)%nat -> nth_error l (m - b) = Some h -> should_write h level = false)
  | None => forall m h, (b <= m)%nat -> nth_error l (m - b) = Some h -> should_write h level = false
  end.
Proof.
  induction l as [|h r IH]; intros b; simpl.
  - intros m h _ H. destruct (m - b)%nat; discriminate.
  - destruct (should_write h level) eqn:E.
    + split; [lia|]. split.
      * exists h. rewrite Nat.sub_diag. auto.
      * intros m h0 Hm. lia.
    + specialize (IH (S b)). destruct (next_handler r (S b) level) as [j|].
      * destruct IH as (Hle & (h1 & Hn & Hs) & Hgap). split; [lia|]. split.
        -- exists h1. replace (j - b)%nat with (S (j - S b)) by lia. auto.
        -- intros m h0 Hm Hn0. destruct (Nat.eq_dec m b) as [->|Hne].
           ++ rewrite Nat.sub_diag in Hn0. simpl in Hn0. congruence.
           ++ replace (m - b)%nat with (S (m - S b)) in Hn0 by lia. simpl in Hn0.
              eapply Hgap; [|exact Hn0]. lia.
      * intros m h0 Hm Hn0. destruct (Nat.eq_dec m b) as [->|Hne].
        -- rewrite Nat.sub_diag in Hn0. simpl in Hn0. congruence.
        -- replace (m - b)%nat with (S (m - S b)) in Hn0 by lia. simpl in Hn0.
           eapply IH; [|exact Hn0]. lia.
Qed.

Lemma next_from_some hs i level j : next_from hs i level = Some j ->
  (i <= j)%nat /\ acc_h hs j level = true /\ (forall m, (i <= m < j)%nat -> acc_h hs m level = false).
Proof.
  unfold next_from. intros H. pose proof (next_handler_spec level (skipn i hs) i) as S.
  rewrite H in S. destruct S as (Hle & (h & Hn & Hs) & Hgap). split; [exact Hle|]. split.
  - unfold acc_h. rewrite nth_error_skipn_plus in Hn. replace (i + (j - i))%nat with j in Hn by lia.
    rewrite Hn. exact Hs.
  - intros m Hm. unfold acc_h. destruct (nth_error hs m) as [h0|] eqn:E; [|reflexivity].
    apply (Hgap m h0 Hm). rewrite nth_error_skipn_plus. replace (i + (m - i))%nat with m by lia. exact E.
Qed.
Lemma next_from_none hs i level : next_from hs i level = None ->
  forall m, (i <= m)%nat -> acc_h hs m level = false.
Proof.
  unfold next_from. intros H m Hm. pose proof (next_handler_spec level (skipn i hs) i) as S.
  rewrite H in S. unfold acc_h. destruct (nth_error hs m) as [h0|] eqn:E; [|reflexivity].
  apply (S m h0 Hm). rewrite nth_error_skipn_plus. replace (i + (m - i))%nat with m by lia. exact E.
Qed.

(* ------------------------------------------------------------------ *)
(* whole lines from the handler mutex                                  *)

Definition holds_h (p : spc) (i : nat) : bool :=
  match p with SEmit1 j | SYield j | SEmit2 j | SUnlock j => Nat.eqb j i | _ => false end.
Definition mid (p : spc) (i : nat) : bool :=
  match p with SYield j | SEmit2 j => Nat.eqb j i | _ => false end.

Lemma mid_holds p i : mid p i = true -> holds_h p i = true.
Proof. destruct p; simpl; congruence. Qed.

(* a stream made of whole lines: every first part is directly followed by its second part *)
Inductive whole : list chunk -> Prop :=
  | whole_nil : whole []
  | whole_snoc l t k : whole l -> whole (l ++ [(t, k, 1%nat); (t, k, 2%nat)]).

Record SInv (s : ssys) : Prop := {
  si_excl : forall i t u, holds_h (s_pc (s_thr s t)) i = true -> holds_h (s_pc (s_thr s u)) i = true -> t = u;
  si_locked : forall i t, holds_h (s_pc (s_thr s t)) i = true -> s_lock s i = true;
  si_mid : forall i t, mid (s_pc (s_thr s t)) i = true ->
           exists l, whole l /\ s_out s i = l ++ [(t, s_k (s_thr s t), 1%nat)];
  si_whole : forall i, (forall t, mid (s_pc (s_thr s t)) i = false) -> whole (s_out s i);
}.

Lemma sinit_inv : SInv sinit.
Proof. constructor; simpl; intros; try discriminate. constructor. Qed.

Ltac inv_some H := inversion H; subst; clear H.

(* thread t moves between program points; lock and streams unchanged; it gives up nothing it
   needs and acquires nothing *)
Lemma sinv_move s t x' :
  SInv s ->
  (forall i, holds_h (s_pc x') i = true -> holds_h (s_pc (s_thr s t)) i = true) ->
  (forall i, mid (s_pc x') i = mid (s_pc (s_thr s t)) i) ->
  (forall i, mid (s_pc x') i = true -> s_k x' = s_k (s_thr s t)) ->
  SInv (s_set_thr s t x').
Proof.
  intros [Hex Hlk Hmid Hwh] Hh Hm Hk. constructor; simpl.
  - intros i a b Ha Hb. unfold upd in *.
    destruct (Nat.eqb_spec a t), (Nat.eqb_spec b t); subst; auto.
    + apply Hh in Ha. eapply Hex; eauto.
    + apply Hh in Hb. eapply Hex; eauto.
    + eapply Hex; eauto.
  - intros i a Ha. unfold upd in *. destruct (Nat.eqb_spec a t); subst; [apply Hh in Ha|]; eauto.
  - intros i a Ha. unfold upd in *. destruct (Nat.eqb_spec a t); subst.
    + rewrite (Hk i Ha). rewrite Hm in Ha. apply Hmid; exact Ha.
    + apply Hmid; exact Ha.
  - intros i Hall. apply Hwh. intros a. specialize (Hall a). unfold upd in Hall.
    destruct (Nat.eqb_spec a t); subst; [rewrite Hm in Hall|]; exact Hall.
Qed.

Lemma s_after_pc Sc k level from i :
  holds_h (s_pc (s_after Sc k level from)) i = false /\ mid (s_pc (s_after Sc k level from)) i = false.
Proof. unfold s_after. destruct (next_from (sc_handlers Sc) from level); simpl; auto. Qed.

Lemma sstep_sinv Sc s t ch s' l : SInv s -> sstep Sc s t ch = Some (s', l) -> SInv s'.
Proof.
  intros I Hs. unfold sstep in Hs.
  destruct (Nat.leb (sc_n Sc) t); [discriminate|].
  destruct (s_pc (s_thr s t)) as [|i|i|i|i|i| |] eqn:Epc.
  - (* SCall *)
    destruct (Nat.leb (sc_msgs Sc) (s_k (s_thr s t))); [|destruct (sc_lowest Sc >? _)]; inv_some Hs;
      apply sinv_move; auto; intros j; rewrite ?Epc; simpl; try congruence;
      try (destruct (s_after_pc Sc (s_k (s_thr s t)) (sc_level Sc t (s_k (s_thr s t))) 0 j) as [A B]; congruence).
  - (* SLock: the mutex was free, so nobody held it *)
    destruct (s_lock s i) eqn:El; [discriminate|]. inv_some Hs.
    destruct I as [Hex Hlk Hmid Hwh].
    assert (Hnone : forall u, holds_h (s_pc (s_thr s u)) i = false).
    { intros u. destruct (holds_h (s_pc (s_thr s u)) i) eqn:E; [|reflexivity].
      apply Hlk in E. congruence. }
    constructor; simpl.
    + intros j a b Ha Hb. unfold upd in *.
      destruct (Nat.eqb_spec a t), (Nat.eqb_spec b t); subst; auto; simpl in *.
      * apply Nat.eqb_eq in Ha. subst. rewrite Hnone in Hb. discriminate.
      * apply Nat.eqb_eq in Hb. subst. rewrite Hnone in Ha. discriminate.
      * eapply Hex; eauto.
    + intros j a Ha. unfold upd in *. destruct (Nat.eqb_spec a t); subst; simpl in *.
      * apply Nat.eqb_eq in Ha. subst. rewrite Nat.eqb_refl. reflexivity.
      * destruct (Nat.eqb_spec j i); subst; [reflexivity|]. eapply Hlk; eauto.
    + intros j a Ha. unfold upd in *. destruct (Nat.eqb_spec a t); subst; simpl in *; [discriminate|].
      apply Hmid; exact Ha.
    + intros j Hall. apply Hwh. intros a. specialize (Hall a). unfold upd in Hall.
      destruct (Nat.eqb_spec a t); subst; [rewrite Epc; reflexivity|exact Hall].
  - (* SEmit1: first part; the stream consisted of whole lines *)
    inv_some Hs. destruct I as [Hex Hlk Hmid Hwh].
    assert (Ht : holds_h (s_pc (s_thr s t)) i = true) by (rewrite Epc; simpl; apply Nat.eqb_refl).
    assert (Hnomid : forall u, mid (s_pc (s_thr s u)) i = false).
    { intros u. destruct (mid (s_pc (s_thr s u)) i) eqn:E; [|reflexivity].
      assert (u = t) by (eapply Hex; [apply mid_holds; exact E|exact Ht]). subst.
      rewrite Epc in E. discriminate. }
    constructor; simpl.
    + intros j a b Ha Hb. unfold upd in *.
      destruct (Nat.eqb_spec a t), (Nat.eqb_spec b t); subst; auto; simpl in *.
      * apply Nat.eqb_eq in Ha. subst. eapply Hex; eauto.
      * apply Nat.eqb_eq in Hb. subst. eapply Hex; eauto.
      * eapply Hex; eauto.
    + intros j a Ha. unfold upd in *. destruct (Nat.eqb_spec a t); subst; simpl in *.
      * apply Nat.eqb_eq in Ha. subst. eapply Hlk; eauto.
      * eapply Hlk; eauto.
    + intros j a Ha. unfold upd in *. destruct (Nat.eqb_spec a t); subst; simpl in *.
      * apply Nat.eqb_eq in Ha. subst. rewrite Nat.eqb_refl.
        exists (s_out s j). split; [apply Hwh; exact Hnomid|reflexivity].
      * destruct (Nat.eqb_spec j i); subst.
        -- rewrite Hnomid in Ha. discriminate.
        -- apply Hmid; exact Ha.
    + intros j Hall. destruct (Nat.eqb_spec j i); subst.
      * specialize (Hall t). unfold upd in Hall. rewrite Nat.eqb_refl in Hall. simpl in Hall.
        rewrite Nat.eqb_refl in Hall. discriminate.
      * unfold upd. destruct (Nat.eqb_spec j i); [contradiction|].
        apply Hwh. intros a. specialize (Hall a). unfold upd in Hall.
        destruct (Nat.eqb_spec a t); subst; [rewrite Epc; reflexivity|exact Hall].
  - (* SYield *)
    inv_some Hs. apply sinv_move; auto; intros j; rewrite Epc; simpl; auto.
  - (* SEmit2: second part completes the line *)
    inv_some Hs. destruct I as [Hex Hlk Hmid Hwh].
    assert (Ht : holds_h (s_pc (s_thr s t)) i = true) by (rewrite Epc; simpl; apply Nat.eqb_refl).
    assert (Htm : mid (s_pc (s_thr s t)) i = true) by (rewrite Epc; simpl; apply Nat.eqb_refl).
    assert (Hothers : forall u, u <> t -> mid (s_pc (s_thr s u)) i = false).
    { intros u Hne. destruct (mid (s_pc (s_thr s u)) i) eqn:E; [|reflexivity].
      exfalso. apply Hne. eapply Hex; [apply mid_holds; exact E|exact Ht]. }
    constructor; simpl.
    + intros j a b Ha Hb. unfold upd in *.
      destruct (Nat.eqb_spec a t), (Nat.eqb_spec b t); subst; auto; simpl in *.
      * apply Nat.eqb_eq in Ha. subst. eapply Hex; eauto.
      * apply Nat.eqb_eq in Hb. subst. eapply Hex; eauto.
      * eapply Hex; eauto.
    + intros j a Ha. unfold upd in *. destruct (Nat.eqb_spec a t); subst; simpl in *.
      * apply Nat.eqb_eq in Ha. subst. eapply Hlk; eauto.
      * eapply Hlk; eauto.
    + intros j a Ha. unfold upd in *. destruct (Nat.eqb_spec a t); subst; simpl in *; [discriminate|].
      destruct (Nat.eqb_spec j i); subst.
      * rewrite Hothers in Ha by assumption. discriminate.
      * apply Hmid; exact Ha.
    + intros j Hall. unfold upd. destruct (Nat.eqb_spec j i); subst.
      * destruct (Hmid i t Htm) as (l0 & Hw & Ho). rewrite Ho, <- app_assoc. simpl.
        apply whole_snoc. exact Hw.
      * apply Hwh. intros a. specialize (Hall a). unfold upd in Hall.
        destruct (Nat.eqb_spec a t); subst; [|exact Hall].
        rewrite Epc. simpl. apply Nat.eqb_neq. congruence.
  - (* SUnlock *)
    inv_some Hs. destruct I as [Hex Hlk Hmid Hwh].
    assert (Ht : holds_h (s_pc (s_thr s t)) i = true) by (rewrite Epc; simpl; apply Nat.eqb_refl).
    set (x' := s_after Sc (s_k (s_thr s t)) (sc_level Sc t (s_k (s_thr s t))) (S i)).
    assert (Hx : forall j, holds_h (s_pc x') j = false /\ mid (s_pc x') j = false) by (intros j; apply s_after_pc).
    constructor; simpl.
    + intros j a b Ha Hb. unfold upd in *.
      destruct (Nat.eqb_spec a t), (Nat.eqb_spec b t); subst; auto.
      * destruct (Hx j) as [A _]. congruence.
      * destruct (Hx j) as [A _]. congruence.
      * eapply Hex; eauto.
    + intros j a Ha. unfold upd in *. destruct (Nat.eqb_spec a t); subst.
      * destruct (Hx j) as [A _]. congruence.
      * destruct (Nat.eqb_spec j i); subst.
        -- exfalso. apply n. eapply Hex; eauto.
        -- eapply Hlk; eauto.
    + intros j a Ha. unfold upd in *. destruct (Nat.eqb_spec a t); subst.
      * destruct (Hx j) as [_ B]. congruence.
      * apply Hmid; exact Ha.
    + intros j Hall. apply Hwh. intros a. specialize (Hall a). unfold upd in Hall.
      destruct (Nat.eqb_spec a t); subst; [rewrite Epc; reflexivity|exact Hall].
  - (* SFin *)
    inv_some Hs. apply sinv_move; auto; intros j; rewrite Epc; simpl; auto.
  - discriminate.
Qed.

Theorem sync_lines_whole Sc sched : SInv (exec ssys (sstep Sc) sinit sched).
Proof. apply inv_exec; [|apply sinit_inv]. intros; eapply sstep_sinv; eauto. Qed.

(* ------------------------------------------------------------------ *)
(* per-thread order and exactness                                      *)

(* message numbers of thread t's lines (first parts) in a stream, in stream order *)
Definition firsts_of (t : nat) (l : list chunk) : list nat :=
  map (fun c : chunk => snd (fst c))
      (filter (fun c : chunk => Nat.eqb (fst (fst c)) t && Nat.eqb (snd c) 1) l).

Lemma firsts_of_app t a b : firsts_of t (a ++ b) = firsts_of t a ++ firsts_of t b.
Proof. unfold firsts_of. rewrite filter_app, map_app. reflexivity. Qed.

(* call k of thread t is accepted by handler i *)
Definition accepts (Sc : scen) (t i k : nat) : bool :=
  negb (sc_lowest Sc >? sc_level Sc t k) && acc_h (sc_handlers Sc) i (sc_level Sc t k).

(* has the thread already written the current call's line to handler i? *)
Definition passed (p : spc) (i : nat) : bool :=
  match p with
  | SLock j | SEmit1 j => Nat.ltb i j
  | SYield j | SEmit2 j | SUnlock j => Nat.leb i j
  | _ => false
  end.
Definition progress (x : sthread) (i : nat) : nat := if passed (s_pc x) i then S (s_k x) else s_k x.

Definition at_handler (p : spc) : option nat :=
  match p with SLock j | SEmit1 j | SYield j | SEmit2 j | SUnlock j => Some j | _ => None end.

Record OInv (Sc : scen) (s : ssys) : Prop := {
  oi_out : forall t i, firsts_of t (s_out s i) = filter (accepts Sc t i) (seq 0 (progress (s_thr s t) i));
  oi_pc : forall t j, at_handler (s_pc (s_thr s t)) = Some j -> accepts Sc t j (s_k (s_thr s t)) = true;
  oi_k : forall t, (s_k (s_thr s t) <= sc_msgs Sc)%nat;
  oi_fin : forall t, s_pc (s_thr s t) = SFin \/ s_pc (s_thr s t) = SDone -> s_k (s_thr s t) = sc_msgs Sc;
  oi_lt : forall t j, at_handler (s_pc (s_thr s t)) = Some j -> (s_k (s_thr s t) < sc_msgs Sc)%nat;
}.

Lemma filter_seq_S {f : nat -> bool} n : filter f (seq 0 (S n)) = filter f (seq 0 n) ++ (if f n then [n] else []).
Proof. rewrite seq_S, filter_app. simpl. destruct (f n); reflexivity. Qed.

Lemma sinit_oinv Sc : OInv Sc sinit.
Proof. constructor; simpl; intros; try discriminate; try lia; try reflexivity. destruct H; discriminate. Qed.

(* one step of thread t: new program point x', new streams out' *)
Lemma oinv_step Sc s t x' out' lock' :
  OInv Sc s ->
  (forall a i, a <> t -> firsts_of a (out' i) = firsts_of a (s_out s i)) ->
  (forall i, firsts_of t (out' i) = filter (accepts Sc t i) (seq 0 (progress x' i))) ->
  (forall j, at_handler (s_pc x') = Some j -> accepts Sc t j (s_k x') = true) ->
  (s_k x' <= sc_msgs Sc)%nat ->
  (s_pc x' = SFin \/ s_pc x' = SDone -> s_k x' = sc_msgs Sc) ->
  (forall j, at_handler (s_pc x') = Some j -> (s_k x' < sc_msgs Sc)%nat) ->
  OInv Sc {| s_lock := lock'; s_out := out'; s_thr := upd (s_thr s) t x' |}.
Proof.
  intros [Ho Hp Hk Hf Hlt] H1 H2 H3 H4 H5 H6. constructor; simpl; intros a; unfold upd;
    destruct (Nat.eqb_spec a t); subst; auto;
    first [ intros i; rewrite H1 by assumption; apply Ho | apply Hlt | apply Hp ].
Qed.

Lemma firsts_of_same t l : forall a : nat, a <> t -> firsts_of a l = firsts_of a l.
Proof. reflexivity. Qed.

Lemma firsts_of_snoc_other a t k h l : a <> t -> firsts_of a (l ++ [(t, k, h)]) = firsts_of a l.
Proof.
  intros Hne. rewrite firsts_of_app. unfold firsts_of at 2. simpl.
  assert (Nat.eqb t a = false) as -> by (apply Nat.eqb_neq; congruence). simpl. apply app_nil_r.
Qed.

Lemma sstep_oinv Sc s t ch s' l : OInv Sc s -> sstep Sc s t ch = Some (s', l) -> OInv Sc s'.
Proof.
  intros I Hs. pose proof I as [Ho Hp Hk Hf Hlt]. unfold sstep in Hs.
  destruct (Nat.leb (sc_n Sc) t); [discriminate|].
  set (k := s_k (s_thr s t)) in *. set (level := sc_level Sc t k) in *.
  destruct (s_pc (s_thr s t)) as [|i|i|i|i|i| |] eqn:Epc.
  - (* SCall *)
    destruct (Nat.leb_spec (sc_msgs Sc) k) as [Hge|Hlt0].
    + inv_some Hs. apply oinv_step; [exact I | try (intros; reflexivity) | ..]; cbn [s_pc s_k at_handler].
      * intros i. rewrite Ho. unfold progress. rewrite Epc. reflexivity.
      * discriminate.
      * apply Hk.
      * intros _. specialize (Hk t). fold k in Hk. fold k. lia.
      * discriminate.
    + destruct (Z.gtb_spec (sc_lowest Sc) level) as [Hgt|Hngt].
      * (* refused by the logger threshold *)
        inv_some Hs. apply oinv_step; [exact I | try (intros; reflexivity) | ..]; cbn [s_pc s_k at_handler].
        -- intros i. rewrite Ho. unfold progress. rewrite Epc. cbn [passed s_pc s_k]. fold k.
           rewrite filter_seq_S.
           assert (accepts Sc t i k = false) as ->.
           { unfold accepts. fold level.
             assert (sc_lowest Sc >? level = true) as -> by (apply Z.gtb_lt; lia). reflexivity. }
           rewrite app_nil_r. reflexivity.
        -- discriminate.
        -- fold k. lia.
        -- intros [H|H]; discriminate.
        -- discriminate.
      * inv_some Hs. unfold s_after.
        assert (Hlow : negb (sc_lowest Sc >? level) = true).
        { destruct (Z.gtb_spec (sc_lowest Sc) level); [lia|reflexivity]. }
        destruct (next_from (sc_handlers Sc) 0 level) as [j|] eqn:En.
        -- destruct (next_from_some _ _ _ _ En) as (_ & Hacc & Hgap).
           apply oinv_step; [exact I | try (intros; reflexivity) | ..]; cbn [s_pc s_k at_handler].
           ++ intros i. rewrite Ho. unfold progress. rewrite Epc. cbn [passed s_pc s_k]. fold k.
              destruct (Nat.ltb_spec i j); [|reflexivity].
              rewrite filter_seq_S.
              match goal with |- context [accepts Sc t ?ii k] =>
                assert (accepts Sc t ii k = false) as -> by (unfold accepts; fold level; rewrite Hgap by lia; apply andb_false_r) end.
              rewrite app_nil_r. reflexivity.
           ++ intros j0 H. inv_some H. unfold accepts. fold k level. rewrite Hlow, Hacc. reflexivity.
           ++ apply Hk.
           ++ intros [H|H]; discriminate.
           ++ intros j0 _. fold k. lia.
        -- pose proof (next_from_none _ _ _ En) as Hnone.
           apply oinv_step; [exact I | try (intros; reflexivity) | ..]; cbn [s_pc s_k at_handler].
           ++ intros i. rewrite Ho. unfold progress. rewrite Epc. cbn [passed s_pc s_k]. fold k.
              rewrite filter_seq_S.
              match goal with |- context [accepts Sc t ?ii k] =>
                assert (accepts Sc t ii k = false) as -> by (unfold accepts; fold level; rewrite Hnone by lia; apply andb_false_r) end.
              rewrite app_nil_r. reflexivity.
           ++ discriminate.
           ++ fold k. lia.
           ++ intros [H|H]; discriminate.
           ++ discriminate.
  - (* SLock *)
    destruct (s_lock s i); [discriminate|]. inv_some Hs. apply oinv_step; [exact I | try (intros; reflexivity) | ..]; cbn [s_pc s_k at_handler].
    + intros j. rewrite Ho. unfold progress. rewrite Epc. reflexivity.
    + intros j H. inv_some H. apply Hp. rewrite Epc. reflexivity.
    + apply Hk.
    + intros [H|H]; discriminate.
    + intros j _. apply (Hlt t i). rewrite Epc. reflexivity.
  - (* SEmit1: the line of call k starts in handler i's stream *)
    inv_some Hs.
    assert (Hacc : accepts Sc t i k = true) by (apply Hp; rewrite Epc; reflexivity).
    apply oinv_step; [exact I | try (intros; reflexivity) | ..]; cbn [s_pc s_k at_handler].
    + intros a j Hne. unfold upd. destruct (Nat.eqb_spec j i); subst; [|reflexivity].
      apply firsts_of_snoc_other. exact Hne.
    + intros j. unfold upd. destruct (Nat.eqb_spec j i); subst.
      * rewrite firsts_of_app, Ho. unfold firsts_of at 1. simpl.
        rewrite Nat.eqb_refl. simpl. unfold progress. rewrite Epc. cbn [passed s_pc s_k].
        rewrite Nat.ltb_irrefl, Nat.leb_refl. fold k. rewrite filter_seq_S, Hacc. reflexivity.
      * rewrite Ho. unfold progress. rewrite Epc. cbn [passed s_pc s_k].
        destruct (Nat.ltb_spec j i), (Nat.leb_spec j i); try reflexivity; lia.
    + intros j H. inv_some H. exact Hacc.
    + apply Hk.
    + intros [H|H]; discriminate.
    + intros j _. apply (Hlt t i). rewrite Epc. reflexivity.
  - (* SYield *)
    inv_some Hs. apply oinv_step; [exact I | try (intros; reflexivity) | ..]; cbn [s_pc s_k at_handler].
    + intros j. rewrite Ho. unfold progress. rewrite Epc. reflexivity.
    + intros j H. inv_some H. apply Hp. rewrite Epc. reflexivity.
    + apply Hk.
    + intros [H|H]; discriminate.
    + intros j _. apply (Hlt t i). rewrite Epc. reflexivity.
  - (* SEmit2: a second part is not a new line *)
    inv_some Hs. apply oinv_step; [exact I | try (intros; reflexivity) | ..]; cbn [s_pc s_k at_handler].
    + intros a j Hne. unfold upd. destruct (Nat.eqb_spec j i); subst; [|reflexivity].
      apply firsts_of_snoc_other. exact Hne.
    + intros j. unfold upd. destruct (Nat.eqb_spec j i); subst.
      * rewrite firsts_of_app, Ho. unfold firsts_of at 1. simpl. rewrite andb_false_r. simpl.
        rewrite app_nil_r. unfold progress. rewrite Epc. reflexivity.
      * rewrite Ho. unfold progress. rewrite Epc. reflexivity.
    + intros j H. inv_some H. apply Hp. rewrite Epc. reflexivity.
    + apply Hk.
    + intros [H|H]; discriminate.
    + intros j _. apply (Hlt t i). rewrite Epc. reflexivity.
  - (* SUnlock: on to the next accepting handler, or the next call *)
    inv_some Hs.
    assert (Hacc : accepts Sc t i k = true) by (apply Hp; rewrite Epc; reflexivity).
    assert (Hlow : negb (sc_lowest Sc >? level) = true).
    { unfold accepts in Hacc. fold level in Hacc. apply andb_prop in Hacc. tauto. }
    assert (Hklt : (k < sc_msgs Sc)%nat) by (apply (Hlt t i); rewrite Epc; reflexivity).
    unfold s_after. destruct (next_from (sc_handlers Sc) (S i) level) as [j|] eqn:En.
    + destruct (next_from_some _ _ _ _ En) as (Hle & Haccj & Hgap).
      apply oinv_step; [exact I | try (intros; reflexivity) | ..]; cbn [s_pc s_k at_handler].
      * intros i0. rewrite Ho. unfold progress. rewrite Epc. cbn [passed s_pc s_k]. fold k.
        destruct (Nat.leb_spec i0 i), (Nat.ltb_spec i0 j); try reflexivity; try lia.
        rewrite filter_seq_S.
        match goal with |- context [accepts Sc t ?ii k] =>
          assert (accepts Sc t ii k = false) as -> by (unfold accepts; fold level; rewrite Hgap by lia; apply andb_false_r) end.
        rewrite app_nil_r. reflexivity.
      * intros j0 H. inv_some H. unfold accepts. fold k level. rewrite Hlow, Haccj. reflexivity.
      * apply Hk.
      * intros [H|H]; discriminate.
      * intros j0 _. exact Hklt.
    + pose proof (next_from_none _ _ _ En) as Hnone.
      apply oinv_step; [exact I | try (intros; reflexivity) | ..]; cbn [s_pc s_k at_handler].
      * intros i0. rewrite Ho. unfold progress. rewrite Epc. cbn [passed s_pc s_k]. fold k.
        destruct (Nat.leb_spec i0 i); [reflexivity|].
        rewrite filter_seq_S.
        match goal with |- context [accepts Sc t ?ii k] =>
          assert (accepts Sc t ii k = false) as -> by (unfold accepts; fold level; rewrite Hnone by lia; apply andb_false_r) end.
        rewrite app_nil_r. reflexivity.
      * discriminate.
      * fold k. lia.
      * intros [H|H]; discriminate.
      * discriminate.
  - (* SFin *)
    inv_some Hs. apply oinv_step; [exact I | try (intros; reflexivity) | ..]; cbn [s_pc s_k at_handler].
    + intros j. rewrite Ho. unfold progress. rewrite Epc. reflexivity.
    + discriminate.
    + apply Hk.
    + intros _. apply Hf. left. exact Epc.
    + discriminate.
  - discriminate.
Qed.

Theorem sync_order_exact Sc sched : OInv Sc (exec ssys (sstep Sc) sinit sched).
Proof. apply inv_exec; [|apply sinit_oinv]. intros; eapply sstep_oinv; eauto. Qed.

(* a whole stream read back as lines *)
Lemma whole_firsts_seconds l : whole l ->
  forall t, firsts_of t l =
            map (fun c : chunk => snd (fst c))
                (filter (fun c : chunk => Nat.eqb (fst (fst c)) t && Nat.eqb (snd c) 2) l).
Proof.
  induction 1 as [|l t0 k Hw IH]; intros t; [reflexivity|].
  rewrite firsts_of_app, filter_app, map_app, IH. f_equal.
  unfold firsts_of. simpl. destruct (Nat.eqb t0 t); reflexivity.
Qed.

(* non-vacuity: two threads, two handlers, a concrete schedule with contention *)
Definition ex_scen : scen :=
  {| sc_n := 2; sc_msgs := 2; sc_level := fun t k => Z.of_nat (256 * (t + k));
     sc_handlers := [{| h_kind := HFile; h_level := 0; h_fmt := 0 |}; {| h_kind := HCap; h_level := 256; h_fmt := 0 |}];
     sc_lowest := 0 |}.
Definition rr (n : nat) : list (nat * nat) := flat_map (fun _ => [(0, 0); (1, 0)]%nat) (seq 0 n).
Example ex_sync_run :
  let s := exec ssys (sstep ex_scen) sinit (rr 40) in
  s_out s 0%nat = [(0,0,1);(0,0,2);(1,0,1);(1,0,2);(0,1,1);(0,1,2);(1,1,1);(1,1,2)]%nat /\
  firsts_of 1 (s_out s 1%nat) = [0; 1]%nat /\ firsts_of 0 (s_out s 1%nat) = [1]%nat.
Proof. vm_compute. repeat split; reflexivity. Qed.
