(* C16 — the temporal step for the async logger (repaired code): outside the known class
   (usable capacity of the channel >= 1) destroy RETURNS under every fair schedule.

   Scheme of coq/C14/ProofsFair.v: a fair schedule is a sequence of rounds each scheduling every
   thread (the writer thread 0 and the producers 1..n) at least once; a natural-number measure
   [G] (remaining calls of every producer, position inside a call / inside destroy, length of the
   queue, position of the writer thread) that no step increases and every enabled step strictly
   decreases, except the destroying thread's retry of the sentinel while the queue is full
   ("spin": lock, test, unlock, yield); while destroy has not returned some thread is
   productive (enabled and not spinning); a round that schedules a productive thread decreases
   G; so destroy has returned within G rounds. *)
From MV Require Import C16.Model C16.ProofsSync C16.ProofsAsync C16.ProofsAcct.
Local Open Scope nat_scope.

Ltac inv_some H := inversion H; subst; clear H.

(* expands one producer step of the repaired model into its cases *)
Ltac pstep_cases Hs T Epc :=
  unfold pstep in Hs;
  destruct (p_pc (a_thr _ T)) as [| | | | | |f| | | | | | | | |f| | | | | | | | | |] eqn:Epc; try discriminate;
  cbv beta iota zeta in Hs;
  repeat match type of Hs with
         | context [if ?b then _ else _] => destruct b eqn:?
         | context [match a_cons ?s with _ => _ end] => destruct (a_cons s) eqn:?
         end;
  try discriminate; inv_some Hs.

Ltac cstep_cases Hs :=
  unfold cstep in Hs;
  match type of Hs with context [a_cur ?s] => destruct (a_cur s) as [ct ck] eqn:Ecur end;
  match type of Hs with context [match a_cons ?s with _ => _ end] => destruct (a_cons s) eqn:Ec end;
  try discriminate;
  try (match type of Hs with context [match a_queue ?s with _ => _ end] =>
         destruct (a_queue s) as [|[qt qk|] q] eqn:Eq end);
  try discriminate; inv_some Hs.

(* ------------------------------------------------------------------ *)
(* auxiliary invariants                                                *)

Definition holds_w (p : ppc) : bool :=
  match p with PTry | PPush | PUnlock _ | PDTry | PDPush | PDUnlock _ => true | _ => false end.
Definition cfin (c : cpc) : bool := match c with CFin | CEnd => true | _ => false end.
Definition init_thr (A : ascen) : pthread :=
  {| p_pc := if Nat.eqb (as_msgs A) 0 then PDoneNote else PCall; p_k := 0 |}.

Record FInv (A : ascen) (s : asys) : Prop := {
  f_rg : forall t, t = 0 \/ as_n A < t -> a_thr s t = init_thr A;
  f_k : forall t, icall (pcs s t) = 1 -> pcs s t <> PDoneNote -> p_k (a_thr s t) < as_msgs A;
  f_lock : a_wlock s = true -> exists h, 1 <= h <= as_n A /\ holds_w (pcs s h) = true;
  f_dx : a_remaining s = 0 ->
         a_destroyed s = true \/ exists d, 1 <= d <= as_n A /\ in_destroy (pcs s d) = true;
  f_xj : cexited (a_cons s) = true -> a_joinword s = true;
  f_jb : forall t, pcs s t = PJoinBlocked -> cfin (a_cons s) = false;
  f_sn : forall t, in_destroy (pcs s t) = true -> pre_push (pcs s t) = false -> sentb s = true;
}.

Lemma ainit_finv A : 1 <= as_n A -> FInv A (ainit A).
Proof.
  intros Hn. constructor; simpl; auto; try discriminate.
  - intros t. unfold pcs. simpl. destruct (Nat.eqb_spec (as_msgs A) 0); simpl; [congruence|]. intros _ _. lia.
  - lia.
  - intros t. unfold pcs. simpl. destruct (Nat.eqb (as_msgs A) 0); discriminate.
Qed.

Lemma cfin_cexited c : cfin c = true -> cexited c = true.
Proof. destruct c; simpl; congruence. Qed.

Lemma wake_joiners_not_blocked thr u : p_pc (wake_joiners thr u) <> PJoinBlocked.
Proof. unfold wake_joiners. destruct (p_pc (thr u)) eqn:E; simpl; rewrite ?E; discriminate. Qed.

Lemma wake_joiners_k thr u : p_k (wake_joiners thr u) = p_k (thr u).
Proof. unfold wake_joiners. destruct (p_pc (thr u)); reflexivity. Qed.

Lemma wake_joiners_init A thr u : thr u = init_thr A -> wake_joiners thr u = init_thr A.
Proof. intros H. unfold wake_joiners. rewrite H. unfold init_thr. simpl. destruct (Nat.eqb (as_msgs A) 0); reflexivity. Qed.

Lemma sentb_same s s' : a_queue s' = a_queue s -> csent (a_cons s') = csent (a_cons s) -> sentb s' = sentb s.
Proof. intros H1 H2. unfold sentb. rewrite H1, H2. reflexivity. Qed.

Lemma cstep_finv A s s' l : FInv A s -> BInv true A s -> cstep A s = Some (s', l) -> FInv A s'.
Proof.
  intros [RG KI LK DX XJ JB SN] B Hs.
  cstep_cases Hs.
  all: constructor; unfold pcs in *; simpl; auto; try discriminate.
  (* f_xj / f_jb / f_sn with the writer thread's new state *)
  all: try (intros t Ht; specialize (JB t Ht); rewrite Ec in JB; simpl in JB; try discriminate; reflexivity).
  all: try (intros t H1 H2; rewrite <- (SN t H1 H2); unfold sentb; simpl; rewrite ?Ec, ?Eq; simpl;
            try reflexivity;
            match goal with |- context [c_after ?A ?l ?f] => destruct (c_after_class A l f) as [_ Hcc]; rewrite Hcc end;
            rewrite ?orb_false_r; reflexivity).
  all: try (intros t Ht; unfold cfin, c_after; destruct (next_from _ _ _); reflexivity).
  all: try (intros Hx; unfold c_after in Hx; destruct (next_from _ _ _); discriminate).
  all: try (rewrite Ec in XJ; simpl in XJ; exact XJ).
  all: try (intros t H1 H2; unfold sentb; simpl; apply orb_true_r).
  - (* CWakeJoin: f_rg *) intros t Ht. apply wake_joiners_init. apply RG; exact Ht.
  - intros t. rewrite wake_joiners_k.
    destruct (wake_joiners_pc (a_thr s) t) as (Hi & _). intros H1 H2. apply KI.
    + rewrite <- Hi. exact H1.
    + intros E. unfold wake_joiners in H2. rewrite E in H2. simpl in H2. rewrite E in H2. contradiction.
  - intros Hw. destruct (LK Hw) as (h & Hr & Hh). exists h. split; [exact Hr|].
    unfold wake_joiners. destruct (p_pc (a_thr s h)) eqn:E; simpl; rewrite ?E; try exact Hh; discriminate.
  - intros H0. destruct (DX H0) as [Hd|(d & Hr & Hd)]; [left; exact Hd|right]. exists d. split; [exact Hr|].
    destruct (wake_joiners_pc (a_thr s) d) as (_ & Hi & _). rewrite Hi. exact Hd.
  - intros t Ht. exfalso. exact (wake_joiners_not_blocked _ _ Ht).
Qed.

Lemma sentb_push_msg s t k x : sentb s = true ->
  sentb (a_set_thr (a_push s (QMsg t k)) t x) = true.
Proof.
  unfold sentb. simpl. rewrite has_null_app. simpl. rewrite orb_false_r. auto.
Qed.

(* the producer's own new program point, for each field *)
Ltac fin_thr T Epc old :=
  let u := fresh "u" in intros u; unfold upd; destruct (Nat.eqb_spec u T); [subst u|apply old].

Lemma pstep_finv A s t s' l : FInv A s -> BInv true A s -> 1 <= t <= as_n A ->
  pstep true A s t = Some (s', l) -> FInv A s'.
Proof.
  intros [RG KI LK DX XJ JB SN] B HT Hs.
  assert (Hrem1 : icall (pcs s t) = 1 -> 1 <= a_remaining s).
  { intros H. destruct B as [R _ _ _ _ _ _ _]. rewrite R.
    pose proof (tsum_ge (fun u => icall (pcs s u)) (as_n A) t HT). simpl in H0. lia. }
  assert (Hnj : a_joinword s = false -> cfin (a_cons s) = false).
  { intros Hj. destruct (cfin (a_cons s)) eqn:E; [|reflexivity]. apply cfin_cexited in E. apply XJ in E. congruence. }
  unfold pcs in *.
  pstep_cases Hs t Epc.
  all: constructor; unfold pcs; simpl.
  (* f_rg *)
  all: try (intros u Hu; rewrite upd_other by lia; apply RG; exact Hu).
  (* f_k *)
  all: try (intros u; unfold upd; destruct (Nat.eqb_spec u t); [subst u|apply KI];
            first [ intros H; discriminate H
                  | intros _ _; simpl; apply (KI t); rewrite Epc; [reflexivity|discriminate]
                  | unfold p_next; destruct (Nat.ltb_spec (S (p_k (a_thr s t))) (as_msgs A)); simpl;
                    [intros _ _; lia|intros _ HH; exfalso; apply HH; reflexivity] ]).
  (* f_lock *)
  all: try (intros Hw; first [ discriminate Hw | exists t; split; [exact HT|]; rewrite upd_same; reflexivity ]).
  all: try (intros Hw; destruct (LK Hw) as (h & Hr & Hh); destruct (Nat.eq_dec h t) as [->|Hne];
            [ exists t; split; [exact HT|]; rewrite upd_same; simpl; first [reflexivity | rewrite Epc in Hh; discriminate Hh]
            | exists h; split; [exact Hr|]; rewrite upd_other by exact Hne; exact Hh ]).
  (* f_dx *)
  all: try (intros H0; destruct (DX H0) as [Hd|(d & Hr & Hd)]; [left; exact Hd|right];
            destruct (Nat.eq_dec d t) as [->|Hne];
            [ exists t; split; [exact HT|]; rewrite upd_same; simpl; first [reflexivity | rewrite Epc in Hd; discriminate Hd]
            | exists d; split; [exact Hr|]; rewrite upd_other by exact Hne; exact Hd ]).
  (* f_xj *)
  all: try exact XJ.
  all: try (intros Hx; discriminate Hx).
  all: try (match goal with E : a_cons _ = _ |- cexited _ = true -> _ => rewrite E; exact XJ end).
  (* f_jb *)
  all: try (intros u; unfold upd; destruct (Nat.eqb_spec u t);
            [ subst u; simpl; first [ intros Hx; discriminate Hx
                                    | unfold p_next; destruct (Nat.ltb _ _); intros Hx; discriminate Hx
                                    | intros _; apply Hnj; assumption ]
            | first [ apply JB | intros _; reflexivity
                    | match goal with E : a_cons _ = _ |- _ => rewrite E; apply JB end ] ]).
  (* f_sn *)
  all: try (intros u; unfold upd; destruct (Nat.eqb_spec u t);
            [ subst u; simpl;
              first [ intros Hx; discriminate Hx | intros _ Hx; discriminate Hx
                    | unfold p_next; destruct (Nat.ltb _ _); intros Hx; discriminate Hx
                    | intros _ _; unfold sentb; simpl; rewrite has_null_app; simpl; rewrite orb_true_r; reflexivity
                    | intros _ _; assert (Hsn : sentb s = true) by (apply (SN t); rewrite Epc; reflexivity);
                      unfold sentb in *; simpl; rewrite ?has_null_app; simpl; rewrite ?orb_false_r; exact Hsn ]
            | intros H1 H2; pose proof (SN u H1 H2) as Hsn;
              unfold sentb in *; simpl; rewrite ?has_null_app; simpl; rewrite ?orb_false_r;
              first [ exact Hsn | rewrite orb_true_r; reflexivity ] ]).
  (* leftovers *)
  all: try (match goal with |- _ = 0 -> _ \/ _ => let H := fresh in intros H; left; reflexivity end).
  all: try (intros u H1 H2; unfold upd in H1, H2; destruct (Nat.eqb_spec u t);
            [ subst u; simpl in H1, H2; try discriminate;
              assert (Hsn : sentb s = true) by (apply (SN t); rewrite Epc; reflexivity)
            | pose proof (SN u H1 H2) as Hsn ];
            unfold sentb in *; simpl;
            match goal with E : a_cons _ = _ |- _ => rewrite E in Hsn; exact Hsn end).
  all: try (intros Hx; match goal with E : a_joinword _ = true |- _ => exact E end).
  all: try (intros Hx; apply XJ in Hx; discriminate Hx).
  all: try (intros u; unfold upd; destruct (Nat.eqb_spec u t); [let H := fresh in intros H; apply Hnj; reflexivity|apply JB]).
  - (* PWake waking the writer thread *)
    intros u H1 H2. unfold upd in H1, H2. destruct (Nat.eqb_spec u t).
    + exfalso. unfold p_next in H1. destruct (Nat.ltb _ _); discriminate H1.
    + pose proof (SN u H1 H2) as Hsn. unfold sentb in *. simpl. rewrite Heqc in Hsn. exact Hsn.
  - (* PDoneNote, last producer: it becomes the destroying thread *)
    intros _. right. exists t. split; [exact HT|]. rewrite upd_same. reflexivity.
  - (* PDoneNote, not the last *)
    intros H0. exfalso. apply Nat.eqb_neq in Heqb. apply Heqb. exact H0.
Qed.

Lemma astep_finv A s t ch s' l : FInv A s -> BInv true A s -> astep true A s t ch = Some (s', l) -> FInv A s'.
Proof.
  intros F B Hs. unfold astep in Hs. destruct t as [|t].
  - eapply cstep_finv; eauto.
  - destruct (Nat.ltb_spec (as_n A) (S t)); [discriminate|]. eapply pstep_finv; eauto. lia.
Qed.

(* ------------------------------------------------------------------ *)
(* the measure                                                         *)

Lemma tsum_le f g n : (forall u, f u <= g u) -> tsum f n <= tsum g n.
Proof. intros H. induction n as [|m IH]; simpl; [lia|]. specialize (H (S m)). lia. Qed.

Lemma tsum_le_add f g c n : (forall u, f u <= g u + c) -> tsum f n <= tsum g n + n * c.
Proof. intros H. induction n as [|m IH]; simpl; [lia|]. specialize (H (S m)). lia. Qed.

Local Arguments Nat.mul : simpl never.
Local Arguments Nat.sub : simpl never.
Local Arguments Nat.leb : simpl never.

Section Measure.
Variable A : ascen.

Definition Hn : nat := length (as_handlers A).
Definition Qc : nat := 3 * Hn + 4 * as_n A + 20.
Definition Wc : nat := Qc + 40.
Definition Dc : nat := Qc + 23.

(* Wc per call still to make *)
Definition cw (k : nat) : nat := (as_msgs A - k) * Wc.
Lemma cw_step k : k < as_msgs A -> cw k = cw (S k) + Wc.
Proof. intros H. unfold cw. replace (as_msgs A - k) with (S (as_msgs A - S k)) by lia. lia. Qed.
Lemma cw_zero k : as_msgs A <= k -> cw k = 0.
Proof. intros H. unfold cw. replace (as_msgs A - k) with 0 by lia. reflexivity. Qed.

Definition fullb (s : asys) : bool := Nat.leb (as_usable A) (length (a_queue s)).

(* position inside a call *)
Definition coff (p : ppc) : nat :=
  match p with
  | PMallocMsg => 1 | PMallocPay => 2 | PWLock => 3 | PTry => 4 | PPush => 5
  | PUnlock true => 6 | PFreePay => 7 | PFreeMsg => 8
  | PUnlock false => Qc + 8 | PWake => Qc + 9
  | _ => 0
  end.

(* weight of a producer: Wc per call still to make + what is left of the current call; then the
   fixed cost of the shutdown path.  The four program points of the sentinel retry loop weigh
   the same while the queue is full (fl) and strictly decrease along the loop when it is not;
   the join loop's weights depend on whether the writer thread has signalled its exit (jw). *)
Definition wt (fl jw : bool) (x : pthread) : nat :=
  match p_pc x with
  | PCall | PMallocMsg | PMallocPay | PWLock | PTry | PPush | PUnlock _ | PWake | PFreePay | PFreeMsg =>
    cw (p_k x) + Dc - coff (p_pc x)
  | PDoneNote => Dc
  | PDestroy => Qc + 22
  | PDUnlock true => Qc + 17 + (if fl then 0 else 4)
  | PDYield => Qc + 17 + (if fl then 0 else 3)
  | PDWLock => Qc + 17 + (if fl then 0 else 2)
  | PDTry => Qc + 17 + (if fl then 0 else 1)
  | PDPush => Qc + 16
  | PDUnlock false => 12
  | PDWake => 11
  | PJoinCheck => 5 + (if jw then 0 else 3)
  | PJoinWait => 6 + (if jw then 0 else 1)
  | PJoinBlocked => 6
  | PChanFree1 => 4 | PChanFree2 => 3 | PDestroyed => 2 | PFin => 1 | PEnd => 0
  end.

(* position of the writer thread *)
Definition crank (s : asys) : nat :=
  match a_cons s with
  | CEnd => 0 | CFin => 1 | CWakeJoin => 2 | CExitNote => 3 | CBlocked => 6
  | CWait => match a_queue s with [] => 7 | _ => 9 end
  | CCheck => 8 | CPop => 7 | CFreeMsg => 9 | CFreePay => 10
  | CEmit2 j => 3 * (Hn - j) + 8
  | CYield j => 3 * (Hn - j) + 9
  | CEmit1 j => 3 * (Hn - j) + 10
  end.

Definition Gsum (fl jw : bool) (thr : nat -> pthread) : nat := tsum (fun u => wt fl jw (thr u)) (as_n A).

Definition G (s : asys) : nat :=
  Gsum (fullb s) (a_joinword s) (a_thr s) + Qc * length (a_queue s) + crank s.

Lemma Gsum_upd fl jw thr t x : 1 <= t <= as_n A ->
  Gsum fl jw (upd thr t x) + wt fl jw (thr t) = Gsum fl jw thr + wt fl jw x.
Proof. intros H. unfold Gsum. apply (tsum_upd (wt fl jw) thr t x (as_n A) H). Qed.

Lemma wt_fl_le jw x : wt true jw x <= wt false jw x.
Proof. unfold wt. destruct (p_pc x) as [| | | | | |f| | | | | | | | |f| | | | | | | | | |]; try destruct f; lia. Qed.
Lemma wt_fl_ge jw x : wt false jw x <= wt true jw x + 4.
Proof. unfold wt. destruct (p_pc x) as [| | | | | |f| | | | | | | | |f| | | | | | | | | |]; try destruct f; lia. Qed.
Lemma wt_jw_le fl x : wt fl true x <= wt fl false x.
Proof. unfold wt. destruct (p_pc x) as [| | | | | |f| | | | | | | | |f| | | | | | | | | |]; try destruct f; lia. Qed.

Lemma Gsum_fl_le fl fl' jw thr : (fl = true -> fl' = true) -> Gsum fl' jw thr <= Gsum fl jw thr.
Proof.
  intros H. unfold Gsum. apply tsum_le. intros u. destruct fl, fl'; first [lia | discriminate (H eq_refl) | apply wt_fl_le].
Qed.
Lemma Gsum_fl_ge fl fl' jw thr : Gsum fl' jw thr <= Gsum fl jw thr + as_n A * 4.
Proof.
  unfold Gsum. apply tsum_le_add. intros u. destruct fl, fl'; first [lia | apply wt_fl_ge | pose proof (wt_fl_le jw (thr u)); lia].
Qed.
Lemma Gsum_jw_le fl jw thr : Gsum fl true thr <= Gsum fl jw thr.
Proof. unfold Gsum. apply tsum_le. intros u. destruct jw; [lia|apply wt_jw_le]. Qed.

Lemma wt_wake fl thr u : wt fl true (wake_joiners thr u) <= wt fl true (thr u).
Proof.
  unfold wake_joiners. destruct (p_pc (thr u)) eqn:E; try apply le_n.
  unfold wt. simpl. rewrite E. lia.
Qed.

Lemma wt_p_next fl jw k : wt fl jw (p_next A k) = cw (S k) + Dc.
Proof.
  unfold p_next, wt. destruct (Nat.ltb_spec (S k) (as_msgs A)); simpl; [lia|].
  rewrite cw_zero by lia. reflexivity.
Qed.

Definition retry4 (p : ppc) : bool :=
  match p with PDWLock | PDTry | PDUnlock true | PDYield => true | _ => false end.

(* the invariants the measure argument uses *)
Definition Good (s : asys) : Prop :=
  AInv A s /\ BInv true A s /\ FInv A s /\ WInv s /\ JInv s.

Lemma fullb_app s x q : a_queue s = q -> forall fl', fl' = Nat.leb (as_usable A) (length (q ++ [x])) ->
  fullb s = true -> fl' = true.
Proof.
  intros Hq fl' -> Hf. unfold fullb in Hf. rewrite Hq in Hf. apply Nat.leb_le in Hf. apply Nat.leb_le.
  rewrite app_length. simpl. lia.
Qed.

Lemma acc_h_lt hs j level : acc_h hs j level = true -> j < length hs.
Proof.
  unfold acc_h. destruct (nth_error hs j) eqn:E; [|discriminate]. intros _.
  apply nth_error_Some. rewrite E. discriminate.
Qed.

Lemma c_after_rank level from : from <= Hn ->
  match c_after A level from with
  | CEmit1 j => from <= j /\ j < Hn
  | CFreePay => True
  | _ => False
  end.
Proof.
  intros _. pose proof (c_after_spec A level from) as S.
  destruct (c_after A level from); auto. destruct S as (H1 & H2 & _). split; [exact H1|].
  eapply acc_h_lt. exact H2.
Qed.

End Measure.

Section MeasureStep.
Variable A : ascen.

Lemma crank_same s s' : a_cons s' = a_cons s -> a_queue s' = a_queue s -> crank A s' = crank A s.
Proof. intros H1 H2. unfold crank. rewrite H1, H2. reflexivity. Qed.

Lemma G_pmove s s' t x' : 1 <= t <= as_n A ->
  a_thr s' = upd (a_thr s) t x' -> a_queue s' = a_queue s -> a_joinword s' = a_joinword s ->
  G A s' + wt A (fullb A s) (a_joinword s) (a_thr s t) + crank A s =
  G A s + wt A (fullb A s) (a_joinword s) x' + crank A s'.
Proof.
  intros HT Ht Hq Hj. unfold G.
  assert (Hf : fullb A s' = fullb A s) by (unfold fullb; rewrite Hq; reflexivity).
  rewrite Hf, Hj, Ht, Hq.
  pose proof (Gsum_upd A (fullb A s) (a_joinword s) (a_thr s) t x' HT). lia.
Qed.

Lemma G_ppush s s' t x' q0 : 1 <= t <= as_n A ->
  a_thr s' = upd (a_thr s) t x' -> a_queue s' = a_queue s ++ [q0] -> a_joinword s' = a_joinword s ->
  G A s' + wt A (fullb A s') (a_joinword s) (a_thr s t) + crank A s <=
  G A s + wt A (fullb A s') (a_joinword s) x' + crank A s' + Qc A.
Proof.
  intros HT Ht Hq Hj. unfold G.
  assert (Hf : fullb A s = true -> fullb A s' = true).
  { unfold fullb. rewrite Hq, app_length. simpl. intros H. apply Nat.leb_le in H. apply Nat.leb_le. lia. }
  rewrite Hj, Ht, Hq, app_length. simpl.
  pose proof (Gsum_upd A (fullb A s') (a_joinword s) (a_thr s) t x' HT).
  pose proof (Gsum_fl_le A (fullb A s) (fullb A s') (a_joinword s) (a_thr s) Hf). lia.
Qed.

Lemma G_cmove s s' : a_thr s' = a_thr s -> a_queue s' = a_queue s -> a_joinword s' = a_joinword s ->
  G A s' + crank A s = G A s + crank A s'.
Proof.
  intros Ht Hq Hj. unfold G.
  assert (Hf : fullb A s' = fullb A s) by (unfold fullb; rewrite Hq; reflexivity).
  rewrite Hf, Hj, Ht, Hq. lia.
Qed.

Lemma G_cpop s s' x : a_thr s' = a_thr s -> a_queue s = x :: a_queue s' -> a_joinword s' = a_joinword s ->
  G A s' + Qc A + crank A s <= G A s + as_n A * 4 + crank A s'.
Proof.
  intros Ht Hq Hj. unfold G. rewrite Hj, Ht, Hq. simpl length.
  pose proof (Gsum_fl_ge A (fullb A s) (fullb A s') (a_joinword s) (a_thr s)). lia.
Qed.

Lemma G_cexit s s' : a_thr s' = a_thr s -> a_queue s' = a_queue s -> a_joinword s' = true ->
  G A s' + crank A s <= G A s + crank A s'.
Proof.
  intros Ht Hq Hj. unfold G.
  assert (Hf : fullb A s' = fullb A s) by (unfold fullb; rewrite Hq; reflexivity).
  rewrite Hf, Hj, Ht, Hq. pose proof (Gsum_jw_le A (fullb A s) (a_joinword s) (a_thr s)). lia.
Qed.

Lemma G_cwakejoin s s' : a_thr s' = wake_joiners (a_thr s) -> a_queue s' = a_queue s ->
  a_joinword s = true -> a_joinword s' = true ->
  G A s' + crank A s <= G A s + crank A s'.
Proof.
  intros Ht Hq Hj Hj'. unfold G.
  assert (Hf : fullb A s' = fullb A s) by (unfold fullb; rewrite Hq; reflexivity).
  rewrite Hf, Hj, Hj', Ht, Hq.
  assert (Gsum A (fullb A s) true (wake_joiners (a_thr s)) <= Gsum A (fullb A s) true (a_thr s)).
  { unfold Gsum. apply tsum_le. intros u. apply wt_wake. }
  lia.
Qed.

Lemma crank_push s s' x : a_cons s' = a_cons s -> a_queue s' = a_queue s ++ [x] -> crank A s' <= crank A s + 2.
Proof.
  intros H1 H2. unfold crank. rewrite H1, H2. destruct (a_cons s); try lia.
  destruct (a_queue s); simpl; lia.
Qed.

(* the destroying thread retries the sentinel while the queue is full *)
Definition spin (s : asys) (t : nat) (s' : asys) : Prop :=
  retry4 (pcs s t) = true /\ fullb A s = true /\ G A s' = G A s /\
  (forall u, u <> t -> a_thr s' u = a_thr s u) /\ a_cons s' = a_cons s /\ a_queue s' = a_queue s /\
  retry4 (pcs s' t) = true.

Lemma pstep_measure s t s' l : Good A s -> 1 <= t <= as_n A ->
  pstep true A s t = Some (s', l) -> G A s' < G A s \/ spin s t s'.
Proof.
  intros (AI & B & F & W & J) HT Hs.
  pose proof (f_k _ _ F t) as KI. unfold pcs in KI.
  pstep_cases Hs t Epc.
  all: try (assert (Hk : p_k (a_thr s t) < as_msgs A) by (apply KI; [reflexivity|discriminate]);
            pose proof (cw_step A _ Hk) as Hcw).
  (* moves that leave queue and join word alone *)
  all: try (left;
            match goal with |- G A ?s1 < _ =>
              pose proof (G_pmove s s1 t _ HT eq_refl eq_refl eq_refl) as HG end;
            rewrite ?wt_p_next in HG; unfold wt in HG; simpl in HG; rewrite Epc in HG; simpl in HG;
            unfold crank in HG; simpl in HG;
            repeat match goal with E : a_cons _ = _ |- _ => rewrite E in HG; clear E end; simpl in HG;
            unfold Wc, Dc in *;
            repeat match type of HG with context [if ?b then _ else _] => destruct b end; lia).
  (* pushes *)
  all: try (left;
            match goal with |- G A ?s1 < _ =>
              pose proof (G_ppush s s1 t _ _ HT eq_refl eq_refl eq_refl) as HG;
              pose proof (crank_push s s1 _ eq_refl eq_refl) as HC end;
            unfold wt in HG; simpl in HG; rewrite Epc in HG; simpl in HG; unfold Wc, Dc in *; lia).
  (* the retry loop of the sentinel *)
  all: match goal with |- G A ?s1 < _ \/ _ =>
         pose proof (G_pmove s s1 t _ HT eq_refl eq_refl eq_refl) as HG;
         pose proof (crank_same s1 s eq_refl eq_refl) as HC end;
       unfold wt in HG; simpl in HG; rewrite Epc in HG; simpl in HG;
       destruct (fullb A s) eqn:Ef;
       [ right; unfold spin, pcs; simpl; rewrite Epc, upd_same; simpl;
         repeat split; try reflexivity; try exact Ef; try lia; try (intros u Hu; apply upd_other; exact Hu)
       | first [ left; lia | exfalso; unfold fullb in Ef; congruence ] ].
Qed.

Lemma cstep_measure s s' l : Good A s -> cstep A s = Some (s', l) -> G A s' < G A s.
Proof.
  intros (AI & B & F & W & J) Hs.
  pose proof (ai_cur _ _ AI) as Hcur. pose proof (f_xj _ _ F) as XJ.
  cstep_cases Hs.
  all: try (match goal with |- G A ?s1 < _ =>
              pose proof (G_cmove s s1 eq_refl eq_refl eq_refl) as HG end;
            unfold crank in HG; simpl in HG; rewrite ?Ec, ?Eq in HG; simpl in HG; lia).
  - (* CPop, a message *)
    match goal with |- G A ?s1 < _ => pose proof (G_cpop s s1 (QMsg qt qk) eq_refl Eq eq_refl) as HG end.
    pose proof (c_after_rank A (as_level A qt qk) 0 ltac:(lia)) as Hr.
    unfold crank in HG. simpl in HG. rewrite Ec in HG.
    destruct (c_after A (as_level A qt qk) 0); try contradiction; unfold Qc in *; lia.
  - (* CPop, the sentinel *)
    match goal with |- G A ?s1 < _ => pose proof (G_cpop s s1 QNull eq_refl Eq eq_refl) as HG end.
    unfold crank in HG. simpl in HG. rewrite Ec in HG. unfold Qc in *. lia.
  - (* CEmit2 *)
    destruct (Hcur i) as (_ & Hacc); [rewrite ?Ec; reflexivity|].
    assert (Hi : i < Hn A) by (unfold macc in Hacc; eapply acc_h_lt; exact Hacc).
    match goal with |- G A ?s1 < _ => pose proof (G_cmove s s1 eq_refl eq_refl eq_refl) as HG end.
    pose proof (c_after_rank A (as_level A ct ck) (S i) ltac:(lia)) as Hr.
    unfold crank in HG. simpl in HG. rewrite Ec in HG.
    destruct (c_after A (as_level A ct ck) (S i)); try contradiction; lia.
  - (* CExitNote *)
    match goal with |- G A ?s1 < _ => pose proof (G_cexit s s1 eq_refl eq_refl eq_refl) as HG end.
    unfold crank in HG. simpl in HG. rewrite Ec in HG. lia.
  - (* CWakeJoin *)
    assert (Hj : a_joinword s = true) by (apply XJ; rewrite ?Ec; reflexivity).
    match goal with |- G A ?s1 < _ => pose proof (G_cwakejoin s s1 eq_refl eq_refl Hj Hj) as HG end.
    unfold crank in HG. simpl in HG. rewrite Ec in HG. lia.
Qed.

Lemma astep_measure s t ch s' l : Good A s -> astep true A s t ch = Some (s', l) ->
  G A s' < G A s \/ spin s t s'.
Proof.
  intros Hg Hs. unfold astep in Hs. destruct t as [|t].
  - left. eapply cstep_measure; eauto.
  - destruct (Nat.ltb_spec (as_n A) (S t)); [discriminate|]. eapply pstep_measure; eauto. lia.
Qed.

(* ------------------------------------------------------------------ *)
(* the invariants are closed under steps                               *)

Lemma good_step s t c s' l : Good A s -> astep true A s t c = Some (s', l) -> Good A s'.
Proof.
  intros (AI & B & F & W & J) Hs.
  exact (conj (astep_ainv true A s t c s' l AI Hs) (conj (astep_binv A s t c s' l B Hs)
          (conj (astep_finv A s t c s' l F B Hs) (conj (astep_winv true A s t c s' l W Hs)
          (astep_jinv true A s t c s' l J Hs))))).
Qed.

Lemma good_init : 1 <= as_n A -> Good A (ainit A).
Proof.
  intros Hn. split; [apply ainit_inv|]. split; [apply ainit_binv; exact Hn|]. split; [apply ainit_finv; exact Hn|].
  split; [intros H; discriminate|apply ainit_jinv].
Qed.

Lemma good_exec r : forall s, Good A s -> Good A (exec asys (astep true A) s r).
Proof.
  induction r as [|[t c] r IH]; intros s Hg; simpl; [exact Hg|].
  apply IH. unfold exec1; simpl. destruct (astep true A s t c) as [[s1 l]|] eqn:E; [eapply good_step; eauto|exact Hg].
Qed.

Lemma G_exec_le r : forall s, Good A s -> G A (exec asys (astep true A) s r) <= G A s.
Proof.
  induction r as [|[t c] r IH]; intros s Hg; simpl; [lia|].
  unfold exec1; simpl. destruct (astep true A s t c) as [[s1 l]|] eqn:E; [|apply IH; exact Hg].
  pose proof (good_step _ _ _ _ _ Hg E) as Hg1. specialize (IH s1 Hg1).
  destruct (astep_measure s t c s1 l Hg E) as [Hlt|(_ & _ & Heq & _)]; lia.
Qed.

(* a thread whose step is enabled and is not the sentinel retry against a full queue *)
Definition productive (s : asys) (u : nat) : Prop :=
  astep true A s u 0 <> None /\ ~ (retry4 (pcs s u) = true /\ fullb A s = true).

Lemma astep_ch s t c : astep true A s t c = astep true A s t 0.
Proof. reflexivity. Qed.

Lemma cstep_enabled_same s s' : a_cons s' = a_cons s -> a_queue s' = a_queue s ->
  cstep A s <> None -> cstep A s' <> None.
Proof.
  intros Hc Hq. unfold cstep. rewrite Hc, Hq. destruct (a_cur s), (a_cur s').
  destruct (a_cons s); try (intros H; exact H); try discriminate;
    destruct (a_queue s) as [|[qt qk|] q]; intros H; try exact H; try discriminate.
Qed.

Lemma idle_pc p : icall p = 0 -> in_destroy p = false -> p = PFin \/ p = PEnd.
Proof. destruct p as [| | | | | |f| | | | | | | | |f| | | | | | | | | |]; simpl; try discriminate; auto. Qed.

Lemma retry4_in_destroy p : retry4 p = true -> in_destroy p = true.
Proof. destruct p as [| | | | | |f| | | | | | | | |f| | | | | | | | | |]; simpl; try discriminate; auto. Qed.

(* while a destroying thread exists no producer is still logging *)
Lemma no_callers s d u : BInv true A s -> in_destroy (pcs s d) = true -> 1 <= u <= as_n A -> icall (pcs s u) = 0.
Proof.
  intros B Hd Hu. pose proof (b_dest0 _ _ _ B d Hd) as Hr. pose proof (b_rem _ _ _ B) as R. rewrite Hr in R.
  symmetry in R. exact (tsum_zero _ _ R u Hu).
Qed.

Lemma enabled_range s u : astep true A s u 0 <> None -> u <= as_n A.
Proof.
  unfold astep. destruct u; [lia|]. destruct (Nat.ltb_spec (as_n A) (S u)); [congruence|lia].
Qed.

(* productivity of another thread survives a spin step *)
Lemma spin_survive s t s' u : Good A s -> spin s t s' -> u <> t -> productive s u -> productive s' u.
Proof.
  intros (AI & B & F & W & J) (Hr & Hfl & _ & Hthr & Hc & Hq & Hr') Hne [Hen Hns].
  assert (Hd : in_destroy (pcs s t) = true) by (apply retry4_in_destroy; exact Hr).
  destruct u as [|u].
  - split.
    + unfold astep in *. apply (cstep_enabled_same s s' Hc Hq Hen).
    + intros [K _]. unfold pcs in K. rewrite (Hthr 0 Hne) in K. rewrite (f_rg _ _ F 0 (or_introl eq_refl)) in K.
      unfold init_thr in K. simpl in K. destruct (Nat.eqb (as_msgs A) 0); discriminate.
  - pose proof (enabled_range s (S u) Hen) as Hrg.
    assert (Hic : icall (pcs s (S u)) = 0) by (apply (no_callers s t); [exact B|exact Hd|lia]).
    assert (Hnd : in_destroy (pcs s (S u)) = false).
    { destruct (in_destroy (pcs s (S u))) eqn:E; [|reflexivity]. exfalso. apply Hne. eapply b_uniq; eauto. }
    destruct (idle_pc _ Hic Hnd) as [Hp|Hp].
    + split.
      * unfold astep. destruct (Nat.ltb_spec (as_n A) (S u)); [lia|]. unfold pstep. rewrite (Hthr (S u) Hne).
        unfold pcs in Hp. rewrite Hp. discriminate.
      * intros [K _]. unfold pcs in K. rewrite (Hthr (S u) Hne) in K. unfold pcs in Hp. rewrite Hp in K. discriminate.
    + exfalso. apply Hen. unfold astep. destruct (Nat.ltb (as_n A) (S u)); [reflexivity|].
      unfold pstep. unfold pcs in Hp. rewrite Hp. reflexivity.
Qed.

(* a round that schedules a productive thread decreases the measure *)
Lemma round_decreases u r : forall s, Good A s -> productive s u -> In u (map fst r) ->
  G A (exec asys (astep true A) s r) < G A s.
Proof.
  induction r as [|[t c] r IH]; intros s Hg [Hen Hns] Hin; simpl in *; [contradiction|].
  unfold exec1; simpl. destruct (astep true A s t c) as [[s1 l]|] eqn:E.
  - pose proof (good_step _ _ _ _ _ Hg E) as Hg1.
    destruct (astep_measure s t c s1 l Hg E) as [Hlt|Hsp].
    + pose proof (G_exec_le r s1 Hg1). lia.
    + assert (Hu : u <> t).
      { intros ->. apply Hns. destruct Hsp as (K1 & K2 & _). split; assumption. }
      destruct Hin as [Hin|Hin]; [congruence|].
      assert (Hprod : productive s1 u).
      { apply (spin_survive s t s1 u Hg Hsp Hu). split; assumption. }
      specialize (IH s1 Hg1 Hprod Hin). destruct Hsp as (_ & _ & Heq & _). lia.
  - destruct Hin as [Hin|Hin]; [subst t; exfalso; apply Hen; rewrite <- (astep_ch s u c); exact E|].
    apply IH; [exact Hg|split; assumption|exact Hin].
Qed.

(* fairness: a round schedules the writer thread and every producer at least once *)
Definition fair_round (r : list (nat * nat)) : Prop := forall t, t <= as_n A -> In t (map fst r).

Lemma destroyed_step s t c s' l : astep true A s t c = Some (s', l) -> a_destroyed s = true -> a_destroyed s' = true.
Proof.
  intros Hs Hd. unfold astep in Hs. destruct t as [|t].
  - cstep_cases Hs; simpl; exact Hd.
  - destruct (Nat.ltb (as_n A) (S t)); [discriminate|]. pstep_cases Hs (S t) Epc; simpl; auto.
Qed.

Lemma destroyed_exec r : forall s, a_destroyed s = true -> a_destroyed (exec asys (astep true A) s r) = true.
Proof.
  induction r as [|[t c] r IH]; intros s Hd; simpl; [exact Hd|].
  apply IH. unfold exec1; simpl. destruct (astep true A s t c) as [[s1 l]|] eqn:E; [eapply destroyed_step; eauto|exact Hd].
Qed.

Section Goal.
Hypothesis Hprod : forall s, Good A s -> a_destroyed s = false -> exists u, productive s u.

Lemma fair_goal rounds : forall s, Good A s -> Forall fair_round rounds -> G A s < length rounds ->
  a_destroyed (exec asys (astep true A) s (concat rounds)) = true.
Proof.
  induction rounds as [|r rs IH]; intros s Hg Hf Hlt; simpl in *; [lia|].
  inversion Hf as [|r0 rs0 Hr Hrs]; subst. rewrite exec_app.
  destruct (a_destroyed s) eqn:Hd.
  - apply destroyed_exec. apply destroyed_exec. exact Hd.
  - destruct (Hprod s Hg Hd) as (u & Hu).
    assert (Hin : In u (map fst r)) by (apply Hr; eapply enabled_range; exact (proj1 Hu)).
    pose proof (round_decreases u r s Hg Hu Hin) as Hdec.
    apply IH; [apply good_exec; exact Hg|exact Hrs|lia].
Qed.
End Goal.

(* ------------------------------------------------------------------ *)
(* a productive thread exists until destroy has returned               *)

Lemma tsum_pos_ex f n : 0 < tsum f n -> exists t, 1 <= t <= n /\ 0 < f t.
Proof.
  induction n as [|m IH]; simpl; intros H; [lia|].
  destruct (f (S m)) eqn:E.
  - destruct (IH ltac:(lia)) as (t & Ht & Hf). exists t. split; [lia|exact Hf].
  - exists (S m). split; [lia|lia].
Qed.

Lemma holds_enabled s h : 1 <= h <= as_n A -> holds_w (pcs s h) = true -> astep true A s h 0 <> None.
Proof.
  intros Hh Hw. unfold astep. destruct h as [|h]; [lia|]. destruct (Nat.ltb_spec (as_n A) (S h)); [lia|].
  unfold pstep. unfold pcs in Hw.
  destruct (p_pc (a_thr s (S h))) as [| | | | | |f| | | | | | | | |f| | | | | | | | | |]; simpl in Hw; try discriminate;
    try destruct f; discriminate.
Qed.

(* the writer thread can move whenever it has something to take, or is leaving *)
Lemma writer_enabled s d : Good A s -> in_destroy (pcs s d) = true -> pending_wake (pcs s d) = false ->
  a_queue s <> [] \/ (csent (a_cons s) = true /\ cfin (a_cons s) = false) ->
  productive s 0.
Proof.
  intros (AI & B & F & W & J) Hd Hpd Hwork. split.
  - unfold astep, cstep. destruct (a_cur s) as [ct ck].
    destruct (a_cons s) eqn:Ec; try discriminate; try (destruct (a_queue s); discriminate).
    + (* CBlocked with a non-empty queue: a wake-up must be on its way, but nobody owes one *)
      exfalso. destruct Hwork as [Hq|[K _]]; [|discriminate K].
      destruct (W Ec Hq) as (u & Hu).
      assert (Hcases : icall (pcs s u) = 1 \/ in_destroy (pcs s u) = true).
      { destruct (pcs s u) as [| | | | | |f| | | | | | | | |f| | | | | | | | | |]; simpl in Hu; try discriminate; auto. }
      destruct Hcases as [Hi|Hi].
      * destruct (Nat.eq_dec u 0) as [->|Hu0].
        -- unfold pcs in Hu. rewrite (f_rg _ _ F 0 (or_introl eq_refl)) in Hu. unfold init_thr in Hu. simpl in Hu.
           destruct (Nat.eqb (as_msgs A) 0); discriminate.
        -- destruct (le_lt_dec u (as_n A)) as [Hle|Hgt].
           ++ pose proof (no_callers s d u B Hd ltac:(lia)). lia.
           ++ unfold pcs in Hu. rewrite (f_rg _ _ F u (or_intror Hgt)) in Hu. unfold init_thr in Hu. simpl in Hu.
              destruct (Nat.eqb (as_msgs A) 0); discriminate.
      * assert (u = d) by (eapply b_uniq; eauto). subst u. congruence.
    + (* CPop needs a non-empty queue *)
      destruct (a_queue s) as [|[qt qk|] q]; try discriminate.
      destruct Hwork as [Hq|[K _]]; [congruence|discriminate K].
    + (* CEnd *)
      exfalso. destruct Hwork as [Hq|[_ K]]; [|discriminate K].
      apply Hq. apply (b_empty _ _ _ B). rewrite Ec. reflexivity.
  - intros [K _]. unfold pcs in K. rewrite (f_rg _ _ F 0 (or_introl eq_refl)) in K. unfold init_thr in K. simpl in K.
    destruct (Nat.eqb (as_msgs A) 0); discriminate.
Qed.

Lemma producer_enabled s t : 1 <= t <= as_n A ->
  (pcs s t = PWLock \/ pcs s t = PDWLock -> a_wlock s = false) ->
  pcs s t <> PJoinBlocked -> pcs s t <> PEnd -> astep true A s t 0 <> None.
Proof.
  intros Ht Hl Hb He. unfold astep. destruct t as [|t]; [lia|]. destruct (Nat.ltb_spec (as_n A) (S t)); [lia|].
  unfold pstep. unfold pcs in *.
  destruct (p_pc (a_thr s (S t))) as [| | | | | |f| | | | | | | | |f| | | | | | | | | |]; try congruence;
    try (rewrite Hl by auto); try destruct f; try discriminate;
    try (destruct (Z.gtb _ _); discriminate); try (destruct (a_cons s); discriminate);
    try (destruct (a_joinword s); discriminate).
Qed.

Lemma exists_productive s : 1 <= as_usable A -> Good A s -> a_destroyed s = false -> exists u, productive s u.
Proof.
  intros Hus Hg Hnd. pose proof Hg as (AI & B & F & W & J).
  destruct (a_remaining s) as [|r] eqn:Er.
  - (* every producer has finished its calls: a destroying thread exists *)
    destruct (f_dx _ _ F Er) as [K|(d & Hdr & Hd)]; [congruence|].
    assert (Hwl : a_wlock s = true -> holds_w (pcs s d) = true).
    { intros Hw. destruct (f_lock _ _ F Hw) as (h & Hh & Hhw).
      assert (in_destroy (pcs s h) = true).
      { pose proof (no_callers s d h B Hd Hh) as Hi.
        destruct (pcs s h) as [| | | | | |f| | | | | | | | |f| | | | | | | | | |]; simpl in Hhw, Hi; try discriminate; reflexivity. }
      assert (h = d) by (eapply b_uniq; eauto). subst h. exact Hhw. }
    assert (Hfullq : fullb A s = true -> a_queue s <> []).
    { unfold fullb. intros Hf E. rewrite E in Hf. apply Nat.leb_le in Hf. simpl in Hf. lia. }
    assert (Hdprod : (pcs s d = PWLock \/ pcs s d = PDWLock -> a_wlock s = false) ->
                     pcs s d <> PJoinBlocked -> pcs s d <> PEnd ->
                     (retry4 (pcs s d) = true -> fullb A s = false) -> exists u, productive s u).
    { intros H1 H2 H3 H4. exists d. split; [apply producer_enabled; assumption|].
      intros [K1 K2]. rewrite (H4 K1) in K2. discriminate. }
    destruct (pcs s d) as [| | | | | |f| | | | | | | | |f| | | | | | | | | |] eqn:Epd; simpl in Hd; try discriminate.
    all: try (apply Hdprod; try discriminate; intros [K|K]; discriminate K).
    + (* PDWLock *)
      destruct (fullb A s) eqn:Ef.
      * exists 0. apply (writer_enabled s d Hg); [rewrite Epd; reflexivity|rewrite Epd; reflexivity|left; auto].
      * apply Hdprod; try discriminate; auto. intros _.
        destruct (a_wlock s) eqn:Ew; [|reflexivity]. specialize (Hwl eq_refl). discriminate Hwl.
    + (* PDTry *)
      destruct (fullb A s) eqn:Ef.
      * exists 0. apply (writer_enabled s d Hg); [rewrite Epd; reflexivity|rewrite Epd; reflexivity|left; auto].
      * apply Hdprod; try discriminate; auto. intros [K|K]; discriminate K.
    + (* PDUnlock *)
      destruct f.
      * destruct (fullb A s) eqn:Ef.
        -- exists 0. apply (writer_enabled s d Hg); [rewrite Epd; reflexivity|rewrite Epd; reflexivity|left; auto].
        -- apply Hdprod; try discriminate; auto. intros [K|K]; discriminate K.
      * apply Hdprod; try discriminate. intros [K|K]; discriminate K.
    + (* PDYield *)
      destruct (fullb A s) eqn:Ef.
      * exists 0. apply (writer_enabled s d Hg); [rewrite Epd; reflexivity|rewrite Epd; reflexivity|left; auto].
      * apply Hdprod; try discriminate; auto. intros [K|K]; discriminate K.
    + (* PJoinBlocked: the sentinel is queued or taken, and the writer thread has not finished *)
      exists 0. apply (writer_enabled s d Hg); [rewrite Epd; reflexivity|rewrite Epd; reflexivity|].
      pose proof (f_jb _ _ F d Epd) as Hcf.
      assert (Hsn : sentb s = true) by (apply (f_sn _ _ F d); rewrite Epd; reflexivity).
      unfold sentb in Hsn. apply orb_prop in Hsn. destruct Hsn as [Hn|Hc].
      * left. intros E. rewrite E in Hn. discriminate.
      * right. split; assumption.
  - (* some producer is still logging *)
    pose proof (b_rem _ _ _ B) as R. rewrite Er in R.
    destruct (tsum_pos_ex (fun u => icall (pcs s u)) (as_n A) ltac:(lia)) as (t & Ht & Hi).
    assert (Hnod : forall u, in_destroy (pcs s u) = false).
    { intros u. destruct (in_destroy (pcs s u)) eqn:E; [|reflexivity]. pose proof (b_dest0 _ _ _ B u E). lia. }
    assert (Hnr : forall u, retry4 (pcs s u) = false).
    { intros u. destruct (retry4 (pcs s u)) eqn:E; [|reflexivity]. apply retry4_in_destroy in E. rewrite Hnod in E. discriminate. }
    destruct (a_wlock s) eqn:Ew.
    + destruct (f_lock _ _ F Ew) as (h & Hh & Hhw). exists h. split; [apply holds_enabled; assumption|].
      intros [K _]. rewrite Hnr in K. discriminate.
    + exists t. split.
      * apply producer_enabled; auto; intros E; rewrite E in Hi; simpl in Hi; lia.
      * intros [K _]. rewrite Hnr in K. discriminate.
Qed.

(* ------------------------------------------------------------------ *)

Theorem destroy_returns_fair_from s rounds : 1 <= as_usable A -> Good A s ->
  Forall fair_round rounds -> G A s < length rounds ->
  a_destroyed (exec asys (astep true A) s (concat rounds)) = true.
Proof.
  intros Hus Hg Hf Hlt. apply fair_goal; auto. intros s0 Hg0 Hd. apply exists_productive; assumption.
Qed.

End MeasureStep.

(* ------------------------------------------------------------------ *)
(* from the initial state                                              *)

Lemma not_known_usable A : in_known_class A = false -> 1 <= as_usable A.
Proof. unfold in_known_class. intros H. apply Nat.eqb_neq in H. lia. Qed.

(* Outside the known class, at any point [pre] of any schedule, every fair continuation of more
   than G rounds ends with destroy returned. *)
Theorem destroy_returns_fair A pre rounds :
  in_known_class A = false -> 1 <= as_n A ->
  let s := exec asys (astep true A) (ainit A) pre in
  Forall (fair_round A) rounds -> G A s < length rounds ->
  a_destroyed (exec asys (astep true A) (ainit A) (pre ++ concat rounds)) = true.
Proof.
  intros Hc Hn s Hf Hlt. rewrite exec_app. apply destroy_returns_fair_from; auto.
  - apply not_known_usable. exact Hc.
  - apply good_exec. apply good_init. exact Hn.
Qed.

(* an explicit bound from the initial state: n * (msgs * Wc + Dc) + 8 *)
Lemma G_init_le A : G A (ainit A) <= as_n A * (cw A 0 + Dc A) + 8.
Proof.
  unfold G, Gsum.
  assert (Hc : crank A (ainit A) = 8) by reflexivity.
  assert (Hq : length (a_queue (ainit A)) = 0) by reflexivity.
  rewrite Hc, Hq.
  assert (T : tsum (fun u => wt A (fullb A (ainit A)) (a_joinword (ainit A)) (a_thr (ainit A) u)) (as_n A)
              <= tsum (fun _ => cw A 0 + Dc A) (as_n A)).
  { apply tsum_le. intros u. unfold wt. simpl. destruct (Nat.eqb (as_msgs A) 0); simpl; lia. }
  rewrite tsum_const in T. lia.
Qed.

(* the property's clause in full, outside the known class: under every fair schedule destroy
   returns, and when it has returned everything the channel accepted has been written (whole,
   in queue order, on every accepting handler) and nothing is outstanding *)
Theorem destroy_returns_drained_and_clean A pre rounds :
  in_known_class A = false -> 1 <= as_n A ->
  Forall (fair_round A) rounds -> G A (exec asys (astep true A) (ainit A) pre) < length rounds ->
  let s' := exec asys (astep true A) (ainit A) (pre ++ concat rounds) in
  a_destroyed s' = true /\ a_queue s' = [] /\ a_consumed s' = a_accepted s' /\
  (forall i, whole (a_out s' i) /\ lines_of (a_out s' i) = filter (macc A i) (a_accepted s')) /\
  a_live s' = 0.
Proof.
  intros Hc Hn Hf Hlt s'.
  assert (Hd : a_destroyed s' = true) by (apply destroy_returns_fair; assumption).
  destruct (destroy_drains A (pre ++ concat rounds) Hn Hd) as (Hq & Hca & _ & Hw).
  destruct (no_leak A (pre ++ concat rounds) Hn) as (_ & Hl).
  repeat split; auto; apply Hw.
Qed.

(* non-vacuity: the configuration of the overflow witness, round-robin rounds *)
Example fair_example :
  in_known_class ex_ascen = false /\ 1 <= as_n ex_ascen /\ fair_round ex_ascen [(0, 0); (1, 0)] /\
  G ex_ascen (ainit ex_ascen) < 400 /\
  a_destroyed (exec asys (astep true ex_ascen) (ainit ex_ascen) (concat (repeat [(0, 0); (1, 0)] 400))) = true.
Proof.
  split; [reflexivity|]. split; [simpl; lia|]. split.
  - intros t Ht. simpl in Ht. destruct t as [|[|t]]; simpl; auto; lia.
  - split; [vm_compute; lia|vm_compute; reflexivity].
Qed.
