From MV Require Import Lib.ExtractBase C16.Model gen.Params_C16.
From Coq Require Import ExtrOcamlBasic.
Extraction Language OCaml.
Extraction "c16_model" force_types code_limit code_levels handler_write payload_of logger_init add_handler
  set_level sync_log async_log_seq aseq_step next_from min_level sinit sstep usable_of ainit astep
  code_fmtcfg builtin_format dec_pad level_name gmtime handler_emit esc_rst.
