(* C16 — logging.  Executable model transcribing muggle/c/log/{log_logger.c, log_handler.c,
   log_sync_logger.c, log_async_logger.c} and the write functions of the handlers
   (log_console_handler.c, log_file_handler.c, log_file_rotate_handler.c,
   log_file_time_rot_handler.c).  Definitions only.

   Part 1 (sequential): level filter, payload truncation, the handlers' fixed formatting
   buffer with explicit indices.
   Part 2 (concurrent, sync logger): N threads, per-handler mutex, the write as
   lock ; first part ; scheduling point ; second part ; unlock  at harness/vsched granularity.
   Part 3 (concurrent, async logger): producers, abstract bounded FIFO with FULL (the
   channel), writer thread, destroy = NULL sentinel + join, allocation accounting.

   [fixed] = false transcribes the code as first found, true the repaired code
   (fixes/C16-*.patch). *)
From MV Require Export Lib.Conc.
Local Open Scope Z_scope.

Definition byte := N.
Definition nl : byte := 10%N.
Definition nul : byte := 0%N.

(* ------------------------------------------------------------------ *)
(* 1. sequential core                                                  *)

(* what a read of the handler's stack buffer char buf[LIMIT] at index i yields *)
Inductive cell :=
  | Init (b : byte)     (* a byte the formatter (or the clamp) stored *)
  | Uninit              (* inside the buffer, never written *)
  | Oob.                (* index >= LIMIT: outside the buffer *)

(* snprintf(buf, limit, ...) of a text s: stores min(|s|, limit-1) bytes and a NUL,
   returns |s| (the length it wanted) *)
Definition snprintf_stored (limit : nat) (s : list byte) : nat := Nat.min (length s) (limit - 1).
Definition buf_after_snprintf (limit : nat) (s : list byte) (i : nat) : cell :=
  if Nat.leb limit i then Oob
  else if Nat.ltb i (snprintf_stored limit s) then Init (nth i s nul)
  else if Nat.eqb i (snprintf_stored limit s) then Init nul
  else Uninit.
Definition snprintf_writes (limit : nat) (s : list byte) : list nat :=
  seq 0 (S (snprintf_stored limit s)).

Definition buf_set (f : nat -> cell) (limit k : nat) (b : byte) (i : nat) : cell :=
  if Nat.eqb i k then (if Nat.leb limit i then Oob else Init b) else f i.

Record hwrite := {
  hw_ret : nat;              (* number of bytes handed to fwrite *)
  hw_reads : list nat;       (* buffer indices fwrite reads *)
  hw_writes : list nat;      (* buffer indices stored to *)
  hw_out : list cell;        (* what reaches the stream *)
}.

(* the body of every built-in handler's write function:
     char buf[LIMIT]; ret = fmt->fmt_func(msg, buf, sizeof(buf));
     [repaired: if (ret >= sizeof(buf)) { ret = sizeof(buf) - 1; buf[ret - 1] = '\n'; }]
     fwrite(buf, 1, ret, fp);                                                   *)
Definition handler_write (fixed : bool) (limit : nat) (line : list byte) : hwrite :=
  let buf := buf_after_snprintf limit line in
  let ret0 := length line in
  if fixed && Nat.leb limit ret0 then
    let ret := (limit - 1)%nat in
    let buf' := buf_set buf limit (ret - 1) nl in
    {| hw_ret := ret; hw_reads := seq 0 ret;
       hw_writes := snprintf_writes limit line ++ [(ret - 1)%nat];
       hw_out := map buf' (seq 0 ret) |}
  else
    {| hw_ret := ret0; hw_reads := seq 0 ret0;
       hw_writes := snprintf_writes limit line;
       hw_out := map buf (seq 0 ret0) |}.

(* payload: vsnprintf(payload, LIMIT, format, args) *)
Definition payload_of (limit : nat) (text : list byte) : list byte := firstn (limit - 1) text.

(* The integer content of the write function of every built-in handler (what the second tie,
   lib/props/c16_slice.py, re-extracts from the C text; C16/ProofsGen.v ties these to
   handler_write):  r = what the formatter returned, limit = sizeof(buf).
     if (r >= (int)sizeof(buf)) { r = sizeof(buf) - 1; buf[r - 1] = '\n'; }   fwrite(buf, 1, r, fp) *)
Definition clamp_count (limit r : Z) : Z := if limit <=? r then limit - 1 else r.
Definition clamp_store (limit r : Z) : option (Z * Z) := if limit <=? r then Some (limit - 2, 10) else None.
(* log_file_rotate_handler.c:  handler->offset += n; if (handler->offset >= handler->max_bytes) rotate *)
Definition size_rot_after (offset n max_bytes : Z) : Z * bool := (offset + n, max_bytes <=? offset + n).

(* State records of the sliced functions (lib/props/c16_slice.py puts the function it re-translates
   between two of these, by field name, so the statements of C16/ProofsGen.v do not depend on
   which fields the C text happens to touch).
   hwio — a handler's write function.  Inputs: the buffer as the formatter left it, what the
   formatter returned, handler->fmt / handler->fp non-NULL (fp_ok2: after a rotation), need_mutex,
   enable_color, msg->level, offset / max_bytes of the size-rotating handler, the results of the
   rotate / detect helpers.  Outputs: the return value, the size given to the formatter, the
   capacity of the buffer, bytes handed to fwrite (count and number of calls), rotations (number,
   and how many fwrites preceded), detect calls. *)
Record hwio := {
  io_buf : list Z; io_fret : Z; io_fmt_ok : Z; io_fp_ok : Z; io_fp_ok2 : Z; io_need_mutex : Z; io_color : Z;
  io_level : Z; io_offset : Z; io_max_bytes : Z; io_rot_ret : Z; io_detect_ret : Z;
  io_ret : Z; io_fmt_size : Z; io_buf_cap : Z; io_wr_cnt : Z; io_wr_n : Z; io_rot_n : Z; io_rot_at : Z; io_detect_n : Z }.
(* lgio — muggle_logger_write and the log functions of the two loggers.  Inputs: logger->cnt, the
   levels of the attached handlers, fmt_hint, the level of the call, the two allocation oracles and
   the result of muggle_channel_write (async).  Outputs: msg.level, the size given to vsnprintf and
   the capacity of the payload buffer, calls of muggle_logger_write, messages / sentinels queued,
   blocks released, one loop iteration beyond MUGGLE_LOGGER_MAX_HANDLER, the handler slots whose
   write function was called, in order. *)
Record lgio := {
  lo_cnt : Z; lo_levels : list Z; lo_fmt_hint : Z; lo_level : Z; lo_alloc1_ok : Z; lo_alloc2_ok : Z; lo_chan_ret : Z;
  lo_msg_level : Z; lo_pay_size : Z; lo_pay_cap : Z; lo_written : Z; lo_queued : Z; lo_sentinel : Z; lo_freed : Z;
  lo_overrun : Z; lo_wr_n : Z; lo_wr_order : list Z }.

(* ------------------------------------------------------------------ *)
(* 1b. the built-in formatters (log_fmt.c) and the level names (log_level.c) *)

Definition digit (d : Z) : byte := Z.to_N (48 + d).
Fixpoint dec_fuel (fuel : nat) (n : Z) (acc : list byte) : list byte :=
  match fuel with
  | O => acc
  | S f => if n <? 10 then digit n :: acc else dec_fuel f (n / 10) (digit (n mod 10) :: acc)
  end.
(* decimal digits of a non-negative number (below 10^24: every C integer type) *)
Definition dec_u (n : Z) : list byte := dec_fuel 24 n [].
Definition pad0 (w : nat) (s : list byte) : list byte := repeat 48%N (w - length s) ++ s.
(* printf's %d / %u / %llu (w = 0) and %0<w>d *)
Definition dec_pad (w : nat) (n : Z) : list byte :=
  if n <? 0 then 45%N :: pad0 (w - 1) (dec_u (- n)) else pad0 w (dec_u n).

(* struct tm as gmtime_r fills it: years since 1900, months since January *)
Record tmz := { tm_year : Z; tm_mon : Z; tm_mday : Z; tm_hour : Z; tm_min : Z; tm_sec : Z }.
(* gmtime_r (libc; modelled, not verified): days since the epoch -> civil date *)
Definition gmtime (sec : Z) : tmz :=
  let days := sec / 86400 in
  let rem := sec mod 86400 in
  let z := days + 719468 in
  let era := z / 146097 in
  let doe := z - era * 146097 in
  let yoe := (doe - doe / 1460 + doe / 36524 - doe / 146096) / 365 in
  let y := yoe + era * 400 in
  let doy := doe - (365 * yoe + yoe / 4 - yoe / 100) in
  let mp := (5 * doy + 2) / 153 in
  let d := doy - (153 * mp + 2) / 5 + 1 in
  let m := if mp <? 10 then mp + 3 else mp - 9 in
  {| tm_year := (if m <=? 2 then y + 1 else y) - 1900; tm_mon := m - 1; tm_mday := d;
     tm_hour := rem / 3600; tm_min := (rem mod 3600) / 60; tm_sec := rem mod 60 |}.

(* what a formatter sees of a message: muggle_log_msg_t with the file name already reduced to
   its base name (muggle_path_basename: C20's subject) *)
Record fenv := { fe_level : Z; fe_file : list byte; fe_line : Z; fe_func : list byte; fe_tid : Z;
                 fe_sec : Z; fe_nsec : Z; fe_payload : list byte }.
(* muggle_log_level_to_str: the name table, the name of a level outside it, MUGGLE_LOG_LEVEL_OFFSET;
   coq/gen/Params_C16.v re-extracts them from log_level.c *)
Record fmtcfg := { fc_names : list (list byte); fc_unknown : list byte; fc_offset : Z }.
Definition level_index (F : fmtcfg) (lv : Z) : Z :=
  let i := Z.shiftr lv (fc_offset F) in
  if (0 <=? i) && (i <? Z.of_nat (length (fc_names F))) then i else -1.
Definition level_name (F : fmtcfg) (lv : Z) : list byte :=
  let i := level_index F lv in
  if i <? 0 then fc_unknown F else nth (Z.to_nat i) (fc_names F) (fc_unknown F).

(* muggle_log_fmt_simple:  "%s|%s:%u - %s\n"  level, file, line, payload *)
Definition fmt_simple (F : fmtcfg) (e : fenv) : list byte :=
  level_name F (fe_level e) ++ [124%N] ++ fe_file e ++ [58%N] ++ dec_pad 0 (fe_line e) ++ [32; 45; 32]%N ++
  fe_payload e ++ [nl].
(* muggle_log_fmt_complicated:  "%s|%d-%02d-%02dT%02d:%02d:%02d.%03d|%s:%u|%s|%llu - %s\n"
   level, year, month, day, hour, minute, second, millisecond, file, line, function, thread id, payload *)
Definition fmt_complicated (F : fmtcfg) (e : fenv) : list byte :=
  let t := gmtime (fe_sec e) in
  level_name F (fe_level e) ++ [124%N] ++
  dec_pad 0 (tm_year t + 1900) ++ [45%N] ++ dec_pad 2 (tm_mon t + 1) ++ [45%N] ++ dec_pad 2 (tm_mday t) ++ [84%N] ++
  dec_pad 2 (tm_hour t) ++ [58%N] ++ dec_pad 2 (tm_min t) ++ [58%N] ++ dec_pad 2 (tm_sec t) ++ [46%N] ++
  dec_pad 3 (fe_nsec e / 1000000) ++ [124%N] ++
  fe_file e ++ [58%N] ++ dec_pad 0 (fe_line e) ++ [124%N] ++ fe_func e ++ [124%N] ++ dec_pad 0 (fe_tid e) ++
  [32; 45; 32]%N ++ fe_payload e ++ [nl].

(* the formatter muggle_log_simple_init installs (log.c, muggle_log_simple_init_fmt):
   "%s|%llu.%09d|%s:%u|%s|%llu - %s\n"  level, seconds, nanoseconds, file, line, function, thread id, payload
   (muggle_log_complicated_init installs a copy of muggle_log_fmt_complicated) *)
Definition fmt_init_simple (F : fmtcfg) (e : fenv) : list byte :=
  level_name F (fe_level e) ++ [124%N] ++ dec_pad 0 (fe_sec e) ++ [46%N] ++ dec_pad 9 (fe_nsec e) ++ [124%N] ++
  fe_file e ++ [58%N] ++ dec_pad 0 (fe_line e) ++ [124%N] ++ fe_func e ++ [124%N] ++ dec_pad 0 (fe_tid e) ++
  [32; 45; 32]%N ++ fe_payload e ++ [nl].

(* a printf layout as lib/props/c16_slice.py re-extracts it from the snprintf call of a formatter:
   literal text, %s of a string the formatter holds, a decimal conversion (width with the 0 flag,
   signedness and size of the conversion, the integer argument as a function of the message) *)
Inductive fstr := SLevel | SFile | SFunc | SPayload.
Inductive fitem :=
  | FLit (s : list byte)
  | FStr (k : fstr)
  | FNum (w : nat) (sgn : bool) (bits : Z) (v : fenv -> tmz -> Z).
Definition render_item (F : fmtcfg) (e : fenv) (it : fitem) : list byte :=
  match it with
  | FLit s => s
  | FStr SLevel => level_name F (fe_level e)
  | FStr SFile => fe_file e
  | FStr SFunc => fe_func e
  | FStr SPayload => fe_payload e
  | FNum w sgn bits v =>
    let x := v e (gmtime (fe_sec e)) in dec_pad w (if sgn then x else x mod 2 ^ bits)
  end.
Fixpoint render (F : fmtcfg) (e : fenv) (its : list fitem) : list byte :=
  match its with
  | [] => []
  | it :: r => render_item F e it ++ render F e r
  end.

Inductive hkind := HCap | HFile | HConsole (color : bool).
Record handler := { h_kind : hkind; h_level : Z; h_fmt : nat }.
Record logger := { lg_handlers : list handler; lg_lowest : Z }.
Record lmsg := { m_level : Z; m_id : nat; m_payload : list byte }.

(* what the log function stores in the message besides level and payload: the caller's source
   location, the clock reading and the thread id of call number m_id *)
Record msrc := { ms_file : list byte; ms_line : Z; ms_func : list byte; ms_tid : Z; ms_sec : Z; ms_nsec : Z }.
Definition fenv_of (s : msrc) (m : lmsg) : fenv :=
  {| fe_level := m_level m; fe_file := ms_file s; fe_line := ms_line s; fe_func := ms_func s;
     fe_tid := ms_tid s; fe_sec := ms_sec s; fe_nsec := ms_nsec s; fe_payload := m_payload m |}.
(* the formatter oracle instantiated with the code's own formatters: h_fmt 0 = muggle_log_fmt_get_simple,
   1 = muggle_log_fmt_get_complicated (and the copy muggle_log_complicated_init installs), 3 = the formatter
   muggle_log_simple_init installs, anything else = the harness's custom formatter (the payload alone) *)
Definition builtin_format (F : fmtcfg) (src : nat -> msrc) (k : nat) (m : lmsg) : list byte :=
  match k with
  | O => fmt_simple F (fenv_of (src (m_id m)) m)
  | S O => fmt_complicated F (fenv_of (src (m_id m)) m)
  | S (S (S O)) => fmt_init_simple F (fenv_of (src (m_id m)) m)
  | _ => m_payload m
  end.

(* level constants: coq/gen/Params_C16.v re-extracts them from log_level.h *)
Record levels := { lv_warning : Z; lv_error : Z; lv_fatal : Z; lv_max_handler : nat }.

Definition logger_init (L : levels) : logger := {| lg_handlers := []; lg_lowest := lv_fatal L |}.

(* muggle_sync_logger_add_handler / muggle_async_logger_add_handler *)
Definition add_handler (L : levels) (lg : logger) (h : handler) : logger * bool :=
  if Nat.leb (lv_max_handler L) (length (lg_handlers lg)) then (lg, false)
  else ({| lg_handlers := lg_handlers lg ++ [h];
           lg_lowest := if h_level h <? lg_lowest lg then h_level h else lg_lowest lg |}, true).

Fixpoint set_nth_level (hs : list handler) (i : nat) (lv : Z) : list handler :=
  match hs, i with
  | [], _ => []
  | h :: r, O => {| h_kind := h_kind h; h_level := lv; h_fmt := h_fmt h |} :: r
  | h :: r, S j => h :: set_nth_level r j lv
  end.
(* muggle_log_handler_set_level on a handler that is already attached *)
Definition set_level (lg : logger) (i : nat) (lv : Z) : logger :=
  {| lg_handlers := set_nth_level (lg_handlers lg) i lv; lg_lowest := lg_lowest lg |}.

(* muggle_log_handler_should_write: if (level < handler->level) return false; *)
Definition should_write (h : handler) (level : Z) : bool := negb (level <? h_level h).

(* terminal colour codes of log_console_handler.c *)
Definition esc_red : list byte := [27; 91; 51; 49; 109]%N.
Definition esc_yel : list byte := [27; 91; 51; 51; 109]%N.
Definition esc_rst : list byte := [27; 91; 48; 109]%N.

(* one emission: handler index, stream (0 = file / stdout, 1 = stderr), cells *)
Definition emission := (nat * nat * list cell)%type.

Record aseq := { aq_lg : logger; aq_held : option lmsg; aq_pending : list lmsg }.
Inductive aop := AOLog (hold : bool) (level : Z) (id : nat) (text : list byte) | AOSet (i : nat) (lv : Z) | AORelease.

Section WithFormat.
  (* the formatter oracle: formatter kind (0 simple, 1 complicated) -> message -> the line
     snprintf would produce without a size limit *)
  Variable format : nat -> lmsg -> list byte.
  Variable L : levels.
  Variable limit : nat.
  Variable fixed : bool.

  Definition handler_line (h : handler) (m : lmsg) : hwrite :=
    handler_write (match h_kind h with HCap => true | _ => fixed end) limit (format (h_fmt h) m).

  Definition handler_emit (idx : nat) (h : handler) (m : lmsg) : emission :=
    let w := handler_line h m in
    match h_kind h with
    | HConsole color =>
      let st := if m_level m >=? lv_warning L then 1%nat else 0%nat in
      if color && (m_level m >=? lv_warning L) then
        (idx, st, map Init (if m_level m >=? lv_error L then esc_red else esc_yel) ++ hw_out w ++ map Init esc_rst)
      else (idx, st, hw_out w)
    | _ => (idx, 0%nat, hw_out w)
    end.

  (* muggle_logger_write *)
  Fixpoint logger_write_from (i : nat) (hs : list handler) (m : lmsg) : list emission :=
    match hs with
    | [] => []
    | h :: r =>
      (if should_write h (m_level m) then [handler_emit i h m] else []) ++ logger_write_from (S i) r m
    end.
  Definition logger_write (lg : logger) (m : lmsg) : list emission :=
    logger_write_from 0 (lg_handlers lg) m.

  (* the early-out of muggle_sync_logger_log / muggle_async_logger_log.
     As first found:  if (logger->lowest_log_level > level) return;   (a snapshot taken in add_handler)
     Repaired:        return unless some attached handler's muggle_log_handler_should_write(level) *)
  Definition prefilter (lg : logger) (level : Z) : bool :=
    if fixed then existsb (fun h => should_write h level) (lg_handlers lg)
    else negb (lg_lowest lg >? level).

  (* muggle_sync_logger_log *)
  Definition sync_log (lg : logger) (level : Z) (id : nat) (text : list byte) : list emission :=
    if negb (prefilter lg level) then []
    else logger_write lg {| m_level := level; m_id := id; m_payload := payload_of limit text |}.

  (* muggle_async_logger_log followed (later) by the writer thread's muggle_logger_write, when
     the channel has room; msg_ok / pay_ok are the malloc oracles.  None = the process
     crashes (vsnprintf into a NULL payload in the code as first found). *)
  Definition async_log_seq (lg : logger) (level : Z) (id : nat) (text : list byte)
             (msg_ok pay_ok : bool) : option (list emission) :=
    if negb (prefilter lg level) then Some []
    else if negb msg_ok then Some []
    else if negb pay_ok then (if fixed then Some [] else None)
    else Some (logger_write lg {| m_level := level; m_id := id; m_payload := payload_of limit text |}).
  (* The async logger with an explicit queue (sequential view with the writer thread stopped and
     released by the harness): the producer applies the early-out at CALL time, the writer thread
     tests each handler's level when it PROCESSES the message.
       AOLog hold ...  a call; with hold = true and handler 0 accepting it, the writer thread
                       stops inside handler 0's write of this message
       AOSet i lv      muggle_log_handler_set_level
       AORelease       the writer thread goes on: the remaining handlers of the held message,
                       then everything queued meanwhile, with the levels as they are now *)
  Definition aseq_step (s : aseq) (o : aop) : aseq * list emission :=
    let lg := aq_lg s in
    match o with
    | AOSet i lv => ({| aq_lg := set_level lg i lv; aq_held := aq_held s; aq_pending := aq_pending s |}, [])
    | AORelease =>
      match aq_held s with
      | None => (s, [])
      | Some m0 =>
        ({| aq_lg := lg; aq_held := None; aq_pending := [] |},
         logger_write_from 1 (tl (lg_handlers lg)) m0 ++ flat_map (logger_write lg) (aq_pending s))
      end
    | AOLog hold level id text =>
      if negb (prefilter lg level) then (s, [])
      else
        let m := {| m_level := level; m_id := id; m_payload := payload_of limit text |} in
        match aq_held s with
        | Some _ => ({| aq_lg := lg; aq_held := aq_held s; aq_pending := aq_pending s ++ [m] |}, [])
        | None =>
          match lg_handlers lg with
          | h0 :: _ =>
            if hold && should_write h0 level then
              ({| aq_lg := lg; aq_held := Some m; aq_pending := [] |}, [handler_emit 0 h0 m])
            else (s, logger_write lg m)
          | [] => (s, logger_write lg m)
          end
        end
    end.
End WithFormat.

(* ------------------------------------------------------------------ *)
(* 2. sync logger under N threads                                      *)

(* In the concurrent scenarios the handler levels do not change, so the early-out "no attached
   handler accepts the level" is a fixed threshold: the minimum of the handler levels
   (C16/ProofsSeq.v: prefilter_static).  sc_lowest / as_lowest below are that threshold. *)
Fixpoint min_level (hs : list handler) : option Z :=
  match hs with
  | [] => None
  | h :: r => match min_level r with
              | None => Some (h_level h)
              | Some m => Some (if h_level h <? m then h_level h else m)
              end
  end.

(* a scenario: thread t's k-th call has level [sc_level t k]; every thread makes sc_msgs calls *)
Record scen := { sc_n : nat; sc_msgs : nat; sc_level : nat -> nat -> Z;
                 sc_handlers : list handler; sc_lowest : Z }.

(* first handler index >= i that accepts the level *)
Fixpoint next_handler (hs : list handler) (i : nat) (level : Z) : option nat :=
  match hs with
  | [] => None
  | h :: r => if should_write h level then Some i else next_handler r (S i) level
  end.
Definition next_from (hs : list handler) (i : nat) (level : Z) : option nat :=
  next_handler (skipn i hs) i level.

Inductive spc :=
  | SCall                 (* harness note: call k level; then the logger-level test *)
  | SLock (i : nat)       (* pthread_mutex_lock(&handler->mtx) *)
  | SEmit1 (i : nat)      (* first part of the line reaches the stream *)
  | SYield (i : nat)      (* scheduling point inside the write *)
  | SEmit2 (i : nat)      (* second part *)
  | SUnlock (i : nat)
  | SFin | SDone.

Record sthread := { s_pc : spc; s_k : nat }.
(* chunk of a handler stream: (thread, message index, part 1 or 2) *)
Definition chunk := (nat * nat * nat)%type.
Record ssys := {
  s_lock : nat -> bool;              (* handler mutex held? *)
  s_out : nat -> list chunk;         (* handler stream *)
  s_thr : nat -> sthread;
}.
Definition sinit : ssys :=
  {| s_lock := fun _ => false; s_out := fun _ => []; s_thr := fun _ => {| s_pc := SCall; s_k := 0 |} |}.

Definition cell_hmtx (i : nat) : nat := (100 + i)%nat.
Definition cell_yield : nat := 1%nat.
Definition note_call : nat := 1%nat.
Definition note_emit1 : nat := 2%nat.
Definition note_emit2 : nat := 3%nat.
Definition note_done : nat := 6%nat.

Definition s_set_thr (s : ssys) (t : nat) (x : sthread) : ssys :=
  {| s_lock := s_lock s; s_out := s_out s; s_thr := upd (s_thr s) t x |}.

(* after handler i (or after the logger-level test when i = 0 and nothing was written yet):
   the next accepting handler, or the next call *)
Definition s_after (Sc : scen) (k : nat) (level : Z) (from : nat) : sthread :=
  match next_from (sc_handlers Sc) from level with
  | Some j => {| s_pc := SLock j; s_k := k |}
  | None => {| s_pc := SCall; s_k := S k |}
  end.

Definition sstep (Sc : scen) (s : ssys) (t : nat) (ch : nat) : option (ssys * label) :=
  let x := s_thr s t in
  let k := s_k x in
  let level := sc_level Sc t k in
  if Nat.leb (sc_n Sc) t then None else
  match s_pc x with
  | SCall =>
    if Nat.leb (sc_msgs Sc) k then Some (s_set_thr s t {| s_pc := SFin; s_k := k |}, LPlain [(note_done, 0)])
    else if sc_lowest Sc >? level then
      Some (s_set_thr s t {| s_pc := SCall; s_k := S k |}, LPlain [(note_call, level)])
    else Some (s_set_thr s t (s_after Sc k level 0), LPlain [(note_call, level)])
  | SLock i =>
    if s_lock s i then None
    else Some ({| s_lock := upd (s_lock s) i true; s_out := s_out s;
                  s_thr := upd (s_thr s) t {| s_pc := SEmit1 i; s_k := k |} |},
               LEv (Ev OMlock (cell_hmtx i) MoNone 0 0 0))
  | SEmit1 i =>
    Some ({| s_lock := s_lock s; s_out := upd (s_out s) i (s_out s i ++ [(t, k, 1%nat)]);
             s_thr := upd (s_thr s) t {| s_pc := SYield i; s_k := k |} |},
          LPlain [(note_emit1, Z.of_nat i)])
  | SYield i =>
    Some (s_set_thr s t {| s_pc := SEmit2 i; s_k := k |}, LEv (Ev OPlain cell_yield MoNone 0 0 0))
  | SEmit2 i =>
    Some ({| s_lock := s_lock s; s_out := upd (s_out s) i (s_out s i ++ [(t, k, 2%nat)]);
             s_thr := upd (s_thr s) t {| s_pc := SUnlock i; s_k := k |} |},
          LPlain [(note_emit2, Z.of_nat i)])
  | SUnlock i =>
    Some ({| s_lock := upd (s_lock s) i false; s_out := s_out s;
             s_thr := upd (s_thr s) t (s_after Sc k level (S i)) |},
          LEv (Ev OMunlock (cell_hmtx i) MoNone 0 0 0))
  | SFin => Some (s_set_thr s t {| s_pc := SDone; s_k := k |}, LExit)
  | SDone => None
  end.

(* ------------------------------------------------------------------ *)
(* 3. async logger: producers 1..n, writer thread 0, abstract channel  *)

Inductive qitem := QMsg (t k : nat) | QNull.

Record ascen := { as_n : nat; as_msgs : nat; as_level : nat -> nat -> Z;
                  as_handlers : list handler; as_lowest : Z; as_usable : nat }.

(* muggle_channel_init rounds the capacity to a power of two; one slot separates the cursors
   and the write test is (w + 1) == r, so cap - 2 messages fit *)
Fixpoint pow2_ge (fuel n p : nat) : nat :=
  match fuel with
  | O => p
  | S f => if Nat.leb n p then p else pow2_ge f n (2 * p)
  end.
Definition usable_of (capacity : nat) : nat := (pow2_ge 40 capacity 1 - 2)%nat.

Inductive ppc :=
  | PCall | PMallocMsg | PMallocPay | PWLock | PTry | PPush | PUnlock (full : bool) | PWake
  | PFreePay | PFreeMsg
  | PDoneNote                   (* harness: the producer finished; the last one destroys *)
  | PDestroy | PDWLock | PDTry | PDPush | PDUnlock (full : bool) | PDWake | PDYield
  | PJoinCheck | PJoinWait | PJoinBlocked | PChanFree1 | PChanFree2 | PDestroyed
  | PFin | PEnd.
Inductive cpc :=
  | CCheck | CWait | CBlocked | CPop | CEmit1 (i : nat) | CYield (i : nat) | CEmit2 (i : nat)
  | CFreePay | CFreeMsg | CExitNote | CWakeJoin | CFin | CEnd.

Record pthread := { p_pc : ppc; p_k : nat }.
Record asys := {
  a_queue : list qitem;            (* the channel's content *)
  a_wlock : bool;                  (* channel write mutex *)
  a_cons : cpc;
  a_cur : nat * nat;               (* message the writer thread is handling *)
  a_out : nat -> list chunk;
  a_live : nat;                    (* tracked allocations outstanding *)
  a_remaining : nat;
  a_joinword : bool;
  a_accepted : list (nat * nat);   (* ghost: messages the channel accepted, in order *)
  a_consumed : list (nat * nat);   (* ghost: messages the writer thread took, in order *)
  a_dropped : list (nat * nat);    (* ghost: messages refused by the full channel *)
  a_destroyed : bool;
  a_thr : nat -> pthread;
}.

Definition ainit (A : ascen) : asys :=
  {| a_queue := []; a_wlock := false; a_cons := CCheck; a_cur := (0, 0)%nat; a_out := fun _ => [];
     a_live := 2; a_remaining := as_n A; a_joinword := false; a_accepted := []; a_consumed := [];
     a_dropped := []; a_destroyed := false;
     a_thr := fun _ => {| p_pc := if Nat.eqb (as_msgs A) 0 then PDoneNote else PCall; p_k := 0 |} |}.

Definition cell_wmtx : nat := 2%nat.
Definition cell_rcur : nat := 3%nat.
Definition cell_wcur : nat := 4%nat.
Definition cell_join : nat := 5%nat.
Definition note_malloc : nat := 4%nat.
Definition note_free : nat := 5%nat.
Definition note_destroy : nat := 7%nat.
Definition note_destroyed : nat := 8%nat.
Definition note_consdone : nat := 9%nat.
Definition note_joincheck : nat := 10%nat.

Definition ev (o : opk) (c : nat) (a b cc : Z) : label := LEv (Ev o c MoNone a b cc).
Definition b2z (b : bool) : Z := if b then 1 else 0.

Definition a_set_thr (s : asys) (t : nat) (x : pthread) : asys :=
  {| a_queue := a_queue s; a_wlock := a_wlock s; a_cons := a_cons s; a_cur := a_cur s; a_out := a_out s;
     a_live := a_live s; a_remaining := a_remaining s; a_joinword := a_joinword s;
     a_accepted := a_accepted s; a_consumed := a_consumed s; a_dropped := a_dropped s;
     a_destroyed := a_destroyed s; a_thr := upd (a_thr s) t x |}.
Definition a_set_cons (s : asys) (c : cpc) : asys :=
  {| a_queue := a_queue s; a_wlock := a_wlock s; a_cons := c; a_cur := a_cur s; a_out := a_out s;
     a_live := a_live s; a_remaining := a_remaining s; a_joinword := a_joinword s;
     a_accepted := a_accepted s; a_consumed := a_consumed s; a_dropped := a_dropped s;
     a_destroyed := a_destroyed s; a_thr := a_thr s |}.
Definition a_set_live (s : asys) (n : nat) : asys :=
  {| a_queue := a_queue s; a_wlock := a_wlock s; a_cons := a_cons s; a_cur := a_cur s; a_out := a_out s;
     a_live := n; a_remaining := a_remaining s; a_joinword := a_joinword s;
     a_accepted := a_accepted s; a_consumed := a_consumed s; a_dropped := a_dropped s;
     a_destroyed := a_destroyed s; a_thr := a_thr s |}.
Definition a_set_wlock (s : asys) (b : bool) : asys :=
  {| a_queue := a_queue s; a_wlock := b; a_cons := a_cons s; a_cur := a_cur s; a_out := a_out s;
     a_live := a_live s; a_remaining := a_remaining s; a_joinword := a_joinword s;
     a_accepted := a_accepted s; a_consumed := a_consumed s; a_dropped := a_dropped s;
     a_destroyed := a_destroyed s; a_thr := a_thr s |}.
Definition a_push (s : asys) (q : qitem) : asys :=
  {| a_queue := a_queue s ++ [q]; a_wlock := a_wlock s; a_cons := a_cons s; a_cur := a_cur s; a_out := a_out s;
     a_live := a_live s; a_remaining := a_remaining s; a_joinword := a_joinword s;
     a_accepted := match q with QMsg t k => a_accepted s ++ [(t, k)] | QNull => a_accepted s end;
     a_consumed := a_consumed s; a_dropped := a_dropped s;
     a_destroyed := a_destroyed s; a_thr := a_thr s |}.
Definition a_drop (s : asys) (m : nat * nat) : asys :=
  {| a_queue := a_queue s; a_wlock := a_wlock s; a_cons := a_cons s; a_cur := a_cur s; a_out := a_out s;
     a_live := a_live s; a_remaining := a_remaining s; a_joinword := a_joinword s;
     a_accepted := a_accepted s; a_consumed := a_consumed s; a_dropped := a_dropped s ++ [m];
     a_destroyed := a_destroyed s; a_thr := a_thr s |}.
Definition a_emit (s : asys) (i : nat) (c : chunk) (pc : cpc) : asys :=
  {| a_queue := a_queue s; a_wlock := a_wlock s; a_cons := pc; a_cur := a_cur s;
     a_out := upd (a_out s) i (a_out s i ++ [c]);
     a_live := a_live s; a_remaining := a_remaining s; a_joinword := a_joinword s;
     a_accepted := a_accepted s; a_consumed := a_consumed s; a_dropped := a_dropped s;
     a_destroyed := a_destroyed s; a_thr := a_thr s |}.

(* the producer's state after finishing call k *)
Definition p_next (A : ascen) (k : nat) : pthread :=
  if Nat.ltb (S k) (as_msgs A) then {| p_pc := PCall; p_k := S k |} else {| p_pc := PDoneNote; p_k := S k |}.

(* writer thread: next accepting handler from index [from], else release the message *)
Definition c_after (A : ascen) (level : Z) (from : nat) : cpc :=
  match next_from (as_handlers A) from level with
  | Some j => CEmit1 j
  | None => CFreePay
  end.

Fixpoint count_join_blocked (thr : nat -> pthread) (n : nat) : nat :=
  match n with
  | O => O
  | S m => (match p_pc (thr (S m)) with PJoinBlocked => 1 | _ => 0 end + count_join_blocked thr m)%nat
  end.
Definition wake_joiners (thr : nat -> pthread) : nat -> pthread :=
  fun u => match p_pc (thr u) with
           | PJoinBlocked => {| p_pc := PJoinCheck; p_k := p_k (thr u) |}
           | _ => thr u
           end.

Definition cstep (A : ascen) (s : asys) : option (asys * label) :=
  let (ct, ck) := a_cur s in
  let level := as_level A ct ck in
  match a_cons s with
  | CCheck =>
    Some (a_set_cons s (match a_queue s with [] => CWait | _ => CPop end), ev OLoad cell_wcur 0 0 0)
  | CWait =>
    match a_queue s with
    | [] => Some (a_set_cons s CBlocked, ev OFwait cell_wcur 0 0 1)
    | _ => Some (a_set_cons s CCheck, ev OFwait cell_wcur 0 0 0)
    end
  | CBlocked => None
  | CPop =>
    match a_queue s with
    | [] => None
    | QNull :: q =>
      Some ({| a_queue := q; a_wlock := a_wlock s; a_cons := CExitNote; a_cur := a_cur s; a_out := a_out s;
               a_live := a_live s; a_remaining := a_remaining s; a_joinword := a_joinword s;
               a_accepted := a_accepted s; a_consumed := a_consumed s; a_dropped := a_dropped s;
               a_destroyed := a_destroyed s; a_thr := a_thr s |}, ev OStore cell_rcur 0 0 0)
    | QMsg t k :: q =>
      Some ({| a_queue := q; a_wlock := a_wlock s; a_cons := c_after A (as_level A t k) 0; a_cur := (t, k);
               a_out := a_out s; a_live := a_live s; a_remaining := a_remaining s; a_joinword := a_joinword s;
               a_accepted := a_accepted s; a_consumed := a_consumed s ++ [(t, k)]; a_dropped := a_dropped s;
               a_destroyed := a_destroyed s; a_thr := a_thr s |}, ev OStore cell_rcur 0 0 0)
    end
  | CEmit1 i => Some (a_emit s i (ct, ck, 1%nat) (CYield i), LPlain [(note_emit1, Z.of_nat i)])
  | CYield i => Some (a_set_cons s (CEmit2 i), ev OPlain cell_yield 0 0 0)
  | CEmit2 i => Some (a_emit s i (ct, ck, 2%nat) (c_after A level (S i)), LPlain [(note_emit2, Z.of_nat i)])
  | CFreePay => Some (a_set_cons (a_set_live s (pred (a_live s))) CFreeMsg, LPlain [(note_free, 0)])
  | CFreeMsg => Some (a_set_cons (a_set_live s (pred (a_live s))) CCheck, LPlain [(note_free, 0)])
  | CExitNote =>
    Some ({| a_queue := a_queue s; a_wlock := a_wlock s; a_cons := CWakeJoin; a_cur := a_cur s; a_out := a_out s;
             a_live := a_live s; a_remaining := a_remaining s; a_joinword := true;
             a_accepted := a_accepted s; a_consumed := a_consumed s; a_dropped := a_dropped s;
             a_destroyed := a_destroyed s; a_thr := a_thr s |}, LPlain [(note_consdone, 0)])
  | CWakeJoin =>
    Some ({| a_queue := a_queue s; a_wlock := a_wlock s; a_cons := CFin; a_cur := a_cur s; a_out := a_out s;
             a_live := a_live s; a_remaining := a_remaining s; a_joinword := a_joinword s;
             a_accepted := a_accepted s; a_consumed := a_consumed s; a_dropped := a_dropped s;
             a_destroyed := a_destroyed s; a_thr := wake_joiners (a_thr s) |},
          ev OFwake cell_join 0 (Z.of_nat (count_join_blocked (a_thr s) (as_n A))) 0)
  | CFin => Some (a_set_cons s CEnd, LExit)
  | CEnd => None
  end.

Definition pstep (fixed : bool) (A : ascen) (s : asys) (t : nat) : option (asys * label) :=
  let x := a_thr s t in
  let k := p_k x in
  let level := as_level A t k in
  let go p := a_set_thr s t {| p_pc := p; p_k := k |} in
  let full := Nat.leb (as_usable A) (length (a_queue s)) in
  match p_pc x with
  | PCall =>
    if as_lowest A >? level then Some (a_set_thr s t (p_next A k), LPlain [(note_call, level)])
    else Some (go PMallocMsg, LPlain [(note_call, level)])
  | PMallocMsg => Some (a_set_thr (a_set_live s (S (a_live s))) t {| p_pc := PMallocPay; p_k := k |}, LPlain [(note_malloc, 0)])
  | PMallocPay => Some (a_set_thr (a_set_live s (S (a_live s))) t {| p_pc := PWLock; p_k := k |}, LPlain [(note_malloc, 0)])
  | PWLock =>
    if a_wlock s then None
    else Some (a_set_thr (a_set_wlock s true) t {| p_pc := PTry; p_k := k |}, ev OMlock cell_wmtx 0 0 0)
  | PTry => Some (go (if full then PUnlock true else PPush), ev OLoad cell_rcur 0 0 0)
  | PPush => Some (a_set_thr (a_push s (QMsg t k)) t {| p_pc := PUnlock false; p_k := k |}, ev OStore cell_wcur 0 0 0)
  | PUnlock f =>
    let s1 := a_set_wlock s false in
    if f then
      (if fixed then Some (a_set_thr s1 t {| p_pc := PFreePay; p_k := k |}, ev OMunlock cell_wmtx 0 0 0)
       else Some (a_set_thr (a_drop s1 (t, k)) t (p_next A k), ev OMunlock cell_wmtx 0 0 0))
    else Some (a_set_thr s1 t {| p_pc := PWake; p_k := k |}, ev OMunlock cell_wmtx 0 0 0)
  | PWake =>
    match a_cons s with
    | CBlocked => Some (a_set_thr (a_set_cons s CCheck) t (p_next A k), ev OFwake cell_wcur 0 1 0)
    | _ => Some (a_set_thr s t (p_next A k), ev OFwake cell_wcur 0 0 0)
    end
  | PFreePay => Some (a_set_thr (a_set_live s (pred (a_live s))) t {| p_pc := PFreeMsg; p_k := k |}, LPlain [(note_free, 0)])
  | PFreeMsg => Some (a_set_thr (a_drop (a_set_live s (pred (a_live s))) (t, k)) t (p_next A k), LPlain [(note_free, 0)])
  | PDoneNote =>
    let r := pred (a_remaining s) in
    Some ({| a_queue := a_queue s; a_wlock := a_wlock s; a_cons := a_cons s; a_cur := a_cur s; a_out := a_out s;
             a_live := a_live s; a_remaining := r; a_joinword := a_joinword s;
             a_accepted := a_accepted s; a_consumed := a_consumed s; a_dropped := a_dropped s;
             a_destroyed := a_destroyed s;
             a_thr := upd (a_thr s) t {| p_pc := if Nat.eqb r 0 then PDestroy else PFin; p_k := k |} |},
          LPlain [(note_done, 0)])
  | PDestroy => Some (go PDWLock, LPlain [(note_destroy, 0)])
  | PDWLock =>
    if a_wlock s then None
    else Some (a_set_thr (a_set_wlock s true) t {| p_pc := PDTry; p_k := k |}, ev OMlock cell_wmtx 0 0 0)
  | PDTry => Some (go (if full then PDUnlock true else PDPush), ev OLoad cell_rcur 0 0 0)
  | PDPush => Some (a_set_thr (a_push s QNull) t {| p_pc := PDUnlock false; p_k := k |}, ev OStore cell_wcur 0 0 0)
  | PDUnlock f =>
    let s1 := a_set_wlock s false in
    Some (a_set_thr s1 t {| p_pc := if f then (if fixed then PDYield else PJoinCheck) else PDWake; p_k := k |},
          ev OMunlock cell_wmtx 0 0 0)
  | PDWake =>
    match a_cons s with
    | CBlocked => Some (a_set_thr (a_set_cons s CCheck) t {| p_pc := PJoinCheck; p_k := k |}, ev OFwake cell_wcur 0 1 0)
    | _ => Some (go PJoinCheck, ev OFwake cell_wcur 0 0 0)
    end
  | PDYield => Some (go PDWLock, ev OYield 0%nat 0 0 0)
  | PJoinCheck =>
    Some (go (if a_joinword s then PChanFree1 else PJoinWait), LPlain [(note_joincheck, b2z (a_joinword s))])
  | PJoinWait =>
    if a_joinword s then Some (go PJoinCheck, ev OFwait cell_join 0 0 0)
    else Some (go PJoinBlocked, ev OFwait cell_join 0 0 1)
  | PJoinBlocked => None
  | PChanFree1 => Some (a_set_thr (a_set_live s (pred (a_live s))) t {| p_pc := PChanFree2; p_k := k |}, LPlain [(note_free, 0)])
  | PChanFree2 => Some (a_set_thr (a_set_live s (pred (a_live s))) t {| p_pc := PDestroyed; p_k := k |}, LPlain [(note_free, 0)])
  | PDestroyed =>
    Some ({| a_queue := a_queue s; a_wlock := a_wlock s; a_cons := a_cons s; a_cur := a_cur s; a_out := a_out s;
             a_live := a_live s; a_remaining := a_remaining s; a_joinword := a_joinword s;
             a_accepted := a_accepted s; a_consumed := a_consumed s; a_dropped := a_dropped s;
             a_destroyed := true; a_thr := upd (a_thr s) t {| p_pc := PFin; p_k := k |} |},
          LPlain [(note_destroyed, 0)])
  | PFin => Some (go PEnd, LExit)
  | PEnd => None
  end.

(* thread 0 is the writer thread, threads 1..n the producers *)
Definition astep (fixed : bool) (A : ascen) (s : asys) (t : nat) (ch : nat) : option (asys * label) :=
  match t with
  | O => cstep A s
  | S _ => if Nat.ltb (as_n A) t then None else pstep fixed A s t
  end.
