(* C16 — async logger, global invariants that need a count or a sum over the producer threads:
   a_remaining = number of producers still logging; the NULL sentinel is the last thing ever
   queued (so destroy drains); allocation accounting (so nothing is leaked). *)
From MV Require Import C16.Model C16.ProofsSync C16.ProofsAsync.
Local Open Scope nat_scope.

(* ------------------------------------------------------------------ *)
(* sums over the producer threads 1..n                                 *)

Fixpoint tsum (f : nat -> nat) (n : nat) : nat :=
  match n with O => 0 | S m => f (S m) + tsum f m end.

Lemma tsum_ext f g n : (forall t, 1 <= t <= n -> f t = g t) -> tsum f n = tsum g n.
Proof.
  induction n as [|m IH]; intros H; simpl; [reflexivity|].
  rewrite (H (S m)) by lia. rewrite IH; [reflexivity|]. intros t Ht. apply H. lia.
Qed.

Lemma tsum_ge f n t : 1 <= t <= n -> f t <= tsum f n.
Proof.
  induction n as [|m IH]; intros H; [lia|]. simpl.
  destruct (Nat.eq_dec t (S m)) as [->|Hne]; [lia|]. assert (f t <= tsum f m) by (apply IH; lia). lia.
Qed.

Lemma tsum_zero f n : tsum f n = 0 -> forall t, 1 <= t <= n -> f t = 0.
Proof. intros H t Ht. pose proof (tsum_ge f n t Ht). lia. Qed.

Lemma tsum_all_zero f n : (forall t, 1 <= t <= n -> f t = 0) -> tsum f n = 0.
Proof.
  induction n as [|m IH]; intros H; simpl; [reflexivity|]. rewrite (H (S m)) by lia.
  rewrite IH; [reflexivity|]. intros t Ht. apply H. lia.
Qed.

Lemma tsum_const c n : tsum (fun _ => c) n = n * c.
Proof. induction n as [|m IH]; simpl; [reflexivity|]. rewrite IH. lia. Qed.

Lemma tsum_upd {X} (w : X -> nat) (thr : nat -> X) t x n : 1 <= t <= n ->
  tsum (fun u => w (upd thr t x u)) n + w (thr t) = tsum (fun u => w (thr u)) n + w x.
Proof.
  induction n as [|m IH]; intros H; [lia|]. simpl.
  destruct (Nat.eq_dec t (S m)) as [->|Hne].
  - rewrite upd_same.
    rewrite (tsum_ext (fun u => w (upd thr (S m) x u)) (fun u => w (thr u)) m).
    + lia.
    + intros u Hu. rewrite upd_other by lia. reflexivity.
  - rewrite (upd_other thr t (S m) x) by lia. assert (1 <= t <= m) as Ht by lia. specialize (IH Ht). lia.
Qed.

(* ------------------------------------------------------------------ *)
(* classification of program points                                    *)

Definition icall (p : ppc) : nat :=
  match p with
  | PCall | PMallocMsg | PMallocPay | PWLock | PTry | PPush | PUnlock _ | PWake | PFreePay | PFreeMsg
  | PDoneNote => 1
  | _ => 0
  end.
Definition in_destroy (p : ppc) : bool :=
  match p with
  | PDestroy | PDWLock | PDTry | PDPush | PDUnlock _ | PDWake | PDYield | PJoinCheck | PJoinWait
  | PJoinBlocked | PChanFree1 | PChanFree2 | PDestroyed => true
  | _ => false
  end.
(* the destroying thread has not yet queued the sentinel *)
Definition pre_push (p : ppc) : bool :=
  match p with PDestroy | PDWLock | PDTry | PDPush | PDUnlock true | PDYield => true | _ => false end.
(* tracked allocations a producer owns: its message (struct + payload) until the channel takes
   it or it is released; the destroying thread owns the channel's two blocks *)
Definition owned (p : ppc) : nat :=
  match p with
  | PMallocPay | PFreeMsg => 1
  | PWLock | PTry | PPush | PUnlock true | PFreePay => 2
  | PDestroy | PDWLock | PDTry | PDPush | PDUnlock _ | PDWake | PDYield | PJoinCheck | PJoinWait
  | PJoinBlocked | PChanFree1 => 2
  | PChanFree2 => 1
  | _ => 0
  end.
Definition cheld (c : cpc) : nat :=
  match c with CEmit1 _ | CYield _ | CEmit2 _ | CFreePay => 2 | CFreeMsg => 1 | _ => 0 end.
Definition csent (c : cpc) : bool :=
  match c with CExitNote | CWakeJoin | CFin | CEnd => true | _ => false end.
Definition is_null (x : qitem) : bool := match x with QNull => true | _ => false end.
Definition has_null (q : list qitem) : bool := existsb is_null q.
Fixpoint sent_last (q : list qitem) : Prop :=
  match q with
  | [] => True
  | QNull :: r => r = []
  | QMsg _ _ :: r => sent_last r
  end.
Definition sentb (s : asys) : bool := has_null (a_queue s) || csent (a_cons s).
(* the code as first found loses two blocks per refused message *)
Definition leak (fixed : bool) (s : asys) : nat := if fixed then 0 else 2 * length (a_dropped s).
Definition chan_base (s : asys) : nat := if Nat.eqb (a_remaining s) 0 then 0 else 2.

Definition pcs (s : asys) (u : nat) : ppc := p_pc (a_thr s u).

Lemma pre_push_in_destroy p : pre_push p = true -> in_destroy p = true.
Proof. destruct p as [| | | | | |f| | | | | | | | |f| | | | | | | | | |]; try discriminate; try reflexivity. Qed.

Lemma sent_last_push q x : sent_last q -> has_null q = false -> sent_last (q ++ [x]).
Proof.
  induction q as [|[t k|] r IH]; simpl; intros H Hn.
  - destruct x; simpl; auto.
  - apply IH; assumption.
  - discriminate.
Qed.
Lemma has_null_app q x : has_null (q ++ [x]) = has_null q || is_null x.
Proof. unfold has_null. rewrite existsb_app. simpl. rewrite orb_false_r. reflexivity. Qed.

Lemma p_next_class A k :
  icall (p_pc (p_next A k)) = 1 /\ in_destroy (p_pc (p_next A k)) = false /\
  pre_push (p_pc (p_next A k)) = false /\ owned (p_pc (p_next A k)) = 0.
Proof. unfold p_next. destruct (Nat.ltb (S k) (as_msgs A)); simpl; auto. Qed.

Lemma c_after_class A level from : cheld (c_after A level from) = 2 /\ csent (c_after A level from) = false.
Proof. unfold c_after. destruct (next_from (as_handlers A) from level); simpl; auto. Qed.

(* ------------------------------------------------------------------ *)

Record BInv (fixed : bool) (A : ascen) (s : asys) : Prop := {
  b_rem : a_remaining s = tsum (fun u => icall (pcs s u)) (as_n A);
  b_dest0 : forall t, in_destroy (pcs s t) = true -> a_remaining s = 0;
  b_uniq : forall t u, in_destroy (pcs s t) = true -> in_destroy (pcs s u) = true -> t = u;
  b_done : a_destroyed s = true -> a_remaining s = 0 /\ forall t, in_destroy (pcs s t) = false;
  b_last : sent_last (a_queue s);
  b_sent : sentb s = true -> a_remaining s = 0 /\ forall t, pre_push (pcs s t) = false;
  b_empty : csent (a_cons s) = true -> a_queue s = [];
  b_acct : a_live s = chan_base s + 2 * length (msgs_of (a_queue s)) + cheld (a_cons s)
                      + tsum (fun u => owned (pcs s u)) (as_n A) + leak fixed s;
}.

Lemma ainit_binv fixed A : 1 <= as_n A -> BInv fixed A (ainit A).
Proof.
  intros Hn.
  assert (Hpc : forall u, pcs (ainit A) u = if Nat.eqb (as_msgs A) 0 then PDoneNote else PCall) by reflexivity.
  constructor; simpl; try discriminate; auto.
  - rewrite (tsum_ext _ (fun _ => 1)); [rewrite tsum_const; lia|].
    intros t _. rewrite Hpc. destruct (Nat.eqb (as_msgs A) 0); reflexivity.
  - intros t. rewrite Hpc. destruct (Nat.eqb (as_msgs A) 0); discriminate.
  - intros t u. rewrite Hpc. destruct (Nat.eqb (as_msgs A) 0); discriminate.
  - unfold chan_base, leak. simpl.
    rewrite (tsum_all_zero (fun u => owned (pcs (ainit A) u))).
    + destruct (Nat.eqb_spec (as_n A) 0); [lia|]. destruct fixed; reflexivity.
    + intros t _. rewrite Hpc. destruct (Nat.eqb (as_msgs A) 0); reflexivity.
Qed.

(* a step after which every thread is classified as before and queue / counters / flags are
   unchanged, with the books balanced *)
Lemma binv_frame fixed A s s' :
  BInv fixed A s ->
  (forall u, icall (pcs s' u) = icall (pcs s u)) ->
  (forall u, in_destroy (pcs s' u) = in_destroy (pcs s u)) ->
  (forall u, pre_push (pcs s' u) = true -> pre_push (pcs s u) = true) ->
  a_queue s' = a_queue s -> a_remaining s' = a_remaining s -> a_destroyed s' = a_destroyed s ->
  csent (a_cons s') = csent (a_cons s) ->
  a_live s' + cheld (a_cons s) + tsum (fun u => owned (pcs s u)) (as_n A) + leak fixed s =
  a_live s + cheld (a_cons s') + tsum (fun u => owned (pcs s' u)) (as_n A) + leak fixed s' ->
  BInv fixed A s'.
Proof.
  intros [R D U Dn L S E Ac] Hi Hd Hp Hq Hr Hde Hcs Hac.
  constructor.
  - rewrite Hr, R. apply tsum_ext. intros u _. symmetry. apply Hi.
  - intros t Ht. rewrite Hr. apply (D t). rewrite <- Hd. exact Ht.
  - intros t u Ht Hu. apply U; rewrite <- Hd; assumption.
  - intros H. rewrite Hde in H. destruct (Dn H) as [H1 H2]. split; [rewrite Hr; exact H1|].
    intros t. rewrite Hd. apply H2.
  - rewrite Hq. exact L.
  - intros H. unfold sentb in *. rewrite Hq, Hcs in H. destruct (S H) as [H1 H2]. split; [rewrite Hr; exact H1|].
    intros t. destruct (pre_push (pcs s' t)) eqn:Ep; [|reflexivity]. apply Hp in Ep. rewrite H2 in Ep. discriminate.
  - intros H. rewrite Hcs in H. rewrite Hq. apply E. exact H.
  - unfold chan_base in *. rewrite Hq, Hr. lia.
Qed.

(* producer t moves to x'; the move does not change how t is classified *)
Lemma binv_move fixed A s s' t x' :
  BInv fixed A s -> 1 <= t <= as_n A ->
  a_thr s' = upd (a_thr s) t x' ->
  icall (p_pc x') = icall (pcs s t) ->
  in_destroy (p_pc x') = in_destroy (pcs s t) ->
  (pre_push (p_pc x') = true -> pre_push (pcs s t) = true) ->
  a_queue s' = a_queue s -> a_remaining s' = a_remaining s -> a_destroyed s' = a_destroyed s ->
  csent (a_cons s') = csent (a_cons s) ->
  (owned (pcs s t) <= a_live s ->
   a_live s' + cheld (a_cons s) + owned (pcs s t) + leak fixed s =
   a_live s + cheld (a_cons s') + owned (p_pc x') + leak fixed s') ->
  BInv fixed A s'.
Proof.
  intros I Ht Hthr Hi Hd Hp Hq Hr Hde Hcs Hac.
  assert (Hpcs : forall u, pcs s' u = if Nat.eqb u t then p_pc x' else pcs s u).
  { intros u. unfold pcs. rewrite Hthr. unfold upd. destruct (Nat.eqb u t); reflexivity. }
  apply (binv_frame fixed A s s' I); auto.
  - intros u. rewrite Hpcs. destruct (Nat.eqb_spec u t); subst; auto.
  - intros u. rewrite Hpcs. destruct (Nat.eqb_spec u t); subst; auto.
  - intros u. rewrite Hpcs. destruct (Nat.eqb_spec u t); subst; auto.
  - pose proof (tsum_upd (fun x => owned (p_pc x)) (a_thr s) t x' (as_n A) Ht) as Hs.
    assert (E1 : tsum (fun u => owned (pcs s' u)) (as_n A) = tsum (fun u => owned (p_pc (upd (a_thr s) t x' u))) (as_n A)).
    { apply tsum_ext. intros u _. unfold pcs. rewrite Hthr. reflexivity. }
    assert (Hle : owned (pcs s t) <= a_live s).
    { destruct I as [_ _ _ _ _ _ _ Ac]. pose proof (tsum_ge (fun u => owned (pcs s u)) (as_n A) t Ht). simpl in H. lia. }
    specialize (Hac Hle). rewrite E1. unfold pcs in *. simpl in *. lia.
Qed.

(* the writer thread moves; producers untouched *)
Lemma binv_cons fixed A s s' :
  BInv fixed A s -> a_thr s' = a_thr s ->
  a_queue s' = a_queue s -> a_remaining s' = a_remaining s -> a_destroyed s' = a_destroyed s ->
  csent (a_cons s') = csent (a_cons s) -> a_dropped s' = a_dropped s ->
  (cheld (a_cons s) <= a_live s -> a_live s' + cheld (a_cons s) = a_live s + cheld (a_cons s')) ->
  BInv fixed A s'.
Proof.
  intros I Hthr Hq Hr Hde Hcs Hdr Hac.
  assert (Hpcs : forall u, pcs s' u = pcs s u) by (intros u; unfold pcs; rewrite Hthr; reflexivity).
  apply (binv_frame fixed A s s' I); auto.
  - intros u. rewrite Hpcs. reflexivity.
  - intros u. rewrite Hpcs. reflexivity.
  - intros u. rewrite Hpcs. auto.
  - assert (Hle : cheld (a_cons s) <= a_live s) by (destruct I as [_ _ _ _ _ _ _ Ac]; lia).
    specialize (Hac Hle).
    rewrite (tsum_ext (fun u => owned (pcs s' u)) (fun u => owned (pcs s u))) by (intros u _; rewrite Hpcs; reflexivity).
    unfold leak. rewrite Hdr. lia.
Qed.

Ltac inv_some H := inversion H; subst; clear H.

Lemma wake_joiners_pc thr u :
  icall (p_pc (wake_joiners thr u)) = icall (p_pc (thr u)) /\
  in_destroy (p_pc (wake_joiners thr u)) = in_destroy (p_pc (thr u)) /\
  pre_push (p_pc (wake_joiners thr u)) = pre_push (p_pc (thr u)) /\
  owned (p_pc (wake_joiners thr u)) = owned (p_pc (thr u)).
Proof. unfold wake_joiners. destruct (p_pc (thr u)) eqn:E; simpl; rewrite ?E; auto. Qed.

Lemma cstep_binv fixed A s s' l : BInv fixed A s -> cstep A s = Some (s', l) -> BInv fixed A s'.
Proof.
  intros I Hs. unfold cstep in Hs. destruct (a_cur s) as [ct ck].
  destruct (a_cons s) eqn:Ec; try discriminate.
  - (* CCheck *) inv_some Hs. apply (binv_cons fixed A s); auto; simpl; rewrite ?Ec; try reflexivity.
    + destruct (a_queue s); reflexivity.
    + destruct (a_queue s); simpl; lia.
  - (* CWait *) destruct (a_queue s) eqn:Eq; inv_some Hs; apply (binv_cons fixed A s); auto; simpl; rewrite ?Ec, ?Eq; auto.
  - (* CPop *)
    destruct (a_queue s) as [|[t k|] q] eqn:Eq; try discriminate; inv_some Hs.
    + (* a message leaves the queue: the writer thread now owns its two blocks *)
      destruct (c_after_class A (as_level A t k) 0) as [Hh Hc].
      pose proof I as [R D U Dn L S E Ac].
      constructor; simpl; auto.
      * rewrite Eq in L. exact L.
      * intros H. apply S. unfold sentb in *. simpl in H. rewrite Hc in H. rewrite Eq, Ec. simpl. exact H.
      * rewrite Hc. discriminate.
      * unfold chan_base, leak, pcs in *. simpl in *. rewrite Eq, Ec in Ac. simpl in Ac. rewrite Hh. lia.
    + (* the sentinel: nothing is queued behind it *)
      pose proof I as [R D U Dn L S E Ac]. rewrite Eq in L. simpl in L. subst q.
      constructor; simpl; auto.
      * intros _. apply S. unfold sentb. rewrite Eq. reflexivity.
      * unfold chan_base, leak, pcs in *. simpl in *. rewrite Eq, Ec in Ac. simpl in Ac. lia.
  - (* CEmit1 *) inv_some Hs. apply (binv_cons fixed A s); auto; simpl; rewrite ?Ec; auto.
  - (* CYield *) inv_some Hs. apply (binv_cons fixed A s); auto; simpl; rewrite ?Ec; auto.
  - (* CEmit2 *) inv_some Hs. destruct (c_after_class A (as_level A ct ck) (S i)) as [Hh Hc].
    apply (binv_cons fixed A s); auto; simpl; rewrite ?Ec; auto; try (simpl; rewrite ?Hh; intros; lia).
  - (* CFreePay *) inv_some Hs. apply (binv_cons fixed A s); auto; simpl; rewrite ?Ec; auto; try (simpl; intros; lia).
  - (* CFreeMsg *) inv_some Hs. apply (binv_cons fixed A s); auto; simpl; rewrite ?Ec; auto; try (simpl; intros; lia).
  - (* CExitNote *) inv_some Hs. apply (binv_cons fixed A s); auto; simpl; rewrite ?Ec; auto.
  - (* CWakeJoin: the joiner becomes runnable; nobody changes class *)
    inv_some Hs. match goal with |- BInv _ _ ?st => set (s1 := st) end.
    assert (Hw : forall u, pcs s1 u = p_pc (wake_joiners (a_thr s) u)) by reflexivity.
    assert (E1 : tsum (fun u => owned (pcs s1 u)) (as_n A) = tsum (fun u => owned (pcs s u)) (as_n A)).
    { apply tsum_ext. intros u _. rewrite Hw. apply wake_joiners_pc. }
    apply (binv_frame fixed A s s1); auto.
    + intros u. rewrite Hw. apply wake_joiners_pc.
    + intros u. rewrite Hw. apply wake_joiners_pc.
    + intros u. rewrite Hw. destruct (wake_joiners_pc (a_thr s) u) as (_ & _ & H & _). unfold pcs. rewrite H. auto.
    + simpl. rewrite Ec. reflexivity.
    + rewrite E1. unfold leak, s1. simpl. rewrite Ec. simpl. lia.
  - (* CFin *) inv_some Hs. apply (binv_cons fixed A s); auto; simpl; rewrite ?Ec; auto.
Qed.

(* closes the obligations of binv_move for a producer step out of program point Epc *)
Ltac bm I HT T Epc :=
  eapply (binv_move _ _ _ _ T); [exact I | exact HT | reflexivity | ..];
  unfold pcs; rewrite ?Epc; simpl;
  try (match goal with |- context [p_next ?A ?k] =>
         let H := fresh in pose proof (p_next_class A k) as H; destruct H as (?H1 & ?H2 & ?H3 & ?H4);
         rewrite ?H1, ?H2, ?H3, ?H4 end);
  try reflexivity; try discriminate; auto;
  try (unfold leak; simpl; rewrite ?app_length; simpl; intros;
       repeat match goal with |- context [if ?b then _ else _] => is_var b; destruct b end; simpl; lia).

Lemma pstep_binv A s t s' l :
  BInv true A s -> 1 <= t <= as_n A -> pstep true A s t = Some (s', l) -> BInv true A s'.
Proof.
  intros I HT Hs. unfold pstep in Hs.
  assert (Hrem1 : icall (pcs s t) = 1 -> 1 <= a_remaining s).
  { intros H. destruct I as [R _ _ _ _ _ _ _]. rewrite R.
    pose proof (tsum_ge (fun u => icall (pcs s u)) (as_n A) t HT). simpl in H0. lia. }
  destruct (p_pc (a_thr s t)) as [| | | | | |f| | | | | | | | |f| | | | | | | | | |] eqn:Epc; try discriminate.
  - (* PCall *) destruct (Z.gtb _ _); inv_some Hs; bm I HT t Epc.
  - inv_some Hs; bm I HT t Epc.
  - inv_some Hs; bm I HT t Epc.
  - destruct (a_wlock s); inv_some Hs; bm I HT t Epc.
  - destruct (Nat.leb (as_usable A) (length (a_queue s))); inv_some Hs; bm I HT t Epc.
  - (* PPush: the channel takes the message *)
    inv_some Hs. pose proof I as [R D U Dn L S E Ac].
    assert (Hr1 : 1 <= a_remaining s) by (apply Hrem1; unfold pcs; rewrite Epc; reflexivity).
    assert (Hns : sentb s = false).
    { destruct (sentb s) eqn:Es; [|reflexivity]. destruct (S eq_refl) as [H0 _]. lia. }
    unfold sentb in Hns. apply orb_false_elim in Hns. destruct Hns as [Hn Hc].
    set (x' := {| p_pc := PUnlock false; p_k := p_k (a_thr s t) |}).
    assert (Hpcs : forall u, pcs (a_set_thr (a_push s (QMsg t (p_k (a_thr s t)))) t x') u =
                             if Nat.eqb u t then PUnlock false else pcs s u).
    { intros u. unfold pcs. simpl. unfold upd. destruct (Nat.eqb u t); reflexivity. }
    constructor.
    + simpl. rewrite R. apply tsum_ext. intros u _. rewrite Hpcs. destruct (Nat.eqb_spec u t); subst; [|reflexivity].
      unfold pcs. rewrite Epc. reflexivity.
    + intros u. rewrite Hpcs. destruct (Nat.eqb_spec u t); subst; [discriminate|]. apply D.
    + intros u v. rewrite !Hpcs. destruct (Nat.eqb_spec u t), (Nat.eqb_spec v t); subst; try discriminate. apply U.
    + simpl. intros H. destruct (Dn H) as [H0 _]. lia.
    + simpl. apply sent_last_push; assumption.
    + unfold sentb. simpl. rewrite has_null_app, Hn, Hc. discriminate.
    + simpl. rewrite Hc. discriminate.
    + pose proof (tsum_upd (fun x => owned (p_pc x)) (a_thr s) t x' (as_n A) HT) as Hs.
      unfold chan_base, leak in *. simpl. rewrite msgs_of_app, app_length. simpl.
      rewrite (tsum_ext (fun u => owned (pcs (a_set_thr (a_push s (QMsg t (p_k (a_thr s t)))) t x') u))
                        (fun u => owned (p_pc (upd (a_thr s) t x' u)))) by (intros u _; reflexivity).
      unfold pcs in *. rewrite Epc in Hs. unfold x' in *. simpl in Hs. simpl in *; lia.
  - (* PUnlock *)
    destruct f; inv_some Hs; bm I HT t Epc.
  - (* PWake *)
    destruct (a_cons s) eqn:Ec; inv_some Hs; bm I HT t Epc; rewrite ?Ec; simpl; auto.
  - inv_some Hs; bm I HT t Epc.
  - inv_some Hs; bm I HT t Epc.
  - (* PDoneNote: one producer fewer; the last one becomes the destroying thread and takes
       over the channel's blocks *)
    inv_some Hs. pose proof I as [R D U Dn L S E Ac].
    assert (Hr1 : 1 <= a_remaining s) by (apply Hrem1; unfold pcs; rewrite Epc; reflexivity).
    set (r := pred (a_remaining s)) in *.
    set (x' := {| p_pc := if Nat.eqb r 0 then PDestroy else PFin; p_k := p_k (a_thr s t) |}).
    assert (Hnod : forall u, in_destroy (pcs s u) = false).
    { intros u. destruct (in_destroy (pcs s u)) eqn:Eu; [|reflexivity]. apply D in Eu. lia. }
    assert (Hns : sentb s = false).
    { destruct (sentb s) eqn:Es; [|reflexivity]. destruct (S eq_refl) as [H0 _]. lia. }
    match goal with |- BInv _ _ ?st => set (s1 := st) end.
    assert (Hpcs : forall u, pcs s1 u = if Nat.eqb u t then p_pc x' else pcs s u).
    { intros u. unfold pcs, s1. simpl. unfold upd. destruct (Nat.eqb u t); reflexivity. }
    pose proof (tsum_upd (fun x => icall (p_pc x)) (a_thr s) t x' (as_n A) HT) as Hsi.
    pose proof (tsum_upd (fun x => owned (p_pc x)) (a_thr s) t x' (as_n A) HT) as Hso.
    cbv beta in Hsi, Hso. rewrite Epc in Hsi, Hso. simpl in Hsi, Hso.
    constructor.
    + unfold s1 at 1. simpl.
      rewrite (tsum_ext (fun u => icall (pcs s1 u)) (fun u => icall (p_pc (upd (a_thr s) t x' u)))) by (intros u _; reflexivity).
      unfold pcs in R. assert (icall (if Nat.eqb r 0 then PDestroy else PFin) = 0) by (destruct (Nat.eqb r 0); reflexivity).
      unfold r in *. lia.
    + intros u. rewrite Hpcs. unfold s1 at 1. simpl. destruct (Nat.eqb_spec u t); subst.
      * simpl. destruct (Nat.eqb_spec r 0); [auto|discriminate].
      * rewrite Hnod. discriminate.
    + intros u v. rewrite !Hpcs. destruct (Nat.eqb_spec u t), (Nat.eqb_spec v t); subst; auto; rewrite ?Hnod; discriminate.
    + unfold s1 at 1. simpl. intros H. destruct (Dn H) as [H0 _]. lia.
    + exact L.
    + unfold sentb, s1. simpl. unfold sentb in Hns. rewrite Hns. discriminate.
    + exact E.
    + unfold s1 at 1 2 3 4. simpl.
      rewrite (tsum_ext (fun u => owned (pcs s1 u)) (fun u => owned (p_pc (upd (a_thr s) t x' u)))) by (intros u _; reflexivity).
      unfold chan_base, leak, pcs in *. simpl.
      assert (Nat.eqb (a_remaining s) 0 = false) as Er by (apply Nat.eqb_neq; lia). rewrite Er in Ac.
      fold r. destruct (Nat.eqb r 0); simpl in *; lia.
  - inv_some Hs; bm I HT t Epc.
  - destruct (a_wlock s); inv_some Hs; bm I HT t Epc.
  - destruct (Nat.leb (as_usable A) (length (a_queue s))); inv_some Hs; bm I HT t Epc.
  - (* PDPush: the sentinel is queued, after everything else *)
    inv_some Hs. pose proof I as [R D U Dn L S E Ac].
    assert (Hd : in_destroy (pcs s t) = true) by (unfold pcs; rewrite Epc; reflexivity).
    assert (Hns : sentb s = false).
    { destruct (sentb s) eqn:Es; [|reflexivity]. destruct (S eq_refl) as [_ H0]. specialize (H0 t).
      unfold pcs in H0. rewrite Epc in H0. discriminate. }
    unfold sentb in Hns. apply orb_false_elim in Hns. destruct Hns as [Hn Hc].
    set (x' := {| p_pc := PDUnlock false; p_k := p_k (a_thr s t) |}).
    match goal with |- BInv _ _ ?st => set (s1 := st) end.
    assert (Hpcs : forall u, pcs s1 u = if Nat.eqb u t then PDUnlock false else pcs s u).
    { intros u. unfold pcs, s1. simpl. unfold upd. destruct (Nat.eqb u t); reflexivity. }
    constructor.
    + unfold s1 at 1. simpl. rewrite R. apply tsum_ext. intros u _. rewrite Hpcs.
      destruct (Nat.eqb_spec u t); subst; [|reflexivity]. unfold pcs. rewrite Epc. reflexivity.
    + intros u _. unfold s1. simpl. apply (D t Hd).
    + intros u v Hu Hv. rewrite Hpcs in Hu, Hv.
      assert (Hu' : in_destroy (pcs s u) = true) by (destruct (Nat.eqb_spec u t); subst; [exact Hd|exact Hu]).
      assert (Hv' : in_destroy (pcs s v) = true) by (destruct (Nat.eqb_spec v t); subst; [exact Hd|exact Hv]).
      apply U; assumption.
    + unfold s1 at 1. simpl. intros H. destruct (Dn H) as [_ H0]. rewrite H0 in Hd. discriminate.
    + unfold s1. simpl. apply sent_last_push; assumption.
    + intros _. split; [unfold s1; simpl; apply (D t Hd)|].
      intros u. rewrite Hpcs. destruct (Nat.eqb_spec u t); subst; [reflexivity|].
      destruct (pre_push (pcs s u)) eqn:Eu; [|reflexivity].
      exfalso. apply n. apply U; [apply pre_push_in_destroy; exact Eu|exact Hd].
    + unfold s1. simpl. rewrite Hc. discriminate.
    + pose proof (tsum_upd (fun x => owned (p_pc x)) (a_thr s) t x' (as_n A) HT) as Hso.
      cbv beta in Hso. rewrite Epc in Hso. simpl in Hso.
      unfold s1 at 1 2 3 4. simpl. rewrite msgs_of_app. simpl. rewrite app_nil_r.
      rewrite (tsum_ext (fun u => owned (pcs s1 u)) (fun u => owned (p_pc (upd (a_thr s) t x' u)))) by (intros u _; reflexivity).
      unfold chan_base, leak, pcs in *. simpl in *; lia.
  - (* PDUnlock *) destruct f; inv_some Hs; bm I HT t Epc.
  - (* PDWake *) destruct (a_cons s) eqn:Ec; inv_some Hs; bm I HT t Epc; rewrite ?Ec; simpl; auto.
  - inv_some Hs; bm I HT t Epc.
  - destruct (a_joinword s); inv_some Hs; bm I HT t Epc.
  - destruct (a_joinword s); inv_some Hs; bm I HT t Epc.
  - inv_some Hs; bm I HT t Epc.
  - inv_some Hs; bm I HT t Epc.
  - (* PDestroyed: destroy returns *)
    inv_some Hs. pose proof I as [R D U Dn L S E Ac].
    assert (Hd : in_destroy (pcs s t) = true) by (unfold pcs; rewrite Epc; reflexivity).
    set (x' := {| p_pc := PFin; p_k := p_k (a_thr s t) |}).
    match goal with |- BInv _ _ ?st => set (s1 := st) end.
    assert (Hpcs : forall u, pcs s1 u = if Nat.eqb u t then PFin else pcs s u).
    { intros u. unfold pcs, s1. simpl. unfold upd. destruct (Nat.eqb u t); reflexivity. }
    assert (Hoth : forall u, u <> t -> in_destroy (pcs s u) = false).
    { intros u Hne. destruct (in_destroy (pcs s u)) eqn:Eu; [|reflexivity]. exfalso. apply Hne. apply U; assumption. }
    constructor.
    + unfold s1 at 1. simpl. rewrite R. apply tsum_ext. intros u _. rewrite Hpcs.
      destruct (Nat.eqb_spec u t); subst; [|reflexivity]. unfold pcs. rewrite Epc. reflexivity.
    + intros u _. unfold s1. simpl. apply (D t Hd).
    + intros u v. rewrite !Hpcs. destruct (Nat.eqb_spec u t), (Nat.eqb_spec v t); subst; try discriminate. apply U.
    + intros _. split; [unfold s1; simpl; apply (D t Hd)|].
      intros u. rewrite Hpcs. destruct (Nat.eqb_spec u t); subst; [reflexivity|]. apply Hoth. assumption.
    + exact L.
    + unfold sentb, s1. simpl. intros H. destruct (S H) as [H1 H2]. split; [exact H1|].
      intros u. fold s1. rewrite Hpcs. destruct (Nat.eqb_spec u t); subst; [reflexivity|apply H2].
    + exact E.
    + pose proof (tsum_upd (fun x => owned (p_pc x)) (a_thr s) t x' (as_n A) HT) as Hso.
      cbv beta in Hso. rewrite Epc in Hso. simpl in Hso.
      unfold s1 at 1 2 3 4. simpl.
      rewrite (tsum_ext (fun u => owned (pcs s1 u)) (fun u => owned (p_pc (upd (a_thr s) t x' u)))) by (intros u _; reflexivity).
      unfold chan_base, leak, pcs in *. simpl in *; lia.
  - inv_some Hs; bm I HT t Epc.
Qed.

Lemma astep_binv A s t ch s' l : BInv true A s -> astep true A s t ch = Some (s', l) -> BInv true A s'.
Proof.
  intros I Hs. unfold astep in Hs. destruct t as [|t].
  - eapply cstep_binv; eauto.
  - destruct (Nat.ltb_spec (as_n A) (S t)); [discriminate|]. eapply pstep_binv; eauto. lia.
Qed.

Theorem async_global_invariant A sched : 1 <= as_n A ->
  BInv true A (exec asys (astep true A) (ainit A) sched).
Proof. intros Hn. apply inv_exec; [|apply ainit_binv; exact Hn]. intros; eapply astep_binv; eauto. Qed.

(* ------------------------------------------------------------------ *)
(* consequences for the repaired code                                  *)

Lemma cexited_csent c : cexited c = true -> csent c = true /\ cheld c = 0.
Proof. destruct c; simpl; try discriminate; auto. Qed.

Lemma owned_idle p : icall p = 0 -> in_destroy p = false -> owned p = 0.
Proof. destruct p as [| | | | | |f| | | | | | | | |f| | | | | | | | | |]; simpl; try discriminate; reflexivity. Qed.

(* destroy returns only after everything the channel accepted has been written *)
Theorem destroy_drains A sched : 1 <= as_n A ->
  let s := exec asys (astep true A) (ainit A) sched in
  a_destroyed s = true ->
  a_queue s = [] /\ a_consumed s = a_accepted s /\ cexited (a_cons s) = true /\
  forall i, whole (a_out s i) /\ lines_of (a_out s i) = filter (macc A i) (a_accepted s).
Proof.
  intros Hn s Hd.
  destruct (destroyed_all_written true A sched Hd) as (Hex & Hf & Hw). fold s in Hex, Hf, Hw.
  destruct (async_global_invariant A sched Hn) as [_ _ _ _ _ _ E _]. fold s in E.
  destruct (cexited_csent _ Hex) as [Hcs _].
  pose proof (E Hcs) as Hq. rewrite Hq in Hf. simpl in Hf. rewrite app_nil_r in Hf.
  split; [exact Hq|]. split; [symmetry; exact Hf|]. split; [exact Hex|].
  intros i. rewrite Hf. apply Hw.
Qed.

(* allocation accounting at every moment, and nothing outstanding once destroy has returned *)
Theorem no_leak A sched : 1 <= as_n A ->
  let s := exec asys (astep true A) (ainit A) sched in
  a_live s = chan_base s + 2 * length (msgs_of (a_queue s)) + cheld (a_cons s)
             + tsum (fun u => owned (pcs s u)) (as_n A) /\
  (a_destroyed s = true -> a_live s = 0).
Proof.
  intros Hn s. pose proof (async_global_invariant A sched Hn) as I. fold s in I.
  pose proof I as [R D U Dn L S E Ac]. split; [unfold leak in Ac; lia|].
  intros Hd. destruct (Dn Hd) as [Hr Hnd].
  destruct (destroy_drains A sched Hn Hd) as (Hq & _ & Hex & _). fold s in Hq, Hex.
  destruct (cexited_csent _ Hex) as [_ Hch].
  assert (Hz : tsum (fun u => owned (pcs s u)) (as_n A) = 0).
  { apply tsum_all_zero. intros t Ht. apply owned_idle; [|apply Hnd].
    rewrite Hr in R. symmetry in R. apply (tsum_zero _ _ R t Ht). }
  unfold chan_base, leak in Ac. rewrite Hr, Hq, Hch, Hz in Ac. simpl in Ac. exact Ac.
Qed.

(* ------------------------------------------------------------------ *)
(* no lost wake-up of the writer thread                                *)

Definition pending_wake (p : ppc) : bool :=
  match p with PUnlock false | PWake | PDUnlock false | PDWake => true | _ => false end.

Definition WInv (s : asys) : Prop :=
  a_cons s = CBlocked -> a_queue s <> [] -> exists t, pending_wake (pcs s t) = true.

Lemma winv_move s s' t x' :
  WInv s -> a_thr s' = upd (a_thr s) t x' -> a_cons s' = a_cons s -> a_queue s' = a_queue s ->
  (pending_wake (pcs s t) = true -> pending_wake (p_pc x') = true) -> WInv s'.
Proof.
  intros W Ht Hc Hq Hp Hb Hne. rewrite Hc in Hb. rewrite Hq in Hne. destruct (W Hb Hne) as [u Hu].
  destruct (Nat.eq_dec u t) as [->|Hn].
  - exists t. unfold pcs. rewrite Ht, upd_same. apply Hp. exact Hu.
  - exists u. unfold pcs. rewrite Ht, upd_other by assumption. exact Hu.
Qed.

Lemma winv_awake s' : a_cons s' <> CBlocked -> WInv s'.
Proof. intros H Hb. contradiction. Qed.

Lemma astep_winv fixed A s t ch s' l : WInv s -> astep fixed A s t ch = Some (s', l) -> WInv s'.
Proof.
  intros W Hs. unfold astep in Hs. destruct t as [|t].
  - unfold cstep in Hs. destruct (a_cur s) as [ct ck].
    destruct (a_cons s) eqn:Ec; try discriminate;
      try (destruct (a_queue s) as [|[tt kk|] q] eqn:Eq; try discriminate); inv_some Hs;
      try (apply winv_awake; simpl; try discriminate;
           match goal with |- c_after ?A ?l ?f <> _ => unfold c_after; destruct (next_from _ _ _); discriminate end).
    (* CWait with an empty queue: goes to sleep, nothing to take *)
    intros _ Hne. simpl in Hne. rewrite Eq in Hne. contradiction.
  - destruct (Nat.ltb (as_n A) (S t)); [discriminate|]. unfold pstep in Hs.
    set (T := S t) in *. clearbody T.
    destruct (p_pc (a_thr s T)) as [| | | | | |f| | | | | | | | |f| | | | | | | | | |] eqn:Epc; try discriminate;
      try (solve [ repeat match type of Hs with context [if ?b then _ else _] => destruct b end;
                   inv_some Hs; (eapply (winv_move s _ T); [exact W | reflexivity | reflexivity | reflexivity |]);
                   unfold pcs; rewrite Epc; simpl; auto; discriminate ]).
    + (* PPush: the pusher owes the wake-up *)
      inv_some Hs. intros _ _. exists T. unfold pcs. simpl. rewrite upd_same. reflexivity.
    + (* PWake *)
      destruct (a_cons s) eqn:Ec; inv_some Hs;
        try (apply winv_awake; simpl; rewrite ?Ec; discriminate).
    + (* PDPush *)
      inv_some Hs. intros _ _. exists T. unfold pcs. simpl. rewrite upd_same. reflexivity.
    + (* PDWake *)
      destruct (a_cons s) eqn:Ec; inv_some Hs;
        try (apply winv_awake; simpl; rewrite ?Ec; discriminate).
Qed.

Theorem async_no_lost_wakeup fixed A sched : WInv (exec asys (astep fixed A) (ainit A) sched).
Proof.
  apply inv_exec; [intros; eapply astep_winv; eauto|]. intros H. discriminate.
Qed.

(* ------------------------------------------------------------------ *)
(* known finding: a channel that can hold nothing                      *)

Definition in_known_class (A : ascen) : bool := Nat.eqb (as_usable A) 0.

(* "destroy can return": some schedule ends with destroy returned *)
Definition destroy_can_return (A : ascen) : Prop :=
  exists sched, a_destroyed (exec asys (astep true A) (ainit A) sched) = true.

Definition cidle (c : cpc) : bool := match c with CCheck | CWait | CBlocked => true | _ => false end.
Definition zbad (p : ppc) : bool :=
  match p with PPush | PDPush | PChanFree1 | PChanFree2 | PDestroyed => true | _ => false end.

Record ZInv (s : asys) : Prop := {
  z_queue : a_queue s = [];
  z_word : a_joinword s = false;
  z_destroyed : a_destroyed s = false;
  z_cons : cidle (a_cons s) = true;
  z_thr : forall t, zbad (pcs s t) = false;
}.

Lemma zinv_thr s t x' : (forall u, zbad (pcs s u) = false) -> zbad (p_pc x') = false ->
  forall u, zbad (p_pc (upd (a_thr s) t x' u)) = false.
Proof. intros H Hx u. unfold upd. destruct (Nat.eqb u t); [exact Hx|apply H]. Qed.

Lemma astep_zinv A s t ch s' l : as_usable A = 0 -> ZInv s -> astep true A s t ch = Some (s', l) -> ZInv s'.
Proof.
  intros Hu [Zq Zw Zd Zc Zt] Hs. unfold astep in Hs. destruct t as [|t].
  - unfold cstep in Hs. destruct (a_cur s) as [ct ck]. rewrite Zq in Hs.
    destruct (a_cons s) eqn:Ec; try discriminate; inv_some Hs; constructor; simpl; auto.
  - destruct (Nat.ltb (as_n A) (S t)); [discriminate|]. unfold pstep in Hs.
    set (T := S t) in *. clearbody T. pose proof (Zt T) as ZT. unfold pcs in ZT.
    rewrite Zq, Zw, Hu in Hs. simpl in Hs.
    destruct (p_pc (a_thr s T)) as [| | | | | |f| | | | | | | | |f| | | | | | | | | |] eqn:Epc; try discriminate;
      repeat match type of Hs with context [if ?b then _ else _] => destruct b end;
      repeat match type of Hs with context [match a_cons s with _ => _ end] => destruct (a_cons s) eqn:Ec end;
      inv_some Hs; constructor; simpl; auto; try (rewrite Ec; exact Zc);
      try (apply zinv_thr; [exact Zt|]; simpl; try reflexivity; unfold p_next; destruct (Nat.ltb _ _); reflexivity).
Qed.

Theorem unusable_never_returns A sched : in_known_class A = true ->
  a_destroyed (exec asys (astep true A) (ainit A) sched) = false.
Proof.
  intros Hc. apply Nat.eqb_eq in Hc.
  assert (Z : ZInv (exec asys (astep true A) (ainit A) sched)).
  { apply inv_exec; [intros; eapply astep_zinv; eauto|].
    constructor; simpl; auto. intros t. unfold pcs. simpl. destruct (Nat.eqb (as_msgs A) 0); reflexivity. }
  apply Z.
Qed.

(* outside the class: whenever the sentinel is about to be refused there are messages for the
   writer thread to take, the writer thread has not exited, and it is not asleep without a
   wake-up on its way *)
Theorem refusal_has_work A sched t : in_known_class A = false -> 1 <= as_n A ->
  let s := exec asys (astep true A) (ainit A) sched in
  pcs s t = PDTry -> as_usable A <= length (a_queue s) ->
  a_queue s <> [] /\ csent (a_cons s) = false /\
  (a_cons s = CBlocked -> exists u, pending_wake (pcs s u) = true).
Proof.
  intros Hc Hn s Hpc Hfull. apply Nat.eqb_neq in Hc.
  assert (Hne : a_queue s <> []) by (intros E; rewrite E in Hfull; simpl in Hfull; lia).
  split; [exact Hne|]. split.
  - destruct (async_global_invariant A sched Hn) as [_ _ _ _ _ _ E _]. fold s in E.
    destruct (csent (a_cons s)) eqn:Ecs; [|reflexivity]. exfalso. apply Hne. apply E. reflexivity.
  - intros Hb. apply (async_no_lost_wakeup true A sched Hb Hne).
Qed.

(* witness: capacity 2 (usable 0), one producer, one call *)
Definition ex_unusable : ascen :=
  {| as_n := 1; as_msgs := 1; as_level := fun _ _ => 512%Z;
     as_handlers := [{| h_kind := HCap; h_level := 0%Z; h_fmt := 0 |}]; as_lowest := 0%Z; as_usable := usable_of 2 |}.
Definition ex_unusable_sched : list (nat * nat) := flat_map (fun _ => [(0, 0); (1, 0)]) (seq 0 30) ++ [(1, 0)].

Lemma unusable_witness :
  in_known_class ex_unusable = true /\
  let s := exec asys (astep true ex_unusable) (ainit ex_unusable) ex_unusable_sched in
  pcs s 1 = PDTry /\ as_usable ex_unusable <= length (a_queue s) /\ a_queue s = [] /\
  a_cons s = CBlocked /\ a_dropped s = [(1, 0)] /\ a_live s = 2 /\ a_destroyed s = false /\
  (forall u, u <> 1 -> astep true ex_unusable s u 0 = None) /\
  (* the only thing that can still happen is the retry loop: four steps later the destroying
     thread is back at the same program point and nothing else has changed *)
  let s4 := exec asys (astep true ex_unusable) s [(1, 0); (1, 0); (1, 0); (1, 0)] in
  pcs s4 1 = PDTry /\ a_queue s4 = [] /\ a_cons s4 = CBlocked /\ a_live s4 = 2 /\ a_wlock s4 = true /\ a_wlock s = true.
Proof.
  split; [reflexivity|]. intros s.
  split; [vm_compute; reflexivity|]. split; [vm_compute; lia|]. split; [vm_compute; reflexivity|].
  split; [vm_compute; reflexivity|]. split; [vm_compute; reflexivity|]. split; [vm_compute; reflexivity|].
  split; [vm_compute; reflexivity|]. split.
  - intros u Hu. destruct u as [|[|u]]; [vm_compute; reflexivity|contradiction|reflexivity].
  - intros s4. repeat split; vm_compute; reflexivity.
Qed.
