(* C16 — the built-in formatters: the line a handler emits is the cut of
   prefix ++ payload ++ newline, with the prefix layout of log_fmt.c. *)
From MV Require Import C16.Model C16.ProofsSeq.
Local Open Scope Z_scope.

(* the prefix of the two built-in formatters *)
Definition simple_prefix (F : fmtcfg) (e : fenv) : list byte :=
  level_name F (fe_level e) ++ [124%N] ++ fe_file e ++ [58%N] ++ dec_pad 0 (fe_line e) ++ [32; 45; 32]%N.
Definition complicated_prefix (F : fmtcfg) (e : fenv) : list byte :=
  let t := gmtime (fe_sec e) in
  level_name F (fe_level e) ++ [124%N] ++
  dec_pad 0 (tm_year t + 1900) ++ [45%N] ++ dec_pad 2 (tm_mon t + 1) ++ [45%N] ++ dec_pad 2 (tm_mday t) ++ [84%N] ++
  dec_pad 2 (tm_hour t) ++ [58%N] ++ dec_pad 2 (tm_min t) ++ [58%N] ++ dec_pad 2 (tm_sec t) ++ [46%N] ++
  dec_pad 3 (fe_nsec e / 1000000) ++ [124%N] ++
  fe_file e ++ [58%N] ++ dec_pad 0 (fe_line e) ++ [124%N] ++ fe_func e ++ [124%N] ++ dec_pad 0 (fe_tid e) ++
  [32; 45; 32]%N.

Lemma fmt_simple_layout F e : fmt_simple F e = simple_prefix F e ++ fe_payload e ++ [nl].
Proof. unfold fmt_simple, simple_prefix. rewrite <- !app_assoc. reflexivity. Qed.

Lemma fmt_complicated_layout F e : fmt_complicated F e = complicated_prefix F e ++ fe_payload e ++ [nl].
Proof. unfold fmt_complicated, complicated_prefix. cbv zeta. rewrite <- !app_assoc. reflexivity. Qed.

(* a formatted line of a built-in formatter is never empty and ends with the newline *)
Lemma builtin_line_ends_nl F src k m : (k < 2)%nat ->
  exists body, builtin_format F src k m = body ++ [nl].
Proof.
  intros Hk. destruct k as [|[|k]]; [| |lia]; unfold builtin_format.
  - rewrite fmt_simple_layout. eexists. rewrite app_assoc. reflexivity.
  - rewrite fmt_complicated_layout. eexists. rewrite app_assoc. reflexivity.
Qed.

(* what a handler with a built-in formatter emits for a message *)
Lemma builtin_line_cut F src limit h m : (2 <= limit)%nat ->
  hw_out (handler_line (builtin_format F src) limit true h m) =
  map Init (cut limit (builtin_format F src (h_fmt h) m)).
Proof.
  intros H2. unfold handler_line. destruct (h_kind h); apply handler_write_fixed_out; exact H2.
Qed.

Lemma builtin_line_bounds F src limit h m : (2 <= limit)%nat ->
  let w := handler_line (builtin_format F src) limit true h m in
  Forall (fun i => (i < limit)%nat) (hw_reads w ++ hw_writes w) /\ (hw_ret w <= limit - 1)%nat.
Proof.
  intros H2 w. subst w. unfold handler_line.
  destruct (h_kind h); destruct (handler_write_fixed_in_bounds limit (builtin_format F src (h_fmt h) m) H2) as (A & B & _);
    split; assumption.
Qed.

(* the line that fits is emitted whole: prefix, payload, newline *)
Lemma cut_fits limit line : (length line < limit)%nat -> cut limit line = line.
Proof. intros H. unfold cut. apply Nat.ltb_lt in H. rewrite H. reflexivity. Qed.

(* a longer line keeps its first limit-2 bytes — the prefix survives whenever it is shorter than that *)
Lemma cut_keeps_prefix limit p rest : (2 <= limit)%nat -> (limit <= length (p ++ rest))%nat -> (length p <= limit - 2)%nat ->
  exists mid, cut limit (p ++ rest) = p ++ mid ++ [nl] /\ length (p ++ mid ++ [nl]) = (limit - 1)%nat.
Proof.
  intros H2 Hlen Hp. unfold cut.
  assert (Nat.ltb (length (p ++ rest)) limit = false) as -> by (apply Nat.ltb_ge; lia).
  rewrite firstn_app. replace (firstn (limit - 2) p) with p by (symmetry; apply firstn_all2; lia).
  exists (firstn (limit - 2 - length p) rest). rewrite <- app_assoc. split; [reflexivity|].
  rewrite app_length in Hlen. rewrite !app_length, firstn_length. simpl. lia.
Qed.

(* decimal rendering: the digits of dec_u denote the number *)
Definition dval (l : list byte) : Z := fold_left (fun a d => 10 * a + (Z.of_N d - 48)) l 0.
Definition is_digit (b : byte) : Prop := (48 <= b <= 57)%N.

Lemma dval_app_gen l : forall a, fold_left (fun a d => 10 * a + (Z.of_N d - 48)) l a =
  a * 10 ^ Z.of_nat (length l) + dval l.
Proof.
  unfold dval. induction l as [|d r IH]; intros a; cbn [fold_left length].
  - cbn. lia.
  - rewrite IH. rewrite (IH (10 * 0 + (Z.of_N d - 48))). rewrite Nat2Z.inj_succ, Z.pow_succ_r by lia. lia.
Qed.

Lemma dval_cons d l : dval (d :: l) = (Z.of_N d - 48) * 10 ^ Z.of_nat (length l) + dval l.
Proof.
  unfold dval at 1. cbn [fold_left]. rewrite dval_app_gen. unfold byte in *.
  generalize (10 ^ Z.of_nat (length l)) (dval l) (Z.of_N d). intros. ring.
Qed.

Lemma digit_ok d : 0 <= d < 10 -> is_digit (digit d) /\ Z.of_N (digit d) - 48 = d.
Proof. intros H. unfold is_digit, digit. rewrite Z2N.id by lia. split; [|lia]. lia. Qed.

Lemma dec_fuel_spec : forall fuel n acc, 0 <= n < 10 ^ Z.of_nat fuel -> Forall is_digit acc ->
  Forall is_digit (dec_fuel fuel n acc) /\
  dval (dec_fuel fuel n acc) = n * 10 ^ Z.of_nat (length acc) + dval acc /\
  (length acc < length (dec_fuel fuel n acc) \/ fuel = O)%nat.
Proof.
  induction fuel as [|f IH]; intros n acc Hn Hacc.
  - change (10 ^ Z.of_nat 0) with 1 in Hn. assert (n = 0) by lia. subst. cbn [dec_fuel].
    split; [assumption|]. split; [lia|]. right; reflexivity.
  - cbn [dec_fuel]. destruct (Z.ltb_spec n 10).
    + destruct (digit_ok n ltac:(lia)) as [Hd Hv]. split; [constructor; assumption|]. split.
      * rewrite dval_cons, Hv. reflexivity.
      * left. cbn [length]. lia.
    + assert (Hq : 0 <= n / 10 < 10 ^ Z.of_nat f).
      { rewrite Nat2Z.inj_succ, Z.pow_succ_r in Hn by lia. split; [apply Z.div_pos; lia|].
        apply Z.div_lt_upper_bound; lia. }
      destruct (digit_ok (n mod 10) ltac:(apply Z.mod_pos_bound; lia)) as [Hd Hv].
      destruct (IH (n / 10) (digit (n mod 10) :: acc) Hq ltac:(constructor; assumption)) as (A & B & C).
      split; [exact A|]. split.
      * rewrite B. rewrite dval_cons. cbn [length]. rewrite Nat2Z.inj_succ, Z.pow_succ_r by lia.
        pose proof (Z.div_mod n 10 ltac:(lia)) as H0.
        set (P := 10 ^ Z.of_nat (length acc)). rewrite Hv.
        assert (E : n * P = 10 * (n / 10) * P + (n mod 10) * P) by (rewrite H0 at 1; ring).
        lia.
      * left. destruct C as [C|C]; [cbn [length] in C; lia|]. subst f.
        change (10 ^ Z.of_nat 0) with 1 in Hq. pose proof (Z.div_le_lower_bound n 10 1 ltac:(lia) ltac:(lia)). lia.
Qed.

Theorem dec_u_spec n : 0 <= n < 10 ^ 24 -> Forall is_digit (dec_u n) /\ dval (dec_u n) = n /\ dec_u n <> [].
Proof.
  intros Hn. unfold dec_u. destruct (dec_fuel_spec 24 n [] Hn (Forall_nil _)) as (A & B & C).
  split; [exact A|]. split; [rewrite B; unfold dval; cbn [length fold_left]; change (10 ^ Z.of_nat 0) with 1; lia|].
  destruct C as [C|C]; [|discriminate]. intros E. rewrite E in C. cbn in C. lia.
Qed.

(* non-vacuity: concrete lines *)
Definition ex_cfg : fmtcfg :=
  {| fc_names := [[84; 82; 65; 67; 69]; [68; 69; 66; 85; 71]; [73; 78; 70; 79]; [87; 65; 82; 78; 73; 78; 71];
                  [69; 82; 82; 79; 82]; [70; 65; 84; 65; 76]]%N;
     fc_unknown := [85; 78; 75; 78; 79; 87; 78]%N; fc_offset := 8 |}.
Definition ex_env : fenv :=
  {| fe_level := 512; fe_file := [97; 46; 99]%N; fe_line := 77; fe_func := [102]%N; fe_tid := 4242;
     fe_sec := 1700000000; fe_nsec := 123456789; fe_payload := [104; 105]%N |}.

(* "INFO|a.c:77 - hi\n" *)
Example ex_fmt_simple :
  fmt_simple ex_cfg ex_env = [73; 78; 70; 79; 124; 97; 46; 99; 58; 55; 55; 32; 45; 32; 104; 105; 10]%N.
Proof. vm_compute. reflexivity. Qed.

(* "INFO|2023-11-14T22:13:20.123|a.c:77|f|4242 - hi\n" *)
Example ex_fmt_complicated :
  fmt_complicated ex_cfg ex_env =
  [73; 78; 70; 79; 124; 50; 48; 50; 51; 45; 49; 49; 45; 49; 52; 84; 50; 50; 58; 49; 51; 58; 50; 48; 46; 49; 50; 51; 124;
   97; 46; 99; 58; 55; 55; 124; 102; 124; 52; 50; 52; 50; 32; 45; 32; 104; 105; 10]%N.
Proof. vm_compute. reflexivity. Qed.

Example ex_level_names :
  map (level_name ex_cfg) [0; 255; 256; 1280; 1535; 1536; -1] =
  [[84; 82; 65; 67; 69]; [84; 82; 65; 67; 69]; [68; 69; 66; 85; 71]; [70; 65; 84; 65; 76]; [70; 65; 84; 65; 76];
   [85; 78; 75; 78; 79; 87; 78]; [85; 78; 75; 78; 79; 87; 78]]%N.
Proof. vm_compute. reflexivity. Qed.

Example ex_dec_pad : dec_pad 2 7 = [48; 55]%N /\ dec_pad 0 1700 = [49; 55; 48; 48]%N /\ dec_pad 3 (-5) = [45; 48; 53]%N /\
                     dec_pad 0 0 = [48]%N /\ dec_pad 2 123 = [49; 50; 51]%N.
Proof. vm_compute. repeat split; reflexivity. Qed.

(* gmtime at the epoch, on a leap day and at the end of a year *)
Example ex_gmtime :
  gmtime 0 = {| tm_year := 70; tm_mon := 0; tm_mday := 1; tm_hour := 0; tm_min := 0; tm_sec := 0 |} /\
  gmtime 1709210096 = {| tm_year := 124; tm_mon := 1; tm_mday := 29; tm_hour := 12; tm_min := 34; tm_sec := 56 |} /\
  gmtime 946684799 = {| tm_year := 99; tm_mon := 11; tm_mday := 31; tm_hour := 23; tm_min := 59; tm_sec := 59 |}.
Proof. vm_compute. repeat split; reflexivity. Qed.

(* every level of the enum has its own name: non-empty, distinct, not the name used outside the table *)
Definition bytes_eqb (a b : list byte) : bool := if list_eq_dec N.eq_dec a b then true else false.
Fixpoint distinct_b (l : list (list byte)) : bool :=
  match l with
  | [] => true
  | a :: r => negb (existsb (bytes_eqb a) r) && distinct_b r
  end.
Definition level_names_ok_b (F : fmtcfg) (vals : list Z) : bool :=
  let ns := map (level_name F) vals in
  distinct_b ns && forallb (fun n => negb (bytes_eqb n []) && negb (bytes_eqb n (fc_unknown F))) ns &&
  Nat.eqb (length (fc_names F)) (length vals).

Example ex_level_names_ok : level_names_ok_b ex_cfg [0; 256; 512; 768; 1024; 1280] = true.
Proof. vm_compute. reflexivity. Qed.

(* the explicit layouts, as the property theorem states them *)
Lemma builtin_simple_layout F src m :
  let s := src (m_id m) in
  builtin_format F src 0 m =
  level_name F (m_level m) ++ [124%N] ++ ms_file s ++ [58%N] ++ dec_pad 0 (ms_line s) ++ [32; 45; 32]%N ++ m_payload m ++ [nl].
Proof. reflexivity. Qed.

Lemma builtin_complicated_layout F src m :
  let s := src (m_id m) in
  let t := gmtime (ms_sec s) in
  builtin_format F src 1 m =
  level_name F (m_level m) ++ [124%N] ++
  dec_pad 0 (tm_year t + 1900) ++ [45%N] ++ dec_pad 2 (tm_mon t + 1) ++ [45%N] ++ dec_pad 2 (tm_mday t) ++ [84%N] ++
  dec_pad 2 (tm_hour t) ++ [58%N] ++ dec_pad 2 (tm_min t) ++ [58%N] ++ dec_pad 2 (tm_sec t) ++ [46%N] ++
  dec_pad 3 (ms_nsec s / 1000000) ++ [124%N] ++
  ms_file s ++ [58%N] ++ dec_pad 0 (ms_line s) ++ [124%N] ++ ms_func s ++ [124%N] ++ dec_pad 0 (ms_tid s) ++
  [32; 45; 32]%N ++ m_payload m ++ [nl].
Proof. reflexivity. Qed.

(* the property-level statement: cut of the formatted line for every formatter; for the built-in
   formatters the line is the layout of log_fmt.c *)
Lemma line_is_truncated_format limit F : (2 <= limit)%nat ->
  (forall line,
     hw_out (handler_write true limit line) = map Init (cut limit line) /\
     (length (cut limit line) <= limit - 1)%nat) /\
  (forall src h m,
     hw_out (handler_line (builtin_format F src) limit true h m) =
     map Init (cut limit (builtin_format F src (h_fmt h) m))) /\
  (forall src m,
     let s := src (m_id m) in
     let t := gmtime (ms_sec s) in
     builtin_format F src 0 m =
     level_name F (m_level m) ++ [124%N] ++ ms_file s ++ [58%N] ++ dec_pad 0 (ms_line s) ++ [32; 45; 32]%N ++
     m_payload m ++ [nl] /\
     builtin_format F src 1 m =
     level_name F (m_level m) ++ [124%N] ++
     dec_pad 0 (tm_year t + 1900) ++ [45%N] ++ dec_pad 2 (tm_mon t + 1) ++ [45%N] ++ dec_pad 2 (tm_mday t) ++ [84%N] ++
     dec_pad 2 (tm_hour t) ++ [58%N] ++ dec_pad 2 (tm_min t) ++ [58%N] ++ dec_pad 2 (tm_sec t) ++ [46%N] ++
     dec_pad 3 (ms_nsec s / 1000000) ++ [124%N] ++
     ms_file s ++ [58%N] ++ dec_pad 0 (ms_line s) ++ [124%N] ++ ms_func s ++ [124%N] ++ dec_pad 0 (ms_tid s) ++
     [32; 45; 32]%N ++ m_payload m ++ [nl]).
Proof.
  intros H2. split; [|split].
  - intros line. split; [apply handler_write_fixed_out | apply cut_length]; exact H2.
  - intros src h m. apply builtin_line_cut. exact H2.
  - intros src m. split; [apply builtin_simple_layout | apply builtin_complicated_layout].
Qed.
