From MV Require Import C10.Model C10.Proofs.
Theorem quick_cutoff_ok : 3 <= quick_sort_cutoff.
Proof. exact cutoff_ok. Qed.
Print Assumptions quick_cutoff_ok.
