(* C10 — property theorems only.  Each is closed by [exact] of a lemma proved under
   C10/ and followed by Print Assumptions.  [kf] is the key function inducing the
   comparator (any total preorder); arrays are lists of element ids; the repaired
   code is modelled (fixes/C10-*.patch). *)
From MV Require Import C10.Model C10.Proofs.
Local Open Scope Z_scope.

(* ------------------------------------------------------------------ heap *)

(* a freshly initialised heap is a valid empty heap *)
Theorem heap_init_valid : forall kf c h, heap_init true c = Some h ->
  heap_ok kf h /\ hsize h = 0%nat /\ hcap h = (if (c =? 0)%nat then 8%nat else c).
Proof. exact heap_init_ok. Qed.
Print Assumptions heap_init_valid.

(* insert (including growth by doubling, any allocation outcome): the sift-up loop
   terminates; on success the heap is valid and holds exactly the old entries plus
   the new one; on refusal nothing changed; no refusal while there is room *)
Theorem heap_inv_insert : forall kf alloc h k v, heap_ok kf h ->
  exists h' b, heap_insert kf alloc h k v = Some (h', b) /\
    (b = false -> h' = h) /\
    (b = true -> heap_ok kf h' /\ hsize h' = S (hsize h) /\ Permutation (contents h') ((k, v) :: contents h)) /\
    ((hsize h < hcap h)%nat -> b = true /\ hcap h' = hcap h).
Proof. exact heap_insert_ok. Qed.
Print Assumptions heap_inv_insert.

(* a refused growth (allocation failure, invalid capacity) changes NOTHING; a granted one keeps
   every entry in its slot.  With heap_inv_insert's clause (b = false -> h' = h) this is "a refused
   insert changes nothing: size, contents, later extraction order". *)
Theorem heap_growth_refusal_changes_nothing : forall kf alloc h c, heap_ok kf h ->
  let '(h', ok) := heap_ensure_capacity alloc h c in
  (ok = false -> h' = h) /\
  (ok = true -> heap_ok kf h' /\ hsize h' = hsize h /\ (c <= hcap h')%nat /\ contents h' = contents h) /\
  (alloc = false -> (hcap h < c)%nat -> ok = false).
Proof. exact heap_ensure_capacity_ok. Qed.
Print Assumptions heap_growth_refusal_changes_nothing.

(* extract on a non-empty heap: the sift-down loop terminates, returns the root, which
   is a minimum of the contents; the rest is a valid heap holding exactly the other entries *)
Theorem heap_inv_extract_min : forall kf h, heap_ok kf h -> (1 <= hsize h)%nat ->
  exists h', heap_extract kf h = Some (h', Some (getn (nodes h) 1)) /\
    heap_ok kf h' /\ hsize h' = (hsize h - 1)%nat /\ hcap h' = hcap h /\
    Permutation (contents h) (getn (nodes h) 1 :: contents h') /\
    (forall x, In x (contents h) -> nkey kf (getn (nodes h) 1) <= nkey kf x).
Proof. exact heap_extract_ok. Qed.
Print Assumptions heap_inv_extract_min.

(* remove of the node at ANY position 1..size, the last slot included: the combined
   up/down loop terminates, exactly that entry leaves, the rest is a valid heap *)
Theorem heap_inv_remove_any_position : forall kf h idx, heap_ok kf h -> (1 <= idx <= hsize h)%nat ->
  exists h', heap_remove kf h idx = Some (h', Some (getn (nodes h) idx)) /\
    heap_ok kf h' /\ hsize h' = (hsize h - 1)%nat /\ hcap h' = hcap h /\
    Permutation (contents h) (getn (nodes h) idx :: contents h').
Proof. exact heap_remove_ok. Qed.
Print Assumptions heap_inv_remove_any_position.

(* a node pointer outside nodes[1..size] is refused and nothing changes *)
Theorem heap_remove_outside_refused : forall kf h idx, (idx = 0 \/ hsize h < idx)%nat ->
  heap_remove kf h idx = Some (h, None).
Proof. exact heap_remove_outside. Qed.
Print Assumptions heap_remove_outside_refused.

(* root returns a minimum entry of the contents *)
Theorem heap_root_is_min : forall kf h, heap_ok kf h -> (1 <= hsize h)%nat ->
  heap_root h = Some (getn (nodes h) 1) /\ In (getn (nodes h) 1) (contents h) /\
  forall x, In x (contents h) -> nkey kf (getn (nodes h) 1) <= nkey kf x.
Proof. exact heap_root_min. Qed.
Print Assumptions heap_root_is_min.

Theorem heap_empty_yields_nothing : forall kf h, hsize h = 0%nat ->
  heap_root h = None /\ heap_extract kf h = Some (h, None).
Proof. exact heap_root_empty. Qed.
Print Assumptions heap_empty_yields_nothing.

(* find returns a node of the heap whose key compares equal, or NULL only when none does *)
Theorem heap_find_locates : forall kf h data,
  let r := heap_find kf h data in
  (r = 0%nat /\ forall x, In x (contents h) -> (hsize h < length (nodes h))%nat -> nkey kf x <> kf data) \/
  ((1 <= r <= hsize h)%nat /\ nkey kf (getn (nodes h) r) = kf data).
Proof. exact heap_find_ok. Qed.
Print Assumptions heap_find_locates.

(* repeated extract yields every entry, in non-decreasing key order *)
Theorem heap_yields_sorted : forall kf n h, heap_ok kf h -> hsize h = n ->
  exists l, drain kf n h = Some l /\ length l = n /\ StronglySorted (nle kf) l /\ Permutation l (contents h).
Proof. exact drain_sorted. Qed.
Print Assumptions heap_yields_sorted.

(* ----------------------------------------------------------------- sorts *)
(* every list length (0 and 1 included), every key pattern *)

Theorem insertion_sorted : forall kf a, Sorted (kle kf) (insertion_sort kf a).
Proof. exact insertion_sorted_l. Qed.
Print Assumptions insertion_sorted.
Theorem insertion_permutation : forall kf a, Permutation a (insertion_sort kf a).
Proof. exact insertion_permutation_l. Qed.
Print Assumptions insertion_permutation.

Theorem shell_terminates : forall kf a, shell_sort kf a <> None.
Proof. exact shell_total_l. Qed.
Print Assumptions shell_terminates.
Theorem shell_sorted : forall kf a p, shell_sort kf a = Some p -> Sorted (kle kf) p.
Proof. exact shell_sorted_l. Qed.
Print Assumptions shell_sorted.
Theorem shell_permutation : forall kf a p, shell_sort kf a = Some p -> Permutation a p.
Proof. exact shell_permutation_l. Qed.
Print Assumptions shell_permutation.

(* heap sort: arrays below 2^31 - 1 elements (larger ones are refused with `false`) *)
Theorem heap_sort_terminates : forall kf a, cap_is_valid (length a + 1) = true ->
  exists p, heap_sort kf true a = Some (p, true).
Proof. exact heap_sort_total_l. Qed.
Print Assumptions heap_sort_terminates.
Theorem heap_sort_sorted : forall kf a p, cap_is_valid (length a + 1) = true ->
  heap_sort kf true a = Some (p, true) -> Sorted (kle kf) p.
Proof. exact heap_sort_sorted_l. Qed.
Print Assumptions heap_sort_sorted.
Theorem heap_sort_permutation : forall kf a p, cap_is_valid (length a + 1) = true ->
  heap_sort kf true a = Some (p, true) -> Permutation a p.
Proof. exact heap_sort_permutation_l. Qed.
Print Assumptions heap_sort_permutation.

Theorem merge_terminates : forall kf a, exists p, merge_sort kf true a = Some (p, true).
Proof. exact merge_total_l. Qed.
Print Assumptions merge_terminates.
Theorem merge_sorted : forall kf a p, merge_sort kf true a = Some (p, true) -> Sorted (kle kf) p.
Proof. exact merge_sorted_l. Qed.
Print Assumptions merge_sorted.
Theorem merge_permutation : forall kf a p, merge_sort kf true a = Some (p, true) -> Permutation a p.
Proof. exact merge_permutation_l. Qed.
Print Assumptions merge_permutation.

(* side condition on the cutoff constant re-extracted from sort.c on every run *)
Theorem quick_cutoff_ok : (3 <= quick_sort_cutoff)%nat.
Proof. exact cutoff_ok. Qed.
Print Assumptions quick_cutoff_ok.

(* for any cutoff >= 3: no scan leaves the array (result is not None), fuel suffices *)
Theorem quick_terminates_in_bounds_any_cutoff : forall cutoff, (3 <= cutoff)%nat ->
  forall kf a, quick_sort_c kf cutoff a <> None.
Proof. exact quick_total_c. Qed.
Print Assumptions quick_terminates_in_bounds_any_cutoff.
Theorem quick_terminates_in_bounds : forall kf a, quick_sort kf a <> None.
Proof. exact quick_total_l. Qed.
Print Assumptions quick_terminates_in_bounds.
Theorem quick_sorted : forall kf a p, quick_sort kf a = Some p -> Sorted (kle kf) p.
Proof. exact quick_sorted_l. Qed.
Print Assumptions quick_sorted.
Theorem quick_permutation : forall kf a p, quick_sort kf a = Some p -> Permutation a p.
Proof. exact quick_permutation_l. Qed.
Print Assumptions quick_permutation.
