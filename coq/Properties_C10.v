(* C10 — property theorems only.  Each is closed by [exact] of a lemma proved under
   C10/ and followed by Print Assumptions.  [kf] is the key function inducing the
   comparator (any total preorder); arrays are lists of element ids; the repaired
   code is modelled (fixes/C10-*.patch). *)
From MV Require Import C10.Model C10.Proofs C10.Steps C10.ProofsGen C10.ProofsGenSort C10.ProofsSteps.
Local Open Scope Z_scope.

(* ------------------------------------------------------------------ heap *)

(* a freshly initialised heap is a valid empty heap *)
Theorem heap_init_valid : forall kf c h, heap_init true c = Some h ->
  heap_ok kf h /\ hsize h = 0%nat /\ hcap h = (if (c =? 0)%nat then 8%nat else c).
Proof. exact heap_init_ok. Qed.
Print Assumptions heap_init_valid.

(* insert (including growth by doubling, any allocation outcome): the sift-up loop
   terminates; on success the heap is valid and holds exactly the old entries plus
   the new one; on refusal nothing changed; no refusal while there is room *)
Theorem heap_inv_insert : forall kf alloc h k v, heap_ok kf h ->
  exists h' b, heap_insert kf alloc h k v = Some (h', b) /\
    (b = false -> h' = h) /\
    (b = true -> heap_ok kf h' /\ hsize h' = S (hsize h) /\ Permutation (contents h') ((k, v) :: contents h)) /\
    ((hsize h < hcap h)%nat -> b = true /\ hcap h' = hcap h).
Proof. exact heap_insert_ok. Qed.
Print Assumptions heap_inv_insert.

(* a refused growth (allocation failure, invalid capacity) changes NOTHING; a granted one keeps
   every entry in its slot.  With heap_inv_insert's clause (b = false -> h' = h) this is "a refused
   insert changes nothing: size, contents, later extraction order". *)
Theorem heap_growth_refusal_changes_nothing : forall kf alloc h c, heap_ok kf h ->
  let '(h', ok) := heap_ensure_capacity alloc h c in
  (ok = false -> h' = h) /\
  (ok = true -> heap_ok kf h' /\ hsize h' = hsize h /\ (c <= hcap h')%nat /\ contents h' = contents h) /\
  (alloc = false -> (hcap h < c)%nat -> ok = false).
Proof. exact heap_ensure_capacity_ok. Qed.
Print Assumptions heap_growth_refusal_changes_nothing.

(* extract on a non-empty heap: the sift-down loop terminates, returns the root, which
   is a minimum of the contents; the rest is a valid heap holding exactly the other entries *)
Theorem heap_inv_extract_min : forall kf h, heap_ok kf h -> (1 <= hsize h)%nat ->
  exists h', heap_extract kf h = Some (h', Some (getn (nodes h) 1)) /\
    heap_ok kf h' /\ hsize h' = (hsize h - 1)%nat /\ hcap h' = hcap h /\
    Permutation (contents h) (getn (nodes h) 1 :: contents h') /\
    (forall x, In x (contents h) -> nkey kf (getn (nodes h) 1) <= nkey kf x).
Proof. exact heap_extract_ok. Qed.
Print Assumptions heap_inv_extract_min.

(* remove of the node at ANY position 1..size, the last slot included: the combined
   up/down loop terminates, exactly that entry leaves, the rest is a valid heap *)
Theorem heap_inv_remove_any_position : forall kf h idx, heap_ok kf h -> (1 <= idx <= hsize h)%nat ->
  exists h', heap_remove kf h idx = Some (h', Some (getn (nodes h) idx)) /\
    heap_ok kf h' /\ hsize h' = (hsize h - 1)%nat /\ hcap h' = hcap h /\
    Permutation (contents h) (getn (nodes h) idx :: contents h').
Proof. exact heap_remove_ok. Qed.
Print Assumptions heap_inv_remove_any_position.

(* a node pointer outside nodes[1..size] is refused and nothing changes *)
Theorem heap_remove_outside_refused : forall kf h idx, (idx = 0 \/ hsize h < idx)%nat ->
  heap_remove kf h idx = Some (h, None).
Proof. exact heap_remove_outside. Qed.
Print Assumptions heap_remove_outside_refused.

(* root returns a minimum entry of the contents *)
Theorem heap_root_is_min : forall kf h, heap_ok kf h -> (1 <= hsize h)%nat ->
  heap_root h = Some (getn (nodes h) 1) /\ In (getn (nodes h) 1) (contents h) /\
  forall x, In x (contents h) -> nkey kf (getn (nodes h) 1) <= nkey kf x.
Proof. exact heap_root_min. Qed.
Print Assumptions heap_root_is_min.

Theorem heap_empty_yields_nothing : forall kf h, hsize h = 0%nat ->
  heap_root h = None /\ heap_extract kf h = Some (h, None).
Proof. exact heap_root_empty. Qed.
Print Assumptions heap_empty_yields_nothing.

(* clear, WHATEVER the free callbacks are (both NULL included): the result is the valid EMPTY heap of the
   same capacity and storage - so every theorem of this file applies to any later use of the heap and
   nothing of the old content can come back (contents = [], every old slot holds NULL, root / extract
   yield nothing); the nodes handed to the free callbacks are exactly the old entries, each once *)
Theorem heap_clear_gives_valid_empty_heap : forall kf h, heap_ok kf h ->
  let '(h', freed) := heap_clear h in
  heap_ok kf h' /\ hsize h' = 0%nat /\ hcap h' = hcap h /\ length (nodes h') = length (nodes h) /\
  contents h' = [] /\ freed = contents h /\
  (forall j, (1 <= j <= hsize h)%nat -> getn (nodes h') j = null_node) /\
  heap_root h' = None /\ heap_extract kf h' = Some (h', None).
Proof. exact heap_clear_ok. Qed.
Print Assumptions heap_clear_gives_valid_empty_heap.

(* the free callbacks are a per-call choice, each may be NULL.  For EVERY choice: remove at any position
   1..size yields the same valid heap as heap_inv_remove_any_position and hands to each callback that
   was passed exactly the key / value of the entry that left (nothing to one that was not); a node
   outside 1..size is refused; clear yields the valid empty heap and hands every entry, once, in slot
   order, to the callbacks that were passed *)
Theorem heap_remove_any_callbacks : forall kf cbk cbv h idx, heap_ok kf h -> (1 <= idx <= hsize h)%nat ->
  exists h', heap_remove_cb kf cbk cbv h idx = Some (h', Some (handed cbk cbv (getn (nodes h) idx))) /\
    heap_remove kf h idx = Some (h', Some (getn (nodes h) idx)) /\
    heap_ok kf h' /\ hsize h' = (hsize h - 1)%nat /\ hcap h' = hcap h /\
    Permutation (contents h) (getn (nodes h) idx :: contents h').
Proof. exact heap_remove_cb_ok. Qed.
Print Assumptions heap_remove_any_callbacks.
Theorem heap_remove_any_callbacks_outside : forall kf cbk cbv h idx, (idx = 0 \/ hsize h < idx)%nat ->
  heap_remove_cb kf cbk cbv h idx = Some (h, None).
Proof. exact heap_remove_cb_outside. Qed.
Print Assumptions heap_remove_any_callbacks_outside.
Theorem heap_clear_any_callbacks : forall kf cbk cbv h, heap_ok kf h ->
  fst (heap_clear_cb cbk cbv h) = fst (heap_clear h) /\
  snd (heap_clear_cb cbk cbv h) = map (handed cbk cbv) (contents h) /\
  heap_ok kf (fst (heap_clear_cb cbk cbv h)) /\ hsize (fst (heap_clear_cb cbk cbv h)) = 0%nat /\
  hcap (fst (heap_clear_cb cbk cbv h)) = hcap h /\ contents (fst (heap_clear_cb cbk cbv h)) = [].
Proof. exact heap_clear_cb_ok. Qed.
Print Assumptions heap_clear_any_callbacks.

(* destroy releases exactly the entries, each once (the heap is dead until the next init, which
   heap_init_valid covers) *)
Theorem heap_destroy_releases_contents : forall h, heap_destroy h = contents h.
Proof. exact heap_destroy_ok. Qed.
Print Assumptions heap_destroy_releases_contents.

(* find returns a node of the heap whose key compares equal, or NULL only when none does *)
Theorem heap_find_locates : forall kf h data,
  let r := heap_find kf h data in
  (r = 0%nat /\ forall x, In x (contents h) -> (hsize h < length (nodes h))%nat -> nkey kf x <> kf data) \/
  ((1 <= r <= hsize h)%nat /\ nkey kf (getn (nodes h) r) = kf data).
Proof. exact heap_find_ok. Qed.
Print Assumptions heap_find_locates.

(* repeated extract yields every entry, in non-decreasing key order *)
Theorem heap_yields_sorted : forall kf n h, heap_ok kf h -> hsize h = n ->
  exists l, drain kf n h = Some l /\ length l = n /\ StronglySorted (nle kf) l /\ Permutation l (contents h).
Proof. exact drain_sorted. Qed.
Print Assumptions heap_yields_sorted.

(* ----------------------------------------------------------------- sorts *)
(* every list length (0 and 1 included), every key pattern *)

Theorem insertion_sorted : forall kf a, Sorted (kle kf) (insertion_sort kf a).
Proof. exact insertion_sorted_l. Qed.
Print Assumptions insertion_sorted.
Theorem insertion_permutation : forall kf a, Permutation a (insertion_sort kf a).
Proof. exact insertion_permutation_l. Qed.
Print Assumptions insertion_permutation.

Theorem shell_terminates : forall kf a, shell_sort kf a <> None.
Proof. exact shell_total_l. Qed.
Print Assumptions shell_terminates.
Theorem shell_sorted : forall kf a p, shell_sort kf a = Some p -> Sorted (kle kf) p.
Proof. exact shell_sorted_l. Qed.
Print Assumptions shell_sorted.
Theorem shell_permutation : forall kf a p, shell_sort kf a = Some p -> Permutation a p.
Proof. exact shell_permutation_l. Qed.
Print Assumptions shell_permutation.

(* heap sort: arrays below 2^31 - 1 elements (larger ones are refused with `false`) *)
Theorem heap_sort_terminates : forall kf a, cap_is_valid (length a + 1) = true ->
  exists p, heap_sort kf true a = Some (p, true).
Proof. exact heap_sort_total_l. Qed.
Print Assumptions heap_sort_terminates.
Theorem heap_sort_sorted : forall kf a p, cap_is_valid (length a + 1) = true ->
  heap_sort kf true a = Some (p, true) -> Sorted (kle kf) p.
Proof. exact heap_sort_sorted_l. Qed.
Print Assumptions heap_sort_sorted.
Theorem heap_sort_permutation : forall kf a p, cap_is_valid (length a + 1) = true ->
  heap_sort kf true a = Some (p, true) -> Permutation a p.
Proof. exact heap_sort_permutation_l. Qed.
Print Assumptions heap_sort_permutation.

Theorem merge_terminates : forall kf a, exists p, merge_sort kf true a = Some (p, true).
Proof. exact merge_total_l. Qed.
Print Assumptions merge_terminates.
Theorem merge_sorted : forall kf a p, merge_sort kf true a = Some (p, true) -> Sorted (kle kf) p.
Proof. exact merge_sorted_l. Qed.
Print Assumptions merge_sorted.
Theorem merge_permutation : forall kf a p, merge_sort kf true a = Some (p, true) -> Permutation a p.
Proof. exact merge_permutation_l. Qed.
Print Assumptions merge_permutation.

(* side condition on the cutoff constant re-extracted from sort.c on every run *)
Theorem quick_cutoff_ok : (3 <= quick_sort_cutoff)%nat.
Proof. exact cutoff_ok. Qed.
Print Assumptions quick_cutoff_ok.

(* for any cutoff >= 3: no scan leaves the array (result is not None), fuel suffices *)
Theorem quick_terminates_in_bounds_any_cutoff : forall cutoff, (3 <= cutoff)%nat ->
  forall kf a, quick_sort_c kf cutoff a <> None.
Proof. exact quick_total_c. Qed.
Print Assumptions quick_terminates_in_bounds_any_cutoff.
Theorem quick_terminates_in_bounds : forall kf a, quick_sort kf a <> None.
Proof. exact quick_total_l. Qed.
Print Assumptions quick_terminates_in_bounds.
Theorem quick_sorted : forall kf a p, quick_sort kf a = Some p -> Sorted (kle kf) p.
Proof. exact quick_sorted_l. Qed.
Print Assumptions quick_sorted.
Theorem quick_permutation : forall kf a p, quick_sort kf a = Some p -> Permutation a p.
Proof. exact quick_permutation_l. Qed.
Print Assumptions quick_permutation.

(* ------------------------------------------------ second tie: the C text of this run, segment by segment *)
(* Every loop of heap.c / sort.c is cut at its head and its exit into loop-free segments (entry -> first loop
   head, ONE ITERATION, exit -> next cut / return), each re-translated from the clang AST of the current C text
   into gen/Params_C10.v (lib/props/c10_slice.py).  Each theorem: the generated segment equals the model's
   segment (C10/Steps.v) - tag of the cut reached, both arrays pointwise, the state vector, the library calls
   with their arguments, the arrays handed to them - for every comparator whose SIGN follows the keys and all
   indices below 2^62.  C10/ProofsSteps.v ties the model's segments to the fuelled loops of C10/Model.v. *)
Theorem gen_insert_pre_matches_model : forall (cmp : Z -> Z -> Z) (nk nv : Z -> Z) (cap size r1 : Z) (nk1 nv1 : Z -> Z) (size1 cap1 : Z), 0 <= cap < 4611686018427387904 -> 0 <= size < 4611686018427387904 -> 0 <= size1 < 4611686018427387904 -> res_eq (gen_insert_pre cmp nk nv cap size r1 nk1 nv1 size1 cap1) (ref_insert_pre nk nv cap size r1 nk1 nv1 size1 cap1).
Proof. exact gen_insert_pre_eq. Qed.
Print Assumptions gen_insert_pre_matches_model.
Theorem gen_insert_step_matches_model : forall (cmp : Z -> Z -> Z) (kf : Z -> Z), cmp_ok cmp kf -> forall (nk nv : Z -> Z) (idx key : Z), 0 <= idx < 4611686018427387904 -> res_eq (gen_insert_step cmp nk nv idx key) (ref_insert_step kf nk nv idx key).
Proof. exact gen_insert_step_eq. Qed.
Print Assumptions gen_insert_step_matches_model.
Theorem gen_insert_post_matches_model : forall (cmp : Z -> Z -> Z) (nk nv : Z -> Z) (idx cap size key value : Z), res_eq (gen_insert_post cmp nk nv idx cap size key value) (ref_insert_post nk nv idx cap size key value).
Proof. exact gen_insert_post_eq. Qed.
Print Assumptions gen_insert_post_matches_model.
Theorem gen_extract_pre_matches_model : forall (cmp : Z -> Z -> Z) (nk nv : Z -> Z) (size okey ovalue : Z), 0 <= size < 4611686018427387904 -> res_eq (gen_extract_pre cmp nk nv size okey ovalue) (ref_extract_pre nk nv size okey ovalue).
Proof. exact gen_extract_pre_eq. Qed.
Print Assumptions gen_extract_pre_matches_model.
Theorem gen_extract_step_matches_model : forall (cmp : Z -> Z -> Z) (kf : Z -> Z), cmp_ok cmp kf -> forall (nk nv : Z -> Z) (i last size : Z), 0 <= i < 4611686018427387904 -> 0 <= size < 4611686018427387904 -> 0 <= last < 4611686018427387904 -> res_eq (gen_extract_step cmp nk nv i last size) (ref_extract_step kf nk nv i last size).
Proof. exact gen_extract_step_eq. Qed.
Print Assumptions gen_extract_step_matches_model.
Theorem gen_extract_post_matches_model : forall (cmp : Z -> Z -> Z) (nk nv : Z -> Z) (i last size okey ovalue : Z), res_eq (gen_extract_post cmp nk nv i last size okey ovalue) (ref_extract_post nk nv i last size okey ovalue).
Proof. exact gen_extract_post_eq. Qed.
Print Assumptions gen_extract_post_matches_model.
Theorem gen_remove_pre_matches_model : forall (cmp : Z -> Z -> Z) (nk nv : Z -> Z) (node size : Z), - (4611686018427387904) < node < 4611686018427387904 -> 0 <= size < 4611686018427387904 -> res_eq (gen_remove_pre cmp nk nv node size) (ref_remove_pre nk nv node size).
Proof. exact gen_remove_pre_eq. Qed.
Print Assumptions gen_remove_pre_matches_model.
Theorem gen_remove_step_matches_model : forall (cmp : Z -> Z -> Z) (kf : Z -> Z), cmp_ok cmp kf -> forall (nk nv : Z -> Z) (idx last size : Z), 0 <= idx < 4611686018427387904 -> 0 <= size < 4611686018427387904 -> 0 <= last < 4611686018427387904 -> res_eq (gen_remove_step cmp nk nv idx last size) (ref_remove_step kf nk nv idx last size).
Proof. exact gen_remove_step_eq. Qed.
Print Assumptions gen_remove_step_matches_model.
Theorem gen_remove_post_matches_model : forall (cmp : Z -> Z -> Z) (nk nv : Z -> Z) (idx last size : Z), res_eq (gen_remove_post cmp nk nv idx last size) (ref_remove_post nk nv idx last size).
Proof. exact gen_remove_post_eq. Qed.
Print Assumptions gen_remove_post_matches_model.
Theorem gen_find_pre_matches_model : forall (cmp : Z -> Z -> Z) (nk nv : Z -> Z), res_eq (gen_find_pre cmp nk nv) (ref_find_pre nk nv).
Proof. exact gen_find_pre_eq. Qed.
Print Assumptions gen_find_pre_matches_model.
Theorem gen_find_step_matches_model : forall (cmp : Z -> Z -> Z) (kf : Z -> Z), cmp_ok cmp kf -> forall (nk nv : Z -> Z) (i data size : Z), 0 <= i < 4611686018427387904 -> 0 <= size < 4611686018427387904 -> res_eq (gen_find_step cmp nk nv i data size) (ref_find_step kf nk nv i data size).
Proof. exact gen_find_step_eq. Qed.
Print Assumptions gen_find_step_matches_model.
Theorem gen_find_post_matches_model : forall (cmp : Z -> Z -> Z) (nk nv : Z -> Z) (i : Z), res_eq (gen_find_post cmp nk nv i) (ref_find_post nk nv i).
Proof. exact gen_find_post_eq. Qed.
Print Assumptions gen_find_post_matches_model.
Theorem gen_clear_pre_matches_model : forall (cmp : Z -> Z -> Z) (nk nv : Z -> Z) (size : Z), res_eq (gen_clear_pre cmp nk nv size) (ref_clear_pre nk nv size).
Proof. exact gen_clear_pre_eq. Qed.
Print Assumptions gen_clear_pre_matches_model.
Theorem gen_clear_step_matches_model : forall (cmp : Z -> Z -> Z) (nk nv : Z -> Z) (i size : Z), 0 <= i < 4611686018427387904 -> 0 <= size < 4611686018427387904 -> res_eq (gen_clear_step cmp nk nv i size) (ref_clear_step nk nv i size).
Proof. exact gen_clear_step_eq. Qed.
Print Assumptions gen_clear_step_matches_model.
Theorem gen_clear_post_matches_model : forall (cmp : Z -> Z -> Z) (nk nv : Z -> Z) (i : Z), res_eq (gen_clear_post cmp nk nv i) (ref_clear_post nk nv i).
Proof. exact gen_clear_post_eq. Qed.
Print Assumptions gen_clear_post_matches_model.
Theorem gen_ins_pre_matches_model : forall (cmp : Z -> Z -> Z) (pa pb : Z -> Z), res_eq (gen_ins_pre cmp pa pb) (ref_ins_pre pa pb).
Proof. exact gen_ins_pre_eq. Qed.
Print Assumptions gen_ins_pre_matches_model.
Theorem gen_ins_outer_step_matches_model : forall (cmp : Z -> Z -> Z) (pa pb : Z -> Z) (i count : Z), 0 <= i < 4611686018427387904 -> 0 <= count < 4611686018427387904 -> res_eq (gen_ins_outer_step cmp pa pb i count) (ref_ins_outer_step pa pb i count).
Proof. exact gen_ins_outer_step_eq. Qed.
Print Assumptions gen_ins_outer_step_matches_model.
Theorem gen_ins_inner_step_matches_model : forall (cmp : Z -> Z -> Z) (kf : Z -> Z), cmp_ok cmp kf -> forall (pa pb : Z -> Z) (j tmp : Z), 0 <= j < 4611686018427387904 -> res_eq (gen_ins_inner_step cmp pa pb j tmp) (ref_ins_inner_step kf pa pb j tmp).
Proof. exact gen_ins_inner_step_eq. Qed.
Print Assumptions gen_ins_inner_step_matches_model.
Theorem gen_ins_inner_post_matches_model : forall (cmp : Z -> Z -> Z) (pa pb : Z -> Z) (j i tmp : Z), 0 <= i < 4611686018427387904 -> res_eq (gen_ins_inner_post cmp pa pb j i tmp) (ref_ins_inner_post pa pb j i tmp).
Proof. exact gen_ins_inner_post_eq. Qed.
Print Assumptions gen_ins_inner_post_matches_model.
Theorem gen_ins_outer_post_matches_model : forall (cmp : Z -> Z -> Z) (pa pb : Z -> Z) (i : Z), res_eq (gen_ins_outer_post cmp pa pb i) (ref_ins_outer_post pa pb i).
Proof. exact gen_ins_outer_post_eq. Qed.
Print Assumptions gen_ins_outer_post_matches_model.
Theorem gen_shell_pre_matches_model : forall (cmp : Z -> Z -> Z) (pa pb : Z -> Z) (count : Z), 0 <= count < 4611686018427387904 -> res_eq (gen_shell_pre cmp pa pb count) (ref_shell_pre pa pb count).
Proof. exact gen_shell_pre_eq. Qed.
Print Assumptions gen_shell_pre_matches_model.
Theorem gen_shell_gap_step_matches_model : forall (cmp : Z -> Z -> Z) (pa pb : Z -> Z) (inc : Z), 0 <= inc < 4611686018427387904 -> res_eq (gen_shell_gap_step cmp pa pb inc) (ref_shell_gap_step pa pb inc).
Proof. exact gen_shell_gap_step_eq. Qed.
Print Assumptions gen_shell_gap_step_matches_model.
Theorem gen_shell_mid_step_matches_model : forall (cmp : Z -> Z -> Z) (pa pb : Z -> Z) (i inc count : Z), 0 <= i < 4611686018427387904 -> 0 <= count < 4611686018427387904 -> res_eq (gen_shell_mid_step cmp pa pb i inc count) (ref_shell_mid_step pa pb i inc count).
Proof. exact gen_shell_mid_step_eq. Qed.
Print Assumptions gen_shell_mid_step_matches_model.
Theorem gen_shell_inner_step_matches_model : forall (cmp : Z -> Z -> Z) (kf : Z -> Z), cmp_ok cmp kf -> forall (pa pb : Z -> Z) (j inc tmp : Z), 0 <= j < 4611686018427387904 -> 0 <= inc < 4611686018427387904 -> res_eq (gen_shell_inner_step cmp pa pb j inc tmp) (ref_shell_inner_step kf pa pb j inc tmp).
Proof. exact gen_shell_inner_step_eq. Qed.
Print Assumptions gen_shell_inner_step_matches_model.
Theorem gen_shell_inner_post_matches_model : forall (cmp : Z -> Z -> Z) (pa pb : Z -> Z) (j i tmp : Z), 0 <= i < 4611686018427387904 -> res_eq (gen_shell_inner_post cmp pa pb j i tmp) (ref_shell_inner_post pa pb j i tmp).
Proof. exact gen_shell_inner_post_eq. Qed.
Print Assumptions gen_shell_inner_post_matches_model.
Theorem gen_shell_mid_post_matches_model : forall (cmp : Z -> Z -> Z) (pa pb : Z -> Z) (i inc : Z), 0 <= inc < 4611686018427387904 -> res_eq (gen_shell_mid_post cmp pa pb i inc) (ref_shell_mid_post pa pb i inc).
Proof. exact gen_shell_mid_post_eq. Qed.
Print Assumptions gen_shell_mid_post_matches_model.
Theorem gen_shell_gap_post_matches_model : forall (cmp : Z -> Z -> Z) (pa pb : Z -> Z) (inc : Z), res_eq (gen_shell_gap_post cmp pa pb inc) (ref_shell_gap_post pa pb inc).
Proof. exact gen_shell_gap_post_eq. Qed.
Print Assumptions gen_shell_gap_post_matches_model.
Theorem gen_hsort_pre_matches_model : forall (cmp : Z -> Z -> Z) (pa pb : Z -> Z) (count r1 : Z), 0 <= count < 4611686018427387904 -> res_eq (gen_hsort_pre cmp pa pb count r1) (ref_hsort_pre pa pb count r1).
Proof. exact gen_hsort_pre_eq. Qed.
Print Assumptions gen_hsort_pre_matches_model.
Theorem gen_hsort_fill_step_matches_model : forall (cmp : Z -> Z -> Z) (pa pb : Z -> Z) (i count : Z), 0 <= i < 4611686018427387904 -> 0 <= count < 4611686018427387904 -> res_eq (gen_hsort_fill_step cmp pa pb i count) (ref_hsort_fill_step pa pb i count).
Proof. exact gen_hsort_fill_step_eq. Qed.
Print Assumptions gen_hsort_fill_step_matches_model.
Theorem gen_hsort_fill_post_matches_model : forall (cmp : Z -> Z -> Z) (pa pb : Z -> Z) (i : Z), res_eq (gen_hsort_fill_post cmp pa pb i) (ref_hsort_fill_post pa pb i).
Proof. exact gen_hsort_fill_post_eq. Qed.
Print Assumptions gen_hsort_fill_post_matches_model.
Theorem gen_hsort_drain_step_matches_model : forall (cmp : Z -> Z -> Z) (pa pb : Z -> Z) (i count key value : Z), 0 <= i < 4611686018427387904 -> 0 <= count < 4611686018427387904 -> res_eq (gen_hsort_drain_step cmp pa pb i count key value) (ref_hsort_drain_step pa pb i count key value).
Proof. exact gen_hsort_drain_step_eq. Qed.
Print Assumptions gen_hsort_drain_step_matches_model.
Theorem gen_hsort_drain_post_matches_model : forall (cmp : Z -> Z -> Z) (pa pb : Z -> Z) (i : Z), res_eq (gen_hsort_drain_post cmp pa pb i) (ref_hsort_drain_post pa pb i).
Proof. exact gen_hsort_drain_post_eq. Qed.
Print Assumptions gen_hsort_drain_post_matches_model.
Theorem gen_mrec_pre_matches_model : forall (cmp : Z -> Z -> Z) (pa pb : Z -> Z) (left right : Z) (a1 b1 a2 b2 : Z -> Z), 0 <= left < 4611686018427387904 -> 0 <= right < 4611686018427387904 -> res_eq (gen_mrec_pre cmp pa pb left right a1 b1 a2 b2) (ref_mrec_pre pa pb left right a1 b1 a2 b2).
Proof. exact gen_mrec_pre_eq. Qed.
Print Assumptions gen_mrec_pre_matches_model.
Theorem gen_mrec_merge_step_matches_model : forall (cmp : Z -> Z -> Z) (kf : Z -> Z), cmp_ok cmp kf -> forall (pa pb : Z -> Z) (l r idx center right : Z), 0 <= l < 4611686018427387904 -> 0 <= r < 4611686018427387904 -> 0 <= idx < 4611686018427387904 -> 0 <= center < 4611686018427387904 -> 0 <= right < 4611686018427387904 -> l <= center -> r <= right -> idx <= right -> res_eq (gen_mrec_merge_step cmp pa pb l r idx center right) (ref_mrec_merge_step kf pa pb l r idx center right).
Proof. exact gen_mrec_merge_step_eq. Qed.
Print Assumptions gen_mrec_merge_step_matches_model.
Theorem gen_msort_pre_matches_model : forall (cmp : Z -> Z -> Z) (pa pb : Z -> Z) (count ok : Z) (m a2 : Z -> Z), 0 <= count < 4611686018427387904 -> res_eq (gen_msort_pre cmp pa pb count ok m a2) (ref_msort_pre pa pb count ok m a2).
Proof. exact gen_msort_pre_eq. Qed.
Print Assumptions gen_msort_pre_matches_model.
Theorem gen_qrec_pre_matches_model : forall (cmp : Z -> Z -> Z) (kf : Z -> Z), cmp_ok cmp kf -> forall (pa pb : Z -> Z) (left right : Z) (ains : Z -> Z), 0 <= left < 4611686018427387904 -> 0 <= right < 4611686018427387904 -> left <= right + 1 -> res_eq (gen_qrec_pre cmp pa pb left right ains) (ref_qrec_pre kf (Z.of_nat quick_sort_cutoff) pa pb left right ains).
Proof. exact gen_qrec_pre_eq. Qed.
Print Assumptions gen_qrec_pre_matches_model.
Theorem gen_qrec_part_step_matches_model : forall (cmp : Z -> Z -> Z) (pa pb : Z -> Z) (i j pivot : Z), res_eq (gen_qrec_part_step cmp pa pb i j pivot) (ref_qrec_part_step pa pb i j pivot).
Proof. exact gen_qrec_part_step_eq. Qed.
Print Assumptions gen_qrec_part_step_matches_model.
Theorem gen_qrec_up_step_matches_model : forall (cmp : Z -> Z -> Z) (kf : Z -> Z), cmp_ok cmp kf -> forall (pa pb : Z -> Z) (i pivot : Z), 0 <= i < 4611686018427387904 -> res_eq (gen_qrec_up_step cmp pa pb i pivot) (ref_qrec_up_step kf pa pb i pivot).
Proof. exact gen_qrec_up_step_eq. Qed.
Print Assumptions gen_qrec_up_step_matches_model.
Theorem gen_qrec_up_post_matches_model : forall (cmp : Z -> Z -> Z) (pa pb : Z -> Z) (i pivot j : Z), res_eq (gen_qrec_up_post cmp pa pb i pivot j) (ref_qrec_up_post pa pb i pivot j).
Proof. exact gen_qrec_up_post_eq. Qed.
Print Assumptions gen_qrec_up_post_matches_model.
Theorem gen_qrec_down_step_matches_model : forall (cmp : Z -> Z -> Z) (kf : Z -> Z), cmp_ok cmp kf -> forall (pa pb : Z -> Z) (j pivot : Z), 0 < j < 4611686018427387904 -> res_eq (gen_qrec_down_step cmp pa pb j pivot) (ref_qrec_down_step kf pa pb j pivot).
Proof. exact gen_qrec_down_step_eq. Qed.
Print Assumptions gen_qrec_down_step_matches_model.
Theorem gen_qrec_down_post_matches_model : forall (cmp : Z -> Z -> Z) (pa pb : Z -> Z) (j i : Z), 0 <= i < 4611686018427387904 -> 0 <= j < 4611686018427387904 -> res_eq (gen_qrec_down_post cmp pa pb j i) (ref_qrec_down_post pa pb j i).
Proof. exact gen_qrec_down_post_eq. Qed.
Print Assumptions gen_qrec_down_post_matches_model.
Theorem gen_qrec_part_post_matches_model : forall (cmp : Z -> Z -> Z) (pa pb : Z -> Z) (i j left right : Z) (a4 a5 : Z -> Z), 0 < i < 4611686018427387904 -> 0 < right < 4611686018427387904 -> res_eq (gen_qrec_part_post cmp pa pb i j left right a4 a5) (ref_qrec_part_post pa pb i j left right a4 a5).
Proof. exact gen_qrec_part_post_eq. Qed.
Print Assumptions gen_qrec_part_post_matches_model.
Theorem gen_qsort_pre_matches_model : forall (cmp : Z -> Z -> Z) (pa pb : Z -> Z) (count : Z) (a1 : Z -> Z), 0 <= count < 4611686018427387904 -> res_eq (gen_qsort_pre cmp pa pb count a1) (ref_qsort_pre pa pb count a1).
Proof. exact gen_qsort_pre_eq. Qed.
Print Assumptions gen_qsort_pre_matches_model.

(* ------------------------------------------------ the model's loops are the iterations of those segments *)
(* one unfolding of the fuelled fixpoint of C10/Model.v = one application of the ref_ step of C10/Steps.v on the
   arrays that represent the list (rep / repa): when the step continues, the fixpoint continues on a list its
   arrays represent with its new loop variable; when it exits, the fixpoint returns the list that the ref_ post
   segment's arrays represent *)
Theorem model_sift_up_is_insert_step : forall (kf : nat -> Z) (f : nat) (ns : list node) (idx k v : nat) (nk nv : Z -> Z) (cap size : Z), rep ns nk nv -> (idx < length ns)%nat -> let r := ref_insert_step (kfz kf) nk nv (Z.of_nat idx) (Z.of_nat k) in g_tag r = 10 /\ (exists idx' : nat, g_vals r = [Z.of_nat idx'] /\ (idx' < length ns)%nat /\ (exists ns' : list node, rep ns' (g_a r) (g_b r) /\ length ns' = length ns /\ sift_up kf (S f) ns idx k v = sift_up kf f ns' idx' k v)) \/ g_tag r = 50 /\ g_vals r = [Z.of_nat idx] /\ (let p := ref_insert_post (g_a r) (g_b r) (Z.of_nat idx) cap size (Z.of_nat k) (Z.of_nat v) in g_tag p = 0 /\ (exists ns' : list node, rep ns' (g_a p) (g_b p) /\ sift_up kf (S f) ns idx k v = Some ns')).
Proof. exact sift_up_is_insert_step. Qed.
Print Assumptions model_sift_up_is_insert_step.
Theorem model_sift_down_is_extract_step : forall (kf : nat -> Z) (f : nat) (ns : list node) (i lidx sz : nat) (nk nv : Z -> Z) (ok ov : Z), rep ns nk nv -> (lidx < length ns)%nat -> (sz < lidx)%nat -> (i < length ns)%nat -> let last := getn ns lidx in let r := ref_extract_step (kfz kf) nk nv (Z.of_nat i) (Z.of_nat lidx) (Z.of_nat sz) in g_tag r = 10 /\ (exists c : nat, g_vals r = [Z.of_nat c] /\ (c < length ns)%nat /\ (exists ns' : list node, rep ns' (g_a r) (g_b r) /\ length ns' = length ns /\ getn ns' lidx = last /\ sift_down kf (S f) ns i last sz = sift_down kf f ns' c last sz)) \/ g_tag r = 50 /\ g_vals r = [Z.of_nat i] /\ (let p := ref_extract_post (g_a r) (g_b r) (Z.of_nat i) (Z.of_nat lidx) (Z.of_nat sz) ok ov in g_tag p = 0 /\ (exists ns' : list node, rep ns' (g_a p) (g_b p) /\ sift_down kf (S f) ns i last sz = Some ns')).
Proof. exact sift_down_is_extract_step. Qed.
Print Assumptions model_sift_down_is_extract_step.
Theorem model_remove_loop_is_remove_step : forall (kf : nat -> Z) (f : nat) (ns : list node) (idx lidx sz : nat) (nk nv : Z -> Z), rep ns nk nv -> (lidx < length ns)%nat -> (sz < lidx)%nat -> (1 <= idx <= sz)%nat -> let last := getn ns lidx in let r := ref_remove_step (kfz kf) nk nv (Z.of_nat idx) (Z.of_nat lidx) (Z.of_nat sz) in g_tag r = 10 /\ (exists c : nat, g_vals r = [Z.of_nat c] /\ (1 <= c <= sz)%nat /\ (exists ns' : list node, rep ns' (g_a r) (g_b r) /\ length ns' = length ns /\ getn ns' lidx = last /\ remove_loop kf (S f) ns idx last sz = remove_loop kf f ns' c last sz)) \/ g_tag r = 50 /\ g_vals r = [Z.of_nat idx] /\ (let p := ref_remove_post (g_a r) (g_b r) (Z.of_nat idx) (Z.of_nat lidx) (Z.of_nat sz) in g_tag p = 0 /\ (exists ns' : list node, rep ns' (g_a p) (g_b p) /\ remove_loop kf (S f) ns idx last sz = Some ns')).
Proof. exact remove_loop_is_remove_step. Qed.
Print Assumptions model_remove_loop_is_remove_step.
Theorem model_ins_inner_is_inner_step : forall (kf : nat -> Z) (tmp base j : nat) (a : list nat) (pa pb : Z -> Z) (i : Z), repa base a pa -> (base + j < length a)%nat -> let r := ref_ins_inner_step (kfz kf) pa pb (Z.of_nat j) (Z.of_nat tmp) in g_tag r = 11 /\ (exists j' : nat, j = S j' /\ g_vals r = [Z.of_nat j'] /\ (exists a' : list nat, repa base a' (g_a r) /\ length a' = length a /\ ins_inner kf tmp base j a = ins_inner kf tmp base j' a')) \/ g_tag r = 51 /\ g_vals r = [Z.of_nat j] /\ (let p := ref_ins_inner_post (g_a r) (g_b r) (Z.of_nat j) i (Z.of_nat tmp) in g_tag p = 10 /\ (exists a' : list nat, repa base a' (g_a p) /\ ins_inner kf tmp base j a = a')).
Proof. exact ins_inner_is_inner_step. Qed.
Print Assumptions model_ins_inner_is_inner_step.
Theorem model_scan_up_is_up_step : forall (kf : nat -> Z) (f : nat) (a : list nat) (pa pb : Z -> Z) (pivot i : nat), repa 0 a pa -> (S i < length a)%nat -> let r := ref_qrec_up_step (kfz kf) pa pb (Z.of_nat i) (Z.of_nat pivot) in g_vals r = [Z.of_nat (S i)] /\ g_a r = pa /\ (g_tag r = 11 /\ scan_up kf (S f) a pivot i = scan_up kf f a pivot (S i) \/ g_tag r = 51 /\ scan_up kf (S f) a pivot i = Some (S i)).
Proof. exact scan_up_is_up_step. Qed.
Print Assumptions model_scan_up_is_up_step.
Theorem model_scan_down_is_down_step : forall (kf : nat -> Z) (a : list nat) (pa pb : Z -> Z) (pivot j : nat), repa 0 a pa -> (S j <= length a)%nat -> let r := ref_qrec_down_step (kfz kf) pa pb (Z.of_nat (S j)) (Z.of_nat pivot) in g_vals r = [Z.of_nat j] /\ g_a r = pa /\ (g_tag r = 12 /\ scan_down kf a pivot (S j) = scan_down kf a pivot j \/ g_tag r = 52 /\ scan_down kf a pivot (S j) = Some j).
Proof. exact scan_down_is_down_step. Qed.
Print Assumptions model_scan_down_is_down_step.
