(* C04 — property theorems only (proved in C04/Proofs*.v), instantiated with the memory
   orders re-extracted from the code on this run (gen/Params_C04.v). *)
From MV Require Import C04.Model C04.ProofsLock C04.ProofsOnce C04.ProofsRef gen.Params_C04.
Local Open Scope Z_scope.

(* side condition on the code's memory orders: acquire on lock acquisition / READY load,
   release on unlock / READY store *)
Theorem c04_memory_orders_sufficient :
  lock_mo_ok code_params KSpin = true /\ lock_mo_ok code_params KSync = true /\
  lock_mo_ok code_params KMutex = true /\ once_mo_ok code_params = true.
Proof. vm_compute. repeat split; reflexivity. Qed.
Print Assumptions c04_memory_orders_sufficient.

(* spinlock / synclock / mutex: at most one holder, in every reachable state of every
   schedule (spurious weak-CAS failures and futex wake-ups included), any number of threads;
   the harness monitor never sees an overlap *)
Theorem lock_mutual_exclusion_all_schedules : forall k n it sched t u,
  let s := exec lsys (lstep code_params true) (linit k n it) sched in
  (holds (l_pc (l_thr s t)) = true -> holds (l_pc (l_thr s u)) = true -> t = u) /\
  l_overlaps s = 0%nat.
Proof.
  intros k n it sched t u s. split.
  - exact (lock_at_most_one_holder code_params k n it sched t u).
  - exact (lock_no_overlap_observed code_params k n it sched).
Qed.
Print Assumptions lock_mutual_exclusion_all_schedules.

(* what one holder wrote inside the critical section is visible to the next holder: every
   plain read of the protected cell is covered by the reader's view *)
Theorem lock_previous_holder_writes_visible : forall k n it sched,
  lock_mo_ok code_params k = true ->
  LockInv k (exec lsys (lstep code_params true) (linit k n it) sched) /\
  l_uncovered (exec lsys (lstep code_params true) (linit k n it) sched) = 0%nat.
Proof.
  intros k n it sched H. split.
  - exact (lock_invariants code_params k n it sched H).
  - exact (lock_reads_covered code_params k n it sched H).
Qed.
Print Assumptions lock_previous_holder_writes_visible.

(* call_once: the body starts at most once; a caller that returns finds it completed (exactly
   one run) and its effects visible *)
Theorem call_once_runs_once_before_any_return : forall n sched t,
  let s := exec osys (ostep code_params) (oinit n) sched in
  (o_runs s <= 1)%nat /\
  (returned (o_pc (o_thr s t)) = true ->
   o_runs s = 1%nat /\ o_done s = 1 /\ o_seen (o_thr s t) = o_dver s /\ o_early s = 0%nat).
Proof.
  intros n sched t s. destruct c04_memory_orders_sufficient as (_ & _ & _ & H). split.
  - exact (once_at_most_once code_params n sched H).
  - exact (once_no_early_return code_params n sched t H).
Qed.
Print Assumptions call_once_runs_once_before_any_return.

(* reference counter: every execution's results are those of the sequential saturating
   counter applied in linearisation order *)
Theorem refcnt_linearizable : forall n v0 scripts sched,
  let s := exec rsys (rstep code_params) (rinit n v0 scripts) sched in
  rspec_run v0 (map fst (r_lin s)) = (r_ref s, map snd (r_lin s)).
Proof. exact (refcnt_linearizable_all code_params). Qed.
Print Assumptions refcnt_linearizable.

(* ... hence at most one release ever observes zero and the counter never leaves zero *)
Theorem refcnt_single_zero : forall n v0 scripts sched, 0 < v0 ->
  let s := exec rsys (rstep code_params) (rinit n v0 scripts) sched in
  (count_occ Z.eq_dec (map snd (r_lin s)) 0%Z <= 1)%nat /\ 0 <= r_ref s.
Proof. exact (refcnt_single_zero_all code_params). Qed.
Print Assumptions refcnt_single_zero.
