(* C04 — property theorems only (proved in C04/Proofs*.v), instantiated with what is re-extracted from the
   repository on this run (gen/Params_C04.v): the memory orders at the call sites, atomic.h and the scheduler
   hooks as gcc sees them, the loop bodies and the C type of the reference counter. *)
From Coq Require Import String.
From MV Require Import Lib.AtomicTie C04.Model C04.AtomicSites C04.ProofsLock C04.ProofsOnce C04.ProofsRef C04.ProofsGen
  gen.Params_C04.
Local Open Scope Z_scope.

(* atomic.h (GCC branch, as compiled in the checked configuration): every muggle_atomic_* macro is exactly the
   __atomic builtin the models assume, with every macro parameter in its place (pointer, value(s), memory
   order as success order, relaxed failure order, weak flag), the result returned as is (test_and_set:
   negated); the hook that replaces it in the scheduled runs performs the same builtin on the same operands
   with the call site's order and logs that order; no other macro escapes the hooks; the order constants are
   the builtin's; the operand types have the expected sizes *)
Theorem atomic_macros_are_the_hooked_builtins :
  atomic_tie_holds header_atomic_table hook_atomic_table unhooked_atomic_macros memory_order_consts atomic_types.
Proof. exact atomic_tie_checked. Qed.
Print Assumptions atomic_macros_are_the_hooked_builtins.

(* hence the memory order written at each of the 8 call sites is the one the builtin receives *)
Theorem c04_call_site_orders_reach_the_builtins :
  effective_params header_atomic_table code_params = code_params.
Proof. exact effective_params_code. Qed.
Print Assumptions c04_call_site_orders_reach_the_builtins.

(* side condition on the orders that reach the builtins: acquire on lock acquisition / READY load,
   release on unlock / READY store (every lock kind; mutex and trylock are pthread's) *)
Theorem c04_memory_orders_sufficient :
  let E := effective_params header_atomic_table code_params in
  lock_mo_ok E KSpin = true /\ lock_mo_ok E KSync = true /\ lock_mo_ok E KMutex = true /\
  lock_mo_ok E KTry = true /\ lock_mo_ok E KNest = true /\ lock_mo_ok E KNestTry = true /\ once_mo_ok E = true.
Proof. exact effective_orders_sufficient. Qed.
Print Assumptions c04_memory_orders_sufficient.

(* spinlock / synclock / mutex: at most one holder, in every reachable state of every
   schedule (spurious weak-CAS failures and futex wake-ups included), any number of threads;
   the harness monitor never sees an overlap *)
Theorem lock_mutual_exclusion_all_schedules : forall k n it sched t u,
  let s := exec lsys (lstep code_params true) (linit k n it) sched in
  (holds (l_pc (l_thr s t)) = true -> holds (l_pc (l_thr s u)) = true -> t = u) /\
  l_overlaps s = 0%nat.
Proof.
  intros k n it sched t u s. split.
  - exact (lock_at_most_one_holder code_params k n it sched t u).
  - exact (lock_no_overlap_observed code_params k n it sched).
Qed.
Print Assumptions lock_mutual_exclusion_all_schedules.

(* what one holder wrote inside the critical section is visible to the next holder: every
   plain read of the protected cell is covered by the reader's view *)
Theorem lock_previous_holder_writes_visible : forall k n it sched,
  lock_mo_ok code_params k = true ->
  LockInv k (exec lsys (lstep code_params true) (linit k n it) sched) /\
  l_uncovered (exec lsys (lstep code_params true) (linit k n it) sched) = 0%nat.
Proof.
  intros k n it sched H. split.
  - exact (lock_invariants code_params k n it sched H).
  - exact (lock_reads_covered code_params k n it sched H).
Qed.
Print Assumptions lock_previous_holder_writes_visible.

(* a nested muggle_mutex_lock by the holder never returns (muggle_mutex_t is a default pthread mutex, see
   mutex_is_a_default_pthread_mutex): while thread 0 of the nested client is at that call it holds the mutex, the
   call is enabled under no schedule choice, nobody else holds and no overlap was ever observed.  The
   implementation shows this as the scheduler's DEADLOCK event, which the nested scenarios expect *)
Theorem nested_mutex_lock_by_owner_never_returns : forall k n it sched ch,
  let s := exec lsys (lstep code_params true) (linit k n it) sched in
  l_pc (l_thr s 0%nat) = LNest ->
  lstep code_params true s 0%nat ch = None /\ l_lock s = 1 /\
  (forall u, holds (l_pc (l_thr s u)) = true -> u = 0%nat) /\ l_overlaps s = 0%nat.
Proof. exact (nested_lock_by_owner_is_stuck code_params). Qed.
Print Assumptions nested_mutex_lock_by_owner_never_returns.

(* mutex.c, pthread branch, re-translated from the C text on this run: destroy / lock / trylock / unlock make
   exactly one pthread call and map its result 0 to MUGGLE_OK and EVERY other value to their (non-zero) error
   code; init (which may prepare an attribute object first) returns MUGGLE_OK exactly when its pthread calls
   return 0 *)
Theorem mutex_result_mapping_matches_model :
  (code_MUGGLE_OK = 0 /\ code_MUGGLE_ERR_SYS_CALL <> 0 /\ code_MUGGLE_ERR_ACQ_LOCK <> 0) /\
  forall rc,
  fst (gen_mutex_init 0 rc) = fst (mres code_MUGGLE_ERR_SYS_CALL rc) /\
  gen_mutex_destroy 0 rc = mres code_MUGGLE_ERR_SYS_CALL rc /\
  gen_mutex_lock 0 rc = mres code_MUGGLE_ERR_SYS_CALL rc /\
  gen_mutex_trylock 0 rc = mres code_MUGGLE_ERR_ACQ_LOCK rc /\
  gen_mutex_unlock 0 rc = mres code_MUGGLE_ERR_SYS_CALL rc.
Proof. exact (conj mutex_codes gen_mutex_eq). Qed.
Print Assumptions mutex_result_mapping_matches_model.

(* .. and muggle_mutex_init succeeds and creates a mutex of the default (non-recursive, non-error-checking)
   pthread type, as observed by the wrapped pthread_mutex_init on this run: the type the lock model assumes *)
Theorem mutex_is_a_default_pthread_mutex :
  code_mutex_init_rc = code_MUGGLE_OK /\
  (code_mutex_type = pthread_mutex_normal \/ code_mutex_type = pthread_mutex_default).
Proof. exact mutex_type_default. Qed.
Print Assumptions mutex_is_a_default_pthread_mutex.

(* call_once, any number of once-flags in flight, any number of racers, any call script per racer (the same flag
   may be called again after READY): for every flag f the body starts at most once; a caller that is returning
   from a call on f, or has completed one earlier (whatever it is calling now), finds f's run completed
   (exactly one run) and its effects visible *)
Theorem call_once_runs_once_before_any_return : forall f n scripts sched t,
  let s := exec osys (ostep code_params) (oinit n scripts) sched in
  (o_runs s f <= 1)%nat /\
  ((o_cur (o_thr s t) = f /\ returned (o_pc (o_thr s t)) = true) \/ (0 < o_rets (o_thr s t) f)%nat ->
   o_runs s f = 1%nat /\ o_done s f = 1 /\ o_seen (o_thr s t) f = o_dver s f /\ o_early s f = 0%nat).
Proof.
  intros f n scripts sched t s. split.
  - exact (once_at_most_once code_params f n scripts sched once_mo_ok_code).
  - exact (once_no_early_return code_params f n scripts sched t once_mo_ok_code).
Qed.
Print Assumptions call_once_runs_once_before_any_return.

(* reference counter: every execution's results are those of the sequential saturating
   counter applied in linearisation order *)
Theorem refcnt_linearizable : forall n v0 scripts sched,
  let s := exec rsys (rstep code_params) (rinit n v0 scripts) sched in
  rspec_run v0 (map fst (r_lin s)) = (r_ref s, map snd (r_lin s)).
Proof. exact (refcnt_linearizable_all code_params). Qed.
Print Assumptions refcnt_linearizable.

(* ... hence at most one release ever observes zero and the counter never leaves zero *)
Theorem refcnt_single_zero : forall n v0 scripts sched, 0 < v0 ->
  let s := exec rsys (rstep code_params) (rinit n v0 scripts) sched in
  (count_occ Z.eq_dec (map snd (r_lin s)) 0%Z <= 1)%nat /\ 0 <= r_ref s.
Proof. exact (refcnt_single_zero_all code_params). Qed.
Print Assumptions refcnt_single_zero.

(* the counter is a C int: `desired = v + 1` at INT_MAX is a signed overflow (undefined behaviour) and the
   code has no refusal there.  The two theorems above describe the C code only for executions without it
   (r_ovf = 0); that is guaranteed, together with the counter staying inside the type, when the initial value
   plus the number of retains in the scripts does not exceed INT_MAX *)
Theorem refcnt_in_range : forall n v0 scripts sched, 0 < v0 ->
  v0 + Z.of_nat (total Retain n scripts) <= ref_max ->
  let s := exec rsys (rstep code_params) (rinit n v0 scripts) sched in
  r_ovf s = 0%nat /\ 0 <= r_ref s <= ref_max.
Proof. exact (refcnt_in_range_all code_params). Qed.
Print Assumptions refcnt_in_range.

(* 'exactly one release observes zero', the other half: when every thread has finished and the scripts hold
   at least (initial value + number of retains) releases, exactly one release returned 0 and the counter is 0 *)
Theorem refcnt_exactly_one_zero : forall n v0 scripts sched, 0 < v0 ->
  v0 + Z.of_nat (total Retain n scripts) <= Z.of_nat (total Release n scripts) ->
  let s := exec rsys (rstep code_params) (rinit n v0 scripts) sched in
  (forall t, (t < n)%nat -> r_pc (r_thr s t) = RDone) ->
  count_occ Z.eq_dec (map snd (r_lin s)) 0%Z = 1%nat /\ r_ref s = 0.
Proof. exact (refcnt_exactly_one_zero_all code_params). Qed.
Print Assumptions refcnt_exactly_one_zero.

(* the loop bodies of muggle_ref_cnt_retain / _release, re-translated from the C text on this run, are the
   model's: refusal exactly at 0, expected = the value read, desired = result = value +- 1, one
   compare-exchange per pass, no further pass after a successful one; every C type carrying the value is a
   signed type at least as wide as the model's counter *)
Theorem ref_loop_body_matches_model : forall v, 0 <= v <= ref_max ->
  gen_ref_retain 0 0 0 v 0 = rbody_tuple Retain v /\ gen_ref_release 0 0 0 v 0 = rbody_tuple Release v.
Proof. exact (fun v H => conj (gen_ref_retain_eq v H) (gen_ref_release_eq v H)). Qed.
Print Assumptions ref_loop_body_matches_model.

Theorem ref_counter_type_matches_model :
  (In ("muggle_ref_cnt_t"%string, ref_bits / 8, true) atomic_types /\ ref_max = 2 ^ (ref_bits - 1) - 1) /\
  ref_types_ok gen_ref_retain_types = true /\ ref_types_ok gen_ref_release_types = true.
Proof. exact (conj ref_type_is_model gen_ref_types_ok). Qed.
Print Assumptions ref_counter_type_matches_model.

(* .. and that loop body is what the model's step does with a pending operation *)
Theorem ref_loop_body_drives_model : forall s t o rest, (t < r_n s)%nat ->
  r_pc (r_thr s t) = RSeg -> r_ops (r_thr s t) = o :: rest ->
  exists s' notes, rstep code_params s t 0%nat = Some (s', LPlain notes) /\
  match rbody o (r_ref s) with
  | None => In (o, -1) (r_lin s') /\ r_ref s' = r_ref s
  | Some (e, d, res) =>
    r_pc (r_thr s' t) = RCas e d /\ r_ops (r_thr s' t) = o :: rest /\ r_lin s' = r_lin s /\
    (r_ref s' = e ->
     exists s'' mo, rstep code_params s' t 0%nat = Some (s'', LEv (Ev OCasS ref_cell mo e d 1)) /\
                    r_ref s'' = d /\ r_lin s'' = r_lin s' ++ [(o, res)])
  end.
Proof. exact (rbody_drives_rstep code_params). Qed.
Print Assumptions ref_loop_body_drives_model.
