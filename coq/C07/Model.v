(* C07 — bytes buffer: executable model transcribing
   muggle/c/memory/bytes_buffer.c (with the three repairs of
   /verif/fixes/C07-*.patch: writers reset the truncation mark when the write
   position REACHES it, reader_move wraps at the mark like read does,
   writer_move_n commits a region at the pointer it was given even when the
   reader emptied the buffer - refresh() went back to the origin - after the
   region was handed out).

   State = the struct's fields c w r t and the byte array (a list of length c).
   Pointers into the array are offsets.  Every memcpy of the C code is one
   [sub] (read of a range) or [blit] (write of a range) and contributes one
   (offset, length) entry to the access list the operation returns; a region
   handed to the caller by writer_fc / reader_fc is an entry too.
   C [int] overflow is not modelled: every comparison of the code is made before
   the addition it guards, so sizes up to INT_MAX never overflow; capacities are
   far below 2^31.  Sizes are compared as signed integers (Z), as in C. *)
From Coq Require Export List ZArith Lia Bool.
Export ListNotations.
Local Open Scope Z_scope.

Definition byte := Z.
Definition acc := list (Z * Z).              (* (offset, length) ranges touched *)

Record bb := mkbb { cap : Z; wp : Z; rp : Z; tp : Z; buf : list byte }.

Definition len (l : list byte) : Z := Z.of_nat (length l).

(* bytes [off, off+n) of an array *)
Definition sub (l : list byte) (off n : Z) : list byte :=
  firstn (Z.to_nat n) (skipn (Z.to_nat off) l).

(* memcpy(l + off, src, |src|) *)
Definition blit (l : list byte) (off : Z) (src : list byte) : list byte :=
  firstn (Z.to_nat off) l ++ src ++ skipn (Z.to_nat off + length src) l.

(* muggle_bytes_buffer_init; malloc'ed contents are a filler chosen by the caller *)
Definition init (c : Z) (fill : byte) : bb :=
  mkbb c 0 0 c (repeat fill (Z.to_nat c)).

(* ... which returns false when malloc fails.  malloc((size_t)capacity) of a
   negative int asks for more than 2^63 bytes and cannot succeed (LP64);
   capacity 0 is a successful malloc(0): c = t = 0. *)
Definition init_opt (c : Z) (fill : byte) (alloc_ok : bool) : option bb :=
  if (c <? 0) || negb alloc_ok then None else Some (init c fill).

(* ---- static helpers (three-case accounting of the header comment) ---- *)

Definition contiguous_writable (s : bb) : Z :=
  if rp s <=? wp s (* w >= r *) then
    (if negb (rp s =? 0) then cap s - wp s else cap s - wp s - 1)
  else rp s - wp s - 1.

Definition jump_writable (s : bb) : Z :=
  if rp s <=? wp s then (if negb (rp s =? 0) then rp s - 1 else 0) else 0.

Definition jump_readable (s : bb) : Z :=
  if rp s <=? wp s then 0 else wp s.

Definition contiguous_readable (s : bb) : Z :=
  if rp s <=? wp s then wp s - rp s else tp s - rp s.

Definition writable (s : bb) : Z := contiguous_writable s + jump_writable s.
Definition readable (s : bb) : Z := contiguous_readable s + jump_readable s.

(* muggle_bytes_buffer_clear *)
Definition clear (s : bb) : bb := mkbb (cap s) 0 0 (cap s) (buf s).

(* muggle_bytes_buffer_refresh *)
Definition refresh (s : bb) : bb := if wp s =? rp s then clear s else s.

(* ---- copying operations ---- *)

(* muggle_bytes_buffer_fetch: result bytes (None = false) *)
Definition fetch (s : bb) (n : Z) : option (list byte) * acc :=
  let cr := contiguous_readable s in
  if n <=? cr then (Some (sub (buf s) (rp s) n), [(rp s, n)])
  else
    let jr := jump_readable s in
    if cr + jr <? n then (None, [])
    else
      let p1 := if 0 <? cr then sub (buf s) (rp s) cr else [] in
      let remain := n - cr in
      (Some (p1 ++ sub (buf s) 0 remain),
       (if 0 <? cr then [(rp s, cr)] else []) ++ [(0, remain)]).

(* muggle_bytes_buffer_read *)
Definition read (s : bb) (n : Z) : bb * option (list byte) * acc :=
  let cr := contiguous_readable s in
  if n <=? cr then
    let out := sub (buf s) (rp s) n in
    let r1 := rp s + n in
    let r2 := if r1 =? tp s then 0 else r1 in
    (refresh (mkbb (cap s) (wp s) r2 (tp s) (buf s)), Some out, [(rp s, n)])
  else
    let jr := jump_readable s in
    if cr + jr <? n then (s, None, [])
    else
      let p1 := if 0 <? cr then sub (buf s) (rp s) cr else [] in
      let remain := n - cr in
      (refresh (mkbb (cap s) (wp s) remain (tp s) (buf s)),
       Some (p1 ++ sub (buf s) 0 remain),
       (if 0 <? cr then [(rp s, cr)] else []) ++ [(0, remain)]).

(* the part shared by write / writer_move / writer_move_n after "w += n":
   REPAIRED: the mark is reset when t <= w (the code had t < w) *)
Definition advance_w (s : bb) (n : Z) (b : list byte) : bb :=
  let w1 := wp s + n in
  let t1 := if tp s <=? w1 then cap s else tp s in
  let w2 := if w1 =? cap s then 0 else w1 in
  mkbb (cap s) w2 (rp s) t1 b.

(* muggle_bytes_buffer_write(num_bytes = n, src); src holds at least n bytes
   whenever the call can be accepted *)
Definition write_n (s : bb) (n : Z) (src : list byte) : bb * bool * acc :=
  let cw := contiguous_writable s in
  if n <=? cw then
    (advance_w s n (blit (buf s) (wp s) src), true, [(wp s, n)])
  else
    let jw := jump_writable s in
    if cw + jw <? n then (s, false, [])
    else if n <=? jw then
      (mkbb (cap s) n (rp s) (wp s) (blit (buf s) 0 src), true, [(0, n)])
    else
      let b1 := if 0 <? cw then blit (buf s) (wp s) (sub src 0 cw) else buf s in
      let remain := n - cw in
      let b2 := blit b1 0 (sub src cw remain) in
      (mkbb (cap s) remain (rp s) (cap s) b2, true,
       (if 0 <? cw then [(wp s, cw)] else []) ++ [(0, remain)]).

(* the usual call: num_bytes = |src| *)
Definition write (s : bb) (src : list byte) : bb * bool * acc := write_n s (len src) src.

(* ---- zero-copy operations ---- *)

(* muggle_bytes_buffer_writer_fc: offset of the returned pointer, None = NULL *)
Definition writer_fc (s : bb) (n : Z) : option Z :=
  let cw := contiguous_writable s in
  if n <=? cw then Some (wp s)
  else
    let jw := jump_writable s in
    if n <=? jw then Some 0 else None.

(* muggle_bytes_buffer_writer_move (deprecated) *)
Definition writer_move (s : bb) (n : Z) : bb * bool :=
  let cw := contiguous_writable s in
  if n <=? cw then (advance_w s n (buf s), true)
  else
    let jw := jump_writable s in
    if n <=? jw then (mkbb (cap s) n (rp s) (wp s) (buf s), true)
    else (s, false).

(* muggle_bytes_buffer_writer_move_n: ptr given as an offset.
   REPAIRED: when bytes are committed through a pointer that is neither the
   origin nor buffer + w (the reader emptied the buffer after the region was
   handed out and refresh() moved w and r to the origin), w and r are first put
   at the pointer. *)
Definition writer_move_n (s : bb) (ptr : Z) (n : Z) : bb * bool :=
  if ptr =? 0 then
    let t1 := if 0 <? wp s then wp s else tp s in
    (mkbb (cap s) n (rp s) t1 (buf s), true)
  else
    let s1 := if (0 <? n) && negb (ptr =? wp s) then mkbb (cap s) ptr ptr (tp s) (buf s) else s in
    (advance_w s1 n (buf s1), true).

(* muggle_bytes_buffer_reader_fc *)
Definition reader_fc (s : bb) (n : Z) : option Z :=
  let cr := contiguous_readable s in
  if n <=? cr then Some (rp s) else None.

(* muggle_bytes_buffer_reader_move.  REPAIRED: wraps r to 0 at the mark *)
Definition reader_move (s : bb) (n : Z) : bb * bool :=
  let cr := contiguous_readable s in
  if n <=? cr then
    let r1 := rp s + n in
    let r2 := if r1 =? tp s then 0 else r1 in
    (refresh (mkbb (cap s) (wp s) r2 (tp s) (buf s)), true)
  else (s, false).

(* the caller storing bytes through a pointer returned by writer_fc *)
Definition poke (s : bb) (off : Z) (data : list byte) : bb :=
  mkbb (cap s) (wp s) (rp s) (tp s) (blit (buf s) off data).

(* ---- operation scripts (what both drivers execute) ---- *)

Inductive op :=
| OWrite (src : list byte)
| OWriteN (n : Z)              (* write(n, one-byte block): performed only for n >= c, which can never be accepted *)
| ORead (n : Z)
| OFetch (n : Z)
| OWfc (n : Z)                 (* writer_fc n; the region stays outstanding *)
| OWmn (data : list byte)      (* store data through the outstanding pointer, writer_move_n ptr |data| *)
| OWmove (data : list byte)    (* writer_fc |data|, store, deprecated writer_move |data| *)
| OWmoveN (n : Z)              (* writer_fc n, deprecated writer_move n, no store: performed only for n >= c *)
| ORfc (n : Z)                 (* reader_fc n; the region stays outstanding *)
| ORpeek                       (* read the outstanding reader region once more *)
| ORmove (k : Z)
| OClear.

Inductive res :=
| RBool (b : bool)
| RBytes (o : option (list byte))
| RPtr (o : option Z)
| RMove (b : bool) (o : option Z)
| RPtrBytes (o : option (Z * list byte))
| RUnit
| RSkip.                        (* contract of Appendix B not met: operation not performed *)

(* session = buffer + the two outstanding zero-copy regions (offset, size asked for).
   The pointer of the last successful writer_fc stays outstanding while only the
   READER side works (read, fetch, reader_fc, reader_move, a re-read) or a
   writer_fc returns NULL; writer-side operations and clear drop it, writer_move_n
   consumes it.  Symmetrically the pointer of the last successful reader_fc stays
   outstanding across every writer-side operation and fetch; read, reader_move
   and clear drop it. *)
Record sess := mksess { st : bb; wptr : option (Z * Z); rptr : option (Z * Z) }.

Definition step (x : sess) (o : op) : sess * res * acc :=
  let s := st x in
  match o with
  | OWrite src => let '(s', ok, a) := write s src in (mksess s' None (rptr x), RBool ok, a)
  | OWriteN n =>
    if cap s <=? n then
      let '(s', ok, a) := write_n s n [] in (mksess s' None (rptr x), RBool ok, a)
    else (mksess s None (rptr x), RSkip, [])
  | ORead n => let '(s', r, a) := read s n in (mksess s' (wptr x) None, RBytes r, a)
  | OFetch n => let '(r, a) := fetch s n in (mksess s (wptr x) (rptr x), RBytes r, a)
  | OWfc n =>
    match writer_fc s n with
    | Some off => (mksess s (Some (off, n)) (rptr x), RPtr (Some off), [(off, Z.max 0 n)])
    | None => (mksess s (wptr x) (rptr x), RPtr None, [])
    end
  | OWmn data =>
    match wptr x with
    | Some (off, n) =>
      if len data <=? n then
        let '(s2, ok) := writer_move_n (poke s off data) off (len data) in
        (mksess s2 None (rptr x), RBool ok, [(off, len data)])
      else (mksess s None (rptr x), RSkip, [])
    | None => (mksess s None (rptr x), RSkip, [])
    end
  | OWmove data =>
    let n := len data in
    match writer_fc s n with
    | Some off =>
      let '(s2, ok) := writer_move (poke s off data) n in
      (mksess s2 None (rptr x), RMove ok (Some off), [(off, n)])
    | None => let '(s2, ok) := writer_move s n in (mksess s2 None (rptr x), RMove ok None, [])
    end
  | OWmoveN n =>
    if cap s <=? n then
      let p := writer_fc s n in
      let '(s2, ok) := writer_move s n in (mksess s2 None (rptr x), RMove ok p, [])
    else (mksess s None (rptr x), RSkip, [])
  | ORfc n =>
    match reader_fc s n with
    | Some off => (mksess s (wptr x) (Some (off, n)), RPtrBytes (Some (off, sub (buf s) off n)), [(off, Z.max 0 n)])
    | None => (mksess s (wptr x) (rptr x), RPtrBytes None, [])
    end
  | ORpeek =>
    match rptr x with
    | Some (off, n) => (x, RPtrBytes (Some (off, sub (buf s) off n)), [(off, Z.max 0 n)])
    | None => (x, RSkip, [])
    end
  | ORmove k => let '(s', ok) := reader_move s k in (mksess s' (wptr x) None, RBool ok, [])
  | OClear => (mksess (clear s) None None, RUnit, [])
  end.

(* what a driver prints after each operation *)
Record obs := mkobs { o_res : res; o_rd : Z; o_wr : Z; o_cr : Z; o_acc : acc }.

Definition observe (x : sess) (o : op) : sess * obs :=
  let '(x', r, a) := step x o in
  (x', mkobs r (readable (st x')) (writable (st x')) (contiguous_readable (st x')) a).

Fixpoint run (x : sess) (ops : list op) : sess * list obs :=
  match ops with
  | [] => (x, [])
  | o :: rest =>
    let (x1, ob) := observe x o in
    let (x2, obs') := run x1 rest in (x2, ob :: obs')
  end.

Definition start (c : Z) (fill : byte) : sess := mksess (init c fill) None None.

(* what "init <c> [fail]" does: None = muggle_bytes_buffer_init returned false, there is no buffer *)
Definition start_opt (c : Z) (fill : byte) (alloc_ok : bool) : option sess :=
  match init_opt c fill alloc_ok with
  | Some s => Some (mksess s None None)
  | None => None
  end.

(* every range of an access list lies inside [0, c) *)
Definition acc_in_range (c : Z) (a : acc) : bool :=
  forallb (fun p => (0 <=? fst p) && (0 <=? snd p) && (fst p + snd p <=? c)) a.
