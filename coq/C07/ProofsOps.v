(* C07 — per-operation specifications, the reference byte FIFO, and the
   history-level theorems. *)
From MV Require Import C07.Model C07.ProofsList C07.Proofs C07.ProofsRegion.
From Coq Require Import ZifyBool.
Local Open Scope Z_scope.

(* split conjunctions and equivalences, but never unfold [inv] *)
Ltac spl := repeat match goal with |- _ /\ _ => split | |- _ <-> _ => split end.

Lemma acc1 c o n : 0 <= o -> 0 <= n -> o + n <= c -> acc_in_range c [(o, n)] = true.
Proof. intros. unfold acc_in_range; cbn. rewrite !leb_t by lia. reflexivity. Qed.

Lemma acc2 c o n o' n' : 0 <= o -> 0 <= n -> o + n <= c -> 0 <= o' -> 0 <= n' -> o' + n' <= c ->
  acc_in_range c ([(o, n)] ++ [(o', n')]) = true.
Proof. intros. unfold acc_in_range; cbn. rewrite !leb_t by lia. reflexivity. Qed.

(* where the cursors and the space helpers can be *)
Lemma wbounds s : inv s ->
  0 <= wp s /\ wp s + contiguous_writable s <= cap s /\ jump_writable s < cap s /\
  0 <= rp s /\ rp s + contiguous_readable s <= cap s /\ 0 <= jump_readable s < cap s.
Proof.
  intros H. open_state s.
  unfold contiguous_writable, jump_writable, contiguous_readable, jump_readable; cbn [cap wp rp tp buf].
  destruct H as (Hc & Hl & Hw & Ht & [A | [E | B]]); zb; try lia.
  destruct (Z.eqb_spec r 0); cbn [negb]; lia.
Qed.

(* the caller's store through a writer_fc pointer does not move any cursor *)
Lemma poke_fields s off data :
  cap (poke s off data) = cap s /\ wp (poke s off data) = wp s /\ rp (poke s off data) = rp s /\
  tp (poke s off data) = tp s /\ buf (poke s off data) = blit (buf s) off data.
Proof. spl; reflexivity. Qed.

Lemma cw_poke s off data : contiguous_writable (poke s off data) = contiguous_writable s.
Proof. reflexivity. Qed.
Lemma jw_poke s off data : jump_writable (poke s off data) = jump_writable s.
Proof. reflexivity. Qed.
Lemma adv_poke s off data n : advance_w (poke s off data) n (buf (poke s off data)) = advance_w s n (blit (buf s) off data).
Proof. reflexivity. Qed.

(* ------------------------------------------------------------------ *)

Lemma write_spec s src s' ok a : inv s -> write s src = (s', ok, a) ->
  inv s' /\ cap s' = cap s /\
  (ok = true <-> len src <= writable s) /\
  (ok = true -> abs s' = abs s ++ src) /\
  (ok = false -> s' = s) /\
  acc_in_range (cap s) a = true.
Proof.
  intros H E. unfold write, write_n in E. cbv zeta in E. unfold writable.
  pose proof (writable_nonneg s H) as [C0 J0]. pose proof (wbounds s H) as (B1 & B2 & B3 & _).
  pose proof (len_nonneg src) as Hd.
  destruct (Z.leb_spec (len src) (contiguous_writable s)) as [L | L].
  - inversion E; subst; clear E.
    pose proof (adv_spec s src H L) as (I & C & A). cbv zeta in *.
    spl; auto; try lia; try discriminate. apply acc1; lia.
  - destruct (Z.ltb_spec (contiguous_writable s + jump_writable s) (len src)) as [F | F].
    + inversion E; subst; clear E. spl; auto; try lia; try discriminate.
    + destruct (Z.leb_spec (len src) (jump_writable s)) as [J | J].
      * inversion E; subst; clear E.
        assert (J1 : 1 <= jump_writable s) by lia.
        pose proof (jump_spec s src H J1 J) as (I & A). cbv zeta in *.
        spl; auto; try lia; try discriminate. apply acc1; lia.
      * pose proof (split_spec s src H L J F) as (I & A & P). cbv zeta in *.
        rewrite (ltb_t 0 (contiguous_writable s)) in E by lia.
        inversion E; subst; clear E.
        spl; auto; try lia; try discriminate. apply acc2; lia.
Qed.

Lemma read_spec s n s' r a : inv s -> 0 <= n -> read s n = (s', r, a) ->
  inv s' /\ cap s' = cap s /\
  (r = None <-> readable s < n) /\
  (forall bs, r = Some bs -> bs = take n (abs s) /\ abs s' = drop n (abs s)) /\
  (r = None -> s' = s) /\
  acc_in_range (cap s) a = true.
Proof.
  intros H Hn E. unfold read in E. cbv zeta in E. unfold readable.
  pose proof (contiguous_le_readable s H) as CR. unfold readable in CR.
  pose proof (wbounds s H) as (_ & _ & _ & B4 & B5 & B6).
  destruct (Z.leb_spec n (contiguous_readable s)) as [L | L].
  - inversion E; subst; clear E.
    pose proof (rd1_spec s n H (conj Hn L)) as (I & C & A & P). cbv zeta in *.
    spl; auto; try lia; try discriminate.
    + intros bs Hb. inversion Hb; subst. auto.
    + apply acc1; lia.
  - destruct (Z.ltb_spec (contiguous_readable s + jump_readable s) n) as [F | F].
    + inversion E; subst; clear E. spl; auto; try lia; try discriminate.
    + pose proof (rd2_spec s n H L F) as (I & C & A & P & Q). cbv zeta in *.
      rewrite (ltb_t 0 (contiguous_readable s)) in E by lia.
      inversion E; subst; clear E.
      spl; auto; try lia; try discriminate.
      * intros bs Hb. inversion Hb; subst. auto.
      * apply acc2; lia.
Qed.

Lemma fetch_spec s n r a : inv s -> 0 <= n -> fetch s n = (r, a) ->
  (r = None <-> readable s < n) /\
  (forall bs, r = Some bs -> bs = take n (abs s)) /\
  acc_in_range (cap s) a = true.
Proof.
  intros H Hn E. unfold fetch in E. cbv zeta in E. unfold readable.
  pose proof (contiguous_le_readable s H) as CR. unfold readable in CR.
  pose proof (wbounds s H) as (_ & _ & _ & B4 & B5 & B6).
  destruct (Z.leb_spec n (contiguous_readable s)) as [L | L].
  - inversion E; subst; clear E.
    pose proof (rd1_spec s n H (conj Hn L)) as (I & C & A & P). cbv zeta in *.
    spl; auto; try lia; try discriminate.
    + intros bs Hb. inversion Hb; subst. auto.
    + apply acc1; lia.
  - destruct (Z.ltb_spec (contiguous_readable s + jump_readable s) n) as [F | F].
    + inversion E; subst; clear E. spl; auto; try lia; try discriminate.
    + pose proof (rd2_spec s n H L F) as (I & C & A & P & Q). cbv zeta in *.
      rewrite (ltb_t 0 (contiguous_readable s)) in E by lia.
      inversion E; subst; clear E.
      spl; auto; try lia; try discriminate.
      * intros bs Hb. inversion Hb; subst. auto.
      * apply acc2; lia.
Qed.

Lemma writer_fc_spec s n : inv s ->
  match writer_fc s n with
  | Some off => (n <= contiguous_writable s \/ n <= jump_writable s) /\ 0 <= off /\ off + Z.max 0 n <= cap s
  | None => contiguous_writable s < n /\ jump_writable s < n
  end.
Proof.
  intros H. unfold writer_fc. cbv zeta.
  pose proof (wbounds s H) as (B1 & B2 & B3 & _).
  pose proof (writable_nonneg s H) as [C0 J0].
  assert (wp s < cap s) by (open_state s; lia).
  destruct (Z.leb_spec n (contiguous_writable s)); [lia|].
  destruct (Z.leb_spec n (jump_writable s)); lia.
Qed.

(* a count of at least the capacity can never be accepted *)
Lemma write_n_too_big s n src : inv s -> cap s <= n -> write_n s n src = (s, false, []).
Proof.
  intros H L. unfold write_n. cbv zeta.
  pose proof (space_accounting s H) as S. pose proof (contiguous_le_readable s H) as CR.
  pose proof (writable_nonneg s H) as [C0 J0]. unfold writable in S.
  assert (contiguous_writable s + jump_writable s < n).
  { destruct (rp s <=? wp s); [lia|]. open_state s. lia. }
  rewrite (leb_f n (contiguous_writable s)) by lia.
  rewrite (ltb_t (contiguous_writable s + jump_writable s) n) by lia. reflexivity.
Qed.

Lemma wmove_too_big s n : inv s -> cap s <= n -> writer_fc s n = None /\ writer_move s n = (s, false).
Proof.
  intros H L. unfold writer_fc, writer_move. cbv zeta.
  pose proof (space_accounting s H) as S. pose proof (contiguous_le_readable s H) as CR.
  pose proof (writable_nonneg s H) as [C0 J0]. unfold writable in S.
  assert (contiguous_writable s + jump_writable s < n).
  { destruct (rp s <=? wp s); [lia|]. open_state s. lia. }
  rewrite (leb_f n (contiguous_writable s)) by lia.
  rewrite (leb_f n (jump_writable s)) by lia. auto.
Qed.

(* the deprecated writer_move in its documented pairing with writer_fc of the same size *)
Lemma wmove_spec s data : inv s ->
  match writer_fc s (len data) with
  | Some off =>
    exists s2, writer_move (poke s off data) (len data) = (s2, true) /\
               inv s2 /\ cap s2 = cap s /\ abs s2 = abs s ++ data
  | None => writer_move s (len data) = (s, false)
  end.
Proof.
  intros H. pose proof (len_nonneg data) as Hd.
  unfold writer_fc, writer_move. cbv zeta.
  destruct (Z.leb_spec (len data) (contiguous_writable s)) as [L | L].
  - rewrite cw_poke. rewrite (leb_t _ _ L). rewrite adv_poke.
    pose proof (adv_spec s data H L) as (I & C & A). cbv zeta in *.
    eexists; split; [reflexivity|]. auto.
  - destruct (Z.leb_spec (len data) (jump_writable s)) as [J | J].
    + rewrite cw_poke, jw_poke. rewrite (leb_f _ _ L), (leb_t _ _ J).
      pose proof (writable_nonneg s H) as [C0 J0].
      assert (J1 : 1 <= jump_writable s) by lia.
      pose proof (jump_spec s data H J1 J) as (I & A). cbv zeta in *.
      eexists; split; [reflexivity|]. auto.
    + reflexivity.
Qed.

Lemma writer_move_fail s n : 0 <= n ->
  (snd (writer_move s n) = false <-> contiguous_writable s < n /\ jump_writable s < n) /\
  (snd (writer_move s n) = false -> fst (writer_move s n) = s).
Proof.
  intros Hn. unfold writer_move. cbv zeta.
  destruct (Z.leb_spec n (contiguous_writable s)); cbn [fst snd].
  - split; [split; [discriminate | lia] | discriminate].
  - destruct (Z.leb_spec n (jump_writable s)); cbn [fst snd].
    + split; [split; [discriminate | lia] | discriminate].
    + split; [split; auto; lia | auto].
Qed.

Lemma reader_fc_spec s n : inv s ->
  match reader_fc s n with
  | Some off => n <= contiguous_readable s /\ sub (buf s) off n = take n (abs s) /\
                n <= len (abs s) /\ 0 <= off /\ off + Z.max 0 n <= cap s
  | None => contiguous_readable s < n
  end.
Proof.
  intros H. unfold reader_fc. cbv zeta.
  destruct (Z.leb_spec n (contiguous_readable s)) as [L | L]; [|lia].
  pose proof (contiguous_le_readable s H). rewrite (readable_abs s H) in *.
  pose proof (wbounds s H) as (_ & _ & _ & B4 & B5 & _).
  destruct (Z.leb_spec 0 n) as [Hn | Hn].
  - pose proof (peek1_spec s n H (conj Hn L)) as (P & Q & R).
    spl; auto; lia.
  - (* a negative count: an empty region at the read position *)
    spl; auto; try lia.
    rewrite sub_nil by lia. unfold take. replace (Z.to_nat n) with 0%nat by lia. reflexivity.
Qed.

(* the bytes a reader region exposes are the oldest unread ones as long as the region is outstanding *)
Lemma rptr_peek s off n : inv s -> rptr_ok s off n ->
  sub (buf s) off n = take (len (sub (buf s) off n)) (abs s) /\ 0 <= off /\ off + Z.max 0 n <= cap s.
Proof.
  intros H (B & [N | [O L]]).
  - rewrite sub_nil by lia. change (len []) with 0. rewrite take_0. spl; auto; lia.
  - subst off. destruct (Z.leb_spec 0 n) as [Hn | Hn].
    + pose proof (peek1_spec s n H (conj Hn L)) as (P & Q & R).
      pose proof (contiguous_le_readable s H). rewrite (readable_abs s H) in *.
      rewrite P. rewrite len_take by lia. spl; auto; lia.
    + rewrite sub_nil by lia. change (len []) with 0. rewrite take_0. spl; auto; lia.
Qed.

Lemma reader_move_spec s k s' ok : inv s -> 0 <= k -> reader_move s k = (s', ok) ->
  inv s' /\ cap s' = cap s /\
  (ok = true <-> k <= contiguous_readable s) /\
  (ok = true -> k <= len (abs s) /\ abs s' = drop k (abs s)) /\
  (ok = false -> s' = s).
Proof.
  intros H Hk E. unfold reader_move in E. cbv zeta in E.
  destruct (Z.leb_spec k (contiguous_readable s)) as [L | L].
  - inversion E; subst; clear E.
    pose proof (rd1_spec s k H (conj Hk L)) as (I & C & A & P). cbv zeta in *.
    pose proof (contiguous_le_readable s H). rewrite (readable_abs s H) in *.
    spl; auto; try lia; try discriminate. intros _. split; [lia | auto].
  - inversion E; subst; clear E. spl; auto; try lia; try discriminate.
Qed.

Lemma clear_spec s : inv s -> inv (clear s) /\ cap (clear s) = cap s /\ abs (clear s) = [].
Proof.
  intros H. open_state s. unfold clear, abs; cbn [cap wp rp tp buf].
  destruct H as (? & ? & ? & ? & ?). spl; try lia; reflexivity.
Qed.

(* ------------------------------------------------------------------ *)
(* The reference: a byte FIFO that knows nothing about cursors.         *)
(* [fifo_step q o r q'] : operation o answered with r takes contents q  *)
(* to q' — and r is an answer a lossless FIFO may give.                 *)

Definition fifo_step (q : list byte) (o : op) (r : res) (q' : list byte) : Prop :=
  match o, r with
  | OWrite src, RBool true => q' = q ++ src
  | OWrite src, RBool false => q' = q
  | OWriteN n, RBool false => q' = q
  | OWriteN n, RSkip => q' = q
  | ORead n, RBytes (Some bs) => n <= len q /\ bs = take n q /\ q' = drop n q
  | ORead n, RBytes None => len q < n /\ q' = q
  | OFetch n, RBytes (Some bs) => n <= len q /\ bs = take n q /\ q' = q
  | OFetch n, RBytes None => len q < n /\ q' = q
  | OWfc n, RPtr _ => q' = q
  | OWmn data, RBool true => q' = q ++ data
  | OWmn data, RSkip => q' = q
  | OWmove data, RMove true (Some _) => q' = q ++ data
  | OWmove data, RMove false None => q' = q
  | OWmoveN n, RMove false None => q' = q
  | OWmoveN n, RMove true (Some _) => n = 0 /\ q' = q     (* capacity 0: a 0-byte advance *)
  | OWmoveN n, RSkip => q' = q
  | ORfc n, RPtrBytes (Some (_, bs)) => n <= len q /\ bs = take n q /\ q' = q
  | ORfc n, RPtrBytes None => q' = q
  | ORpeek, RPtrBytes (Some (_, bs)) => bs = take (len bs) q /\ q' = q
  | ORpeek, RSkip => q' = q
  | ORmove k, RBool true => k <= len q /\ q' = drop k q
  | ORmove k, RBool false => q' = q
  | OClear, RUnit => q' = []
  | _, _ => False
  end.

(* a whole observed history is a FIFO history, and readable() reported after
   every operation is the number of bytes accepted and not yet consumed *)
Fixpoint fifo_trace (q : list byte) (tr : list (op * obs)) : Prop :=
  match tr with
  | [] => True
  | (o, ob) :: rest =>
    exists q', fifo_step q o (o_res ob) q' /\ o_rd ob = len q' /\ fifo_trace q' rest
  end.

(* Documented usage (Appendix B): the byte count of read / fetch / reader_move is
   not negative.  (The code compares ints signed, takes a negative count for
   "fits" and then copies (size_t)count bytes or moves r out of the array:
   observation recorded in the plugin's ASSUMPTIONS, outside the property.)
   writer_fc / reader_fc are harmless for negative counts and need no hypothesis;
   write / writer_move / writer_move_n get their counts from payload lengths. *)
Definition wf_op (o : op) : Prop :=
  match o with
  | ORead n | OFetch n | ORmove n => 0 <= n
  | _ => True
  end.

(* operations whose answer is a refusal *)
Definition refused (r : res) : bool :=
  match r with
  | RBool false | RBytes None | RPtr None | RMove false _ | RPtrBytes None | RSkip => true
  | _ => false
  end.

(* session invariant: buffer invariant + each outstanding region is still what
   ProofsRegion.v says it must be; or the capacity-0 buffer *)
Definition ginv (x : sess) : Prop :=
  inv (st x) /\
  match wptr x with Some (off, n) => region_ok (st x) off n | None => True end /\
  match rptr x with Some (off, n) => rptr_ok (st x) off n | None => True end.

Definition sinv (x : sess) : Prop := ginv x \/ zero_sess x.

Lemma start_sinv c fill : 0 <= c -> sinv (start c fill).
Proof.
  intros Hc. destruct (Z.eqb_spec c 0) as [-> | N].
  - right. unfold zero_sess, start; cbn [st wptr rptr]. auto.
  - left. unfold ginv, start; cbn [st wptr rptr]. split; [apply init_inv; lia | auto].
Qed.

Lemma step_spec_pos x o x' r a : ginv x -> wf_op o -> step x o = (x', r, a) ->
  ginv x' /\ cap (st x') = cap (st x) /\
  fifo_step (abs (st x)) o r (abs (st x')) /\
  acc_in_range (cap (st x)) a = true /\
  (refused r = true -> st x' = st x).
Proof.
  intros (H & PW & PR) W E. destruct x as [s p q]; cbn [st wptr rptr] in *.
  destruct o; cbn [step st wptr rptr wf_op] in *.
  - (* write *)
    destruct (write s src) as [[s1 ok] a1] eqn:EW. inversion E; subst; clear E.
    pose proof (write_spec _ _ _ _ _ H EW) as (I & C & Q & A & F & R). unfold ginv; cbn [st wptr rptr].
    assert (PR' : match q with Some (off, n) => rptr_ok s1 off n | None => True end).
    { destruct q as [[off n]|]; auto.
      pose proof (write_keeps_rptr s (len src) src off n H (len_nonneg src) PR) as K.
      unfold write in EW. rewrite EW in K. exact K. }
    spl; auto.
    + destruct ok; cbn [fifo_step]; auto. rewrite F; auto.
    + destruct ok; cbn [refused]; auto; discriminate.
  - (* write with a count of at least the capacity *)
    destruct (Z.leb_spec (cap s) n) as [L | L].
    + rewrite (write_n_too_big s n [] H L) in E. inversion E; subst; clear E.
      unfold ginv; cbn [st wptr rptr fifo_step]. spl; auto.
    + inversion E; subst; clear E. unfold ginv; cbn [st wptr rptr fifo_step]. spl; auto.
  - (* read *)
    destruct (read s n) as [[s1 o1] a1] eqn:ER. inversion E; subst; clear E.
    pose proof (read_spec _ _ _ _ _ H W ER) as (I & C & Q & A & F & R). unfold ginv; cbn [st wptr rptr].
    rewrite (readable_abs s H) in Q.
    assert (PW' : match p with Some (off, m) => region_ok s1 off m | None => True end).
    { destruct p as [[off m]|]; auto.
      pose proof (read_keeps_region s n off m H W PW) as K. rewrite ER in K. exact K. }
    spl; auto.
    + destruct o1 as [bs|]; cbn [fifo_step].
      * destruct (A bs eq_refl) as [A1 A2].
        assert (~ len (abs s) < n) by (intros Hc; apply Q in Hc; discriminate).
        spl; auto; lia.
      * split; [apply Q; auto | rewrite F; auto].
    + destruct o1; cbn [refused]; auto; discriminate.
  - (* fetch *)
    destruct (fetch s n) as [o1 a1] eqn:EF. inversion E; subst; clear E.
    pose proof (fetch_spec _ _ _ _ H W EF) as (Q & A & R). unfold ginv; cbn [st wptr rptr].
    rewrite (readable_abs s H) in Q.
    spl; auto.
    destruct o1 as [bs|]; cbn [fifo_step].
    + assert (~ len (abs s) < n) by (intros Hc; apply Q in Hc; discriminate).
      spl; auto; lia.
    + split; [apply Q; auto | auto].
  - (* writer_fc: any count *)
    pose proof (writer_fc_spec s n H) as Q.
    destruct (writer_fc s n) as [off|] eqn:EF; inversion E; subst; clear E; unfold ginv; cbn [st wptr rptr fifo_step].
    + spl; auto. { apply wfc_region; auto. } apply acc1; lia.
    + spl; auto.
  - (* writer_move_n through the outstanding pointer *)
    destruct p as [[off n]|].
    + destruct (Z.leb_spec (len data) n) as [K | K].
      * destruct (writer_move_n (poke s off data) off (len data)) as [s2 ok] eqn:EM.
        inversion E; subst; clear E.
        pose proof (wmn_region_spec _ _ _ _ _ _ H PW K EM) as (-> & I & C & A). unfold ginv; cbn [st wptr rptr fifo_step refused].
        pose proof (len_nonneg data) as Hd.
        pose proof (region_bounds s off n (len data) H PW (conj Hd K)) as (B1 & B2).
        assert (PR' : match q with Some (o1, n1) => rptr_ok s2 o1 n1 | None => True end).
        { destruct q as [[o1 n1]|]; auto.
          pose proof (wmn_keeps_rptr s off n (len data) (blit (buf s) off data) o1 n1 H PW (conj Hd K) PR) as G.
          change (mkbb (cap s) (wp s) (rp s) (tp s) (blit (buf s) off data)) with (poke s off data) in G.
          rewrite EM in G. exact G. }
        spl; auto; try discriminate. apply acc1; lia.
      * inversion E; subst; clear E. unfold ginv; cbn [st wptr rptr fifo_step]. spl; auto.
    + inversion E; subst; clear E. unfold ginv; cbn [st wptr rptr fifo_step]. spl; auto.
  - (* deprecated writer_move, paired *)
    pose proof (wmove_spec s data H) as Q.
    pose proof (writer_fc_spec s (len data) H) as Q2.
    pose proof (len_nonneg data) as Hd.
    destruct (writer_fc s (len data)) as [off|] eqn:EF.
    + destruct Q as (s2 & EM & I & C & A). rewrite EM in E. inversion E; subst; clear E.
      unfold ginv; cbn [st wptr rptr fifo_step refused].
      assert (PR' : match q with Some (o1, n1) => rptr_ok s2 o1 n1 | None => True end).
      { destruct q as [[o1 n1]|]; auto.
        pose proof (wmove_keeps_rptr s (len data) (blit (buf s) off data) o1 n1 H Hd PR) as G.
        change (mkbb (cap s) (wp s) (rp s) (tp s) (blit (buf s) off data)) with (poke s off data) in G.
        rewrite EM in G. exact G. }
      spl; auto; try discriminate.
      apply acc1; lia.
    + rewrite Q in E. inversion E; subst; clear E. unfold ginv; cbn [st wptr rptr fifo_step]. spl; auto.
  - (* writer_fc + writer_move with a count of at least the capacity *)
    destruct (Z.leb_spec (cap s) n) as [L | L].
    + destruct (wmove_too_big s n H L) as [F1 F2]. rewrite F1, F2 in E. inversion E; subst; clear E.
      unfold ginv; cbn [st wptr rptr fifo_step]. spl; auto.
    + inversion E; subst; clear E. unfold ginv; cbn [st wptr rptr fifo_step]. spl; auto.
  - (* reader_fc: any count *)
    pose proof (reader_fc_spec s n H) as Q.
    destruct (reader_fc s n) as [off|] eqn:EF; inversion E; subst; clear E; unfold ginv; cbn [st wptr rptr fifo_step].
    + destruct Q as (Q1 & Q2 & Q3 & Q4 & Q5). spl; auto. { apply rfc_rptr; auto. } apply acc1; lia.
    + spl; auto.
  - (* re-read of the outstanding reader region *)
    destruct q as [[off n]|]; inversion E; subst; clear E; unfold ginv; cbn [st wptr rptr fifo_step].
    + pose proof (rptr_peek s off n H PR) as (P1 & P2 & P3). spl; auto. apply acc1; lia.
    + spl; auto.
  - (* reader_move *)
    destruct (reader_move s k) as [s1 ok] eqn:EM. inversion E; subst; clear E.
    pose proof (reader_move_spec _ _ _ _ H W EM) as (I & C & Q & A & F). unfold ginv; cbn [st wptr rptr].
    assert (PW' : match p with Some (off, m) => region_ok s1 off m | None => True end).
    { destruct p as [[off m]|]; auto.
      pose proof (rmove_keeps_region s k off m H W PW) as G. rewrite EM in G. exact G. }
    spl; auto.
    + destruct ok; cbn [fifo_step]; auto. rewrite F; auto.
    + destruct ok; cbn [refused]; auto; discriminate.
  - (* clear *)
    inversion E; subst; clear E. pose proof (clear_spec s H) as (I & C & A). unfold ginv; cbn [st wptr rptr fifo_step].
    spl; auto. discriminate.
Qed.

(* capacity 0: what each function answers in the only state there is *)
Ltac zfun := intros; unfold write_n, read, fetch, writer_fc, writer_move, writer_move_n, reader_fc, reader_move,
    refresh, clear, advance_w, poke, contiguous_writable, jump_writable, contiguous_readable, jump_readable, zero_bb;
  cbn [cap wp rp tp buf]; cbv zeta; zb; cbn [cap wp rp tp buf]; zb.

Lemma z_write_n n src : 0 <= n -> write_n zero_bb n src = (zero_bb, false, []).
Proof. zfun. reflexivity. Qed.
Lemma z_read_0 : read zero_bb 0 = (zero_bb, Some [], [(0, 0)]).
Proof. reflexivity. Qed.
Lemma z_read_pos n : 0 < n -> read zero_bb n = (zero_bb, None, []).
Proof. zfun. reflexivity. Qed.
Lemma z_fetch_0 : fetch zero_bb 0 = (Some [], [(0, 0)]).
Proof. reflexivity. Qed.
Lemma z_fetch_pos n : 0 < n -> fetch zero_bb n = (None, []).
Proof. zfun. reflexivity. Qed.
Lemma z_wfc_le n : n <= 0 -> writer_fc zero_bb n = Some 0.
Proof.
  intros. unfold writer_fc, contiguous_writable, jump_writable, zero_bb; cbn [cap wp rp tp buf]. cbv zeta. zb.
  destruct (Z.leb_spec n (0 - 0 - 1)); [reflexivity|]. zb. reflexivity.
Qed.
Lemma z_wfc_pos n : 0 < n -> writer_fc zero_bb n = None.
Proof. zfun. reflexivity. Qed.
Lemma z_wmn : writer_move_n (poke zero_bb 0 []) 0 0 = (zero_bb, true).
Proof. reflexivity. Qed.
Lemma z_wmove_0 : writer_move (poke zero_bb 0 []) 0 = (zero_bb, true).
Proof. reflexivity. Qed.
Lemma z_wmove_pos n : 0 < n -> writer_move zero_bb n = (zero_bb, false).
Proof. zfun. reflexivity. Qed.
Lemma z_rfc_le n : n <= 0 -> reader_fc zero_bb n = Some 0.
Proof. zfun. reflexivity. Qed.
Lemma z_rfc_pos n : 0 < n -> reader_fc zero_bb n = None.
Proof. zfun. reflexivity. Qed.
Lemma z_rmove_0 : reader_move zero_bb 0 = (zero_bb, true).
Proof. reflexivity. Qed.
Lemma z_rmove_pos k : 0 < k -> reader_move zero_bb k = (zero_bb, false).
Proof. zfun. reflexivity. Qed.

Lemma acc00 : acc_in_range 0 [(0, 0)] = true.
Proof. reflexivity. Qed.
Lemma take_nil n : take n [] = [].
Proof. unfold take. apply firstn_nil. Qed.

(* capacity 0: nothing is ever accepted, delivered or touched; the state never changes *)
Lemma step_spec_zero x o x' r a : zero_sess x -> wf_op o -> step x o = (x', r, a) ->
  zero_sess x' /\ fifo_step [] o r [] /\ acc_in_range 0 a = true.
Proof.
  intros (S & PW & PR) W E. destruct x as [s p q]; cbn [st wptr rptr] in *. subst s.
  destruct o; cbn [step st wptr rptr wf_op] in *.
  - (* write *)
    unfold write in E. rewrite (z_write_n _ _ (len_nonneg src)) in E. inversion E; subst; clear E.
    unfold zero_sess; cbn [st wptr rptr fifo_step]. spl; auto.
  - (* writen *)
    change (cap zero_bb) with 0 in E.
    destruct (Z.leb_spec 0 n) as [L | L].
    + rewrite (z_write_n _ _ L) in E. inversion E; subst; clear E.
      unfold zero_sess; cbn [st wptr rptr fifo_step]. spl; auto.
    + inversion E; subst; clear E. unfold zero_sess; cbn [st wptr rptr fifo_step]. spl; auto.
  - (* read *)
    destruct (Z.eqb_spec n 0) as [-> | N].
    + rewrite z_read_0 in E. inversion E; subst; clear E.
      unfold zero_sess; cbn [st wptr rptr fifo_step]. spl; auto; try (change (len []) with 0; lia).
    + rewrite (z_read_pos n) in E by lia. inversion E; subst; clear E.
      unfold zero_sess; cbn [st wptr rptr fifo_step]. spl; auto; try (change (len []) with 0; lia).
  - (* fetch *)
    destruct (Z.eqb_spec n 0) as [-> | N].
    + rewrite z_fetch_0 in E. inversion E; subst; clear E.
      unfold zero_sess; cbn [st wptr rptr fifo_step]. spl; auto; try (change (len []) with 0; lia).
    + rewrite (z_fetch_pos n) in E by lia. inversion E; subst; clear E.
      unfold zero_sess; cbn [st wptr rptr fifo_step]. spl; auto; try (change (len []) with 0; lia).
  - (* writer_fc *)
    destruct (Z.leb_spec n 0) as [L | L].
    + rewrite (z_wfc_le n L) in E. inversion E; subst; clear E.
      unfold zero_sess; cbn [st wptr rptr fifo_step]. spl; auto.
      replace (Z.max 0 n) with 0 by lia. reflexivity.
    + rewrite (z_wfc_pos n L) in E. inversion E; subst; clear E.
      unfold zero_sess; cbn [st wptr rptr fifo_step]. spl; auto.
  - (* writer_move_n *)
    destruct p as [[off n]|].
    + destruct PW as [-> PN].
      destruct (Z.leb_spec (len data) n) as [K | K].
      * assert (data = []) by (apply len_le0_nil; lia). subst data. change (len []) with 0 in E.
        rewrite z_wmn in E. inversion E; subst; clear E.
        unfold zero_sess; cbn [st wptr rptr fifo_step]. spl; auto.
      * inversion E; subst; clear E. unfold zero_sess; cbn [st wptr rptr fifo_step]. spl; auto.
    + inversion E; subst; clear E. unfold zero_sess; cbn [st wptr rptr fifo_step]. spl; auto.
  - (* deprecated writer_move *)
    pose proof (len_nonneg data) as Hd.
    destruct (Z.eqb_spec (len data) 0) as [Z0 | N].
    + pose proof (len_zero_nil data Z0) as ->. change (len []) with 0 in E.
      rewrite (z_wfc_le 0) in E by lia. rewrite z_wmove_0 in E. inversion E; subst; clear E.
      unfold zero_sess; cbn [st wptr rptr fifo_step]. spl; auto.
    + rewrite (z_wfc_pos (len data)) in E by lia. rewrite (z_wmove_pos (len data)) in E by lia.
      inversion E; subst; clear E. unfold zero_sess; cbn [st wptr rptr fifo_step]. spl; auto.
  - (* writer_fc + writer_move, count >= capacity *)
    change (cap zero_bb) with 0 in E.
    destruct (Z.leb_spec 0 n) as [L | L].
    + destruct (Z.eqb_spec n 0) as [-> | N].
      * (* n = 0 = c: a 0-byte region at the origin and a 0-byte advance: nothing moves *)
        rewrite (z_wfc_le 0) in E by lia.
        change (writer_move zero_bb 0) with (zero_bb, true) in E. inversion E; subst; clear E.
        unfold zero_sess; cbn [st wptr rptr fifo_step]. spl; auto.
      * rewrite (z_wfc_pos n) in E by lia. rewrite (z_wmove_pos n) in E by lia. inversion E; subst; clear E.
        unfold zero_sess; cbn [st wptr rptr fifo_step]. spl; auto.
    + inversion E; subst; clear E. unfold zero_sess; cbn [st wptr rptr fifo_step]. spl; auto.
  - (* reader_fc *)
    destruct (Z.leb_spec n 0) as [L | L].
    + rewrite (z_rfc_le n L) in E. inversion E; subst; clear E.
      unfold zero_sess; cbn [st wptr rptr fifo_step buf zero_bb]. rewrite sub_nil_any, take_nil.
      spl; auto; try (change (len []) with 0; lia).
      replace (Z.max 0 n) with 0 by lia. reflexivity.
    + rewrite (z_rfc_pos n L) in E. inversion E; subst; clear E.
      unfold zero_sess; cbn [st wptr rptr fifo_step]. spl; auto.
  - (* re-read *)
    destruct q as [[off n]|]; inversion E; subst; clear E; unfold zero_sess; cbn [st wptr rptr fifo_step buf zero_bb].
    + destruct PR as [-> PN]. rewrite sub_nil_any. change (len []) with 0. rewrite take_nil.
      spl; auto. replace (Z.max 0 n) with 0 by lia. reflexivity.
    + spl; auto.
  - (* reader_move *)
    destruct (Z.eqb_spec k 0) as [-> | N].
    + rewrite z_rmove_0 in E. inversion E; subst; clear E.
      unfold zero_sess; cbn [st wptr rptr fifo_step]. spl; auto; try (change (len []) with 0; lia).
    + rewrite (z_rmove_pos k) in E by lia. inversion E; subst; clear E.
      unfold zero_sess; cbn [st wptr rptr fifo_step]. spl; auto.
  - (* clear *)
    inversion E; subst; clear E. unfold zero_sess; cbn [st wptr rptr fifo_step]. spl; auto.
Qed.

Lemma step_spec x o x' r a : sinv x -> wf_op o -> step x o = (x', r, a) ->
  sinv x' /\ cap (st x') = cap (st x) /\
  fifo_step (abs (st x)) o r (abs (st x')) /\
  acc_in_range (cap (st x)) a = true /\
  (refused r = true -> st x' = st x).
Proof.
  intros [G | Z] W E.
  - pose proof (step_spec_pos _ _ _ _ _ G W E) as (G' & C & F & A & R).
    spl; auto. left; auto.
  - pose proof (step_spec_zero _ _ _ _ _ Z W E) as (Z' & F & A).
    destruct Z as (S & _). destruct Z' as (S' & Z2). rewrite S, S' in *.
    spl; auto. right. split; auto.
Qed.


Lemma sinv_readable x : sinv x -> readable (st x) = len (abs (st x)).
Proof.
  intros [G | (S & _)].
  - apply readable_abs. apply G.
  - rewrite S. reflexivity.
Qed.

Lemma sinv_inv x : sinv x -> 1 <= cap (st x) -> inv (st x).
Proof.
  intros [G | (S & _)] C.
  - apply G.
  - rewrite S in C. cbn in C. lia.
Qed.

Lemma observe_spec x o x' ob : sinv x -> wf_op o -> observe x o = (x', ob) ->
  sinv x' /\ cap (st x') = cap (st x) /\
  fifo_step (abs (st x)) o (o_res ob) (abs (st x')) /\
  o_rd ob = len (abs (st x')) /\
  acc_in_range (cap (st x)) (o_acc ob) = true /\
  (refused (o_res ob) = true -> st x' = st x).
Proof.
  intros S W E. unfold observe in E.
  destruct (step x o) as [[x1 r] a] eqn:ES. inversion E; subst; clear E. cbn [o_res o_rd o_acc].
  pose proof (step_spec _ _ _ _ _ S W ES) as (S' & C & F & A & R).
  spl; auto. apply sinv_readable; auto.
Qed.

(* history level: from any state satisfying the invariant *)
Lemma run_spec : forall ops x x' outs, sinv x -> Forall wf_op ops -> run x ops = (x', outs) ->
  sinv x' /\ cap (st x') = cap (st x) /\
  fifo_trace (abs (st x)) (combine ops outs) /\
  Forall (fun ob => acc_in_range (cap (st x)) (o_acc ob) = true) outs /\
  length outs = length ops.
Proof.
  induction ops as [|o rest IH]; intros x x' outs S W E; cbn [run] in E.
  - inversion E; subst. cbn. spl; auto.
  - destruct (observe x o) as [x1 ob] eqn:EO.
    destruct (run x1 rest) as [x2 outs'] eqn:ER. inversion E; subst; clear E.
    inversion W as [|? ? W1 W2]; subst.
    pose proof (observe_spec _ _ _ _ S W1 EO) as (S1 & C1 & F1 & R1 & A1 & _).
    pose proof (IH _ _ _ S1 W2 ER) as (S2 & C2 & F2 & A2 & L2).
    spl; auto.
    + congruence.
    + cbn [combine fifo_trace]. exists (abs (st x1)). auto.
    + constructor; auto. rewrite <- C1. auto.
    + cbn. congruence.
Qed.

Lemma run_from_init c fill ops x outs : 0 <= c -> Forall wf_op ops ->
  run (start c fill) ops = (x, outs) ->
  sinv x /\ cap (st x) = c /\
  fifo_trace [] (combine ops outs) /\
  Forall (fun ob => acc_in_range c (o_acc ob) = true) outs /\
  length outs = length ops.
Proof.
  intros Hc W E.
  pose proof (run_spec ops _ _ _ (start_sinv c fill Hc) W E) as (S & C & F & A & L).
  spl; auto.
Qed.

(* every state reachable from init satisfies A.4 and reports readable = |abs| *)
Lemma reachable_inv c fill ops : 1 <= c -> Forall wf_op ops ->
  let s := st (fst (run (start c fill) ops)) in
  inv s /\ cap s = c /\ readable s = len (abs s).
Proof.
  intros Hc W. destruct (run (start c fill) ops) as [x outs] eqn:E. cbn [fst].
  assert (Hc0 : 0 <= c) by lia.
  pose proof (run_from_init _ _ _ _ _ Hc0 W E) as (I & C & _).
  assert (inv (st x)) by (apply sinv_inv; auto; lia).
  spl; auto. apply readable_abs; auto.
Qed.

(* readable() is exact for capacity 0 too *)
Lemma reachable_readable c fill ops : 0 <= c -> Forall wf_op ops ->
  let s := st (fst (run (start c fill) ops)) in readable s = len (abs s).
Proof.
  intros Hc W. destruct (run (start c fill) ops) as [x outs] eqn:E. cbn [fst].
  pose proof (run_from_init _ _ _ _ _ Hc W E) as (I & _). apply sinv_readable; auto.
Qed.

Lemma refines_fifo c fill ops : 0 <= c -> Forall wf_op ops ->
  fifo_trace [] (combine ops (snd (run (start c fill) ops))).
Proof.
  intros Hc W. destruct (run (start c fill) ops) as [x outs] eqn:E. cbn [snd].
  apply (run_from_init _ _ _ _ _ Hc W E).
Qed.

Lemma indices_in_range c fill ops : 0 <= c -> Forall wf_op ops ->
  Forall (fun ob => acc_in_range c (o_acc ob) = true) (snd (run (start c fill) ops)).
Proof.
  intros Hc W. destruct (run (start c fill) ops) as [x outs] eqn:E. cbn [snd].
  apply (run_from_init _ _ _ _ _ Hc W E).
Qed.

(* a refused operation leaves the buffer exactly as it was, at every point of every history *)
Lemma refused_unchanged c fill ops o : 0 <= c -> Forall wf_op ops -> wf_op o ->
  let x := fst (run (start c fill) ops) in
  refused (snd (fst (step x o))) = true -> st (fst (fst (step x o))) = st x.
Proof.
  intros Hc W Wo. destruct (run (start c fill) ops) as [x outs] eqn:E. cbn [fst].
  pose proof (run_spec ops _ _ _ (start_sinv c fill Hc) W E) as (S & _).
  destruct (step x o) as [[x1 r] a] eqn:ES. cbn [fst snd].
  apply (step_spec _ _ _ _ _ S Wo ES).
Qed.

(* the outstanding regions at every point of every history: the writer region is
   free space (at w, at the origin for a jump, or anywhere in a buffer that was
   emptied since), the reader region is empty or the first contiguous unread bytes *)
Lemma regions_outstanding c fill ops : 1 <= c -> Forall wf_op ops ->
  let x := fst (run (start c fill) ops) in
  match wptr x with Some (off, n) => region_ok (st x) off n | None => True end /\
  match rptr x with Some (off, n) => rptr_ok (st x) off n | None => True end.
Proof.
  intros Hc W. destruct (run (start c fill) ops) as [x outs] eqn:E. cbn [fst].
  assert (Hc0 : 0 <= c) by lia.
  pose proof (run_from_init _ _ _ _ _ Hc0 W E) as ([G | (S & _)] & C & _).
  - split; apply G.
  - rewrite S in C. cbn in C. lia.
Qed.

(* init fails exactly when the allocation fails; a negative capacity is an allocation that cannot succeed *)
Lemma init_fails_iff c fill ok : init_opt c fill ok = None <-> (c < 0 \/ ok = false).
Proof.
  unfold init_opt. destruct (Z.ltb_spec c 0); destruct ok; cbn [orb negb]; split; intros; auto; try discriminate;
    try lia; try (destruct H0; [lia | discriminate]).
Qed.

Lemma init_succeeds c fill : 0 <= c -> start_opt c fill true = Some (start c fill).
Proof.
  intros. unfold start_opt, init_opt, start. rewrite (ltb_f c 0) by lia. reflexivity.
Qed.

(* failure iff the kind of space / data needed is lacking; state unchanged then *)
Lemma fail_iff_lack s : inv s ->
  (forall src, snd (fst (write s src)) = false <-> writable s < len src) /\
  (forall src, snd (fst (write s src)) = false -> fst (fst (write s src)) = s) /\
  (forall n, 0 <= n -> (snd (fst (read s n)) = None <-> readable s < n)) /\
  (forall n, 0 <= n -> snd (fst (read s n)) = None -> fst (fst (read s n)) = s) /\
  (forall n, 0 <= n -> (fst (fetch s n) = None <-> readable s < n)) /\
  (forall n, writer_fc s n = None <-> contiguous_writable s < n /\ jump_writable s < n) /\
  (forall n off data, region_ok s off n -> len data <= n ->
                      snd (writer_move_n (poke s off data) off (len data)) = true) /\
  (forall n, 0 <= n -> (snd (writer_move s n) = false <-> contiguous_writable s < n /\ jump_writable s < n)) /\
  (forall n, 0 <= n -> snd (writer_move s n) = false -> fst (writer_move s n) = s) /\
  (forall n, reader_fc s n = None <-> contiguous_readable s < n) /\
  (forall k, 0 <= k -> (snd (reader_move s k) = false <-> contiguous_readable s < k)) /\
  (forall k, 0 <= k -> snd (reader_move s k) = false -> fst (reader_move s k) = s).
Proof.
  intros H. spl.
  - intros src. destruct (write s src) as [[s1 ok] a] eqn:E; cbn [fst snd].
    pose proof (write_spec _ _ _ _ _ H E) as (_ & _ & Q & _). destruct ok; split; intros; try discriminate; auto.
    + assert (len src <= writable s) by (apply Q; auto). lia.
    + assert (~ len src <= writable s) by (intros Hc; apply Q in Hc; discriminate). lia.
  - intros src. destruct (write s src) as [[s1 ok] a] eqn:E; cbn [fst snd].
    pose proof (write_spec _ _ _ _ _ H E) as (_ & _ & _ & _ & F & _). auto.
  - intros n Hn. destruct (read s n) as [[s1 r] a] eqn:E; cbn [fst snd].
    pose proof (read_spec _ _ _ _ _ H Hn E) as (_ & _ & Q & _). apply Q.
  - intros n Hn. destruct (read s n) as [[s1 r] a] eqn:E; cbn [fst snd].
    pose proof (read_spec _ _ _ _ _ H Hn E) as (_ & _ & _ & _ & F & _). auto.
  - intros n Hn. destruct (fetch s n) as [r a] eqn:E; cbn [fst snd].
    pose proof (fetch_spec _ _ _ _ H Hn E) as (Q & _). apply Q.
  - intros n. pose proof (writer_fc_spec s n H) as Q.
    destruct (writer_fc s n); split; intros; auto; try discriminate; lia.
  - intros n off data F K.
    destruct (writer_move_n (poke s off data) off (len data)) as [s2 ok] eqn:E; cbn [snd].
    apply (wmn_region_spec _ _ _ _ _ _ H F K E).
  - intros n Hn. apply (writer_move_fail s n Hn).
  - intros n Hn. apply (writer_move_fail s n Hn).
  - intros n. pose proof (reader_fc_spec s n H) as Q.
    destruct (reader_fc s n); split; intros; auto; try discriminate; lia.
  - intros k Hk. destruct (reader_move s k) as [s1 ok] eqn:E; cbn [fst snd].
    pose proof (reader_move_spec _ _ _ _ H Hk E) as (_ & _ & Q & _). destruct ok; split; intros; try discriminate; auto.
    + assert (k <= contiguous_readable s) by (apply Q; auto). lia.
    + assert (~ k <= contiguous_readable s) by (intros Hc; apply Q in Hc; discriminate). lia.
  - intros k Hk. destruct (reader_move s k) as [s1 ok] eqn:E; cbn [fst snd].
    pose proof (reader_move_spec _ _ _ _ H Hk E) as (_ & _ & _ & _ & F). auto.
Qed.

(* ------------------------------------------------------------------ *)
(* Non-vacuity: a concrete history that goes through a truncating jump,
   a reader wrap at the mark, the writer arriving exactly at the stale mark,
   a split write and both zero-copy pairs satisfies every hypothesis above,
   and the observable results are the FIFO ones. *)

Definition ex_ops : list op :=
  [OWrite [1;2;3;4]; ORead 3; OWrite [5;6]; ORmove 1; OWrite [7;8]; ORead 4; ORfc 1;
   OWfc 3; OWmn [9;10]; OFetch 2; OWmove [11]; ORfc 3; ORmove 2; OWrite [12;13;14]; ORead 4; ORead 1].

Example ex_wf : Forall wf_op ex_ops.
Proof. repeat constructor; cbn; lia. Qed.

Example ex_results :
  map o_res (snd (run (start 5 0) ex_ops)) =
  [RBool true; RBytes (Some [1;2;3]); RBool true; RBool true; RBool true; RBytes (Some [5;6;7;8]);
   RPtrBytes None; RPtr (Some 0); RBool true; RBytes (Some [9;10]); RMove true (Some 2);
   RPtrBytes (Some (0, [9;10;11])); RBool true; RBool true; RBytes (Some [11;12;13;14]); RBytes None]
  /\ map o_rd (snd (run (start 5 0) ex_ops)) = [4;1;3;2;4;0;0;0;2;2;3;3;1;4;0;0].
Proof. vm_compute. split; reflexivity. Qed.

Example ex_inv_shapeB : inv (mkbb 5 2 3 4 [6;7;0;4;0]) /\ abs (mkbb 5 2 3 4 [6;7;0;4;0]) = [4;6;7].
Proof. split; [unfold inv; cbn; lia | reflexivity]. Qed.

(* What the two repairs are for: the same motions with the ORIGINAL tests.      *)
(* (1) mark reset only when t < w: from the reachable state w=2 r=0 t=4 (c=5)   *)
(* the writer lands on the stale mark, [wp < tp] is lost, and the next read of  *)
(* all 4 unread bytes wraps r to 0 in shape A: readable() is 4 again although   *)
(* the FIFO is empty.                                                            *)
Definition advance_w_orig (s : bb) (n : Z) (b : list byte) : bb :=
  let w1 := wp s + n in
  let t1 := if tp s <? w1 then cap s else tp s in
  let w2 := if w1 =? cap s then 0 else w1 in
  mkbb (cap s) w2 (rp s) t1 b.

Example orig_stale_mark_resurrects :
  let s := mkbb 5 2 0 4 [6;7;3;4;0] in                   (* unread: 6 7 *)
  inv s /\
  let s1 := advance_w_orig s 2 (blit (buf s) 2 [8;9]) in (* accepted: 8 9 *)
  ~ inv s1 /\
  let '(s2, out, _) := read s1 4 in
  out = Some [6;7;8;9] /\ readable s2 = 4 /\ drop 4 [6;7;8;9] = [].
Proof.
  cbn zeta. split; [unfold inv; cbn; lia|].
  split; [intros (_ & _ & _ & T & _); vm_compute in T; destruct T as [T _]; discriminate T|].
  vm_compute. repeat split; reflexivity.
Qed.

(* (2) reader_move without the wrap at the mark: from the reachable state        *)
(* w=2 r=3 t=4 (c=5, unread 4 6 7) moving past the single contiguous byte       *)
(* leaves r = t: two bytes unread, none contiguous, reader_fc refuses for ever.  *)
Definition reader_move_orig (s : bb) (n : Z) : bb * bool :=
  let cr := contiguous_readable s in
  if n <=? cr then (refresh (mkbb (cap s) (wp s) (rp s + n) (tp s) (buf s)), true)
  else (s, false).

Example orig_reader_move_stuck :
  let s := mkbb 5 2 3 4 [6;7;0;4;0] in
  inv s /\
  let s1 := fst (reader_move_orig s 1) in
  readable s1 = 2 /\ contiguous_readable s1 = 0 /\ reader_fc s1 1 = None /\ ~ inv s1.
Proof.
  cbn zeta. split; [unfold inv; cbn; lia|].
  repeat split; try reflexivity.
  intros (_ & _ & _ & _ & [T | [T | T]]); vm_compute in T; destruct T as [T1 T2];
    first [discriminate T1 | discriminate T2 | (destruct T2 as [T2 _]; discriminate T2)
          | (exfalso; apply T1; reflexivity) | (exfalso; apply T2; reflexivity)].
Qed.

(* The wider operation language is not vacuous either: a region handed out at
   offset 3, the reader drains the buffer (refresh() goes back to the origin),
   fetch on the empty buffer, the commit through the region AFTER that (the
   repaired path: [8;9] is delivered, not the stale [1;2]); a reader region that
   stays valid while the writer writes; negative counts for writer_fc /
   reader_fc (empty regions); counts of at least the capacity; a second
   outstanding writer region across reader_move / reader_fc. *)
Definition ex_ops2 : list op :=
  [OWrite [1;2;3]; OWfc 2; ORead 3; OFetch 1; OWmn [8;9]; OFetch 2; ORfc 2; OWrite [4]; ORpeek; OWfc (-1); OWmn [];
   ORfc (-5); ORpeek; OWriteN 8; OWriteN 3; OWmoveN 9; OWfc 2; ORmove 2; ORfc 1; OWmn [5;6]; ORpeek; ORead 3; ORpeek].

Example ex2_wf : Forall wf_op ex_ops2.
Proof. repeat constructor; cbn; lia. Qed.

Example ex2_results :
  map o_res (snd (run (start 8 0) ex_ops2)) =
  [RBool true; RPtr (Some 3); RBytes (Some [1;2;3]); RBytes None; RBool true; RBytes (Some [8;9]);
   RPtrBytes (Some (3, [8;9])); RBool true; RPtrBytes (Some (3, [8;9])); RPtr (Some 6); RSkip;
   RPtrBytes (Some (3, [])); RPtrBytes (Some (3, [])); RBool false; RSkip; RMove false None; RPtr (Some 6);
   RBool true; RPtrBytes (Some (5, [4])); RBool true; RPtrBytes (Some (5, [4])); RBytes (Some [4;5;6]); RSkip]
  /\ map o_rd (snd (run (start 8 0) ex_ops2)) = [3;3;0;0;2;2;2;3;3;3;3;3;3;3;3;3;3;1;1;3;3;0;0].
Proof. vm_compute. split; reflexivity. Qed.

(* capacity 0: every write is refused, 0-byte reads / regions / advances succeed, nothing ever changes *)
Definition ex_ops0 : list op :=
  [OWrite []; OWrite [1]; ORead 0; ORead 1; OFetch 0; OWfc 0; OWmn []; OWfc (-3); OWmove []; OWmove [2]; OWriteN 0;
   OWmoveN 0; OWmoveN 1; ORfc 0; ORpeek; ORmove 0; ORmove 1; OClear].

Example ex0_results :
  Forall wf_op ex_ops0 /\
  map o_res (snd (run (start 0 0) ex_ops0)) =
  [RBool false; RBool false; RBytes (Some []); RBytes None; RBytes (Some []); RPtr (Some 0); RBool true; RPtr (Some 0);
   RMove true (Some 0); RMove false None; RBool false; RMove true (Some 0); RMove false None; RPtrBytes (Some (0, []));
   RPtrBytes (Some (0, [])); RBool true; RBool false; RUnit]
  /\ Forall (fun ob => o_rd ob = 0) (snd (run (start 0 0) ex_ops0))
  /\ start_opt 0 0 true = Some (start 0 0) /\ start_opt (-1) 0 true = None /\ start_opt 8 0 false = None.
Proof.
  split; [repeat constructor; cbn; lia|].
  vm_compute. repeat split; try reflexivity. repeat constructor.
Qed.
