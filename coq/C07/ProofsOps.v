(* C07 — per-operation specifications, the reference byte FIFO, and the
   history-level theorems. *)
From MV Require Import C07.Model C07.ProofsList C07.Proofs.
From Coq Require Import ZifyBool.
Local Open Scope Z_scope.

(* split conjunctions and equivalences, but never unfold [inv] *)
Ltac spl := repeat match goal with |- _ /\ _ => split | |- _ <-> _ => split end.

Lemma acc1 c o n : 0 <= o -> 0 <= n -> o + n <= c -> acc_in_range c [(o, n)] = true.
Proof. intros. unfold acc_in_range; cbn. rewrite !leb_t by lia. reflexivity. Qed.

Lemma acc2 c o n o' n' : 0 <= o -> 0 <= n -> o + n <= c -> 0 <= o' -> 0 <= n' -> o' + n' <= c ->
  acc_in_range c ([(o, n)] ++ [(o', n')]) = true.
Proof. intros. unfold acc_in_range; cbn. rewrite !leb_t by lia. reflexivity. Qed.

(* where the cursors and the space helpers can be *)
Lemma wbounds s : inv s ->
  0 <= wp s /\ wp s + contiguous_writable s <= cap s /\ jump_writable s < cap s /\
  0 <= rp s /\ rp s + contiguous_readable s <= cap s /\ 0 <= jump_readable s < cap s.
Proof.
  intros H. open_state s.
  unfold contiguous_writable, jump_writable, contiguous_readable, jump_readable; cbn [cap wp rp tp buf].
  destruct H as (Hc & Hl & Hw & Ht & [A | [E | B]]); zb; try lia.
  destruct (Z.eqb_spec r 0); cbn [negb]; lia.
Qed.

(* the caller's store through a writer_fc pointer does not move any cursor *)
Lemma poke_fields s off data :
  cap (poke s off data) = cap s /\ wp (poke s off data) = wp s /\ rp (poke s off data) = rp s /\
  tp (poke s off data) = tp s /\ buf (poke s off data) = blit (buf s) off data.
Proof. spl; reflexivity. Qed.

Lemma cw_poke s off data : contiguous_writable (poke s off data) = contiguous_writable s.
Proof. reflexivity. Qed.
Lemma jw_poke s off data : jump_writable (poke s off data) = jump_writable s.
Proof. reflexivity. Qed.
Lemma adv_poke s off data n : advance_w (poke s off data) n (buf (poke s off data)) = advance_w s n (blit (buf s) off data).
Proof. reflexivity. Qed.

(* ------------------------------------------------------------------ *)

Lemma write_spec s src s' ok a : inv s -> write s src = (s', ok, a) ->
  inv s' /\ cap s' = cap s /\
  (ok = true <-> len src <= writable s) /\
  (ok = true -> abs s' = abs s ++ src) /\
  (ok = false -> s' = s) /\
  acc_in_range (cap s) a = true.
Proof.
  intros H E. unfold write in E. cbv zeta in E. unfold writable.
  pose proof (writable_nonneg s H) as [C0 J0]. pose proof (wbounds s H) as (B1 & B2 & B3 & _).
  pose proof (len_nonneg src) as Hd.
  destruct (Z.leb_spec (len src) (contiguous_writable s)) as [L | L].
  - inversion E; subst; clear E.
    pose proof (adv_spec s src H L) as (I & C & A). cbv zeta in *.
    spl; auto; try lia; try discriminate. apply acc1; lia.
  - destruct (Z.ltb_spec (contiguous_writable s + jump_writable s) (len src)) as [F | F].
    + inversion E; subst; clear E. spl; auto; try lia; try discriminate.
    + destruct (Z.leb_spec (len src) (jump_writable s)) as [J | J].
      * inversion E; subst; clear E.
        assert (J1 : 1 <= jump_writable s) by lia.
        pose proof (jump_spec s src H J1 J) as (I & A). cbv zeta in *.
        spl; auto; try lia; try discriminate. apply acc1; lia.
      * pose proof (split_spec s src H L J F) as (I & A & P). cbv zeta in *.
        rewrite (ltb_t 0 (contiguous_writable s)) in E by lia.
        inversion E; subst; clear E.
        spl; auto; try lia; try discriminate. apply acc2; lia.
Qed.

Lemma read_spec s n s' r a : inv s -> 0 <= n -> read s n = (s', r, a) ->
  inv s' /\ cap s' = cap s /\
  (r = None <-> readable s < n) /\
  (forall bs, r = Some bs -> bs = take n (abs s) /\ abs s' = drop n (abs s)) /\
  (r = None -> s' = s) /\
  acc_in_range (cap s) a = true.
Proof.
  intros H Hn E. unfold read in E. cbv zeta in E. unfold readable.
  pose proof (contiguous_le_readable s H) as CR. unfold readable in CR.
  pose proof (wbounds s H) as (_ & _ & _ & B4 & B5 & B6).
  destruct (Z.leb_spec n (contiguous_readable s)) as [L | L].
  - inversion E; subst; clear E.
    pose proof (rd1_spec s n H (conj Hn L)) as (I & C & A & P). cbv zeta in *.
    spl; auto; try lia; try discriminate.
    + intros bs Hb. inversion Hb; subst. auto.
    + apply acc1; lia.
  - destruct (Z.ltb_spec (contiguous_readable s + jump_readable s) n) as [F | F].
    + inversion E; subst; clear E. spl; auto; try lia; try discriminate.
    + pose proof (rd2_spec s n H L F) as (I & C & A & P & Q). cbv zeta in *.
      rewrite (ltb_t 0 (contiguous_readable s)) in E by lia.
      inversion E; subst; clear E.
      spl; auto; try lia; try discriminate.
      * intros bs Hb. inversion Hb; subst. auto.
      * apply acc2; lia.
Qed.

Lemma fetch_spec s n r a : inv s -> 0 <= n -> fetch s n = (r, a) ->
  (r = None <-> readable s < n) /\
  (forall bs, r = Some bs -> bs = take n (abs s)) /\
  acc_in_range (cap s) a = true.
Proof.
  intros H Hn E. unfold fetch in E. cbv zeta in E. unfold readable.
  pose proof (contiguous_le_readable s H) as CR. unfold readable in CR.
  pose proof (wbounds s H) as (_ & _ & _ & B4 & B5 & B6).
  destruct (Z.leb_spec n (contiguous_readable s)) as [L | L].
  - inversion E; subst; clear E.
    pose proof (rd1_spec s n H (conj Hn L)) as (I & C & A & P). cbv zeta in *.
    spl; auto; try lia; try discriminate.
    + intros bs Hb. inversion Hb; subst. auto.
    + apply acc1; lia.
  - destruct (Z.ltb_spec (contiguous_readable s + jump_readable s) n) as [F | F].
    + inversion E; subst; clear E. spl; auto; try lia; try discriminate.
    + pose proof (rd2_spec s n H L F) as (I & C & A & P & Q). cbv zeta in *.
      rewrite (ltb_t 0 (contiguous_readable s)) in E by lia.
      inversion E; subst; clear E.
      spl; auto; try lia; try discriminate.
      * intros bs Hb. inversion Hb; subst. auto.
      * apply acc2; lia.
Qed.

Lemma writer_fc_spec s n : inv s -> 0 <= n ->
  match writer_fc s n with
  | Some off => (n <= contiguous_writable s \/ n <= jump_writable s) /\ 0 <= off /\ off + n <= cap s
  | None => contiguous_writable s < n /\ jump_writable s < n
  end.
Proof.
  intros H Hn. unfold writer_fc. cbv zeta.
  pose proof (wbounds s H) as (B1 & B2 & B3 & _).
  destruct (Z.leb_spec n (contiguous_writable s)); [lia|].
  destruct (Z.leb_spec n (jump_writable s)); lia.
Qed.

(* the zero-copy writer pair, partial advance included (contract of Appendix B:
   the pointer is the one writer_fc n just returned, at most n bytes stored) *)
Lemma wmn_spec s n off data s2 ok : inv s -> writer_fc s n = Some off -> len data <= n ->
  writer_move_n (poke s off data) off (len data) = (s2, ok) ->
  ok = true /\ inv s2 /\ cap s2 = cap s /\ abs s2 = abs s ++ data.
Proof.
  intros H F K E. pose proof (len_nonneg data) as Hd.
  unfold writer_fc in F. cbv zeta in F.
  unfold writer_move_n in E.
  destruct (Z.leb_spec n (contiguous_writable s)) as [L | L].
  - inversion F; subst off; clear F.
    assert (L' : len data <= contiguous_writable s) by lia.
    pose proof (adv_spec s data H L') as (I & C & A). cbv zeta in *.
    destruct (Z.eqb_spec (wp s) 0) as [W0 | W0].
    + (* start of the array: the code takes the "ptr == buffer" branch without a jump *)
      assert (Q : s2 = advance_w s (len data) (blit (buf s) (wp s) data) /\ ok = true).
      { inversion E; subst; clear E. split; auto.
        clear I C A. open_state s. unfold advance_w, contiguous_writable, poke in *; cbn [cap wp rp tp buf] in *.
        subst w.
        destruct H as (Hc & Hl & Hw & Ht & [A | [E0 | B]]).
        - lia.
        - destruct E0 as (-> & _ & ->). rewrite leb_t in L' by lia. cbn [Z.eqb negb] in L'.
          zb. reflexivity.
        - rewrite leb_f in L' by lia. zb. reflexivity. }
      destruct Q as [-> ->]. auto.
    + rewrite adv_poke in E. inversion E; subst; clear E. auto.
  - destruct (Z.leb_spec n (jump_writable s)) as [J | J]; [|discriminate].
    inversion F; subst off; clear F.
    pose proof (writable_nonneg s H) as [C0 J0].
    assert (J1 : 1 <= jump_writable s) by lia.
    assert (J2 : len data <= jump_writable s) by lia.
    pose proof (jump_spec s data H J1 J2) as (I & A). cbv zeta in *.
    assert (W : 0 < wp s).
    { clear I A. open_state s. unfold jump_writable in J1; cbn [cap wp rp tp buf] in *.
      destruct H as (Hc & Hl & Hw & Ht & [A0 | [E0 | B]]).
      - lia.
      - destruct E0 as (-> & -> & ->). cbn in J1. lia.
      - rewrite leb_f in J1 by lia. lia. }
    cbn [Z.eqb] in E. rewrite (proj1 (poke_fields s 0 data)) in E.
    replace (wp (poke s 0 data)) with (wp s) in E by reflexivity.
    replace (rp (poke s 0 data)) with (rp s) in E by reflexivity.
    replace (buf (poke s 0 data)) with (blit (buf s) 0 data) in E by reflexivity.
    rewrite (ltb_t 0 (wp s)) in E by lia.
    inversion E; subst; clear E. auto.
Qed.

(* the deprecated writer_move in its documented pairing with writer_fc of the same size *)
Lemma wmove_spec s data : inv s ->
  match writer_fc s (len data) with
  | Some off =>
    exists s2, writer_move (poke s off data) (len data) = (s2, true) /\
               inv s2 /\ cap s2 = cap s /\ abs s2 = abs s ++ data
  | None => writer_move s (len data) = (s, false)
  end.
Proof.
  intros H. pose proof (len_nonneg data) as Hd.
  unfold writer_fc, writer_move. cbv zeta.
  destruct (Z.leb_spec (len data) (contiguous_writable s)) as [L | L].
  - rewrite cw_poke. rewrite (leb_t _ _ L). rewrite adv_poke.
    pose proof (adv_spec s data H L) as (I & C & A). cbv zeta in *.
    eexists; split; [reflexivity|]. auto.
  - destruct (Z.leb_spec (len data) (jump_writable s)) as [J | J].
    + rewrite cw_poke, jw_poke. rewrite (leb_f _ _ L), (leb_t _ _ J).
      pose proof (writable_nonneg s H) as [C0 J0].
      assert (J1 : 1 <= jump_writable s) by lia.
      pose proof (jump_spec s data H J1 J) as (I & A). cbv zeta in *.
      eexists; split; [reflexivity|]. auto.
    + reflexivity.
Qed.

Lemma writer_move_fail s n : 0 <= n ->
  (snd (writer_move s n) = false <-> contiguous_writable s < n /\ jump_writable s < n) /\
  (snd (writer_move s n) = false -> fst (writer_move s n) = s).
Proof.
  intros Hn. unfold writer_move. cbv zeta.
  destruct (Z.leb_spec n (contiguous_writable s)); cbn [fst snd].
  - split; [split; [discriminate | lia] | discriminate].
  - destruct (Z.leb_spec n (jump_writable s)); cbn [fst snd].
    + split; [split; [discriminate | lia] | discriminate].
    + split; [split; auto; lia | auto].
Qed.

Lemma reader_fc_spec s n : inv s -> 0 <= n ->
  match reader_fc s n with
  | Some off => n <= contiguous_readable s /\ sub (buf s) off n = take n (abs s) /\
                n <= len (abs s) /\ 0 <= off /\ off + n <= cap s
  | None => contiguous_readable s < n
  end.
Proof.
  intros H Hn. unfold reader_fc. cbv zeta.
  destruct (Z.leb_spec n (contiguous_readable s)) as [L | L]; [|lia].
  pose proof (peek1_spec s n H (conj Hn L)) as (P & Q & R).
  pose proof (contiguous_le_readable s H). rewrite (readable_abs s H) in *.
  spl; auto; lia.
Qed.

Lemma reader_move_spec s k s' ok : inv s -> 0 <= k -> reader_move s k = (s', ok) ->
  inv s' /\ cap s' = cap s /\
  (ok = true <-> k <= contiguous_readable s) /\
  (ok = true -> k <= len (abs s) /\ abs s' = drop k (abs s)) /\
  (ok = false -> s' = s).
Proof.
  intros H Hk E. unfold reader_move in E. cbv zeta in E.
  destruct (Z.leb_spec k (contiguous_readable s)) as [L | L].
  - inversion E; subst; clear E.
    pose proof (rd1_spec s k H (conj Hk L)) as (I & C & A & P). cbv zeta in *.
    pose proof (contiguous_le_readable s H). rewrite (readable_abs s H) in *.
    spl; auto; try lia; try discriminate. intros _. split; [lia | auto].
  - inversion E; subst; clear E. spl; auto; try lia; try discriminate.
Qed.

Lemma clear_spec s : inv s -> inv (clear s) /\ cap (clear s) = cap s /\ abs (clear s) = [].
Proof.
  intros H. open_state s. unfold clear, abs; cbn [cap wp rp tp buf].
  destruct H as (? & ? & ? & ? & ?). spl; try lia; reflexivity.
Qed.

(* ------------------------------------------------------------------ *)
(* The reference: a byte FIFO that knows nothing about cursors.         *)
(* [fifo_step q o r q'] : operation o answered with r takes contents q  *)
(* to q' — and r is an answer a lossless FIFO may give.                 *)

Definition fifo_step (q : list byte) (o : op) (r : res) (q' : list byte) : Prop :=
  match o, r with
  | OWrite src, RBool true => q' = q ++ src
  | OWrite src, RBool false => q' = q
  | ORead n, RBytes (Some bs) => n <= len q /\ bs = take n q /\ q' = drop n q
  | ORead n, RBytes None => len q < n /\ q' = q
  | OFetch n, RBytes (Some bs) => n <= len q /\ bs = take n q /\ q' = q
  | OFetch n, RBytes None => len q < n /\ q' = q
  | OWfc n, RPtr _ => q' = q
  | OWmn data, RBool true => q' = q ++ data
  | OWmn data, RSkip => q' = q
  | OWmove data, RMove true (Some _) => q' = q ++ data
  | OWmove data, RMove false None => q' = q
  | ORfc n, RPtrBytes (Some (_, bs)) => n <= len q /\ bs = take n q /\ q' = q
  | ORfc n, RPtrBytes None => q' = q
  | ORmove k, RBool true => k <= len q /\ q' = drop k q
  | ORmove k, RBool false => q' = q
  | OClear, RUnit => q' = []
  | _, _ => False
  end.

(* a whole observed history is a FIFO history, and readable() reported after
   every operation is the number of bytes accepted and not yet consumed *)
Fixpoint fifo_trace (q : list byte) (tr : list (op * obs)) : Prop :=
  match tr with
  | [] => True
  | (o, ob) :: rest =>
    exists q', fifo_step q o (o_res ob) q' /\ o_rd ob = len q' /\ fifo_trace q' rest
  end.

(* sizes are non-negative (Appendix B) *)
Definition wf_op (o : op) : Prop :=
  match o with
  | ORead n | OFetch n | OWfc n | ORfc n | ORmove n => 0 <= n
  | _ => True
  end.

(* operations whose answer is a refusal *)
Definition refused (r : res) : bool :=
  match r with
  | RBool false | RBytes None | RPtr None | RMove false _ | RPtrBytes None | RSkip => true
  | _ => false
  end.

(* session invariant: buffer invariant + the pending pointer is what writer_fc
   returns in the current state *)
Definition sinv (x : sess) : Prop :=
  inv (st x) /\
  match wptr x with
  | Some (off, n) => writer_fc (st x) n = Some off /\ 0 <= n
  | None => True
  end.

Lemma start_sinv c fill : 1 <= c -> sinv (start c fill).
Proof. intros. split; [apply init_inv; auto | exact I]. Qed.

Lemma step_spec x o x' r a : sinv x -> wf_op o -> step x o = (x', r, a) ->
  sinv x' /\ cap (st x') = cap (st x) /\
  fifo_step (abs (st x)) o r (abs (st x')) /\
  acc_in_range (cap (st x)) a = true /\
  (refused r = true -> st x' = st x).
Proof.
  intros [H P] W E. destruct x as [s p]; cbn [st wptr] in *.
  destruct o; cbn [step st wptr wf_op] in *.
  - (* write *)
    destruct (write s src) as [[s1 ok] a1] eqn:EW. inversion E; subst; clear E.
    pose proof (write_spec _ _ _ _ _ H EW) as (I & C & Q & A & F & R). unfold sinv; cbn [st wptr].
    spl; auto.
    + destruct ok; cbn [fifo_step]; auto. rewrite F; auto.
    + destruct ok; cbn [refused]; auto; discriminate.
  - (* read *)
    destruct (read s n) as [[s1 o1] a1] eqn:ER. inversion E; subst; clear E.
    pose proof (read_spec _ _ _ _ _ H W ER) as (I & C & Q & A & F & R). unfold sinv; cbn [st wptr].
    rewrite (readable_abs s H) in Q.
    spl; auto.
    + destruct o1 as [bs|]; cbn [fifo_step].
      * destruct (A bs eq_refl) as [A1 A2].
        assert (~ len (abs s) < n) by (intros Hc; apply Q in Hc; discriminate).
        spl; auto; lia.
      * split; [apply Q; auto | rewrite F; auto].
    + destruct o1; cbn [refused]; auto; discriminate.
  - (* fetch *)
    destruct (fetch s n) as [o1 a1] eqn:EF. inversion E; subst; clear E.
    pose proof (fetch_spec _ _ _ _ H W EF) as (Q & A & R). unfold sinv; cbn [st wptr].
    rewrite (readable_abs s H) in Q.
    spl; auto.
    destruct o1 as [bs|]; cbn [fifo_step].
    + assert (~ len (abs s) < n) by (intros Hc; apply Q in Hc; discriminate).
      spl; auto; lia.
    + split; [apply Q; auto | auto].
  - (* writer_fc *)
    pose proof (writer_fc_spec s n H W) as Q.
    destruct (writer_fc s n) as [off|] eqn:EF; inversion E; subst; clear E; unfold sinv; cbn [st wptr fifo_step].
    + spl; auto. apply acc1; lia.
    + spl; auto.
  - (* writer_move_n through the pending pointer *)
    destruct p as [[off n]|].
    + destruct P as [P1 P2].
      destruct (Z.leb_spec (len data) n) as [K | K].
      * destruct (writer_move_n (poke s off data) off (len data)) as [s2 ok] eqn:EM.
        inversion E; subst; clear E.
        pose proof (wmn_spec _ _ _ _ _ _ H P1 K EM) as (-> & I & C & A). unfold sinv; cbn [st wptr fifo_step refused].
        pose proof (writer_fc_spec s n H P2) as Q. rewrite P1 in Q.
        pose proof (len_nonneg data).
        spl; auto; try discriminate. apply acc1; lia.
      * inversion E; subst; clear E. unfold sinv; cbn [st wptr fifo_step]. spl; auto.
    + inversion E; subst; clear E. unfold sinv; cbn [st wptr fifo_step]. spl; auto.
  - (* deprecated writer_move, paired *)
    pose proof (wmove_spec s data H) as Q.
    pose proof (writer_fc_spec s (len data) H (len_nonneg data)) as Q2.
    destruct (writer_fc s (len data)) as [off|] eqn:EF.
    + destruct Q as (s2 & EM & I & C & A). rewrite EM in E. inversion E; subst; clear E.
      unfold sinv; cbn [st wptr fifo_step refused]. spl; auto; try discriminate.
      apply acc1; try lia. apply len_nonneg.
    + rewrite Q in E. inversion E; subst; clear E. unfold sinv; cbn [st wptr fifo_step]. spl; auto.
  - (* reader_fc *)
    pose proof (reader_fc_spec s n H W) as Q.
    destruct (reader_fc s n) as [off|] eqn:EF; inversion E; subst; clear E; unfold sinv; cbn [st wptr fifo_step].
    + destruct Q as (Q1 & Q2 & Q3 & Q4 & Q5). spl; auto. apply acc1; lia.
    + spl; auto.
  - (* reader_move *)
    destruct (reader_move s k) as [s1 ok] eqn:EM. inversion E; subst; clear E.
    pose proof (reader_move_spec _ _ _ _ H W EM) as (I & C & Q & A & F). unfold sinv; cbn [st wptr].
    spl; auto.
    + destruct ok; cbn [fifo_step]; auto. rewrite F; auto.
    + destruct ok; cbn [refused]; auto; discriminate.
  - (* clear *)
    inversion E; subst; clear E. pose proof (clear_spec s H) as (I & C & A). unfold sinv; cbn [st wptr fifo_step].
    spl; auto. discriminate.
Qed.

Lemma observe_spec x o x' ob : sinv x -> wf_op o -> observe x o = (x', ob) ->
  sinv x' /\ cap (st x') = cap (st x) /\
  fifo_step (abs (st x)) o (o_res ob) (abs (st x')) /\
  o_rd ob = len (abs (st x')) /\
  acc_in_range (cap (st x)) (o_acc ob) = true /\
  (refused (o_res ob) = true -> st x' = st x).
Proof.
  intros S W E. unfold observe in E.
  destruct (step x o) as [[x1 r] a] eqn:ES. inversion E; subst; clear E. cbn [o_res o_rd o_acc].
  pose proof (step_spec _ _ _ _ _ S W ES) as (S' & C & F & A & R).
  spl; auto; try apply S'. apply readable_abs. apply S'.
Qed.

(* history level: from any state satisfying the invariant *)
Lemma run_spec : forall ops x x' outs, sinv x -> Forall wf_op ops -> run x ops = (x', outs) ->
  sinv x' /\ cap (st x') = cap (st x) /\
  fifo_trace (abs (st x)) (combine ops outs) /\
  Forall (fun ob => acc_in_range (cap (st x)) (o_acc ob) = true) outs /\
  length outs = length ops.
Proof.
  induction ops as [|o rest IH]; intros x x' outs S W E; cbn [run] in E.
  - inversion E; subst. cbn. spl; auto.
  - destruct (observe x o) as [x1 ob] eqn:EO.
    destruct (run x1 rest) as [x2 outs'] eqn:ER. inversion E; subst; clear E.
    inversion W as [|? ? W1 W2]; subst.
    pose proof (observe_spec _ _ _ _ S W1 EO) as (S1 & C1 & F1 & R1 & A1 & _).
    pose proof (IH _ _ _ S1 W2 ER) as (S2 & C2 & F2 & A2 & L2).
    spl; try apply S2.
    + congruence.
    + cbn [combine fifo_trace]. exists (abs (st x1)). auto.
    + constructor; auto. rewrite <- C1. auto.
    + cbn. congruence.
Qed.

Lemma run_from_init c fill ops x outs : 1 <= c -> Forall wf_op ops ->
  run (start c fill) ops = (x, outs) ->
  inv (st x) /\ cap (st x) = c /\
  fifo_trace [] (combine ops outs) /\
  Forall (fun ob => acc_in_range c (o_acc ob) = true) outs /\
  length outs = length ops.
Proof.
  intros Hc W E.
  pose proof (run_spec ops _ _ _ (start_sinv c fill Hc) W E) as (S & C & F & A & L).
  spl; auto; apply S.
Qed.

(* every state reachable from init satisfies A.4 and reports readable = |abs| *)
Lemma reachable_inv c fill ops : 1 <= c -> Forall wf_op ops ->
  let s := st (fst (run (start c fill) ops)) in
  inv s /\ cap s = c /\ readable s = len (abs s).
Proof.
  intros Hc W. destruct (run (start c fill) ops) as [x outs] eqn:E. cbn [fst].
  pose proof (run_from_init _ _ _ _ _ Hc W E) as (I & C & _).
  spl; auto. apply readable_abs; auto.
Qed.

Lemma refines_fifo c fill ops : 1 <= c -> Forall wf_op ops ->
  fifo_trace [] (combine ops (snd (run (start c fill) ops))).
Proof.
  intros Hc W. destruct (run (start c fill) ops) as [x outs] eqn:E. cbn [snd].
  apply (run_from_init _ _ _ _ _ Hc W E).
Qed.

Lemma indices_in_range c fill ops : 1 <= c -> Forall wf_op ops ->
  Forall (fun ob => acc_in_range c (o_acc ob) = true) (snd (run (start c fill) ops)).
Proof.
  intros Hc W. destruct (run (start c fill) ops) as [x outs] eqn:E. cbn [snd].
  apply (run_from_init _ _ _ _ _ Hc W E).
Qed.

(* a refused operation leaves the buffer exactly as it was, at every point of every history *)
Lemma refused_unchanged c fill ops o : 1 <= c -> Forall wf_op ops -> wf_op o ->
  let x := fst (run (start c fill) ops) in
  refused (snd (fst (step x o))) = true -> st (fst (fst (step x o))) = st x.
Proof.
  intros Hc W Wo. destruct (run (start c fill) ops) as [x outs] eqn:E. cbn [fst].
  pose proof (run_spec ops _ _ _ (start_sinv c fill Hc) W E) as (S & _).
  destruct (step x o) as [[x1 r] a] eqn:ES. cbn [fst snd].
  apply (step_spec _ _ _ _ _ S Wo ES).
Qed.

(* failure iff the kind of space / data needed is lacking; state unchanged then *)
Lemma fail_iff_lack s : inv s ->
  (forall src, snd (fst (write s src)) = false <-> writable s < len src) /\
  (forall src, snd (fst (write s src)) = false -> fst (fst (write s src)) = s) /\
  (forall n, 0 <= n -> (snd (fst (read s n)) = None <-> readable s < n)) /\
  (forall n, 0 <= n -> snd (fst (read s n)) = None -> fst (fst (read s n)) = s) /\
  (forall n, 0 <= n -> (fst (fetch s n) = None <-> readable s < n)) /\
  (forall n, 0 <= n -> (writer_fc s n = None <-> contiguous_writable s < n /\ jump_writable s < n)) /\
  (forall n off data, writer_fc s n = Some off -> len data <= n ->
                      snd (writer_move_n (poke s off data) off (len data)) = true) /\
  (forall n, 0 <= n -> (snd (writer_move s n) = false <-> contiguous_writable s < n /\ jump_writable s < n)) /\
  (forall n, 0 <= n -> snd (writer_move s n) = false -> fst (writer_move s n) = s) /\
  (forall n, 0 <= n -> (reader_fc s n = None <-> contiguous_readable s < n)) /\
  (forall k, 0 <= k -> (snd (reader_move s k) = false <-> contiguous_readable s < k)) /\
  (forall k, 0 <= k -> snd (reader_move s k) = false -> fst (reader_move s k) = s).
Proof.
  intros H. spl.
  - intros src. destruct (write s src) as [[s1 ok] a] eqn:E; cbn [fst snd].
    pose proof (write_spec _ _ _ _ _ H E) as (_ & _ & Q & _). destruct ok; split; intros; try discriminate; auto.
    + assert (len src <= writable s) by (apply Q; auto). lia.
    + assert (~ len src <= writable s) by (intros Hc; apply Q in Hc; discriminate). lia.
  - intros src. destruct (write s src) as [[s1 ok] a] eqn:E; cbn [fst snd].
    pose proof (write_spec _ _ _ _ _ H E) as (_ & _ & _ & _ & F & _). auto.
  - intros n Hn. destruct (read s n) as [[s1 r] a] eqn:E; cbn [fst snd].
    pose proof (read_spec _ _ _ _ _ H Hn E) as (_ & _ & Q & _). apply Q.
  - intros n Hn. destruct (read s n) as [[s1 r] a] eqn:E; cbn [fst snd].
    pose proof (read_spec _ _ _ _ _ H Hn E) as (_ & _ & _ & _ & F & _). auto.
  - intros n Hn. destruct (fetch s n) as [r a] eqn:E; cbn [fst snd].
    pose proof (fetch_spec _ _ _ _ H Hn E) as (Q & _). apply Q.
  - intros n Hn. pose proof (writer_fc_spec s n H Hn) as Q.
    destruct (writer_fc s n); split; intros; auto; try discriminate; lia.
  - intros n off data F K.
    destruct (writer_move_n (poke s off data) off (len data)) as [s2 ok] eqn:E; cbn [snd].
    apply (wmn_spec _ _ _ _ _ _ H F K E).
  - intros n Hn. apply (writer_move_fail s n Hn).
  - intros n Hn. apply (writer_move_fail s n Hn).
  - intros n Hn. pose proof (reader_fc_spec s n H Hn) as Q.
    destruct (reader_fc s n); split; intros; auto; try discriminate; lia.
  - intros k Hk. destruct (reader_move s k) as [s1 ok] eqn:E; cbn [fst snd].
    pose proof (reader_move_spec _ _ _ _ H Hk E) as (_ & _ & Q & _). destruct ok; split; intros; try discriminate; auto.
    + assert (k <= contiguous_readable s) by (apply Q; auto). lia.
    + assert (~ k <= contiguous_readable s) by (intros Hc; apply Q in Hc; discriminate). lia.
  - intros k Hk. destruct (reader_move s k) as [s1 ok] eqn:E; cbn [fst snd].
    pose proof (reader_move_spec _ _ _ _ H Hk E) as (_ & _ & _ & _ & F). auto.
Qed.

(* ------------------------------------------------------------------ *)
(* Non-vacuity: a concrete history that goes through a truncating jump,
   a reader wrap at the mark, the writer arriving exactly at the stale mark,
   a split write and both zero-copy pairs satisfies every hypothesis above,
   and the observable results are the FIFO ones. *)

Definition ex_ops : list op :=
  [OWrite [1;2;3;4]; ORead 3; OWrite [5;6]; ORmove 1; OWrite [7;8]; ORead 4; ORfc 1;
   OWfc 3; OWmn [9;10]; OFetch 2; OWmove [11]; ORfc 3; ORmove 2; OWrite [12;13;14]; ORead 4; ORead 1].

Example ex_wf : Forall wf_op ex_ops.
Proof. repeat constructor; cbn; lia. Qed.

Example ex_results :
  map o_res (snd (run (start 5 0) ex_ops)) =
  [RBool true; RBytes (Some [1;2;3]); RBool true; RBool true; RBool true; RBytes (Some [5;6;7;8]);
   RPtrBytes None; RPtr (Some 0); RBool true; RBytes (Some [9;10]); RMove true (Some 2);
   RPtrBytes (Some (0, [9;10;11])); RBool true; RBool true; RBytes (Some [11;12;13;14]); RBytes None]
  /\ map o_rd (snd (run (start 5 0) ex_ops)) = [4;1;3;2;4;0;0;0;2;2;3;3;1;4;0;0].
Proof. vm_compute. split; reflexivity. Qed.

Example ex_inv_shapeB : inv (mkbb 5 2 3 4 [6;7;0;4;0]) /\ abs (mkbb 5 2 3 4 [6;7;0;4;0]) = [4;6;7].
Proof. split; [unfold inv; cbn; lia | reflexivity]. Qed.

(* What the two repairs are for: the same motions with the ORIGINAL tests.      *)
(* (1) mark reset only when t < w: from the reachable state w=2 r=0 t=4 (c=5)   *)
(* the writer lands on the stale mark, [wp < tp] is lost, and the next read of  *)
(* all 4 unread bytes wraps r to 0 in shape A: readable() is 4 again although   *)
(* the FIFO is empty.                                                            *)
Definition advance_w_orig (s : bb) (n : Z) (b : list byte) : bb :=
  let w1 := wp s + n in
  let t1 := if tp s <? w1 then cap s else tp s in
  let w2 := if w1 =? cap s then 0 else w1 in
  mkbb (cap s) w2 (rp s) t1 b.

Example orig_stale_mark_resurrects :
  let s := mkbb 5 2 0 4 [6;7;3;4;0] in                   (* unread: 6 7 *)
  inv s /\
  let s1 := advance_w_orig s 2 (blit (buf s) 2 [8;9]) in (* accepted: 8 9 *)
  ~ inv s1 /\
  let '(s2, out, _) := read s1 4 in
  out = Some [6;7;8;9] /\ readable s2 = 4 /\ drop 4 [6;7;8;9] = [].
Proof.
  cbn zeta. split; [unfold inv; cbn; lia|].
  split; [intros (_ & _ & _ & T & _); vm_compute in T; destruct T as [T _]; discriminate T|].
  vm_compute. repeat split; reflexivity.
Qed.

(* (2) reader_move without the wrap at the mark: from the reachable state        *)
(* w=2 r=3 t=4 (c=5, unread 4 6 7) moving past the single contiguous byte       *)
(* leaves r = t: two bytes unread, none contiguous, reader_fc refuses for ever.  *)
Definition reader_move_orig (s : bb) (n : Z) : bb * bool :=
  let cr := contiguous_readable s in
  if n <=? cr then (refresh (mkbb (cap s) (wp s) (rp s + n) (tp s) (buf s)), true)
  else (s, false).

Example orig_reader_move_stuck :
  let s := mkbb 5 2 3 4 [6;7;0;4;0] in
  inv s /\
  let s1 := fst (reader_move_orig s 1) in
  readable s1 = 2 /\ contiguous_readable s1 = 0 /\ reader_fc s1 1 = None /\ ~ inv s1.
Proof.
  cbn zeta. split; [unfold inv; cbn; lia|].
  repeat split; try reflexivity.
  intros (_ & _ & _ & _ & [T | [T | T]]); vm_compute in T; destruct T as [T1 T2];
    first [discriminate T1 | discriminate T2 | (destruct T2 as [T2 _]; discriminate T2)
          | (exfalso; apply T1; reflexivity) | (exfalso; apply T2; reflexivity)].
Qed.
