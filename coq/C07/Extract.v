From MV Require Import Lib.ExtractBase C07.Model.
From Coq Require Import ExtrOcamlBasic.
Extraction Language OCaml.
Extraction "c07_model" force_types init init_opt start start_opt step observe run readable writable contiguous_readable
  contiguous_writable jump_writable jump_readable acc_in_range len.
