(* C07 — the zero-copy regions while the OTHER side works.

   writer_fc hands out a region; the property lets the reader work before the
   writer commits it (and symmetrically for reader_fc).  This file proves what an
   outstanding region is at any later moment ([region_ok], [rptr_ok]), that every
   operation of the other side keeps it, and that a commit through it appends
   exactly the stored bytes — including the history the unrepaired
   writer_move_n got wrong (the reader empties the buffer, refresh() goes back to
   the origin, the region no longer starts at w). *)
From MV Require Import C07.Model C07.ProofsList C07.Proofs.
From Coq Require Import ZifyBool.
Local Open Scope Z_scope.

(* split on every conditional whose condition contains no conditional, in goal
   and hypotheses, innermost first; comparisons land in the context as boolean
   equations that lia (ZifyBool) understands *)
Ltac nocond' c := lazymatch c with context [if _ then _ else _] => fail | _ => idtac end.
Ltac split_ifs :=
  repeat (match goal with
          | |- context [if ?c then _ else _] => nocond' c; destruct c eqn:?
          | H : context [if ?c then _ else _] |- _ => nocond' c; destruct c eqn:?
          end; cbv iota in *; cbn [cap wp rp tp buf fst snd andb orb negb] in *).

(* An outstanding writer region (offset, size asked for) is one of:
   (a) the stretch at the write position, still free;
   (b) the stretch at the origin a truncating jump will use, still free;
   (c) a stretch somewhere in a buffer that was emptied and reset to the origin
       after the region was handed out (everything is free). *)
Definition region_ok (s : bb) (off n : Z) : Prop :=
  (off = wp s /\ n <= contiguous_writable s) \/
  (off = 0 /\ 0 < wp s /\ 1 <= n <= jump_writable s) \/
  (0 < off /\ off + n <= cap s /\ wp s = 0 /\ rp s = 0 /\ tp s = cap s).

(* An outstanding reader region: empty, or the first n contiguous unread bytes. *)
Definition rptr_ok (s : bb) (off n : Z) : Prop :=
  0 <= off <= cap s /\ (n <= 0 \/ (off = rp s /\ n <= contiguous_readable s)).

Ltac open_all s :=
  destruct s as [c w r t b];
  unfold inv, region_ok, rptr_ok, refresh, clear, advance_w, contiguous_writable, jump_writable,
    contiguous_readable, jump_readable in *;
  cbn [cap wp rp tp buf] in *.

(* ---- granting ---- *)

Lemma wfc_region s n off : inv s -> writer_fc s n = Some off -> region_ok s off n.
Proof.
  intros H F. unfold writer_fc in F. cbv zeta in F.
  open_all s. split_ifs; inversion F; subst; lia.
Qed.

Lemma rfc_rptr s n off : inv s -> reader_fc s n = Some off -> rptr_ok s off n.
Proof.
  intros H F. unfold reader_fc in F. cbv zeta in F.
  open_all s. split_ifs; inversion F; subst; lia.
Qed.

(* where a region lies *)
Lemma region_bounds s off n k : inv s -> region_ok s off n -> 0 <= k <= n ->
  0 <= off /\ off + k <= cap s.
Proof.
  intros H R K. open_all s. split_ifs; lia.
Qed.

(* ---- the reader works while a writer region is outstanding ---- *)

(* advance inside the contiguous stretch (read's first branch, reader_move) *)
Lemma rd1_keeps_region s n off m : inv s -> 0 <= n <= contiguous_readable s -> region_ok s off m ->
  region_ok (refresh (mkbb (cap s) (wp s) (if rp s + n =? tp s then 0 else rp s + n) (tp s) (buf s))) off m.
Proof.
  intros H Hn R. open_all s. split_ifs; lia.
Qed.

(* read across the mark (read's second branch) *)
Lemma rd2_keeps_region s n off m : inv s ->
  contiguous_readable s < n -> n <= contiguous_readable s + jump_readable s -> region_ok s off m ->
  region_ok (refresh (mkbb (cap s) (wp s) (n - contiguous_readable s) (tp s) (buf s))) off m.
Proof.
  intros H H1 H2 R. open_all s. split_ifs; lia.
Qed.

Lemma read_keeps_region s n off m : inv s -> 0 <= n -> region_ok s off m ->
  region_ok (fst (fst (read s n))) off m.
Proof.
  intros H Hn R. unfold read. cbv zeta.
  destruct (Z.leb_spec n (contiguous_readable s)) as [L | L]; cbn [fst].
  - apply rd1_keeps_region; auto.
  - destruct (Z.ltb_spec (contiguous_readable s + jump_readable s) n) as [F | F]; cbn [fst]; auto.
    apply rd2_keeps_region; auto.
Qed.

Lemma rmove_keeps_region s k off m : inv s -> 0 <= k -> region_ok s off m ->
  region_ok (fst (reader_move s k)) off m.
Proof.
  intros H Hk R. unfold reader_move. cbv zeta.
  destruct (Z.leb_spec k (contiguous_readable s)) as [L | L]; cbn [fst]; auto.
  apply rd1_keeps_region; auto.
Qed.

(* ---- committing through an outstanding region ---- *)

(* case (c): the buffer is empty at the origin, the bytes were stored at off > 0 *)
Lemma drained_commit_spec s off data : inv s ->
  0 < off -> off + len data <= cap s -> 0 < len data ->
  wp s = 0 -> rp s = 0 -> tp s = cap s ->
  let s' := advance_w (mkbb (cap s) off off (tp s) (blit (buf s) off data)) (len data) (blit (buf s) off data) in
  inv s' /\ cap s' = cap s /\ abs s' = abs s ++ data.
Proof.
  intros H O L K W R T. destruct s as [c w r t b]; cbn [cap wp rp tp buf] in *. subst w r t.
  unfold inv, advance_w, abs in *; cbn [cap wp rp tp buf] in *.
  destruct H as (Hc & Hl & _).
  set (n := len data) in *.
  assert (Hlb : len (blit b off data) = c) by (rewrite len_blit; lia).
  rewrite (leb_t 0 0) by lia. rewrite (sub_nil b 0 (0 - 0)) by lia. cbn [app].
  destruct (Z.eqb_spec (off + n) c) as [E | E].
  - (* lands on c: wraps to 0, shape B with t = c *)
    rewrite (leb_t c (off + n)) by lia. cbn [cap wp rp tp buf].
    rewrite (leb_f off 0) by lia.
    split; [lia | split; [reflexivity|]].
    rewrite (sub_nil _ 0 0) by lia. rewrite app_nil_r.
    replace (c - off) with n by lia. unfold n. apply sub_blit_same; lia.
  - rewrite (leb_f c (off + n)) by lia. cbn [cap wp rp tp buf].
    rewrite (leb_t off (off + n)) by lia.
    split; [lia | split; [reflexivity|]].
    replace (off + n - off) with n by lia. unfold n. apply sub_blit_same; lia.
Qed.

(* the zero-copy writer pair, partial advance included, whatever the reader did
   in between (contract of Appendix B: the pointer is the one of the last
   successful writer_fc n, at most n bytes stored, no writer-side operation since) *)
Lemma wmn_region_spec s n off data s2 ok : inv s -> region_ok s off n -> len data <= n ->
  writer_move_n (poke s off data) off (len data) = (s2, ok) ->
  ok = true /\ inv s2 /\ cap s2 = cap s /\ abs s2 = abs s ++ data.
Proof.
  intros H R K E. pose proof (len_nonneg data) as Hd.
  unfold writer_move_n in E.
  destruct R as [[Ro Rn] | [[Ro [Rw Rn]] | (Ro & Rn & Rw & Rr & Rt)]].
  - (* (a) at the write position *)
    subst off.
    assert (L' : len data <= contiguous_writable s) by lia.
    pose proof (adv_spec s data H L') as (I & C & A). cbv zeta in *.
    destruct (Z.eqb_spec (wp s) 0) as [W0 | W0].
    + (* start of the array: the code takes the "ptr == buffer" branch without a jump *)
      assert (Q : s2 = advance_w s (len data) (blit (buf s) (wp s) data) /\ ok = true).
      { inversion E; subst; clear E. split; auto.
        clear I C A. open_state s. unfold advance_w, contiguous_writable, poke in *; cbn [cap wp rp tp buf] in *.
        subst w.
        destruct H as (Hc & Hl & Hw & Ht & [A | [E0 | B]]).
        - lia.
        - destruct E0 as (-> & _ & ->). rewrite leb_t in L' by lia. cbn [Z.eqb negb] in L'.
          zb. reflexivity.
        - rewrite leb_f in L' by lia. zb. reflexivity. }
      destruct Q as [-> ->]. auto.
    + replace (wp (poke s (wp s) data)) with (wp s) in E by reflexivity.
      rewrite (eqb_t (wp s) (wp s)) in E by reflexivity.
      rewrite Bool.andb_false_r in E.
      change (advance_w (poke s (wp s) data) (len data) (buf (poke s (wp s) data)))
        with (advance_w s (len data) (blit (buf s) (wp s) data)) in E.
      inversion E; subst; clear E. auto.
  - (* (b) a jump to the origin *)
    subst off.
    assert (J1 : 1 <= jump_writable s) by lia.
    assert (J2 : len data <= jump_writable s) by lia.
    pose proof (jump_spec s data H J1 J2) as (I & A). cbv zeta in *.
    cbn [Z.eqb] in E.
    replace (wp (poke s 0 data)) with (wp s) in E by reflexivity.
    replace (rp (poke s 0 data)) with (rp s) in E by reflexivity.
    replace (cap (poke s 0 data)) with (cap s) in E by reflexivity.
    replace (buf (poke s 0 data)) with (blit (buf s) 0 data) in E by reflexivity.
    rewrite (ltb_t 0 (wp s)) in E by lia.
    inversion E; subst; clear E. auto.
  - (* (c) REPAIRED path: the buffer was emptied and reset since the region was handed out *)
    rewrite (eqb_f off 0) in E by lia.
    replace (wp (poke s off data)) with (wp s) in E by reflexivity.
    rewrite Rw in E. rewrite (eqb_f off 0) in E by lia. cbn [negb] in E. rewrite Bool.andb_true_r in E.
    destruct (Z.ltb_spec 0 (len data)) as [P | P].
    + pose proof (drained_commit_spec s off data H Ro ltac:(lia) P Rw Rr Rt) as (I & C & A). cbv zeta in *.
      cbn [cap tp buf poke] in E. inversion E; subst; clear E. auto.
    + (* nothing committed: nothing moves *)
      assert (Z0 : len data = 0) by lia. rewrite Z0 in E.
      pose proof (len_zero_nil data Z0) as ->.
      inversion E; subst; clear E.
      assert (Q : advance_w (poke s off []) 0 (blit (buf s) off []) = s).
      { clear K Hd Z0 P. destruct s as [c w r t b]; cbn [cap wp rp tp buf] in *. subst w r t.
        unfold advance_w, poke, blit; cbn [cap wp rp tp buf].
        unfold inv in H; cbn [cap wp rp tp buf] in H. destruct H as (Hc & Hl & _).
        rewrite (leb_f c (0 + 0)) by lia. rewrite (eqb_f (0 + 0) c) by lia.
        cbn [length app]. rewrite Nat.add_0_r. rewrite firstn_skipn. reflexivity. }
      rewrite Q. rewrite app_nil_r. auto.
Qed.

(* ---- the writer works while a reader region is outstanding ---- *)

Lemma write_keeps_rptr s n src off m : inv s -> 0 <= n -> rptr_ok s off m ->
  rptr_ok (fst (fst (write_n s n src))) off m.
Proof.
  intros H Hn R. unfold write_n. cbv zeta. open_all s. split_ifs; lia.
Qed.

Lemma wmove_keeps_rptr s n b' off m : inv s -> 0 <= n -> rptr_ok s off m ->
  rptr_ok (fst (writer_move (mkbb (cap s) (wp s) (rp s) (tp s) b') n)) off m.
Proof.
  intros H Hn R. unfold writer_move. cbv zeta. open_all s. split_ifs; lia.
Qed.

Lemma wmn_keeps_rptr s woff wn k b' off m : inv s -> region_ok s woff wn -> 0 <= k <= wn -> rptr_ok s off m ->
  rptr_ok (fst (writer_move_n (mkbb (cap s) (wp s) (rp s) (tp s) b') woff k)) off m.
Proof.
  intros H W K R. unfold writer_move_n. cbv zeta. open_all s. split_ifs; lia.
Qed.

Lemma reader_keeps_writer_region s n off m : inv s -> 0 <= n -> region_ok s off m ->
  region_ok (fst (fst (read s n))) off m /\ region_ok (fst (reader_move s n)) off m.
Proof. intros; split; [apply read_keeps_region | apply rmove_keeps_region]; assumption. Qed.

Lemma writer_keeps_reader_region s src off m : inv s -> rptr_ok s off m ->
  rptr_ok (fst (fst (write s src))) off m.
Proof. intros; unfold write; apply write_keeps_rptr; auto; apply len_nonneg. Qed.

(* ---- what the UNREPAIRED writer_move_n did ---- *)

Definition writer_move_n_orig (s : bb) (ptr : Z) (n : Z) : bb * bool :=
  if ptr =? 0 then
    let t1 := if 0 <? wp s then wp s else tp s in
    (mkbb (cap s) n (rp s) t1 (buf s), true)
  else (advance_w s n (buf s), true).

(* it agrees with the repaired one exactly outside case (c) with k >= 1 ... *)
Lemma orig_agrees_unless_drained s off k :
  (off = 0 \/ off = wp s \/ k <= 0) -> writer_move_n_orig s off k = writer_move_n s off k.
Proof.
  intros D. unfold writer_move_n_orig, writer_move_n.
  destruct (Z.eqb_spec off 0); auto.
  destruct (Z.ltb_spec 0 k); cbn [andb]; auto.
  destruct (Z.eqb_spec off (wp s)); cbn [negb]; auto. lia.
Qed.

(* ... and there it exposes the k stale bytes at the origin instead of the k
   bytes stored in the region: the reviewer's history at capacity 8
   (write 1 2 3; writer_fc 2 -> offset 3; read 3; store 8 9; writer_move_n 2) *)
Example orig_commit_after_drain_loses_bytes :
  let s0 := init 8 0 in
  let '(s1, _, _) := write s0 [1;2;3] in
  writer_fc s1 2 = Some 3 /\
  let '(s2, out, _) := read s1 3 in
  out = Some [1;2;3] /\ abs s2 = [] /\ region_ok s2 3 2 /\
  abs (fst (writer_move_n_orig (poke s2 3 [8;9]) 3 2)) = [1;2] /\
  abs (fst (writer_move_n (poke s2 3 [8;9]) 3 2)) = [8;9].
Proof.
  vm_compute. repeat split; try reflexivity.
  right; right. vm_compute. repeat split; congruence.
Qed.

(* ---- capacity 0 (a successful malloc(0)): c = w = r = t = 0 for ever ---- *)

Definition zero_bb : bb := mkbb 0 0 0 0 [].

Definition zero_sess (x : sess) : Prop :=
  st x = zero_bb /\
  match wptr x with Some (off, n) => off = 0 /\ n <= 0 | None => True end /\
  match rptr x with Some (off, n) => off = 0 /\ n <= 0 | None => True end.

Lemma init_zero fill : init 0 fill = zero_bb.
Proof. reflexivity. Qed.

Lemma len_le0_nil (l : list byte) : len l <= 0 -> l = [].
Proof. intros. apply len_zero_nil. pose proof (len_nonneg l). lia. Qed.

Lemma sub_nil_any a n : sub [] a n = [].
Proof. unfold sub. rewrite skipn_nil. apply firstn_nil. Qed.
