(* C07 — second tie to the source: the four space helpers as translated from the
   C text of bytes_buffer.c on every run (gen/Params_C07.v) are the model's.
   An edit of the C text of a helper that changes its value anywhere breaks one
   of these lemmas (whatever the syntactic form of the edit). *)
From MV Require Import C07.Model gen.Params_C07.
From Coq Require Import ZifyBool.
Local Open Scope Z_scope.

(* bounded: each helper has at most three comparisons *)
Ltac cmp_all :=
  repeat match goal with
  | |- context [?a >=? ?b] => rewrite (Z.geb_leb a b)
  | |- context [?a >? ?b] => rewrite (Z.gtb_ltb a b)
  end;
  repeat match goal with
  | |- context [?a <=? ?b] => destruct (Z.leb_spec a b)
  | |- context [?a <? ?b] => destruct (Z.ltb_spec a b)
  | |- context [?a =? ?b] => destruct (Z.eqb_spec a b)
  end; cbn [negb]; try lia.

Lemma gen_cw_eq s : gen_contiguous_writable (cap s) (wp s) (rp s) (tp s) = contiguous_writable s.
Proof. unfold gen_contiguous_writable, contiguous_writable. cmp_all. Qed.

Lemma gen_jw_eq s : gen_jump_writable (cap s) (wp s) (rp s) (tp s) = jump_writable s.
Proof. unfold gen_jump_writable, jump_writable. cmp_all. Qed.

Lemma gen_jr_eq s : gen_jump_readable (cap s) (wp s) (rp s) (tp s) = jump_readable s.
Proof. unfold gen_jump_readable, jump_readable. cmp_all. Qed.

Lemma gen_cr_eq s : gen_contiguous_readable (cap s) (wp s) (rp s) (tp s) = contiguous_readable s.
Proof. unfold gen_contiguous_readable, contiguous_readable. cmp_all. Qed.

Lemma gen_helpers_eq s :
  gen_contiguous_writable (cap s) (wp s) (rp s) (tp s) = contiguous_writable s /\
  gen_jump_writable (cap s) (wp s) (rp s) (tp s) = jump_writable s /\
  gen_jump_readable (cap s) (wp s) (rp s) (tp s) = jump_readable s /\
  gen_contiguous_readable (cap s) (wp s) (rp s) (tp s) = contiguous_readable s.
Proof. repeat split; [apply gen_cw_eq | apply gen_jw_eq | apply gen_jr_eq | apply gen_cr_eq]. Qed.
