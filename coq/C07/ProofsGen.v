(* C07 — second tie to the source: the four space helpers as translated from the
   C text of bytes_buffer.c on every run (gen/Params_C07.v, shared translator
   lib/leaftrans.py) are the model's.  An edit of a helper that changes its value
   anywhere breaks one of these lemmas; a rewrite that only changes its structure
   (guard clauses, merged arms, ?:, &&, locals, swapped comparisons) does not.

   Range hypotheses: none.  The helpers are C [int] arithmetic, which the
   translator leaves unwrapped (signed overflow is undefined behaviour and is
   excluded, as everywhere in C07, by sizes and capacity far below 2^31), so
   the equalities hold for all integers c w r t. *)
From MV Require Import Lib.Leaf C07.Model gen.Params_C07.
From Coq Require Import ZifyBool.
Local Open Scope Z_scope.

(* ONE decision procedure, independent of the shape of the generated term:
   unfold both sides completely (generated raw_ / gen_ definitions, the model
   helper, the translator's support functions), then split on every condition
   of every conditional, innermost first, and let lia decide each leaf.
   Bounded: a helper has a handful of comparisons. *)
Ltac nocond c := lazymatch c with context [if _ then _ else _] => fail | _ => idtac end.
Ltac leaf_decide :=
  repeat match goal with
  | |- context [if ?c then _ else _] => nocond c; destruct c eqn:?; cbv iota
  end;
  lia.

Ltac leaf_eq :=
  intros [c w r t b];
  cbv beta zeta delta [gen_contiguous_writable gen_jump_writable gen_jump_readable gen_contiguous_readable
                       raw_contiguous_writable raw_jump_writable raw_jump_readable raw_contiguous_readable
                       contiguous_writable jump_writable jump_readable contiguous_readable
                       cap wp rp tp buf wrapu b2z z2b cdiv crem];
  cbv iota;
  leaf_decide.

Lemma gen_cw_eq : forall s, gen_contiguous_writable (cap s) (wp s) (rp s) (tp s) = contiguous_writable s.
Proof. leaf_eq. Qed.

Lemma gen_jw_eq : forall s, gen_jump_writable (cap s) (wp s) (rp s) (tp s) = jump_writable s.
Proof. leaf_eq. Qed.

Lemma gen_jr_eq : forall s, gen_jump_readable (cap s) (wp s) (rp s) (tp s) = jump_readable s.
Proof. leaf_eq. Qed.

Lemma gen_cr_eq : forall s, gen_contiguous_readable (cap s) (wp s) (rp s) (tp s) = contiguous_readable s.
Proof. leaf_eq. Qed.

Lemma gen_helpers_eq s :
  gen_contiguous_writable (cap s) (wp s) (rp s) (tp s) = contiguous_writable s /\
  gen_jump_writable (cap s) (wp s) (rp s) (tp s) = jump_writable s /\
  gen_jump_readable (cap s) (wp s) (rp s) (tp s) = jump_readable s /\
  gen_contiguous_readable (cap s) (wp s) (rp s) (tp s) = contiguous_readable s.
Proof. repeat split; [apply gen_cw_eq | apply gen_jw_eq | apply gen_jr_eq | apply gen_cr_eq]. Qed.
