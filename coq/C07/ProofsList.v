(* C07 — list lemmas about [sub] (range read) and [blit] (range write) *)
From MV Require Import C07.Model.
From Coq Require Import ZifyBool.
Local Open Scope Z_scope.

Definition take (n : Z) (l : list byte) : list byte := firstn (Z.to_nat n) l.
Definition drop (n : Z) (l : list byte) : list byte := skipn (Z.to_nat n) l.

(* ---------- nat level ---------- *)
Local Close Scope Z_scope.

Lemma skipn_skipn' {A} : forall (y x : nat) (l : list A), skipn x (skipn y l) = skipn (y + x) l.
Proof.
  induction y; intros; simpl.
  - reflexivity.
  - destruct l; simpl.
    + now rewrite skipn_nil.
    + apply IHy.
Qed.

Lemma firstn_add {A} : forall (n m : nat) (k : list A),
  firstn (n + m) k = firstn n k ++ firstn m (skipn n k).
Proof.
  induction n; intros; simpl; auto.
  destruct k; simpl.
  - now rewrite firstn_nil.
  - f_equal. apply IHn.
Qed.

Definition subn (l : list byte) (a n : nat) := firstn n (skipn a l).
Definition blitn (l : list byte) (a : nat) (src : list byte) :=
  firstn a l ++ src ++ skipn (a + length src) l.

Lemma subn_split l a n m : subn l a (n + m) = subn l a n ++ subn l (a + n) m.
Proof. unfold subn. rewrite <- skipn_skipn'. apply firstn_add. Qed.

Lemma subn_length l a n : a + n <= length l -> length (subn l a n) = n.
Proof. unfold subn; intros; rewrite firstn_length, skipn_length; lia. Qed.

Lemma subn_app_l x y a n : a + n <= length x -> subn (x ++ y) a n = subn x a n.
Proof.
  unfold subn; intros. rewrite skipn_app.
  replace (a - length x) with 0 by lia. simpl skipn at 2.
  rewrite firstn_app. rewrite skipn_length.
  replace (n - (length x - a)) with 0 by lia. simpl. apply app_nil_r.
Qed.

Lemma subn_app_r x y a n : length x <= a -> subn (x ++ y) a n = subn y (a - length x) n.
Proof.
  unfold subn; intros. rewrite skipn_app. rewrite skipn_all2 by lia. reflexivity.
Qed.

Lemma subn_firstn l k a n : a + n <= k -> subn (firstn k l) a n = subn l a n.
Proof.
  unfold subn; intros. rewrite skipn_firstn_comm, firstn_firstn.
  f_equal. lia.
Qed.

Lemma subn_skipn l k a n : subn (skipn k l) a n = subn l (k + a) n.
Proof. unfold subn. now rewrite skipn_skipn'. Qed.

Lemma blitn_length l a src : a + length src <= length l -> length (blitn l a src) = length l.
Proof. unfold blitn; intros; rewrite !app_length, firstn_length, skipn_length; lia. Qed.

Lemma subn_blitn_same l a src : a <= length l -> subn (blitn l a src) a (length src) = src.
Proof.
  unfold blitn; intros. rewrite subn_app_r by (rewrite firstn_length; lia).
  rewrite firstn_length. replace (a - Nat.min a (length l)) with 0 by lia.
  rewrite subn_app_l by lia. unfold subn; simpl. apply firstn_all.
Qed.

Lemma subn_blitn_before l a src a' n' :
  a' + n' <= a -> a <= length l -> subn (blitn l a src) a' n' = subn l a' n'.
Proof.
  unfold blitn; intros. rewrite subn_app_l by (rewrite firstn_length; lia).
  apply subn_firstn; lia.
Qed.

Lemma subn_blitn_after l a src a' n' :
  a + length src <= a' -> a + length src <= length l -> subn (blitn l a src) a' n' = subn l a' n'.
Proof.
  unfold blitn; intros. rewrite app_assoc.
  rewrite subn_app_r by (rewrite app_length, firstn_length; lia).
  rewrite subn_skipn. f_equal. rewrite app_length, firstn_length. lia.
Qed.

Lemma subn_subn l a n x y : x + y <= n -> subn (subn l a n) x y = subn l (a + x) y.
Proof.
  intros. unfold subn at 2. rewrite subn_firstn by lia. apply subn_skipn.
Qed.

Local Open Scope Z_scope.

(* ---------- Z level ---------- *)

Lemma sub_subn l a n : sub l a n = subn l (Z.to_nat a) (Z.to_nat n).
Proof. reflexivity. Qed.

Lemma blit_blitn l a src : blit l a src = blitn l (Z.to_nat a) src.
Proof. reflexivity. Qed.

Lemma len_nonneg l : 0 <= len l.
Proof. unfold len; lia. Qed.

Lemma len_app a b : len (a ++ b) = len a + len b.
Proof. unfold len; rewrite app_length; lia. Qed.

Lemma len_nil : len [] = 0.
Proof. reflexivity. Qed.

Lemma len_zero_nil l : len l = 0 -> l = [].
Proof. unfold len; destruct l; simpl; [auto | lia]. Qed.

Lemma sub_nil l a n : n <= 0 -> sub l a n = [].
Proof. intros; unfold sub. replace (Z.to_nat n) with 0%nat by lia. reflexivity. Qed.

Lemma len_sub l a n : 0 <= a -> 0 <= n -> a + n <= len l -> len (sub l a n) = n.
Proof.
  unfold len; intros. rewrite sub_subn, subn_length; lia.
Qed.

Lemma sub_split l a n m : 0 <= a -> 0 <= n -> 0 <= m ->
  sub l a (n + m) = sub l a n ++ sub l (a + n) m.
Proof.
  intros. rewrite !sub_subn.
  replace (Z.to_nat (n + m)) with (Z.to_nat n + Z.to_nat m)%nat by lia.
  replace (Z.to_nat (a + n)) with (Z.to_nat a + Z.to_nat n)%nat by lia.
  apply subn_split.
Qed.

Lemma sub_full l : sub l 0 (len l) = l.
Proof. unfold sub, len. rewrite Nat2Z.id. simpl. apply firstn_all. Qed.

Lemma len_blit l a src : 0 <= a -> a + len src <= len l -> len (blit l a src) = len l.
Proof. unfold len; intros. rewrite blit_blitn, blitn_length; lia. Qed.

Lemma sub_blit_same l a src : 0 <= a -> a <= len l -> sub (blit l a src) a (len src) = src.
Proof.
  unfold len; intros. rewrite sub_subn, blit_blitn, Nat2Z.id. apply subn_blitn_same. lia.
Qed.

Lemma sub_blit_same_n l a src n : n = len src -> 0 <= a -> a <= len l -> sub (blit l a src) a n = src.
Proof. intros ->. apply sub_blit_same. Qed.

Lemma sub_blit_before l a src a' n' :
  0 <= a' -> 0 <= n' -> a' + n' <= a -> a <= len l -> sub (blit l a src) a' n' = sub l a' n'.
Proof.
  unfold len; intros. rewrite !sub_subn, blit_blitn. apply subn_blitn_before; lia.
Qed.

Lemma sub_blit_after l a src a' n' :
  0 <= a -> a + len src <= a' -> a + len src <= len l -> sub (blit l a src) a' n' = sub l a' n'.
Proof.
  unfold len; intros. rewrite !sub_subn, blit_blitn. apply subn_blitn_after; lia.
Qed.

Lemma take_sub l a n m : 0 <= n <= m -> take n (sub l a m) = sub l a n.
Proof.
  intros. unfold take, sub. rewrite firstn_firstn. f_equal. lia.
Qed.

Lemma drop_sub l a n m : 0 <= a -> 0 <= n <= m -> drop n (sub l a m) = sub l (a + n) (m - n).
Proof.
  intros. unfold drop, sub. rewrite skipn_firstn_comm, skipn_skipn'.
  f_equal; [lia | f_equal; lia].
Qed.

Lemma take_app_l x y n : n <= len x -> take n (x ++ y) = take n x.
Proof.
  unfold take, len; intros. rewrite firstn_app.
  replace (Z.to_nat n - length x)%nat with 0%nat by lia. simpl. apply app_nil_r.
Qed.

Lemma take_app_r x y n : len x <= n -> take n (x ++ y) = x ++ take (n - len x) y.
Proof.
  unfold take, len; intros. rewrite firstn_app.
  rewrite firstn_all2 by lia. f_equal. f_equal. lia.
Qed.

Lemma drop_app_l x y n : n <= len x -> drop n (x ++ y) = drop n x ++ y.
Proof.
  unfold drop, len; intros. rewrite skipn_app.
  replace (Z.to_nat n - length x)%nat with 0%nat by lia. reflexivity.
Qed.

Lemma drop_app_r x y n : len x <= n -> drop n (x ++ y) = drop (n - len x) y.
Proof.
  unfold drop, len; intros. rewrite skipn_app.
  rewrite skipn_all2 by lia. simpl. f_equal. lia.
Qed.

Lemma take_all l n : len l <= n -> take n l = l.
Proof. unfold take, len; intros. apply firstn_all2. lia. Qed.

Lemma drop_all l n : len l <= n -> drop n l = [].
Proof. unfold drop, len; intros. apply skipn_all2. lia. Qed.

Lemma take_0 l : take 0 l = [].
Proof. reflexivity. Qed.

Lemma drop_0 l : drop 0 l = l.
Proof. reflexivity. Qed.

Lemma len_take l n : 0 <= n <= len l -> len (take n l) = n.
Proof. unfold take, len; intros. rewrite firstn_length. lia. Qed.

Lemma len_drop l n : 0 <= n <= len l -> len (drop n l) = len l - n.
Proof. unfold drop, len; intros. rewrite skipn_length. lia. Qed.

Lemma len_repeat (x : byte) n : 0 <= n -> len (repeat x (Z.to_nat n)) = n.
Proof. unfold len; intros. rewrite repeat_length. lia. Qed.

(* boolean comparison rewriting *)
Lemma leb_t a b : a <= b -> (a <=? b) = true.  Proof. apply Z.leb_le. Qed.
Lemma leb_f a b : b < a -> (a <=? b) = false.  Proof. apply Z.leb_gt. Qed.
Lemma ltb_t a b : a < b -> (a <? b) = true.    Proof. apply Z.ltb_lt. Qed.
Lemma ltb_f a b : b <= a -> (a <? b) = false.  Proof. apply Z.ltb_ge. Qed.
Lemma eqb_t a b : a = b -> (a =? b) = true.    Proof. apply Z.eqb_eq. Qed.
Lemma eqb_f a b : a <> b -> (a =? b) = false.  Proof. apply Z.eqb_neq. Qed.

(* decide every comparison in the goal that arithmetic decides *)
Ltac zb1 :=
  match goal with
  | |- context [?a <=? ?b] => first [rewrite (leb_t a b) by lia | rewrite (leb_f a b) by lia]
  | |- context [?a <? ?b] => first [rewrite (ltb_t a b) by lia | rewrite (ltb_f a b) by lia]
  | |- context [?a =? ?b] => first [rewrite (eqb_t a b) by lia | rewrite (eqb_f a b) by lia]
  end.
Ltac zb := repeat (zb1; cbn [negb andb orb]).

(* split on one comparison whose operands contain no conditional *)
Ltac nocond a := lazymatch a with context [if _ then _ else _] => fail | _ => idtac end.
Ltac dif :=
  match goal with
  | |- context [if ?a <=? ?b then _ else _] => nocond a; nocond b; destruct (Z.leb_spec a b)
  | |- context [if ?a <? ?b then _ else _] => nocond a; nocond b; destruct (Z.ltb_spec a b)
  | |- context [if ?a =? ?b then _ else _] => nocond a; nocond b; destruct (Z.eqb_spec a b)
  end.
