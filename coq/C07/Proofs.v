(* C07 — bytes buffer: representation invariant (DESIGN.md Appendix A.4),
   abstraction to a byte list, and the per-operation specifications. *)
From MV Require Import C07.Model C07.ProofsList.
From Coq Require Import ZifyBool.
Local Open Scope Z_scope.

(* Invariant A.4.  Shape A: r < w, contents buf[r,w).  Empty: only as the cleared
   state.  Shape B: w < r < t, contents buf[r,t) ++ buf[0,w).  In every shape the
   mark lies strictly beyond the write position (this is what the repair of the
   stale-mark defect establishes). *)
Definition inv (s : bb) : Prop :=
  1 <= cap s /\ len (buf s) = cap s /\ 0 <= wp s < cap s /\ wp s < tp s <= cap s /\
  (0 <= rp s < wp s \/ (rp s = 0 /\ wp s = 0 /\ tp s = cap s) \/ wp s < rp s < tp s).

(* abstraction function: the unread bytes, oldest first *)
Definition abs (s : bb) : list byte :=
  if rp s <=? wp s then sub (buf s) (rp s) (wp s - rp s)
  else sub (buf s) (rp s) (tp s - rp s) ++ sub (buf s) 0 (wp s).

Ltac open_state s :=
  destruct s as [c w r t b]; unfold inv in *; cbn [cap wp rp tp buf] in *.

Lemma init_inv c fill : 1 <= c -> inv (init c fill).
Proof.
  intros. unfold inv, init; cbn [cap wp rp tp buf]. rewrite len_repeat by lia. lia.
Qed.

Lemma init_abs c fill : abs (init c fill) = [].
Proof. reflexivity. Qed.

(* readable() is exactly the number of unread bytes *)
Lemma readable_abs s : inv s -> readable s = len (abs s).
Proof.
  intros H. open_state s.
  unfold readable, contiguous_readable, jump_readable, abs; cbn [cap wp rp tp buf].
  destruct H as (Hc & Hl & Hw & Ht & [A | [E | B]]); zb.
  - rewrite len_sub; lia.
  - rewrite len_sub; lia.
  - rewrite len_app, !len_sub; lia.
Qed.

(* the three-case accounting adds up: nothing but the wasted tail [t,c) and the
   one-byte gap is unaccounted for *)
Lemma space_accounting s : inv s ->
  writable s + readable s = (if rp s <=? wp s then cap s else tp s) - 1.
Proof.
  intros H. open_state s.
  unfold writable, readable, contiguous_writable, jump_writable, contiguous_readable, jump_readable;
    cbn [cap wp rp tp buf].
  destruct H as (Hc & Hl & Hw & Ht & [A | [E | B]]); zb; try lia.
  destruct (Z.eqb_spec r 0); cbn [negb]; lia.
Qed.

Lemma writable_nonneg s : inv s -> 0 <= contiguous_writable s /\ 0 <= jump_writable s.
Proof.
  intros H. open_state s.
  unfold contiguous_writable, jump_writable; cbn [cap wp rp tp buf].
  destruct H as (Hc & Hl & Hw & Ht & [A | [E | B]]); zb; try lia.
  destruct (Z.eqb_spec r 0); cbn [negb]; lia.
Qed.

Lemma empty_writable s : inv s -> abs s = [] -> writable s = cap s - 1.
Proof.
  intros H E0. pose proof (readable_abs s H) as R. rewrite E0 in R. change (len []) with 0 in R.
  pose proof (space_accounting s H) as S. rewrite R in S.
  open_state s. unfold readable, contiguous_readable, jump_readable in R; cbn [cap wp rp tp buf] in *.
  destruct H as (Hc & Hl & Hw & Ht & [A | [E | B]]).
  - rewrite leb_t in R by lia. lia.
  - rewrite leb_t in S by lia. lia.
  - rewrite leb_f in R by lia. lia.
Qed.

(* a reader always finds at least one contiguous byte when anything is unread
   (this is what the repair of reader_move establishes) *)
Lemma contiguous_positive s : inv s -> 0 < readable s -> 0 < contiguous_readable s.
Proof.
  intros H. open_state s.
  unfold readable, contiguous_readable, jump_readable; cbn [cap wp rp tp buf].
  destruct H as (Hc & Hl & Hw & Ht & [A | [E | B]]); zb; lia.
Qed.

Lemma contiguous_le_readable s : inv s -> 0 <= contiguous_readable s <= readable s.
Proof.
  intros H. open_state s.
  unfold readable, contiguous_readable, jump_readable; cbn [cap wp rp tp buf].
  destruct H as (Hc & Hl & Hw & Ht & [A | [E | B]]); zb; lia.
Qed.

(* ------------------------------------------------------------------ *)
(* writer side: three cursor motions                                   *)

(* contiguous advance, the bytes having been stored at [w, w+n) *)
Lemma adv_spec s data : inv s -> len data <= contiguous_writable s ->
  let s' := advance_w s (len data) (blit (buf s) (wp s) data) in
  inv s' /\ cap s' = cap s /\ abs s' = abs s ++ data.
Proof.
  intros H Hn. pose proof (len_nonneg data) as Hd. open_state s.
  unfold advance_w, abs, contiguous_writable in *; cbn [cap wp rp tp buf] in *.
  set (n := len data) in *.
  destruct H as (Hc & Hl & Hw & Ht & [A | [E | B]]).
  - (* shape A, r < w *)
    rewrite leb_t in Hn by lia.
    assert (Hn' : n <= c - w) by (destruct (Z.eqb_spec r 0); cbn [negb] in Hn; lia).
    assert (Hlb : len (blit b w data) = c) by (rewrite len_blit; lia).
    destruct (Z.eqb_spec r 0) as [R0 | R0]; cbn [negb] in Hn.
    + (* r = 0: one byte stays free, no wrap *)
      zb. split; [|split]; auto.
      * destruct (Z.leb_spec t (w + n)); lia.
      * replace (w + n - r) with ((w - r) + n) by lia.
        rewrite sub_split by lia. rewrite sub_blit_before by lia.
        replace (r + (w - r)) with w by lia. unfold n. rewrite sub_blit_same by lia. reflexivity.
    + destruct (Z.eqb_spec (w + n) c) as [W | W].
      * (* lands on c: wraps to 0, shape B with t = c *)
        zb. split; [|split]; auto; try lia.
        rewrite (sub_nil _ 0 0) by lia. rewrite app_nil_r.
        replace (c - r) with ((w - r) + n) by lia.
        rewrite sub_split by lia. rewrite sub_blit_before by lia.
        replace (r + (w - r)) with w by lia. unfold n. rewrite sub_blit_same by lia. reflexivity.
      * zb. split; [|split]; auto.
        -- destruct (Z.leb_spec t (w + n)); lia.
        -- replace (w + n - r) with ((w - r) + n) by lia.
           rewrite sub_split by lia. rewrite sub_blit_before by lia.
           replace (r + (w - r)) with w by lia. unfold n. rewrite sub_blit_same by lia. reflexivity.
  - (* empty, cleared *)
    destruct E as (-> & -> & ->). rewrite leb_t in Hn by lia. cbn [Z.eqb negb] in Hn.
    assert (Hlb : len (blit b 0 data) = c) by (rewrite len_blit; lia).
    zb. split; [|split]; auto.
    + destruct (Z.eqb_spec n 0); lia.
    + rewrite (sub_nil b 0 (0 - 0)) by lia. cbn [app].
      replace (0 + n - 0) with n by lia. unfold n. rewrite sub_blit_same by lia. reflexivity.
  - (* shape B *)
    rewrite leb_f in Hn by lia.
    assert (Hlb : len (blit b w data) = c) by (rewrite len_blit; lia).
    zb. split; [|split]; auto; try lia.
    rewrite sub_blit_after by lia. rewrite <- app_assoc. f_equal.
    rewrite sub_split by lia. rewrite sub_blit_before by lia.
    replace (0 + w) with w by lia. unfold n. rewrite sub_blit_same by lia. reflexivity.
Qed.

(* truncating jump: mark := w, the bytes having been stored at [0, k) *)
Lemma jump_spec s data : inv s -> 1 <= jump_writable s -> len data <= jump_writable s ->
  let s' := mkbb (cap s) (len data) (rp s) (wp s) (blit (buf s) 0 data) in
  inv s' /\ abs s' = abs s ++ data.
Proof.
  intros H H1 Hn. pose proof (len_nonneg data) as Hd. open_state s.
  unfold abs, jump_writable in *; cbn [cap wp rp tp buf] in *.
  set (n := len data) in *.
  destruct H as (Hc & Hl & Hw & Ht & [A | [E | B]]).
  - rewrite leb_t in H1, Hn by lia.
    destruct (Z.eqb_spec r 0) as [R0 | R0]; cbn [negb] in H1, Hn; [lia|].
    assert (Hlb : len (blit b 0 data) = c) by (rewrite len_blit; lia).
    zb. split; [lia|].
    rewrite sub_blit_after by lia. f_equal.
    unfold n. rewrite sub_blit_same by lia. reflexivity.
  - destruct E as (-> & -> & ->). cbn in H1. lia.
  - rewrite leb_f in H1 by lia. lia.
Qed.

(* split write: fills [w, c) and continues at [0, remain) *)
Lemma split_spec s src : inv s ->
  contiguous_writable s < len src -> jump_writable s < len src ->
  len src <= contiguous_writable s + jump_writable s ->
  let cw := contiguous_writable s in
  let s' := mkbb (cap s) (len src - cw) (rp s) (cap s)
                 (blit (blit (buf s) (wp s) (sub src 0 cw)) 0 (sub src cw (len src - cw))) in
  inv s' /\ abs s' = abs s ++ src /\ 0 < cw.
Proof.
  intros H H1 H2 H3. pose proof (len_nonneg src) as Hd. open_state s.
  unfold abs, contiguous_writable, jump_writable in *; cbn [cap wp rp tp buf] in *.
  set (n := len src) in *.
  destruct H as (Hc & Hl & Hw & Ht & [A | [E | B]]).
  - rewrite leb_t in * by lia.
    destruct (Z.eqb_spec r 0) as [R0 | R0]; cbn [negb] in *; [lia|].
    assert (L1 : len (sub src 0 (c - w)) = c - w) by (apply len_sub; fold n; lia).
    assert (L2 : len (sub src (c - w) (n - (c - w))) = n - (c - w)) by (apply len_sub; fold n; lia).
    assert (Hb1 : len (blit b w (sub src 0 (c - w))) = c) by (rewrite len_blit; lia).
    assert (Hb2 : len (blit (blit b w (sub src 0 (c - w))) 0 (sub src (c - w) (n - (c - w)))) = c)
      by (rewrite len_blit; lia).
    zb. split; [lia | split; [|lia]].
    rewrite sub_blit_after by lia.
    replace (c - r) with ((w - r) + (c - w)) by lia.
    rewrite sub_split by lia. rewrite sub_blit_before by lia.
    replace (r + (w - r)) with w by lia.
    rewrite (sub_blit_same_n b) by lia.
    rewrite (sub_blit_same_n (blit b w (sub src 0 (c - w)))) by lia.
    rewrite <- app_assoc. f_equal.
    rewrite <- sub_split by lia. replace (c - w + (n - (c - w))) with n by lia.
    apply sub_full.
  - destruct E as (-> & -> & ->). cbn in *. lia.
  - rewrite leb_f in * by lia. lia.
Qed.

(* ------------------------------------------------------------------ *)
(* reader side: two cursor motions                                     *)

(* advance inside the contiguous stretch (read's first branch, reader_move) *)
Lemma rd1_spec s n : inv s -> 0 <= n <= contiguous_readable s ->
  let r1 := rp s + n in
  let r2 := if r1 =? tp s then 0 else r1 in
  let s' := refresh (mkbb (cap s) (wp s) r2 (tp s) (buf s)) in
  inv s' /\ cap s' = cap s /\ abs s' = drop n (abs s) /\ sub (buf s) (rp s) n = take n (abs s).
Proof.
  intros H Hn. open_state s.
  unfold abs, contiguous_readable, refresh, clear in *; cbn [cap wp rp tp buf] in *.
  destruct H as (Hc & Hl & Hw & Ht & [A | [E | B]]).
  - rewrite leb_t in Hn by lia. zb.
    rewrite take_sub, drop_sub by lia.
    destruct (Z.eqb_spec w (r + n)) as [W | W]; cbn [cap wp rp tp buf]; zb.
    + repeat split; auto; try lia. rewrite !sub_nil by lia. reflexivity.
    + repeat split; auto; try lia. f_equal. lia.
  - destruct E as (-> & -> & ->). rewrite leb_t in Hn by lia.
    assert (n = 0) by lia. subst n. zb. cbn [cap wp rp tp buf]. zb.
    repeat split; auto; try lia.
  - rewrite leb_f in Hn by lia. rewrite (leb_f r w) by lia.
    assert (L1 : len (sub b r (t - r)) = t - r) by (apply len_sub; lia).
    rewrite take_app_l, drop_app_l by lia. rewrite take_sub, drop_sub by lia.
    destruct (Z.eqb_spec (r + n) t) as [T | T].
    + (* reaches the mark: wraps to 0 *)
      destruct (Z.eqb_spec w 0) as [W | W]; cbn [cap wp rp tp buf]; zb.
      * subst w. repeat split; auto; try lia. rewrite !sub_nil by lia. reflexivity.
      * repeat split; auto; try lia. rewrite (sub_nil _ _ (t - r - n)) by lia.
        cbn [app]. f_equal. lia.
    + zb. cbn [cap wp rp tp buf]. zb. repeat split; auto; try lia.
      f_equal. f_equal. lia.
Qed.

(* read across the mark (read's second branch) *)
Lemma rd2_spec s n : inv s ->
  contiguous_readable s < n -> n <= contiguous_readable s + jump_readable s ->
  let cr := contiguous_readable s in
  let s' := refresh (mkbb (cap s) (wp s) (n - cr) (tp s) (buf s)) in
  inv s' /\ cap s' = cap s /\ abs s' = drop n (abs s) /\ 0 < cr /\
  sub (buf s) (rp s) cr ++ sub (buf s) 0 (n - cr) = take n (abs s).
Proof.
  intros H H1 H2. open_state s.
  unfold abs, contiguous_readable, jump_readable, refresh, clear in *; cbn [cap wp rp tp buf] in *.
  destruct H as (Hc & Hl & Hw & Ht & [A | [E | B]]).
  - rewrite leb_t in * by lia. lia.
  - destruct E as (-> & -> & ->). rewrite leb_t in * by lia. lia.
  - rewrite leb_f in * by lia. zb.
    assert (L1 : len (sub b r (t - r)) = t - r) by (apply len_sub; lia).
    rewrite take_app_r, drop_app_r by lia. rewrite L1.
    rewrite take_sub, drop_sub by lia.
    destruct (Z.eqb_spec w (n - (t - r))) as [W | W]; cbn [cap wp rp tp buf]; zb.
    + repeat split; auto; try lia. rewrite !sub_nil by lia. reflexivity.
    + repeat split; auto; try lia; try (f_equal; lia).
Qed.

(* peeking (fetch, reader_fc) *)
Lemma peek1_spec s n : inv s -> 0 <= n <= contiguous_readable s ->
  sub (buf s) (rp s) n = take n (abs s) /\ 0 <= rp s /\ rp s + n <= cap s.
Proof.
  intros H Hn. pose proof (rd1_spec s n H Hn) as (_ & _ & _ & P). split; auto.
  open_state s. unfold contiguous_readable in Hn; cbn [cap wp rp tp buf] in *.
  destruct H as (Hc & Hl & Hw & Ht & [A | [E | B]]).
  - rewrite leb_t in Hn by lia. lia.
  - destruct E as (-> & -> & ->). rewrite leb_t in Hn by lia. lia.
  - rewrite leb_f in Hn by lia. lia.
Qed.
