(* C03 — property theorems only (proved in C03/Proofs*.v; refutations in C03/Variants.v).
   Every statement quantifies over ALL schedules (lists of (thread, choice); a choice selects
   the waiter a notify wakes, a spurious condition-variable wake-up, a spurious weak-CAS
   failure, and -- channel futex reader and ring -- a futex wait that would block but returns
   early: interrupted (EINTR) or spurious wake-up), any number of threads where the usage allows it, any capacity / script lengths.
   "enabled" = the thread can take a step with choice 0, i.e. WITHOUT counting spurious
   wake-ups as progress.  "Empty" / "full" are the code's own tests on cursors / counts. *)
From MV Require Import C03.Model C03.ModelK C03.ModelRB C03.ProofsCommon.
From MV Require Import C03.ProofsChanF C03.ProofsChanM C03.ProofsRing C03.ProofsAbq C03.ProofsDbuf C03.ProofsDbufNb C03.ProofsBalanced C03.ProofsChanK C03.ProofsChanK2 C03.ProofsRB C03.ProofsLocks C03.Variants.
From MV Require Import C03.FairGen C03.ProofsFairChanF C03.ProofsFairChanF2 C03.ProofsFairRing C03.ProofsFairRing2.
From MV Require C04.Model C04.ProofsLock C03.ProofsSync.
From MV Require Import C03.Futex C03.ProofsFutex gen.Params_C03.
Local Open Scope Z_scope.

(* ---------- (a) channel, futex-waiting reader (tid 0 reader, tids 1..n-1 writers) ---------- *)

(* some thread can run, or all finished, or the reader sleeps on an EMPTY channel
   (write_cursor = IDX(read_cursor+1)) with every writer finished *)
Theorem chan_futex_no_deadlock : forall n cap wl nreads wk sched,
  let s := exec fsys fstep (finit n cap wl nreads wk) sched in
  (exists t, (t < n)%nat /\ f_enabled s t) \/
  (forall t, (t < n)%nat -> f_done s t) \/
  (f_pc (f_thr s 0%nat) = FRBlocked /\ f_wcur s = ridx (f_rcur s + 1) (f_cap s) /\
   forall t, (0 < t < n)%nat -> f_done s t).
Proof. exact chan_futex_no_deadlock_all. Qed.
Print Assumptions chan_futex_no_deadlock.

(* asleep on write_cursor with expected v: v is the value that was compared with the read
   position, and write_cursor = v or a writer is between its store and its wake call (and can run) *)
Theorem chan_futex_no_lost_wakeup : forall n cap wl nreads wk sched t,
  let s := exec fsys fstep (finit n cap wl nreads wk) sched in
  f_pc (f_thr s t) = FRBlocked ->
  t = 0%nat /\
  f_reg (f_thr s t) = ridx (f_rcur s + 1) (f_cap s) /\
  (f_wcur s = f_reg (f_thr s t) \/
   exists u, (u < n)%nat /\ f_pending (f_pc (f_thr s u)) = true /\ f_enabled s u).
Proof. exact chan_futex_no_lost_wakeup_all. Qed.
Print Assumptions chan_futex_no_lost_wakeup.

(* a futex wait that returns early (choice 2 = EINTR, 3 = spurious) only sends the reader back
   into its loop: it does not give up (script unchanged), does not consume (read_cursor unchanged),
   and re-loads write_cursor next; the no-deadlock / no-lost-wake-up theorems above already
   quantify over these choices *)
Theorem chan_futex_early_return_rechecks : forall s t ch s' l,
  f_pc (f_thr s t) = FRWait -> f_wcur s = f_reg (f_thr s t) -> (ch = 2 \/ ch = 3)%nat ->
  fstep s t ch = Some (s', l) ->
  f_pc (f_thr s' t) = FRSeg /\ f_k (f_thr s' t) = f_k (f_thr s t) /\ f_pend (f_thr s' t) = [] /\
  f_rcur s' = f_rcur s /\ f_wcur s' = f_wcur s /\
  (forall u, u <> t -> f_thr s' u = f_thr s u).
Proof. exact f_early_return_rechecks. Qed.
Print Assumptions chan_futex_early_return_rechecks.

(* the reader takes a message only on the strength of a check (after its latest return from the
   futex, early or not) that found the channel non-empty: it never consumes on a stale value *)
Theorem chan_futex_take_only_after_nonempty_check : forall n cap wl nreads wk sched t,
  let s := exec fsys fstep (finit n cap wl nreads wk) sched in
  f_pc (f_thr s t) = FRStore -> f_reg (f_thr s t) <> ridx (f_rcur s + 1) (f_cap s).
Proof. intros n cap wl nreads wk sched t. exact (chan_futex_take_only_after_nonempty_check_all n cap wl nreads wk sched t). Qed.
Print Assumptions chan_futex_take_only_after_nonempty_check.

(* ---------- (b) channel, condvar-waiting reader ---------- *)

Theorem chan_cv_no_deadlock : forall n cap wl nreads wk sched,
  let s := exec msys mstep (minit n cap wl nreads wk) sched in
  (exists t, (t < n)%nat /\ m_enabled s t) \/
  (forall t, (t < n)%nat -> m_done s t) \/
  (m_pc (m_thr s 0%nat) = MRAsleep /\ m_empty s /\ forall t, (0 < t < n)%nat -> m_done s t).
Proof. exact chan_cv_no_deadlock_all. Qed.
Print Assumptions chan_cv_no_deadlock.

(* waiter asleep => predicate false (channel empty) or a notifier is between its state change
   and its notify (and can run) *)
Theorem chan_cv_no_lost_wakeup : forall n cap wl nreads wk sched t,
  let s := exec msys mstep (minit n cap wl nreads wk) sched in
  (t < n)%nat -> m_pc (m_thr s t) = MRAsleep ->
  m_empty s \/ exists u, (u < n)%nat /\ m_pending (m_pc (m_thr s u)) = true /\ m_enabled s u.
Proof. exact chan_cv_no_lost_wakeup_all. Qed.
Print Assumptions chan_cv_no_lost_wakeup.

(* ---------- (c) ring buffer (tids < nr readers, the rest writers; single-wait: nr <= 1) ---------- *)

(* some thread can run, or every thread is finished / asleep in the futex on a cursor that still
   equals its own read position / (read-once) queued on read_mutex behind such a sleeper; and
   every writer has finished.  "cursor = own position" is the code's emptiness test; that it means
   "no unread message" is the ring's data-path invariant (C02, DESIGN A.6) under the documented
   usage that writers never lap a waiting reader -- see ring_lapped_reader_sleeps. *)
Theorem rb_no_deadlock : forall n nr cap md wl ks sched, (md = GMSingle -> (nr <= 1)%nat) ->
  let s := exec gsys gstep (ginit n nr cap md wl ks) sched in
  (exists t, (t < n)%nat /\ g_enabled s t) \/
  ((forall t, (t < n)%nat ->
      g_done s t \/
      (g_pc (g_thr s t) = GRBlocked /\ g_cursor s = g_expect s t) \/
      (g_pc (g_thr s t) = GRLock /\ exists u, g_rm s = Some u /\ g_pc (g_thr s u) = GRBlocked)) /\
   (forall t, (nr <= t < n)%nat -> g_done s t)).
Proof. exact ring_no_deadlock_all. Qed.
Print Assumptions rb_no_deadlock.

Theorem rb_no_lost_wakeup : forall n nr cap md wl ks sched t, (md = GMSingle -> (nr <= 1)%nat) ->
  let s := exec gsys gstep (ginit n nr cap md wl ks) sched in
  g_pc (g_thr s t) = GRBlocked ->
  g_reg (g_thr s t) = g_expect s t /\
  (g_cursor s = g_reg (g_thr s t) \/
   exists u, (u < n)%nat /\ g_pending (g_pc (g_thr s u)) = true /\ g_enabled s u).
Proof. exact ring_no_lost_wakeup_all. Qed.
Print Assumptions rb_no_lost_wakeup.

(* early futex return in the ring: back to the re-check, nothing else changes (read-once: the
   reader keeps read_mutex) *)
Theorem rb_early_return_rechecks : forall s t ch s' l,
  g_pc (g_thr s t) = GRWait -> g_cursor s = g_reg (g_thr s t) -> (ch = 2 \/ ch = 3)%nat ->
  gstep s t ch = Some (s', l) ->
  g_pc (g_thr s' t) = GRSeg1 /\ g_k (g_thr s' t) = g_k (g_thr s t) /\ g_i (g_thr s' t) = g_i (g_thr s t) /\
  g_rcur s' = g_rcur s /\ g_cursor s' = g_cursor s /\ g_rm s' = g_rm s /\
  (forall u, u <> t -> g_thr s' u = g_thr s u).
Proof. exact g_early_return_rechecks. Qed.
Print Assumptions rb_early_return_rechecks.

(* ---------- (d) array blocking queue (tids < nc consumers, the rest producers) ---------- *)

(* some thread can run, or all finished, or every unfinished thread is a consumer asleep on an
   EMPTY queue (so every producer finished), or every unfinished thread is a producer asleep on a
   FULL queue (so every consumer finished) *)
Theorem abq_no_deadlock : forall n nc cap ks sched, 1 <= cap ->
  let s := exec qsys qstep (qinit n nc cap ks) sched in
  (exists t, (t < n)%nat /\ q_enabled s t) \/
  (forall t, (t < n)%nat -> q_done s t) \/
  (q_cnt s = 0 /\ forall t, (t < n)%nat -> q_pc (q_thr s t) = QCAsleep \/ q_done s t) \/
  (q_cnt s = cap /\ forall t, (t < n)%nat -> q_pc (q_thr s t) = QPAsleep \/ q_done s t).
Proof. exact abq_no_deadlock_all. Qed.
Print Assumptions abq_no_deadlock.

(* consumer asleep on cv_not_empty => every item in the queue is matched by a wake token in
   flight (producer between enqueue and notify, or woken consumer that has not re-checked);
   producer asleep on cv_not_full => the same for the free slots *)
Theorem abq_no_lost_wakeup : forall n nc cap ks sched t, 1 <= cap ->
  let s := exec qsys qstep (qinit n nc cap ks) sched in
  (t < n)%nat ->
  (q_pc (q_thr s t) = QCAsleep ->
     q_cnt s <= Z.of_nat (T_ne s) /\
     (q_cnt s = 0 \/ exists u, (u < n)%nat /\ q_t_ne (q_thr s u) = true)) /\
  (q_pc (q_thr s t) = QPAsleep ->
     q_cap s - q_cnt s <= Z.of_nat (T_nf s) /\
     (q_cnt s = q_cap s \/ exists u, (u < n)%nat /\ q_t_nf (q_thr s u) = true)).
Proof. exact abq_no_lost_wakeup_all. Qed.
Print Assumptions abq_no_lost_wakeup.

(* the two condition variables keep their waiters apart: a notify on cv_not_empty (put) can only
   wake a thread that sleeps on cv_not_empty (a consumer), a notify on cv_not_full (take) only a
   producer -- a wake token always reaches a waiter for whom the announced change is the awaited one *)
Theorem abq_cv_waiters_homogeneous : forall s t ch s' l u,
  qstep s t ch = Some (s', l) -> u <> t -> q_thr s' u <> q_thr s u ->
  (q_pc (q_thr s t) = QPSig /\ q_pc (q_thr s u) = QCAsleep /\ q_pc (q_thr s' u) = QCWoken) \/
  (q_pc (q_thr s t) = QCSig /\ q_pc (q_thr s u) = QPAsleep /\ q_pc (q_thr s' u) = QPWoken).
Proof. exact abq_cv_waiters_homogeneous_all. Qed.
Print Assumptions abq_cv_waiters_homogeneous.

(* balanced scripts (as many takes as puts: the sums of the script lengths over the producers and
   over the consumers of the initial state agree): no blocked end state at all, every script can
   be completed *)
Theorem abq_balanced_scripts_never_stuck : forall n nc cap ks sched, 1 <= cap ->
  tsum q_pw (q_thr (qinit n nc cap ks)) n = tsum q_cw (q_thr (qinit n nc cap ks)) n ->
  let s := exec qsys qstep (qinit n nc cap ks) sched in
  (exists t, (t < n)%nat /\ q_enabled s t) \/ (forall t, (t < n)%nat -> q_done s t).
Proof. exact abq_balanced_no_deadlock_all. Qed.
Print Assumptions abq_balanced_scripts_never_stuck.

(* ---------- (e) double buffer (tid 0 reader, the rest writers; nb = buf->non_blocking) ---------- *)

(* some thread can run, or all finished, or the reader sleeps on an EMPTY back buffer with every
   writer finished, or the reader has FINISHED (stopped consuming) and the remaining writers sleep *)
Theorem dbuf_no_deadlock : forall n cap nb need wk sched, 1 <= cap ->
  let s := exec dsys dstep (dinit n cap nb need wk) sched in
  (exists t, (t < n)%nat /\ d_enabled s t) \/
  (forall t, (t < n)%nat -> d_done s t) \/
  (d_back s = 0 /\ forall t, (t < n)%nat -> d_pc (d_thr s t) = DRAsleep \/ d_done s t) \/
  (0 < d_back s /\ forall t, (t < n)%nat -> d_pc (d_thr s t) = DWAsleep \/ d_done s t).
Proof. exact dbuf_no_deadlock_all. Qed.
Print Assumptions dbuf_no_deadlock.

(* why notify_ONE on cv_not_full suffices: while the reader has not finished, a writer asleep on
   cv_not_full never means that everybody is stuck *)
Theorem dbuf_notify_one_suffices : forall n cap nb need wk sched w r, 1 <= cap ->
  let s := exec dsys dstep (dinit n cap nb need wk) sched in
  (w < n)%nat -> d_pc (d_thr s w) = DWAsleep ->
  (r < n)%nat -> d_is_reader (d_pc (d_thr s r)) = true ->
  exists t, (t < n)%nat /\ d_enabled s t.
Proof. exact dbuf_notify_one_suffices_all. Qed.
Print Assumptions dbuf_notify_one_suffices.

(* balanced usage (the reader asks for exactly as many items as the writers write): no blocked
   end state at all; no writer is left asleep behind a notify_one *)
Theorem dbuf_balanced_scripts_never_stuck : forall n cap nb need wk sched, 1 <= cap ->
  tsum d_ww (d_thr (dinit n cap nb need wk)) n = tsum d_rw (d_thr (dinit n cap nb need wk)) n ->
  let s := exec dsys dstep (dinit n cap nb need wk) sched in
  (exists t, (t < n)%nat /\ d_enabled s t) \/ (forall t, (t < n)%nat -> d_done s t).
Proof. exact dbuf_balanced_no_deadlock_all. Qed.
Print Assumptions dbuf_balanced_scripts_never_stuck.

(* the progress measure behind it: the notify of a read wakes one sleeping writer whenever there
   is one (the number of writers asleep on cv_not_full decreases by one with each completed read) *)
Theorem dbuf_read_wakes_one_sleeping_writer : forall s t ch s' l,
  (t < d_n s)%nat -> d_pc (d_thr s t) = DRSig -> dstep s t ch = Some (s', l) ->
  let asleep := fun (x : dthread) => match d_pc x with DWAsleep => true | _ => false end in
  (0 < tcount asleep (d_thr s) (d_n s))%nat ->
  (tcount asleep (d_thr s') (d_n s') + 1 = tcount asleep (d_thr s) (d_n s))%nat.
Proof. exact d_read_wakes_one. Qed.
Print Assumptions dbuf_read_wakes_one_sleeping_writer.

Theorem dbuf_no_lost_wakeup : forall n cap nb need wk sched t, 1 <= cap ->
  let s := exec dsys dstep (dinit n cap nb need wk) sched in
  (t < n)%nat ->
  (d_pc (d_thr s t) = DRAsleep ->
     d_back s = 0 \/ exists u, (u < n)%nat /\ d_t_ne (d_pc (d_thr s u)) = true) /\
  (d_pc (d_thr s t) = DWAsleep ->
     0 < d_back s \/ exists u, (u < n)%nat /\ d_t_nf (d_pc (d_thr s u)) = true).
Proof. exact dbuf_no_lost_wakeup_all. Qed.
Print Assumptions dbuf_no_lost_wakeup.

(* NON-BLOCKING mode (a write that finds the back buffer full unlocks and returns MUGGLE_ERR_FULL,
   the client retries): some thread can run, or all finished, or the reader sleeps on an EMPTY back
   buffer with every writer finished -- "the unfinished writers are all asleep" is unreachable *)
Theorem dbuf_nonblocking_no_deadlock : forall n cap need wk sched, 1 <= cap ->
  let s := exec dsys dstep (dinit n cap true need wk) sched in
  (exists t, (t < n)%nat /\ d_enabled s t) \/
  (forall t, (t < n)%nat -> d_done s t) \/
  (d_back s = 0 /\ forall t, (t < n)%nat -> d_pc (d_thr s t) = DRAsleep \/ d_done s t).
Proof. exact dbuf_nb_no_deadlock_all. Qed.
Print Assumptions dbuf_nonblocking_no_deadlock.

(* an unfinished writer of a non-blocking double buffer never means that everybody is stuck *)
Theorem dbuf_nonblocking_writer_never_stuck : forall n cap need wk sched w, 1 <= cap ->
  let s := exec dsys dstep (dinit n cap true need wk) sched in
  (w < n)%nat -> d_is_reader (d_pc (d_thr s w)) = false -> ~ d_done s w ->
  exists t, (t < n)%nat /\ d_enabled s t.
Proof. exact dbuf_nb_writer_never_stuck_all. Qed.
Print Assumptions dbuf_nonblocking_writer_never_stuck.

(* mode separation: no writer of a non-blocking buffer ever waits on cv_not_full; no write to a
   blocking buffer is ever refused *)
Theorem dbuf_nonblocking_writers_never_sleep : forall n cap need wk sched t,
  let s := exec dsys dstep (dinit n cap true need wk) sched in
  d_sleepy (d_pc (d_thr s t)) = false.
Proof. exact dbuf_nb_writers_never_sleep_all. Qed.
Print Assumptions dbuf_nonblocking_writers_never_sleep.

Theorem dbuf_blocking_never_returns_full : forall n cap need wk sched t,
  let s := exec dsys dstep (dinit n cap false need wk) sched in
  d_fullret (d_pc (d_thr s t)) = false.
Proof. exact dbuf_blocking_never_returns_full_all. Qed.
Print Assumptions dbuf_blocking_never_returns_full.

(* EVERY RETURN PATH RELEASES THE MUTEX (both modes): a thread outside its call -- before it, after
   an OK return, after a FULL return, in its retry yield, finished -- never owns the mutex ... *)
Theorem dbuf_calls_release_mutex : forall n cap nb need wk sched t, 1 <= cap ->
  let s := exec dsys dstep (dinit n cap nb need wk) sched in
  d_outside (d_pc (d_thr s t)) = true -> d_m s <> Some t.
Proof. exact dbuf_calls_release_mutex_all. Qed.
Print Assumptions dbuf_calls_release_mutex.

(* ... the owner is always a thread inside a call between its lock and its unlock / wait, and it
   can take a step (so a held mutex never blocks the others for ever) *)
Theorem dbuf_mutex_owner_is_inside_and_runnable : forall n cap nb need wk sched u, 1 <= cap ->
  let s := exec dsys dstep (dinit n cap nb need wk) sched in
  d_m s = Some u -> (u < n)%nat /\ d_holds (d_pc (d_thr s u)) = true /\ d_enabled s u.
Proof. exact dbuf_mutex_owner_is_inside_all. Qed.
Print Assumptions dbuf_mutex_owner_is_inside_and_runnable.

(* the FULL return itself: the mutex acquired by the call is free afterwards, and nothing else has
   changed (back buffer, the writer's script -- it retries the same item --, the other threads) *)
Theorem dbuf_full_return_unlocks : forall s t ch s' l,
  d_pc (d_thr s t) = DWUnlockF -> dstep s t ch = Some (s', l) ->
  d_m s' = None /\ d_pc (d_thr s' t) = DWSegF /\ d_k (d_thr s' t) = d_k (d_thr s t) /\
  d_back s' = d_back s /\ (forall u, u <> t -> d_thr s' u = d_thr s u).
Proof. exact d_full_return_unlocks. Qed.
Print Assumptions dbuf_full_return_unlocks.

(* ---------- (g) channel, every writer-lock kind x every reader mode (C03/ModelK.v) ---------- *)
(* rm: KRSync (futex reader) | KRMutex (condvar reader) | KRBusy (busy loop: spin-based waiting);
   lk: KLSingle (no writer lock) | KLMutex (write_mutex) | KLSpin (test-and-set / yield; clear) |
   KLSync (synclock: weak CAS / futex wait; store + wake_one).  Schedules include spurious weak-CAS
   failures, early futex returns (reader and lock word) and spurious condvar wake-ups. *)

(* some thread can run, or all finished, or the reader sleeps on an EMPTY channel with every writer
   finished; in particular never "every unfinished writer asleep on the lock word" *)
Theorem chan_wordlock_no_deadlock : forall n cap rm lk nreads wk sched,
  let s := exec ksys kstep (kinit n cap rm lk nreads wk) sched in
  (exists t, (t < n)%nat /\ k_enabled s t) \/
  (forall t, (t < n)%nat -> k_done s t) \/
  ((k_pc (k_thr s 0%nat) = KRBlocked \/ k_pc (k_thr s 0%nat) = KMAsleep) /\ k_empty s /\
   forall t, (0 < t < n)%nat -> k_done s t).
Proof. exact chan_wordlock_no_deadlock_all. Qed.
Print Assumptions chan_wordlock_no_deadlock.

(* per sleeper: the futex reader sleeps on the value it compared with its read position and the word
   still has it or a writer is between its store and its wake; the condvar reader sleeps on an empty
   channel or a writer is between its cursor update and its notify; a writer asleep on the synclock
   word: the word is LOCK and a holder is inside, or an unlocker is between its store and its wake,
   or a writer is about to retry; and whenever work remains for the sleeper somebody can run *)
Theorem chan_wordlock_no_lost_wakeup : forall n cap rm lk nreads wk sched t,
  let s := exec ksys kstep (kinit n cap rm lk nreads wk) sched in
  (k_pc (k_thr s t) = KRBlocked ->
     t = 0%nat /\ k_reg (k_thr s t) = ridx (k_rcur s + 1) (k_cap s) /\
     (k_wcur s = k_reg (k_thr s t) \/ exists u, (u < n)%nat /\ k_pending (k_thr s u) = true)) /\
  (k_pc (k_thr s t) = KMAsleep ->
     t = 0%nat /\ (k_empty s \/ exists u, (u < n)%nat /\ k_pending (k_thr s u) = true)) /\
  (k_pc (k_thr s t) = KWLBlocked ->
     (k_lock s = 1 /\ exists u, (u < n)%nat /\ k_holds (k_pc (k_thr s u)) = true) \/
     (exists u, (u < n)%nat /\ k_lwaker (k_pc (k_thr s u)) = true) \/
     (exists u, (u < n)%nat /\ k_about (k_thr s u) = true)) /\
  ((k_pc (k_thr s t) = KRBlocked \/ k_pc (k_thr s t) = KMAsleep \/ k_pc (k_thr s t) = KWLBlocked) ->
     ~ k_empty s \/ k_pc (k_thr s t) = KWLBlocked -> exists u, (u < n)%nat /\ k_enabled s u).
Proof. exact chan_wordlock_no_lost_wakeup_all. Qed.
Print Assumptions chan_wordlock_no_lost_wakeup.

(* EVERY RETURN PATH RELEASES WHAT THE CALL ACQUIRED -- MUGGLE_ERR_FULL included: the lock word is
   LOCK only while a writer is inside muggle_channel_write between acquire and release; read_mutex
   is owned only by a thread inside a call between lock and unlock / wait, and that thread can run *)
Theorem chan_wordlock_held_only_inside : forall n cap rm lk nreads wk sched,
  let s := exec ksys kstep (kinit n cap rm lk nreads wk) sched in
  (k_lock s = 1 -> exists u, (u < n)%nat /\ k_holds (k_pc (k_thr s u)) = true) /\
  (forall u, k_rm s = Some u -> (u < n)%nat /\ k_rmholds (k_pc (k_thr s u)) = true /\ k_enabled s u) /\
  (k_lock s = 0 \/ k_lock s = 1).
Proof. exact chan_wordlock_held_only_inside_all. Qed.
Print Assumptions chan_wordlock_held_only_inside.

(* when every thread is in client code (before a call, after an OK or a FULL return, in its retry
   yield, finished) the lock word is UNLOCK and read_mutex is free *)
Theorem chan_wordlock_calls_release_locks : forall n cap rm lk nreads wk sched,
  let s := exec ksys kstep (kinit n cap rm lk nreads wk) sched in
  (forall t, (t < n)%nat -> k_outside (k_pc (k_thr s t)) = true) -> k_lock s = 0 /\ k_rm s = None.
Proof. exact chan_wordlock_calls_release_locks_all. Qed.
Print Assumptions chan_wordlock_calls_release_locks.

(* fn_unlock is executed on every path (ret is looked at only afterwards): after it the word is
   UNLOCK whatever fn_write returned, and nothing else has changed *)
Theorem chan_wordlock_release_on_every_path : forall s t ch s' l,
  k_pc (k_thr s t) = KWRel -> kstep s t ch = Some (s', l) ->
  k_lock s' = 0 /\ k_ok (k_thr s' t) = k_ok (k_thr s t) /\ k_k (k_thr s' t) = k_k (k_thr s t) /\
  k_wcur s' = k_wcur s /\ k_rcur s' = k_rcur s /\ k_rm s' = k_rm s /\
  (forall u, u <> t -> k_thr s' u = k_thr s u).
Proof. exact k_release_unlocks. Qed.
Print Assumptions chan_wordlock_release_on_every_path.

(* a refusal (MUGGLE_ERR_FULL) happens only on a channel that is full by the code's own test, changes
   neither cursor nor lock, and goes straight to the release (to the client when there is no writer lock) *)
Theorem chan_full_return_goes_to_release : forall s t ch s' l,
  k_pc (k_thr s t) = KWChk -> kstep s t ch = Some (s', l) -> k_ok (k_thr s' t) = false ->
  k_pc (k_thr s' t) = (if lk_locked (k_lk s) then KWRel else KWYieldF) /\
  ridx (k_wcur s + 1) (k_cap s) = k_reg (k_thr s t) /\
  k_lock s' = k_lock s /\ k_wcur s' = k_wcur s /\ k_rcur s' = k_rcur s.
Proof. exact k_full_goes_to_release. Qed.
Print Assumptions chan_full_return_goes_to_release.

(* SPIN-BASED WAITING (READ_BUSY), every writer-lock kind: some thread can run or all have finished -- no
   blocked end state at all; and a thread at a reader program point can always take a step *)
Theorem chan_busy_no_deadlock : forall n cap lk nreads wk sched,
  let s := exec ksys kstep (kinit n cap KRBusy lk nreads wk) sched in
  (exists t, (t < n)%nat /\ k_enabled s t) \/ (forall t, (t < n)%nat -> k_done s t).
Proof. exact chan_busy_no_deadlock_all. Qed.
Print Assumptions chan_busy_no_deadlock.

Theorem chan_busy_reader_never_blocks : forall n cap lk nreads wk sched t,
  let s := exec ksys kstep (kinit n cap KRBusy lk nreads wk) sched in
  (t < n)%nat -> k_is_reader (k_pc (k_thr s t)) = true -> k_enabled s t.
Proof. exact chan_busy_reader_never_blocks_all. Qed.
Print Assumptions chan_busy_reader_never_blocks.

(* ---------- (h) ring buffer with BUSY-LOOP readers (spin-based waiting) ---------- *)
(* every thread that has not finished can take a step in every reachable state: nobody ever blocks,
   no schedule ends in a deadlock (spinlock or single writer, any number of readers / writers) *)
Theorem ring_busy_never_blocks : forall n nr cap wl ks sched t,
  let s := exec bsys bstep (binit n nr cap wl ks) sched in
  (t < n)%nat -> b_done s t \/ b_enabled s t.
Proof. exact ring_busy_never_blocks_all. Qed.
Print Assumptions ring_busy_never_blocks.

Theorem ring_busy_no_deadlock : forall n nr cap wl ks sched,
  let s := exec bsys bstep (binit n nr cap wl ks) sched in
  (exists t, (t < n)%nat /\ b_enabled s t) \/ (forall t, (t < n)%nat -> b_done s t).
Proof. exact ring_busy_no_deadlock_all. Qed.
Print Assumptions ring_busy_no_deadlock.

(* ---------- every return path releases the mutexes, models (a) (b) (c) (d) ---------- *)
(* a thread in client code (outside muggle_channel_write / _read, _put / _take, ring read) never owns
   write_mutex / read_mutex / the queue mutex; MUGGLE_ERR_FULL returns included *)
Theorem chan_futex_calls_release_write_mutex : forall n cap wl nreads wk sched t,
  let s := exec fsys fstep (finit n cap wl nreads wk) sched in
  f_outside (f_pc (f_thr s t)) = true -> f_wm s <> Some t.
Proof. exact chan_futex_calls_release_write_mutex_all. Qed.
Print Assumptions chan_futex_calls_release_write_mutex.

Theorem chan_cv_calls_release_mutexes : forall n cap wl nreads wk sched t,
  let s := exec msys mstep (minit n cap wl nreads wk) sched in
  m_outside (m_pc (m_thr s t)) = true -> m_wm s <> Some t /\ m_rm s <> Some t.
Proof. exact chan_cv_calls_release_mutexes_all. Qed.
Print Assumptions chan_cv_calls_release_mutexes.

Theorem abq_calls_release_mutex : forall n nc cap ks sched t, 1 <= cap ->
  let s := exec qsys qstep (qinit n nc cap ks) sched in
  q_outside (q_pc (q_thr s t)) = true -> q_m s <> Some t.
Proof. exact abq_calls_release_mutex_all. Qed.
Print Assumptions abq_calls_release_mutex.

(* ---------- (f) synclock (C04's model of synclock.c, repaired loop) ---------- *)

Theorem synclock_no_deadlock : forall P n it sched,
  let s := exec C04.Model.lsys (C04.Model.lstep P true) (C04.Model.linit C04.Model.KSync n it) sched in
  (exists t, (t < n)%nat /\ C03.ProofsSync.l_enabled P s t) \/
  (forall t, (t < n)%nat -> C04.Model.l_pc (C04.Model.l_thr s t) = C04.Model.LDone).
Proof. exact C03.ProofsSync.synclock_no_deadlock_all. Qed.
Print Assumptions synclock_no_deadlock.

(* asleep on the lock word expecting LOCK => the word is LOCK and the holder can run (it will
   store UNLOCK and wake), or an unlocker is between its store and its wake call, or a thread is
   about to retry the compare-exchange *)
Theorem synclock_no_lost_wakeup : forall P n it sched t,
  let s := exec C04.Model.lsys (C04.Model.lstep P true) (C04.Model.linit C04.Model.KSync n it) sched in
  C04.Model.l_pc (C04.Model.l_thr s t) = C04.Model.LBlocked ->
  (C04.Model.l_lock s = 1 /\
   exists u, (u < n)%nat /\ C04.ProofsLock.holds (C04.Model.l_pc (C04.Model.l_thr s u)) = true /\
             C03.ProofsSync.l_enabled P s u) \/
  (exists u, (u < n)%nat /\ C03.ProofsSync.l_waker (C04.Model.l_pc (C04.Model.l_thr s u)) = true /\
             C03.ProofsSync.l_enabled P s u) \/
  (exists u, (u < n)%nat /\ C03.ProofsSync.l_about (C04.Model.l_thr s u) = true /\
             C03.ProofsSync.l_enabled P s u).
Proof. exact C03.ProofsSync.synclock_no_lost_wakeup_all. Qed.
Print Assumptions synclock_no_lost_wakeup.

(* ---------- the futex itself: muggle/c/sync/sync_obj_futex.c ---------- *)
(* harness/vsched REPLACES that file by the scheduler's compare-and-block / wake-n, which is also what the
   models transcribe.  code_futex (gen/Params_C03.v, regenerated on every run) is what the repository's
   muggle_sync_wait / wake_one / wake_all were observed to hand to syscall(); the obligation: it is one
   futex call with FUTEX_WAIT resp. FUTEX_WAKE on the PROCESS-PRIVATE key for all three (a shared
   waiter is never found by a private wake), the caller's address, value and timeout, counts 1 / INT_MAX *)
Theorem futex_source_asks_for_the_scheduler_semantics : futex_calls_ok code_futex = true.
Proof. vm_compute. reflexivity. Qed.
Print Assumptions futex_source_asks_for_the_scheduler_semantics.

(* ... and under the semantics of futex(2) (C03/Futex.v: kernel_futex) each observed call then IS the
   scheduler's operation: wait = atomic compare-and-block, wake_one wakes one waiter queued by such a
   wait if there is one, wake_all every one *)
Theorem futex_calls_have_the_scheduler_semantics :
  (forall o, In o (fo_wait code_futex) -> forall q word, q_shared q = O ->
     let r := kernel_futex q word (o_op o) (o_val o) true in
     let m := sched_wait (q_priv q) word (o_in_val o) in
     o_addr_ok o = true /\ q_priv (fst r) = fst m /\ q_shared (fst r) = O /\
     (snd m = true -> snd r = KBlock) /\ (snd m = false -> snd r = KRet (-1) /\ fst r = q)) /\
  (forall o, In o (fo_wake_one code_futex) -> forall q word tn, q_shared q = O ->
     let r := kernel_futex q word (o_op o) (o_val o) tn in
     let m := sched_wake_one (q_priv q) in
     o_addr_ok o = true /\ q_priv (fst r) = fst m /\ q_shared (fst r) = O /\ snd r = KRet (Z.of_nat (snd m))) /\
  (forall o, In o (fo_wake_all code_futex) -> forall q word tn, q_shared q = O -> Z.of_nat (q_priv q) <= ABI_INT_MAX ->
     let r := kernel_futex q word (o_op o) (o_val o) tn in
     let m := sched_wake_all (q_priv q) in
     o_addr_ok o = true /\ q_priv (fst r) = fst m /\ q_shared (fst r) = O /\ snd r = KRet (Z.of_nat (snd m))) /\
  fo_wait code_futex <> [] /\ fo_wake_one code_futex <> [] /\ fo_wake_all code_futex <> [].
Proof. exact (futex_calls_ok_sound code_futex futex_source_asks_for_the_scheduler_semantics). Qed.
Print Assumptions futex_calls_have_the_scheduler_semantics.

(* ---------- FAIR SCHEDULES: balanced scripts terminate, nobody is left blocked ---------- *)
(* Fairness as in coq/C14/ProofsFair.v: a schedule is a sequence of rounds, each round schedules
   every thread at least once (any order, any multiplicity, any schedule choices); a measure no
   step increases and every step of a non-spinning thread decreases; a productive (enabled and
   not spinning) thread exists until everybody has finished (C03/FairGen.v). *)

(* channel, futex-waiting reader: capacity 2^k >= 4, one reader, any number of writers behind the
   write mutex (one if WRITE_SINGLE), the reader asks for exactly as many messages as the writers
   write; from ANY reachable state, after more than [fM] fair rounds -- with futex waits that are
   interrupted / return spuriously as often as the schedule likes and writers that bounce off a
   full channel and retry -- every thread has finished *)
Theorem chan_no_lost_wakeup_fair : forall k n wl nreads wk pre rounds,
  2 <= k -> (wl = true \/ (n <= 2)%nat) ->
  tsum f_rr (f_thr (finit n (2 ^ k) wl nreads wk)) n = tsum f_ww (f_thr (finit n (2 ^ k) wl nreads wk)) n ->
  let s := exec fsys fstep (finit n (2 ^ k) wl nreads wk) pre in
  Forall (fair_round n) rounds -> (fM s < length rounds)%nat ->
  forall t, (t < n)%nat -> f_done (exec fsys fstep (finit n (2 ^ k) wl nreads wk) (pre ++ concat rounds)) t.
Proof. exact chan_futex_no_lost_wakeup_fair_all. Qed.
Print Assumptions chan_no_lost_wakeup_fair.

(* non-vacuity: round-robin, a reader that really sleeps (rounds 4..9) and is really woken *)
Theorem chan_no_lost_wakeup_fair_example :
  let rr := [(0,0);(1,0);(2,0)]%nat in
  fair_round 3 rr /\
  tsum f_rr (f_thr f_fair_demo) 3 = tsum f_ww (f_thr f_fair_demo) 3 /\
  (fM f_fair_demo < 600)%nat /\
  f_pc (f_thr (exec fsys fstep f_fair_demo (concat (repeat rr 4))) 0%nat) = FRBlocked /\
  f_pc (f_thr (exec fsys fstep f_fair_demo (concat (repeat rr 9))) 0%nat) = FRBlocked /\
  f_pc (f_thr (exec fsys fstep f_fair_demo (concat (repeat rr 10))) 0%nat) = FRSeg /\
  (forall t, (t < 3)%nat -> f_done (exec fsys fstep f_fair_demo (concat (repeat rr 600))) t).
Proof. exact chan_futex_fair_example. Qed.
Print Assumptions chan_no_lost_wakeup_fair_example.

(* ring buffer, futex-waiting readers (wait / single-wait / read-once): capacity 2^k, T < capacity
   messages in all (nobody is lapped), every reader asks for at most T (read-once: the readers
   together); from any reachable state, after more than [gM] fair rounds every thread has finished *)
Theorem ring_no_lost_wakeup_fair : forall k n nr md wl ks pre rounds,
  0 <= k ->
  let s0 := ginit n nr (2 ^ k) md wl ks in
  let T := tsum g_ww (g_thr s0) n in
  Z.of_nat T < 2 ^ k ->
  (md = GMSingle -> (nr <= 1)%nat) ->
  (wl = true \/ (n <= nr + 1)%nat) ->
  (md <> GMOnce -> forall t, (t < nr)%nat -> (ks t <= T)%nat) ->
  (md = GMOnce -> (tsum g_rr (g_thr s0) n <= T)%nat) ->
  let s := exec gsys gstep s0 pre in
  Forall (fair_round n) rounds -> (gM s < length rounds)%nat ->
  forall t, (t < n)%nat -> g_done (exec gsys gstep s0 (pre ++ concat rounds)) t.
Proof. exact ring_no_lost_wakeup_fair_all. Qed.
Print Assumptions ring_no_lost_wakeup_fair.

Theorem ring_no_lost_wakeup_fair_example :
  let rr := [(0,0);(1,0);(2,0)]%nat in
  fair_round 3 rr /\
  (Z.of_nat (tsum g_ww (g_thr g_fair_demo) 3) < 2 ^ 2)%Z /\
  (gM g_fair_demo < 650)%nat /\
  (let s := exec gsys gstep g_fair_demo (concat (repeat rr 4)) in
   g_pc (g_thr s 0%nat) = GRBlocked /\ g_pc (g_thr s 1%nat) = GRBlocked) /\
  (let s := exec gsys gstep g_fair_demo (concat (repeat rr 7)) in
   g_pc (g_thr s 0%nat) = GRBlocked /\ g_pc (g_thr s 1%nat) = GRBlocked) /\
  (let s := exec gsys gstep g_fair_demo (concat (repeat rr 8)) in
   g_pc (g_thr s 0%nat) = GRSeg1 /\ g_pc (g_thr s 1%nat) = GRSeg1) /\
  (forall t, (t < 3)%nat -> g_done (exec gsys gstep g_fair_demo (concat (repeat rr 650))) t).
Proof. exact ring_fair_example. Qed.
Print Assumptions ring_no_lost_wakeup_fair_example.

(* condvar-mode channel: the same statement is FALSE under this notion of fairness as soon as a
   writer can bounce off a full channel (its retry takes read_mutex, and the schedule may give the
   reader its turn only then): 2000 fair rounds without any progress of the reader, who is never
   asleep (safety theorems chan_cv_* hold) -- mutex unfairness + the client's retry loop, not a
   lost wake-up *)
Theorem chan_cv_fair_schedule_can_starve_reader :
  let s0 := minit 2 4 false 3 (fun _ => 3%nat) in
  let s := exec msys mstep s0 (m_starve_pre ++ concat (repeat m_starve_round 2000)) in
  (forall t, (t < 2)%nat -> In t (map fst m_starve_round)) /\
  m_pc (m_thr s 0%nat) = MRLock /\ m_k (m_thr s 0%nat) = 3%nat /\
  m_pc (m_thr s 1%nat) = MWSeg /\ m_k (m_thr s 1%nat) = 1%nat /\
  ~ m_empty s /\ m_rm s = None.
Proof. exact chan_cv_full_retry_starves_reader. Qed.
Print Assumptions chan_cv_fair_schedule_can_starve_reader.

(* ---------- refutations of the classic broken variants (C03/Variants.v) ---------- *)

(* futex wait on a re-loaded cursor value: the per-sleeper invariant fails and the reader sleeps
   for ever with a message in the channel *)
Theorem refuted_futex_wait_on_reloaded_value :
  ~ FInv (exec fsys fstep_reload (finit 2 4 false 1 (fun _ => 1%nat)) f_lost_sched).
Proof. exact chan_futex_reload_breaks_invariant. Qed.
Print Assumptions refuted_futex_wait_on_reloaded_value.

(* ONE condition variable for both directions (waiters no longer homogeneous): capacity 1, two
   producers, one consumer: consumer asleep with a message queued, a producer asleep holding
   another, nobody can ever run again *)
Theorem refuted_single_condition_variable :
  let s := exec qsys qstep_onecv q_onecv_init q_onecv_sched in
  q_pc (q_thr s 0%nat) = QCAsleep /\ q_cnt s = 1 /\
  q_pc (q_thr s 2%nat) = QPAsleep /\ q_done s 1%nat /\
  q_m s = None /\
  (forall t, (t < 3)%nat -> qstep_onecv s t 0 = None).
Proof. exact abq_single_cv_deadlocks. Qed.
Print Assumptions refuted_single_condition_variable.

(* non-blocking double buffer whose MUGGLE_ERR_FULL return forgets the unlock: the refused writer
   is back in client code owning the mutex; its retry and the reader block for ever with an item
   waiting in the back buffer *)
Theorem refuted_full_return_keeping_mutex :
  let s := exec dsys dstep_fullkeeps (dinit 2 1 true 2 (fun _ => 2%nat)) d_fullkeeps_sched in
  d_back s = 1 /\ d_m s = Some 1%nat /\
  d_pc (d_thr s 1%nat) = DWLock /\ d_pc (d_thr s 0%nat) = DRLock /\
  (forall t, (t < 2)%nat -> dstep_fullkeeps s t 0 = None).
Proof. exact dbuf_full_return_keeping_mutex_deadlocks. Qed.
Print Assumptions refuted_full_return_keeping_mutex.

(* `if` instead of `while` around a condvar wait + one spurious wake-up: take from an empty queue *)
Theorem refuted_if_instead_of_while :
  ~ QInv (exec qsys qstep_if (qinit 2 1 1 (fun _ => 1%nat)) [(0,0);(0,0);(0,0);(0,0); (0,1); (0,0)]%nat).
Proof. exact abq_if_breaks_invariant. Qed.
Print Assumptions refuted_if_instead_of_while.
