(* C03 — property theorems only (placeholder during bring-up; replaced by the real list) *)
From MV Require Import C03.Model.
Theorem c03_bringup : fstep (finit 2 4 false 1 (fun _ => 1%nat)) 5 0 = None.
Proof. reflexivity. Qed.
Print Assumptions c03_bringup.
