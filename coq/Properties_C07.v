(* C07 — property theorems only.  Each is closed by [exact] of a lemma proved in
   C07/Proofs*.v and followed by Print Assumptions.  The model is that of
   bytes_buffer.c with fixes/C07-*.patch applied.

   Operation language (Model.v [op]): the thirteen public functions with ANY int
   size - sizes beyond the capacity up to INT_MAX included; negative counts for
   writer_fc / reader_fc - and with the zero-copy pairs NOT adjacent: the region
   handed out by writer_fc stays outstanding while the reader side works (until
   the buffer is empty and beyond), the region exposed by reader_fc while the
   writer side works.  Hypothesis [wf_op]: the count given to read / fetch /
   reader_move is not negative (documented usage; see ProofsOps.v). *)
From MV Require Import C07.Model C07.ProofsList C07.Proofs C07.ProofsRegion C07.ProofsOps gen.Params_C07 C07.ProofsGen.
Local Open Scope Z_scope.

(* Every state reachable from init by any history of the twelve script operations
   (all thirteen public functions) satisfies invariant A.4, keeps its capacity,
   and reports readable() = number of unread bytes. *)
Theorem bb_inv_reachable : forall c fill ops, 1 <= c -> Forall wf_op ops ->
  let s := st (fst (run (start c fill) ops)) in
  inv s /\ cap s = c /\ readable s = len (abs s).
Proof. exact reachable_inv. Qed.
Print Assumptions bb_inv_reachable.

(* Lossless FIFO: along every history the observed results are exactly those of
   a byte FIFO that knows nothing about cursors — accepted bytes are appended,
   read / fetch / reader_fc deliver the front bytes, read / reader_move remove
   exactly what they delivered (partial advances included), nothing else changes
   the contents — and readable() printed after each operation equals accepted
   minus consumed.  Capacity 0 (a successful malloc(0)) included; the commit of a
   writer region after the reader emptied the buffer included (the history the
   unrepaired writer_move_n got wrong, see bb_orig_commit_wrong_only_after_drain). *)
Theorem bb_refines_fifo : forall c fill ops, 0 <= c -> Forall wf_op ops ->
  fifo_trace [] (combine ops (snd (run (start c fill) ops))).
Proof. exact refines_fifo. Qed.
Print Assumptions bb_refines_fifo.

(* One operation from ANY state satisfying the invariant (not only reachable
   ones): invariant kept, FIFO step, touched ranges inside the array, refusal
   leaves the buffer unchanged. *)
Theorem bb_step_refines : forall x o x' r a, sinv x -> wf_op o -> step x o = (x', r, a) ->
  sinv x' /\ cap (st x') = cap (st x) /\
  fifo_step (abs (st x)) o r (abs (st x')) /\
  acc_in_range (cap (st x)) a = true /\
  (refused r = true -> st x' = st x).
Proof. exact step_spec. Qed.
Print Assumptions bb_step_refines.

Theorem bb_readable_exact : forall s, inv s -> readable s = len (abs s).
Proof. exact readable_abs. Qed.
Print Assumptions bb_readable_exact.

(* An operation fails iff the kind of space / data it needs is lacking (total
   writable for write, total readable for read and fetch, one of the two
   contiguous free stretches for writer_fc / writer_move, the contiguous unread
   stretch for reader_fc / reader_move; writer_move_n inside the region it was
   given never fails), and a failed operation returns the state unchanged. *)
Theorem bb_fail_iff_lack : forall s, inv s ->
  (forall src, snd (fst (write s src)) = false <-> writable s < len src) /\
  (forall src, snd (fst (write s src)) = false -> fst (fst (write s src)) = s) /\
  (forall n, 0 <= n -> (snd (fst (read s n)) = None <-> readable s < n)) /\
  (forall n, 0 <= n -> snd (fst (read s n)) = None -> fst (fst (read s n)) = s) /\
  (forall n, 0 <= n -> (fst (fetch s n) = None <-> readable s < n)) /\
  (forall n, writer_fc s n = None <-> contiguous_writable s < n /\ jump_writable s < n) /\
  (forall n off data, region_ok s off n -> len data <= n ->
                      snd (writer_move_n (poke s off data) off (len data)) = true) /\
  (forall n, 0 <= n -> (snd (writer_move s n) = false <-> contiguous_writable s < n /\ jump_writable s < n)) /\
  (forall n, 0 <= n -> snd (writer_move s n) = false -> fst (writer_move s n) = s) /\
  (forall n, reader_fc s n = None <-> contiguous_readable s < n) /\
  (forall k, 0 <= k -> (snd (reader_move s k) = false <-> contiguous_readable s < k)) /\
  (forall k, 0 <= k -> snd (reader_move s k) = false -> fst (reader_move s k) = s).
Proof. exact fail_iff_lack. Qed.
Print Assumptions bb_fail_iff_lack.

(* At every point of every history, an operation that is refused (false / NULL /
   not performed) leaves all four cursors and the array as they were. *)
Theorem bb_refused_changes_nothing : forall c fill ops o, 0 <= c -> Forall wf_op ops -> wf_op o ->
  let x := fst (run (start c fill) ops) in
  refused (snd (fst (step x o))) = true -> st (fst (fst (step x o))) = st x.
Proof. exact refused_unchanged. Qed.
Print Assumptions bb_refused_changes_nothing.

(* The "kinds" are not vacuous: whenever a byte is unread at least one is
   contiguous (reader_fc 1 / reader_move 1 succeed: the reader is never stuck),
   the three-case accounting loses nothing but the truncated tail and the
   one-byte gap, and an empty buffer offers its whole capacity minus one. *)
Theorem bb_reader_never_stuck : forall s, inv s -> 0 < readable s -> 0 < contiguous_readable s.
Proof. exact contiguous_positive. Qed.
Print Assumptions bb_reader_never_stuck.

Theorem bb_space_accounting : forall s, inv s ->
  writable s + readable s = (if rp s <=? wp s then cap s else tp s) - 1.
Proof. exact space_accounting. Qed.
Print Assumptions bb_space_accounting.

Theorem bb_empty_all_writable : forall s, inv s -> abs s = [] -> writable s = cap s - 1.
Proof. exact empty_writable. Qed.
Print Assumptions bb_empty_all_writable.

(* No operation of any history touches an index outside [0, c): every memcpy
   range and every region handed out by writer_fc / reader_fc lies inside. *)
Theorem bb_indices_in_range : forall c fill ops, 0 <= c -> Forall wf_op ops ->
  Forall (fun ob => acc_in_range c (o_acc ob) = true) (snd (run (start c fill) ops)).
Proof. exact indices_in_range. Qed.
Print Assumptions bb_indices_in_range.

(* readable() = accepted - consumed for capacity 0 as well (there inv does not hold: w = c). *)
Theorem bb_readable_exact_every_capacity : forall c fill ops, 0 <= c -> Forall wf_op ops ->
  let s := st (fst (run (start c fill) ops)) in readable s = len (abs s).
Proof. exact reachable_readable. Qed.
Print Assumptions bb_readable_exact_every_capacity.

(* The zero-copy regions while the other side works.  At every point of every
   history the region handed out by the last successful writer_fc is still free
   space - at w, at the origin (jump), or, when the reader has emptied the buffer
   since, wherever it was - and the region exposed by the last successful
   reader_fc is empty or still the first contiguous unread bytes. *)
Theorem bb_regions_stay_valid : forall c fill ops, 1 <= c -> Forall wf_op ops ->
  let x := fst (run (start c fill) ops) in
  match wptr x with Some (off, n) => region_ok (st x) off n | None => True end /\
  match rptr x with Some (off, n) => rptr_ok (st x) off n | None => True end.
Proof. exact regions_outstanding. Qed.
Print Assumptions bb_regions_stay_valid.

(* Committing k <= n bytes through ANY outstanding region appends exactly the
   bytes stored in it (from any state satisfying the invariant). *)
Theorem bb_commit_through_region : forall s n off data s2 ok, inv s -> region_ok s off n -> len data <= n ->
  writer_move_n (poke s off data) off (len data) = (s2, ok) ->
  ok = true /\ inv s2 /\ cap s2 = cap s /\ abs s2 = abs s ++ data.
Proof. exact wmn_region_spec. Qed.
Print Assumptions bb_commit_through_region.

(* read and reader_move keep an outstanding writer region valid, whatever they consume. *)
Theorem bb_reader_keeps_writer_region : forall s n off m, inv s -> 0 <= n -> region_ok s off m ->
  region_ok (fst (fst (read s n))) off m /\ region_ok (fst (reader_move s n)) off m.
Proof. exact reader_keeps_writer_region. Qed.
Print Assumptions bb_reader_keeps_writer_region.

(* write keeps an outstanding reader region valid (same bytes: bb_step_refines on ORpeek). *)
Theorem bb_writer_keeps_reader_region : forall s src off m, inv s -> rptr_ok s off m ->
  rptr_ok (fst (fst (write s src))) off m.
Proof. exact writer_keeps_reader_region. Qed.
Print Assumptions bb_writer_keeps_reader_region.

(* The unrepaired writer_move_n (w += k whenever ptr != buffer) is the repaired
   one unless bytes are committed through a pointer that is neither the origin
   nor buffer + w: by bb_regions_stay_valid that is exactly "the reader emptied
   the buffer after a region at offset > 0 was handed out".  There it lost the
   bytes: Example orig_commit_after_drain_loses_bytes (ProofsRegion.v). *)
Theorem bb_orig_commit_wrong_only_after_drain : forall s off k,
  (off = 0 \/ off = wp s \/ k <= 0) -> writer_move_n_orig s off k = writer_move_n s off k.
Proof. exact orig_agrees_unless_drained. Qed.
Print Assumptions bb_orig_commit_wrong_only_after_drain.

(* init fails exactly when the allocation fails; malloc((size_t)c) for c < 0 cannot succeed. *)
Theorem bb_init_fails_iff_alloc_fails : forall c fill ok, init_opt c fill ok = None <-> (c < 0 \/ ok = false).
Proof. exact init_fails_iff. Qed.
Print Assumptions bb_init_fails_iff_alloc_fails.

(* Second tie to the source: the three static space helpers and
   contiguous_readable, translated from the C text of bytes_buffer.c on every
   run into gen/Params_C07.v, compute exactly what the model's helpers compute. *)
Theorem bb_helpers_match_source : forall s,
  gen_contiguous_writable (cap s) (wp s) (rp s) (tp s) = contiguous_writable s /\
  gen_jump_writable (cap s) (wp s) (rp s) (tp s) = jump_writable s /\
  gen_jump_readable (cap s) (wp s) (rp s) (tp s) = jump_readable s /\
  gen_contiguous_readable (cap s) (wp s) (rp s) (tp s) = contiguous_readable s.
Proof. exact gen_helpers_eq. Qed.
Print Assumptions bb_helpers_match_source.
