(* placeholder while the pipeline is brought up *)
From MV Require Import C07.Model.
