From MV Require Import Lib.ExtractBase C19.Model.
From Coq Require Import ExtrOcamlBasic.
Extraction Language OCaml.
Extraction "c19_model" force_types init init_fast check update check_and_update check_and_force_update step run
  read_clock ts_of interval_ns ns_init ns_curr_elapsed ns_check_and_update ns_check_and_force_update
  fast_init fast_curr_elapsed fast_check_and_update fast_check_and_force_update.
