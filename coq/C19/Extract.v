From MV Require Import Lib.ExtractBase C19.Model.
From Coq Require Import ExtrOcamlBasic.
Extraction Language OCaml.
Extraction "c19_model" force_types init init_fast check update check_and_update check_and_force_update step run.
