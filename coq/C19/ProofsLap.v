(* C19 — the ring after arbitrarily many laps: where the cursor stands and which recorded
   request every single slot holds.  Inv (Proofs.v) speaks about the ring rotated at the cursor;
   here the statement is per slot index, so that "slot i is consulted with the stamp that was
   really stored there last, for every i < n, after any number of laps, for every n" is a
   theorem of the model (a ring that treats some slot as never written violates exactly this). *)
From MV Require Import C19.Model C19.Proofs.
Local Open Scope Z_scope.

(* H is the recorded history with the n virtual initial stamps in front (as in spec_run);
   slot i holds the element of H with the largest index < length H congruent to i modulo n *)
Definition slot_src (n len i : nat) : nat := (n * ((len - 1 - i) / n) + i)%nat.

Definition Slots (s : fc) (H : list Z) : Prop :=
  cursor s = (length H mod length (arr s))%nat /\
  forall i, (i < length (arr s))%nat -> nth i (arr s) 0 = nth (slot_src (length (arr s)) (length H) i) H 0.

(* ---------- arithmetic of slot_src ---------- *)

Lemma div_shape (n q r : nat) : (r < n)%nat -> ((n * q + r) / n = q)%nat.
Proof. intros Hr. symmetry. apply (Nat.div_unique _ _ _ r); [assumption|reflexivity]. Qed.

Lemma slot_src_cursor n len : (0 < n)%nat ->
  slot_src n (len + 1) (len mod n) = len.
Proof.
  intros Hn. unfold slot_src.
  pose proof (Nat.div_mod len n ltac:(lia)) as E.
  pose proof (Nat.mod_upper_bound len n ltac:(lia)) as Hc.
  set (q := (len / n)%nat) in *. set (c := (len mod n)%nat) in *.
  replace (len + 1 - 1 - c)%nat with (n * q + 0)%nat by lia.
  rewrite div_shape by lia. lia.
Qed.

(* the quotient that slot_src uses, in the two positions of i relative to the cursor *)
Lemma slot_quot n len i : (0 < n)%nat -> (n <= len)%nat -> (i < n)%nat ->
  ((i < len mod n)%nat -> ((len - 1 - i) / n = len / n)%nat) /\
  ((len mod n <= i)%nat -> (S ((len - 1 - i) / n) = len / n)%nat).
Proof.
  intros Hn Hlen Hi.
  pose proof (Nat.div_mod len n ltac:(lia)) as E.
  pose proof (Nat.mod_upper_bound len n ltac:(lia)) as Hc.
  set (q := (len / n)%nat) in *. set (c := (len mod n)%nat) in *.
  split; intros Hic.
  - replace (len - 1 - i)%nat with (n * q + (c - 1 - i))%nat by lia.
    apply div_shape. lia.
  - destruct q as [|q'].
    + rewrite Nat.mul_0_r in E. lia.
    + rewrite Nat.mul_succ_r in E.
      replace (len - 1 - i)%nat with (n * q' + (n + c - 1 - i))%nat by lia.
      rewrite div_shape by lia. reflexivity.
Qed.

Lemma slot_src_other n len i : (0 < n)%nat -> (n <= len)%nat -> (i < n)%nat -> i <> (len mod n)%nat ->
  slot_src n (len + 1) i = slot_src n len i.
Proof.
  intros Hn Hlen Hi Hne. unfold slot_src.
  pose proof (Nat.div_mod len n ltac:(lia)) as E.
  pose proof (Nat.mod_upper_bound len n ltac:(lia)) as Hc.
  destruct (slot_quot n len i Hn Hlen Hi) as [Q1 Q2].
  set (q := (len / n)%nat) in *. set (c := (len mod n)%nat) in *.
  destruct (Nat.lt_ge_cases i c) as [Hlt|Hge].
  - rewrite (Q1 Hlt).
    replace (len + 1 - 1 - i)%nat with (n * q + (c - i))%nat by lia.
    rewrite div_shape by lia. reflexivity.
  - specialize (Q2 Hge).
    destruct q as [|q'].
    + rewrite Nat.mul_0_r in E. lia.
    + rewrite Nat.mul_succ_r in E.
      replace (len + 1 - 1 - i)%nat with (n * q' + (n + c - i))%nat by lia.
      rewrite div_shape by lia.
      assert (((len - 1 - i) / n)%nat = q') by lia. congruence.
Qed.

(* every slot's source is one of the LAST n recorded stamps: nothing older survives in the ring *)
Lemma slot_src_range n len i : (0 < n)%nat -> (n <= len)%nat -> (i < n)%nat ->
  (len - n <= slot_src n len i < len)%nat.
Proof.
  intros Hn Hlen Hi. unfold slot_src.
  pose proof (Nat.div_mod len n ltac:(lia)) as E.
  pose proof (Nat.mod_upper_bound len n ltac:(lia)) as Hc.
  destruct (slot_quot n len i Hn Hlen Hi) as [Q1 Q2].
  set (q := (len / n)%nat) in *. set (c := (len mod n)%nat) in *.
  destruct (Nat.lt_ge_cases i c) as [Hlt|Hge].
  - rewrite (Q1 Hlt). lia.
  - specialize (Q2 Hge). destruct q as [|q'].
    + rewrite Nat.mul_0_r in E. lia.
    + rewrite Nat.mul_succ_r in E.
      assert (((len - 1 - i) / n)%nat = q') as -> by lia. lia.
Qed.

(* ---------- one update ---------- *)

Lemma nth_upd_nth_same (l : list Z) c x : (c < length l)%nat -> nth c (upd_nth c x l) 0 = x.
Proof.
  revert c; induction l as [|a l IH]; intros c Hc.
  - simpl in Hc. lia.
  - destruct c as [|c]; [reflexivity|]. simpl in *. apply IH. lia.
Qed.

Lemma nth_upd_nth_other (l : list Z) c i x : i <> c -> nth i (upd_nth c x l) 0 = nth i l 0.
Proof.
  revert c i; induction l as [|a l IH]; intros c i Hne.
  - destruct c; reflexivity.
  - destruct c as [|c], i as [|i]; simpl; try reflexivity; [congruence|].
    apply IH. congruence.
Qed.

Lemma slots_update s H now : wf s -> (length (arr s) <= length H)%nat -> Slots s H ->
  Slots (update s now) (H ++ [now]).
Proof.
  unfold wf. intros Hw Hl [Hc Hs]. unfold Slots.
  cbn [update arr cursor]. rewrite upd_nth_length, app_length. cbn [length].
  set (n := length (arr s)) in *. set (len := length H) in *.
  assert (Hn : (0 < n)%nat) by lia.
  split.
  - rewrite Hc. replace (S (len mod n)) with (len mod n + 1)%nat by lia.
    apply Nat.add_mod_idemp_l. lia.
  - intros i Hi. destruct (Nat.eq_dec i (cursor s)) as [->|Hne].
    + rewrite nth_upd_nth_same by (fold n; lia).
      rewrite Hc, slot_src_cursor by assumption.
      rewrite app_nth2 by (fold len; lia). fold len. now rewrite Nat.sub_diag.
    + rewrite nth_upd_nth_other by assumption.
      rewrite slot_src_other by (try assumption; congruence).
      rewrite app_nth1 by (fold len; apply slot_src_range; assumption).
      apply Hs. assumption.
Qed.

Lemma slots_init (v : Z) n : (0 < n)%nat ->
  Slots {| arr := repeat v n; cursor := 0; tw := 0 |} (repeat v n) /\
  forall t, Slots {| arr := repeat v n; cursor := 0; tw := t |} (repeat v n).
Proof.
  intros Hn.
  assert (G : forall t, Slots {| arr := repeat v n; cursor := 0; tw := t |} (repeat v n)).
  { intros t. unfold Slots. cbn [arr cursor]. rewrite repeat_length. split.
    - symmetry. apply Nat.mod_same. lia.
    - intros i Hi. unfold slot_src. rewrite (Nat.div_small (n - 1 - i) n) by lia.
      rewrite Nat.mul_0_r. reflexivity. }
  split; [apply G|exact G].
Qed.

(* ---------- whole operation sequences ---------- *)

Lemma step_slots s H o : Inv s H -> Slots s H ->
  Slots (fst (step s o)) (fst (spec_step (length (arr s)) (tw s) H o)).
Proof.
  intros HI HS. pose proof HI as (Hw & Hl & _ & _).
  destruct o as [now|now|now|now]; cbn [step spec_step fst].
  - assumption.
  - now apply slots_update.
  - unfold check_and_update. rewrite (check_spec _ _ _ HI).
    destruct (room _ _ H now); cbn [fst]; [now apply slots_update|assumption].
  - unfold check_and_force_update. cbn [fst]. now apply slots_update.
Qed.

Lemma run_slots ops : forall s H lo, Inv s H -> Slots s H -> Forall (fun h => h <= lo) H ->
  nondecr lo (map op_time ops) ->
  Slots (fst (run s ops)) (fst (spec_run (length (arr s)) (tw s) H ops)) /\
  length (arr (fst (run s ops))) = length (arr s) /\
  (length (arr s) <= length (fst (spec_run (length (arr s)) (tw s) H ops)))%nat.
Proof.
  induction ops as [|o ops IH]; intros s H lo HI HS Hlo Hnd; cbn [run spec_run map nondecr] in *.
  - cbn [fst]. destruct HI as (_ & Hl & _). auto.
  - destruct Hnd as [Hle Hnd].
    pose proof (step_refines s H o HI (Forall_le_trans _ _ _ Hle Hlo)) as Hst.
    pose proof (step_slots s H o HI HS) as Hsl.
    destruct (step s o) as [s1 x] eqn:Es. destruct (spec_step _ _ H o) as [H1 y] eqn:Eh.
    cbn [fst] in Hsl.
    destruct Hst as (_ & HI1 & Ln & Tw & Hall1).
    specialize (IH s1 H1 (op_time o) HI1 Hsl Hall1 Hnd). rewrite Ln, Tw in IH.
    destruct (run s1 ops) as [s2 xs]. destruct (spec_run _ _ H1 ops) as [H2 ys].
    cbn [fst] in *. exact IH.
Qed.

(* For every n, t, init_forward, every non-decreasing timeline of any length (any number of
   laps): the ring keeps its n slots, the cursor is (number of recorded requests) mod n, and
   slot i holds the most recent recorded stamp whose position is congruent to i modulo n, which
   is always one of the last n recorded stamps. *)
Theorem fc_ring_after_laps u ts n f s ops :
  init_units u ts n f = Some s ->
  nondecr (- f * u) (map op_time ops) ->
  let s' := fst (run s ops) in
  let H := fst (spec_run n (ts * u) (repeat (- f * u) n) ops) in
  length (arr s') = n /\ (n <= length H)%nat /\
  cursor s' = ((length H - n) mod n)%nat /\
  forall i, (i < n)%nat ->
    nth i (arr s') 0 = nth (slot_src n (length H) i) H 0 /\
    (length H - n <= slot_src n (length H) i < length H)%nat.
Proof.
  intros Hi Hnd s' H.
  destruct (inv_init _ _ _ _ _ Hi) as (HI & Ln & Tw & Hn).
  assert (Hall : Forall (fun h => h <= - f * u) (repeat (- f * u) n)).
  { rewrite Forall_forall; intros x Hx. apply repeat_spec in Hx. lia. }
  assert (HS : Slots s (repeat (- f * u) n)).
  { unfold init_units in Hi. destruct (Nat.eqb n 0); [discriminate|].
    destruct (ts <=? 0); [discriminate|]. inversion Hi; subst s.
    apply (proj2 (slots_init (- f * u) n Hn)). }
  destruct (run_slots ops s _ (- f * u) HI HS Hall Hnd) as ((Hc & Hsl) & Ln' & Hlen).
  rewrite Ln, Tw in *. fold s' H in Hc, Hsl, Ln', Hlen.
  rewrite Ln' in Hc, Hsl.
  repeat split; try assumption.
  - rewrite Hc.
    replace (length H) with ((length H - n) + 1 * n)%nat at 1 by lia.
    apply Nat.mod_add. lia.
  - apply Hsl. assumption.
  - apply slot_src_range; assumption.
  - apply slot_src_range; assumption.
Qed.

(* non-vacuity: n = 3 lapped twice by 7 admitted requests (forced updates, uneven instants);
   cursor = 7 mod 3 = 1, slots hold requests no. 7, 5, 6 of the recorded sequence *)
Example c19_lap_nonvacuous :
  exists s, init 1 3 1 = Some s /\
    nondecr (- 1 * ns_per_sec) (map op_time (map OpCFU [0; 5; 7; 20; 21; 30; 44])) /\
    arr (fst (run s (map OpCFU [0; 5; 7; 20; 21; 30; 44]))) = [44; 21; 30] /\
    cursor (fst (run s (map OpCFU [0; 5; 7; 20; 21; 30; 44]))) = 1%nat /\
    slot_src 3 10 0 = 9%nat /\ slot_src 3 10 1 = 7%nat /\ slot_src 3 10 2 = 8%nat.
Proof.
  eexists; split; [reflexivity|]. split; [simpl; unfold ns_per_sec; lia|]. vm_compute. auto.
Qed.
