(* C19 — flow controller: executable model transcribing
   muggle/c/time/flow_controller.c and fast_flow_controller.c.
   State = the struct's fields (arr, cursor, t); n = length arr.
   int64 wrap is NOT modelled: theorems assume magnitudes far below 2^63
   (DESIGN.md Appendix B). *)
From Coq Require Export List ZArith Lia Bool.
Export ListNotations.
Local Open Scope Z_scope.

Record fc := { arr : list Z; cursor : nat; tw : Z }.

Fixpoint upd_nth (i : nat) (x : Z) (l : list Z) : list Z :=
  match l, i with
  | [], _ => []
  | _ :: r, O => x :: r
  | a :: r, S j => a :: upd_nth j x r
  end.

(* muggle_flow_ctl_init: unit = units per second (10^9 for the ns controller,
   (int64_t)tick_freq for the fast one). *)
Definition init_units (unit : Z) (t_sec : Z) (n : nat) (fwd_sec : Z) : option fc :=
  if Nat.eqb n 0 then None
  else if t_sec <=? 0 then None
  else Some {| arr := repeat (- fwd_sec * unit) n; cursor := 0; tw := t_sec * unit |}.

Definition ns_per_sec : Z := 1000000000.
Definition init (t_sec : Z) (n : nat) (fwd_sec : Z) := init_units ns_per_sec t_sec n fwd_sec.
Definition init_fast (tick_freq : Z) (t_sec : Z) (n : nat) (fwd_sec : Z) := init_units tick_freq t_sec n fwd_sec.

(* muggle_flow_ctl_check *)
Definition check (s : fc) (now : Z) : bool := (now - nth (cursor s) (arr s) 0 >=? tw s).

(* muggle_flow_ctl_update *)
Definition update (s : fc) (now : Z) : fc :=
  {| arr := upd_nth (cursor s) now (arr s);
     cursor := Nat.modulo (S (cursor s)) (length (arr s));
     tw := tw s |}.

(* muggle_flow_ctl_check_and_update / _check_and_force_update with the clock
   value passed in *)
Definition check_and_update (s : fc) (now : Z) : fc * bool :=
  if check s now then (update s now, true) else (s, false).
Definition check_and_force_update (s : fc) (now : Z) : fc * bool :=
  (update s now, check s now).

Inductive op := OpCheck (now : Z) | OpUpdate (now : Z) | OpCU (now : Z) | OpCFU (now : Z).

Definition step (s : fc) (o : op) : fc * option bool :=
  match o with
  | OpCheck now => (s, Some (check s now))
  | OpUpdate now => (update s now, None)
  | OpCU now => let (s', b) := check_and_update s now in (s', Some b)
  | OpCFU now => let (s', b) := check_and_force_update s now in (s', Some b)
  end.

Fixpoint run (s : fc) (ops : list op) : fc * list (option bool) :=
  match ops with
  | [] => (s, [])
  | o :: r => let (s1, x) := step s o in let (s2, xs) := run s1 r in (s2, x :: xs)
  end.
