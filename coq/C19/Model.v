(* C19 — flow controller: executable model transcribing
   muggle/c/time/flow_controller.c and fast_flow_controller.c.
   State = the struct's fields (arr, cursor, t); n = length arr.
   int64 wrap is NOT modelled: theorems assume magnitudes far below 2^63
   (DESIGN.md Appendix B). *)
From Coq Require Export List ZArith Lia Bool.
Export ListNotations.
Local Open Scope Z_scope.

Record fc := { arr : list Z; cursor : nat; tw : Z }.

Fixpoint upd_nth (i : nat) (x : Z) (l : list Z) : list Z :=
  match l, i with
  | [], _ => []
  | _ :: r, O => x :: r
  | a :: r, S j => a :: upd_nth j x r
  end.

(* muggle_flow_ctl_init: unit = units per second (10^9 for the ns controller,
   (int64_t)tick_freq for the fast one). *)
Definition init_units (unit : Z) (t_sec : Z) (n : nat) (fwd_sec : Z) : option fc :=
  if Nat.eqb n 0 then None
  else if t_sec <=? 0 then None
  else Some {| arr := repeat (- fwd_sec * unit) n; cursor := 0; tw := t_sec * unit |}.

Definition ns_per_sec : Z := 1000000000.
Definition init (t_sec : Z) (n : nat) (fwd_sec : Z) := init_units ns_per_sec t_sec n fwd_sec.
Definition init_fast (tick_freq : Z) (t_sec : Z) (n : nat) (fwd_sec : Z) := init_units tick_freq t_sec n fwd_sec.

(* muggle_flow_ctl_check *)
Definition check (s : fc) (now : Z) : bool := (now - nth (cursor s) (arr s) 0 >=? tw s).

(* muggle_flow_ctl_update *)
Definition update (s : fc) (now : Z) : fc :=
  {| arr := upd_nth (cursor s) now (arr s);
     cursor := Nat.modulo (S (cursor s)) (length (arr s));
     tw := tw s |}.

(* muggle_flow_ctl_check_and_update / _check_and_force_update with the clock
   value passed in *)
Definition check_and_update (s : fc) (now : Z) : fc * bool :=
  if check s now then (update s now, true) else (s, false).
Definition check_and_force_update (s : fc) (now : Z) : fc * bool :=
  (update s now, check s now).

Inductive op := OpCheck (now : Z) | OpUpdate (now : Z) | OpCU (now : Z) | OpCFU (now : Z).

Definition step (s : fc) (o : op) : fc * option bool :=
  match o with
  | OpCheck now => (s, Some (check s now))
  | OpUpdate now => (update s now, None)
  | OpCU now => let (s', b) := check_and_update s now in (s', Some b)
  | OpCFU now => let (s', b) := check_and_force_update s now in (s', Some b)
  end.

Fixpoint run (s : fc) (ops : list op) : fc * list (option bool) :=
  match ops with
  | [] => (s, [])
  | o :: r => let (s1, x) := step s o in let (s2, xs) := run s1 r in (s2, x :: xs)
  end.

(* ---------------------------------------------------------------------------
   Call level: the entry points that read the clock themselves
   (muggle_flow_ctl_check_and_update / _check_and_force_update / _get_curr_elapsed,
   muggle_time_counter_start / _end / _interval_ns of time_counter.c, non-Windows
   branch, and the fast_ equivalents over muggle_rdtscp).

   The clock is a scenario clock: [c_next] is what the next read returns, every
   read advances it by [c_step].  A function that reads the clock k times
   leaves it k steps further, so the NUMBER of reads per call is part of the
   observable result. *)

Record clock := { c_next : Z; c_step : Z }.
Definition read_clock (k : clock) : Z * clock :=
  (c_next k, {| c_next := c_next k + c_step k; c_step := c_step k |}).

(* struct timespec as clock_gettime delivers it for an absolute time in ns *)
Record timespec := { tv_sec : Z; tv_nsec : Z }.
Definition ts_of (abs_ns : Z) : timespec :=
  {| tv_sec := abs_ns / 1000000000; tv_nsec := abs_ns mod 1000000000 |}.

(* muggle_time_counter_interval_ns *)
Definition interval_ns (st en : timespec) : Z :=
  (tv_sec en - tv_sec st) * 1000000000 + tv_nsec en - tv_nsec st.

(* muggle_flow_controller_t = ring + its time counter's start stamp (end_ts is a scratch value,
   rewritten by every get_curr_elapsed before it is used) *)
Record nsctl := { ns_fc : fc; ns_start : timespec }.

(* muggle_flow_ctl_init: the arguments are rejected before the clock is touched;
   muggle_time_counter_start reads it once *)
Definition ns_init (k : clock) (t_sec : Z) (n : nat) (fwd_sec : Z) : option nsctl * clock :=
  match init t_sec n fwd_sec with
  | None => (None, k)
  | Some s => let (a, k') := read_clock k in (Some {| ns_fc := s; ns_start := ts_of a |}, k')
  end.

(* muggle_flow_ctl_get_curr_elapsed: muggle_time_counter_end (one read) + interval_ns *)
Definition ns_curr_elapsed (c : nsctl) (k : clock) : Z * clock :=
  let (a, k') := read_clock k in (interval_ns (ns_start c) (ts_of a), k').

Definition ns_check_and_update (c : nsctl) (k : clock) : nsctl * bool * clock :=
  let (e, k') := ns_curr_elapsed c k in
  let (s', b) := check_and_update (ns_fc c) e in
  ({| ns_fc := s'; ns_start := ns_start c |}, b, k').

Definition ns_check_and_force_update (c : nsctl) (k : clock) : nsctl * bool * clock :=
  let (e, k') := ns_curr_elapsed c k in
  let (s', b) := check_and_force_update (ns_fc c) e in
  ({| ns_fc := s'; ns_start := ns_start c |}, b, k').

(* muggle_fast_flow_controller_t: ring over ticks + start_ticks.  tick_freq is a double in the C
   signature; (int64_t)tick_freq truncates it, [freq_int] is that integer part. *)
Record fastctl := { ff_fc : fc; ff_start : Z }.

Definition fast_init (k : clock) (freq_int : Z) (t_sec : Z) (n : nat) (fwd_sec : Z) : option fastctl * clock :=
  match init_fast freq_int t_sec n fwd_sec with
  | None => (None, k)
  | Some s => let (a, k') := read_clock k in (Some {| ff_fc := s; ff_start := a |}, k')
  end.

(* muggle_fast_flow_ctl_get_curr_elapsed: (int64_t)(muggle_rdtscp() - start_ticks) *)
Definition fast_curr_elapsed (c : fastctl) (k : clock) : Z * clock :=
  let (a, k') := read_clock k in (a - ff_start c, k').

Definition fast_check_and_update (c : fastctl) (k : clock) : fastctl * bool * clock :=
  let (e, k') := fast_curr_elapsed c k in
  let (s', b) := check_and_update (ff_fc c) e in
  ({| ff_fc := s'; ff_start := ff_start c |}, b, k').

Definition fast_check_and_force_update (c : fastctl) (k : clock) : fastctl * bool * clock :=
  let (e, k') := fast_curr_elapsed c k in
  let (s', b) := check_and_force_update (ff_fc c) e in
  ({| ff_fc := s'; ff_start := ff_start c |}, b, k').
