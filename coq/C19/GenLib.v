(* C19 — vocabulary of the call-level generated terms (lib/leafcalls.py); definitions only. *)
From Coq Require Import ZArith List Bool.
Local Open Scope Z_scope.

(* two's complement reinterpretation of an unsigned value as a signed one of width w *)
Definition wraps (w : Z) (x : Z) : Z := (x + 2 ^ (w - 1)) mod 2 ^ w - 2 ^ (w - 1).

(* x is representable in a signed integer of width w *)
Definition irange (w : Z) (x : Z) : bool := (- 2 ^ (w - 1) <=? x) && (x <? 2 ^ (w - 1)).

(* What the harness' clock delivers for a reading `a` of the scenario clock: the monotonic clock ids
   (CLOCK_MONOTONIC = 1, CLOCK_MONOTONIC_RAW = 4, CLOCK_BOOTTIME = 7) give the reading itself; any other id
   (CLOCK_REALTIME, ...) is a settable clock, which the harness lets run backwards. *)
Definition monotonic_id (id : Z) : bool := (id =? 1) || (id =? 4) || (id =? 7).
Definition clk_value (id a : Z) : Z := if monotonic_id id then a else 1700000000000000000 - 1000 * a.

(* struct timespec that clock_gettime stores for the absolute time a (ns) *)
Definition ts_sec (a : Z) : Z := a / 1000000000.
Definition ts_nsec (a : Z) : Z := a mod 1000000000.
