(* C19 — proofs: the circular array is the last n recorded timestamps; the
   verdict equals the sliding-window specification for every timeline. *)
From MV Require Import C19.Model.
From Coq Require Import Sorted.
Local Open Scope Z_scope.

(* ---------- reference specification (no array, no cursor) ---------- *)

Definition in_win (t now h : Z) : bool := now - t <? h.
Definition room (n : nat) (t : Z) (H : list Z) (now : Z) : bool :=
  (length (filter (in_win t now) H) <? n)%nat.

Definition op_time (o : op) : Z :=
  match o with OpCheck x | OpUpdate x | OpCU x | OpCFU x => x end.

Definition spec_step (n : nat) (t : Z) (H : list Z) (o : op) : list Z * option bool :=
  match o with
  | OpCheck now => (H, Some (room n t H now))
  | OpUpdate now => (H ++ [now], None)
  | OpCU now => (if room n t H now then H ++ [now] else H, Some (room n t H now))
  | OpCFU now => (H ++ [now], Some (room n t H now))
  end.

Fixpoint spec_run (n : nat) (t : Z) (H : list Z) (ops : list op) : list Z * list (option bool) :=
  match ops with
  | [] => (H, [])
  | o :: r => let (H1, x) := spec_step n t H o in
              let (H2, xs) := spec_run n t H1 r in (H2, x :: xs)
  end.

Fixpoint nondecr (lo : Z) (l : list Z) : Prop :=
  match l with [] => True | x :: r => lo <= x /\ nondecr x r end.

(* ---------- list facts ---------- *)

Definition lastn {A} (n : nat) (l : list A) : list A := skipn (length l - n) l.
Definition rot (s : fc) : list Z := skipn (cursor s) (arr s) ++ firstn (cursor s) (arr s).
Definition wf (s : fc) : Prop := (cursor s < length (arr s))%nat.

Lemma upd_nth_length i x l : length (upd_nth i x l) = length l.
Proof. revert i; induction l as [|a l IH]; intros [|i]; simpl; auto. Qed.

Lemma upd_nth_app a x b now : upd_nth (length a) now (a ++ x :: b) = a ++ now :: b.
Proof. induction a as [|y a IH]; simpl; [reflexivity|now rewrite IH]. Qed.

Lemma split_at (l : list Z) c : (c < length l)%nat ->
  exists a x b, l = a ++ x :: b /\ length a = c.
Proof.
  intros Hc. exists (firstn c l).
  destruct (skipn c l) as [|x b] eqn:E.
  - apply (f_equal (@length Z)) in E. rewrite skipn_length in E. simpl in E. lia.
  - exists x, b. split.
    + rewrite <- E. symmetry. apply firstn_skipn.
    + apply firstn_length_le. lia.
Qed.

Lemma skipn_app_exact {A} (a b : list A) : skipn (length a) (a ++ b) = b.
Proof. induction a; simpl; auto. Qed.
Lemma firstn_app_exact {A} (a b : list A) : firstn (length a) (a ++ b) = a.
Proof. induction a; simpl; [destruct b; reflexivity|now f_equal]. Qed.

Lemma rot_split a x b : rot {| arr := a ++ x :: b; cursor := length a; tw := 0 |} = x :: b ++ a.
Proof. unfold rot; simpl. now rewrite skipn_app_exact, firstn_app_exact. Qed.

Lemma rot_update s now : wf s -> rot (update s now) = tl (rot s) ++ [now].
Proof.
  unfold wf; intros Hc. destruct (split_at _ _ Hc) as (a & x & b & E & La).
  unfold rot, update; simpl. rewrite E, <- La, upd_nth_app.
  rewrite skipn_app_exact, firstn_app_exact. simpl.
  rewrite !app_length; simpl.
  destruct b as [|y b].
  - simpl. replace (S (length a)) with (length a + 1)%nat by lia.
    rewrite Nat.mod_same by lia. simpl. now rewrite app_nil_r.
  - rewrite Nat.mod_small by (simpl; lia).
    replace (a ++ now :: y :: b) with ((a ++ [now]) ++ y :: b) by (now rewrite <- app_assoc).
    replace (S (length a)) with (length (a ++ [now])) by (rewrite app_length; simpl; lia).
    rewrite skipn_app_exact, firstn_app_exact. simpl. now rewrite <- app_assoc.
Qed.

Lemma wf_update s now : wf s -> wf (update s now).
Proof.
  unfold wf, update; simpl; intros. rewrite upd_nth_length.
  apply Nat.mod_upper_bound. lia.
Qed.

Lemma skipn_S_tl {A} k (l : list A) : skipn (S k) l = tl (skipn k l).
Proof.
  revert l; induction k as [|k IH]; intros [|a l]; try reflexivity.
  change (skipn (S (S k)) (a :: l)) with (skipn (S k) l).
  change (skipn (S k) (a :: l)) with (skipn k l). apply IH.
Qed.

Lemma lastn_snoc (n : nat) (H : list Z) x : (0 < n <= length H)%nat ->
  lastn n (H ++ [x]) = tl (lastn n H) ++ [x].
Proof.
  intros Hn. unfold lastn. rewrite app_length; simpl.
  replace (length H + 1 - n)%nat with (S (length H - n)) by lia.
  rewrite skipn_S_tl. rewrite skipn_app.
  replace (length H - n - length H)%nat with 0%nat by lia. simpl.
  destruct (skipn (length H - n) H) as [|y r] eqn:E.
  - apply (f_equal (@length Z)) in E. rewrite skipn_length in E. simpl in E. lia.
  - reflexivity.
Qed.

Lemma nth_hd_skipn (l : list Z) c d : nth c l d = hd d (skipn c l).
Proof. revert l; induction c as [|c IH]; intros [|a l]; simpl; auto. Qed.

Lemma hd_app_nonempty (a b : list Z) d : a <> [] -> hd d (a ++ b) = hd d a.
Proof. destruct a; simpl; congruence. Qed.

Lemma cursor_elem_is_rot_head s : wf s -> nth (cursor s) (arr s) 0 = hd 0 (rot s).
Proof.
  unfold wf, rot; intros Hc. rewrite nth_hd_skipn. symmetry. apply hd_app_nonempty.
  intro E. apply (f_equal (@length Z)) in E. rewrite skipn_length in E. simpl in E. lia.
Qed.

(* ---------- sorted histories and the window count ---------- *)

Lemma sorted_split (P S : list Z) x : StronglySorted Z.le (P ++ x :: S) ->
  Forall (fun p => p <= x) P /\ Forall (fun s => x <= s) S.
Proof.
  induction P as [|p P IH]; simpl; intros Hs.
  - inversion Hs; subst. split; [constructor|assumption].
  - inversion Hs as [|? ? Hs' Hall]; subst. destruct (IH Hs') as [H1 H2]. split; [|assumption].
    constructor; [|assumption]. rewrite Forall_forall in Hall. apply Hall. apply in_or_app. right. now left.
Qed.

Lemma sorted_snoc (H : list Z) x : StronglySorted Z.le H -> Forall (fun h => h <= x) H ->
  StronglySorted Z.le (H ++ [x]).
Proof.
  induction H as [|h H IH]; simpl; intros Hs Hall.
  - repeat constructor.
  - inversion Hs; subst. inversion Hall; subst. constructor; [auto|].
    apply Forall_app. split; [assumption|]. constructor; [assumption|constructor].
Qed.

Lemma filter_none (p : Z -> bool) l : Forall (fun x => p x = false) l -> filter p l = [].
Proof. induction 1 as [|x l Hx _ IH]; simpl; [reflexivity|now rewrite Hx]. Qed.
Lemma filter_all (p : Z -> bool) l : Forall (fun x => p x = true) l -> filter p l = l.
Proof. induction 1 as [|x l Hx _ IH]; simpl; [reflexivity|now rewrite Hx, IH]. Qed.
Lemma filter_length_le (p : Z -> bool) l : (length (filter p l) <= length l)%nat.
Proof. induction l as [|x l IH]; simpl; [lia|destruct (p x); simpl; lia]. Qed.

Lemma window_count (n : nat) (t now : Z) (H : list Z) :
  StronglySorted Z.le H -> (0 < n <= length H)%nat ->
  (now - hd 0 (lastn n H) >=? t) = room n t H now.
Proof.
  intros Hs Hn. unfold room, lastn.
  assert (HL : (length H - n < length H)%nat) by lia.
  destruct (split_at H _ HL) as (P & x & S & E & LP).
  assert (LS : length S = (n - 1)%nat).
  { apply (f_equal (@length Z)) in E. rewrite app_length in E. simpl in E. lia. }
  subst H. destruct (sorted_split _ _ _ Hs) as [HP HS].
  rewrite <- LP, skipn_app_exact. simpl.
  rewrite filter_app. simpl. unfold in_win at 2.
  destruct (now - t <? x) eqn:Hx.
  - (* x inside the window: x and everything after it are inside *)
    rewrite (filter_all _ S).
    2:{ rewrite Forall_forall in *. intros s Hin. unfold in_win. specialize (HS s Hin). lia. }
    rewrite app_length; simpl. rewrite LS.
    transitivity false; [lia|]. symmetry. apply Nat.ltb_ge. lia.
  - rewrite (filter_none _ P).
    2:{ rewrite Forall_forall in *. intros p Hin. unfold in_win. specialize (HP p Hin). lia. }
    simpl. pose proof (filter_length_le (in_win t now) S).
    transitivity true; [lia|]. symmetry. apply Nat.ltb_lt. lia.
Qed.

(* ---------- the representation invariant ---------- *)

Definition Inv (s : fc) (H : list Z) : Prop :=
  wf s /\ (length (arr s) <= length H)%nat /\
  rot s = lastn (length (arr s)) H /\ StronglySorted Z.le H.

Lemma sorted_repeat (v : Z) n : StronglySorted Z.le (repeat v n).
Proof.
  induction n; simpl; constructor; auto.
  rewrite Forall_forall; intros x Hx. apply repeat_spec in Hx. lia.
Qed.

Lemma inv_init u ts n f s : init_units u ts n f = Some s ->
  Inv s (repeat (- f * u) n) /\ length (arr s) = n /\ tw s = ts * u /\ (0 < n)%nat.
Proof.
  unfold init_units. destruct (Nat.eqb_spec n 0); [discriminate|].
  destruct (ts <=? 0); [discriminate|]. intros E; inversion E; subst; clear E; simpl.
  rewrite repeat_length. repeat split; try lia.
  - unfold wf; simpl. rewrite repeat_length. lia.
  - simpl. rewrite repeat_length. lia.
  - unfold rot, lastn; simpl. rewrite repeat_length, Nat.sub_diag. simpl. apply app_nil_r.
  - apply sorted_repeat.
Qed.

Lemma inv_update s H now : Inv s H -> Forall (fun h => h <= now) H ->
  Inv (update s now) (H ++ [now]).
Proof.
  intros (Hw & Hl & Hr & Hs) Hall. unfold Inv.
  assert (Ln : length (arr (update s now)) = length (arr s)) by (simpl; apply upd_nth_length).
  rewrite Ln. repeat split.
  - now apply wf_update.
  - rewrite app_length; simpl; lia.
  - rewrite rot_update by assumption. rewrite Hr. symmetry. apply lastn_snoc.
    unfold wf in Hw. lia.
  - now apply sorted_snoc.
Qed.

Lemma check_spec s H now : Inv s H -> check s now = room (length (arr s)) (tw s) H now.
Proof.
  intros (Hw & Hl & Hr & Hs). unfold check.
  rewrite cursor_elem_is_rot_head by assumption. rewrite Hr.
  apply window_count; [assumption|]. unfold wf in Hw. lia.
Qed.

(* ---------- refinement over whole operation sequences ---------- *)

Lemma step_refines s H o : Inv s H -> Forall (fun h => h <= op_time o) H ->
  let (s', x) := step s o in let (H', y) := spec_step (length (arr s)) (tw s) H o in
  x = y /\ Inv s' H' /\ length (arr s') = length (arr s) /\ tw s' = tw s /\
  Forall (fun h => h <= op_time o) H'.
Proof.
  intros HI Hall.
  assert (Hsn : Forall (fun h => h <= op_time o) (H ++ [op_time o])).
  { apply Forall_app; split; [assumption|]. constructor; [lia|constructor]. }
  destruct o as [now|now|now|now]; simpl in *.
  - rewrite (check_spec _ _ _ HI). auto.
  - split; [reflexivity|]. split; [now apply inv_update|]. rewrite upd_nth_length. auto.
  - unfold check_and_update. rewrite (check_spec _ _ _ HI).
    destruct (room _ _ H now); simpl.
    + split; [reflexivity|]. split; [now apply inv_update|]. rewrite upd_nth_length. auto.
    + auto.
  - rewrite (check_spec _ _ _ HI). split; [reflexivity|].
    split; [now apply inv_update|]. rewrite upd_nth_length. auto.
Qed.

Lemma Forall_le_trans (H : list Z) a b : a <= b -> Forall (fun h => h <= a) H -> Forall (fun h => h <= b) H.
Proof. intros Hab. apply Forall_impl. intros; lia. Qed.

Lemma run_refines ops : forall s H lo, Inv s H -> Forall (fun h => h <= lo) H ->
  nondecr lo (map op_time ops) ->
  snd (run s ops) = snd (spec_run (length (arr s)) (tw s) H ops) /\
  Inv (fst (run s ops)) (fst (spec_run (length (arr s)) (tw s) H ops)).
Proof.
  induction ops as [|o ops IH]; intros s H lo HI Hlo Hnd; cbn [run spec_run map nondecr] in *.
  - simpl. auto.
  - destruct Hnd as [Hle Hnd].
    pose proof (step_refines s H o HI (Forall_le_trans _ _ _ Hle Hlo)) as Hst.
    destruct (step s o) as [s1 x] eqn:Es. destruct (spec_step _ _ H o) as [H1 y] eqn:Eh.
    destruct Hst as (Exy & HI1 & Ln & Tw & Hall1).
    specialize (IH s1 H1 (op_time o) HI1 Hall1 Hnd). rewrite Ln, Tw in IH.
    destruct (run s1 ops) as [s2 xs]. destruct (spec_run _ _ H1 ops) as [H2 ys].
    simpl in *. destruct IH as [IH1 IH2]. subst. auto.
Qed.

Theorem fc_refines_window_spec u ts n f s ops :
  init_units u ts n f = Some s ->
  nondecr (- f * u) (map op_time ops) ->
  snd (run s ops) = snd (spec_run n (ts * u) (repeat (- f * u) n) ops).
Proof.
  intros Hi Hnd. destruct (inv_init _ _ _ _ _ Hi) as (HI & Ln & Tw & Hn).
  assert (Hall : Forall (fun h => h <= - f * u) (repeat (- f * u) n)).
  { rewrite Forall_forall; intros x Hx. apply repeat_spec in Hx. lia. }
  destruct (run_refines ops s _ (- f * u) HI Hall Hnd) as [R _]. rewrite Ln, Tw in R. exact R.
Qed.

(* ---------- window bound (no half-open interval of length t holds more than n) ---------- *)

Definition in_itv (x t a : Z) : bool := (x <? a) && (a <=? x + t).
Definition bounded (n : nat) (t : Z) (H : list Z) : Prop :=
  forall x, (length (filter (in_itv x t) H) <= n)%nat.

Lemma filter_length_mono (p q : Z -> bool) l :
  (forall a, In a l -> p a = true -> q a = true) ->
  (length (filter p l) <= length (filter q l))%nat.
Proof.
  induction l as [|a l IH]; intros Hpq; simpl; [lia|].
  assert (IH' := IH (fun b Hb => Hpq b (or_intror Hb))).
  destruct (p a) eqn:Ep.
  - rewrite (Hpq a (or_introl eq_refl) Ep). simpl. lia.
  - destruct (q a); simpl; lia.
Qed.

Lemma bounded_admit n t H now : 0 <= t -> bounded n t H -> Forall (fun h => h <= now) H ->
  room n t H now = true -> bounded n t (H ++ [now]).
Proof.
  intros Ht Hb Hall Hr x. rewrite filter_app, app_length. simpl.
  destruct (in_itv x t now) eqn:Ein; simpl; [|specialize (Hb x); lia].
  unfold room in Hr. apply Nat.ltb_lt in Hr.
  assert ((length (filter (in_itv x t) H) <= length (filter (in_win t now) H))%nat).
  { apply filter_length_mono. intros a Ha. unfold in_itv, in_win in *. lia. }
  lia.
Qed.

Definition admitting_op (o : op) : bool :=
  match o with OpCheck _ | OpCU _ => true | _ => false end.

Lemma spec_bounded n t ops : 0 <= t -> forall H lo, bounded n t H -> Forall (fun h => h <= lo) H ->
  nondecr lo (map op_time ops) -> forallb admitting_op ops = true ->
  bounded n t (fst (spec_run n t H ops)).
Proof.
  intros Ht. induction ops as [|o ops IH]; intros H lo Hb Hlo Hnd Hadm; cbn [spec_run map nondecr forallb] in *.
  - assumption.
  - destruct Hnd as [Hle Hnd]. apply andb_prop in Hadm as [Ho Hadm].
    assert (Hall : Forall (fun h => h <= op_time o) H) by (eapply Forall_le_trans; eauto).
    destruct o as [now|now|now|now]; try discriminate; simpl in *.
    + specialize (IH H now Hb Hall Hnd Hadm). destruct (spec_run n t H ops). assumption.
    + destruct (room n t H now) eqn:Er.
      * assert (Hb' := bounded_admit n t H now Ht Hb Hall Er).
        assert (Hall' : Forall (fun h => h <= now) (H ++ [now])).
        { apply Forall_app; split; [assumption|]. constructor; [lia|constructor]. }
        specialize (IH _ now Hb' Hall' Hnd Hadm). destruct (spec_run n t (H ++ [now]) ops). assumption.
      * specialize (IH H now Hb Hall Hnd Hadm). destruct (spec_run n t H ops). assumption.
Qed.

Lemma bounded_repeat n t v : bounded n t (repeat v n).
Proof. intros x. etransitivity; [apply filter_length_le|]. rewrite repeat_length. lia. Qed.

Theorem fc_window_bound_spec n ts u f ops :
  0 <= ts * u -> nondecr (- f * u) (map op_time ops) -> forallb admitting_op ops = true ->
  bounded n (ts * u) (fst (spec_run n (ts * u) (repeat (- f * u) n) ops)).
Proof.
  intros Ht Hnd Hadm. apply (spec_bounded n (ts * u) ops Ht _ (- f * u)); auto.
  - apply bounded_repeat.
  - rewrite Forall_forall; intros x Hx. apply repeat_spec in Hx. lia.
Qed.

(* the admitted history of the implementation model is the spec's *)
Theorem fc_window_bound u ts n f s ops :
  init_units u ts n f = Some s -> 0 < u ->
  nondecr (- f * u) (map op_time ops) -> forallb admitting_op ops = true ->
  let H := fst (spec_run n (ts * u) (repeat (- f * u) n) ops) in
  Inv (fst (run s ops)) H /\ bounded n (ts * u) H.
Proof.
  intros Hi Hu Hnd Hadm H.
  destruct (inv_init _ _ _ _ _ Hi) as (HI & Ln & Tw & Hn).
  assert (Hts : 0 < ts).
  { unfold init_units in Hi. destruct (Nat.eqb n 0); [discriminate|].
    destruct (Z.leb_spec ts 0); [discriminate|lia]. }
  split.
  - subst H.
    assert (Hall : Forall (fun h => h <= - f * u) (repeat (- f * u) n)).
    { rewrite Forall_forall; intros x Hx. apply repeat_spec in Hx. lia. }
    destruct (run_refines ops s _ (- f * u) HI Hall Hnd) as [_ R]. rewrite Ln, Tw in R. exact R.
  - apply fc_window_bound_spec; auto. nia.
Qed.

(* ---------- forced update records every request ---------- *)

Fixpoint force_verdicts (n : nat) (t : Z) (H : list Z) (times : list Z) : list (option bool) :=
  match times with
  | [] => []
  | x :: r => Some (room n t H x) :: force_verdicts n t (H ++ [x]) r
  end.

Lemma spec_force n t times : forall H,
  snd (spec_run n t H (map OpCFU times)) = force_verdicts n t H times /\
  fst (spec_run n t H (map OpCFU times)) = H ++ times.
Proof.
  induction times as [|x r IH]; intros H; simpl.
  - now rewrite app_nil_r.
  - destruct (IH (H ++ [x])) as [I1 I2]. destruct (spec_run n t (H ++ [x]) (map OpCFU r)).
    simpl in *. subst. split; [reflexivity|]. now rewrite <- app_assoc.
Qed.

Theorem fc_force_records_all u ts n f s times :
  init_units u ts n f = Some s -> nondecr (- f * u) times ->
  snd (run s (map OpCFU times)) = force_verdicts n (ts * u) (repeat (- f * u) n) times.
Proof.
  intros Hi Hnd. rewrite (fc_refines_window_spec u ts n f s); auto.
  - apply spec_force.
  - rewrite map_map. simpl. now rewrite map_id.
Qed.

(* ---------- tick-based controller agrees with the ns one on a scaled timeline ---------- *)

Definition scale_op (c : Z) (o : op) : op :=
  match o with
  | OpCheck x => OpCheck (c * x) | OpUpdate x => OpUpdate (c * x)
  | OpCU x => OpCU (c * x) | OpCFU x => OpCFU (c * x)
  end.

Definition scaled (c : Z) (s s' : fc) : Prop :=
  arr s' = map (Z.mul c) (arr s) /\ cursor s' = cursor s /\ tw s' = c * tw s.

Lemma upd_nth_map c i x l : upd_nth i (c * x) (map (Z.mul c) l) = map (Z.mul c) (upd_nth i x l).
Proof. revert i; induction l as [|a l IH]; intros [|i]; simpl; auto. now rewrite IH. Qed.

Lemma scaled_check c s s' now : 0 < c -> scaled c s s' -> check s' (c * now) = check s now.
Proof.
  intros Hc (Ha & Hcu & Ht). unfold check. rewrite Ha, Hcu, Ht.
  replace 0 with (c * 0) at 1 by lia. rewrite map_nth.
  set (x := nth (cursor s) (arr s) 0).
  destruct (Z.geb_spec (now - x) (tw s)); destruct (Z.geb_spec (c * now - c * x) (c * tw s)); auto; nia.
Qed.

Lemma scaled_update c s s' now : scaled c s s' -> scaled c (update s now) (update s' (c * now)).
Proof.
  intros (Ha & Hcu & Ht). unfold scaled, update; simpl.
  rewrite Ha, Hcu, Ht, upd_nth_map, map_length. auto.
Qed.

Lemma scaled_run c ops : 0 < c -> forall s s', scaled c s s' ->
  snd (run s' (map (scale_op c) ops)) = snd (run s ops).
Proof.
  intros Hc. induction ops as [|o ops IH]; intros s s' Hs; cbn [run map]; [reflexivity|].
  assert (Hch := fun now => scaled_check c s s' now Hc Hs).
  assert (Hup := fun now => scaled_update c s s' now Hs).
  destruct o as [now|now|now|now]; simpl.
  - rewrite Hch. specialize (IH s s' Hs).
    destruct (run s' _), (run s ops); simpl in *; now subst.
  - specialize (IH _ _ (Hup now)). destruct (run (update s' _) _), (run (update s now) ops); simpl in *; now subst.
  - unfold check_and_update. rewrite Hch. destruct (check s now).
    + specialize (IH _ _ (Hup now)). destruct (run (update s' _) _), (run (update s now) ops); simpl in *; now subst.
    + specialize (IH s s' Hs). destruct (run s' _), (run s ops); simpl in *; now subst.
  - unfold check_and_force_update. rewrite Hch.
    specialize (IH _ _ (Hup now)). destruct (run (update s' _) _), (run (update s now) ops); simpl in *; now subst.
Qed.

Lemma map_repeat' (g : Z -> Z) v n : map g (repeat v n) = repeat (g v) n.
Proof. induction n; simpl; [reflexivity|now f_equal]. Qed.

Theorem fc_fast_agrees c u ts n f s s' ops :
  0 < c -> init_units u ts n f = Some s -> init_units (c * u) ts n f = Some s' ->
  snd (run s' (map (scale_op c) ops)) = snd (run s ops).
Proof.
  intros Hc H1 H2. apply scaled_run; [assumption|].
  unfold init_units in *. destruct (Nat.eqb n 0); [discriminate|]. destruct (ts <=? 0); [discriminate|].
  inversion H1; inversion H2; subst; clear H1 H2. unfold scaled; simpl.
  rewrite map_repeat'. repeat split; [f_equal; lia | lia].
Qed.

(* ---------- non-vacuity: a concrete controller meets the hypotheses ---------- *)

Example c19_nonvacuous :
  exists s, init 1 3 1 = Some s /\
    nondecr (- 1 * ns_per_sec) (map op_time [OpCU 0; OpCU 5; OpCU 999999999; OpCU 1000000000; OpCFU 1000000001]) /\
    snd (run s [OpCU 0; OpCU 5; OpCU 999999999; OpCU 1000000000; OpCFU 1000000001])
      = [Some true; Some true; Some true; Some true; Some false].
Proof. eexists; split; [reflexivity|]. split; [simpl; unfold ns_per_sec; lia|]. vm_compute. reflexivity. Qed.
