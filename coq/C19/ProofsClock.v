(* C19 — call level: the entry points that read the clock themselves.  The time counter's
   interval over two clock readings is their difference whatever the nanosecond parts are
   (borrow included); every check_and_update / check_and_force_update call reads the clock
   exactly once and behaves as the explicit-timestamp operation at (reading - start). *)
From MV Require Import C19.Model C19.Proofs.
Local Open Scope Z_scope.

Lemma interval_ts_of a b : interval_ns (ts_of a) (ts_of b) = b - a.
Proof.
  unfold interval_ns, ts_of; cbn [tv_sec tv_nsec].
  pose proof (Z.div_mod a 1000000000 ltac:(lia)).
  pose proof (Z.div_mod b 1000000000 ltac:(lia)). lia.
Qed.

(* clock_gettime delivers a normalised timespec *)
Lemma ts_of_normalised a : 0 <= tv_nsec (ts_of a) < 1000000000 /\
  tv_sec (ts_of a) * 1000000000 + tv_nsec (ts_of a) = a.
Proof.
  unfold ts_of; cbn [tv_sec tv_nsec].
  pose proof (Z.div_mod a 1000000000 ltac:(lia)).
  pose proof (Z.mod_pos_bound a 1000000000 ltac:(lia)). lia.
Qed.

(* one call = one clock read; calls of the ns controller created at clock reading [base] *)
Inductive call := CallCU (now stp : Z) | CallCFU (now stp : Z).
Definition call_op (x : call) : op :=
  match x with CallCU now _ => OpCU now | CallCFU now _ => OpCFU now end.
Definition call_clock_after (x : call) : Z :=
  match x with CallCU now st | CallCFU now st => now + st end.

(* the driver's protocol: before the call the clock is set to base + now with the given step;
   the result is the verdict and the clock reading (relative to base) that the NEXT read would get *)
Definition ns_call (base : Z) (c : nsctl) (x : call) : nsctl * (bool * Z) :=
  match x with
  | CallCU now st =>
      let '(c', b, k') := ns_check_and_update c {| c_next := base + now; c_step := st |} in (c', (b, c_next k' - base))
  | CallCFU now st =>
      let '(c', b, k') := ns_check_and_force_update c {| c_next := base + now; c_step := st |} in (c', (b, c_next k' - base))
  end.
Fixpoint ns_calls (base : Z) (c : nsctl) (xs : list call) : list (bool * Z) :=
  match xs with
  | [] => []
  | x :: r => let (c', y) := ns_call base c x in y :: ns_calls base c' r
  end.

Definition fast_call (base : Z) (c : fastctl) (x : call) : fastctl * (bool * Z) :=
  match x with
  | CallCU now st =>
      let '(c', b, k') := fast_check_and_update c {| c_next := base + now; c_step := st |} in (c', (b, c_next k' - base))
  | CallCFU now st =>
      let '(c', b, k') := fast_check_and_force_update c {| c_next := base + now; c_step := st |} in (c', (b, c_next k' - base))
  end.
Fixpoint fast_calls (base : Z) (c : fastctl) (xs : list call) : list (bool * Z) :=
  match xs with
  | [] => []
  | x :: r => let (c', y) := fast_call base c x in y :: fast_calls base c' r
  end.

(* what the explicit-timestamp model says for the same requests *)
Fixpoint verdicts_of (l : list (option bool)) : list bool :=
  match l with [] => [] | Some b :: r => b :: verdicts_of r | None :: r => verdicts_of r end.

Lemma ns_call_spec base c x : ns_start c = ts_of base ->
  let (s', r) := step (ns_fc c) (call_op x) in
  ns_call base c x = ({| ns_fc := s'; ns_start := ns_start c |},
                      (match r with Some b => b | None => false end, call_clock_after x)).
Proof.
  intros Hs. destruct x as [now st|now st]; cbn [call_op step ns_call call_clock_after];
    unfold ns_check_and_update, ns_check_and_force_update, ns_curr_elapsed, read_clock; cbn [c_next c_step];
    rewrite Hs, interval_ts_of; replace (base + now - base) with now by lia.
  - destruct (check_and_update (ns_fc c) now) as [s' b]. cbn [c_next]. do 2 f_equal. lia.
  - unfold check_and_force_update. cbn [c_next]. do 2 f_equal. lia.
Qed.

Lemma fast_call_spec base c x : ff_start c = base ->
  let (s', r) := step (ff_fc c) (call_op x) in
  fast_call base c x = ({| ff_fc := s'; ff_start := ff_start c |},
                        (match r with Some b => b | None => false end, call_clock_after x)).
Proof.
  intros Hs. destruct x as [now st|now st]; cbn [call_op step fast_call call_clock_after];
    unfold fast_check_and_update, fast_check_and_force_update, fast_curr_elapsed, read_clock; cbn [c_next c_step];
    rewrite Hs; replace (base + now - base) with now by lia.
  - destruct (check_and_update (ff_fc c) now) as [s' b]. cbn [c_next]. do 2 f_equal. lia.
  - unfold check_and_force_update. cbn [c_next]. do 2 f_equal. lia.
Qed.

Lemma ns_calls_spec base xs : forall c, ns_start c = ts_of base ->
  ns_calls base c xs = combine (verdicts_of (snd (run (ns_fc c) (map call_op xs)))) (map call_clock_after xs).
Proof.
  induction xs as [|x xs IH]; intros c Hs; cbn [ns_calls map run]; [reflexivity|].
  pose proof (ns_call_spec base c x Hs) as H1.
  destruct (step (ns_fc c) (call_op x)) as [s' r] eqn:Es. rewrite H1.
  specialize (IH {| ns_fc := s'; ns_start := ns_start c |} Hs). cbn [ns_fc] in IH. rewrite IH.
  destruct (run s' (map call_op xs)) as [s2 rs]. cbn [snd].
  destruct x as [now st|now st]; cbn [call_op step] in Es;
    [destruct (check_and_update _ _) in Es|destruct (check_and_force_update _ _) in Es];
    inversion Es; subst; reflexivity.
Qed.

Lemma fast_calls_spec base xs : forall c, ff_start c = base ->
  fast_calls base c xs = combine (verdicts_of (snd (run (ff_fc c) (map call_op xs)))) (map call_clock_after xs).
Proof.
  induction xs as [|x xs IH]; intros c Hs; cbn [fast_calls map run]; [reflexivity|].
  pose proof (fast_call_spec base c x Hs) as H1.
  destruct (step (ff_fc c) (call_op x)) as [s' r] eqn:Es. rewrite H1.
  specialize (IH {| ff_fc := s'; ff_start := ff_start c |} Hs). cbn [ff_fc] in IH. rewrite IH.
  destruct (run s' (map call_op xs)) as [s2 rs]. cbn [snd].
  destruct x as [now st|now st]; cbn [call_op step] in Es;
    [destruct (check_and_update _ _) in Es|destruct (check_and_force_update _ _) in Es];
    inversion Es; subst; reflexivity.
Qed.

(* ns controller created when the clock reads [base] (any nanosecond part), then any sequence of
   clock-reading calls: init reads the clock once, every call reads it once (the clock is left
   exactly one step further), and the verdicts are those of the explicit-timestamp operations at
   (reading - base), i.e. (by fc_refines_window_spec) those of the sliding-window specification. *)
Theorem ns_calls_read_clock_once base st0 ts n f c k' xs :
  ns_init {| c_next := base; c_step := st0 |} ts n f = (Some c, k') ->
  c_next k' = base + st0 /\
  exists s, init ts n f = Some s /\ ns_fc c = s /\
    ns_calls base c xs = combine (verdicts_of (snd (run s (map call_op xs)))) (map call_clock_after xs).
Proof.
  unfold ns_init. destruct (init ts n f) as [s|] eqn:Ei; [|discriminate].
  unfold read_clock; cbn [c_next c_step]. intros E; inversion E; subst; clear E. cbn [c_next].
  split; [reflexivity|]. exists s. repeat split. apply ns_calls_spec. reflexivity.
Qed.

Theorem fast_calls_read_clock_once base st0 fq ts n f c k' xs :
  fast_init {| c_next := base; c_step := st0 |} fq ts n f = (Some c, k') ->
  c_next k' = base + st0 /\
  exists s, init_fast fq ts n f = Some s /\ ff_fc c = s /\
    fast_calls base c xs = combine (verdicts_of (snd (run s (map call_op xs)))) (map call_clock_after xs).
Proof.
  unfold fast_init. destruct (init_fast fq ts n f) as [s|] eqn:Ei; [|discriminate].
  unfold read_clock; cbn [c_next c_step]. intros E; inversion E; subst; clear E. cbn [c_next].
  split; [reflexivity|]. exists s. repeat split. apply fast_calls_spec. reflexivity.
Qed.

(* a rejected init does not touch the clock *)
Lemma ns_init_rejected k ts n f : init ts n f = None -> ns_init k ts n f = (None, k).
Proof. unfold ns_init. now intros ->. Qed.

(* non-vacuity: start stamp with nanosecond part 999999999 (the later readings have a smaller
   nanosecond part: borrow), advancing clock *)
Example c19_clock_nonvacuous :
  exists c k', ns_init {| c_next := 7999999999; c_step := 5 |} 1 2 1 = (Some c, k') /\
    ns_start c = {| tv_sec := 7; tv_nsec := 999999999 |} /\
    ns_calls 7999999999 c [CallCU 1 10; CallCFU 2 3; CallCU 999999999 1; CallCU 1000000001 7]
      = [(true, 11); (true, 5); (false, 1000000000); (true, 1000000008)].
Proof. eexists; eexists. split; [reflexivity|]. split; vm_compute; reflexivity. Qed.
