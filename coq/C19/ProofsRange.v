(* C19 — magnitudes: with |init_forward * unit| and every request time below 2^62, every stamp ever held by
   the ring is below 2^62 in magnitude, for any operation sequence (this is the state invariant under which
   the generated functions' intermediates stay inside int64, see ProofsGenCall.v). *)
From MV Require Import C19.Model C19.Proofs.
Local Open Scope Z_scope.

Definition B62 (x : Z) : Prop := - 2 ^ 62 < x < 2 ^ 62.
Definition stamps_bounded (s : fc) : Prop := Forall B62 (arr s).

Lemma upd_nth_Forall (P : Z -> Prop) i x l : P x -> Forall P l -> Forall P (upd_nth i x l).
Proof.
  intros Hx. revert i. induction l as [|a l IH]; intros i Hl; simpl; [destruct i; constructor|].
  inversion Hl; subst. destruct i; constructor; auto.
Qed.

Lemma nth_bounded s c : stamps_bounded s -> B62 (nth c (arr s) 0).
Proof.
  unfold stamps_bounded. intros H. destruct (Nat.lt_ge_cases c (length (arr s))) as [Hc|Hc].
  - rewrite Forall_forall in H. apply H. now apply nth_In.
  - rewrite nth_overflow by assumption. unfold B62. lia.
Qed.

Lemma update_bounded s now : B62 now -> stamps_bounded s -> stamps_bounded (update s now).
Proof. unfold stamps_bounded, update; simpl. apply upd_nth_Forall. Qed.

Lemma step_bounded s o : B62 (op_time o) -> stamps_bounded s -> stamps_bounded (fst (step s o)).
Proof.
  intros Ho Hs. destruct o as [now|now|now|now]; simpl in *; auto using update_bounded.
  - unfold check_and_update. destruct (check s now); simpl; auto using update_bounded.
Qed.

Lemma run_bounded ops : forall s, Forall B62 (map op_time ops) -> stamps_bounded s ->
  stamps_bounded (fst (run s ops)).
Proof.
  induction ops as [|o ops IH]; intros s Ht Hs; cbn [run map] in *; [assumption|].
  inversion Ht; subst.
  pose proof (step_bounded s o H1 Hs) as H3.
  destruct (step s o) as [s1 x]. cbn [fst] in H3.
  specialize (IH s1 H2 H3). destruct (run s1 ops). assumption.
Qed.

Theorem fc_stamps_stay_in_range u ts n f s ops :
  init_units u ts n f = Some s -> B62 (- f * u) -> Forall B62 (map op_time ops) ->
  stamps_bounded (fst (run s ops)) /\ tw (fst (run s ops)) = ts * u.
Proof.
  intros Hi Hf Ht. split.
  - apply run_bounded; [assumption|].
    unfold init_units in Hi. destruct (Nat.eqb n 0); [discriminate|]. destruct (ts <=? 0); [discriminate|].
    inversion Hi; subst. unfold stamps_bounded; simpl. rewrite Forall_forall. intros x Hx.
    apply repeat_spec in Hx. now subst.
  - assert (G : forall ops s, tw (fst (run s ops)) = tw s).
    { clear. induction ops as [|o ops IH]; intros s; cbn [run]; [reflexivity|].
      assert (E : tw (fst (step s o)) = tw s).
      { destruct o; simpl; try reflexivity. unfold check_and_update. destruct (check s now); reflexivity. }
      destruct (step s o) as [s1 x]. cbn [fst] in E. specialize (IH s1). destruct (run s1 ops). simpl in *. congruence. }
    rewrite G. unfold init_units in Hi. destruct (Nat.eqb n 0); [discriminate|]. destruct (ts <=? 0); [discriminate|].
    inversion Hi; subst. reflexivity.
Qed.

(* muggle_flow_ctl_init / muggle_fast_flow_ctl_init: the products formed there *)
Lemma init_products_in_int64 (ts f u : Z) : B62 (ts * u) -> B62 (f * u) ->
  - 2 ^ 63 <= ts * u < 2 ^ 63 /\ - 2 ^ 63 <= - f * u < 2 ^ 63.
Proof. unfold B62. intros. change (2 ^ 63) with (2 * 2 ^ 62). lia. Qed.

Example c19_range_nonvacuous :
  exists s, init 2147483647 2 2147483647 = Some s /\ B62 (- 2147483647 * ns_per_sec) /\
    Forall B62 (map op_time [OpCU 0; OpCFU 4611686018427387903]).
Proof.
  eexists. split; [reflexivity|]. unfold B62, ns_per_sec. split; [lia|].
  repeat constructor; simpl; lia.
Qed.
