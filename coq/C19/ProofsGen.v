(* C19 — the four leaf functions as re-translated from the C text on this run
   (gen/Params_C19.v) equal the model's check/update.  The proofs are deliberately
   independent of the SHAPE of the generated terms (guard clauses, ternaries, hoisted locals,
   compare-and-reset instead of %): everything is unfolded to integer arithmetic over the
   comparisons and decided by lia, so that a behaviour-preserving rewrite of the C text keeps
   these obligations while a semantic change breaks them. *)
From MV Require Import Lib.Leaf C19.Model C19.Proofs gen.Params_C19.
From Coq Require Import ZifyBool.
Local Open Scope Z_scope.
Ltac Zify.zify_post_hook ::= Z.to_euclidean_division_equations.

Lemma lset_nat_upd_nth l i v : lset_nat l i v = upd_nth i v l.
Proof. revert i; induction l as [|a l IH]; intros [|i]; simpl; auto. now rewrite IH. Qed.

Lemma lget_nat l (c : nat) : lget l (Z.of_nat c) = nth c l 0.
Proof. unfold lget. now rewrite Nat2Z.id. Qed.

Lemma lset_natZ l (c : nat) v : lset l (Z.of_nat c) v = upd_nth c v l.
Proof. unfold lset. now rewrite Nat2Z.id, lset_nat_upd_nth. Qed.

(* decide a goal made of integer arithmetic, comparisons, if-then-else and the Leaf helpers;
   every arithmetic call is time-limited so that a false goal (changed C text) fails instead of searching for ever *)
Ltac leaf_decide :=
  cbv zeta;
  unfold wrapu, crem, cdiv, b2z, z2b in *;
  change (2 ^ 32) with 4294967296 in *; change (2 ^ 64) with 18446744073709551616 in *;
  repeat match goal with
  | |- context [if ?c then _ else _] => destruct c eqn:?
  end;
  (* the result tuple may sit inside the branches of a conditional (cursor advanced by compare-and-reset)
     or at top level (cursor advanced by %): split it only now *)
  repeat match goal with
  | |- (_, _) = (_, _) => f_equal
  end;
  repeat (rewrite Z.mod_small by lia);
  repeat (rewrite Z.rem_mod_nonneg by lia);
  repeat (rewrite Z.mod_small by lia);
  first [ reflexivity | timeout 20 lia | timeout 40 nia ].

Lemma gen_check_eq s now : wf s ->
  gen_muggle_flow_ctl_check (arr s) (Z.of_nat (cursor s)) (tw s) now = check s now.
Proof.
  intros _. unfold gen_muggle_flow_ctl_check, check. rewrite ?lget_nat.
  generalize (nth (cursor s) (arr s) 0); intros x. leaf_decide.
Qed.

Lemma gen_fast_check_eq s now : wf s ->
  gen_muggle_fast_flow_ctl_check (arr s) (Z.of_nat (cursor s)) (tw s) now = check s now.
Proof.
  intros _. unfold gen_muggle_fast_flow_ctl_check, check. rewrite ?lget_nat.
  generalize (nth (cursor s) (arr s) 0); intros x. leaf_decide.
Qed.

(* the next cursor, whatever way the C text computes it *)
Ltac next_cursor_decide Hw Hn :=
  rewrite Nat2Z.inj_mod; unfold wf in Hw;
  generalize dependent (Z.of_nat (length (arr _)));
  leaf_decide.

Lemma gen_update_eq s now : wf s -> Z.of_nat (length (arr s)) < 2 ^ 32 ->
  gen_muggle_flow_ctl_update (arr s) (Z.of_nat (cursor s)) (Z.of_nat (length (arr s))) now
  = (arr (update s now), Z.of_nat (cursor (update s now))).
Proof.
  intros Hw Hn. unfold gen_muggle_flow_ctl_update, update. cbv zeta. simpl arr. simpl cursor.
  rewrite ?lset_natZ.
  rewrite Nat2Z.inj_mod. unfold wf in Hw.
  assert (Hc : 0 <= Z.of_nat (cursor s) < Z.of_nat (length (arr s))) by lia.
  replace (Z.of_nat (S (cursor s))) with (Z.of_nat (cursor s) + 1) by lia.
  (* the stored array is the model's, wherever it occurs in the generated term; from here on only the cursor
     arithmetic is left *)
  generalize (upd_nth (cursor s) now (arr s)); intros A.
  revert Hc Hn. generalize (Z.of_nat (cursor s)) (Z.of_nat (length (arr s))). intros c n Hc Hn.
  (* the model's next cursor in linear form, so that a compare-and-reset in the C text is decided by lia alone *)
  assert (Hx1 : c + 1 = n -> (c + 1) mod n = 0) by (intros ->; apply Z_mod_same_full).
  assert (Hx2 : c + 1 < n -> (c + 1) mod n = c + 1) by (intros; apply Z.mod_small; lia).
  leaf_decide.
Qed.

Lemma gen_fast_update_eq s now : wf s -> Z.of_nat (length (arr s)) < 2 ^ 32 ->
  gen_muggle_fast_flow_ctl_update (arr s) (Z.of_nat (cursor s)) (Z.of_nat (length (arr s))) now
  = (arr (update s now), Z.of_nat (cursor (update s now))).
Proof.
  intros Hw Hn. unfold gen_muggle_fast_flow_ctl_update, update. cbv zeta. simpl arr. simpl cursor.
  rewrite ?lset_natZ.
  rewrite Nat2Z.inj_mod. unfold wf in Hw.
  assert (Hc : 0 <= Z.of_nat (cursor s) < Z.of_nat (length (arr s))) by lia.
  replace (Z.of_nat (S (cursor s))) with (Z.of_nat (cursor s) + 1) by lia.
  (* the stored array is the model's, wherever it occurs in the generated term; from here on only the cursor
     arithmetic is left *)
  generalize (upd_nth (cursor s) now (arr s)); intros A.
  revert Hc Hn. generalize (Z.of_nat (cursor s)) (Z.of_nat (length (arr s))). intros c n Hc Hn.
  (* the model's next cursor in linear form, so that a compare-and-reset in the C text is decided by lia alone *)
  assert (Hx1 : c + 1 = n -> (c + 1) mod n = 0) by (intros ->; apply Z_mod_same_full).
  assert (Hx2 : c + 1 < n -> (c + 1) mod n = c + 1) by (intros; apply Z.mod_small; lia).
  leaf_decide.
Qed.
