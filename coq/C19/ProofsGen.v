(* C19 — the four leaf functions as re-translated from the C text on this run
   (gen/Params_C19.v) equal the model's check/update. *)
From MV Require Import Lib.Leaf C19.Model C19.Proofs gen.Params_C19.
Local Open Scope Z_scope.

Lemma lset_nat_upd_nth l i v : lset_nat l i v = upd_nth i v l.
Proof. revert i; induction l as [|a l IH]; intros [|i]; simpl; auto. now rewrite IH. Qed.

Lemma z2b_b2z b : z2b (b2z b) = b.
Proof. destruct b; reflexivity. Qed.

Lemma lget_nat l (c : nat) : lget l (Z.of_nat c) = nth c l 0.
Proof. unfold lget. now rewrite Nat2Z.id. Qed.

Lemma next_cursor (c n : nat) : (c < n)%nat -> Z.of_nat n < 2 ^ 32 ->
  crem (wrapu 32 (Z.of_nat c + wrapu 32 1)) (Z.of_nat n) = Z.of_nat (Nat.modulo (S c) n).
Proof.
  intros Hc Hn. unfold wrapu, crem.
  rewrite (Z.mod_small 1) by lia. rewrite Z.mod_small by lia.
  rewrite Z.rem_mod_nonneg by lia. rewrite Nat2Z.inj_mod. f_equal. lia.
Qed.

Lemma gen_check_eq s now : wf s ->
  gen_muggle_flow_ctl_check (arr s) (Z.of_nat (cursor s)) (tw s) now = check s now.
Proof. intros _. unfold gen_muggle_flow_ctl_check, check. cbv zeta. now rewrite z2b_b2z, lget_nat. Qed.

Lemma gen_update_eq s now : wf s -> Z.of_nat (length (arr s)) < 2 ^ 32 ->
  gen_muggle_flow_ctl_update (arr s) (Z.of_nat (cursor s)) (Z.of_nat (length (arr s))) now
  = (arr (update s now), Z.of_nat (cursor (update s now))).
Proof.
  intros Hw Hn. unfold gen_muggle_flow_ctl_update, update, lset. cbv zeta. simpl.
  rewrite Nat2Z.id, lset_nat_upd_nth, next_cursor by assumption. reflexivity.
Qed.

Lemma gen_fast_check_eq s now : wf s ->
  gen_muggle_fast_flow_ctl_check (arr s) (Z.of_nat (cursor s)) (tw s) now = check s now.
Proof. intros _. unfold gen_muggle_fast_flow_ctl_check, check. cbv zeta. now rewrite z2b_b2z, lget_nat. Qed.

Lemma gen_fast_update_eq s now : wf s -> Z.of_nat (length (arr s)) < 2 ^ 32 ->
  gen_muggle_fast_flow_ctl_update (arr s) (Z.of_nat (cursor s)) (Z.of_nat (length (arr s))) now
  = (arr (update s now), Z.of_nat (cursor (update s now))).
Proof.
  intros Hw Hn. unfold gen_muggle_fast_flow_ctl_update, update, lset. cbv zeta. simpl.
  rewrite Nat2Z.id, lset_nat_upd_nth, next_cursor by assumption. reflexivity.
Qed.
