(* C19 — the clock-reading entry points, get_curr_elapsed and the time counter, as re-translated from the C
   text on this run (gen/Params_C19.v, lib/leafcalls.py), equal the call-level model: same verdict, same ring,
   same time-counter fields, and exactly the readings the model consumes are consumed (one per call).  Second
   part: every signed arithmetic intermediate of the generated terms is inside int64 under the magnitude
   bounds (range-check lists *_chk).  As in ProofsGen.v the proofs do not depend on the SHAPE of the
   generated terms: unfold, split the conditionals, split the tuples, lia. *)
From MV Require Import Lib.Leaf C19.Model C19.Proofs C19.ProofsGen C19.ProofsClock C19.ProofsRange C19.GenLib gen.Params_C19.
From Coq Require Import ZifyBool.
Local Open Scope Z_scope.
Ltac Zify.zify_post_hook ::= Z.to_euclidean_division_equations.

Lemma clk_value_mono id a : monotonic_id id = true -> clk_value id a = a.
Proof. unfold clk_value. now intros ->. Qed.

Lemma wraps64_small x : 0 <= x < 2 ^ 63 -> wraps 64 (wrapu 64 x) = x.
Proof.
  intros H. unfold wraps, wrapu. change (64 - 1) with 63.
  change (2 ^ 64) with (2 * 2 ^ 63) in *. rewrite (Z.mod_small x) by lia. rewrite Z.mod_small by lia. lia.
Qed.

Lemma z2b_b2z b : z2b (b2z b) = b.
Proof. now destruct b. Qed.

(* decide an equation between tuples built from integer arithmetic, comparisons and conditionals; the model
   side may still contain its own conditional and destructuring lets, they are reduced as the conditionals go *)
Ltac call_decide :=
  cbv zeta;
  rewrite ?z2b_b2z;
  change (z2b 0) with false in *; change (z2b 1) with true in *;
  unfold wraps, wrapu, crem, cdiv, b2z, z2b in *;
  change (2 ^ 32) with 4294967296 in *; change (2 ^ 64) with 18446744073709551616 in *;
  change (2 ^ (64 - 1)) with 9223372036854775808 in *; change (2 ^ 63) with 9223372036854775808 in *;
  repeat (match goal with
          | |- context [if ?c then _ else _] => destruct c eqn:?
          end; cbv beta iota);
  cbn [ns_fc ns_start ff_fc ff_start arr cursor tw tv_sec tv_nsec fst snd];
  repeat match goal with
  | |- (_, _) = (_, _) => f_equal
  | |- upd_nth ?i _ ?l = upd_nth ?i _ ?l => f_equal
  end;
  rewrite ?Nat2Z.inj_mod, ?Nat2Z.inj_succ; unfold Z.succ;
  repeat (rewrite Z.mod_small by lia);
  repeat (rewrite Z.rem_mod_nonneg by lia);
  repeat (rewrite Z.mod_small by lia);
  first [ reflexivity | timeout 30 lia | timeout 60 nia ].

(* the ring accesses of the generated term become the model's, and the model's next cursor is given in
   linear form (so that `%` and compare-and-reset are both decided by lia) *)
Ltac ring_facts s Hw :=
  rewrite ?lget_nat, ?lset_natZ; unfold wf in Hw;
  assert (Z.of_nat (cursor s) + 1 = Z.of_nat (length (arr s)) ->
          (Z.of_nat (cursor s) + 1) mod Z.of_nat (length (arr s)) = 0) by (intros ->; apply Z_mod_same_full);
  assert (Z.of_nat (cursor s) + 1 < Z.of_nat (length (arr s)) ->
          (Z.of_nat (cursor s) + 1) mod Z.of_nat (length (arr s)) = Z.of_nat (cursor s) + 1)
    by (intros; apply Z.mod_small; lia).

(* ---------- time_counter.c ---------- *)

Lemma gen_tc_interval_eq st en :
  gen_muggle_time_counter_interval_ns (tv_sec st) (tv_nsec st) (tv_sec en) (tv_nsec en)
  = (interval_ns st en, tv_sec st, tv_nsec st, tv_sec en, tv_nsec en).
Proof. unfold gen_muggle_time_counter_interval_ns, interval_ns. call_decide. Qed.

Lemma gen_tc_start_eq ss sn es en a r :
  gen_muggle_time_counter_start ss sn es en (a :: r) = (tv_sec (ts_of a), tv_nsec (ts_of a), es, en, r).
Proof.
  unfold gen_muggle_time_counter_start, ts_of, ts_sec, ts_nsec. cbn [hd tl tv_sec tv_nsec].
  rewrite ?clk_value_mono by reflexivity. call_decide.
Qed.

Lemma gen_tc_end_eq ss sn es en a r :
  gen_muggle_time_counter_end ss sn es en (a :: r) = (ss, sn, tv_sec (ts_of a), tv_nsec (ts_of a), r).
Proof.
  unfold gen_muggle_time_counter_end, ts_of, ts_sec, ts_nsec. cbn [hd tl tv_sec tv_nsec].
  rewrite ?clk_value_mono by reflexivity. call_decide.
Qed.

(* ---------- flow_controller.c ---------- *)

(* result tuples of the generated terms: return value, the struct fields in the fixed order, remaining readings *)
Definition ns_tuple {R : Type} (ret : R) (c : nsctl) (n : Z) (e : timespec) (r : list Z) :=
  (ret, arr (ns_fc c), Z.of_nat (cursor (ns_fc c)), n, tw (ns_fc c),
   tv_sec (ns_start c), tv_nsec (ns_start c), tv_sec e, tv_nsec e, r).
Definition fast_tuple {R : Type} (ret : R) (c : fastctl) (n : Z) (r : list Z) :=
  (ret, arr (ff_fc c), Z.of_nat (cursor (ff_fc c)), n, tw (ff_fc c), ff_start c, r).

Lemma gen_ns_curr_elapsed_eq c es en a r stp :
  gen_muggle_flow_ctl_get_curr_elapsed (arr (ns_fc c)) (Z.of_nat (cursor (ns_fc c))) (Z.of_nat (length (arr (ns_fc c))))
    (tw (ns_fc c)) (tv_sec (ns_start c)) (tv_nsec (ns_start c)) es en (a :: r)
  = ns_tuple (fst (ns_curr_elapsed c {| c_next := a; c_step := stp |})) c (Z.of_nat (length (arr (ns_fc c)))) (ts_of a) r.
Proof.
  unfold gen_muggle_flow_ctl_get_curr_elapsed, ns_curr_elapsed, read_clock, ns_tuple, interval_ns, ts_of, ts_sec, ts_nsec.
  cbn [hd tl tv_sec tv_nsec c_next c_step fst]. rewrite ?clk_value_mono by reflexivity. call_decide.
Qed.

Lemma gen_ns_cu_eq c es en a r stp : wf (ns_fc c) -> Z.of_nat (length (arr (ns_fc c))) < 2 ^ 32 ->
  gen_muggle_flow_ctl_check_and_update (arr (ns_fc c)) (Z.of_nat (cursor (ns_fc c))) (Z.of_nat (length (arr (ns_fc c))))
    (tw (ns_fc c)) (tv_sec (ns_start c)) (tv_nsec (ns_start c)) es en (a :: r)
  = let '(c', b, _) := ns_check_and_update c {| c_next := a; c_step := stp |} in
    ns_tuple b c' (Z.of_nat (length (arr (ns_fc c)))) (ts_of a) r.
Proof.
  destruct c as [s [ss sn]]. cbn [ns_fc ns_start tv_sec tv_nsec]. intros Hw Hn.
  unfold gen_muggle_flow_ctl_check_and_update, ns_check_and_update, ns_curr_elapsed, read_clock, ns_tuple,
    check_and_update, check, update, interval_ns, ts_of, ts_sec, ts_nsec.
  cbn [hd tl tv_sec tv_nsec c_next c_step fst snd ns_fc ns_start arr cursor tw].
  rewrite ?clk_value_mono by reflexivity. cbv zeta.
  generalize (a / 1000000000) (a mod 1000000000); intros q m.
  ring_facts s Hw.
  call_decide.
Qed.

Lemma gen_ns_cfu_eq c es en a r stp : wf (ns_fc c) -> Z.of_nat (length (arr (ns_fc c))) < 2 ^ 32 ->
  gen_muggle_flow_ctl_check_and_force_update (arr (ns_fc c)) (Z.of_nat (cursor (ns_fc c))) (Z.of_nat (length (arr (ns_fc c))))
    (tw (ns_fc c)) (tv_sec (ns_start c)) (tv_nsec (ns_start c)) es en (a :: r)
  = let '(c', b, _) := ns_check_and_force_update c {| c_next := a; c_step := stp |} in
    ns_tuple b c' (Z.of_nat (length (arr (ns_fc c)))) (ts_of a) r.
Proof.
  destruct c as [s [ss sn]]. cbn [ns_fc ns_start tv_sec tv_nsec]. intros Hw Hn.
  unfold gen_muggle_flow_ctl_check_and_force_update, ns_check_and_force_update, ns_curr_elapsed, read_clock, ns_tuple,
    check_and_force_update, check, update, interval_ns, ts_of, ts_sec, ts_nsec.
  cbn [hd tl tv_sec tv_nsec c_next c_step fst snd ns_fc ns_start arr cursor tw].
  rewrite ?clk_value_mono by reflexivity. cbv zeta.
  generalize (a / 1000000000) (a mod 1000000000); intros q m.
  ring_facts s Hw.
  call_decide.
Qed.

(* ---------- fast_flow_controller.c ---------- *)

(* the tick counter is read as a uint64 and the elapsed ticks are (int64_t)(curr - start): exact when
   0 <= start <= reading < 2^64 and the difference is below 2^63 *)
Definition ticks_ok (c : fastctl) (a : Z) : Prop :=
  0 <= ff_start c <= a /\ a < 2 ^ 64 /\ a - ff_start c < 2 ^ 63.

Lemma gen_fast_curr_elapsed_eq c a r stp : ticks_ok c a ->
  gen_muggle_fast_flow_ctl_get_curr_elapsed (arr (ff_fc c)) (Z.of_nat (cursor (ff_fc c))) (Z.of_nat (length (arr (ff_fc c))))
    (tw (ff_fc c)) (ff_start c) (a :: r)
  = fast_tuple (fst (fast_curr_elapsed c {| c_next := a; c_step := stp |})) c (Z.of_nat (length (arr (ff_fc c)))) r.
Proof.
  unfold ticks_ok. intros Ht.
  unfold gen_muggle_fast_flow_ctl_get_curr_elapsed, fast_curr_elapsed, read_clock, fast_tuple.
  cbn [hd tl c_next c_step fst]. call_decide.
Qed.

Lemma gen_fast_cu_eq c a r stp : wf (ff_fc c) -> Z.of_nat (length (arr (ff_fc c))) < 2 ^ 32 -> ticks_ok c a ->
  gen_muggle_fast_flow_ctl_check_and_update (arr (ff_fc c)) (Z.of_nat (cursor (ff_fc c))) (Z.of_nat (length (arr (ff_fc c))))
    (tw (ff_fc c)) (ff_start c) (a :: r)
  = let '(c', b, _) := fast_check_and_update c {| c_next := a; c_step := stp |} in
    fast_tuple b c' (Z.of_nat (length (arr (ff_fc c)))) r.
Proof.
  destruct c as [s st]. unfold ticks_ok. cbn [ff_fc ff_start]. intros Hw Hn Ht.
  unfold gen_muggle_fast_flow_ctl_check_and_update, fast_check_and_update, fast_curr_elapsed, read_clock, fast_tuple,
    check_and_update, check, update.
  cbn [hd tl c_next c_step fst snd ff_fc ff_start arr cursor tw]. cbv zeta.
  ring_facts s Hw.
  call_decide.
Qed.

Lemma gen_fast_cfu_eq c a r stp : wf (ff_fc c) -> Z.of_nat (length (arr (ff_fc c))) < 2 ^ 32 -> ticks_ok c a ->
  gen_muggle_fast_flow_ctl_check_and_force_update (arr (ff_fc c)) (Z.of_nat (cursor (ff_fc c))) (Z.of_nat (length (arr (ff_fc c))))
    (tw (ff_fc c)) (ff_start c) (a :: r)
  = let '(c', b, _) := fast_check_and_force_update c {| c_next := a; c_step := stp |} in
    fast_tuple b c' (Z.of_nat (length (arr (ff_fc c)))) r.
Proof.
  destruct c as [s st]. unfold ticks_ok. cbn [ff_fc ff_start]. intros Hw Hn Ht.
  unfold gen_muggle_fast_flow_ctl_check_and_force_update, fast_check_and_force_update, fast_curr_elapsed, read_clock, fast_tuple,
    check_and_force_update, check, update.
  cbn [hd tl c_next c_step fst snd ff_fc ff_start arr cursor tw]. cbv zeta.
  ring_facts s Hw.
  call_decide.
Qed.

(* ---------- no signed overflow: every range check of the generated terms holds ---------- *)

Definition all_true (l : list bool) : Prop := Forall (fun b => b = true) l.

(* a normalised timespec of an absolute time below 2^62 ns *)
Definition ts_ok (t : timespec) : Prop :=
  0 <= tv_nsec t < 1000000000 /\ 0 <= tv_sec t * 1000000000 + tv_nsec t < 2 ^ 62.

Lemma ts_of_ok a : 0 <= a < 2 ^ 62 -> ts_ok (ts_of a).
Proof. intros H. destruct (ts_of_normalised a) as [H1 H2]. unfold ts_ok. rewrite H2. tauto. Qed.

Ltac chk_decide :=
  cbv zeta;
  unfold all_true, ts_ok, B62, ts_sec, ts_nsec in *;
  cbn [tv_sec tv_nsec] in *;
  unfold wraps, wrapu, crem, cdiv, b2z, z2b in *;
  change (2 ^ 32) with 4294967296 in *; change (2 ^ 64) with 18446744073709551616 in *;
  change (2 ^ 62) with 4611686018427387904 in *;
  repeat (match goal with
          | |- context [if ?c then _ else _] => destruct c eqn:?
          end; cbv beta iota);
  repeat match goal with
  | |- Forall _ (_ :: _) => constructor
  | |- Forall _ nil => constructor
  end;
  unfold irange; change (2 ^ (64 - 1)) with 9223372036854775808; change (2 ^ (32 - 1)) with 2147483648;
  first [ reflexivity | timeout 30 lia | timeout 60 nia ].

Lemma gen_tc_interval_chk st en : ts_ok st -> ts_ok en ->
  all_true (gen_muggle_time_counter_interval_ns_chk (tv_sec st) (tv_nsec st) (tv_sec en) (tv_nsec en)).
Proof.
  destruct st as [ss sn], en as [es en]. unfold ts_ok. cbn [tv_sec tv_nsec]. intros H1 H2.
  unfold gen_muggle_time_counter_interval_ns_chk. chk_decide.
Qed.

Lemma gen_tc_start_end_chk ss sn es en a r :
  all_true (gen_muggle_time_counter_start_chk ss sn es en (a :: r)) /\
  all_true (gen_muggle_time_counter_end_chk ss sn es en (a :: r)).
Proof.
  unfold gen_muggle_time_counter_start_chk, gen_muggle_time_counter_end_chk. split; chk_decide.
Qed.

Lemma ns_chk_prepare c a : ts_ok (ns_start c) -> 0 <= a < 2 ^ 62 -> stamps_bounded (ns_fc c) ->
  ts_ok (ns_start c) /\ ts_ok (ts_of a) /\ B62 (nth (cursor (ns_fc c)) (arr (ns_fc c)) 0).
Proof. intros H1 H2 H3. repeat split; try apply H1; try apply (ts_of_ok a H2). apply nth_bounded; assumption. apply nth_bounded; assumption. Qed.

Lemma gen_ns_calls_chk c es en a r : ts_ok (ns_start c) -> 0 <= a < 2 ^ 62 -> stamps_bounded (ns_fc c) ->
  all_true (gen_muggle_flow_ctl_get_curr_elapsed_chk (arr (ns_fc c)) (Z.of_nat (cursor (ns_fc c)))
              (Z.of_nat (length (arr (ns_fc c)))) (tw (ns_fc c)) (tv_sec (ns_start c)) (tv_nsec (ns_start c)) es en (a :: r)) /\
  all_true (gen_muggle_flow_ctl_check_and_update_chk (arr (ns_fc c)) (Z.of_nat (cursor (ns_fc c)))
              (Z.of_nat (length (arr (ns_fc c)))) (tw (ns_fc c)) (tv_sec (ns_start c)) (tv_nsec (ns_start c)) es en (a :: r)) /\
  all_true (gen_muggle_flow_ctl_check_and_force_update_chk (arr (ns_fc c)) (Z.of_nat (cursor (ns_fc c)))
              (Z.of_nat (length (arr (ns_fc c)))) (tw (ns_fc c)) (tv_sec (ns_start c)) (tv_nsec (ns_start c)) es en (a :: r)).
Proof.
  intros H1 H2 H3. destruct (ns_chk_prepare c a H1 H2 H3) as (K1 & K2 & K3).
  unfold ts_of in K2; cbn [tv_sec tv_nsec] in K2.
  destruct c as [s [ss sn]]. cbn [ns_fc ns_start tv_sec tv_nsec] in *.
  unfold gen_muggle_flow_ctl_get_curr_elapsed_chk, gen_muggle_flow_ctl_check_and_update_chk,
    gen_muggle_flow_ctl_check_and_force_update_chk.
  cbn [hd tl]. rewrite ?clk_value_mono by reflexivity. rewrite ?lget_nat. unfold ts_sec, ts_nsec.
  revert K2 K3. generalize (a / 1000000000) (a mod 1000000000) (nth (cursor s) (arr s) 0). intros q m x K2 K3.
  repeat split; chk_decide.
Qed.

(* the explicit-timestamp leaves: check forms elapsed - arr[cursor]; update has unsigned arithmetic only *)
Lemma gen_leaf_chk s ss sn es en now : B62 now -> stamps_bounded s ->
  all_true (genc_muggle_flow_ctl_check_chk (arr s) (Z.of_nat (cursor s)) (Z.of_nat (length (arr s))) (tw s) ss sn es en now) /\
  all_true (genc_muggle_flow_ctl_update_chk (arr s) (Z.of_nat (cursor s)) (Z.of_nat (length (arr s))) (tw s) ss sn es en now) /\
  (forall st, all_true (genc_muggle_fast_flow_ctl_check_chk (arr s) (Z.of_nat (cursor s)) (Z.of_nat (length (arr s))) (tw s) st now) /\
              all_true (genc_muggle_fast_flow_ctl_update_chk (arr s) (Z.of_nat (cursor s)) (Z.of_nat (length (arr s))) (tw s) st now)).
Proof.
  intros H1 H2. pose proof (nth_bounded s (cursor s) H2) as K.
  unfold genc_muggle_flow_ctl_check_chk, genc_muggle_flow_ctl_update_chk,
    genc_muggle_fast_flow_ctl_check_chk, genc_muggle_fast_flow_ctl_update_chk.
  rewrite ?lget_nat. revert K. generalize (nth (cursor s) (arr s) 0). intros x K.
  repeat split; chk_decide.
Qed.

Lemma gen_fast_calls_chk c a r : 0 <= ff_start c <= a -> a < 2 ^ 64 -> a - ff_start c < 2 ^ 62 -> stamps_bounded (ff_fc c) ->
  all_true (gen_muggle_fast_flow_ctl_get_curr_elapsed_chk (arr (ff_fc c)) (Z.of_nat (cursor (ff_fc c)))
              (Z.of_nat (length (arr (ff_fc c)))) (tw (ff_fc c)) (ff_start c) (a :: r)) /\
  all_true (gen_muggle_fast_flow_ctl_check_and_update_chk (arr (ff_fc c)) (Z.of_nat (cursor (ff_fc c)))
              (Z.of_nat (length (arr (ff_fc c)))) (tw (ff_fc c)) (ff_start c) (a :: r)) /\
  all_true (gen_muggle_fast_flow_ctl_check_and_force_update_chk (arr (ff_fc c)) (Z.of_nat (cursor (ff_fc c)))
              (Z.of_nat (length (arr (ff_fc c)))) (tw (ff_fc c)) (ff_start c) (a :: r)).
Proof.
  intros H1 H2 H3 H4. pose proof (nth_bounded (ff_fc c) (cursor (ff_fc c)) H4) as K.
  destruct c as [s st]. cbn [ff_fc ff_start] in *.
  unfold gen_muggle_fast_flow_ctl_get_curr_elapsed_chk, gen_muggle_fast_flow_ctl_check_and_update_chk,
    gen_muggle_fast_flow_ctl_check_and_force_update_chk.
  cbn [hd tl]. rewrite ?lget_nat. revert K. generalize (nth (cursor s) (arr s) 0). intros x K.
  repeat split; chk_decide.
Qed.

(* ---------- combined statements (registered in Properties_C19.v) ---------- *)

Lemma gen_time_counter_eq st en a r :
  gen_muggle_time_counter_interval_ns (tv_sec st) (tv_nsec st) (tv_sec en) (tv_nsec en)
    = (interval_ns st en, tv_sec st, tv_nsec st, tv_sec en, tv_nsec en) /\
  gen_muggle_time_counter_start (tv_sec st) (tv_nsec st) (tv_sec en) (tv_nsec en) (a :: r)
    = (tv_sec (ts_of a), tv_nsec (ts_of a), tv_sec en, tv_nsec en, r) /\
  gen_muggle_time_counter_end (tv_sec st) (tv_nsec st) (tv_sec en) (tv_nsec en) (a :: r)
    = (tv_sec st, tv_nsec st, tv_sec (ts_of a), tv_nsec (ts_of a), r).
Proof. split; [apply gen_tc_interval_eq|split; [apply gen_tc_start_eq|apply gen_tc_end_eq]]. Qed.

Lemma gen_ns_calls_eq c es en a r stp : wf (ns_fc c) -> Z.of_nat (length (arr (ns_fc c))) < 2 ^ 32 ->
  let n := Z.of_nat (length (arr (ns_fc c))) in
  let k := {| c_next := a; c_step := stp |} in
  gen_muggle_flow_ctl_get_curr_elapsed (arr (ns_fc c)) (Z.of_nat (cursor (ns_fc c))) n (tw (ns_fc c))
      (tv_sec (ns_start c)) (tv_nsec (ns_start c)) es en (a :: r)
    = ns_tuple (fst (ns_curr_elapsed c k)) c n (ts_of a) r /\
  gen_muggle_flow_ctl_check_and_update (arr (ns_fc c)) (Z.of_nat (cursor (ns_fc c))) n (tw (ns_fc c))
      (tv_sec (ns_start c)) (tv_nsec (ns_start c)) es en (a :: r)
    = (let '(c', b, _) := ns_check_and_update c k in ns_tuple b c' n (ts_of a) r) /\
  gen_muggle_flow_ctl_check_and_force_update (arr (ns_fc c)) (Z.of_nat (cursor (ns_fc c))) n (tw (ns_fc c))
      (tv_sec (ns_start c)) (tv_nsec (ns_start c)) es en (a :: r)
    = (let '(c', b, _) := ns_check_and_force_update c k in ns_tuple b c' n (ts_of a) r).
Proof.
  intros Hw Hn n k. split; [apply gen_ns_curr_elapsed_eq|split; [now apply gen_ns_cu_eq|now apply gen_ns_cfu_eq]].
Qed.

Lemma gen_fast_calls_eq c a r stp : wf (ff_fc c) -> Z.of_nat (length (arr (ff_fc c))) < 2 ^ 32 -> ticks_ok c a ->
  let n := Z.of_nat (length (arr (ff_fc c))) in
  let k := {| c_next := a; c_step := stp |} in
  gen_muggle_fast_flow_ctl_get_curr_elapsed (arr (ff_fc c)) (Z.of_nat (cursor (ff_fc c))) n (tw (ff_fc c)) (ff_start c) (a :: r)
    = fast_tuple (fst (fast_curr_elapsed c k)) c n r /\
  gen_muggle_fast_flow_ctl_check_and_update (arr (ff_fc c)) (Z.of_nat (cursor (ff_fc c))) n (tw (ff_fc c)) (ff_start c) (a :: r)
    = (let '(c', b, _) := fast_check_and_update c k in fast_tuple b c' n r) /\
  gen_muggle_fast_flow_ctl_check_and_force_update (arr (ff_fc c)) (Z.of_nat (cursor (ff_fc c))) n (tw (ff_fc c)) (ff_start c) (a :: r)
    = (let '(c', b, _) := fast_check_and_force_update c k in fast_tuple b c' n r).
Proof.
  intros Hw Hn Ht n k. split; [now apply gen_fast_curr_elapsed_eq|split; [now apply gen_fast_cu_eq|now apply gen_fast_cfu_eq]].
Qed.

(* every signed intermediate of the generated ns functions and of the time counter is inside int64 when the
   controller was created at an absolute time below 2^62 ns, the clock reads below 2^62 ns and every stored
   stamp is below 2^62 in magnitude (an invariant of every run: fc_stamps_stay_in_range) *)
Lemma gen_ns_no_overflow c es en a r now : ts_ok (ns_start c) -> 0 <= a < 2 ^ 62 -> B62 now -> stamps_bounded (ns_fc c) ->
  let s := ns_fc c in let n := Z.of_nat (length (arr s)) in let cu := Z.of_nat (cursor s) in
  let ss := tv_sec (ns_start c) in let sn := tv_nsec (ns_start c) in
  all_true (gen_muggle_time_counter_interval_ns_chk ss sn (tv_sec (ts_of a)) (tv_nsec (ts_of a))) /\
  all_true (gen_muggle_time_counter_start_chk ss sn es en (a :: r)) /\
  all_true (gen_muggle_time_counter_end_chk ss sn es en (a :: r)) /\
  all_true (gen_muggle_flow_ctl_get_curr_elapsed_chk (arr s) cu n (tw s) ss sn es en (a :: r)) /\
  all_true (gen_muggle_flow_ctl_check_and_update_chk (arr s) cu n (tw s) ss sn es en (a :: r)) /\
  all_true (gen_muggle_flow_ctl_check_and_force_update_chk (arr s) cu n (tw s) ss sn es en (a :: r)) /\
  all_true (genc_muggle_flow_ctl_check_chk (arr s) cu n (tw s) ss sn es en now) /\
  all_true (genc_muggle_flow_ctl_update_chk (arr s) cu n (tw s) ss sn es en now).
Proof.
  intros H1 H2 H3 H4 s n cu ss sn.
  split; [apply gen_tc_interval_chk; [assumption|now apply ts_of_ok]|].
  split; [apply gen_tc_start_end_chk|]. split; [apply gen_tc_start_end_chk|].
  destruct (gen_ns_calls_chk c es en a r H1 H2 H4) as (G1 & G2 & G3).
  destruct (gen_leaf_chk s ss sn es en now H3 H4) as (G4 & G5 & _).
  repeat split; assumption.
Qed.

Lemma gen_fast_no_overflow c a r now : 0 <= ff_start c <= a -> a < 2 ^ 64 -> a - ff_start c < 2 ^ 62 -> B62 now ->
  stamps_bounded (ff_fc c) ->
  let s := ff_fc c in let n := Z.of_nat (length (arr s)) in let cu := Z.of_nat (cursor s) in
  all_true (gen_muggle_fast_flow_ctl_get_curr_elapsed_chk (arr s) cu n (tw s) (ff_start c) (a :: r)) /\
  all_true (gen_muggle_fast_flow_ctl_check_and_update_chk (arr s) cu n (tw s) (ff_start c) (a :: r)) /\
  all_true (gen_muggle_fast_flow_ctl_check_and_force_update_chk (arr s) cu n (tw s) (ff_start c) (a :: r)) /\
  all_true (genc_muggle_fast_flow_ctl_check_chk (arr s) cu n (tw s) (ff_start c) now) /\
  all_true (genc_muggle_fast_flow_ctl_update_chk (arr s) cu n (tw s) (ff_start c) now).
Proof.
  intros H1 H2 H3 H4 H5 s n cu.
  destruct (gen_fast_calls_chk c a r H1 H2 H3 H5) as (G1 & G2 & G3).
  destruct (gen_leaf_chk s 0 0 0 0 now H4 H5) as (_ & _ & G4). destruct (G4 (ff_start c)) as [G5 G6].
  repeat split; assumption.
Qed.

(* non-vacuity of the hypotheses: a controller created at 7.999999999 s, clock reading 9 s *)
Example c19_gencall_nonvacuous :
  exists c, fst (ns_init {| c_next := 7999999999; c_step := 0 |} 1 2 1) = Some c /\
    wf (ns_fc c) /\ Z.of_nat (length (arr (ns_fc c))) < 2 ^ 32 /\ ts_ok (ns_start c) /\ stamps_bounded (ns_fc c) /\
    0 <= 9000000000 < 2 ^ 62.
Proof.
  eexists. split; [reflexivity|]. cbn. unfold wf, ts_ok, stamps_bounded, B62; cbn.
  repeat split; try lia. repeat constructor; lia.
Qed.
