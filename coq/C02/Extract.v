From MV Require Import Lib.ExtractBase C02.Model.
From Coq Require Import ExtrOcamlBasic.
Extraction Language OCaml.
Extraction "c02_model" force_types init step get_mode wmode_num rmode_num err_invalid_param cap_log cap
  init_capacity ty_fields ty_block_ptr rd_start
  s_cursor s_rc s_begun s_deliv s_nw s_wr s_wbeg s_nt s_once s_who s_lapped s_uncov s_thr t_cnt t_got.
