(* C02 — non-vacuity examples, the index-wrap lemma at the level of the 32-bit register, and the
   necessity of the release/acquire orders (witness by computation). *)
From MV Require Import C02.Model C02.ProofsBase C02.ProofsCtl.
Local Open Scope Z_scope.

Definition good_params : params :=
  {| mo_tas := Acq; mo_clear := Rel; mo_st_lock := Rel; mo_st_single := Rel;
     mo_ld_wait := Acq; mo_ld_busy := Acq; mo_ld_once := Acq |}.

(* capacity 2, locked writers, waiting readers, throttle on, one message written before the
   threads start, reader indices started at 2^32-3 *)
Definition ex_cfg (rm : rmode) (nw nr : nat) (pre : Z) : cfg :=
  {| c_k := 1; c_wm := WLock; c_rm := rm; c_nw := nw; c_nr := nr; c_thr := true; c_pre := pre;
     c_wcnt := fun _ => 2%nat; c_rq := fun _ => 4%nat; c_idx0 := fun _ => two32 - 3; c_val := fun m => m |}.

Fixpoint rounds (n : nat) (ts : list nat) : list (nat * nat) :=
  match n with O => [] | S m => map (fun t => (t, O)) ts ++ rounds m ts end.

Lemma ex_cfg_wf rm nw nr : wf_cfg (ex_cfg rm nw nr 1).
Proof.
  constructor; simpl.
  - lia.
  - unfold cap; simpl. lia.
  - discriminate.
  - intros t _. unfold rd_start, cap, two32; simpl. split; [lia|]. intros _. vm_compute. discriminate.
  - intros m _. reflexivity.
Qed.

(* two writers, two readers: both readers complete their four reads, across the wrap of the
   32-bit index (2^32-3, 2^32-2, 2^32-1, 0), without the precondition being violated *)
Example rb_nonvacuous :
  let s := exec sys (step good_params) (init (ex_cfg RWait 2 2 1)) (rounds 80 [0;1;2;3]%nat) in
  s_lapped s = false /\ s_uncov s = 0%nat /\ s_nw s = 5 /\
  t_cnt (s_thr s 2%nat) = 4 /\ t_cnt (s_thr s 3%nat) = 4 /\ t_idx (s_thr s 2%nat) = 1 /\
  map (t_got (s_thr s 2%nat)) [0;1;2;3] = map (s_wr s) [1;2;3;4].
Proof. vm_compute. repeat split; reflexivity. Qed.

(* read-once: two readers share the five messages (one pre-written) *)
Definition ex_once : cfg :=
  {| c_k := 1; c_wm := WLock; c_rm := ROnce; c_nw := 2; c_nr := 2; c_thr := true; c_pre := 1;
     c_wcnt := fun _ => 2%nat; c_rq := fun t => if Nat.eqb t 2 then 2%nat else 3%nat;
     c_idx0 := fun _ => two32 - 3; c_val := fun m => m |}.
Example rb_once_nonvacuous :
  let s := exec sys (step good_params) (init ex_once) (rounds 120 [0;1;2;3]%nat) in
  s_lapped s = false /\ s_uncov s = 0%nat /\ s_nw s = 5 /\ s_nt s = 5 /\
  map (s_once s) [0;1;2;3;4] = map (s_wr s) [0;1;2;3;4] /\
  t_cnt (s_thr s 2%nat) = 2 /\ t_cnt (s_thr s 3%nat) = 3.
Proof. vm_compute. repeat split; reflexivity. Qed.

(* with the cursor store relaxed the hand-over of the slot is unsound in the view model: the
   reader's plain reads are not covered (documentation of the parameter tie) *)
Example rb_mo_necessary :
  let P := {| mo_tas := Acq; mo_clear := Rel; mo_st_lock := Rlx; mo_st_single := Rel;
              mo_ld_wait := Acq; mo_ld_busy := Acq; mo_ld_once := Acq |} in
  let s := exec sys (step P) (init (ex_cfg RWait 1 1 1)) (rounds 40 [0;1]%nat) in
  s_lapped s = false /\ (s_uncov s > 0)%nat.
Proof. vm_compute. split; [reflexivity|lia]. Qed.
(* ... and likewise with the reader's load relaxed *)
Example rb_mo_necessary_load :
  let P := {| mo_tas := Acq; mo_clear := Rel; mo_st_lock := Rel; mo_st_single := Rel;
              mo_ld_wait := Rlx; mo_ld_busy := Acq; mo_ld_once := Acq |} in
  let s := exec sys (step P) (init (ex_cfg RWait 1 1 1)) (rounds 40 [0;1]%nat) in
  s_lapped s = false /\ (s_uncov s > 0)%nat.
Proof. vm_compute. split; [reflexivity|lia]. Qed.

(* without the throttle the precondition can be violated and a lapped reader then receives a
   later message: the hypothesis s_lapped = false of the theorems is needed *)
Definition ex_nothr : cfg :=
  {| c_k := 1; c_wm := WSingle; c_rm := RBusy; c_nw := 1; c_nr := 1; c_thr := false; c_pre := 0;
     c_wcnt := fun _ => 4%nat; c_rq := fun _ => 2%nat; c_idx0 := fun _ => 0; c_val := fun m => m |}.
Example rb_precondition_needed :
  let s := exec sys (step good_params) (init ex_nothr) (rounds 12 [0]%nat ++ rounds 12 [1]%nat) in
  s_lapped s = true /\ t_cnt (s_thr s 1%nat) = 0.
Proof. vm_compute. split; reflexivity. Qed.

(* LATE JOINERS, DIFFERENT RESIDUES, EARLY STOP.  Capacity 8, three messages written before the
   threads start (cursor 3); reader 2 starts at the cursor (first index 2^32-5, position 3), reader 3
   joins late at the oldest message (first index 8 = position 0) and stops after 4 reads, reader 4
   starts one behind the cursor across the 32-bit wrap (first index 2^32-6, position 2): every first
   index is accepted by wf_cfg, all three receive the messages at their logical positions, and the
   reader that stopped early does not hold the writers back (throttle on, precondition never violated) *)
Definition ex_late : cfg :=
  {| c_k := 3; c_wm := WLock; c_rm := RWait; c_nw := 2; c_nr := 3; c_thr := true; c_pre := 3;
     c_wcnt := fun _ => 6%nat;
     c_rq := fun t => if Nat.eqb t 3 then 4%nat else if Nat.eqb t 4 then 13%nat else 12%nat;
     c_idx0 := fun t => if Nat.eqb t 3 then 8 else if Nat.eqb t 4 then two32 - 6 else two32 - 5;
     c_val := fun m => m |}.
Lemma ex_late_wf : wf_cfg ex_late.
Proof.
  constructor; simpl.
  - lia.
  - unfold cap; simpl. lia.
  - discriminate.
  - intros t _. unfold rd_start, cap, two32, ex_late; simpl.
    destruct (Nat.eqb t 3); [split; [lia|intros _; vm_compute; discriminate]|].
    destruct (Nat.eqb t 4); split; try lia; intros _; vm_compute; discriminate.
  - intros m _. reflexivity.
Qed.
Example rb_late_joiners_nonvacuous :
  let s := exec sys (step good_params) (init ex_late) (rounds 400 [0;1;2;3;4]%nat) in
  s_lapped s = false /\ s_uncov s = 0%nat /\ s_nw s = 15 /\
  rd_start ex_late 2 = 3 /\ rd_start ex_late 3 = 0 /\ rd_start ex_late 4 = 2 /\
  t_cnt (s_thr s 2%nat) = 12 /\ t_cnt (s_thr s 3%nat) = 4 /\ t_cnt (s_thr s 4%nat) = 13 /\
  map (t_got (s_thr s 3%nat)) [0;1;2;3] = map (s_wr s) [0;1;2;3] /\
  map (t_got (s_thr s 4%nat)) [0;1;12] = map (s_wr s) [2;3;14] /\
  map (t_got (s_thr s 2%nat)) [0;11] = map (s_wr s) [3;14].
Proof. vm_compute. repeat split; reflexivity. Qed.
