(* C02 — control invariants for every schedule and any number of threads: roles, mode
   consistency of the program points, mutual exclusion of the write spinlock (or the single
   writer) and of the read mutex. *)
From MV Require Import C02.Model C02.ProofsBase.
Local Open Scope Z_scope.

Record wf_cfg (c : cfg) : Prop := {
  wf_k : (c_k c <= 32)%nat;
  wf_pre : 0 <= c_pre c < cap c;
  wf_single : c_wm c = WSingle -> (c_nw c <= 1)%nat;
  (* a reader's first index is ANY 32-bit index whose ring position has been written (or is the cursor
     position itself): late joiners, readers at different residues; rd_start is the logical position
     of that message, c_pre - cap < rd_start <= c_pre holds by construction (not lapped) *)
  wf_idx : forall t, is_reader c t = true ->
           0 <= c_idx0 c t < two32 /\ (c_rm c <> ROnce -> 0 <= rd_start c t);
  (* (read-once readers ignore the index) *)
  (* a message whose value is the address of a payload object carries its own object *)
  wf_val : forall m, 0 <= c_val c m -> c_val c m = m;
}.

(* program-point classes *)
Definition crit (p : pc) : bool :=
  match p with WSlotSeg | WCursor | WUnlockSeg | WUnlock => true | _ => false end.
Definition mheld (p : pc) : bool :=
  match p with KSeg | KLoad | KCheck | KWaitOp | KBlocked | KUnlock => true | _ => false end.
Definition wpc (p : pc) : bool :=
  match p with
  | WStart | WThr | WAcq | WFailSeg | WYield | WRetrySeg | WSlotSeg | WCursor | WUnlockSeg | WUnlock
  | WWakeSeg | WWake => true
  | _ => false
  end.
Definition lockpc (p : pc) : bool :=
  match p with WAcq | WFailSeg | WYield | WRetrySeg | WSlotSeg | WUnlockSeg | WUnlock => true | _ => false end.
Definition rpc (p : pc) : bool :=
  match p with RSeg | RLoad | RRead | RWaitSeg | RWaitOp | RBlocked => true | _ => false end.
Definition kpc (p : pc) : bool :=
  match p with
  | KStart | KLock | KSeg | KLoad | KCheck | KWaitOp | KBlocked | KUnlock | KDoneSeg => true
  | _ => false
  end.

Record AInv (c : cfg) (s : sys) : Prop := {
  a_cfg : s_cfg s = c;
  a_role : forall t, wpc (t_pc (s_thr s t)) = true -> (t < c_nw c)%nat;
  a_rrole : forall t, rpc (t_pc (s_thr s t)) || kpc (t_pc (s_thr s t)) = true -> is_reader c t = true;
  a_single : c_wm c = WSingle -> forall t, lockpc (t_pc (s_thr s t)) = false;
  a_rm_r : forall t, rpc (t_pc (s_thr s t)) = true -> c_rm c <> ROnce;
  a_rm_k : forall t, kpc (t_pc (s_thr s t)) = true -> c_rm c = ROnce;
  a_excl : forall t u, crit (t_pc (s_thr s t)) = true -> crit (t_pc (s_thr s u)) = true -> t = u;
  a_lock01 : s_lock s = 0 \/ s_lock s = 1;
  a_free : c_wm c = WLock -> s_lock s = 0 -> forall t, crit (t_pc (s_thr s t)) = false;
  a_mexcl : forall t u, mheld (t_pc (s_thr s t)) = true -> mheld (t_pc (s_thr s u)) = true -> t = u;
  a_mtx01 : s_mtx s = 0 \/ s_mtx s = 1;
  a_mfree : s_mtx s = 0 -> forall t, mheld (t_pc (s_thr s t)) = false;
}.

Lemma init_ainv c : AInv c (init c).
Proof.
  constructor; simpl; auto; unfold tinit; simpl.
  - intros t. unfold is_writer. destruct (Nat.ltb_spec t (c_nw c)); simpl; [auto|].
    destruct (is_reader c t); [destruct (c_rm c)|]; simpl; discriminate.
  - intros t. destruct (is_writer c t); simpl; [discriminate|].
    destruct (is_reader c t); [reflexivity|simpl; discriminate].
  - intros _ t. destruct (is_writer c t); simpl; [reflexivity|].
    destruct (is_reader c t); [destruct (c_rm c)|]; reflexivity.
  - intros t. destruct (is_writer c t); simpl; [discriminate|].
    destruct (is_reader c t); [destruct (c_rm c)|]; simpl; congruence.
  - intros t. destruct (is_writer c t); simpl; [discriminate|].
    destruct (is_reader c t); [destruct (c_rm c)|]; simpl; congruence.
  - intros t u. destruct (is_writer c t); simpl; [discriminate|].
    destruct (is_reader c t); [destruct (c_rm c)|]; simpl; discriminate.
  - intros _ _ t. destruct (is_writer c t); simpl; [reflexivity|].
    destruct (is_reader c t); [destruct (c_rm c)|]; reflexivity.
  - intros t u. destruct (is_writer c t); simpl; [discriminate|].
    destruct (is_reader c t); [destruct (c_rm c)|]; simpl; discriminate.
  - intros _ t. destruct (is_writer c t); simpl; [reflexivity|].
    destruct (is_reader c t); [destruct (c_rm c)|]; reflexivity.
Qed.

(* the futex wake-ups keep every thread inside its class *)
Lemma first_blocked_spec thr n u : first_blocked thr n = Some u -> is_blocked (t_pc (thr u)) = true.
Proof.
  induction n as [|m IH]; simpl; [discriminate|].
  destruct (first_blocked thr m) as [v|] eqn:E.
  - intros H; inversion H; subst. now apply IH.
  - destruct (is_blocked (t_pc (thr m))) eqn:Ep; [|discriminate]. intros H; inversion H; subst. exact Ep.
Qed.

Lemma wake_all_pc thr u :
  t_pc (wake_all thr u) = if is_blocked (t_pc (thr u)) then resume (t_pc (thr u)) else t_pc (thr u).
Proof. unfold wake_all. destruct (is_blocked (t_pc (thr u))); reflexivity. Qed.

Lemma crit_resume p : crit (resume p) = crit p. Proof. destruct p; reflexivity. Qed.
Lemma mheld_resume p : mheld (resume p) = mheld p. Proof. destruct p; reflexivity. Qed.
Lemma wpc_resume p : wpc (resume p) = wpc p. Proof. destruct p; reflexivity. Qed.
Lemma lockpc_resume p : lockpc (resume p) = lockpc p. Proof. destruct p; reflexivity. Qed.
Lemma rpc_resume p : rpc (resume p) = rpc p. Proof. destruct p; reflexivity. Qed.
Lemma kpc_resume p : kpc (resume p) = kpc p. Proof. destruct p; reflexivity. Qed.
Lemma crit_wake thr u : crit (t_pc (wake_all thr u)) = crit (t_pc (thr u)).
Proof. rewrite wake_all_pc. destruct (is_blocked _); [apply crit_resume|reflexivity]. Qed.
Lemma mheld_wake thr u : mheld (t_pc (wake_all thr u)) = mheld (t_pc (thr u)).
Proof. rewrite wake_all_pc. destruct (is_blocked _); [apply mheld_resume|reflexivity]. Qed.
Lemma wpc_wake thr u : wpc (t_pc (wake_all thr u)) = wpc (t_pc (thr u)).
Proof. rewrite wake_all_pc. destruct (is_blocked _); [apply wpc_resume|reflexivity]. Qed.
Lemma lockpc_wake thr u : lockpc (t_pc (wake_all thr u)) = lockpc (t_pc (thr u)).
Proof. rewrite wake_all_pc. destruct (is_blocked _); [apply lockpc_resume|reflexivity]. Qed.
Lemma rpc_wake thr u : rpc (t_pc (wake_all thr u)) = rpc (t_pc (thr u)).
Proof. rewrite wake_all_pc. destruct (is_blocked _); [apply rpc_resume|reflexivity]. Qed.
Lemma kpc_wake thr u : kpc (t_pc (wake_all thr u)) = kpc (t_pc (thr u)).
Proof. rewrite wake_all_pc. destruct (is_blocked _); [apply kpc_resume|reflexivity]. Qed.

Ltac wk := rewrite ?crit_wake, ?mheld_wake, ?wpc_wake, ?lockpc_wake, ?rpc_wake, ?kpc_wake,
                   ?crit_resume, ?mheld_resume, ?wpc_resume, ?lockpc_resume, ?rpc_resume, ?kpc_resume in *.

(* Some (a, b) = Some (s', l): name the new state *)
Ltac inv_some H :=
  match type of H with
  | Some (?a, ?b) = Some (?s', ?l) =>
    let E := fresh "E" in assert (E : s' = a) by congruence; subst s'; clear H
  end.

Ltac upd_all := simpl in *; repeat (match goal with
  | H : context [upd _ ?t _ ?a] |- _ => unfold upd in H; destruct (Nat.eqb_spec a t); try subst a
  | |- context [upd _ ?t _ ?a] => unfold upd; destruct (Nat.eqb_spec a t); try subst a
  | H : context [if Nat.eqb ?a ?t then _ else _] |- _ => destruct (Nat.eqb_spec a t); try subst a
  | |- context [if Nat.eqb ?a ?t then _ else _] => destruct (Nat.eqb_spec a t); try subst a
  end; simpl in * ); wk; simpl in *.

Ltac a_thread Hold :=
  let u := fresh "u" in intros u; upd_all; try discriminate; try reflexivity; try congruence;
  try (apply Hold; assumption); auto.

Ltac a_pair Hold :=
  let u := fresh "u" in let v := fresh "v" in let Hu := fresh "Hu" in let Hv := fresh "Hv" in
  intros u v Hu Hv; upd_all; try discriminate; try reflexivity;
  first [ apply Hold; assumption | symmetry; apply Hold; assumption ].

Section Step.
Variable P : params.
Variable c : cfg.
Hypothesis Hwf : wf_cfg c.

(* two writer threads in single-writer mode are the same thread *)
Lemma single_one s t u : AInv c s -> c_wm c = WSingle ->
  wpc (t_pc (s_thr s t)) = true -> wpc (t_pc (s_thr s u)) = true -> t = u.
Proof.
  intros A Hs Ht Hu. pose proof (a_role _ _ A t Ht). pose proof (a_role _ _ A u Hu).
  pose proof (wf_single _ Hwf Hs). lia.
Qed.

Lemma crit_wpc p : crit p = true -> wpc p = true.
Proof. destruct p; simpl; congruence. Qed.
Lemma crit_lockpc_or p : crit p = true -> lockpc p = true \/ p = WCursor.
Proof. destruct p; simpl; try discriminate; auto. Qed.

Lemma step_ainv s t ch s' l : AInv c s -> step P s t ch = Some (s', l) -> AInv c s'.
Proof.
  intros A Hs. pose proof A as [Hcfg Hrole Hrrole Hsingle Hrmr Hrmk Hex H01 Hfree Hmex Hm01 Hmfree].
  unfold step in Hs. rewrite Hcfg in Hs.
  pose proof (Hrole t) as Rt. pose proof (Hrrole t) as RRt. pose proof (Hrmr t) as RMr.
  pose proof (Hrmk t) as RMk.
  assert (Hsg : c_wm c = WSingle -> forall u, wpc (t_pc (s_thr s u)) = true ->
                wpc (t_pc (s_thr s t)) = true -> u = t).
  { intros Hw u Hu Ht. eapply single_one; eauto. }
  assert (Hsgl : c_wm c = WSingle -> lockpc (t_pc (s_thr s t)) = false) by (intros; auto).
  assert (Hfr : c_wm c = WLock -> s_lock s = 0 -> crit (t_pc (s_thr s t)) = false) by (intros; auto).
  assert (Hmfr : s_mtx s = 0 -> mheld (t_pc (s_thr s t)) = false) by (intros; auto).
  assert (Hexo : crit (t_pc (s_thr s t)) = true -> forall u, u <> t -> crit (t_pc (s_thr s u)) = false).
  { intros Ht u Hn. destruct (crit (t_pc (s_thr s u))) eqn:E; [|reflexivity]. exfalso. apply Hn. now apply Hex. }
  assert (Hmexo : mheld (t_pc (s_thr s t)) = true -> forall u, u <> t -> mheld (t_pc (s_thr s u)) = false).
  { intros Ht u Hn. destruct (mheld (t_pc (s_thr s u))) eqn:E; [|reflexivity]. exfalso. apply Hn. now apply Hmex. }
  destruct (t_pc (s_thr s t)) eqn:Epc; simpl in Rt, RRt, RMr, RMk, Hsgl, Hfr, Hmfr, Hexo, Hmexo.
  all: try discriminate.
  all: repeat match type of Hs with
       | context [match t_rem ?x with _ => _ end] => destruct (t_rem x)
       | context [match c_wm c with _ => _ end] => destruct (c_wm c) eqn:Ewm
       | context [if ?b then _ else _] => destruct b eqn:?
       | context [match c_rm c with _ => _ end] => destruct (c_rm c) eqn:Erm
       | context [match first_blocked ?a ?b with _ => _ end] =>
         let Ef := fresh "Ef" in destruct (first_blocked a b) eqn:Ef;
         [apply first_blocked_spec in Ef|]
       end; try discriminate.
  all: inv_some Hs.
  all: repeat match goal with H : (_ =? _) = true |- _ => apply Z.eqb_eq in H
              | H : (_ =? _) = false |- _ => apply Z.eqb_neq in H end.
  all: constructor; simpl; try assumption; try (left; reflexivity); try (right; reflexivity).
  all: try rewrite Erm; try rewrite Ewm.
  (* a_role, a_rrole, a_rm_r, a_rm_k *)
  all: try solve [ a_thread Hrole | a_thread Hrrole | a_thread Hrmr | a_thread Hrmk ].
  (* a_single *)
  all: try solve [ intros Hw u; specialize (Hsingle Hw); try specialize (Hsgl Hw); upd_all;
                   try discriminate; try congruence; auto ].
  (* a_excl, a_mexcl *)
  all: try solve [ a_pair Hex | a_pair Hmex ].
  all: try solve [ intros u v Hu Hv; upd_all; try discriminate; try reflexivity;
                   first [ apply Hex; assumption
                         | exfalso; rewrite Hexo in * by (auto; congruence); discriminate
                         | exfalso; rewrite Hmexo in * by (auto; congruence); discriminate
                         | exfalso; rewrite Hfree in * by (auto; congruence); discriminate
                         | exfalso; rewrite Hmfree in * by (auto; congruence); discriminate
                         | exfalso;
                           match goal with
                           | Hc : crit (t_pc (s_thr _ ?a)) = true, Hn : ?a <> _ |- _ =>
                             apply Hn; apply Hsg; [assumption | apply crit_wpc; assumption | reflexivity]
                           end ] ].
  (* a_free, a_mfree *)
  all: try solve [ intros Hw Hl u; upd_all; try discriminate; try reflexivity; try congruence;
                   first [ apply Hfree; assumption | apply Hexo; auto | (rewrite Hfr in *; auto; discriminate) ] ].
  all: try solve [ intros Hl u; upd_all; try discriminate; try reflexivity; try congruence;
                   first [ apply Hmfree; assumption | apply Hmexo; auto | (rewrite Hmfr in *; auto; discriminate) ] ].
  (* the two entries into the critical program points: a successful test_and_set (the lock
     was free, so nobody was inside) and the single writer's slot store (one writer thread) *)
  all: intros u v Hu Hv; upd_all; try reflexivity; exfalso.
  all: first
    [ match goal with
      | Hc : crit (t_pc (s_thr _ ?a)) = true, Hn : ?a <> _ |- _ =>
        apply Hn; apply Hsg; [reflexivity | apply crit_wpc; assumption | reflexivity]
      end
    | destruct (c_wm c) eqn:Ew0;
      [ rewrite Hfree in * by auto; discriminate | specialize (Hsgl eq_refl); discriminate ] ].
Qed.

Theorem ctl_invariants sched : AInv c (exec sys (step P) (init c) sched).
Proof. apply inv_exec; [|apply init_ainv]. intros; eapply step_ainv; eauto. Qed.
End Step.
