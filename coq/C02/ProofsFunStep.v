(* C02 — the functional invariant is preserved by every step (any thread, any program point). *)
From MV Require Import C02.Model C02.ProofsBase C02.ProofsCtl C02.ProofsFun.
Local Open Scope Z_scope.

Section Step.
Variable P : params.
Variable c : cfg.
Hypothesis Hwf : wf_cfg c.

Lemma crit_others s t : AInv c s -> crit (t_pc (s_thr s t)) = true ->
  forall u, u <> t -> crit (t_pc (s_thr s u)) = false.
Proof.
  intros A Ht u Hn. destruct (crit (t_pc (s_thr s u))) eqn:E; [|reflexivity].
  exfalso. apply Hn. now apply (a_excl _ _ A).
Qed.
Lemma mheld_others s t : AInv c s -> mheld (t_pc (s_thr s t)) = true ->
  forall u, u <> t -> mheld (t_pc (s_thr s u)) = false.
Proof.
  intros A Ht u Hn. destruct (mheld (t_pc (s_thr s u))) eqn:E; [|reflexivity].
  exfalso. apply Hn. now apply (a_mexcl _ _ A).
Qed.
Lemma wpc_others_single s t : AInv c s -> c_wm c = WSingle -> wpc (t_pc (s_thr s t)) = true ->
  forall u, u <> t -> wpc (t_pc (s_thr s u)) = false.
Proof.
  intros A Hw Ht u Hn. destruct (wpc (t_pc (s_thr s u))) eqn:E; [|reflexivity].
  exfalso. apply Hn. eapply single_one; eauto.
Qed.
Lemma crit_wpc_false p : wpc p = false -> crit p = false.
Proof. destruct p; simpl; congruence. Qed.

(* the slot store by the thread that owns the write side (lock holder or single writer) *)
Lemma binv_slot s s' t x' m :
  AInv c s -> BInv c s ->
  s_cursor s' = s_cursor s -> s_nw s' = s_nw s -> s_wr s' = s_wr s -> s_wbeg s' = s_wbeg s + 1 ->
  s_nt s' = s_nt s -> s_rc s' = s_rc s -> s_once s' = s_once s -> s_who s' = s_who s ->
  s_lock s' = s_lock s -> s_slot s' = zupd (s_slot s) (s_cursor s) m ->
  s_thr s' = upd (s_thr s) t x' ->
  s_wbeg s = s_nw s -> nolap_ok s (s_wbeg s + 1) = true ->
  (forall u, u <> t -> crit (t_pc (s_thr s u)) = false) ->
  (c_wm c = WSingle -> forall u, u <> t -> wpc (t_pc (s_thr s u)) = false) ->
  (c_wm c = WLock -> s_lock s <> 0) -> (t < c_nw c)%nat ->
  t_pc x' = WCursor -> t_msg x' = m -> t_pos x' = (s_cursor s + 1) mod cap c ->
  t_cnt x' = t_cnt (s_thr s t) -> t_got x' = t_got (s_thr s t) -> t_gotn x' = t_gotn (s_thr s t) ->
  t_idx x' = t_idx (s_thr s t) -> t_ret x' = t_ret (s_thr s t) ->
  t_start x' = t_start (s_thr s t) ->
  BInv c s'.
Proof.
  intros HA [Hsh Hall] E1 E2 E3 E4 E5 E6 E7 E8 E9 E10 Ethr Hwn Hnl Hcr Hsg Hlk Htw
         X1 X2 X3 X4 X5 X6 X7 X8 X9.
  pose proof (cap_pos c) as HK. pose proof (wf_pre _ Hwf) as Hpre. pose proof (a_cfg _ _ HA) as Hcfg.
  destruct Hsh as [B1 B2 B3 B4 B5 B6 B7 B8 B9].
  split.
  - constructor; rewrite ?E1, ?E2, ?E3, ?E4, ?E5, ?E6, ?E7, ?E8, ?E9, ?E10; try assumption; try lia.
    + intros Hw Hl. exfalso. apply (Hlk Hw Hl).
    + intros n Hn Hc. rewrite zupd_other; [apply B5; lia|].
      rewrite B1. apply not_eq_sym. apply mod_neq; lia.
    + intros Hm. pose proof (nolap_once c s _ Hcfg Hm Hnl). lia.
  - intros u. rewrite Ethr. unfold upd. destruct (Nat.eqb_spec u t).
    + subst u. destruct (Hall t) as (K0 & Kr & Ko & _). unfold bthr_ok. rewrite X4. split; [exact K0|].
      split; [|split].
      * unfold rd_ok in *. rewrite E2, E3, E4, X4, X5, X7, X9. intros Hm. destruct (Kr Hm) as (A0 & A & B & C).
        split; [exact A0|]. split; [exact A|]. split; [exact B|]. intros Hr. rewrite is_reader_writer in Hr by assumption. discriminate.
      * eapply on_ok_eq; eauto. rewrite X1. simpl. discriminate.
      * unfold pc_ok. rewrite X1, E2, E4, E10, X2, X3. split; [lia|]. split.
        -- rewrite B1. apply zupd_same.
        -- rewrite B1. apply mod_succ. exact HK.
    + eapply others_slot; eauto.
      all: try (intros Hm Hr Hrem; eapply nolap_reader; eauto).
      all: try (intros Hw; apply Hsg; assumption).
Qed.

Lemma bthr_wake s u x : bthr_ok c s u x ->
  bthr_ok c s u (if is_blocked (t_pc x) then set_pc x (resume (t_pc x)) else x).
Proof.
  intros H. destruct (is_blocked (t_pc x)) eqn:E; [|exact H].
  apply bthr_set_pc; [exact H| |].
  - destruct (t_pc x); simpl in *; discriminate.
  - unfold pc_ok. destruct (t_pc x); simpl in *; try discriminate; exact I.
Qed.

Ltac pc_only HB Hsh Hall t :=
  eapply binv_frame; [same_tac | reflexivity | exact (b_free _ _ Hsh) | exact HB |
    apply bthr_set_pc; [exact (Hall t) | simpl; intros; discriminate | unfold pc_ok; simpl ]].

Lemma step_binv s t ch s' l :
  AInv c s -> BInv c s -> step P s t ch = Some (s', l) -> s_lapped s' = false -> BInv c s'.
Proof.
  intros HA HB Hs Hlap. pose proof HB as [Hsh Hall].
  pose proof (a_cfg _ _ HA) as Hcfg.
  pose proof (Hall t) as Kt. destruct Kt as (K0 & Kr & Ko & Kpc).
  pose proof (cap_pos c) as HK. pose proof (wf_pre _ Hwf) as Hpre.
  pose proof (a_role _ _ HA t) as Rt. pose proof (a_single _ _ HA) as Hsgl.
  unfold step in Hs. rewrite Hcfg in Hs. unfold pc_ok in Kpc.
  destruct (t_pc (s_thr s t)) eqn:Epc; simpl in Rt.
  - (* WStart *)
    destruct (t_rem (s_thr s t)) as [|rem'].
    + inv_some Hs. pc_only HB Hsh Hall t. exact I.
    + destruct (c_thr c && negb (can_begin s)).
      * inv_some Hs. pc_only HB Hsh Hall t. exact Kpc.
      * destruct (c_wm c) eqn:Ewm.
        -- inv_some Hs.
           eapply binv_frame; [same_tac | reflexivity | exact (b_free _ _ Hsh) | exact HB |].
           eapply bthr_change; [exact (Hall t) | reflexivity | reflexivity | reflexivity | reflexivity
                               | reflexivity | reflexivity
                               | intros Hr; rewrite is_reader_writer in Hr by auto; discriminate
                               | simpl; intros; discriminate | unfold pc_ok; simpl; exact I].
        -- inv_some Hs. simpl in Hlap. apply orb_false_elim in Hlap as [_ Hl]. apply negb_false_iff in Hl.
           eapply (binv_slot s _ t); try reflexivity; try eassumption; simpl.
           ++ apply Kpc. reflexivity.
           ++ intros u Hn. apply crit_wpc_false. eapply wpc_others_single; eauto. rewrite Epc. reflexivity.
           ++ intros _ u Hn. eapply wpc_others_single; eauto. rewrite Epc. reflexivity.
           ++ intros; congruence.
           ++ auto.
  - (* WThr *) inv_some Hs. pc_only HB Hsh Hall t. exact Kpc.
  - (* WAcq *)
    assert (Hlk : c_wm c = WLock).
    { destruct (c_wm c) eqn:Ewm; [reflexivity|]. specialize (Hsgl eq_refl t). rewrite Epc in Hsgl. discriminate. }
    inv_some Hs.
    eapply binv_frame; [same_tac | reflexivity | simpl; intros _ H; discriminate | exact HB |].
    eapply bthr_change; [exact (Hall t) | reflexivity | reflexivity | reflexivity | reflexivity | reflexivity
                        | reflexivity | reflexivity | | ].
    + simpl. destruct (s_lock s =? 0); simpl; discriminate.
    + unfold pc_ok. simpl. destruct (Z.eqb_spec (s_lock s) 0); simpl; [|exact I].
      apply (b_free _ _ Hsh); assumption.
  - (* WFailSeg *) inv_some Hs. pc_only HB Hsh Hall t. exact I.
  - (* WYield *) inv_some Hs. pc_only HB Hsh Hall t. exact I.
  - (* WRetrySeg *) inv_some Hs. pc_only HB Hsh Hall t. exact I.
  - (* WSlotSeg *)
    inv_some Hs. simpl in Hlap. apply orb_false_elim in Hlap as [_ Hl]. apply negb_false_iff in Hl.
    eapply (binv_slot s _ t); try reflexivity; try eassumption; simpl.
    + intros u Hn. eapply crit_others; eauto. rewrite Epc. reflexivity.
    + intros Hw. specialize (Hsgl Hw t). rewrite Epc in Hsgl. discriminate.
    + intros Hw Hl0. pose proof (a_free _ _ HA Hw Hl0 t) as F. rewrite Epc in F. discriminate.
    + auto.
  - (* WCursor: publication *)
    destruct Kpc as (Kw & Ksl & Kpos). inv_some Hs.
    destruct Hsh as [B1 B2 B3 B4 B5 B6 B7 B8 B9]. split.
    + constructor; simpl.
      * rewrite Kpos. reflexivity.
      * lia.
      * lia.
      * intros Hw Hl0. exfalso. pose proof (a_free _ _ HA Hw Hl0 t) as F. rewrite Epc in F. discriminate.
      * intros n Hn Hc. unfold zupd. destruct (Z.eqb_spec n (s_nw s)); [subst; exact Ksl|]. apply B5; lia.
      * lia.
      * exact B7.
      * intros n Hn. rewrite zupd_other by lia. apply B8; lia.
      * exact B9.
    + intros u. simpl. unfold upd. destruct (Nat.eqb_spec u t).
      * subst u. unfold bthr_ok. split; [exact K0|]. split; [|split].
        -- apply (rd_ok_publish c s _ t (s_thr s t) (t_msg (s_thr s t)));
             [exact Kr | reflexivity | reflexivity | reflexivity | lia].
        -- eapply on_ok_eq; [exact Ko | reflexivity | reflexivity | reflexivity | reflexivity | reflexivity
                            | reflexivity | reflexivity | ].
           simpl. destruct (c_wm c), (c_rm c); simpl; discriminate.
        -- unfold pc_ok. simpl. destruct (c_wm c), (c_rm c); simpl; intros; lia.
      * eapply others_publish with (s := s); try reflexivity.
        -- exact (Hall u).
        -- eapply crit_others; eauto. rewrite Epc. reflexivity.
        -- intros Hw. eapply wpc_others_single; eauto. rewrite Epc. reflexivity.
        -- lia.
  - (* WUnlockSeg *) inv_some Hs. pc_only HB Hsh Hall t. exact Kpc.
  - (* WUnlock *)
    inv_some Hs.
    eapply binv_frame; [same_tac | reflexivity | intros _ _; exact Kpc | exact HB |].
    apply bthr_set_pc; [exact (Hall t) | destruct (c_rm c); simpl; intros; discriminate |].
    unfold pc_ok. destruct (c_rm c); simpl; intros _; exact Kpc.
  - (* WWakeSeg *) inv_some Hs. pc_only HB Hsh Hall t. exact Kpc.
  - (* WWake *)
    assert (Hme : bthr_ok c s t (set_pc (s_thr s t) WStart)).
    { apply bthr_set_pc; [exact (Hall t) | simpl; intros; discriminate | unfold pc_ok; simpl; exact Kpc]. }
    destruct (c_rm c) eqn:Erm.
    + (* wake all *)
      inv_some Hs. split; [eapply bsh_same; [same_tac | exact (b_free _ _ Hsh) | exact Hsh]|].
      intros u. simpl. unfold upd. destruct (Nat.eqb_spec u t).
      * subst u. eapply bthr_same; [same_tac | exact Hme].
      * eapply bthr_same; [same_tac |]. unfold wake_all. apply (bthr_wake s u (s_thr s u)). exact (Hall u).
    + destruct (first_blocked (s_thr s) (c_nw c + c_nr c)) as [u0|] eqn:Ef.
      * apply first_blocked_spec in Ef. inv_some Hs.
        split; [eapply bsh_same; [same_tac | exact (b_free _ _ Hsh) | exact Hsh]|].
        intros u. simpl. unfold upd. destruct (Nat.eqb_spec u t).
        -- subst u. eapply bthr_same; [same_tac | exact Hme].
        -- destruct (Nat.eqb_spec u u0).
           ++ subst u. eapply bthr_same; [same_tac |].
              pose proof (bthr_wake s u0 (s_thr s u0) (Hall u0)) as W. rewrite Ef in W. exact W.
           ++ eapply bthr_same; [same_tac | exact (Hall u)].
      * inv_some Hs. pc_only HB Hsh Hall t. exact Kpc.
    + destruct (first_blocked (s_thr s) (c_nw c + c_nr c)) as [u0|] eqn:Ef.
      * apply first_blocked_spec in Ef. inv_some Hs.
        split; [eapply bsh_same; [same_tac | exact (b_free _ _ Hsh) | exact Hsh]|].
        intros u. simpl. unfold upd. destruct (Nat.eqb_spec u t).
        -- subst u. eapply bthr_same; [same_tac | exact Hme].
        -- destruct (Nat.eqb_spec u u0).
           ++ subst u. eapply bthr_same; [same_tac |].
              pose proof (bthr_wake s u0 (s_thr s u0) (Hall u0)) as W. rewrite Ef in W. exact W.
           ++ eapply bthr_same; [same_tac | exact (Hall u)].
      * inv_some Hs. pc_only HB Hsh Hall t. exact Kpc.
    + destruct (first_blocked (s_thr s) (c_nw c + c_nr c)) as [u0|] eqn:Ef.
      * apply first_blocked_spec in Ef. inv_some Hs.
        split; [eapply bsh_same; [same_tac | exact (b_free _ _ Hsh) | exact Hsh]|].
        intros u. simpl. unfold upd. destruct (Nat.eqb_spec u t).
        -- subst u. eapply bthr_same; [same_tac | exact Hme].
        -- destruct (Nat.eqb_spec u u0).
           ++ subst u. eapply bthr_same; [same_tac |].
              pose proof (bthr_wake s u0 (s_thr s u0) (Hall u0)) as W. rewrite Ef in W. exact W.
           ++ eapply bthr_same; [same_tac | exact (Hall u)].
      * inv_some Hs. pc_only HB Hsh Hall t. exact Kpc.
  - (* RSeg *)
    destruct (t_rem (s_thr s t)) eqn:Erem; inv_some Hs; pc_only HB Hsh Hall t; [exact I|].
    rewrite Erem. discriminate.
  - (* RLoad *)
    assert (Hm : c_rm c <> ROnce) by (apply (a_rm_r _ _ HA t); rewrite Epc; reflexivity).
    assert (Hrd : is_reader c t = true) by (apply (a_rrole _ _ HA t); rewrite Epc; reflexivity).
    destruct (Kr Hm) as (A0 & A & B & C). destruct (C Hrd) as (C0 & C1 & C2).
    inv_some Hs.
    eapply binv_frame; [same_tac | reflexivity | exact (b_free _ _ Hsh) | exact HB |].
    eapply bthr_change; [exact (Hall t) | reflexivity | reflexivity | reflexivity | reflexivity | reflexivity
                        | reflexivity | reflexivity | | ].
    + simpl. destruct (s_cursor s =? t_idx (s_thr s t) mod cap c); [destruct (c_rm c)|]; simpl; discriminate.
    + unfold pc_ok. simpl. destruct (Z.eqb_spec (s_cursor s) (t_idx (s_thr s t) mod cap c)) as [E|E].
      * destruct (c_rm c); simpl; exact I.
      * simpl. rewrite (b_cur _ _ Hsh), C2 in E. split; [|exact Kpc].
        destruct (Z.eq_dec (s_nw s) (t_start (s_thr s t) + t_cnt (s_thr s t))) as [E2|E2]; [rewrite E2 in E; congruence|lia].
  - (* RRead *)
    assert (Hm : c_rm c <> ROnce) by (apply (a_rm_r _ _ HA t); rewrite Epc; reflexivity).
    assert (Hrd : is_reader c t = true) by (apply (a_rrole _ _ HA t); rewrite Epc; reflexivity).
    destruct (Kr Hm) as (A0 & A & B & C). destruct (C Hrd) as (C0 & C1 & C2).
    destruct Kpc as [Kpc Krem]. specialize (C1 Krem).
    inv_some Hs.
    eapply binv_frame; [same_tac | reflexivity | exact (b_free _ _ Hsh) | exact HB |].
    unfold bthr_ok. simpl. split; [lia|]. split; [|split].
    + unfold rd_ok. simpl. intros _. split; [exact A0|]. split; [lia|]. split.
      * intros k Hk. unfold zupd. destruct (Z.eqb_spec k (t_cnt (s_thr s t))).
        -- subst k. rewrite C2. apply (b_slots _ _ Hsh); lia.
        -- apply B. lia.
      * intros _. split; [exact C0|]. split; [intros _; lia|]. rewrite Z.add_assoc. apply idx_next_mod; [apply (wf_k _ Hwf)|exact C2].
    + unfold on_ok. intros Hm'. contradiction.
    + unfold pc_ok. simpl. destruct (pred (t_rem (s_thr s t))) eqn:Epr; simpl; [exact I|discriminate].
  - (* RWaitSeg *) inv_some Hs. pc_only HB Hsh Hall t. exact I.
  - (* RWaitOp *)
    destruct (s_cursor s =? t_pos (s_thr s t)); [destruct (Nat.eqb ch 1); [|destruct (Nat.eqb ch 2)]|]; inv_some Hs; pc_only HB Hsh Hall t; exact I.
  - discriminate.
  - (* KStart *)
    destruct (t_rem (s_thr s t)); inv_some Hs; pc_only HB Hsh Hall t; exact I.
  - (* KLock *)
    destruct (s_mtx s =? 0); [|discriminate]. inv_some Hs.
    eapply binv_frame; [same_tac | reflexivity | exact (b_free _ _ Hsh) | exact HB |].
    eapply bthr_change; [exact (Hall t) | reflexivity | reflexivity | reflexivity | reflexivity | reflexivity
                        | reflexivity | reflexivity
                        | simpl; intros; discriminate | unfold pc_ok; simpl; exact I].
  - (* KSeg *) inv_some Hs. pc_only HB Hsh Hall t. exact I.
  - (* KLoad *)
    assert (Hm : c_rm c = ROnce) by (apply (a_rm_k _ _ HA t); rewrite Epc; reflexivity).
    inv_some Hs.
    eapply binv_frame; [same_tac | reflexivity | exact (b_free _ _ Hsh) | exact HB |].
    eapply bthr_change; [exact (Hall t) | reflexivity | reflexivity | reflexivity | reflexivity | reflexivity
                        | reflexivity | reflexivity
                        | simpl; intros; discriminate | ].
    unfold pc_ok. simpl. exists (s_nw s). pose proof (b_nt _ _ Hsh). pose proof (b_wbeg _ _ Hsh).
    pose proof (b_nolap_once _ _ Hsh Hm). split; [apply (b_cur _ _ Hsh)|]. lia.
  - (* KCheck *)
    assert (Hm : c_rm c = ROnce) by (apply (a_rm_k _ _ HA t); rewrite Epc; reflexivity).
    destruct Kpc as (nwo & P1 & P2 & P3).
    destruct (Z.eqb_spec (s_rc s) (t_pos (s_thr s t))) as [E|E].
    + inv_some Hs. pc_only HB Hsh Hall t. exact I.
    + destruct Hsh as [B1 B2 B3 B4 B5 B6 B7 B8 B9]. pose proof (B9 Hm) as B9'.
      assert (Hlt : s_nt s < s_nw s).
      { destruct (Z.eq_dec (s_nt s) nwo) as [E2|E2]; [|lia]. exfalso. apply E. rewrite B7, P1, E2. reflexivity. }
      assert (Hmsg : s_slot s (s_rc s) = s_wr s (s_nt s)) by (rewrite B7; apply B5; lia).
      inv_some Hs. split.
      * constructor; simpl; try assumption; try lia.
        -- rewrite Hcfg, B7. apply mod_succ. exact HK.
        -- intros n Hn. unfold zupd. destruct (Z.eqb_spec n (s_nt s)); [subst; exact Hmsg|]. apply B8. lia.
      * intros u. simpl. unfold upd. destruct (Nat.eqb_spec u t).
        -- subst u. unfold bthr_ok. simpl. split; [exact K0|]. split; [|split].
           ++ unfold rd_ok. intros Hm'. contradiction.
           ++ unfold on_ok. simpl. intros _. destruct (Ko Hm) as [A _]. split.
              ** intros k Hk. destruct (A k Hk) as (A1 & A2 & A3).
                 unfold zupdn. rewrite (zupd_other (t_gotn (s_thr s t))) by lia.
                 rewrite zupd_other by lia.
                 destruct (Z.eqb_spec (t_gotn (s_thr s t) k) (s_nt s)); [lia|]. repeat split; try assumption; lia.
              ** intros _. rewrite zupd_same. unfold zupdn. rewrite zupd_same, Z.eqb_refl.
                 repeat split; lia.
           ++ unfold pc_ok. simpl. exact I.
        -- eapply others_take with (s := s); try reflexivity.
           ++ exact (Hall u).
           ++ eapply mheld_others; eauto. rewrite Epc. reflexivity.
           ++ right. eapply mheld_others; eauto. rewrite Epc. reflexivity.
  - (* KWaitOp *)
    destruct (s_cursor s =? t_pos (s_thr s t)); [destruct (Nat.eqb ch 1); [|destruct (Nat.eqb ch 2)]|]; inv_some Hs; pc_only HB Hsh Hall t; exact I.
  - discriminate.
  - (* KUnlock *)
    inv_some Hs.
    eapply binv_frame; [same_tac | reflexivity | exact (b_free _ _ Hsh) | exact HB |].
    apply bthr_set_pc; [exact (Hall t) | intros _; rewrite Epc; reflexivity | unfold pc_ok; simpl; exact I].
  - (* KDoneSeg *)
    assert (Hm : c_rm c = ROnce) by (apply (a_rm_k _ _ HA t); rewrite Epc; reflexivity).
    destruct (Ko Hm) as [A Bp]. rewrite Epc in Bp. destruct (Bp eq_refl) as (Q1 & Q2 & Q3).
    inv_some Hs.
    eapply binv_frame; [same_tac | reflexivity | exact (b_free _ _ Hsh) | exact HB |].
    unfold bthr_ok. simpl. split; [lia|]. split; [|split].
    + unfold rd_ok. intros Hm'. contradiction.
    + unfold on_ok. simpl. intros _. split.
      * intros k Hk. unfold zupd. destruct (Z.eqb_spec k (t_cnt (s_thr s t))).
        -- subst k. repeat split; try assumption; lia.
        -- apply A. lia.
      * destruct (pred (t_rem (s_thr s t))); simpl; discriminate.
    + unfold pc_ok. simpl. destruct (pred (t_rem (s_thr s t))); simpl; exact I.
  - (* TFin *) inv_some Hs. pc_only HB Hsh Hall t. exact I.
  - discriminate.
Qed.
End Step.
