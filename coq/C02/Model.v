(* C02 — executable model of muggle/c/sync/ring_buffer.c (with spinlock.c and the read mutex)
   and of the harness client (harness/drivers/c02_driver.c) at the granularity of
   harness/vsched: every atomic / futex / mutex / yield operation is one step, every plain
   segment between two of them is one step.  Definitions only.

   Shared state of the code: cursor (atomic, futex word), write_spin, read_mutex, read_cursor
   (plain, under read_mutex), blocks[] (plain).  Plain cells follow the view discipline of
   Lib/Conc.v, here with one version per plain cell (slot j, payload of message m,
   read_cursor) and views = finite maps from plain cells to versions (default 0).
   Messages: the model moves message IDENTITIES (ticket numbers) through the slots and never
   inspects them; the pointer VALUE a message carries is c_val id (any value, repeats allowed)
   and appears only in what the harness reports (notes) and in its decision to dereference.
   Ghost state: written (s_nw, s_wr: appended at the cursor store), writes begun (s_wbeg:
   slot stores), read-once takes in read-mutex order (s_nt, s_once, s_who), the monitors
   s_lapped (the documented no-lapping precondition was violated) and s_uncov (plain reads
   not covered by the reader's view). *)
From MV Require Export Lib.Conc.
Local Open Scope Z_scope.

(* memory orders of the sites (coq/gen/Params_C02.v instantiates them) *)
Record params := {
  mo_tas : memorder;        (* muggle_spinlock_lock: test_and_set (write_lock) *)
  mo_clear : memorder;      (* muggle_spinlock_unlock: clear (write_lock) *)
  mo_st_lock : memorder;    (* muggle_ring_buffer_write_lock: store cursor *)
  mo_st_single : memorder;  (* muggle_ring_buffer_write_single: store cursor *)
  mo_ld_wait : memorder;    (* muggle_ring_buffer_read_wait: load cursor *)
  mo_ld_busy : memorder;    (* muggle_ring_buffer_read_busy_loop: load cursor *)
  mo_ld_once : memorder;    (* muggle_ring_buffer_read_once: load cursor *)
}.

Inductive wmode := WLock | WSingle.
Inductive rmode := RWait | RSingleWait | RBusy | ROnce.

(* muggle_ring_buffer_get_mode: SINGLE_WRITER = 0x01, SINGLE_READER = 0x02,
   READ_BUSY_LOOP = 0x08, MSG_READ_ONCE = 0x10; None = MUGGLE_ERR_INVALID_PARAM *)
Definition get_mode (flag : Z) : option (wmode * rmode) :=
  let w := if Z.testbit flag 0 then WSingle else WLock in
  if Z.testbit flag 1 then
    (if Z.testbit flag 3 then Some (w, RBusy) else Some (w, RSingleWait))
  else if Z.testbit flag 4 then
    (if Z.testbit flag 3 then None else Some (w, ROnce))
  else
    (if Z.testbit flag 3 then Some (w, RBusy) else Some (w, RWait)).
Definition wmode_num (w : wmode) : Z := match w with WLock => 0 | WSingle => 1 end.
Definition rmode_num (r : rmode) : Z :=
  match r with RWait => 0 | RSingleWait => 1 | RBusy => 2 | ROnce => 3 end.
Definition err_invalid_param : Z := 6.

(* capacity rounding of muggle_ring_buffer_init: smallest k with 2^k >= n (n >= 1) *)
Fixpoint log2up_fuel (fuel : nat) (k : nat) (n : Z) : nat :=
  match fuel with
  | O => k
  | S f => if n <=? 2 ^ Z.of_nat k then k else log2up_fuel f (S k) n
  end.
Definition cap_log (n : Z) : nat := log2up_fuel 40 0 n.

(* muggle_ring_buffer_init: the requested capacity (a muggle_sync_t = uint32_t) is rounded up to a
   power of two by muggle_next_pow_of_2 and stored in a muggle_atomic_int (int32_t): 0 is refused,
   and so is every request above 2^30 (the rounded value 2^31 / 2^32 is <= 0 as an int32_t).
   None = MUGGLE_ERR_INVALID_PARAM *)
Definition init_capacity (n : Z) : option Z :=
  if n <=? 0 then None
  else let cp := 2 ^ Z.of_nat (cap_log n) in
       if cp <=? 2 ^ 30 then Some cp else None.

(* C types the model relies on (sizeof, signed?): capacity is a muggle_atomic_int (int32_t: the
   refusal above depends on its sign), cursor and read_cursor are muggle_sync_t (uint32_t futex
   words) holding positions below the capacity, the index of muggle_ring_buffer_read is a uint32_t
   (wrap modulo two32 in the reader's register), flag / write_mode / read_mode are ints *)
Definition ty_fields : list (Z * Z) := [(4, 1); (4, 0); (4, 0); (4, 1); (4, 1); (4, 1)].
(* a block holds one pointer at offset 0 *)
Definition ty_block_ptr : Z * Z := (0, 8).

(* ------------------------------------------------------------------ *)
(* plain cells, views *)
Inductive pcell := CSlot (j : Z) | CPay (m : Z) | CRc.
Definition pcell_eqb (a b : pcell) : bool :=
  match a, b with
  | CSlot i, CSlot j => i =? j
  | CPay i, CPay j => i =? j
  | CRc, CRc => true
  | _, _ => false
  end.
(* a view / version map is a finite association list (default 0); vget reads it *)
Definition view := list (pcell * Z).
Definition vzero : view := [].
Fixpoint vget (v : view) (c : pcell) : Z :=
  match v with
  | [] => 0
  | (d, x) :: r => if pcell_eqb c d then x else vget r c
  end.
Fixpoint vupd (v : view) (c : pcell) (x : Z) : view :=
  match v with
  | [] => [(c, x)]
  | (d, y) :: r => if pcell_eqb c d then (d, x) :: r else (d, y) :: vupd r c x
  end.
(* pointwise maximum *)
Definition vjoin (a b : view) : view :=
  fold_left (fun acc k => vupd acc k (Z.max (vget a k) (vget b k))) (map fst a ++ map fst b) [].
Definition zupd (f : Z -> Z) (k x : Z) : Z -> Z := fun i => if i =? k then x else f i.
Definition zupdn (f : Z -> nat) (k : Z) (x : nat) : Z -> nat := fun i => if i =? k then x else f i.

Definition acq_join (mo : memorder) (seen stamp : view) : view :=
  if is_acq mo then vjoin seen stamp else seen.
Definition rel_stamp (mo : memorder) (seen : view) : view :=
  if is_rel mo then seen else vzero.
(* a read-modify-write keeps the release sequence: the stamp is joined, not replaced *)
Definition rmw_stamp (mo : memorder) (seen stamp : view) : view :=
  if is_rel mo then vjoin stamp seen else stamp.

(* ------------------------------------------------------------------ *)
(* scenario *)
Record cfg := {
  c_k : nat;             (* capacity = 2^k *)
  c_wm : wmode;
  c_rm : rmode;
  c_nw : nat;            (* writer threads: tids 0 .. nw-1 *)
  c_nr : nat;            (* reader threads: tids nw .. nw+nr-1 *)
  c_thr : bool;          (* harness throttle on *)
  c_pre : Z;             (* messages written before the threads start *)
  c_wcnt : nat -> nat;   (* messages per writer tid *)
  c_rq : nat -> nat;     (* reads per reader tid *)
  c_idx0 : nat -> Z;     (* first 32-bit index per reader tid *)
  c_val : Z -> Z;        (* the pointer value passed to muggle_ring_buffer_write for message id:
                            c_val id = id means the address of the message's own payload object;
                            negative codes are arbitrary other pointer values (NULL, (void* )-1,
                            small integers, addresses inside the ring, ...), possibly repeated *)
}.
Definition cap (c : cfg) : Z := 2 ^ Z.of_nat (c_k c).
Definition two32 : Z := 4294967296.
Definition payf (id : Z) : Z := id * 7 + 3.

(* A reader may start at ANY 32-bit index: its first index c_idx0 names the ring position
   c_idx0 mod capacity, which holds the message with the largest logical position <= c_pre that is
   congruent to it (the cursor position itself = the next message to be written): a reader that joins
   late starts at an older, still valid message.  rd_start is that logical position (harness: rstart[r]);
   it is negative iff the position has never been written. *)
Definition rd_start (c : cfg) (t : nat) : Z := c_pre c - (c_pre c - c_idx0 c t) mod cap c.

Inductive pc :=
  (* writer *)
  | WStart      (* plain: harness throttle; ticket, payload store, note; single writer: slot store *)
  | WThr        (* harness yield point while throttled *)
  | WAcq        (* spinlock: test_and_set *)
  | WFailSeg    (* plain after a failed test_and_set *)
  | WYield      (* sched_yield *)
  | WRetrySeg   (* plain before the retry *)
  | WSlotSeg    (* plain under the lock: slot store, new cursor value computed *)
  | WCursor     (* store cursor *)
  | WUnlockSeg  (* plain *)
  | WUnlock     (* spinlock: clear *)
  | WWakeSeg    (* plain *)
  | WWake       (* futex wake (all / one) *)
  (* reader, modes wait / single-wait / busy-loop *)
  | RSeg        (* plain before a cursor load *)
  | RLoad       (* load cursor *)
  | RRead       (* plain: slot read, return; harness: payload read, notes, counters, next index *)
  | RWaitSeg    (* plain *)
  | RWaitOp     (* muggle_sync_wait(cursor, wpos) *)
  | RBlocked    (* asleep in the futex *)
  (* reader, mode read-once *)
  | KStart      (* plain *)
  | KLock       (* pthread_mutex_lock(read_mutex) *)
  | KSeg        (* plain before a cursor load *)
  | KLoad       (* load cursor *)
  | KCheck      (* plain: read_cursor compared; slot read and read_cursor advanced, or not *)
  | KWaitOp     (* muggle_sync_wait(cursor, wpos), read_mutex held *)
  | KBlocked    (* asleep in the futex, read_mutex held *)
  | KUnlock     (* pthread_mutex_unlock(read_mutex) *)
  | KDoneSeg    (* plain: return; harness: payload read, notes, counters *)
  | TFin        (* thread exit *)
  | TDone.

Record tstate := {
  t_pc : pc;
  t_view : view;
  t_rem : nat;          (* operations still to do *)
  t_msg : Z;            (* writer: id (ticket) of the message being written *)
  t_pos : Z;            (* writer: new cursor value; reader: cursor value loaded *)
  t_idx : Z;            (* reader: 32-bit index passed to muggle_ring_buffer_read *)
  t_cnt : Z;            (* reader: reads completed (harness consumed[r]) *)
  t_ret : Z;            (* read-once: message taken, returned after the unlock *)
  t_got : Z -> Z;       (* ghost: k-th result *)
  t_gotn : Z -> Z;      (* ghost, read-once: position in read-mutex order of the k-th result *)
  t_start : Z;          (* harness rstart[r]: logical position (number of messages before it in the write
                           order) of the reader's first index; constant *)
}.

Record sys := {
  s_cfg : cfg;
  s_cursor : Z; s_cur_st : view;
  s_lock : Z; s_lock_st : view;
  s_mtx : Z; s_mtx_st : view;
  s_rc : Z;
  s_slot : Z -> Z;
  s_pay : Z -> Z;
  s_ver : view;
  s_begun : Z; s_deliv : Z;
  s_nw : Z; s_wr : Z -> Z;
  s_wbeg : Z;
  s_nt : Z; s_once : Z -> Z; s_who : Z -> nat;
  s_lapped : bool; s_uncov : nat;
  s_thr : nat -> tstate;
}.

Definition is_writer (c : cfg) (t : nat) : bool := Nat.ltb t (c_nw c).
Definition is_reader (c : cfg) (t : nat) : bool := Nat.leb (c_nw c) t && Nat.ltb t (c_nw c + c_nr c).

Definition tinit (c : cfg) (t : nat) : tstate :=
  {| t_pc := if is_writer c t then WStart
             else if is_reader c t then match c_rm c with ROnce => KStart | _ => RSeg end
             else TDone;
     t_view := vzero;
     t_rem := if is_writer c t then c_wcnt c t else if is_reader c t then c_rq c t else O;
     t_msg := 0; t_pos := 0;
     t_idx := c_idx0 c t; t_cnt := 0; t_ret := 0;
     t_got := fun _ => 0; t_gotn := fun _ => 0; t_start := rd_start c t |}.

Definition init (c : cfg) : sys :=
  {| s_cfg := c;
     s_cursor := c_pre c mod cap c; s_cur_st := vzero;
     s_lock := 0; s_lock_st := vzero;
     s_mtx := 0; s_mtx_st := vzero;
     s_rc := 0;
     s_slot := fun j => if (0 <=? j) && (j <? c_pre c) then j else -1;
     s_pay := fun m => if (0 <=? m) && (m <? c_pre c) then payf m else 0;
     s_ver := vzero;
     s_begun := c_pre c; s_deliv := 0;
     s_nw := c_pre c; s_wr := fun n => n;
     s_wbeg := c_pre c;
     s_nt := 0; s_once := fun _ => 0; s_who := fun _ => O;
     s_lapped := false; s_uncov := O;
     s_thr := tinit c |}.

(* ------------------------------------------------------------------ *)
(* setters *)
Definition set_thr (s : sys) (t : nat) (x : tstate) : sys :=
  {| s_cfg := s_cfg s; s_cursor := s_cursor s; s_cur_st := s_cur_st s; s_lock := s_lock s;
     s_lock_st := s_lock_st s; s_mtx := s_mtx s; s_mtx_st := s_mtx_st s; s_rc := s_rc s;
     s_slot := s_slot s; s_pay := s_pay s; s_ver := s_ver s; s_begun := s_begun s;
     s_deliv := s_deliv s; s_nw := s_nw s; s_wr := s_wr s; s_wbeg := s_wbeg s; s_nt := s_nt s;
     s_once := s_once s; s_who := s_who s; s_lapped := s_lapped s; s_uncov := s_uncov s;
     s_thr := upd (s_thr s) t x |}.
Definition set_thrs (s : sys) (f : nat -> tstate) : sys :=
  {| s_cfg := s_cfg s; s_cursor := s_cursor s; s_cur_st := s_cur_st s; s_lock := s_lock s;
     s_lock_st := s_lock_st s; s_mtx := s_mtx s; s_mtx_st := s_mtx_st s; s_rc := s_rc s;
     s_slot := s_slot s; s_pay := s_pay s; s_ver := s_ver s; s_begun := s_begun s;
     s_deliv := s_deliv s; s_nw := s_nw s; s_wr := s_wr s; s_wbeg := s_wbeg s; s_nt := s_nt s;
     s_once := s_once s; s_who := s_who s; s_lapped := s_lapped s; s_uncov := s_uncov s;
     s_thr := f |}.
Definition set_lock (s : sys) (v : Z) (st : view) : sys :=
  {| s_cfg := s_cfg s; s_cursor := s_cursor s; s_cur_st := s_cur_st s; s_lock := v;
     s_lock_st := st; s_mtx := s_mtx s; s_mtx_st := s_mtx_st s; s_rc := s_rc s;
     s_slot := s_slot s; s_pay := s_pay s; s_ver := s_ver s; s_begun := s_begun s;
     s_deliv := s_deliv s; s_nw := s_nw s; s_wr := s_wr s; s_wbeg := s_wbeg s; s_nt := s_nt s;
     s_once := s_once s; s_who := s_who s; s_lapped := s_lapped s; s_uncov := s_uncov s;
     s_thr := s_thr s |}.
Definition set_mtx (s : sys) (v : Z) (st : view) : sys :=
  {| s_cfg := s_cfg s; s_cursor := s_cursor s; s_cur_st := s_cur_st s; s_lock := s_lock s;
     s_lock_st := s_lock_st s; s_mtx := v; s_mtx_st := st; s_rc := s_rc s;
     s_slot := s_slot s; s_pay := s_pay s; s_ver := s_ver s; s_begun := s_begun s;
     s_deliv := s_deliv s; s_nw := s_nw s; s_wr := s_wr s; s_wbeg := s_wbeg s; s_nt := s_nt s;
     s_once := s_once s; s_who := s_who s; s_lapped := s_lapped s; s_uncov := s_uncov s;
     s_thr := s_thr s |}.
(* the cursor store: publication; ghost written grows by the message *)
Definition set_publish (s : sys) (v : Z) (st : view) (m : Z) : sys :=
  {| s_cfg := s_cfg s; s_cursor := v; s_cur_st := st; s_lock := s_lock s;
     s_lock_st := s_lock_st s; s_mtx := s_mtx s; s_mtx_st := s_mtx_st s; s_rc := s_rc s;
     s_slot := s_slot s; s_pay := s_pay s; s_ver := s_ver s; s_begun := s_begun s;
     s_deliv := s_deliv s; s_nw := s_nw s + 1; s_wr := zupd (s_wr s) (s_nw s) m;
     s_wbeg := s_wbeg s; s_nt := s_nt s;
     s_once := s_once s; s_who := s_who s; s_lapped := s_lapped s; s_uncov := s_uncov s;
     s_thr := s_thr s |}.
(* harness: ticket + payload store *)
Definition set_ticket (s : sys) : sys :=
  let id := s_begun s in
  {| s_cfg := s_cfg s; s_cursor := s_cursor s; s_cur_st := s_cur_st s; s_lock := s_lock s;
     s_lock_st := s_lock_st s; s_mtx := s_mtx s; s_mtx_st := s_mtx_st s; s_rc := s_rc s;
     s_slot := s_slot s; s_pay := zupd (s_pay s) id (payf id);
     s_ver := vupd (s_ver s) (CPay id) (vget (s_ver s) (CPay id) + 1); s_begun := id + 1;
     s_deliv := s_deliv s; s_nw := s_nw s; s_wr := s_wr s; s_wbeg := s_wbeg s; s_nt := s_nt s;
     s_once := s_once s; s_who := s_who s; s_lapped := s_lapped s; s_uncov := s_uncov s;
     s_thr := s_thr s |}.
(* the slot store r->blocks[r->cursor].data = data *)
Definition set_slot (s : sys) (m : Z) (lap : bool) : sys :=
  let j := s_cursor s in
  {| s_cfg := s_cfg s; s_cursor := s_cursor s; s_cur_st := s_cur_st s; s_lock := s_lock s;
     s_lock_st := s_lock_st s; s_mtx := s_mtx s; s_mtx_st := s_mtx_st s; s_rc := s_rc s;
     s_slot := zupd (s_slot s) j m; s_pay := s_pay s;
     s_ver := vupd (s_ver s) (CSlot j) (vget (s_ver s) (CSlot j) + 1); s_begun := s_begun s;
     s_deliv := s_deliv s; s_nw := s_nw s; s_wr := s_wr s; s_wbeg := s_wbeg s + 1; s_nt := s_nt s;
     s_once := s_once s; s_who := s_who s; s_lapped := s_lapped s || lap; s_uncov := s_uncov s;
     s_thr := s_thr s |}.
(* a reader's harness segment: counters and the uncovered-read monitor *)
Definition set_read (s : sys) (unc : nat) : sys :=
  {| s_cfg := s_cfg s; s_cursor := s_cursor s; s_cur_st := s_cur_st s; s_lock := s_lock s;
     s_lock_st := s_lock_st s; s_mtx := s_mtx s; s_mtx_st := s_mtx_st s; s_rc := s_rc s;
     s_slot := s_slot s; s_pay := s_pay s; s_ver := s_ver s; s_begun := s_begun s;
     s_deliv := s_deliv s + 1; s_nw := s_nw s; s_wr := s_wr s; s_wbeg := s_wbeg s; s_nt := s_nt s;
     s_once := s_once s; s_who := s_who s; s_lapped := s_lapped s; s_uncov := (s_uncov s + unc)%nat;
     s_thr := s_thr s |}.
Definition set_uncov (s : sys) (unc : nat) : sys :=
  {| s_cfg := s_cfg s; s_cursor := s_cursor s; s_cur_st := s_cur_st s; s_lock := s_lock s;
     s_lock_st := s_lock_st s; s_mtx := s_mtx s; s_mtx_st := s_mtx_st s; s_rc := s_rc s;
     s_slot := s_slot s; s_pay := s_pay s; s_ver := s_ver s; s_begun := s_begun s;
     s_deliv := s_deliv s; s_nw := s_nw s; s_wr := s_wr s; s_wbeg := s_wbeg s; s_nt := s_nt s;
     s_once := s_once s; s_who := s_who s; s_lapped := s_lapped s; s_uncov := (s_uncov s + unc)%nat;
     s_thr := s_thr s |}.
(* read-once: the take under read_mutex (read_cursor advanced) *)
Definition set_take (s : sys) (t : nat) (m : Z) (unc : nat) : sys :=
  {| s_cfg := s_cfg s; s_cursor := s_cursor s; s_cur_st := s_cur_st s; s_lock := s_lock s;
     s_lock_st := s_lock_st s; s_mtx := s_mtx s; s_mtx_st := s_mtx_st s;
     s_rc := (s_rc s + 1) mod cap (s_cfg s);
     s_slot := s_slot s; s_pay := s_pay s;
     s_ver := vupd (s_ver s) CRc (vget (s_ver s) CRc + 1); s_begun := s_begun s;
     s_deliv := s_deliv s; s_nw := s_nw s; s_wr := s_wr s; s_wbeg := s_wbeg s; s_nt := s_nt s + 1;
     s_once := zupd (s_once s) (s_nt s) m; s_who := zupdn (s_who s) (s_nt s) t;
     s_lapped := s_lapped s; s_uncov := (s_uncov s + unc)%nat;
     s_thr := s_thr s |}.

Definition set_pc (x : tstate) (p : pc) : tstate :=
  {| t_pc := p; t_view := t_view x; t_rem := t_rem x; t_msg := t_msg x; t_pos := t_pos x;
     t_idx := t_idx x; t_cnt := t_cnt x; t_ret := t_ret x; t_got := t_got x; t_gotn := t_gotn x; t_start := t_start x |}.
Definition set_pcv (x : tstate) (p : pc) (v : view) : tstate :=
  {| t_pc := p; t_view := v; t_rem := t_rem x; t_msg := t_msg x; t_pos := t_pos x;
     t_idx := t_idx x; t_cnt := t_cnt x; t_ret := t_ret x; t_got := t_got x; t_gotn := t_gotn x; t_start := t_start x |}.
Definition set_pcvp (x : tstate) (p : pc) (v : view) (pos : Z) : tstate :=
  {| t_pc := p; t_view := v; t_rem := t_rem x; t_msg := t_msg x; t_pos := pos;
     t_idx := t_idx x; t_cnt := t_cnt x; t_ret := t_ret x; t_got := t_got x; t_gotn := t_gotn x; t_start := t_start x |}.

(* ------------------------------------------------------------------ *)
(* cells and notes of the trace *)
Definition cell_cursor : nat := 0%nat.
Definition cell_wlock : nat := 1%nat.
Definition cell_rmtx : nat := 2%nat.
Definition cell_thr : nat := 3%nat.
Definition note_put : nat := 1%nat.
Definition note_got : nat := 2%nat.
Definition note_pay : nat := 3%nat.

(* harness throttle (c02_driver.c can_begin): a writer may begin message k only when k + 1 is less than a
   capacity ahead of the next index of every reader that still has reads to do (a reader that has
   finished its quota no longer constrains the writers); read-once: of the number of delivered messages *)
Definition active (x : tstate) : bool := negb (Nat.eqb (t_rem x) O).
Definition rnext (x : tstate) : Z := t_start x + t_cnt x.
Definition min_next (thr : nat -> tstate) (readers : list nat) : Z :=
  fold_left (fun lo u => if active (thr u) && ((lo <? 0) || (rnext (thr u) <? lo)) then rnext (thr u) else lo)
            readers (-1).
Definition readers (c : cfg) : list nat := seq (c_nw c) (c_nr c).
Definition can_begin (s : sys) : bool :=
  let c := s_cfg s in
  match c_rm c with
  | ROnce => s_begun s + 1 <? s_deliv s + cap c
  | _ => let lo := min_next (s_thr s) (readers c) in
         (lo <? 0) || (s_begun s + 1 <? lo + cap c)
  end.

(* the documented precondition, checked when a write begins (slot store): writes begun stay
   less than capacity ahead of the next index of every reader that still reads (read-once: of the
   shared position) *)
Definition nolap_ok (s : sys) (wbeg' : Z) : bool :=
  let c := s_cfg s in
  match c_rm c with
  | ROnce => wbeg' <? s_nt s + cap c
  | _ => forallb (fun u => negb (active (s_thr s u)) || (wbeg' <? rnext (s_thr s u) + cap c)) (readers c)
  end.

Definition is_blocked (p : pc) : bool := match p with RBlocked | KBlocked => true | _ => false end.
Definition resume (p : pc) : pc := match p with RBlocked => RSeg | KBlocked => KSeg | q => q end.
Fixpoint count_blocked (thr : nat -> tstate) (n : nat) : Z :=
  match n with
  | O => 0
  | S m => count_blocked thr m + (if is_blocked (t_pc (thr m)) then 1 else 0)
  end.
Fixpoint first_blocked (thr : nat -> tstate) (n : nat) : option nat :=
  match n with
  | O => None
  | S m => match first_blocked thr m with
           | Some u => Some u
           | None => if is_blocked (t_pc (thr m)) then Some m else None
           end
  end.
Definition wake_all (thr : nat -> tstate) : nat -> tstate :=
  fun u => if is_blocked (t_pc (thr u)) then set_pc (thr u) (resume (t_pc (thr u))) else thr u.

Definition ld_mo (P : params) (r : rmode) : memorder :=
  match r with RWait | RSingleWait => mo_ld_wait P | RBusy => mo_ld_busy P | ROnce => mo_ld_once P end.

(* the plain store of one cell by thread state x: new version, own view follows *)
Definition bump (v : view) (ver : view) (c : pcell) : view := vupd v c (vget ver c + 1).
Definition covered (v ver : view) (c : pcell) : bool := vget v c =? vget ver c.
Definition unc1 (b : bool) : nat := if b then O else 1%nat.

Definition step (P : params) (s : sys) (t : nat) (ch : nat) : option (sys * label) :=
  let c := s_cfg s in
  let x := s_thr s t in
  let go p := set_thr s t (set_pc x p) in
  let nthreads := (c_nw c + c_nr c)%nat in
  match t_pc x with
  | TDone => None
  | RBlocked => None
  | KBlocked => None
  | TFin => Some (go TDone, LExit)
  (* ---------------- writer ---------------- *)
  | WStart =>
    match t_rem x with
    | O => Some (go TFin, LPlain [])
    | S rem' =>
      if c_thr c && negb (can_begin s) then Some (go WThr, LPlain [])
      else
        let id := s_begun s in
        let v1 := bump (t_view x) (s_ver s) (CPay id) in
        let s1 := set_ticket s in
        match c_wm c with
        | WLock =>
          let x' := {| t_pc := WAcq; t_view := v1; t_rem := rem'; t_msg := id; t_pos := t_pos x;
                       t_idx := t_idx x; t_cnt := t_cnt x; t_ret := t_ret x; t_got := t_got x;
                       t_gotn := t_gotn x; t_start := t_start x |} in
          Some (set_thr s1 t x', LPlain [(note_put, id)])
        | WSingle =>
          (* muggle_ring_buffer_write_single: the slot store is in the same plain segment *)
          let j := s_cursor s1 in
          let v2 := bump v1 (s_ver s1) (CSlot j) in
          let s2 := set_slot s1 id (negb (nolap_ok s1 (s_wbeg s1 + 1))) in
          let x' := {| t_pc := WCursor; t_view := v2; t_rem := rem'; t_msg := id;
                       t_pos := (j + 1) mod cap c;
                       t_idx := t_idx x; t_cnt := t_cnt x; t_ret := t_ret x; t_got := t_got x;
                       t_gotn := t_gotn x; t_start := t_start x |} in
          Some (set_thr s2 t x', LPlain [(note_put, id)])
        end
    end
  | WThr => Some (go WStart, LEv (Ev OPlain cell_thr MoNone 0 0 0))
  | WAcq =>
    let mo := mo_tas P in
    let prev := s_lock s in
    let x' := set_pcv x (if prev =? 0 then WSlotSeg else WFailSeg) (acq_join mo (t_view x) (s_lock_st s)) in
    Some (set_thr (set_lock s 1 (rmw_stamp mo (t_view x) (s_lock_st s))) t x',
          LEv (Ev OTas cell_wlock mo prev 0 0))
  | WFailSeg => Some (go WYield, LPlain [])
  | WYield => Some (go WRetrySeg, LEv (Ev OYield 0%nat MoNone 0 0 0))
  | WRetrySeg => Some (go WAcq, LPlain [])
  | WSlotSeg =>
    let j := s_cursor s in
    let v2 := bump (t_view x) (s_ver s) (CSlot j) in
    let s2 := set_slot s (t_msg x) (negb (nolap_ok s (s_wbeg s + 1))) in
    Some (set_thr s2 t (set_pcvp x WCursor v2 ((j + 1) mod cap c)), LPlain [])
  | WCursor =>
    let mo := match c_wm c with WLock => mo_st_lock P | WSingle => mo_st_single P end in
    let s1 := set_publish s (t_pos x) (rel_stamp mo (t_view x)) (t_msg x) in
    let nxt := match c_wm c, c_rm c with
               | WLock, _ => WUnlockSeg
               | WSingle, RBusy => WStart
               | WSingle, _ => WWakeSeg
               end in
    Some (set_thr s1 t (set_pc x nxt), LEv (Ev OStore cell_cursor mo (t_pos x) 0 0))
  | WUnlockSeg => Some (go WUnlock, LPlain [])
  | WUnlock =>
    let mo := mo_clear P in
    let nxt := match c_rm c with RBusy => WStart | _ => WWakeSeg end in
    Some (set_thr (set_lock s 0 (rel_stamp mo (t_view x))) t (set_pc x nxt),
          LEv (Ev OClear cell_wlock mo 0 0 0))
  | WWakeSeg => Some (go WWake, LPlain [])
  | WWake =>
    match c_rm c with
    | RWait =>
      (* muggle_sync_wake_all *)
      let w := count_blocked (s_thr s) nthreads in
      Some (set_thrs s (upd (wake_all (s_thr s)) t (set_pc x WStart)),
            LEv (Ev OFwake cell_cursor MoNone 0 w 0))
    | _ =>
      (* muggle_sync_wake_one: the scheduler wakes the lowest sleeping thread *)
      match first_blocked (s_thr s) nthreads with
      | Some u =>
        let s1 := set_thr s u (set_pc (s_thr s u) (resume (t_pc (s_thr s u)))) in
        Some (set_thr s1 t (set_pc x WStart), LEv (Ev OFwake cell_cursor MoNone 1 1 0))
      | None => Some (go WStart, LEv (Ev OFwake cell_cursor MoNone 1 0 0))
      end
    end
  (* ---------------- reader: wait / single-wait / busy-loop ---------------- *)
  | RSeg =>
    match t_rem x with
    | O => Some (go TFin, LPlain [])
    | S _ => Some (go RLoad, LPlain [])
    end
  | RLoad =>
    let mo := ld_mo P (c_rm c) in
    let wpos := s_cursor s in
    let rpos := t_idx x mod cap c in
    let nxt := if wpos =? rpos then (match c_rm c with RBusy => RSeg | _ => RWaitSeg end) else RRead in
    Some (set_thr s t (set_pcvp x nxt (acq_join mo (t_view x) (s_cur_st s)) wpos),
          LEv (Ev OLoad cell_cursor mo wpos 0 0))
  | RWaitSeg => Some (go RWaitOp, LPlain [])
  | RWaitOp =>
    (* compare-and-block; a wait that would block may instead be interrupted (returns -1 with
       EINTR, schedule choice 1, logged c = 2) or wake spuriously (returns 0, choice 2, c = 3):
       the code ignores the return value and loops *)
    if s_cursor s =? t_pos x
    then (if Nat.eqb ch 1 then Some (go RSeg, LEv (Ev OFwait cell_cursor MoNone (t_pos x) (s_cursor s) 2))
          else if Nat.eqb ch 2 then Some (go RSeg, LEv (Ev OFwait cell_cursor MoNone (t_pos x) (s_cursor s) 3))
          else Some (go RBlocked, LEv (Ev OFwait cell_cursor MoNone (t_pos x) (s_cursor s) 1)))
    else Some (go RSeg, LEv (Ev OFwait cell_cursor MoNone (t_pos x) (s_cursor s) 0))
  | RRead =>
    let j := t_idx x mod cap c in
    let m := s_slot s j in
    let cs := covered (t_view x) (s_ver s) (CSlot j) in
    (* the harness dereferences the pointer only when it is a payload object's address; the
       ring itself never looks at the value *)
    let v := c_val c m in
    let pv := if 0 <=? v then s_pay s v else -1 in
    let cp := if 0 <=? v then covered (t_view x) (s_ver s) (CPay v) else true in
    let rem' := pred (t_rem x) in
    let x' := {| t_pc := match rem' with O => TFin | S _ => RLoad end;
                 t_view := t_view x; t_rem := rem'; t_msg := t_msg x; t_pos := t_pos x;
                 t_idx := (t_idx x + 1) mod two32; t_cnt := t_cnt x + 1; t_ret := m;
                 t_got := zupd (t_got x) (t_cnt x) m; t_gotn := t_gotn x; t_start := t_start x |} in
    Some (set_thr (set_read s (unc1 cs + unc1 cp)) t x', LPlain [(note_got, v); (note_pay, pv)])
  (* ---------------- reader: read-once ---------------- *)
  | KStart =>
    match t_rem x with
    | O => Some (go TFin, LPlain [])
    | S _ => Some (go KLock, LPlain [])
    end
  | KLock =>
    if s_mtx s =? 0 then
      Some (set_thr (set_mtx s 1 (s_mtx_st s)) t (set_pcv x KSeg (vjoin (t_view x) (s_mtx_st s))),
            LEv (Ev OMlock cell_rmtx MoNone 0 0 0))
    else None   (* blocked until the owner unlocks *)
  | KSeg => Some (go KLoad, LPlain [])
  | KLoad =>
    let mo := ld_mo P (c_rm c) in
    let wpos := s_cursor s in
    Some (set_thr s t (set_pcvp x KCheck (acq_join mo (t_view x) (s_cur_st s)) wpos),
          LEv (Ev OLoad cell_cursor mo wpos 0 0))
  | KCheck =>
    let crc := covered (t_view x) (s_ver s) CRc in
    if s_rc s =? t_pos x then
      Some (set_thr (set_uncov s (unc1 crc)) t (set_pc x KWaitOp), LPlain [])
    else
      let j := s_rc s in
      let m := s_slot s j in
      let cs := covered (t_view x) (s_ver s) (CSlot j) in
      let x' := {| t_pc := KUnlock; t_view := bump (t_view x) (s_ver s) CRc; t_rem := t_rem x;
                   t_msg := t_msg x; t_pos := t_pos x; t_idx := t_idx x; t_cnt := t_cnt x;
                   t_ret := m; t_got := t_got x; t_gotn := zupd (t_gotn x) (t_cnt x) (s_nt s);
                   t_start := t_start x |} in
      Some (set_thr (set_take s t m (unc1 crc + unc1 cs)) t x', LPlain [])
  | KWaitOp =>
    if s_cursor s =? t_pos x
    then (if Nat.eqb ch 1 then Some (go KSeg, LEv (Ev OFwait cell_cursor MoNone (t_pos x) (s_cursor s) 2))
          else if Nat.eqb ch 2 then Some (go KSeg, LEv (Ev OFwait cell_cursor MoNone (t_pos x) (s_cursor s) 3))
          else Some (go KBlocked, LEv (Ev OFwait cell_cursor MoNone (t_pos x) (s_cursor s) 1)))
    else Some (go KSeg, LEv (Ev OFwait cell_cursor MoNone (t_pos x) (s_cursor s) 0))
  | KUnlock =>
    Some (set_thr (set_mtx s 0 (t_view x)) t (set_pc x KDoneSeg), LEv (Ev OMunlock cell_rmtx MoNone 0 0 0))
  | KDoneSeg =>
    let m := t_ret x in
    let v := c_val c m in
    let pv := if 0 <=? v then s_pay s v else -1 in
    let cp := if 0 <=? v then covered (t_view x) (s_ver s) (CPay v) else true in
    let rem' := pred (t_rem x) in
    let x' := {| t_pc := match rem' with O => TFin | S _ => KLock end;
                 t_view := t_view x; t_rem := rem'; t_msg := t_msg x; t_pos := t_pos x;
                 t_idx := (t_idx x + 1) mod two32; t_cnt := t_cnt x + 1; t_ret := m;
                 t_got := zupd (t_got x) (t_cnt x) m; t_gotn := t_gotn x; t_start := t_start x |} in
    Some (set_thr (set_read s (unc1 cp)) t x', LPlain [(note_got, v); (note_pay, pv)])
  end.
