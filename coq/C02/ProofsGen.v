(* C02 — what the model assumes about muggle_ring_buffer_init's capacity rounding and about the C
   types of the fields, and the (boolean, computable) checks against what is re-extracted from the
   code on every run (coq/gen/Params_C02.v): the table of rounded capacities the code computes, the
   sizeof / signedness of the fields, the prototypes. *)
From MV Require Import C02.Model.
Local Open Scope Z_scope.

(* ---------------- capacity rounding: smallest power of two >= n ---------------- *)
Lemma log2up_fuel_spec fuel : forall k n,
  (k = O \/ 2 ^ (Z.of_nat k - 1) < n) -> n <= 2 ^ (Z.of_nat k + Z.of_nat fuel) ->
  let r := log2up_fuel fuel k n in
  n <= 2 ^ Z.of_nat r /\ (r = O \/ 2 ^ (Z.of_nat r - 1) < n) /\ (k <= r <= k + fuel)%nat.
Proof.
  induction fuel as [|f IH]; intros k n Hlo Hhi; cbn [log2up_fuel].
  - rewrite Z.add_0_r in Hhi. split; [exact Hhi|]. split; [exact Hlo|lia].
  - destruct (Z.leb_spec n (2 ^ Z.of_nat k)) as [H|H].
    + split; [exact H|]. split; [exact Hlo|lia].
    + assert (H1 : S k = O \/ 2 ^ (Z.of_nat (S k) - 1) < n).
      { right. replace (Z.of_nat (S k) - 1) with (Z.of_nat k) by lia. exact H. }
      assert (H2 : n <= 2 ^ (Z.of_nat (S k) + Z.of_nat f)).
      { replace (Z.of_nat (S k) + Z.of_nat f) with (Z.of_nat k + Z.of_nat (S f)) by lia. exact Hhi. }
      destruct (IH (S k) n H1 H2) as (A & B & C). split; [exact A|]. split; [exact B|lia].
Qed.

(* for every request 0 < n <= 2^40: 2^(cap_log n) is the smallest power of two >= n *)
Lemma cap_log_spec n : 0 < n <= 2 ^ 40 ->
  n <= 2 ^ Z.of_nat (cap_log n) /\ (cap_log n = O \/ 2 ^ (Z.of_nat (cap_log n) - 1) < n).
Proof.
  intros H. unfold cap_log.
  destruct (log2up_fuel_spec 40 O n (or_introl eq_refl)) as (A & B & _); [simpl; lia|]. split; assumption.
Qed.

Lemma pow2_le_mono a b : 0 <= a <= b -> 2 ^ a <= 2 ^ b.
Proof. intros H. apply Z.pow_le_mono_r; lia. Qed.

(* muggle_ring_buffer_init accepts exactly the requests 1 .. 2^30 and then uses the smallest power
   of two that is >= the request (at most 2^30); 0 and everything above 2^30 (up to the largest
   uint32_t) is refused *)
Theorem init_capacity_spec n : 0 <= n < 2 ^ 32 ->
  (0 < n <= 2 ^ 30 ->
     exists k, init_capacity n = Some (2 ^ Z.of_nat k) /\ (k <= 30)%nat /\ n <= 2 ^ Z.of_nat k /\
               (k = O \/ 2 ^ (Z.of_nat k - 1) < n)) /\
  (n = 0 \/ 2 ^ 30 < n -> init_capacity n = None).
Proof.
  intros Hn. split.
  - intros H. assert (H40 : 0 < n <= 2 ^ 40) by (split; [lia|]; transitivity (2 ^ 30); [lia|apply pow2_le_mono; lia]).
    destruct (cap_log_spec n H40) as [A B]. exists (cap_log n).
    assert (Hk : (cap_log n <= 30)%nat).
    { destruct B as [B|B]; [lia|]. destruct (Nat.le_gt_cases (cap_log n) 30) as [L|L]; [exact L|exfalso].
      assert (2 ^ 30 <= 2 ^ (Z.of_nat (cap_log n) - 1)) by (apply pow2_le_mono; lia). lia. }
    unfold init_capacity. destruct (Z.leb_spec n 0); [lia|].
    assert (Hle : 2 ^ Z.of_nat (cap_log n) <= 2 ^ 30) by (apply pow2_le_mono; lia).
    destruct (Z.leb_spec (2 ^ Z.of_nat (cap_log n)) (2 ^ 30)); [|lia].
    split; [reflexivity|]. split; [exact Hk|]. split; assumption.
  - intros [H|H]; unfold init_capacity.
    + subst n. reflexivity.
    + destruct (Z.leb_spec n 0); [reflexivity|].
      assert (H40 : 0 < n <= 2 ^ 40) by (split; [lia|]; transitivity (2 ^ 32); [lia|apply pow2_le_mono; lia]).
      destruct (cap_log_spec n H40) as [A _].
      destruct (Z.leb_spec (2 ^ Z.of_nat (cap_log n)) (2 ^ 30)); [lia|reflexivity].
Qed.

Example init_capacity_examples :
  map init_capacity [0; 1; 2; 3; 5; 1024; 1025; 2 ^ 20; 2 ^ 20 + 1; 2 ^ 30; 2 ^ 30 + 1; 2 ^ 32 - 1] =
  [None; Some 1; Some 2; Some 4; Some 8; Some 1024; Some 2048; Some (2 ^ 20); Some (2 ^ 21); Some (2 ^ 30); None; None].
Proof. vm_compute. reflexivity. Qed.

(* ---------------- the table computed by the code on this run ---------------- *)
(* (requested capacity, return code of muggle_ring_buffer_init, capacity field or -1) *)
Definition cap_row_ok (r : Z * Z * Z) : bool :=
  match r with
  | (n, rc, cp) =>
    match init_capacity n with
    | Some c => (rc =? 0) && (cp =? c)
    | None => (rc =? err_invalid_param) && (cp =? -1)
    end
  end.

(* requests the table must contain: every n in 0 .. 1025, 2^k - 1, 2^k, 2^k + 1 for k = 11 .. 19,
   2^20 - 1, 2^20, and the refused ones 2^30 + 1, 2^31 - 1, 2^31, 2^31 + 1, 2^32 - 1 *)
Definition required_caps : list Z :=
  map Z.of_nat (seq 0 1026) ++
  flat_map (fun k => [2 ^ Z.of_nat k - 1; 2 ^ Z.of_nat k; 2 ^ Z.of_nat k + 1]) (seq 11 9) ++
  [2 ^ 20 - 1; 2 ^ 20; 2 ^ 30 + 1; 2 ^ 31 - 1; 2 ^ 31; 2 ^ 31 + 1; 2 ^ 32 - 1].

Definition cap_table_ok (tbl : list (Z * Z * Z)) : bool :=
  forallb cap_row_ok tbl &&
  forallb (fun n => existsb (fun r => fst (fst r) =? n) tbl) required_caps.

Lemma cap_table_ok_row tbl n rc cp : cap_table_ok tbl = true -> In (n, rc, cp) tbl ->
  match init_capacity n with
  | Some c => rc = 0 /\ cp = c
  | None => rc = err_invalid_param /\ cp = -1
  end.
Proof.
  intros H Hin. unfold cap_table_ok in H. apply andb_prop in H as [H _].
  rewrite forallb_forall in H. specialize (H _ Hin). unfold cap_row_ok in H.
  destruct (init_capacity n); apply andb_prop in H as [A B]; apply Z.eqb_eq in A, B; split; assumption.
Qed.

(* ---------------- C types ---------------- *)
Fixpoint zz_list_eqb (a b : list (Z * Z)) : bool :=
  match a, b with
  | [], [] => true
  | (x, y) :: a', (u, v) :: b' => (x =? u) && (y =? v) && zz_list_eqb a' b'
  | _, _ => false
  end.
Fixpoint z_list_eqb (a b : list Z) : bool :=
  match a, b with
  | [], [] => true
  | x :: a', u :: b' => (x =? u) && z_list_eqb a' b'
  | _, _ => false
  end.
(* fields: (sizeof, signed) of capacity, cursor, read_cursor, flag, write_mode, read_mode; sigs: the prototypes of
   muggle_ring_buffer_read / _write / _init are exactly the expected ones; blk: (offset, size) of the pointer in a
   block; narrow: number of integer variables / integer casts narrower than 32 bits in the functions of ring_buffer.c *)
Definition types_ok (fields : list (Z * Z)) (sigs : list Z) (blk : Z * Z) (narrow : nat) : bool :=
  zz_list_eqb fields ty_fields && z_list_eqb sigs [1; 1; 1] &&
  (fst blk =? fst ty_block_ptr) && (snd blk =? snd ty_block_ptr) && Nat.eqb narrow O.

Lemma zz_list_eqb_eq a b : zz_list_eqb a b = true -> a = b.
Proof.
  revert b. induction a as [|[x y] a IH]; intros [|[u v] b]; simpl; try discriminate; [reflexivity|].
  intros H. apply andb_prop in H as [H H3]. apply andb_prop in H as [H1 H2].
  apply Z.eqb_eq in H1, H2. subst. f_equal. apply IH. exact H3.
Qed.
Lemma types_ok_fields fields sigs blk narrow : types_ok fields sigs blk narrow = true ->
  fields = ty_fields /\ narrow = O.
Proof.
  unfold types_ok. intros H. repeat (apply andb_prop in H; destruct H as [H ?]).
  split; [apply zz_list_eqb_eq; assumption|]. apply Nat.eqb_eq. assumption.
Qed.
