(* C02 — visibility theorem for every schedule, all writer and reader modes. *)
From MV Require Import C02.Model C02.ProofsBase C02.ProofsCtl C02.ProofsFun C02.ProofsFunStep
  C02.ProofsView C02.ProofsViewStep.
Local Open Scope Z_scope.

(* side condition on the code's memory orders, independent of the scenario *)
Definition mo_sufficient (P : params) : bool :=
  is_acq (mo_tas P) && is_rel (mo_clear P) && is_rel (mo_st_lock P) && is_rel (mo_st_single P) &&
  is_acq (mo_ld_wait P) && is_acq (mo_ld_busy P) && is_acq (mo_ld_once P).

Lemma mo_sufficient_ok P c : mo_sufficient P = true -> mo_ok P c = true.
Proof.
  unfold mo_sufficient, mo_ok. intros H.
  repeat (apply andb_prop in H; destruct H as [H ?]).
  destruct (c_wm c), (c_rm c); simpl;
    repeat match goal with E : _ = true |- _ => rewrite E; clear E end; reflexivity.
Qed.

Definition FullInv (c : cfg) (s : sys) : Prop :=
  AInv c s /\ (s_lapped s = false -> BInv c s /\ VInv c s).

Theorem rb_view_invariants P c sched : wf_cfg c -> mo_ok P c = true ->
  FullInv c (exec sys (step P) (init c) sched).
Proof.
  intros Hwf Hmo. apply inv_exec.
  - intros s t ch s' l [HA HBV] Hs. split; [eapply step_ainv; eauto|].
    intros Hl. pose proof (lapped_mono P s t ch s' l Hs Hl) as Hl0. destruct (HBV Hl0) as [HB HV].
    assert (HB' : BInv c s') by (eapply step_binv; eauto).
    split; [exact HB'|]. eapply step_vinv; eauto.
  - split; [apply init_ainv|]. intros _. split; [now apply init_binv|now apply init_vinv].
Qed.

(* every plain read of a slot, of a payload and of read_cursor by a reader that receives a
   message is covered by the reader's view: what the producer stored before the write is visible *)
Theorem rb_payload_visible_all P c sched : wf_cfg c -> mo_sufficient P = true ->
  let s := exec sys (step P) (init c) sched in
  s_lapped s = false -> s_uncov s = 0%nat.
Proof.
  intros Hwf Hmo s Hl.
  destruct (rb_view_invariants P c sched Hwf (mo_sufficient_ok P c Hmo)) as [_ H]. fold s in H.
  destruct (H Hl) as [_ [Vsh _]]. apply (v_unc _ _ Vsh).
Qed.
