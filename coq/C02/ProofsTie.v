(* C02 — second tie (translator kind, DESIGN.md 4.4): the integer content of the functions of
   ring_buffer.c - index arithmetic and the conditions between their atomic / futex operations -
   is sliced out of the C text of every run (lib/props/c02_slice.py over clang's JSON AST) into the
   gen_ definitions of gen/Params_C02.v.  Here: the reference functions those must equal on the whole
   domain (capacity 2^k for every k <= 30, every position, every 32-bit index), the decision
   tactic that proves it independently of the SHAPE of the generated terms (unfold, remove the
   32-bit wraps that cannot fire, masks and remainders to `mod`, split every conditional, decide
   the branches by time-limited lia / nia), and the lemmas that say the model's step function
   computes exactly these references.

   A generated function has the inputs (cap cur rc wpos idx) = (r->capacity, r->cursor read
   plainly, r->read_cursor, the value of the atomic load of r->cursor, the index argument) and the
   result (kind, val, slot_w, cur_st, rc_st, wake): kind 0 returns (val = slot whose payload is
   returned or -1), 1 futex wait on the cursor for value val then loop, 2 loop again; slot_w = slot
   the data argument is stored into; cur_st = value stored to the cursor; rc_st = value stored
   to read_cursor; wake 0 none / 1 one / 2 all; -1 = none. *)
From MV Require Import Lib.Leaf C02.Model C02.ProofsBase.
From Coq Require Import ZifyBool.
Local Open Scope Z_scope.

Definition out := (Z * Z * Z * Z * Z * Z)%type.

(* muggle_ring_buffer_write_lock / _write_single: slot = cursor, new cursor = cursor + 1 modulo capacity *)
Definition ref_write (cap cur : Z) : out := (0, -1, cur, (cur + 1) mod cap, -1, 0).
(* wake function of read mode m: wait -> all, single-wait and read-once -> one, busy loop -> none *)
Definition ref_wake (m : Z) : out := (0, -1, -1, -1, -1, if m =? 0 then 2 else if m =? 2 then 0 else 1).
(* read function of read mode m, one iteration of its loop *)
Definition ref_read (m cap rc wpos idx : Z) : out :=
  if m =? 3 then
    (if rc =? wpos then (1, wpos, -1, -1, -1, 0) else (0, rc, -1, -1, (rc + 1) mod cap, 0))
  else if wpos =? idx mod cap then
    (if m =? 2 then (2, -1, -1, -1, -1, 0) else (1, wpos, -1, -1, -1, 0))
  else (0, idx mod cap, -1, -1, -1, 0).
(* muggle_ring_buffer_write calls write_functions[write_mode] then wake_functions[read_mode];
   muggle_ring_buffer_read calls read_functions[read_mode] with idx modulo the capacity *)
Definition ref_write_entry (wm rm : Z) : list (Z * Z) := [(0, wm); (1, rm)].
Definition ref_read_entry (cap rm idx : Z) : Z * Z * Z := (2, rm, idx mod cap).

(* ---------------- arithmetic used by the tactic ---------------- *)
Lemma land_mask n x : 0 <= n -> 0 <= x -> Z.land x (2 ^ n - 1) = x mod 2 ^ n.
Proof.
  intros Hn Hx. replace (2 ^ n - 1) with (Z.ones n) by (rewrite Z.ones_equiv; lia).
  apply Z.land_ones. exact Hn.
Qed.
Lemma land_mask_l n x : 0 <= n -> 0 <= x -> Z.land (2 ^ n - 1) x = x mod 2 ^ n.
Proof. intros. rewrite Z.land_comm. now apply land_mask. Qed.
Lemma pow_bounds (k : nat) : (k <= 30)%nat -> 1 <= 2 ^ Z.of_nat k <= 1073741824.
Proof.
  intros H. split.
  - apply (Z.pow_le_mono_r 2 0 (Z.of_nat k)); lia.
  - change 1073741824 with (2 ^ 30). apply Z.pow_le_mono_r; lia.
Qed.
Lemma mod_mod_pow (k : nat) x : (x mod 2 ^ Z.of_nat k) mod 2 ^ Z.of_nat k = x mod 2 ^ Z.of_nat k.
Proof. apply Z.mod_mod. pose proof (Z.pow_pos_nonneg 2 (Z.of_nat k)). lia. Qed.

Lemma mod_self_eq a P : 0 < P -> a = P -> a mod P = 0.
Proof. intros HP ->. apply Z_mod_same_full. Qed.
Lemma mod_one_over a P : 0 < P -> P <= a < 2 * P -> a mod P = a - P.
Proof.
  intros HP H. replace a with ((a - P) + 1 * P) at 1 by lia. rewrite Z_mod_plus_full. apply Z.mod_small. lia.
Qed.

(* ---------------- the decision tactic: shape independent ---------------- *)
Ltac nocond c := lazymatch c with context [if _ then _ else _] => fail | _ => idtac end.
Ltac tie_arith :=
  first [ reflexivity | timeout 20 lia
        | timeout 60 (Z.div_mod_to_equations; nia) ].
Ltac tie_split :=
  repeat match goal with
  | |- ?x = ?x => reflexivity
  | |- (_, _) = (_, _) => apply f_equal2
  | |- _ :: _ = _ :: _ => apply f_equal2
  end.
(* a remainder whose argument is (provably, by lia) below the modulus, equal to it, or less than twice it *)
Ltac mod_cases :=
  repeat match goal with
  | |- context [?a mod ?P] =>
    first [ rewrite (Z.mod_small a P) by (timeout 20 lia)
          | rewrite (mod_self_eq a P) by (timeout 20 lia)
          | rewrite (mod_one_over a P) by (timeout 20 lia) ]
  end.
Ltac tie_branch :=
  first [ solve [exfalso; timeout 20 lia]
        | solve [tie_split; tie_arith]
        | solve [tie_split; mod_cases; tie_arith]
        | solve [exfalso; timeout 60 (Z.div_mod_to_equations; nia)] ].
(* P : the power of two 2 ^ Z.of_nat k standing for the capacity; hypotheses bound every input *)
Ltac tie_decide k :=
  cbv zeta;
  unfold wrapu, Leaf.crem, cdiv, b2z, z2b in *;
  change (2 ^ 32) with 4294967296 in *;
  (* 32-bit wraps that cannot fire *)
  repeat match goal with
  | |- context [?a mod 4294967296] => rewrite (Z.mod_small a 4294967296) by (timeout 20 lia)
  end;
  (* masks and remainders by the capacity *)
  repeat match goal with
  | |- context [Z.land ?x (2 ^ Z.of_nat k - 1)] => rewrite (land_mask (Z.of_nat k) x) by (timeout 20 lia)
  | |- context [Z.land (2 ^ Z.of_nat k - 1) ?x] => rewrite (land_mask_l (Z.of_nat k) x) by (timeout 20 lia)
  | |- context [Z.rem ?a ?b] => rewrite (Z.rem_mod_nonneg a b) by (timeout 20 lia)
  | |- context [?a mod 4294967296] => rewrite (Z.mod_small a 4294967296) by (timeout 20 lia)
  end;
  rewrite ?mod_mod_pow;
  repeat match goal with
  | |- context [if ?c then _ else _] => nocond c; destruct c eqn:?
  end;
  tie_branch.

(* the domain: capacity 2^k accepted by init, positions inside the ring, 32-bit index *)
Definition tie_dom (k : nat) (cur rc wpos idx : Z) : Prop :=
  (k <= 30)%nat /\ 0 <= cur < 2 ^ Z.of_nat k /\ 0 <= rc < 2 ^ Z.of_nat k /\
  0 <= wpos < 2 ^ Z.of_nat k /\ 0 <= idx < 4294967296.

(* ---------------- the references are what the model's step function computes ---------------- *)
Definition kind (o : out) : Z := match o with (a, _, _, _, _, _) => a end.
Definition oval (o : out) : Z := match o with (_, a, _, _, _, _) => a end.
Definition oslot (o : out) : Z := match o with (_, _, a, _, _, _) => a end.
Definition ocur (o : out) : Z := match o with (_, _, _, a, _, _) => a end.
Definition orc (o : out) : Z := match o with (_, _, _, _, a, _) => a end.
Definition owake (o : out) : Z := match o with (_, _, _, _, _, a) => a end.

(* writer with the write side in hand (WSlotSeg): the slot stored is the one the reference names and
   the value it will store into the cursor is the reference's *)
Lemma step_write_ref P s t ch s' l : t_pc (s_thr s t) = WSlotSeg -> step P s t ch = Some (s', l) ->
  let o := ref_write (cap (s_cfg s)) (s_cursor s) in
  s_slot s' (oslot o) = t_msg (s_thr s t) /\ t_pos (s_thr s' t) = ocur o /\ t_pc (s_thr s' t) = WCursor.
Proof.
  intros Epc Hs. unfold step in Hs. rewrite Epc in Hs. inversion Hs; subst; clear Hs. simpl.
  unfold upd. rewrite Nat.eqb_refl. simpl. split; [apply zupd_same|]. split; reflexivity.
Qed.

(* the cursor store publishes exactly that value *)
Lemma step_cursor_ref P s t ch s' l : t_pc (s_thr s t) = WCursor -> step P s t ch = Some (s', l) ->
  s_cursor s' = t_pos (s_thr s t).
Proof. intros Epc Hs. unfold step in Hs. rewrite Epc in Hs. inversion Hs; subst. reflexivity. Qed.

(* the futex wake of the writer: all sleepers for read mode wait, one otherwise (the busy-loop mode never
   reaches the wake step: WCursor / WUnlock go straight back to WStart) *)
Lemma step_wake_ref P s t ch s' l : t_pc (s_thr s t) = WWake -> step P s t ch = Some (s', l) ->
  exists a b, l = LEv (Ev OFwake cell_cursor MoNone a b 0) /\
  (a = 0 <-> owake (ref_wake (rmode_num (c_rm (s_cfg s)))) = 2).
Proof.
  intros Epc Hs. unfold step in Hs. rewrite Epc in Hs.
  destruct (c_rm (s_cfg s)) eqn:Erm; simpl;
    try (destruct (first_blocked (s_thr s) (c_nw (s_cfg s) + c_nr (s_cfg s))));
    inversion Hs; subst; eexists; eexists; (split; [reflexivity|]); simpl; split; intros; lia || reflexivity.
Qed.
Lemma step_nowake_busy P s t ch s' l : c_rm (s_cfg s) = RBusy ->
  (t_pc (s_thr s t) = WCursor \/ t_pc (s_thr s t) = WUnlock) -> step P s t ch = Some (s', l) ->
  t_pc (s_thr s' t) <> WWakeSeg /\ owake (ref_wake (rmode_num RBusy)) = 0.
Proof.
  intros Erm [Epc|Epc] Hs; unfold step in Hs; rewrite Epc, Erm in Hs.
  - destruct (c_wm (s_cfg s)); inversion Hs; subst; simpl; unfold upd; rewrite Nat.eqb_refl; simpl;
      (split; [discriminate|reflexivity]).
  - inversion Hs; subst; simpl; unfold upd; rewrite Nat.eqb_refl; simpl. split; [discriminate|reflexivity].
Qed.

(* the reader's cursor load (modes wait / single-wait / busy): the next program point and the value it
   will wait for are the reference's outcome *)
Lemma step_rload_ref P s t ch s' l : t_pc (s_thr s t) = RLoad -> c_rm (s_cfg s) <> ROnce ->
  step P s t ch = Some (s', l) ->
  let o := ref_read (rmode_num (c_rm (s_cfg s))) (cap (s_cfg s)) (s_rc s) (s_cursor s) (t_idx (s_thr s t)) in
  (kind o = 0 -> t_pc (s_thr s' t) = RRead /\ oval o = t_idx (s_thr s t) mod cap (s_cfg s)) /\
  (kind o = 1 -> t_pc (s_thr s' t) = RWaitSeg /\ t_pos (s_thr s' t) = oval o) /\
  (kind o = 2 -> t_pc (s_thr s' t) = RSeg).
Proof.
  intros Epc Hm Hs. unfold step in Hs. rewrite Epc in Hs. inversion Hs; subst; clear Hs. simpl.
  unfold upd. rewrite Nat.eqb_refl. simpl. unfold ref_read.
  destruct (c_rm (s_cfg s)) eqn:Erm; try contradiction; simpl;
    destruct (s_cursor s =? t_idx (s_thr s t) mod cap (s_cfg s)); simpl;
    repeat split; intros; try discriminate; try reflexivity.
Qed.

(* the slot a reader reads at RRead is the one the reference returns *)
Lemma step_rread_ref P s t ch s' l : t_pc (s_thr s t) = RRead -> step P s t ch = Some (s', l) ->
  t_ret (s_thr s' t) = s_slot s (t_idx (s_thr s t) mod cap (s_cfg s)).
Proof.
  intros Epc Hs. unfold step in Hs. rewrite Epc in Hs. inversion Hs; subst; clear Hs. simpl.
  unfold upd. rewrite Nat.eqb_refl. reflexivity.
Qed.

(* read-once under the read mutex: take or wait as the reference says, with the reference's slot
   and new read_cursor *)
Lemma step_kcheck_ref P s t ch s' l : t_pc (s_thr s t) = KCheck -> step P s t ch = Some (s', l) ->
  let o := ref_read 3 (cap (s_cfg s)) (s_rc s) (t_pos (s_thr s t)) (t_idx (s_thr s t)) in
  (kind o = 1 -> t_pc (s_thr s' t) = KWaitOp /\ oval o = t_pos (s_thr s t)) /\
  (kind o = 0 -> t_pc (s_thr s' t) = KUnlock /\ t_ret (s_thr s' t) = s_slot s (oval o) /\ s_rc s' = orc o).
Proof.
  intros Epc Hs. unfold step in Hs. rewrite Epc in Hs. unfold ref_read. simpl.
  destruct (s_rc s =? t_pos (s_thr s t)); inversion Hs; subst; clear Hs; simpl;
    unfold upd; rewrite Nat.eqb_refl; simpl; repeat split; intros; try discriminate; reflexivity.
Qed.
