(* C02 — basic facts: views as finite maps, ring arithmetic modulo a power of two, the
   32-bit reader index, thread-map helpers. *)
From MV Require Import C02.Model.
Local Open Scope Z_scope.

(* ---------------- views ---------------- *)
Lemma pcell_eqb_spec a b : reflect (a = b) (pcell_eqb a b).
Proof.
  destruct a, b; simpl; try (constructor; congruence).
  - destruct (Z.eqb_spec j j0); constructor; congruence.
  - destruct (Z.eqb_spec m m0); constructor; congruence.
Qed.
Lemma pcell_eqb_refl a : pcell_eqb a a = true.
Proof. destruct (pcell_eqb_spec a a); congruence. Qed.

Lemma vget_vzero c : vget vzero c = 0.
Proof. reflexivity. Qed.

Lemma vget_vupd v c x d : vget (vupd v c x) d = if pcell_eqb d c then x else vget v d.
Proof.
  induction v as [|[e y] r IH]; simpl.
  - destruct (pcell_eqb d c); reflexivity.
  - destruct (pcell_eqb_spec c e) as [E|E]; simpl.
    + subst e. destruct (pcell_eqb d c); reflexivity.
    + destruct (pcell_eqb_spec d e) as [F|F].
      * subst e. destruct (pcell_eqb_spec d c); [congruence|reflexivity].
      * exact IH.
Qed.

Lemma vget_notin v c : ~ In c (map fst v) -> vget v c = 0.
Proof.
  induction v as [|[e y] r IH]; simpl; [reflexivity|]. intros H.
  destruct (pcell_eqb_spec c e); [exfalso; apply H; left; congruence|].
  apply IH. intros H1. apply H. now right.
Qed.

Lemma vjoin_fold (f : pcell -> Z) keys acc c :
  vget (fold_left (fun a k => vupd a k (f k)) keys acc) c =
  if existsb (pcell_eqb c) keys then f c else vget acc c.
Proof.
  revert acc. induction keys as [|k r IH]; intros acc; simpl; [reflexivity|].
  rewrite IH. destruct (existsb (pcell_eqb c) r) eqn:E.
  - rewrite orb_true_r. reflexivity.
  - rewrite orb_false_r. rewrite vget_vupd. destruct (pcell_eqb_spec c k); [subst; reflexivity|reflexivity].
Qed.

Lemma existsb_in c keys : existsb (pcell_eqb c) keys = false -> ~ In c keys.
Proof.
  induction keys as [|k r IH]; simpl; [tauto|]. intros H. apply orb_false_elim in H as [H1 H2].
  intros [E|E]; [subst; now rewrite pcell_eqb_refl in H1|now apply IH].
Qed.

Lemma vget_vjoin a b c : vget (vjoin a b) c = Z.max (vget a c) (vget b c).
Proof.
  unfold vjoin. rewrite (vjoin_fold (fun k => Z.max (vget a k) (vget b k))).
  destruct (existsb (pcell_eqb c) (map fst a ++ map fst b)) eqn:E; [reflexivity|].
  apply existsb_in in E. simpl.
  rewrite (vget_notin a c), (vget_notin b c); [reflexivity| |]; intros H; apply E; apply in_or_app; tauto.
Qed.

Definition vle (a b : view) : Prop := forall c, vget a c <= vget b c.

(* ---------------- ring arithmetic ---------------- *)
Lemma cap_pos c : 0 < cap c.
Proof. unfold cap. apply Z.pow_pos_nonneg; lia. Qed.

Lemma mod_neq a b K : 0 < K -> 0 < a - b < K -> a mod K <> b mod K.
Proof.
  intros HK H E.
  assert (D : (a - b) mod K = 0).
  { rewrite Zminus_mod, E, Z.sub_diag. apply Z.mod_0_l. lia. }
  rewrite Z.mod_small in D; lia.
Qed.

Lemma mod_eq_range a b K : 0 < K -> a mod K = b mod K -> b <= a < b + K -> a = b.
Proof.
  intros HK E H. destruct (Z.eq_dec a b); [assumption|].
  exfalso. apply (mod_neq a b K HK); [lia|assumption].
Qed.

Lemma mod_succ a K : 0 < K -> (a mod K + 1) mod K = (a + 1) mod K.
Proof. intros. rewrite Zplus_mod_idemp_l. reflexivity. Qed.

Lemma mod_range a K : 0 < K -> 0 <= a mod K < K.
Proof. intros. apply Z.mod_pos_bound. assumption. Qed.

(* capacity divides 2^32 *)
Lemma cap_divides c : (c_k c <= 32)%nat -> exists q, two32 = q * cap c.
Proof.
  intros H. exists (2 ^ (32 - Z.of_nat (c_k c))). unfold cap, two32.
  rewrite <- Z.pow_add_r by lia. replace (32 - Z.of_nat (c_k c) + Z.of_nat (c_k c)) with 32 by lia.
  reflexivity.
Qed.

(* the position in the ring depends on the 32-bit index only through its value modulo the
   capacity: wrapping the index at 2^32 is invisible *)
Lemma idx_wrap_mod c i : (c_k c <= 32)%nat -> (i mod two32) mod cap c = i mod cap c.
Proof.
  intros H. destruct (cap_divides c H) as [q Hq]. pose proof (cap_pos c) as HK.
  rewrite Hq. rewrite Z.mul_comm.
  assert (Hq0 : 0 < q). { assert (0 < two32) by reflexivity. nia. }
  rewrite Z.rem_mul_r by lia.
  rewrite (Z.mul_comm (cap c)), Z_mod_plus_full. apply Z.mod_mod. lia.
Qed.

Lemma idx_next_mod c i j : (c_k c <= 32)%nat -> i mod cap c = j mod cap c ->
  ((i + 1) mod two32) mod cap c = (j + 1) mod cap c.
Proof.
  intros H E. rewrite idx_wrap_mod by assumption.
  rewrite <- (Zplus_mod_idemp_l i), E, Zplus_mod_idemp_l. reflexivity.
Qed.

(* the logical start position of a reader: congruent to its first index, at most c_pre, less than a
   capacity behind it *)
Lemma rd_start_mod c t : rd_start c t mod cap c = c_idx0 c t mod cap c.
Proof.
  unfold rd_start. pose proof (cap_pos c) as HK.
  rewrite Zminus_mod_idemp_r. f_equal. lia.
Qed.
Lemma rd_start_range c t : c_pre c - cap c < rd_start c t <= c_pre c.
Proof.
  unfold rd_start. pose proof (cap_pos c) as HK.
  pose proof (Z.mod_pos_bound (c_pre c - c_idx0 c t) (cap c) HK). lia.
Qed.
(* a reader that starts at the cursor (first index congruent to c_pre) starts at position c_pre *)
Lemma rd_start_at_cursor c t : c_idx0 c t mod cap c = c_pre c mod cap c -> rd_start c t = c_pre c.
Proof.
  intros E. unfold rd_start. pose proof (cap_pos c) as HK.
  rewrite Zminus_mod, E, Z.sub_diag, Z.mod_0_l by lia. lia.
Qed.

(* ---------------- small helpers ---------------- *)
Lemma zupd_same f k x : zupd f k x k = x.
Proof. unfold zupd. now rewrite Z.eqb_refl. Qed.
Lemma zupd_other f k x i : i <> k -> zupd f k x i = f i.
Proof. unfold zupd. intros H. destruct (Z.eqb_spec i k); [contradiction|reflexivity]. Qed.
