(* C02 — visibility: with release on the cursor store / spinlock clear and acquire on the cursor
   load / test_and_set, every plain read of a slot, of a payload and of read_cursor is covered
   by the reader's view, for every schedule (under the no-lapping precondition). *)
From MV Require Import C02.Model C02.ProofsBase C02.ProofsCtl C02.ProofsFun C02.ProofsFunStep.
Local Open Scope Z_scope.

Definition mo_ok (P : params) (c : cfg) : bool :=
  (match c_wm c with
   | WLock => is_acq (mo_tas P) && is_rel (mo_clear P) && is_rel (mo_st_lock P)
   | WSingle => is_rel (mo_st_single P)
   end) && is_acq (ld_mo P (c_rm c)).

Definition vcov (s : sys) (v : view) (cl : pcell) : Prop := vget v cl = vget (s_ver s) cl.
Definition Cov (s : sys) (v : view) : Prop :=
  (forall j, vcov s v (CSlot j)) /\ (forall n, 0 <= n < s_nw s -> vcov s v (CPay (s_wr s n))).
Definition ticket (s : sys) (x : tstate) : Prop :=
  t_msg x < s_begun s /\ vcov s (t_view x) (CPay (t_msg x)).
Definition payfact (s : sys) (x : tstate) : Prop :=
  t_ret x < s_begun s /\ vcov s (t_view x) (CPay (t_ret x)).

Record VSh (c : cfg) (s : sys) : Prop := {
  v_cur_le : vle (s_cur_st s) (s_ver s);
  v_lock_le : vle (s_lock_st s) (s_ver s);
  v_mtx_le : vle (s_mtx_st s) (s_ver s);
  v_wr_lt : forall n, 0 <= n < s_nw s -> s_wr s n < s_begun s;
  v_lock : c_wm c = WLock -> s_lock s = 0 -> Cov s (s_lock_st s);
  v_cur_slot : forall j, s_wbeg s = s_nw s \/ j <> s_nw s mod cap c -> vcov s (s_cur_st s) (CSlot j);
  v_cur_pay : forall n, 0 <= n < s_nw s -> vcov s (s_cur_st s) (CPay (s_wr s n));
  v_mtx : s_mtx s = 0 -> vcov s (s_mtx_st s) CRc;
  v_unc : s_uncov s = 0%nat;
  v_nn : forall cl, 0 <= vget (s_ver s) cl;
}.

Definition vpc_ok (c : cfg) (s : sys) (x : tstate) : Prop :=
  match t_pc x with
  | WAcq | WFailSeg | WYield | WRetrySeg => ticket s x
  | WSlotSeg | WCursor => ticket s x /\ Cov s (t_view x)
  | WUnlockSeg | WUnlock => Cov s (t_view x)
  | RRead => vcov s (t_view x) (CSlot (t_idx x mod cap c)) /\
             vcov s (t_view x) (CPay (s_wr s (t_start x + t_cnt x)))
  | KSeg | KLoad | KWaitOp | KBlocked => vcov s (t_view x) CRc
  | KCheck => vcov s (t_view x) CRc /\
              (s_rc s <> t_pos x -> vcov s (t_view x) (CSlot (s_rc s)) /\
                                    vcov s (t_view x) (CPay (s_wr s (s_nt s))))
  | KUnlock => vcov s (t_view x) CRc /\ payfact s x
  | KDoneSeg => payfact s x
  | _ => True
  end.

Definition vthr_ok (c : cfg) (s : sys) (x : tstate) : Prop :=
  vle (t_view x) (s_ver s) /\
  (c_wm c = WSingle -> wpc (t_pc x) = true -> Cov s (t_view x)) /\
  vpc_ok c s x.

Definition VInv (c : cfg) (s : sys) : Prop := VSh c s /\ forall t, vthr_ok c s (s_thr s t).

(* ---------------- view lemmas ---------------- *)
Lemma vle_refl v : vle v v. Proof. intros cl. lia. Qed.
Lemma vle_zero v : (forall cl, 0 <= vget v cl) -> vle vzero v.
Proof. intros H cl. rewrite vget_vzero. apply H. Qed.
Lemma vle_join a b v : vle a v -> vle b v -> vle (vjoin a b) v.
Proof. intros A B cl. rewrite vget_vjoin. specialize (A cl). specialize (B cl). lia. Qed.
Lemma vget_join_l a b v cl : vle a v -> vle b v -> vget b cl = vget v cl -> vget (vjoin a b) cl = vget v cl.
Proof. intros A B E. rewrite vget_vjoin. specialize (A cl). lia. Qed.
Lemma vget_join_r a b v cl : vle a v -> vle b v -> vget a cl = vget v cl -> vget (vjoin a b) cl = vget v cl.
Proof. intros A B E. rewrite vget_vjoin. specialize (B cl). lia. Qed.

Lemma vget_upd_same v cl x : vget (vupd v cl x) cl = x.
Proof. rewrite vget_vupd, pcell_eqb_refl. reflexivity. Qed.
Lemma vget_upd_other v cl x d : d <> cl -> vget (vupd v cl x) d = vget v d.
Proof. intros H. rewrite vget_vupd. destruct (pcell_eqb_spec d cl); [contradiction|reflexivity]. Qed.

Lemma vle_bump v ver cl : vle v ver -> vle (bump v ver cl) (vupd ver cl (vget ver cl + 1)).
Proof.
  intros H d. unfold bump. rewrite !vget_vupd. destruct (pcell_eqb d cl); [lia|apply H].
Qed.
Lemma vle_ver_up v ver cl : vle v ver -> vle v (vupd ver cl (vget ver cl + 1)).
Proof.
  intros H d. rewrite vget_vupd. destruct (pcell_eqb_spec d cl); [subst; specialize (H cl); lia|apply H].
Qed.

Lemma acq_join_le mo a b v : vle a v -> vle b v -> vle (acq_join mo a b) v.
Proof. intros A B. unfold acq_join. destruct (is_acq mo); [now apply vle_join|exact A]. Qed.
Lemma ver_nonneg_of v ver : vle v ver -> (forall cl, 0 <= vget v cl) -> forall cl, 0 <= vget ver cl.
Proof. intros H N cl. specialize (H cl). specialize (N cl). lia. Qed.

Lemma init_vinv c : wf_cfg c -> VInv c (init c).
Proof.
  intros Hwf. pose proof (wf_pre _ Hwf). split.
  - constructor; simpl; try (intros cl; rewrite !vget_vzero; lia); try (intros; reflexivity).
    + intros; lia.
    + intros _ _. split; intros; reflexivity.
  - intros t. unfold vthr_ok, vpc_ok, tinit; simpl. split; [apply vle_refl|]. split.
    + intros _ _. split; intros; reflexivity.
    + destruct (is_writer c t); simpl; [exact I|].
      destruct (is_reader c t); [destruct (c_rm c)|]; simpl; exact I.
Qed.

(* ---------------- the other threads under a step that bumps the version of one cell ---------------- *)
Definition covsafe (s : sys) (tc : pcell) : Prop :=
  (forall j, CSlot j <> tc) /\ (forall n, 0 <= n < s_nw s -> CPay (s_wr s n) <> tc).

Definition untouched (c : cfg) (s : sys) (x : tstate) (tc : pcell) : Prop :=
  (c_wm c = WSingle -> wpc (t_pc x) = true -> covsafe s tc) /\
  match t_pc x with
  | WAcq | WFailSeg | WYield | WRetrySeg => CPay (t_msg x) <> tc
  | WSlotSeg | WCursor => CPay (t_msg x) <> tc /\ covsafe s tc
  | WUnlockSeg | WUnlock => covsafe s tc
  | RRead => CSlot (t_idx x mod cap c) <> tc /\ CPay (s_wr s (t_start x + t_cnt x)) <> tc
  | KSeg | KLoad | KWaitOp | KBlocked => CRc <> tc
  | KCheck => CRc <> tc /\ (s_rc s <> t_pos x -> CSlot (s_rc s) <> tc /\ CPay (s_wr s (s_nt s)) <> tc)
  | KUnlock => CRc <> tc /\ CPay (t_ret x) <> tc
  | KDoneSeg => CPay (t_ret x) <> tc
  | _ => True
  end.

Lemma cov_touch s s' v tc :
  Cov s v -> (forall cl, cl <> tc -> vget (s_ver s') cl = vget (s_ver s) cl) ->
  s_nw s' = s_nw s -> s_wr s' = s_wr s -> covsafe s tc -> Cov s' v.
Proof.
  intros [A B] Hv E1 E2 [S1 S2]. unfold Cov, vcov. rewrite E1, E2. split.
  - intros j. rewrite Hv by apply S1. apply A.
  - intros n Hn. rewrite Hv by (apply S2; exact Hn). apply B. exact Hn.
Qed.

Lemma vthr_touch c s s' x tc :
  vthr_ok c s x ->
  (forall cl, cl <> tc -> vget (s_ver s') cl = vget (s_ver s) cl) ->
  vget (s_ver s) tc <= vget (s_ver s') tc ->
  s_nw s' = s_nw s -> s_wr s' = s_wr s -> s_begun s <= s_begun s' ->
  (s_rc s' = s_rc s /\ s_nt s' = s_nt s) \/ t_pc x <> KCheck ->
  untouched c s x tc -> vthr_ok c s' x.
Proof.
  intros (Hle & Hsg & Hpc) Hv Hup E1 E2 E3 Erc [Us Upc].
  assert (Hc : forall cl, cl <> tc -> vcov s (t_view x) cl -> vcov s' (t_view x) cl).
  { intros cl Hn H. unfold vcov in *. rewrite Hv by exact Hn. exact H. }
  split; [|split].
  - intros cl. destruct (pcell_eqb_spec cl tc) as [E|E].
    + subst. specialize (Hle tc). lia.
    + rewrite Hv by exact E. apply Hle.
  - intros Hw Hp. eapply cov_touch; eauto.
  - unfold vpc_ok, ticket, payfact in *. rewrite ?E1, ?E2.
    destruct (t_pc x) eqn:Ep; try exact I; simpl in *.
    all: try solve [ destruct Hpc as [A B]; split; [lia | apply Hc; assumption] ].
    all: try solve [ apply Hc; assumption ].
    + destruct Upc as [U1 U2]. destruct Hpc as [[A B] C]. split; [split; [lia|apply Hc; assumption]|].
      eapply cov_touch; eauto.
    + destruct Upc as [U1 U2]. destruct Hpc as [[A B] C]. split; [split; [lia|apply Hc; assumption]|].
      eapply cov_touch; eauto.
    + eapply cov_touch; eauto.
    + eapply cov_touch; eauto.
    + destruct Upc as [U1 U2]. destruct Hpc as [A B]. split; apply Hc; assumption.
    + destruct Erc as [[R1 R2]|R]; [|congruence]. rewrite R1, R2.
      destruct Upc as [U1 U2]. destruct Hpc as [A B]. split; [apply Hc; assumption|].
      intros Hn. destruct (B Hn) as [B1 B2]. destruct (U2 Hn) as [U3 U4]. split; apply Hc; assumption.
    + destruct Upc as [U1 U2]. destruct Hpc as [A [B C]]. split; [apply Hc; assumption|].
      split; [lia|apply Hc; assumption].
Qed.

(* the other threads under the publication *)
Lemma vthr_publish c s s' x m :
  vthr_ok c s x -> s_ver s' = s_ver s -> s_nw s' = s_nw s + 1 -> s_wr s' = zupd (s_wr s) (s_nw s) m ->
  s_begun s' = s_begun s -> s_rc s' = s_rc s -> s_nt s' = s_nt s ->
  crit (t_pc x) = false -> (c_wm c = WSingle -> wpc (t_pc x) = false) ->
  (t_pc x = RRead -> 0 <= t_start x + t_cnt x < s_nw s) ->
  (t_pc x = KCheck -> s_rc s <> t_pos x -> 0 <= s_nt s < s_nw s) ->
  vthr_ok c s' x.
Proof.
  intros (Hle & Hsg & Hpc) E0 E1 E2 E3 E4 E5 Hcr Hs1 Hrr Hkc.
  split; [rewrite E0; exact Hle|]. split.
  - intros Hw Hp. rewrite (Hs1 Hw) in Hp. discriminate.
  - unfold vpc_ok, ticket, payfact, vcov in *. rewrite ?E0, ?E1, ?E2, ?E3, ?E4, ?E5.
    destruct (t_pc x) eqn:Ep; try exact I; simpl in *; try discriminate; try assumption.
    + rewrite zupd_other by (specialize (Hrr eq_refl); lia). exact Hpc.
    + destruct Hpc as [A B]. split; [exact A|]. intros Hn. specialize (Hkc eq_refl Hn).
      rewrite zupd_other by lia. apply B. exact Hn.
Qed.

(* states that differ only in fields the view invariant does not read, and in one thread *)
Definition same_v (s s' : sys) : Prop :=
  s_cur_st s' = s_cur_st s /\ s_lock_st s' = s_lock_st s /\ s_mtx_st s' = s_mtx_st s /\
  s_ver s' = s_ver s /\ s_nw s' = s_nw s /\ s_wr s' = s_wr s /\ s_begun s' = s_begun s /\
  s_wbeg s' = s_wbeg s /\ s_lock s' = s_lock s /\ s_mtx s' = s_mtx s /\ s_uncov s' = s_uncov s /\
  s_rc s' = s_rc s /\ s_nt s' = s_nt s.
Ltac samev_tac := unfold same_v; simpl; repeat split; reflexivity.

Lemma vsh_same c s s' : same_v s s' -> VSh c s -> VSh c s'.
Proof.
  intros (E1 & E2 & E3 & E4 & E5 & E6 & E7 & E8 & E9 & E10 & E11 & E12 & E13) [H1 H2 H3 H4 H5 H6 H7 H8 H9 H10].
  constructor; unfold Cov, vcov in *; rewrite ?E1, ?E2, ?E3, ?E4, ?E5, ?E6, ?E7, ?E8, ?E9, ?E10, ?E11; assumption.
Qed.
Lemma vthr_same c s s' x : same_v s s' -> vthr_ok c s x -> vthr_ok c s' x.
Proof.
  intros (E1 & E2 & E3 & E4 & E5 & E6 & E7 & E8 & E9 & E10 & E11 & E12 & E13).
  unfold vthr_ok, vpc_ok, Cov, ticket, payfact, vcov. rewrite ?E4, ?E5, ?E6, ?E7, ?E12, ?E13. tauto.
Qed.
Lemma vinv_frame c s s' t x' :
  same_v s s' -> s_thr s' = upd (s_thr s) t x' -> VInv c s -> vthr_ok c s x' -> VInv c s'.
Proof.
  intros Hsame Hthr [Hsh Hall] Hx. split; [eapply vsh_same; eauto|].
  intros u. rewrite Hthr. unfold upd. destruct (Nat.eqb_spec u t); eapply vthr_same; eauto.
Qed.
