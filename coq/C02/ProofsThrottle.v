(* C02 — the harness throttle (tickets; a writer begins message k only when
   k + 1 < min over readers of the next index + capacity) implies the documented no-lapping
   precondition: with c_thr = true the ghost monitor s_lapped never fires, for every schedule,
   any number of writers and readers. *)
From MV Require Import C02.Model C02.ProofsBase C02.ProofsCtl C02.ProofsFun.
Local Open Scope Z_scope.

(* number of threads below n whose program point satisfies f *)
Fixpoint nc (f : pc -> bool) (thr : nat -> tstate) (n : nat) : Z :=
  match n with
  | O => 0
  | S m => nc f thr m + (if f (t_pc (thr m)) then 1 else 0)
  end.

Lemma nc_ext f thr thr' n :
  (forall u, f (t_pc (thr' u)) = f (t_pc (thr u))) -> nc f thr' n = nc f thr n.
Proof. intros H. induction n as [|m IH]; simpl; [reflexivity|]. rewrite IH, H. reflexivity. Qed.

Lemma nc_nonneg f thr n : 0 <= nc f thr n.
Proof. induction n as [|m IH]; simpl; [lia|]. destruct (f (t_pc (thr m))); lia. Qed.

Lemma nc_upd f thr t x n : (t < n)%nat ->
  nc f (upd thr t x) n = nc f thr n + (if f (t_pc x) then 1 else 0) - (if f (t_pc (thr t)) then 1 else 0).
Proof.
  induction n as [|m IH]; intros H; [lia|]. simpl. unfold upd at 2.
  destruct (Nat.eqb_spec m t) as [E|E].
  - subst m. assert (E0 : nc f (upd thr t x) t = nc f thr t).
    { clear IH H. assert (G : forall k, (k <= t)%nat -> nc f (upd thr t x) k = nc f thr k).
      { induction k as [|k IHk]; intros Hk; [reflexivity|]. simpl. rewrite IHk by lia.
        unfold upd. destruct (Nat.eqb_spec k t); [lia|reflexivity]. }
      apply G. lia. }
    rewrite E0. lia.
  - rewrite IH by lia. lia.
Qed.

Lemma nc_ge1 f thr t n : (t < n)%nat -> f (t_pc (thr t)) = true -> 1 <= nc f thr n.
Proof.
  induction n as [|m IH]; intros H Hf; [lia|]. simpl.
  destruct (Nat.eq_dec m t) as [E|E].
  - subst m. rewrite Hf. pose proof (nc_nonneg f thr t). lia.
  - specialize (IH ltac:(lia) Hf). destruct (f (t_pc (thr m))); lia.
Qed.

(* a thread holds a ticket whose slot store has not happened yet *)
Definition hold (p : pc) : bool :=
  match p with WAcq | WFailSeg | WYield | WRetrySeg | WSlotSeg => true | _ => false end.

(* the throttle's minimum over the readers that still have reads to do: negative iff there is none,
   otherwise a lower bound of every active reader's next index *)
Lemma fold_min_next (thr : nat -> tstate) (l : list nat) a :
  (forall v, In v l -> 0 <= rnext (thr v)) ->
  let r := fold_left (fun lo u => if active (thr u) && ((lo <? 0) || (rnext (thr u) <? lo)) then rnext (thr u) else lo) l a in
  (0 <= a -> 0 <= r <= a) /\
  forall u, In u l -> active (thr u) = true -> 0 <= r <= rnext (thr u).
Proof.
  revert a. induction l as [|v l IH]; intros a Hl; simpl.
  - split; [lia|]. intros u [].
  - assert (Hv : 0 <= rnext (thr v)) by (apply Hl; left; reflexivity).
    set (a' := if active (thr v) && ((a <? 0) || (rnext (thr v) <? a)) then rnext (thr v) else a).
    assert (Ha' : (0 <= a -> 0 <= a' <= a) /\ (active (thr v) = true -> 0 <= a' <= rnext (thr v))).
    { unfold a'. destruct (active (thr v)); simpl; [|split; [lia|discriminate]].
      destruct (Z.ltb_spec a 0); simpl; [lia|]. destruct (Z.ltb_spec (rnext (thr v)) a); lia. }
    destruct (IH a' ltac:(intros w Hw; apply Hl; right; exact Hw)) as [R1 R2]. destruct Ha' as [A1 A2].
    split; [intros Ha; specialize (A1 Ha); specialize (R1 ltac:(lia)); lia|].
    intros u [E|E] Hact; [subst u; specialize (A2 Hact); specialize (R1 ltac:(lia)); lia|apply R2; assumption].
Qed.

Lemma min_next_le (thr : nat -> tstate) (l : list nat) u :
  (forall v, In v l -> 0 <= rnext (thr v)) -> In u l -> active (thr u) = true ->
  0 <= min_next thr l <= rnext (thr u).
Proof. intros Hl Hu Ha. unfold min_next. apply (fold_min_next thr l (-1) Hl); assumption. Qed.

Lemma readers_in c u : In u (readers c) -> is_reader c u = true.
Proof.
  unfold readers, is_reader. intros H. apply in_seq in H. apply andb_true_intro. split.
  - apply Nat.leb_le. lia.
  - apply Nat.ltb_lt. lia.
Qed.

Definition nthr (c : cfg) : nat := (c_nw c + c_nr c)%nat.

Record TH (c : cfg) (s : sys) : Prop := {
  th_lap : s_lapped s = false;
  th_hold : s_wbeg s + nc hold (s_thr s) (nthr c) = s_begun s;
  th_cnt : forall u, 0 <= t_cnt (s_thr s u);
  th_start : forall u, t_start (s_thr s u) = rd_start c u;
  th_rd : c_rm c <> ROnce -> forall u, is_reader c u = true -> t_rem (s_thr s u) <> O ->
          s_begun s < t_start (s_thr s u) + t_cnt (s_thr s u) + cap c;
  th_once : c_rm c = ROnce ->
            s_deliv s + nc pending (s_thr s) (nthr c) = s_nt s /\ s_begun s < s_deliv s + cap c;
}.

Lemma nc_init f c : (forall t, f (t_pc (tinit c t)) = false) -> forall n, nc f (tinit c) n = 0.
Proof. intros H n. induction n as [|m IH]; [reflexivity|]. cbn [nc]. rewrite IH, H. reflexivity. Qed.

Lemma init_th c : wf_cfg c -> TH c (init c).
Proof.
  intros Hwf. pose proof (wf_pre _ Hwf). pose proof (cap_pos c).
  assert (Hh : forall t, hold (t_pc (tinit c t)) = false).
  { intros t. unfold tinit; simpl. destruct (is_writer c t); [reflexivity|].
    destruct (is_reader c t); [destruct (c_rm c)|]; reflexivity. }
  assert (Hp : forall t, pending (t_pc (tinit c t)) = false).
  { intros t. unfold tinit; simpl. destruct (is_writer c t); [reflexivity|].
    destruct (is_reader c t); [destruct (c_rm c)|]; reflexivity. }
  constructor; simpl.
  - reflexivity.
  - rewrite nc_init by exact Hh. lia.
  - intros u. lia.
  - intros u. reflexivity.
  - intros _ u _ _. pose proof (rd_start_range c u). lia.
  - intros _. rewrite nc_init by exact Hp. lia.
Qed.

(* what TH reads from a thread *)
Definition tsame (x x' : tstate) : Prop :=
  hold (t_pc x') = hold (t_pc x) /\ pending (t_pc x') = pending (t_pc x) /\ t_cnt x' = t_cnt x /\
  t_start x' = t_start x /\ (t_rem x' <> O -> t_rem x <> O).

Lemma th_same c s s' :
  (forall u, tsame (s_thr s u) (s_thr s' u)) ->
  s_lapped s' = s_lapped s -> s_wbeg s' = s_wbeg s -> s_begun s' = s_begun s ->
  s_deliv s' = s_deliv s -> s_nt s' = s_nt s -> TH c s -> TH c s'.
Proof.
  intros Hs E1 E2 E3 E4 E5 [H1 H2 H3 H3s H4 H5].
  constructor; rewrite ?E1, ?E2, ?E3, ?E4, ?E5.
  - exact H1.
  - rewrite (nc_ext hold (s_thr s) (s_thr s')); [exact H2|]. intros u. apply (Hs u).
  - intros u. destruct (Hs u) as (_ & _ & C & _). rewrite C. apply H3.
  - intros u. destruct (Hs u) as (_ & _ & _ & C & _). rewrite C. apply H3s.
  - intros Hm u Hu Hrem. destruct (Hs u) as (_ & _ & C & D & F). rewrite C, D. apply H4; auto.
  - intros Hm. rewrite (nc_ext pending (s_thr s) (s_thr s')); [apply H5; exact Hm|].
    intros u. apply (Hs u).
Qed.

Lemma hold_resume p : is_blocked p = true -> hold (resume p) = hold p.
Proof. destruct p; simpl; try discriminate; reflexivity. Qed.
Lemma pending_resume' p : is_blocked p = true -> pending (resume p) = pending p.
Proof. destruct p; simpl; try discriminate; reflexivity. Qed.
Lemma tsame_refl x : tsame x x.
Proof. repeat split; try reflexivity. auto. Qed.

Section Step.
Variable P : params.
Variable c : cfg.
Hypothesis Hwf : wf_cfg c.
Hypothesis Hthr : c_thr c = true.

Ltac tsame_tac Epc :=
  let u := fresh "u" in
  intros u; simpl; unfold upd, wake_all;
  repeat match goal with
  | |- context [if Nat.eqb ?a ?b then _ else _] => destruct (Nat.eqb_spec a b); try subst a
  | |- context [if is_blocked ?p then _ else _] => destruct (is_blocked p) eqn:?
  end;
  try apply tsame_refl; unfold tsame; simpl; rewrite ?Epc; simpl;
  repeat split; try reflexivity; auto;
  try (apply hold_resume; assumption); try (apply pending_resume'; assumption).

Lemma nolap_from_th s : s_cfg s = c -> TH c s -> s_wbeg s + 1 <= s_begun s -> nolap_ok s (s_wbeg s + 1) = true.
Proof.
  intros Hcfg [H1 H2 H3 H3s H4 H5] Hle. unfold nolap_ok. rewrite Hcfg.
  assert (Hrd : c_rm c <> ROnce ->
            forallb (fun u => negb (active (s_thr s u)) || (s_wbeg s + 1 <? rnext (s_thr s u) + cap c)) (readers c) = true).
  { intros Hm. apply forallb_forall. intros u Hu. destruct (active (s_thr s u)) eqn:Ea; [simpl|reflexivity].
    apply Z.ltb_lt. apply active_rem in Ea.
    pose proof (H4 Hm u (readers_in c u Hu) Ea). unfold rnext. lia. }
  assert (Hon : c_rm c = ROnce -> (s_wbeg s + 1 <? s_nt s + cap c) = true).
  { intros Hm. apply Z.ltb_lt. destruct (H5 Hm) as [A B]. pose proof (nc_nonneg pending (s_thr s) (nthr c)). lia. }
  destruct (c_rm c); [apply Hrd; discriminate|apply Hrd; discriminate|apply Hrd; discriminate|apply Hon; reflexivity].
Qed.

Lemma thread_in_range s t : AInv c s -> wpc (t_pc (s_thr s t)) || rpc (t_pc (s_thr s t)) || kpc (t_pc (s_thr s t)) = true ->
  (t < nthr c)%nat.
Proof.
  intros HA H. unfold nthr. apply orb_prop in H as [H|H]; [apply orb_prop in H as [H|H]|].
  - pose proof (a_role _ _ HA t H). lia.
  - assert (R : is_reader c t = true) by (apply (a_rrole _ _ HA t); rewrite H; reflexivity).
    unfold is_reader in R. apply andb_prop in R as [_ R]. apply Nat.ltb_lt in R. exact R.
  - assert (R : is_reader c t = true) by (apply (a_rrole _ _ HA t); rewrite H; apply orb_true_r).
    unfold is_reader in R. apply andb_prop in R as [_ R]. apply Nat.ltb_lt in R. exact R.
Qed.

Lemma step_th s t ch s' l : AInv c s -> TH c s -> step P s t ch = Some (s', l) -> TH c s'.
Proof.
  intros HA HT Hs. pose proof (a_cfg _ _ HA) as Hcfg. pose proof (cap_pos c) as HK.
  pose proof (thread_in_range s t HA) as Hrange.
  unfold step in Hs. rewrite Hcfg in Hs.
  destruct (t_pc (s_thr s t)) eqn:Epc; try discriminate; simpl in Hrange.
  all: try solve [
    repeat match type of Hs with
    | context [match t_rem ?x with _ => _ end] => destruct (t_rem x)
    | context [match c_wm c with _ => _ end] => destruct (c_wm c)
    | context [match c_rm c with _ => _ end] => destruct (c_rm c)
    | context [match first_blocked ?a ?b with _ => _ end] =>
      let Ef := fresh "Ef" in destruct (first_blocked a b) eqn:Ef; [apply first_blocked_spec in Ef|]
    | context [if ?b then _ else _] => destruct b
    end; try discriminate; inv_some Hs;
    (eapply th_same; [tsame_tac Epc | reflexivity | reflexivity | reflexivity | reflexivity | reflexivity | exact HT]) ].
  - (* WStart: the throttle lets the writer take a ticket *)
    specialize (Hrange eq_refl).
    assert (Hwr : is_reader c t = false).
    { apply is_reader_writer. apply (a_role _ _ HA t). rewrite Epc. reflexivity. }
    destruct (t_rem (s_thr s t)) as [|rem'].
    { inv_some Hs. eapply th_same; [tsame_tac Epc | reflexivity | reflexivity | reflexivity | reflexivity | reflexivity | exact HT]. }
    rewrite Hthr in Hs. simpl in Hs.
    destruct (can_begin s) eqn:Ecb; simpl in Hs.
    2:{ inv_some Hs. eapply th_same; [tsame_tac Epc | reflexivity | reflexivity | reflexivity | reflexivity | reflexivity | exact HT]. }
    assert (Hcb : (c_rm c <> ROnce -> forall u, is_reader c u = true -> t_rem (s_thr s u) <> O ->
                     s_begun s + 1 < t_start (s_thr s u) + t_cnt (s_thr s u) + cap c) /\
                  (c_rm c = ROnce -> s_begun s + 1 < s_deliv s + cap c)).
    { unfold can_begin in Ecb. rewrite Hcfg in Ecb. split.
      - intros Hm u Hu Hrem.
        assert (Hmin : 0 <= min_next (s_thr s) (readers c) <= rnext (s_thr s u)).
        { apply min_next_le; [|apply in_readers; exact Hu|apply active_rem; exact Hrem].
          intros v Hv. unfold rnext. rewrite (th_start _ _ HT v).
          pose proof (proj2 (wf_idx _ Hwf v (readers_in c v Hv)) Hm). pose proof (th_cnt _ _ HT v). lia. }
        unfold rnext in Hmin.
        assert (Ecb' : ((min_next (s_thr s) (readers c) <? 0) || (s_begun s + 1 <? min_next (s_thr s) (readers c) + cap c)) = true)
          by (destruct (c_rm c); try congruence; exact Ecb).
        apply orb_prop in Ecb' as [Ecb'|Ecb']; [apply Z.ltb_lt in Ecb'; lia|apply Z.ltb_lt in Ecb'; lia].
      - intros Hm. rewrite Hm in Ecb. apply Z.ltb_lt in Ecb. exact Ecb. }
    destruct Hcb as [Hc1 Hc2]. destruct HT as [H1 H2 H3 H3s H4 H5].
    destruct (c_wm c) eqn:Ewm.
    + (* locked: ticket only *)
      inv_some Hs. constructor; simpl.
      * exact H1.
      * rewrite nc_upd by exact Hrange. simpl. rewrite Epc. simpl. lia.
      * intros u. unfold upd. destruct (Nat.eqb_spec u t); [subst; simpl|]; apply H3.
      * intros u. unfold upd. destruct (Nat.eqb_spec u t); [subst; simpl|]; apply H3s.
      * intros Hm u Hu. unfold upd. destruct (Nat.eqb_spec u t); [subst; congruence|].
        intros Hrem. pose proof (Hc1 Hm u Hu Hrem). lia.
      * intros Hm. destruct (H5 Hm) as [A B]. rewrite nc_upd by exact Hrange. simpl. rewrite Epc. simpl.
        specialize (Hc2 Hm). lia.
    + (* single writer: ticket and slot store in one segment *)
      assert (Hnl : nolap_ok (set_ticket s) (s_wbeg s + 1) = true).
      { unfold nolap_ok. simpl. rewrite Hcfg. pose proof (nc_nonneg hold (s_thr s) (nthr c)) as Hn0.
        assert (Hrd : c_rm c <> ROnce ->
                  forallb (fun u => negb (active (s_thr s u)) || (s_wbeg s + 1 <? rnext (s_thr s u) + cap c)) (readers c) = true).
        { intros Hm. apply forallb_forall. intros u Hu. destruct (active (s_thr s u)) eqn:Ea; [simpl|reflexivity].
          apply Z.ltb_lt. apply active_rem in Ea.
          pose proof (Hc1 Hm u (readers_in c u Hu) Ea). unfold rnext. lia. }
        assert (Hon : c_rm c = ROnce -> (s_wbeg s + 1 <? s_nt s + cap c) = true).
        { intros Hm. apply Z.ltb_lt. destruct (H5 Hm) as [A B]. specialize (Hc2 Hm).
          pose proof (nc_nonneg pending (s_thr s) (nthr c)). lia. }
        destruct (c_rm c); [apply Hrd; discriminate|apply Hrd; discriminate|apply Hrd; discriminate|apply Hon; reflexivity]. }
      inv_some Hs. constructor; simpl.
      * simpl in Hnl. rewrite Hnl, H1. reflexivity.
      * rewrite nc_upd by exact Hrange. simpl. rewrite Epc. simpl. lia.
      * intros u. unfold upd. destruct (Nat.eqb_spec u t); [subst; simpl|]; apply H3.
      * intros u. unfold upd. destruct (Nat.eqb_spec u t); [subst; simpl|]; apply H3s.
      * intros Hm u Hu. unfold upd. destruct (Nat.eqb_spec u t); [subst; congruence|].
        intros Hrem. pose proof (Hc1 Hm u Hu Hrem). lia.
      * intros Hm. destruct (H5 Hm) as [A B]. rewrite nc_upd by exact Hrange. simpl. rewrite Epc. simpl.
        specialize (Hc2 Hm). lia.
  - (* WSlotSeg: the slot store of a ticket holder *)
    specialize (Hrange eq_refl).
    assert (Hge : 1 <= nc hold (s_thr s) (nthr c)) by (apply (nc_ge1 hold _ t); [exact Hrange|rewrite Epc; reflexivity]).
    assert (Hnl : nolap_ok s (s_wbeg s + 1) = true).
    { apply nolap_from_th; [exact Hcfg|exact HT|]. pose proof (th_hold _ _ HT). lia. }
    destruct HT as [H1 H2 H3 H3s H4 H5]. inv_some Hs. constructor; simpl.
    + rewrite Hnl, H1. reflexivity.
    + rewrite nc_upd by exact Hrange. simpl. rewrite Epc. simpl. lia.
    + intros u. unfold upd. destruct (Nat.eqb_spec u t); [subst; simpl|]; apply H3.
    + intros u. unfold upd. destruct (Nat.eqb_spec u t); [subst; simpl|]; apply H3s.
    + intros Hm u Hu. unfold upd. destruct (Nat.eqb_spec u t); [subst; simpl|]; apply H4; assumption.
    + intros Hm. rewrite nc_upd by exact Hrange. simpl. rewrite Epc. simpl. destruct (H5 Hm). lia.
  - (* RRead *)
    specialize (Hrange eq_refl).
    assert (Hm0 : c_rm c <> ROnce) by (apply (a_rm_r _ _ HA t); rewrite Epc; reflexivity).
    destruct HT as [H1 H2 H3 H3s H4 H5]. inv_some Hs. constructor; simpl.
    + exact H1.
    + rewrite nc_upd by exact Hrange. simpl. rewrite Epc. simpl.
      destruct (pred (t_rem (s_thr s t))); simpl; lia.
    + intros u. pose proof (H3 u). unfold upd. destruct (Nat.eqb_spec u t); [subst; simpl; lia|assumption].
    + intros u. unfold upd. destruct (Nat.eqb_spec u t); [subst; simpl|]; apply H3s.
    + intros Hm u Hu. pose proof (H4 Hm u Hu) as H4u. unfold upd. destruct (Nat.eqb_spec u t); [subst; simpl|assumption].
      intros Hrem. assert (Hrem0 : t_rem (s_thr s t) <> O) by (intros E0; rewrite E0 in Hrem; simpl in Hrem; congruence).
      specialize (H4u Hrem0). lia.
    + intros Hm. contradiction.
  - (* KCheck *)
    specialize (Hrange eq_refl).
    destruct (s_rc s =? t_pos (s_thr s t)).
    + inv_some Hs. eapply th_same; [tsame_tac Epc | reflexivity | reflexivity | reflexivity | reflexivity | reflexivity | exact HT].
    + destruct HT as [H1 H2 H3 H3s H4 H5]. inv_some Hs. constructor; simpl.
      * exact H1.
      * rewrite nc_upd by exact Hrange. simpl. rewrite Epc. simpl. lia.
      * intros u. unfold upd. destruct (Nat.eqb_spec u t); [subst; simpl|]; apply H3.
      * intros u. unfold upd. destruct (Nat.eqb_spec u t); [subst; simpl|]; apply H3s.
      * intros Hm u Hu. unfold upd. destruct (Nat.eqb_spec u t); [subst; simpl|]; apply H4; assumption.
      * intros Hm. rewrite nc_upd by exact Hrange. simpl. rewrite Epc. simpl. destruct (H5 Hm). lia.
  - (* KDoneSeg *)
    specialize (Hrange eq_refl).
    destruct HT as [H1 H2 H3 H3s H4 H5]. inv_some Hs. constructor; simpl.
    + exact H1.
    + rewrite nc_upd by exact Hrange. simpl. rewrite Epc. simpl.
      destruct (pred (t_rem (s_thr s t))); simpl; lia.
    + intros u. pose proof (H3 u). unfold upd. destruct (Nat.eqb_spec u t); [subst; simpl; lia|assumption].
    + intros u. unfold upd. destruct (Nat.eqb_spec u t); [subst; simpl|]; apply H3s.
    + intros Hm u Hu. pose proof (H4 Hm u Hu) as H4u. unfold upd. destruct (Nat.eqb_spec u t); [subst; simpl|assumption].
      intros Hrem. assert (Hrem0 : t_rem (s_thr s t) <> O) by (intros E0; rewrite E0 in Hrem; simpl in Hrem; congruence).
      specialize (H4u Hrem0). lia.
    + intros Hm. rewrite nc_upd by exact Hrange. simpl. rewrite Epc. simpl. destruct (H5 Hm).
      destruct (pred (t_rem (s_thr s t))); simpl; lia.
Qed.

Theorem rb_throttle_no_lap_all sched : s_lapped (exec sys (step P) (init c) sched) = false.
Proof.
  assert (H : AInv c (exec sys (step P) (init c) sched) /\ TH c (exec sys (step P) (init c) sched)).
  { apply inv_exec.
    - intros s t ch s' l [HA HT] Hs. split; [eapply step_ainv; eauto|eapply step_th; eauto].
    - split; [apply init_ainv|apply init_th; exact Hwf]. }
  apply (th_lap _ _ (proj2 H)).
Qed.
End Step.
