(* C02 — the view invariant is preserved by every step (all writer and reader modes). *)
From MV Require Import C02.Model C02.ProofsBase C02.ProofsCtl C02.ProofsFun C02.ProofsFunStep C02.ProofsView.
Local Open Scope Z_scope.

Lemma unt_ticket c s x : VSh c s -> vthr_ok c s x ->
  (t_pc x = RRead -> 0 <= t_start x + t_cnt x < s_nw s) ->
  (t_pc x = KCheck -> s_rc s <> t_pos x -> 0 <= s_nt s < s_nw s) ->
  untouched c s x (CPay (s_begun s)).
Proof.
  intros Vsh (Hle & Hsg & Hpc) Hrr Hkc.
  assert (Hcs : covsafe s (CPay (s_begun s))).
  { split; [intros j; discriminate|]. intros n Hn E. injection E as E. pose proof (v_wr_lt _ _ Vsh n Hn). lia. }
  split; [intros; exact Hcs|].
  unfold vpc_ok, ticket, payfact in Hpc.
  destruct (t_pc x); simpl in *; try exact I; try discriminate.
  - intros E; injection E as E; destruct Hpc; lia.
  - intros E; injection E as E; destruct Hpc; lia.
  - intros E; injection E as E; destruct Hpc; lia.
  - intros E; injection E as E; destruct Hpc; lia.
  - split; [|exact Hcs]. intros E; injection E as E; destruct Hpc as [[A _] _]; lia.
  - split; [|exact Hcs]. intros E; injection E as E; destruct Hpc as [[A _] _]; lia.
  - exact Hcs.
  - exact Hcs.
  - split; [discriminate|]. intros E; injection E as E. specialize (Hrr eq_refl).
    pose proof (v_wr_lt _ _ Vsh _ Hrr). lia.
  - split; [discriminate|]. intros Hn. split; [discriminate|]. intros E; injection E as E.
    specialize (Hkc eq_refl Hn). pose proof (v_wr_lt _ _ Vsh _ Hkc). lia.
  - split; [discriminate|]. intros E; injection E as E. destruct Hpc as [_ [A _]]. lia.
  - intros E; injection E as E. destruct Hpc as [A _]. lia.
Qed.

Lemma unt_slot c s x j0 : crit (t_pc x) = false ->
  (c_wm c = WSingle -> wpc (t_pc x) = false) ->
  (t_pc x = RRead -> t_idx x mod cap c <> j0) ->
  (t_pc x = KCheck -> s_rc s <> t_pos x -> s_rc s <> j0) ->
  untouched c s x (CSlot j0).
Proof.
  intros Hcr Hsg Hrr Hkc. split.
  - intros Hw Hp. rewrite (Hsg Hw) in Hp. discriminate.
  - destruct (t_pc x); simpl in *; try exact I; try discriminate.
    + split; [|discriminate]. intros E; injection E as E. apply (Hrr eq_refl). exact E.
    + split; [discriminate|]. intros Hn. split; [|discriminate]. intros E; injection E as E.
      apply (Hkc eq_refl Hn). exact E.
    + split; discriminate.
Qed.

Lemma unt_take c s x : mheld (t_pc x) = false -> untouched c s x CRc.
Proof.
  intros Hm.
  assert (Hcs : covsafe s CRc) by (split; intros; discriminate).
  split; [intros; exact Hcs|].
  destruct (t_pc x); simpl in *; try exact I; try discriminate; try exact Hcs;
    try (split; [discriminate|exact Hcs]); try (split; discriminate).
Qed.

(* a read-once reader that will take (read_cursor <> the cursor value it loaded) is behind the writers *)
Lemma kcheck_lt c s x : BSh c s -> pc_ok c s x -> t_pc x = KCheck -> s_rc s <> t_pos x ->
  0 <= s_nt s < s_nw s.
Proof.
  intros Bsh Hpc Ep Hn. unfold pc_ok in Hpc. rewrite Ep in Hpc. destruct Hpc as (nwo & P1 & P2 & P3).
  pose proof (b_nt _ _ Bsh). destruct (Z.eq_dec (s_nt s) nwo) as [E|E]; [|lia].
  exfalso. apply Hn. rewrite (b_rc _ _ Bsh), P1, E. reflexivity.
Qed.

Section Step.
Variable P : params.
Variable c : cfg.
Hypothesis Hwf : wf_cfg c.
Hypothesis Hmo : mo_ok P c = true.

Lemma kcheck_of_binv s u : BInv c s -> t_pc (s_thr s u) = KCheck -> s_rc s <> t_pos (s_thr s u) ->
  0 <= s_nt s < s_nw s.
Proof.
  intros [Bsh Ball] Ep Hn. destruct (Ball u) as (_ & _ & _ & Kpc). eapply kcheck_lt; eauto.
Qed.

(* a reader about to read a slot is behind the writers, at a non-negative logical position *)
Lemma rread_range s u : AInv c s -> BInv c s -> t_pc (s_thr s u) = RRead ->
  0 <= t_start (s_thr s u) + t_cnt (s_thr s u) < s_nw s.
Proof.
  intros HA [Bsh Ball] Ep.
  assert (Hm : c_rm c <> ROnce) by (apply (a_rm_r _ _ HA u); rewrite Ep; reflexivity).
  assert (Hr : is_reader c u = true) by (apply (a_rrole _ _ HA u); rewrite Ep; reflexivity).
  destruct (Ball u) as (K0 & Kr & _ & Kpc). unfold pc_ok in Kpc. rewrite Ep in Kpc.
  destruct (Kr Hm) as (_ & _ & _ & C). destruct (C Hr) as (C0 & _). lia.
Qed.

(* harness: ticket and payload store by thread t *)
Lemma vinv_ticket s t :
  AInv c s -> BInv c s -> VInv c s ->
  let s1 := set_ticket s in
  let v1 := bump (t_view (s_thr s t)) (s_ver s) (CPay (s_begun s)) in
  VSh c s1 /\ (forall u, u <> t -> vthr_ok c s1 (s_thr s u)) /\
  vle v1 (s_ver s1) /\ vcov s1 v1 (CPay (s_begun s)) /\
  (Cov s (t_view (s_thr s t)) -> Cov s1 v1).
Proof.
  intros HA [Bsh Ball] [Vsh Vall] s1 v1.
  assert (Hcs : covsafe s (CPay (s_begun s))).
  { split; [intros j; discriminate|]. intros n Hn E. injection E as E. pose proof (v_wr_lt _ _ Vsh n Hn). lia. }
  assert (Hv : forall cl, cl <> CPay (s_begun s) -> vget (s_ver s1) cl = vget (s_ver s) cl).
  { intros cl Hn. simpl. apply vget_upd_other. exact Hn. }
  split; [|split; [|split; [|split]]].
  - destruct Vsh as [H1 H2 H3 H4 H5 H6 H7 H8 H9 H10]. constructor; simpl.
    + apply vle_ver_up. exact H1.
    + apply vle_ver_up. exact H2.
    + apply vle_ver_up. exact H3.
    + intros n Hn. specialize (H4 n Hn). lia.
    + intros Hw Hl. eapply (cov_touch s s1); eauto.
    + intros j Hj. unfold vcov. rewrite Hv by discriminate. apply H6. exact Hj.
    + intros n Hn. unfold vcov. rewrite Hv by (apply (proj2 Hcs); exact Hn). apply H7. exact Hn.
    + intros Hx. unfold vcov. rewrite Hv by discriminate. apply H8. exact Hx.
    + exact H9.
    + intros cl. rewrite vget_vupd. destruct (pcell_eqb cl (CPay (s_begun s))); [specialize (H10 (CPay (s_begun s))); lia|apply H10].
  - intros u Hn. eapply (vthr_touch c s s1); eauto.
    + simpl. rewrite vget_upd_same. lia.
    + simpl. lia.
    + apply unt_ticket; auto.
      * intros Ep. apply (rread_range s u HA); [split; assumption|exact Ep].
      * intros Ep Hx. apply (kcheck_of_binv s u); [split; assumption|exact Ep|exact Hx].
  - apply vle_bump. apply (proj1 (Vall t)).
  - unfold vcov, v1, bump. simpl. rewrite !vget_upd_same. reflexivity.
  - intros [A B]. destruct Hcs as [S1 S2]. split.
    + intros j. unfold vcov, v1, bump. rewrite vget_upd_other by discriminate. rewrite Hv by discriminate. apply A.
    + intros n Hn. simpl in Hn. unfold vcov, v1, bump. simpl s_wr.
      rewrite vget_upd_other by (apply S2; exact Hn). rewrite Hv by (apply S2; exact Hn). apply B. exact Hn.
Qed.

(* the slot store by the owner of the write side; [s] is the state just before the store *)
Lemma vinv_slot s s' t x' v m lap :
  VSh c s -> (forall u, u <> t -> vthr_ok c s (s_thr s u)) ->
  (forall u, u <> t -> t_pc (s_thr s u) = KCheck -> s_rc s <> t_pos (s_thr s u) -> s_rc s <> s_cursor s) ->
  (forall u, u <> t -> crit (t_pc (s_thr s u)) = false) ->
  (c_wm c = WSingle -> forall u, u <> t -> wpc (t_pc (s_thr s u)) = false) ->
  (forall u, u <> t -> t_pc (s_thr s u) = RRead -> t_idx (s_thr s u) mod cap c <> s_cursor s) ->
  s_cursor s = s_nw s mod cap c -> s_wbeg s = s_nw s -> (c_wm c = WLock -> s_lock s <> 0) ->
  vle v (s_ver s) -> Cov s v -> m < s_begun s -> vcov s v (CPay m) ->
  s' = set_thr (set_slot s m lap) t x' ->
  t_pc x' = WCursor -> t_msg x' = m -> t_view x' = bump v (s_ver s) (CSlot (s_cursor s)) ->
  VInv c s'.
Proof.
  intros Vsh Voth Hk Hcr Hsg Hrr Hcur Hwn Hlk Hle [CA CB] Hmb Hmc -> X1 X2 X3.
  set (j0 := s_cursor s).
  assert (Hv : forall cl, cl <> CSlot j0 -> vget (s_ver (set_slot s m lap)) cl = vget (s_ver s) cl).
  { intros cl Hn. simpl. apply vget_upd_other. exact Hn. }
  destruct Vsh as [H1 H2 H3 H4 H5 H6 H7 H8 H9 H10]. split.
  - constructor; simpl.
    + apply vle_ver_up. exact H1.
    + apply vle_ver_up. exact H2.
    + apply vle_ver_up. exact H3.
    + exact H4.
    + intros Hw Hl. exfalso. apply (Hlk Hw Hl).
    + intros j [Hj|Hj]; [lia|]. unfold vcov. simpl. rewrite vget_upd_other by (rewrite Hcur; congruence).
      apply H6. left. exact Hwn.
    + intros n Hn. unfold vcov. simpl. rewrite vget_upd_other by discriminate. apply H7. exact Hn.
    + intros Hx. unfold vcov. simpl. rewrite vget_upd_other by discriminate. apply H8. exact Hx.
    + exact H9.
    + intros cl. rewrite vget_vupd. destruct (pcell_eqb cl (CSlot (s_cursor s))); [specialize (H10 (CSlot (s_cursor s))); lia|apply H10].
  - intros u. simpl. unfold upd. destruct (Nat.eqb_spec u t).
    + subst u.
      assert (Cv : Cov (set_slot s m lap) (t_view x')).
      { rewrite X3. split.
        - intros j. unfold vcov, bump. simpl. destruct (Z.eq_dec j (s_cursor s)).
          + subst j. rewrite !vget_upd_same. reflexivity.
          + rewrite !vget_upd_other by congruence. apply CA.
        - intros n Hn. simpl in Hn. unfold vcov, bump. simpl. rewrite !vget_upd_other by discriminate.
          apply CB. exact Hn. }
      split; [|split].
      * rewrite X3. simpl. apply vle_bump. exact Hle.
      * intros _ _. exact Cv.
      * unfold vpc_ok. rewrite X1. split; [|exact Cv]. unfold ticket. rewrite X2, X3. split; [exact Hmb|].
        unfold vcov, bump. simpl. rewrite !vget_upd_other by discriminate. exact Hmc.
    + eapply (vthr_touch c s _ _ (CSlot j0)); eauto.
      * simpl. unfold j0. rewrite vget_upd_same. lia.
      * simpl. lia.
      * apply unt_slot; auto. intros Ep Hx. apply (Hk u); assumption.
Qed.

Ltac own_pc Vle Vsg Epc :=
  split; [exact Vle | split; [ first [ intros Hw _; apply Vsg; [exact Hw | try rewrite Epc; reflexivity]
                                      | intros _ Hp; discriminate ]
                             | unfold vpc_ok; simpl ]].
Ltac vpc_only HV Vle Vsg Epc :=
  eapply vinv_frame; [samev_tac | reflexivity | exact HV | own_pc Vle Vsg Epc].

(* a reader at RRead is not reading the slot the owner of the write side is about to store *)
Lemma reader_not_at_cursor s s' u :
  AInv c s -> BInv c s -> BInv c s' -> s_wbeg s = s_nw s -> s_wbeg s' = s_wbeg s + 1 ->
  s_thr s' u = s_thr s u ->
  t_pc (s_thr s u) = RRead -> t_idx (s_thr s u) mod cap c <> s_cursor s.
Proof.
  intros HA [Bsh Ball] [Bsh' Ball'] Hwn Hw1 Hsame Ep.
  assert (Hm : c_rm c <> ROnce) by (apply (a_rm_r _ _ HA u); rewrite Ep; reflexivity).
  assert (Hr : is_reader c u = true) by (apply (a_rrole _ _ HA u); rewrite Ep; reflexivity).
  destruct (Ball u) as (K0 & Kr & _ & Kpc). unfold pc_ok in Kpc. rewrite Ep in Kpc.
  destruct Kpc as [Kpc Krem].
  destruct (Kr Hm) as (A0 & A & _ & C). destruct (C Hr) as (_ & _ & C2).
  destruct (Ball' u) as (_ & Kr' & _ & _). rewrite Hsame in Kr'. destruct (Kr' Hm) as (_ & _ & _ & C').
  destruct (C' Hr) as (_ & C1' & _). specialize (C1' Krem). rewrite (b_cur _ _ Bsh), C2.
  pose proof (cap_pos c). apply not_eq_sym. apply mod_neq; lia.
Qed.

(* a read-once reader about to take is not reading the slot the owner is about to store *)
Lemma kcheck_not_at_cursor s s' u :
  AInv c s -> BInv c s -> BInv c s' -> s_wbeg s = s_nw s -> s_wbeg s' = s_wbeg s + 1 ->
  s_nt s' = s_nt s ->
  t_pc (s_thr s u) = KCheck -> s_rc s <> t_pos (s_thr s u) -> s_rc s <> s_cursor s.
Proof.
  intros HA HB [Bsh' _] Hwn Hw1 Hnt Ep Hx.
  assert (Hm : c_rm c = ROnce) by (apply (a_rm_k _ _ HA u); rewrite Ep; reflexivity).
  pose proof (kcheck_of_binv s u HB Ep Hx) as Hlt. destruct HB as [Bsh _].
  pose proof (b_nolap_once _ _ Bsh' Hm) as L. rewrite Hnt, Hw1, Hwn in L.
  rewrite (b_rc _ _ Bsh), (b_cur _ _ Bsh). pose proof (cap_pos c). apply not_eq_sym. apply mod_neq; lia.
Qed.

Lemma vthr_same6 s s' x :
  s_ver s' = s_ver s -> s_nw s' = s_nw s -> s_wr s' = s_wr s -> s_begun s' = s_begun s ->
  s_rc s' = s_rc s -> s_nt s' = s_nt s -> vthr_ok c s x -> vthr_ok c s' x.
Proof.
  intros E4 E5 E6 E7 E12 E13.
  unfold vthr_ok, vpc_ok, Cov, ticket, payfact, vcov. rewrite ?E4, ?E5, ?E6, ?E7, ?E12, ?E13. tauto.
Qed.

Lemma vthr_wake s x : vthr_ok c s x ->
  vthr_ok c s (if is_blocked (t_pc x) then set_pc x (resume (t_pc x)) else x).
Proof.
  intros H. destruct (is_blocked (t_pc x)) eqn:E; [|exact H]. destruct H as (A & B & C).
  split; [exact A|]. split.
  - simpl. intros Hw Hp. destruct (t_pc x); simpl in *; discriminate.
  - unfold vpc_ok in *. simpl. destruct (t_pc x); simpl in *; try discriminate; [exact I|exact C].
Qed.

Lemma step_vinv s t ch s' l :
  AInv c s -> BInv c s -> BInv c s' -> VInv c s -> step P s t ch = Some (s', l) ->
  s_lapped s' = false -> VInv c s'.
Proof.
  intros HA HB HB' HV Hs Hlap. pose proof HV as [Vsh Vall]. pose proof HB as [Bsh Ball].
  pose proof (a_cfg _ _ HA) as Hcfg.
  destruct (Vall t) as (Vle & Vsg & Vpc). destruct (Ball t) as (K0 & Kr & _ & Kpc).
  pose proof Kpc as KpcT.
  pose proof (cap_pos c) as HK. pose proof (wf_pre _ Hwf) as Hpre.
  pose proof (a_single _ _ HA) as Hsgl.
  unfold step in Hs. rewrite Hcfg in Hs. unfold vpc_ok in Vpc. unfold pc_ok in Kpc.
  unfold mo_ok in Hmo. apply andb_prop in Hmo as [Hmw Hmr].
  destruct (t_pc (s_thr s t)) eqn:Epc.
  - (* WStart *)
    destruct (t_rem (s_thr s t)) as [|rem'].
    + inv_some Hs. vpc_only HV Vle Vsg Epc. exact I.
    + destruct (c_thr c && negb (can_begin s)).
      * inv_some Hs. vpc_only HV Vle Vsg Epc. exact I.
      * destruct (vinv_ticket s t HA HB HV) as (T1 & T2 & T3 & T4 & T5).
        destruct (c_wm c) eqn:Ewm.
        -- inv_some Hs. split; [eapply vsh_same; [|exact T1]; samev_tac|].
           intros u. simpl. unfold upd. destruct (Nat.eqb_spec u t).
           ++ subst u. eapply (vthr_same c (set_ticket s)); [samev_tac|].
              split; [exact T3|]. split; [intros Hw; congruence|].
              unfold vpc_ok, ticket. simpl. split; [lia|exact T4].
           ++ eapply (vthr_same c (set_ticket s)); [samev_tac|]. apply T2. exact n.
        -- inv_some Hs.
           eapply (vinv_slot (set_ticket s) _ t _ (bump (t_view (s_thr s t)) (s_ver s) (CPay (s_begun s)))); try reflexivity; simpl.
           ++ exact T1.
           ++ exact T2.
           ++ intros u Hn Ep Hx. simpl in *.
              apply (kcheck_not_at_cursor s _ u HA HB HB' (Kpc eq_refl) eq_refl eq_refl Ep Hx).
           ++ intros u Hn. apply crit_wpc_false. eapply wpc_others_single; eauto. rewrite Epc. reflexivity.
           ++ intros _ u Hn. eapply wpc_others_single; eauto. rewrite Epc. reflexivity.
           ++ intros u Hn Ep. simpl in Ep.
              apply (reader_not_at_cursor s _ u HA HB HB' (Kpc eq_refl) eq_refl);
                [ simpl; unfold upd; destruct (Nat.eqb_spec u t); [contradiction|reflexivity]
                | exact Ep ].
           ++ apply (b_cur _ _ Bsh).
           ++ apply Kpc. reflexivity.
           ++ intros; congruence.
           ++ exact T3.
           ++ apply T5. apply Vsg; reflexivity.
           ++ lia.
           ++ exact T4.
  - (* WThr *) inv_some Hs. vpc_only HV Vle Vsg Epc. exact I.
  - (* WAcq *)
    assert (Hlk : c_wm c = WLock).
    { destruct (c_wm c) eqn:Ewm; [reflexivity|]. specialize (Hsgl eq_refl t). rewrite Epc in Hsgl. discriminate. }
    rewrite Hlk in Hmw. apply andb_prop in Hmw as [Hmw Msl]. apply andb_prop in Hmw as [Mt Mc].
    inv_some Hs. unfold acq_join, rmw_stamp. rewrite Mt.
    destruct Vsh as [H1 H2 H3 H4 H5 H6 H7 H8 H9 H10]. split.
    + constructor; simpl; try assumption.
      * destruct (is_rel (mo_tas P)); [apply vle_join; assumption|assumption].
      * intros _ H; discriminate.
    + intros u. simpl. unfold upd. destruct (Nat.eqb_spec u t).
      * subst u. split; [simpl; apply vle_join; assumption|]. split; [intros Hw; congruence|].
        unfold vpc_ok. simpl. destruct (Z.eqb_spec (s_lock s) 0) as [L0|L0]; simpl.
        -- destruct Vpc as [Tm Tc]. destruct (H5 Hlk L0) as [LA LB]. split.
           ++ split; [exact Tm|]. unfold vcov in *. simpl. apply vget_join_r; assumption.
           ++ split.
              ** intros j. unfold vcov. simpl. apply vget_join_l; try assumption. apply LA.
              ** intros n Hn. unfold vcov. simpl. apply vget_join_l; try assumption. apply LB. exact Hn.
        -- destruct Vpc as [Tm Tc]. split; [exact Tm|]. unfold vcov in *. simpl. apply vget_join_r; assumption.
      * apply (vthr_same6 s); try reflexivity. apply Vall.
  - (* WFailSeg *) inv_some Hs. vpc_only HV Vle Vsg Epc. exact Vpc.
  - (* WYield *) inv_some Hs. vpc_only HV Vle Vsg Epc. exact Vpc.
  - (* WRetrySeg *) inv_some Hs. vpc_only HV Vle Vsg Epc. exact Vpc.
  - (* WSlotSeg *)
    destruct Vpc as [[Tm Tc] Cv]. inv_some Hs.
    eapply (vinv_slot s _ t _ (t_view (s_thr s t))); try reflexivity; try assumption.
    + intros u _. apply Vall.
    + intros u Hn Ep Hx. apply (kcheck_not_at_cursor s _ u HA HB HB' Kpc eq_refl eq_refl Ep Hx).
    + intros u Hn. eapply crit_others; eauto. rewrite Epc. reflexivity.
    + intros Hw. specialize (Hsgl Hw t). rewrite Epc in Hsgl. discriminate.
    + intros u Hn Ep.
      apply (reader_not_at_cursor s _ u HA HB HB' Kpc eq_refl);
        [ simpl; unfold upd; destruct (Nat.eqb_spec u t); [contradiction|reflexivity]
        | exact Ep ].
    + apply (b_cur _ _ Bsh).
    + intros Hw Hl0. pose proof (a_free _ _ HA Hw Hl0 t) as F. rewrite Epc in F. discriminate.
  - (* WCursor: publication *)
    destruct Vpc as [[Tm Tc] [CA CB]]. destruct Kpc as (Kw & Ksl & Kpos).
    assert (Hrel : rel_stamp (match c_wm c with WLock => mo_st_lock P | WSingle => mo_st_single P end)
                     (t_view (s_thr s t)) = t_view (s_thr s t)).
    { unfold rel_stamp. destruct (c_wm c); [apply andb_prop in Hmw as [_ Msl]; rewrite Msl|rewrite Hmw]; reflexivity. }
    inv_some Hs. rewrite Hrel.
    assert (Cv' : forall n, 0 <= n < s_nw s + 1 ->
              vget (t_view (s_thr s t)) (CPay (zupd (s_wr s) (s_nw s) (t_msg (s_thr s t)) n)) =
              vget (s_ver s) (CPay (zupd (s_wr s) (s_nw s) (t_msg (s_thr s t)) n))).
    { intros n Hn. unfold zupd. destruct (Z.eqb_spec n (s_nw s)); [exact Tc|]. apply CB. lia. }
    destruct Vsh as [H1 H2 H3 H4 H5 H6 H7 H8 H9 H10]. split.
    + constructor; simpl; try assumption.
      * intros n Hn. unfold zupd. destruct (Z.eqb_spec n (s_nw s)); [exact Tm|]. apply H4. lia.
      * intros Hw Hl0. exfalso. pose proof (a_free _ _ HA Hw Hl0 t) as F. rewrite Epc in F. discriminate.
      * intros j _. apply CA.
    + intros u. simpl. unfold upd. destruct (Nat.eqb_spec u t).
      * subst u. split; [exact Vle|].
        assert (Cn : Cov (set_thr (set_publish s (t_pos (s_thr s t)) (t_view (s_thr s t)) (t_msg (s_thr s t))) t
                            (set_pc (s_thr s t) WStart)) (t_view (s_thr s t))).
        { split; [exact CA|exact Cv']. }
        split; [intros _ _; exact Cn|].
        unfold vpc_ok. simpl. destruct (c_wm c), (c_rm c); simpl; try exact I; exact Cn.
      * eapply (vthr_publish c s); try reflexivity.
        -- apply Vall.
        -- eapply crit_others; eauto. rewrite Epc. reflexivity.
        -- intros Hw. eapply wpc_others_single; eauto. rewrite Epc. reflexivity.
        -- intros Ep. apply (rread_range s u HA HB Ep).
        -- intros Ep Hx. apply (kcheck_of_binv s u HB Ep Hx).
  - (* WUnlockSeg *) inv_some Hs. vpc_only HV Vle Vsg Epc. exact Vpc.
  - (* WUnlock *)
    assert (Hlk : c_wm c = WLock).
    { destruct (c_wm c) eqn:Ewm; [reflexivity|]. specialize (Hsgl eq_refl t). rewrite Epc in Hsgl. discriminate. }
    rewrite Hlk in Hmw. apply andb_prop in Hmw as [Hmw Msl]. apply andb_prop in Hmw as [Mt Mc].
    inv_some Hs. unfold rel_stamp. rewrite Mc.
    destruct Vsh as [H1 H2 H3 H4 H5 H6 H7 H8 H9 H10]. split.
    + constructor; simpl; try assumption. intros _ _. exact Vpc.
    + intros u. simpl. unfold upd. destruct (Nat.eqb_spec u t).
      * subst u. split; [exact Vle|]. split; [intros Hw; congruence|].
        unfold vpc_ok. simpl. destruct (c_rm c); simpl; exact I.
      * apply (vthr_same6 s); try reflexivity. apply Vall.
  - (* WWakeSeg *) inv_some Hs. vpc_only HV Vle Vsg Epc. exact I.
  - (* WWake *)
    assert (Hme : vthr_ok c s (set_pc (s_thr s t) WStart)) by (own_pc Vle Vsg Epc; exact I).
    destruct (c_rm c) eqn:Erm.
    + inv_some Hs. split; [eapply vsh_same; [|exact Vsh]; samev_tac|].
      intros u. simpl. unfold upd. destruct (Nat.eqb_spec u t).
      * subst u. apply (vthr_same6 s); try reflexivity. exact Hme.
      * apply (vthr_same6 s); try reflexivity. unfold wake_all. apply (vthr_wake s (s_thr s u)). apply Vall.
    + destruct (first_blocked (s_thr s) (c_nw c + c_nr c)) as [u0|] eqn:Ef.
      * apply first_blocked_spec in Ef. inv_some Hs.
        split; [eapply vsh_same; [|exact Vsh]; samev_tac|].
        intros u. simpl. unfold upd. destruct (Nat.eqb_spec u t).
        -- subst u. apply (vthr_same6 s); try reflexivity. exact Hme.
        -- destruct (Nat.eqb_spec u u0).
           ++ subst u. apply (vthr_same6 s); try reflexivity.
              pose proof (vthr_wake s (s_thr s u0) (Vall u0)) as W. rewrite Ef in W. exact W.
           ++ apply (vthr_same6 s); try reflexivity. apply Vall.
      * inv_some Hs. vpc_only HV Vle Vsg Epc. exact I.
    + destruct (first_blocked (s_thr s) (c_nw c + c_nr c)) as [u0|] eqn:Ef.
      * apply first_blocked_spec in Ef. inv_some Hs.
        split; [eapply vsh_same; [|exact Vsh]; samev_tac|].
        intros u. simpl. unfold upd. destruct (Nat.eqb_spec u t).
        -- subst u. apply (vthr_same6 s); try reflexivity. exact Hme.
        -- destruct (Nat.eqb_spec u u0).
           ++ subst u. apply (vthr_same6 s); try reflexivity.
              pose proof (vthr_wake s (s_thr s u0) (Vall u0)) as W. rewrite Ef in W. exact W.
           ++ apply (vthr_same6 s); try reflexivity. apply Vall.
      * inv_some Hs. vpc_only HV Vle Vsg Epc. exact I.
    + destruct (first_blocked (s_thr s) (c_nw c + c_nr c)) as [u0|] eqn:Ef.
      * apply first_blocked_spec in Ef. inv_some Hs.
        split; [eapply vsh_same; [|exact Vsh]; samev_tac|].
        intros u. simpl. unfold upd. destruct (Nat.eqb_spec u t).
        -- subst u. apply (vthr_same6 s); try reflexivity. exact Hme.
        -- destruct (Nat.eqb_spec u u0).
           ++ subst u. apply (vthr_same6 s); try reflexivity.
              pose proof (vthr_wake s (s_thr s u0) (Vall u0)) as W. rewrite Ef in W. exact W.
           ++ apply (vthr_same6 s); try reflexivity. apply Vall.
      * inv_some Hs. vpc_only HV Vle Vsg Epc. exact I.
  - (* RSeg *)
    destruct (t_rem (s_thr s t)); inv_some Hs; vpc_only HV Vle Vsg Epc; exact I.
  - (* RLoad *)
    assert (Hm : c_rm c <> ROnce) by (apply (a_rm_r _ _ HA t); rewrite Epc; reflexivity).
    assert (Hrd : is_reader c t = true) by (apply (a_rrole _ _ HA t); rewrite Epc; reflexivity).
    destruct (Kr Hm) as (_ & _ & _ & C). destruct (C Hrd) as (C0 & _ & _).
    inv_some Hs. unfold acq_join. rewrite Hmr.
    destruct HB' as [_ Ball']. pose proof (Ball' t) as Kt'. simpl in Kt'. unfold upd in Kt'.
    rewrite Nat.eqb_refl in Kt'. destruct Kt' as (_ & _ & _ & Kpc'). unfold pc_ok in Kpc'. simpl in Kpc'.
    eapply vinv_frame; [samev_tac | reflexivity | exact HV |].
    split; [simpl; apply vle_join; [exact Vle|apply (v_cur_le _ _ Vsh)]|]. split.
    + simpl. intros _ Hp. destruct (s_cursor s =? t_idx (s_thr s t) mod cap c); [destruct (c_rm c)|]; simpl in Hp; discriminate.
    + unfold vpc_ok. simpl.
      destruct (Z.eqb_spec (s_cursor s) (t_idx (s_thr s t) mod cap c)) as [E|E].
      * destruct (c_rm c); simpl; exact I.
      * simpl in *. split.
        -- unfold vcov. simpl. apply vget_join_l; [exact Vle|apply (v_cur_le _ _ Vsh)|].
           apply (v_cur_slot _ _ Vsh). right. rewrite <- (b_cur _ _ Bsh). congruence.
        -- unfold vcov. simpl. apply vget_join_l; [exact Vle|apply (v_cur_le _ _ Vsh)|].
           apply (v_cur_pay _ _ Vsh). destruct Kpc' as [Kpc' _]. lia.
  - (* RRead *)
    assert (Hm : c_rm c <> ROnce) by (apply (a_rm_r _ _ HA t); rewrite Epc; reflexivity).
    destruct Vpc as [Vs Vp].
    assert (Hrd : is_reader c t = true) by (apply (a_rrole _ _ HA t); rewrite Epc; reflexivity).
    destruct (Kr Hm) as (A0 & A & B & C). destruct (C Hrd) as (C0 & C1 & C2).
    destruct Kpc as [Kpc Krem]. specialize (C1 Krem).
    assert (Hmsg : s_slot s (t_idx (s_thr s t) mod cap c) = s_wr s (t_start (s_thr s t) + t_cnt (s_thr s t))).
    { rewrite C2. apply (b_slots _ _ Bsh); lia. }
    assert (Hu : Nat.add (unc1 (covered (t_view (s_thr s t)) (s_ver s) (CSlot (t_idx (s_thr s t) mod cap c))))
                  (unc1 (if 0 <=? c_val c (s_slot s (t_idx (s_thr s t) mod cap c))
                        then covered (t_view (s_thr s t)) (s_ver s)
                               (CPay (c_val c (s_slot s (t_idx (s_thr s t) mod cap c))))
                        else true)) = 0%nat).
    { unfold covered. unfold vcov in Vs, Vp. rewrite Hmsg. rewrite Vs, Z.eqb_refl.
      destruct (Z.leb_spec 0 (c_val c (s_wr s (t_start (s_thr s t) + t_cnt (s_thr s t))))) as [Hv|Hv]; [|reflexivity].
      rewrite (wf_val _ Hwf _ Hv), Vp, Z.eqb_refl. reflexivity. }
    inv_some Hs. rewrite Hu.
    destruct Vsh as [H1 H2 H3 H4 H5 H6 H7 H8 H9 H10]. split.
    + constructor; simpl; try assumption. rewrite H9. reflexivity.
    + intros u. simpl. unfold upd. destruct (Nat.eqb_spec u t).
      * subst u. split; [exact Vle|]. split.
        -- simpl. intros _ Hp. destruct (pred (t_rem (s_thr s t))); simpl in Hp; discriminate.
        -- unfold vpc_ok. simpl. destruct (pred (t_rem (s_thr s t))); simpl; exact I.
      * apply (vthr_same6 s); try reflexivity. apply Vall.
  - (* RWaitSeg *) inv_some Hs. vpc_only HV Vle Vsg Epc. exact I.
  - (* RWaitOp *)
    destruct (s_cursor s =? t_pos (s_thr s t)); [destruct (Nat.eqb ch 1); [|destruct (Nat.eqb ch 2)]|]; inv_some Hs; vpc_only HV Vle Vsg Epc; exact I.
  - discriminate.
  - (* KStart *)
    destruct (t_rem (s_thr s t)); inv_some Hs; vpc_only HV Vle Vsg Epc; exact I.
  - (* KLock: the mutex hands over the previous holder's view *)
    destruct (Z.eqb_spec (s_mtx s) 0) as [M0|M0]; [|discriminate]. inv_some Hs.
    destruct Vsh as [H1 H2 H3 H4 H5 H6 H7 H8 H9 H10]. split.
    + constructor; simpl; try assumption. intros H; discriminate.
    + intros u. simpl. unfold upd. destruct (Nat.eqb_spec u t).
      * subst u. split; [simpl; apply vle_join; assumption|]. split; [simpl; intros _ Hp; discriminate|].
        unfold vpc_ok. simpl. unfold vcov. simpl. apply vget_join_l; try assumption. apply H8. exact M0.
      * apply (vthr_same6 s); try reflexivity. apply Vall.
  - (* KSeg *) inv_some Hs. vpc_only HV Vle Vsg Epc. exact Vpc.
  - (* KLoad *)
    assert (Hmo1 : c_rm c = ROnce) by (apply (a_rm_k _ _ HA t); rewrite Epc; reflexivity).
    inv_some Hs. unfold acq_join. rewrite Hmr.
    eapply vinv_frame; [samev_tac | reflexivity | exact HV |].
    split; [simpl; apply vle_join; [exact Vle|apply (v_cur_le _ _ Vsh)]|]. split; [simpl; intros _ Hp; discriminate|].
    unfold vpc_ok. simpl. split.
    + unfold vcov. simpl. apply vget_join_r; [exact Vle|apply (v_cur_le _ _ Vsh)|exact Vpc].
    + intros Hx. pose proof (b_nt _ _ Bsh) as Bn.
      assert (Hlt : s_nt s < s_nw s).
      { destruct (Z.eq_dec (s_nt s) (s_nw s)) as [E|E]; [|lia]. exfalso. apply Hx.
        rewrite (b_rc _ _ Bsh), (b_cur _ _ Bsh), E. reflexivity. }
      split.
      * unfold vcov. simpl. apply vget_join_l; [exact Vle|apply (v_cur_le _ _ Vsh)|].
        apply (v_cur_slot _ _ Vsh). right. rewrite <- (b_cur _ _ Bsh). exact Hx.
      * unfold vcov. simpl. apply vget_join_l; [exact Vle|apply (v_cur_le _ _ Vsh)|].
        apply (v_cur_pay _ _ Vsh). lia.
  - (* KCheck *)
    assert (Hmo1 : c_rm c = ROnce) by (apply (a_rm_k _ _ HA t); rewrite Epc; reflexivity).
    destruct Vpc as [Vc Vf].
    assert (Hcrc : unc1 (covered (t_view (s_thr s t)) (s_ver s) CRc) = 0%nat).
    { unfold covered. unfold vcov in Vc. rewrite Vc, Z.eqb_refl. reflexivity. }
    destruct (Z.eqb_spec (s_rc s) (t_pos (s_thr s t))) as [E|E].
    + inv_some Hs. rewrite Hcrc.
      destruct Vsh as [H1 H2 H3 H4 H5 H6 H7 H8 H9 H10]. split.
      * constructor; simpl; try assumption. rewrite H9. reflexivity.
      * intros u. simpl. unfold upd. destruct (Nat.eqb_spec u t).
        -- subst u. split; [exact Vle|]. split; [simpl; intros _ Hp; discriminate|].
           unfold vpc_ok. simpl. exact Vc.
        -- apply (vthr_same6 s); try reflexivity. apply Vall.
    + destruct (Vf E) as [Vs Vp].
      pose proof (kcheck_lt c s (s_thr s t) Bsh KpcT) as Hlt. specialize (Hlt Epc E).
      assert (Hmsg : s_slot s (s_rc s) = s_wr s (s_nt s)).
      { rewrite (b_rc _ _ Bsh). apply (b_slots _ _ Bsh); [lia|]. pose proof (b_nolap_once _ _ Bsh Hmo1). lia. }
      assert (Hcs : unc1 (covered (t_view (s_thr s t)) (s_ver s) (CSlot (s_rc s))) = 0%nat).
      { unfold covered. unfold vcov in Vs. rewrite Vs, Z.eqb_refl. reflexivity. }
      inv_some Hs. rewrite Hcrc, Hcs.
      assert (Hv : forall cl, cl <> CRc ->
                 vget (vupd (s_ver s) CRc (vget (s_ver s) CRc + 1)) cl = vget (s_ver s) cl).
      { intros cl Hn. apply vget_upd_other. exact Hn. }
      assert (Hcsafe : covsafe s CRc) by (split; intros; discriminate).
      destruct Vsh as [H1 H2 H3 H4 H5 H6 H7 H8 H9 H10]. split.
      * constructor; simpl.
        -- apply vle_ver_up. exact H1.
        -- apply vle_ver_up. exact H2.
        -- apply vle_ver_up. exact H3.
        -- exact H4.
        -- intros Hw Hl. eapply (cov_touch s); eauto.
        -- intros j Hj. unfold vcov. simpl. rewrite Hv by discriminate. apply H6. exact Hj.
        -- intros n Hn. unfold vcov. simpl. rewrite Hv by discriminate. apply H7. exact Hn.
        -- intros Hx. exfalso. pose proof (a_mfree _ _ HA Hx t) as F. rewrite Epc in F. discriminate.
        -- rewrite H9. reflexivity.
        -- intros cl. rewrite vget_vupd. destruct (pcell_eqb cl CRc); [specialize (H10 CRc); lia|apply H10].
      * intros u. simpl. unfold upd. destruct (Nat.eqb_spec u t).
        -- subst u. split; [simpl; apply vle_bump; exact Vle|]. split; [simpl; intros _ Hp; discriminate|].
           unfold vpc_ok, payfact. simpl. split.
           ++ unfold vcov, bump. simpl. rewrite !vget_upd_same. reflexivity.
           ++ rewrite Hmsg. split; [apply H4; lia|].
              unfold vcov, bump. simpl. rewrite !vget_upd_other by discriminate. exact Vp.
        -- assert (Hmu : mheld (t_pc (s_thr s u)) = false).
           { eapply mheld_others; eauto. rewrite Epc. reflexivity. }
           eapply (vthr_touch c s _ _ CRc).
           ++ apply Vall.
           ++ intros cl Hn. simpl. apply Hv. exact Hn.
           ++ simpl. rewrite vget_upd_same. lia.
           ++ reflexivity.
           ++ reflexivity.
           ++ simpl. lia.
           ++ right. intros Ep. rewrite Ep in Hmu. discriminate.
           ++ apply unt_take. exact Hmu.
  - (* KWaitOp *)
    destruct (s_cursor s =? t_pos (s_thr s t)); [destruct (Nat.eqb ch 1); [|destruct (Nat.eqb ch 2)]|]; inv_some Hs; vpc_only HV Vle Vsg Epc; exact Vpc.
  - discriminate.
  - (* KUnlock: the mutex keeps the holder's view for the next one *)
    destruct Vpc as [Vc Pf]. inv_some Hs.
    destruct Vsh as [H1 H2 H3 H4 H5 H6 H7 H8 H9 H10]. split.
    + constructor; simpl; try assumption. intros _. exact Vc.
    + intros u. simpl. unfold upd. destruct (Nat.eqb_spec u t).
      * subst u. split; [exact Vle|]. split; [simpl; intros _ Hp; discriminate|].
        unfold vpc_ok. simpl. exact Pf.
      * apply (vthr_same6 s); try reflexivity. apply Vall.
  - (* KDoneSeg *)
    destruct Vpc as [Pm Pc].
    assert (Hu : unc1 (if 0 <=? c_val c (t_ret (s_thr s t))
                       then covered (t_view (s_thr s t)) (s_ver s) (CPay (c_val c (t_ret (s_thr s t))))
                       else true) = 0%nat).
    { unfold covered. unfold vcov in Pc.
      destruct (Z.leb_spec 0 (c_val c (t_ret (s_thr s t)))) as [Hv|Hv]; [|reflexivity].
      rewrite (wf_val _ Hwf _ Hv), Pc, Z.eqb_refl. reflexivity. }
    inv_some Hs. rewrite Hu.
    destruct Vsh as [H1 H2 H3 H4 H5 H6 H7 H8 H9 H10]. split.
    + constructor; simpl; try assumption. rewrite H9. reflexivity.
    + intros u. simpl. unfold upd. destruct (Nat.eqb_spec u t).
      * subst u. split; [exact Vle|]. split.
        -- simpl. intros _ Hp. destruct (pred (t_rem (s_thr s t))); simpl in Hp; discriminate.
        -- unfold vpc_ok. simpl. destruct (pred (t_rem (s_thr s t))); simpl; exact I.
      * apply (vthr_same6 s); try reflexivity. apply Vall.
  - (* TFin *) inv_some Hs. vpc_only HV Vle Vsg Epc. exact I.
  - discriminate.
Qed.
End Step.
