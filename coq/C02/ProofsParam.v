(* C02 — the model is parametric in the values the messages carry: it moves message identities
   through the slots and never inspects the pointer value c_val assigns to them.  Running any
   scenario with the values replaced by an arbitrary function f changes nothing but what the
   harness reports about the received pointers (and whether it dereferences them): same
   schedule, same states, same operations, same delivered message identities - hence the
   delivered VALUES are the f-images.  This is what justifies testing the correspondence with
   the C code on a few special pointer values (NULL, (void* )-1, small integers, addresses
   inside the ring, repeated values). *)
From MV Require Import C02.Model.
Local Open Scope Z_scope.

Definition set_val (c : cfg) (f : Z -> Z) : cfg :=
  {| c_k := c_k c; c_wm := c_wm c; c_rm := c_rm c; c_nw := c_nw c; c_nr := c_nr c; c_thr := c_thr c;
     c_pre := c_pre c; c_wcnt := c_wcnt c; c_rq := c_rq c; c_idx0 := c_idx0 c; c_val := f |}.

(* everything except the value assignment and the uncovered-read monitor (the harness
   dereferences only pointers to payload objects, so that monitor depends on the values) *)
Definition norm (s : sys) : sys :=
  {| s_cfg := set_val (s_cfg s) (fun m => m); s_cursor := s_cursor s; s_cur_st := s_cur_st s;
     s_lock := s_lock s; s_lock_st := s_lock_st s; s_mtx := s_mtx s; s_mtx_st := s_mtx_st s;
     s_rc := s_rc s; s_slot := s_slot s; s_pay := s_pay s; s_ver := s_ver s; s_begun := s_begun s;
     s_deliv := s_deliv s; s_nw := s_nw s; s_wr := s_wr s; s_wbeg := s_wbeg s; s_nt := s_nt s;
     s_once := s_once s; s_who := s_who s; s_lapped := s_lapped s; s_uncov := O; s_thr := s_thr s |}.

(* labels up to the values in the harness notes *)
Definition erase (l : label) : label :=
  match l with
  | LPlain ns => LPlain (map (fun n => (fst n, 0)) ns)
  | x => x
  end.

Lemma step_norm P s s' t ch : norm s = norm s' ->
  match step P s t ch, step P s' t ch with
  | Some (a, l), Some (b, l') => norm a = norm b /\ erase l = erase l'
  | None, None => True
  | _, _ => False
  end.
Proof.
  destruct s as [c cu cs lk ls mx ms rc sl py vr bg dl nw wr wb nt on wh lp un th].
  destruct s' as [c' cu' cs' lk' ls' mx' ms' rc' sl' py' vr' bg' dl' nw' wr' wb' nt' on' wh' lp' un' th'].
  destruct c as [k wm rm cnw cnr thr pre wcnt rq idx0 val].
  destruct c' as [k' wm' rm' cnw' cnr' thr' pre' wcnt' rq' idx0' val'].
  unfold norm, set_val; simpl. intros H. injection H as; subst.
  unfold step, can_begin, nolap_ok, readers, cap; simpl.
  destruct (t_pc (th' t));
    repeat match goal with
    | |- context [match t_rem ?x with _ => _ end] => destruct (t_rem x)
    | |- context [match first_blocked ?a ?b with _ => _ end] => destruct (first_blocked a b)
    | |- context [match pred ?x with _ => _ end] => destruct (pred x)
    | |- context [match ?x with _ => _ end] =>
      match type of x with
      | bool => destruct x
      | wmode => destruct x
      | rmode => destruct x
      end
    end; simpl; try exact I; try (split; reflexivity).
Qed.

Lemma init_norm c f : norm (init c) = norm (init (set_val c f)).
Proof. destruct c; reflexivity. Qed.

(* same schedule: same states (up to the value assignment) and same operations *)
Theorem value_independent_exec P c f sched :
  norm (exec sys (step P) (init c) sched) = norm (exec sys (step P) (init (set_val c f)) sched) /\
  map (fun e => (fst e, erase (snd e))) (trace sys (step P) (init c) sched) =
  map (fun e => (fst e, erase (snd e))) (trace sys (step P) (init (set_val c f)) sched).
Proof.
  pose proof (init_norm c f) as H. revert H. generalize (init c) (init (set_val c f)).
  induction sched as [|[t ch] r IH]; intros s s' H; simpl; [split; [exact H|reflexivity]|].
  pose proof (step_norm P s s' t ch H) as S. unfold exec1; simpl.
  destruct (step P s t ch) as [[a l]|]; destruct (step P s' t ch) as [[b l']|]; try contradiction.
  - destruct S as [S1 S2]. destruct (IH a b S1) as [I1 I2]. split; [exact I1|]. simpl. rewrite S2, I2. reflexivity.
  - apply IH. exact H.
Qed.

(* the model never inspects payloads: with the values mapped by any f, every reader receives the
   same message identities at the same points, so the values it receives are the f-images; all
   ghost histories (written, read-once takes) and the precondition monitor coincide *)
Theorem ring_delivery_value_independent_all P c f sched t k :
  let s := exec sys (step P) (init c) sched in
  let s' := exec sys (step P) (init (set_val c f)) sched in
  t_pc (s_thr s' t) = t_pc (s_thr s t) /\ t_cnt (s_thr s' t) = t_cnt (s_thr s t) /\
  c_val (s_cfg s') (t_got (s_thr s' t) k) = f (t_got (s_thr s t) k) /\
  s_nw s' = s_nw s /\ s_wr s' = s_wr s /\ s_nt s' = s_nt s /\ s_once s' = s_once s /\
  s_lapped s' = s_lapped s /\ s_cursor s' = s_cursor s.
Proof.
  intros s s'. destruct (value_independent_exec P c f sched) as [H _]. fold s s' in H.
  assert (Hc : s_cfg s' = set_val c f).
  { unfold s'. apply (inv_exec sys (step P) (fun x => s_cfg x = set_val c f)); [|reflexivity].
    intros x u ch x' l Hx Hs. rewrite <- Hx. clear Hx. unfold step in Hs.
    destruct (t_pc (s_thr x u)); try discriminate;
    repeat match type of Hs with
    | context [match t_rem ?y with _ => _ end] => destruct (t_rem y)
    | context [match c_wm ?y with _ => _ end] => destruct (c_wm y)
    | context [match c_rm ?y with _ => _ end] => destruct (c_rm y)
    | context [match first_blocked ?a ?b with _ => _ end] => destruct (first_blocked a b)
    | context [if ?b then _ else _] => destruct b
    end; try discriminate;
    match type of Hs with Some (?a, _) = Some _ => assert (E : x' = a) by congruence; rewrite E; reflexivity end. }
  pose proof (f_equal s_thr H) as Ht. simpl in Ht. rewrite <- Ht.
  pose proof (f_equal s_nw H) as E1. pose proof (f_equal s_wr H) as E2. pose proof (f_equal s_nt H) as E3.
  pose proof (f_equal s_once H) as E4. pose proof (f_equal s_lapped H) as E5. pose proof (f_equal s_cursor H) as E6.
  simpl in *. rewrite Hc. simpl. repeat split; congruence.
Qed.
