(* C02 — read-once mode: each reader's positions in the read-mutex order strictly increase,
   and every taken position belongs to exactly one reader, which has returned it or is about
   to return it (its take is pending between the slot read and the harness note). *)
From MV Require Import C02.Model C02.ProofsBase C02.ProofsCtl C02.ProofsFun C02.ProofsFunStep.
Local Open Scope Z_scope.

Definition ocount (x : tstate) : Z := t_cnt x + (if pending (t_pc x) then 1 else 0).

Definition othr_ok (x : tstate) : Prop :=
  forall k1 k2, 0 <= k1 < k2 -> k2 < ocount x -> t_gotn x k1 < t_gotn x k2.

Definition OSh (s : sys) : Prop :=
  forall n, 0 <= n < s_nt s ->
  let x := s_thr s (s_who s n) in
  exists k, t_gotn x k = n /\
    ((0 <= k < t_cnt x /\ t_got x k = s_once s n) \/
     (k = t_cnt x /\ pending (t_pc x) = true /\ t_ret x = s_once s n)).

Definition OInv (c : cfg) (s : sys) : Prop :=
  c_rm c = ROnce -> OSh s /\ forall t, othr_ok (s_thr s t).

Lemma init_oinv c : OInv c (init c).
Proof.
  intros _. split.
  - intros n Hn. simpl in Hn. lia.
  - intros t k1 k2 H1 H2. unfold ocount, tinit in H2. simpl in H2.
    assert (pending (if is_writer c t then WStart else if is_reader c t
              then match c_rm c with ROnce => KStart | _ => RSeg end else TDone) = false).
    { destruct (is_writer c t); [reflexivity|]. destruct (is_reader c t); [destruct (c_rm c)|]; reflexivity. }
    rewrite H in H2. lia.
Qed.

(* what the statements read from a thread *)
Definition osame (x x' : tstate) : Prop :=
  t_cnt x' = t_cnt x /\ t_got x' = t_got x /\ t_gotn x' = t_gotn x /\ t_ret x' = t_ret x /\
  pending (t_pc x') = pending (t_pc x).

Lemma oinv_same c s s' :
  (forall u, osame (s_thr s u) (s_thr s' u)) -> s_nt s' = s_nt s -> s_once s' = s_once s ->
  s_who s' = s_who s -> OInv c s -> OInv c s'.
Proof.
  intros Hs E1 E2 E3 HO Hm. destruct (HO Hm) as [A B]. split.
  - intros n Hn. rewrite E1 in Hn. rewrite E2, E3. simpl.
    destruct (Hs (s_who s n)) as (C1 & C2 & C3 & C4 & C5). rewrite C1, C2, C3, C4, C5. apply A. exact Hn.
  - intros t. destruct (Hs t) as (C1 & C2 & C3 & C4 & C5). unfold othr_ok, ocount. rewrite C1, C3, C5. apply B.
Qed.

Lemma pending_resume p : is_blocked p = true -> pending (resume p) = pending p.
Proof. destruct p; simpl; try discriminate; reflexivity. Qed.

Lemma osame_refl x : osame x x.
Proof. repeat split; reflexivity. Qed.

Section Step.
Variable P : params.
Variable c : cfg.
Hypothesis Hwf : wf_cfg c.

(* steps of thread t that keep every thread's results and pending status *)
Ltac osame_tac Epc :=
  let u := fresh "u" in
  intros u; simpl; unfold upd, wake_all;
  repeat match goal with
  | |- context [if Nat.eqb ?a ?b then _ else _] => destruct (Nat.eqb_spec a b); try subst a
  | |- context [if is_blocked ?p then _ else _] => destruct (is_blocked p) eqn:?
  end;
  try apply osame_refl; unfold osame; simpl; rewrite ?Epc; simpl;
  repeat split; try reflexivity;
  try (apply pending_resume; assumption);
  try (symmetry; apply pending_resume; assumption).

Lemma step_oinv s t ch s' l :
  AInv c s -> BInv c s -> OInv c s -> step P s t ch = Some (s', l) -> OInv c s'.
Proof.
  intros HA [Bsh Ball] HO Hs. pose proof (a_cfg _ _ HA) as Hcfg.
  unfold step in Hs. rewrite Hcfg in Hs.
  destruct (t_pc (s_thr s t)) eqn:Epc; try discriminate.
  (* the read-once take, the two harness segments that count a result; everything else keeps
     the read data *)
  all: try solve [
    repeat match type of Hs with
    | context [match t_rem ?x with _ => _ end] => destruct (t_rem x)
    | context [match c_wm c with _ => _ end] => destruct (c_wm c)
    | context [match c_rm c with _ => _ end] => destruct (c_rm c)
    | context [match first_blocked ?a ?b with _ => _ end] =>
      let Ef := fresh "Ef" in destruct (first_blocked a b) eqn:Ef; [apply first_blocked_spec in Ef|]
    | context [if ?b then _ else _] => destruct b
    end; try discriminate; inv_some Hs;
    (eapply oinv_same; [osame_tac Epc | reflexivity | reflexivity | reflexivity | exact HO]) ].
  - (* RRead: not in read-once mode *)
    intros Hm. exfalso. apply (a_rm_r _ _ HA t); [rewrite Epc; reflexivity|exact Hm].
  - (* KCheck *)
    destruct (s_rc s =? t_pos (s_thr s t)).
    + inv_some Hs. eapply oinv_same; [osame_tac Epc | reflexivity | reflexivity | reflexivity | exact HO].
    + inv_some Hs. intros Hm. destruct (HO Hm) as [A B].
      destruct (Ball t) as (K0 & _ & Ko & _). destruct (Ko Hm) as [Og _].
      pose proof (b_nt _ _ Bsh) as Bn.
      split.
      * intros n Hn. simpl in Hn. simpl.
        unfold zupdn, zupd. destruct (Z.eqb_spec n (s_nt s)) as [E|E].
        -- subst n. unfold upd. rewrite Nat.eqb_refl. simpl. exists (t_cnt (s_thr s t)).
           rewrite Z.eqb_refl. split; [reflexivity|]. right. repeat split; reflexivity.
        -- assert (Hn' : 0 <= n < s_nt s) by lia. destruct (A n Hn') as (k & G1 & G2). simpl in G1, G2.
           unfold upd. destruct (Nat.eqb_spec (s_who s n) t) as [Ew|Ew].
           ++ simpl. rewrite Ew in G1, G2. rewrite Epc in G2. simpl in G2.
              destruct G2 as [[G2 G3]|[_ [G2 _]]]; [|discriminate].
              exists k. destruct (Z.eqb_spec k (t_cnt (s_thr s t))); [lia|].
              split; [exact G1|]. left. split; assumption.
           ++ exists k. split; [exact G1|exact G2].
      * intros u. simpl. unfold upd. destruct (Nat.eqb_spec u t).
        -- subst u. unfold othr_ok, ocount. simpl. intros k1 k2 H1 H2. unfold zupd.
           destruct (Z.eqb_spec k1 (t_cnt (s_thr s t))); [lia|].
           destruct (Z.eqb_spec k2 (t_cnt (s_thr s t))).
           ++ destruct (Og k1) as [G _]; lia.
           ++ apply (B t); [exact H1|]. unfold ocount. rewrite Epc. simpl. lia.
        -- apply B.
  - (* KDoneSeg: the pending take becomes the next result *)
    inv_some Hs. intros Hm. destruct (HO Hm) as [A B]. split.
    + intros n Hn. simpl in Hn. simpl. destruct (A n Hn) as (k & G1 & G2). simpl in G1, G2.
      unfold upd. destruct (Nat.eqb_spec (s_who s n) t) as [Ew|Ew].
      * simpl. rewrite Ew in G1, G2. exists k. split; [exact G1|]. left. unfold zupd.
        destruct G2 as [[G2 G3]|[G2 [_ G3]]].
        -- destruct (Z.eqb_spec k (t_cnt (s_thr s t))); [lia|]. split; [lia|exact G3].
        -- subst k. rewrite Z.eqb_refl. split; [|exact G3].
           destruct (Ball t) as (K0 & _). lia.
      * exists k. split; [exact G1|exact G2].
    + intros u. simpl. unfold upd. destruct (Nat.eqb_spec u t).
      * subst u. unfold othr_ok, ocount. simpl. intros k1 k2 H1 H2.
        apply (B t); [exact H1|]. unfold ocount. rewrite Epc. simpl.
        destruct (pred (t_rem (s_thr s t))); simpl in H2; lia.
      * apply B.
Qed.
End Step.

Theorem rb_once_positions_all P c sched : wf_cfg c -> c_rm c = ROnce ->
  let s := exec sys (step P) (init c) sched in
  s_lapped s = false ->
  (forall t k1 k2, 0 <= k1 < k2 -> k2 < ocount (s_thr s t) ->
     t_gotn (s_thr s t) k1 < t_gotn (s_thr s t) k2) /\
  (forall n, 0 <= n < s_nt s ->
     let x := s_thr s (s_who s n) in
     exists k, t_gotn x k = n /\
       ((0 <= k < t_cnt x /\ t_got x k = s_once s n) \/
        (k = t_cnt x /\ pending (t_pc x) = true /\ t_ret x = s_once s n))).
Proof.
  intros Hwf Hm s Hl.
  assert (H : AInv c s /\ (s_lapped s = false -> BInv c s /\ OInv c s)).
  { unfold s. apply inv_exec.
    - intros s0 t ch s' l [HA HBO] Hs. split; [eapply step_ainv; eauto|].
      intros Hl'. pose proof (lapped_mono P s0 t ch s' l Hs Hl') as Hl0. destruct (HBO Hl0) as [HB HO].
      split; [eapply step_binv; eauto|eapply step_oinv; eauto].
    - split; [apply init_ainv|]. intros _. split; [now apply init_binv|apply init_oinv]. }
  destruct H as [_ H]. destruct (H Hl) as [_ HO]. destruct (HO Hm) as [A B]. split.
  - intros t. apply B.
  - exact A.
Qed.
