(* C02 — the functional theorems for every schedule. *)
From MV Require Import C02.Model C02.ProofsBase C02.ProofsCtl C02.ProofsFun C02.ProofsFunStep.
Local Open Scope Z_scope.

Definition Inv (c : cfg) (s : sys) : Prop := AInv c s /\ (s_lapped s = false -> BInv c s).

Theorem rb_invariants P c sched : wf_cfg c -> Inv c (exec sys (step P) (init c) sched).
Proof.
  intros Hwf. apply inv_exec.
  - intros s t ch s' l [HA HB] Hs. split; [eapply step_ainv; eauto|].
    intros Hl. eapply step_binv; eauto. apply HB. eapply lapped_mono; eauto.
  - split; [apply init_ainv|]. intros _. now apply init_binv.
Qed.

(* read(i) returns the i-th published message, and only after it exists: the k-th read of
   reader t (32-bit index (idx0 + k) mod 2^32, logical index rd_start c t + k, where rd_start c t is
   the position in the write order of the message the reader's first index names: ANY first index
   whose ring position has been written - late joiners, readers at different residues) *)
Theorem rb_read_returns_ith_all P c sched t k : wf_cfg c -> c_rm c <> ROnce ->
  let s := exec sys (step P) (init c) sched in
  s_lapped s = false -> 0 <= k < t_cnt (s_thr s t) ->
  t_got (s_thr s t) k = s_wr s (rd_start c t + k) /\ rd_start c t + k < s_nw s.
Proof.
  intros Hwf Hm s Hl Hk. destruct (rb_invariants P c sched Hwf) as [_ HB]. fold s in HB.
  destruct (HB Hl) as [_ Hall]. destruct (Hall t) as (_ & Hr & _). destruct (Hr Hm) as (A0 & A & B & _).
  rewrite <- A0. split; [apply B; assumption|lia].
Qed.

(* every reader sees the same order: whatever their first indices, two readers receive the same
   message for the same logical index (the k-th read of t and the j-th read of u when
   rd_start c t + k = rd_start c u + j) *)
Corollary rb_readers_agree_all P c sched t u k j : wf_cfg c -> c_rm c <> ROnce ->
  let s := exec sys (step P) (init c) sched in
  s_lapped s = false -> 0 <= k < t_cnt (s_thr s t) -> 0 <= j < t_cnt (s_thr s u) ->
  rd_start c t + k = rd_start c u + j ->
  t_got (s_thr s t) k = t_got (s_thr s u) j.
Proof.
  intros Hwf Hm s Hl H1 H2 E.
  destruct (rb_read_returns_ith_all P c sched t k Hwf Hm Hl H1) as [E1 _].
  destruct (rb_read_returns_ith_all P c sched u j Hwf Hm Hl H2) as [E2 _].
  fold s in E1, E2. congruence.
Qed.

(* read-once: the takes in read-mutex order are a prefix of the publication order; every
   result returned to a reader is the take recorded for that reader at one position *)
Theorem rb_once_prefix_all P c sched : wf_cfg c -> c_rm c = ROnce ->
  let s := exec sys (step P) (init c) sched in
  s_lapped s = false ->
  0 <= s_nt s <= s_nw s /\ (forall n, 0 <= n < s_nt s -> s_once s n = s_wr s n) /\
  (forall t k, 0 <= k < t_cnt (s_thr s t) ->
     let n := t_gotn (s_thr s t) k in
     0 <= n < s_nt s /\ t_got (s_thr s t) k = s_once s n /\ s_who s n = t).
Proof.
  intros Hwf Hm s Hl. destruct (rb_invariants P c sched Hwf) as [_ HB]. fold s in HB.
  destruct (HB Hl) as [Hsh Hall]. split; [apply (b_nt _ _ Hsh)|]. split; [apply (b_once _ _ Hsh)|].
  intros t k Hk. destruct (Hall t) as (_ & _ & Ho & _). destruct (Ho Hm) as [A _]. apply A. exact Hk.
Qed.

(* the cursor is the number of published messages modulo the capacity (A.6) *)
Theorem rb_cursor_all P c sched : wf_cfg c ->
  let s := exec sys (step P) (init c) sched in
  s_lapped s = false -> s_cursor s = s_nw s mod cap c.
Proof.
  intros Hwf s Hl. destruct (rb_invariants P c sched Hwf) as [_ HB]. fold s in HB.
  destruct (HB Hl) as [Hsh _]. apply (b_cur _ _ Hsh).
Qed.

(* the reader's 32-bit index register: (first index + completed reads) mod 2^32 *)
Definition IdxInv (c : cfg) (s : sys) : Prop :=
  forall t, is_reader c t = true ->
  t_idx (s_thr s t) = (c_idx0 c t + t_cnt (s_thr s t)) mod two32.

Lemma step_idx P c s t ch s' l : IdxInv c s -> step P s t ch = Some (s', l) -> IdxInv c s'.
Proof.
  intros HJ Hs u Hu. pose proof (HJ u Hu) as Ju. pose proof (HJ t) as Jt.
  unfold step in Hs.
  destruct (t_pc (s_thr s t)); try discriminate;
  repeat match type of Hs with
  | context [match t_rem ?x with _ => _ end] => destruct (t_rem x)
  | context [match c_wm ?c with _ => _ end] => destruct (c_wm c)
  | context [match c_rm ?c with _ => _ end] => destruct (c_rm c)
  | context [match first_blocked ?a ?b with _ => _ end] => destruct (first_blocked a b)
  | context [if ?b then _ else _] => destruct b
  end; try discriminate; inv_some Hs; simpl; unfold upd, wake_all;
  repeat match goal with
  | |- context [if Nat.eqb ?a ?b then _ else _] => destruct (Nat.eqb_spec a b); try subst a
  | |- context [if is_blocked ?p then _ else _] => destruct (is_blocked p)
  end; simpl; try assumption; try (apply HJ; assumption);
  rewrite (Jt Hu), Zplus_mod_idemp_l; f_equal; lia.
Qed.

Theorem rb_idx_register_all P c sched t : wf_cfg c -> is_reader c t = true ->
  let s := exec sys (step P) (init c) sched in
  t_idx (s_thr s t) = (c_idx0 c t + t_cnt (s_thr s t)) mod two32.
Proof.
  intros Hwf Hr. revert t Hr. change (IdxInv c (exec sys (step P) (init c) sched)). apply inv_exec.
  - intros; eapply step_idx; eauto.
  - intros t Hr. simpl. unfold tinit; simpl. rewrite Z.add_0_r.
    destruct (wf_idx _ Hwf t Hr) as [H _]. symmetry. apply Z.mod_small. exact H.
Qed.

(* the logical position named by a reader's first index (pure arithmetic) *)
Lemma rd_start_facts c t :
  rd_start c t mod cap c = c_idx0 c t mod cap c /\
  c_pre c - cap c < rd_start c t <= c_pre c /\
  (c_idx0 c t mod cap c = c_pre c mod cap c -> rd_start c t = c_pre c).
Proof. exact (conj (rd_start_mod c t) (conj (rd_start_range c t) (rd_start_at_cursor c t))). Qed.
