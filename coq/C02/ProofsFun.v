(* C02 — functional (sequentially consistent) invariant of the ring buffer for every schedule,
   any number of writers and readers, any power-of-two capacity: under the documented
   no-lapping precondition (ghost monitor s_lapped = false) read(i) returns the i-th published
   message and only after it exists; read-once takes are a prefix of the publication order. *)
From MV Require Import C02.Model C02.ProofsBase C02.ProofsCtl.
Local Open Scope Z_scope.

Record BSh (c : cfg) (s : sys) : Prop := {
  b_cur : s_cursor s = s_nw s mod cap c;
  b_pre : c_pre c <= s_nw s;
  b_wbeg : s_nw s <= s_wbeg s <= s_nw s + 1;
  b_free : c_wm c = WLock -> s_lock s = 0 -> s_wbeg s = s_nw s;
  b_slots : forall n, 0 <= n < s_nw s -> s_wbeg s <= n + cap c -> s_slot s (n mod cap c) = s_wr s n;
  b_nt : 0 <= s_nt s <= s_nw s;
  b_rc : s_rc s = s_nt s mod cap c;
  b_once : forall n, 0 <= n < s_nt s -> s_once s n = s_wr s n;
  b_nolap_once : c_rm c = ROnce -> s_wbeg s < s_nt s + cap c;
}.

(* readers of the modes wait / single-wait / busy-loop: never ahead of the writers, results so
   far are the published messages at their indices, the 32-bit index register is congruent to
   the logical index, the writers are less than a capacity ahead *)
Definition rd_ok (c : cfg) (s : sys) (t : nat) (x : tstate) : Prop :=
  c_rm c <> ROnce ->
  t_start x = rd_start c t /\
  t_start x + t_cnt x <= s_nw s /\
  (forall k, 0 <= k < t_cnt x -> t_got x k = s_wr s (t_start x + k)) /\
  (is_reader c t = true ->
   0 <= t_start x /\
   (t_rem x <> O -> s_wbeg s < t_start x + t_cnt x + cap c) /\
   t_idx x mod cap c = (t_start x + t_cnt x) mod cap c).

(* read-once readers: every result is the take recorded for this reader at some position of
   the read-mutex order *)
Definition pending (p : pc) : bool := match p with KUnlock | KDoneSeg => true | _ => false end.
Definition on_ok (c : cfg) (s : sys) (t : nat) (x : tstate) : Prop :=
  c_rm c = ROnce ->
  (forall k, 0 <= k < t_cnt x ->
     0 <= t_gotn x k < s_nt s /\ t_got x k = s_once s (t_gotn x k) /\ s_who s (t_gotn x k) = t) /\
  (pending (t_pc x) = true ->
     0 <= t_gotn x (t_cnt x) < s_nt s /\ t_ret x = s_once s (t_gotn x (t_cnt x)) /\
     s_who s (t_gotn x (t_cnt x)) = t).

Definition pc_ok (c : cfg) (s : sys) (x : tstate) : Prop :=
  match t_pc x with
  | WStart | WThr | WWakeSeg | WWake => c_wm c = WSingle -> s_wbeg s = s_nw s
  | WSlotSeg | WUnlockSeg | WUnlock => s_wbeg s = s_nw s
  | WCursor => s_wbeg s = s_nw s + 1 /\ s_slot s (s_nw s mod cap c) = t_msg x /\
               t_pos x = (s_nw s + 1) mod cap c
  | RLoad => t_rem x <> O
  | RRead => t_start x + t_cnt x < s_nw s /\ t_rem x <> O
  | KCheck => exists nwo, t_pos x = nwo mod cap c /\ s_nt s <= nwo <= s_nw s /\ nwo < s_nt s + cap c
  | _ => True
  end.

Definition bthr_ok (c : cfg) (s : sys) (t : nat) (x : tstate) : Prop :=
  0 <= t_cnt x /\ rd_ok c s t x /\ on_ok c s t x /\ pc_ok c s x.

Definition BInv (c : cfg) (s : sys) : Prop :=
  BSh c s /\ forall t, bthr_ok c s t (s_thr s t).

(* ------------------------------------------------------------------ *)
Lemma init_binv c : wf_cfg c -> BInv c (init c).
Proof.
  intros Hwf. pose proof (wf_pre _ Hwf) as Hp. pose proof (cap_pos c) as HK. split.
  - constructor; simpl.
    + reflexivity.
    + lia.
    + lia.
    + reflexivity.
    + intros n Hn _. rewrite Z.mod_small by lia.
      destruct (Z.leb_spec 0 n); [|lia]. destruct (Z.ltb_spec n (c_pre c)); [|lia]. reflexivity.
    + lia.
    + rewrite Z.mod_0_l by lia. reflexivity.
    + intros; lia.
    + intros; lia.
  - intros t. unfold bthr_ok, rd_ok, on_ok, pc_ok, tinit; simpl. split; [lia|]. split; [|split].
    + intros Hm. pose proof (rd_start_range c t) as Hrs. split; [reflexivity|]. split; [lia|].
      split; [intros; lia|]. intros Hr. split; [apply (wf_idx _ Hwf t Hr); exact Hm|]. split; [intros _; lia|].
      rewrite Z.add_0_r. symmetry. apply rd_start_mod.
    + intros _. split; [intros; lia|].
      destruct (is_writer c t); simpl; [discriminate|].
      destruct (is_reader c t); [destruct (c_rm c)|]; simpl; discriminate.
    + destruct (is_writer c t); simpl; [intros; reflexivity|].
      destruct (is_reader c t); [destruct (c_rm c)|]; simpl; exact I.
Qed.

(* BSh and the per-thread facts only read the shared fields *)
Definition same_sh (s s' : sys) : Prop :=
  s_cursor s' = s_cursor s /\ s_nw s' = s_nw s /\ s_wbeg s' = s_wbeg s /\
  s_slot s' = s_slot s /\ s_wr s' = s_wr s /\ s_nt s' = s_nt s /\ s_rc s' = s_rc s /\
  s_once s' = s_once s /\ s_who s' = s_who s.

Lemma bsh_same c s s' : same_sh s s' ->
  (c_wm c = WLock -> s_lock s' = 0 -> s_wbeg s = s_nw s) -> BSh c s -> BSh c s'.
Proof.
  intros (E1 & E2 & E3 & E5 & E6 & E7 & E8 & E9 & E10) Hf [H1 H2 H3 H4 H5 H6 H7 H8 H9].
  constructor; rewrite ?E1, ?E2, ?E3, ?E5, ?E6, ?E7, ?E8, ?E9, ?E10; assumption.
Qed.
Lemma bthr_same c s s' t x : same_sh s s' -> bthr_ok c s t x -> bthr_ok c s' t x.
Proof.
  intros (E1 & E2 & E3 & E5 & E6 & E7 & E8 & E9 & E10).
  unfold bthr_ok, rd_ok, on_ok, pc_ok.
  rewrite ?E1, ?E2, ?E3, ?E5, ?E6, ?E7, ?E8, ?E9, ?E10. tauto.
Qed.

Ltac same_tac := unfold same_sh; simpl; repeat split; reflexivity.

(* a step that changes no shared field read by the invariant (except possibly the lock word)
   and only thread t's state *)
Lemma binv_frame c s s' t x' :
  same_sh s s' -> s_thr s' = upd (s_thr s) t x' ->
  (c_wm c = WLock -> s_lock s' = 0 -> s_wbeg s = s_nw s) ->
  BInv c s -> bthr_ok c s t x' -> BInv c s'.
Proof.
  intros Hsame Hthr Hf [Hsh Hall] Hx. split; [eapply bsh_same; eauto|].
  intros u. rewrite Hthr. unfold upd. destruct (Nat.eqb_spec u t).
  - subst u. eapply bthr_same; eauto.
  - eapply bthr_same; eauto.
Qed.

(* the generic part of a thread's facts does not depend on its program point, except for the
   pending result *)
Lemma bthr_set_pc c s t x p :
  bthr_ok c s t x -> (pending p = true -> pending (t_pc x) = true) ->
  pc_ok c s (set_pc x p) -> bthr_ok c s t (set_pc x p).
Proof.
  intros (H0 & Hr & Ho & _) Hp Hpc. unfold bthr_ok. split; [exact H0|]. split; [exact Hr|]. split; [|exact Hpc].
  unfold on_ok in *. simpl. intros Hm. destruct (Ho Hm) as [A B]. split; [exact A|]. intros Hq. apply B. now apply Hp.
Qed.

(* ------------------------------------------------------------------ *)
(* how the three shared changes (slot store, publication, read-once take) look to the other threads *)

Lemma is_reader_writer c t : (t < c_nw c)%nat -> is_reader c t = false.
Proof. intros H. unfold is_reader. destruct (Nat.leb_spec (c_nw c) t); [lia|reflexivity]. Qed.

Lemma in_readers c u : is_reader c u = true -> In u (readers c).
Proof.
  unfold is_reader, readers. intros H. apply andb_prop in H as [H1 H2].
  apply Nat.leb_le in H1. apply Nat.ltb_lt in H2. apply in_seq. lia.
Qed.

Lemma active_rem x : active x = true <-> t_rem x <> O.
Proof. unfold active. destruct (Nat.eqb_spec (t_rem x) O); simpl; split; intros; congruence. Qed.

Lemma nolap_reader c s w : s_cfg s = c -> c_rm c <> ROnce -> nolap_ok s w = true ->
  forall u, is_reader c u = true -> t_rem (s_thr s u) <> O ->
  w < t_start (s_thr s u) + t_cnt (s_thr s u) + cap c.
Proof.
  intros Hc Hm H u Hu Hrem. unfold nolap_ok in H. rewrite Hc in H.
  assert (F : forallb (fun u => negb (active (s_thr s u)) || (w <? rnext (s_thr s u) + cap c)) (readers c) = true).
  { destruct (c_rm c); try assumption. congruence. }
  rewrite forallb_forall in F. specialize (F u (in_readers c u Hu)).
  apply active_rem in Hrem. rewrite Hrem in F. simpl in F. now apply Z.ltb_lt in F.
Qed.

Lemma nolap_once c s w : s_cfg s = c -> c_rm c = ROnce -> nolap_ok s w = true -> w < s_nt s + cap c.
Proof. intros Hc Hm H. unfold nolap_ok in H. rewrite Hc, Hm in H. now apply Z.ltb_lt in H. Qed.

(* the slot store by a thread that owns the write side *)
Lemma others_slot c s s' u m :
  s_nw s' = s_nw s -> s_wr s' = s_wr s -> s_wbeg s' = s_wbeg s + 1 -> s_nt s' = s_nt s ->
  s_once s' = s_once s -> s_who s' = s_who s -> s_slot s' = zupd (s_slot s) (s_cursor s) m ->
  (c_rm c <> ROnce -> is_reader c u = true -> t_rem (s_thr s u) <> O ->
   s_wbeg s + 1 < t_start (s_thr s u) + t_cnt (s_thr s u) + cap c) ->
  bthr_ok c s u (s_thr s u) -> crit (t_pc (s_thr s u)) = false ->
  (c_wm c = WSingle -> wpc (t_pc (s_thr s u)) = false) ->
  bthr_ok c s' u (s_thr s u).
Proof.
  intros E1 E2 E3 E4 E5 E6 E7 Hlap (H0 & Hr & Ho & Hpc) Hcr Hsg.
  unfold bthr_ok. split; [exact H0|]. split; [|split].
  - unfold rd_ok in *. rewrite E1, E2, E3. intros Hm. destruct (Hr Hm) as (A0 & A & B & C).
    split; [exact A0|]. split; [exact A|]. split; [exact B|]. intros Hrd. destruct (C Hrd) as (C0 & C1 & C2).
    split; [exact C0|]. split; [|exact C2]. intros Hrem. apply Hlap; assumption.
  - unfold on_ok in *. rewrite E4, E5, E6. exact Ho.
  - unfold pc_ok in *. rewrite E1, E3, E4.
    destruct (t_pc (s_thr s u)); simpl in *; try exact I; try discriminate;
      try (intros Hw; specialize (Hsg Hw); discriminate); assumption.
Qed.

(* the publication (cursor store) *)
Lemma others_publish c s s' u x m :
  s_nw s' = s_nw s + 1 -> s_wr s' = zupd (s_wr s) (s_nw s) m -> s_wbeg s' = s_wbeg s -> s_nt s' = s_nt s ->
  s_once s' = s_once s -> s_who s' = s_who s -> s_slot s' = s_slot s ->
  bthr_ok c s u x -> crit (t_pc x) = false -> (c_wm c = WSingle -> wpc (t_pc x) = false) ->
  0 <= c_pre c ->
  bthr_ok c s' u x.
Proof.
  intros E1 E2 E3 E4 E5 E6 E7 (H0 & Hr & Ho & Hpc) Hcr Hsg Hpre.
  unfold bthr_ok. split; [exact H0|]. split; [|split].
  - unfold rd_ok in *. rewrite E1, E2, E3. intros Hm. destruct (Hr Hm) as (A0 & A & B & C).
    split; [exact A0|]. split; [lia|]. split; [|exact C]. intros k Hk. rewrite zupd_other by lia. apply B; assumption.
  - unfold on_ok in *. rewrite E4, E5, E6. exact Ho.
  - unfold pc_ok in *. rewrite E1, E3, E4.
    destruct (t_pc x); simpl in *; try exact I; try discriminate;
      try (intros Hw; specialize (Hsg Hw); discriminate); try assumption.
    + split; [lia|apply Hpc].
    + destruct Hpc as (nwo & A & B & C). exists nwo. repeat split; try assumption; lia.
Qed.

(* the read-once take under read_mutex *)
Lemma others_take c s s' u x m (w : nat) :
  s_nw s' = s_nw s -> s_wr s' = s_wr s -> s_wbeg s' = s_wbeg s -> s_nt s' = s_nt s + 1 ->
  s_once s' = zupd (s_once s) (s_nt s) m -> s_who s' = zupdn (s_who s) (s_nt s) w -> s_slot s' = s_slot s ->
  bthr_ok c s u x -> mheld (t_pc x) = false -> pending (t_pc x) = true \/ mheld (t_pc x) = false ->
  bthr_ok c s' u x.
Proof.
  intros E1 E2 E3 E4 E5 E6 E7 (H0 & Hr & Ho & Hpc) Hmh _.
  unfold bthr_ok. split; [exact H0|]. split; [|split].
  - unfold rd_ok in *. rewrite E1, E2, E3. exact Hr.
  - unfold on_ok in *. rewrite E4, E5, E6. intros Hm. destruct (Ho Hm) as [A B]. split.
    + intros k Hk. destruct (A k Hk) as (A1 & A2 & A3). unfold zupdn. rewrite zupd_other by lia.
      destruct (Z.eqb_spec (t_gotn x k) (s_nt s)); [lia|]. repeat split; try assumption; lia.
    + intros Hq. destruct (B Hq) as (A1 & A2 & A3). unfold zupdn. rewrite zupd_other by lia.
      destruct (Z.eqb_spec (t_gotn x (t_cnt x)) (s_nt s)); [lia|]. repeat split; try assumption; lia.
  - unfold pc_ok in *. rewrite E1, E3, E7.
    destruct (t_pc x); simpl in *; try exact I; try discriminate; assumption.
Qed.

(* ------------------------------------------------------------------ *)
(* the reader parts of a thread's facts under changes of its own state *)
Lemma rd_ok_eq c s s' t x x' :
  rd_ok c s t x -> s_nw s' = s_nw s -> s_wr s' = s_wr s -> s_wbeg s' = s_wbeg s ->
  t_cnt x' = t_cnt x -> t_got x' = t_got x -> t_idx x' = t_idx x ->
  t_start x' = t_start x -> (is_reader c t = true -> t_rem x' = t_rem x) -> rd_ok c s' t x'.
Proof.
  unfold rd_ok. intros H E1 E2 E3 E4 E5 E6 E7 E8 Hm. rewrite E1, E2, E3, E4, E5, E6, E7.
  destruct (H Hm) as (A0 & A & B & C). split; [exact A0|]. split; [exact A|]. split; [exact B|].
  intros Hr. rewrite (E8 Hr). exact (C Hr).
Qed.

Lemma on_ok_eq c s s' t x x' :
  on_ok c s t x -> s_nt s' = s_nt s -> s_once s' = s_once s -> s_who s' = s_who s ->
  t_cnt x' = t_cnt x -> t_got x' = t_got x -> t_gotn x' = t_gotn x -> t_ret x' = t_ret x ->
  (pending (t_pc x') = true -> pending (t_pc x) = true) -> on_ok c s' t x'.
Proof.
  unfold on_ok. intros H E1 E2 E3 E4 E5 E6 E7 Hp Hm. rewrite E1, E2, E3, E4, E5, E6, E7.
  destruct (H Hm) as [A B]. split; [exact A|]. intros Hq. apply B. now apply Hp.
Qed.

Lemma bthr_change c s t x x' :
  bthr_ok c s t x -> t_cnt x' = t_cnt x -> t_got x' = t_got x -> t_gotn x' = t_gotn x ->
  t_idx x' = t_idx x -> t_ret x' = t_ret x -> t_start x' = t_start x ->
  (is_reader c t = true -> t_rem x' = t_rem x) ->
  (pending (t_pc x') = true -> pending (t_pc x) = true) -> pc_ok c s x' -> bthr_ok c s t x'.
Proof.
  intros (H0 & Hr & Ho & _) E1 E2 E3 E4 E5 E6 E7 Hp Hpc. unfold bthr_ok. rewrite E1. split; [exact H0|].
  split; [eapply rd_ok_eq; eauto|]. split; [eapply on_ok_eq; eauto|exact Hpc].
Qed.

Lemma rd_ok_publish c s s' t x m :
  rd_ok c s t x -> s_nw s' = s_nw s + 1 -> s_wr s' = zupd (s_wr s) (s_nw s) m -> s_wbeg s' = s_wbeg s ->
  0 <= c_pre c -> rd_ok c s' t x.
Proof.
  unfold rd_ok. intros H E1 E2 E3 Hpre Hm. rewrite E1, E2, E3. destruct (H Hm) as (A0 & A & B & C).
  split; [exact A0|]. split; [lia|]. split; [|exact C]. intros k Hk. rewrite zupd_other by lia. apply B; assumption.
Qed.

Section Step.
Variable P : params.
Variable c : cfg.
Hypothesis Hwf : wf_cfg c.

Lemma lapped_mono s t ch s' l : step P s t ch = Some (s', l) -> s_lapped s' = false -> s_lapped s = false.
Proof.
  unfold step. intros Hs.
  destruct (t_pc (s_thr s t)); try discriminate;
  repeat match type of Hs with
  | context [match t_rem ?x with _ => _ end] => destruct (t_rem x)
  | context [match c_wm ?c with _ => _ end] => destruct (c_wm c)
  | context [match c_rm ?c with _ => _ end] => destruct (c_rm c)
  | context [match first_blocked ?a ?b with _ => _ end] => destruct (first_blocked a b)
  | context [if ?b then _ else _] => destruct b
  end; try discriminate; inv_some Hs; simpl; try (intros H; exact H);
  intros H; apply orb_false_elim in H; tauto.
Qed.
End Step.
