(* C13 — event loop life-cycle; select / poll / epoll agree.  Property theorems only: each is
   closed by [exact] of a lemma proved in C13/Proofs*.v and followed by Print Assumptions.
   [runs b sc os] = the loop of back-end b on script sc, one iteration per kernel report in the
   oracle list os (ANY list: the life-cycle theorems do not rely on the kernel behaving);
   the result flag tells whether the loop has exited.  Traces are newest-first. *)
From MV Require Import C13.Model C13.ProofsLife C13.ProofsIso C13.ProofsAgree C13.ProofsRead C13.ProofsFix C13.ProofsFlat.
From Coq Require Import Permutation.

(* the close callback runs at most once per context *)
Theorem evl_close_once : forall b sc os x,
  count_occ ev_eq_dec (tr (fst (runs b sc os))) (EClose x) <= 1.
Proof. exact life_close_once. Qed.
Print Assumptions evl_close_once.

(* after a context's close callback no read, close or clear callback mentions it again *)
Theorem evl_no_callback_after_close : forall b sc os x t1 t2,
  rev (tr (fst (runs b sc os))) = t1 ++ EClose x :: t2 ->
  forall e, In e t2 -> touches e x = false.
Proof. exact life_no_callback_after_close. Qed.
Print Assumptions evl_no_callback_after_close.

(* when the loop exits: clear callback exactly once, in list order, for exactly the contexts that
   add_ctx accepted and that were not closed; nothing cleared or exited before; exit callback last *)
Theorem evl_clear_once_for_remaining : forall b sc os s',
  runs b sc os = (s', true) ->
  exists s1,
    tr s' = EExit :: rev (map EClear (clist s1)) ++ tr s1 /\
    NoDup (clist s1) /\
    (forall x, In x (clist s1) <-> In (EAct (AAdd x) 0) (tr s1) /\ ~ In (EClose x) (tr s1)) /\
    ~ In EExit (tr s1) /\ (forall x, ~ In (EClear x) (tr s1)).
Proof. exact life_clear_and_exit. Qed.
Print Assumptions evl_clear_once_for_remaining.

(* the exit callback runs at most once (exactly once, last, by the previous theorem, when the loop
   exits; never while it is running) *)
Theorem evl_exit_once : forall b sc os,
  count_occ ev_eq_dec (tr (fst (runs b sc os))) EExit <= 1.
Proof. exact life_exit_once. Qed.
Print Assumptions evl_exit_once.

Theorem evl_no_clear_or_exit_while_running : forall b sc os s',
  runs b sc os = (s', false) -> ~ In EExit (tr s') /\ forall x, ~ In (EClear x) (tr s').
Proof. exact life_no_exit_before. Qed.
Print Assumptions evl_no_clear_or_exit_while_running.

(* in every pass, every registered context the kernel reported readable gets its read callback:
   - select: in that pass (the list walk reaches every registered context, also the ones callbacks
     append during the walk);
   - poll: in that pass, or - when the walk stopped above its slot because an fd reporting POLLIN and
     POLLHUP together was counted twice - the slot is untouched, the input still pending, and the
     next kernel call reports the context readable again (the documented one-pass delay; the
     hypothesis ev_in says the report was true, which is the kernel's part);
   - epoll: in that epoll_wait batch. *)
Theorem evl_read_called_when_pending :
  (forall rep n s, Inv s -> bk s = BSelect -> 0 < n ->
     forall x, In x (clist s) -> Nat.eqb (lookup x rep) 0 = false ->
     exists t k, tr (dispatch_select rep n s) = t ++ tr s /\ In (ERead x k) t) /\
  (forall rep n s j x r0, Inv s -> bk s = BPoll ->
     nth_error (parr s) j = Some (x, r0) -> 1 <= j ->
     has_in (lookup x rep) = true -> ev_in (cx s x) = true ->
     let s' := dispatch_poll rep n s in
     (exists t m, tr s' = t ++ tr s /\ In (ERead x m) t) \/
     (exists e, In (x, e) (kern s') /\ has_in e = true)) /\
  (forall rep s, Inv s -> bk s = BEpoll ->
     forall x e, In (x, e) (ep_filter [] (ereg s) rep) -> x <> 0 -> has_in e = true ->
     exists t n, tr (dispatch_epoll rep s) = t ++ tr s /\ In (ERead x n) t).
Proof. exact read_all. Qed.
Print Assumptions evl_read_called_when_pending.

(* poll: how long the delay above can last.  With n at least the number of live slots from j upwards
   (the kernel's return value counts every slot with non-zero revents), a pass either reads the
   ready context in slot j or closes a context - the one in a higher slot that reported POLLIN and
   POLLHUP|POLLERR together and was counted twice; it is flagged, closed and its slot removed.  The
   signal slot 0 is not reached in such a pass, so nothing is appended: a ready slot at index j is
   read after at most nfd - j passes. *)
Theorem evl_poll_delay_step : forall rep n s j x r0, Inv s -> bk s = BPoll ->
  nth_error (parr s) j = Some (x, r0) -> 1 <= j -> has_in (lookup x rep) = true ->
  let s1 := set_parr (map (fun p => (fst p, lookup (fst p) rep)) (parr s)) s in
  lc s1 j (length (parr s1)) <= n ->
  (exists t m, tr (dispatch_poll rep n s) = t ++ tr s /\ In (ERead x m) t) \/
  (exists t y, tr (dispatch_poll rep n s) = t ++ tr s /\ In (EClose y) t).
Proof. exact poll_delay_bound_step. Qed.
Print Assumptions evl_poll_delay_step.

(* poll: the step at slot i leaves every lower slot (context and revents) as it was, so a slot the
   walk does not reach in this pass (n used up by a POLLIN+POLLHUP fd counted twice) is still
   registered with its descriptor and data: the next poll() reports it again *)
Theorem evl_poll_skipped_slot_untouched : forall i n s j, Inv s -> bk s = BPoll ->
  1 <= i -> j < i -> i < length (parr s) ->
  nth_error (parr (fst (poll_step i n s))) j = nth_error (parr s) j.
Proof. exact poll_step_lower. Qed.
Print Assumptions evl_poll_skipped_slot_untouched.

(* every state between two kernel calls satisfies the invariant used above *)
Theorem evl_invariant_reachable : forall b sc os s, runs b sc os = (s, false) -> Inv s /\ bk s = b.
Proof. exact reach_Inv. Qed.
Print Assumptions evl_invariant_reachable.

(* adding, capacity-rejecting or removing one context leaves every other context's registration
   and pending data untouched:
   (1) add: every other context's state is unchanged and the new context goes behind the existing
       entries of every table; a refused add changes no table at all;
   (2) poll's swap-with-last: the array without slot i is a permutation of the new array, slot 0
       (signal fd) and every slot below i stay in place, revents travel with their context;
   (3) select's rebuild (repaired code): after a pass allset holds no descriptor of a context that is
       no longer registered;
   (4) between passes: ctx_list has no duplicates, poll's array is the signal fd followed by a
       permutation of ctx_list, epoll's interest list holds registered contexts only. *)
Theorem evl_add_reject_remove_isolated :
  (forall y s, cadded (cx s y) = false -> y <> 0 ->
     let s' := do_act (AAdd y) s in
     (forall x, x <> y -> cx s' x = cx s x) /\ cq (cx s' y) = cq (cx s y) /\
     ((tr s' = EAct (AAdd y) 0 :: tr s /\ clist s' = clist s ++ [y] /\
       (exists l, parr s' = parr s ++ l) /\ (forall x, In x (sset s) -> In x (sset s')) /\
       (exists l, ereg s' = ereg s ++ l) /\ (exists l, erdl s' = erdl s ++ l)) \/
      (tr s' = EAct (AAdd y) 2 :: tr s /\ tables_same s s'))) /\
  (forall l i p, nth_error l i = Some p ->
     Permutation l (p :: poll_remove i l) /\
     (1 <= i -> hd_error (poll_remove i l) = hd_error l) /\
     (forall j, j < i -> nth_error (poll_remove i l) j = nth_error l j)) /\
  (forall rep n s, Nat.ltb 0 n = true -> no_stale (dispatch_select rep n s)) /\
  (forall b sc os s, runs b sc os = (s, false) ->
     NoDup (clist s) /\
     (b = BPoll -> hd_error (map fst (parr s)) = Some 0 /\ Permutation (map fst (parr s)) (0 :: clist s)) /\
     (b = BEpoll -> forall x, In x (ereg s) -> x = 0 \/ In x (clist s))).
Proof. exact iso_all. Qed.
Print Assumptions evl_add_reject_remove_isolated.

(* FULL STATEMENT evl_backends_agree: forall sc, in_S sc = true -> the three loops (on the model's
   kernel function, [runks]) have exited -> every context has the same outcome (bytes offered,
   closed, cleared) in the three back-ends.
   PROVED for the sub-class SWT of S ([swt]): every read-callback trigger WRITES to, HALF-CLOSES or
   CLOSES some context's peer, or WAKES the loop (threshold >= 1, no two identical trigger lines);
   a peer that some trigger terminates gets all its callback-issued writes and terminators from one
   context (the single-source condition of S, [tsb]) and then the trigger list is in threshold order
   (as the drivers order it, [sorted_tb]); chains and cycles of triggers, several writers into one
   context, self-writes, a context closing its own peer, writes issued after the terminator (dropped
   by every back-end) are all included; every other action (add, and again write / half-close /
   close / wake-up) is issued before run() or from an idle phase, i.e. from the wake callback at
   quiescence, in any number of phases; no scripted exit / shutdown; the adds fit hints_max_fd.
   SW (triggers only write, in any order: evl_backends_agree_sw) and the flat class (no triggers)
   are special cases.
   Method: the back-end-free specification [spec_sw] executes the phases in order and, between two
   phases, fires the LEAST FIXPOINT of "registered and threshold reached by the bytes written so
   far" (Kleene iteration [LP], C13/ProofsFix.v).  A terminator is one more monotone fact: what
   reaches a terminated peer is a PREFIX of its single source's action sequence, so totals only grow
   with the fired set (tot_mono).  Each back-end's loop is simulated against it: whatever the visit
   order, the batches of triggers it fires are enabled by the earlier ones, hence below the fixpoint
   (Just_sound), fired in list order per context (ordU), and at quiescence the fired set is closed,
   hence above it (quiet_closed, closed_is_lfp).  A context whose peer is terminated while input is
   pending is offered that input first in every back-end (EOF is only seen by reading behind the
   data), so there is no divergence there and nothing is added to the known finding.  Each loop ends
   with [spec_outcome_sw]: every registered context was offered every byte written to it and is
   closed iff its peer terminated, cleared otherwise (evl_swt_outcome); hence agreement, each loop
   with its own number of kernel calls.
   NOT PROVED (monitor-only): scripts of S with a trigger that shuts the ACTING context down at its
   threshold, or a trigger that ADDS a context; for those the proved part is evl_backends_agree_visit
   below and the monitor checks agreement on every generated S script. *)
Theorem evl_swt_outcome : forall sc, swt sc = true -> forall b fuel s',
  runks b sc fuel = (s', true) -> forall x, outcome s' x = spec_outcome_sw sc x.
Proof. exact swt_outcome. Qed.
Print Assumptions evl_swt_outcome.

Theorem evl_backends_agree_partial : forall sc, swt sc = true -> forall f1 f2 f3,
  snd (runks BSelect sc f1) = true -> snd (runks BPoll sc f2) = true -> snd (runks BEpoll sc f3) = true ->
  forall x, outcome (fst (runks BSelect sc f1)) x = outcome (fst (runks BPoll sc f2)) x /\
            outcome (fst (runks BSelect sc f1)) x = outcome (fst (runks BEpoll sc f3)) x.
Proof. exact agree_swt. Qed.
Print Assumptions evl_backends_agree_partial.

(* corollary: the class SW of the previous round (triggers that only write, in any order) *)
Theorem evl_backends_agree_sw : forall sc, sw sc = true -> forall f1 f2 f3,
  snd (runks BSelect sc f1) = true -> snd (runks BPoll sc f2) = true -> snd (runks BEpoll sc f3) = true ->
  forall x, outcome (fst (runks BSelect sc f1)) x = outcome (fst (runks BPoll sc f2)) x /\
            outcome (fst (runks BSelect sc f1)) x = outcome (fst (runks BEpoll sc f3)) x.
Proof. exact agree_sw. Qed.
Print Assumptions evl_backends_agree_sw.

Theorem evl_backends_agree_visit : forall x s s', shared s = shared s' -> read_room x s -> read_room x s' ->
  shared (cb_read x s) = shared (cb_read x s') /\
  shared (set_flag x s) = shared (set_flag x s') /\
  shared (set_clist (rm x (clist (cb_close x s))) (cb_close x s)) =
  shared (set_clist (rm x (clist (cb_close x s'))) (cb_close x s')).
Proof. exact agree_visit. Qed.
Print Assumptions evl_backends_agree_visit.

(* outside S agreement fails: the known finding cross-shutdown (findings/C13-cross-shutdown.case) *)
Theorem evl_backends_agree_refuted : exists sc fuel,
  in_S sc = false /\
  snd (runks BSelect sc fuel) = true /\ snd (runks BPoll sc fuel) = true /\ snd (runks BEpoll sc fuel) = true /\
  ~ agree sc fuel.
Proof. exact agree_refuted. Qed.
Print Assumptions evl_backends_agree_refuted.
