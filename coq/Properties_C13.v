(* C13 — event loop life-cycle; select / poll / epoll agree.  Property theorems only: each is
   closed by [exact] of a lemma proved in C13/Proofs*.v and followed by Print Assumptions.
   [runs b sc os] = the loop of back-end b on script sc, one iteration per kernel report in the
   oracle list os (ANY list: the life-cycle theorems do not rely on the kernel behaving);
   the result flag tells whether the loop has exited.  Traces are newest-first. *)
From MV Require Import C13.Model C13.ProofsLife C13.ProofsIso C13.ProofsAgree.
From Coq Require Import Permutation.

(* the close callback runs at most once per context *)
Theorem evl_close_once : forall b sc os x,
  count_occ ev_eq_dec (tr (fst (runs b sc os))) (EClose x) <= 1.
Proof. exact life_close_once. Qed.
Print Assumptions evl_close_once.

(* after a context's close callback no read, close or clear callback mentions it again *)
Theorem evl_no_callback_after_close : forall b sc os x t1 t2,
  rev (tr (fst (runs b sc os))) = t1 ++ EClose x :: t2 ->
  forall e, In e t2 -> touches e x = false.
Proof. exact life_no_callback_after_close. Qed.
Print Assumptions evl_no_callback_after_close.

(* when the loop exits: clear callback exactly once, in list order, for exactly the contexts that
   add_ctx accepted and that were not closed; nothing cleared or exited before; exit callback last *)
Theorem evl_clear_once_for_remaining : forall b sc os s',
  runs b sc os = (s', true) ->
  exists s1,
    tr s' = EExit :: rev (map EClear (clist s1)) ++ tr s1 /\
    NoDup (clist s1) /\
    (forall x, In x (clist s1) <-> In (EAct (AAdd x) 0) (tr s1) /\ ~ In (EClose x) (tr s1)) /\
    ~ In EExit (tr s1) /\ (forall x, ~ In (EClear x) (tr s1)).
Proof. exact life_clear_and_exit. Qed.
Print Assumptions evl_clear_once_for_remaining.

(* the exit callback runs at most once (exactly once, last, by the previous theorem, when the loop
   exits; never while it is running) *)
Theorem evl_exit_once : forall b sc os,
  count_occ ev_eq_dec (tr (fst (runs b sc os))) EExit <= 1.
Proof. exact life_exit_once. Qed.
Print Assumptions evl_exit_once.

Theorem evl_no_clear_or_exit_while_running : forall b sc os s',
  runs b sc os = (s', false) -> ~ In EExit (tr s') /\ forall x, ~ In (EClear x) (tr s').
Proof. exact life_no_exit_before. Qed.
Print Assumptions evl_no_clear_or_exit_while_running.

(* FULL STATEMENT evl_read_called_when_pending: in every pass, every registered context the
   kernel reported readable gets its read callback in that pass.
   PROVED: the epoll back-end, per epoll_wait batch (below).  For select and poll the loop body
   calls the read callback of the context under the cursor when it is reported (by definition of
   sel_walk / poll_step); that the cursor reaches every registered context in the pass is not proved
   (select: fuel of the list walk; poll: n accounting, and it is FALSE for poll when an fd reports
   POLLIN and POLLHUP together, see evl_poll_skipped_slot_untouched and the example
   poll_double_decrement_skips_one_pass).  The monitor checks the per-pass rule on every run. *)
Theorem evl_read_called_when_pending_partial : forall rep s, Inv s -> bk s = BEpoll ->
  forall x e, In (x, e) (ep_filter [] (ereg s) rep) -> x <> 0 -> has_in e = true ->
  exists t n, tr (dispatch_epoll rep s) = t ++ tr s /\ In (ERead x n) t.
Proof. exact read_dispatch_epoll. Qed.
Print Assumptions evl_read_called_when_pending_partial.

(* poll: the step at slot i leaves every lower slot (context and revents) as it was, so a slot the
   walk does not reach in this pass (n used up by a POLLIN+POLLHUP fd counted twice) is still
   registered with its descriptor and data: the next poll() reports it again *)
Theorem evl_poll_skipped_slot_untouched : forall i n s j, Inv s -> bk s = BPoll ->
  1 <= i -> j < i -> i < length (parr s) ->
  nth_error (parr (fst (poll_step i n s))) j = nth_error (parr s) j.
Proof. exact poll_step_lower. Qed.
Print Assumptions evl_poll_skipped_slot_untouched.

(* every state between two kernel calls satisfies the invariant used above *)
Theorem evl_invariant_reachable : forall b sc os s, runs b sc os = (s, false) -> Inv s /\ bk s = b.
Proof. exact reach_Inv. Qed.
Print Assumptions evl_invariant_reachable.

(* adding, capacity-rejecting or removing one context leaves every other context's registration
   and pending data untouched:
   (1) add: every other context's state is unchanged and the new context goes behind the existing
       entries of every table; a refused add changes no table at all;
   (2) poll's swap-with-last: the array without slot i is a permutation of the new array, slot 0
       (signal fd) and every slot below i stay in place, revents travel with their context;
   (3) select's rebuild (repaired code): after a pass allset holds no descriptor of a context that is
       no longer registered;
   (4) between passes: ctx_list has no duplicates, poll's array is the signal fd followed by a
       permutation of ctx_list, epoll's interest list holds registered contexts only. *)
Theorem evl_add_reject_remove_isolated :
  (forall y s, cadded (cx s y) = false -> y <> 0 ->
     let s' := do_act (AAdd y) s in
     (forall x, x <> y -> cx s' x = cx s x) /\ cq (cx s' y) = cq (cx s y) /\
     ((tr s' = EAct (AAdd y) 0 :: tr s /\ clist s' = clist s ++ [y] /\
       (exists l, parr s' = parr s ++ l) /\ (forall x, In x (sset s) -> In x (sset s')) /\
       (exists l, ereg s' = ereg s ++ l) /\ (exists l, erdl s' = erdl s ++ l)) \/
      (tr s' = EAct (AAdd y) 2 :: tr s /\ tables_same s s'))) /\
  (forall l i p, nth_error l i = Some p ->
     Permutation l (p :: poll_remove i l) /\
     (1 <= i -> hd_error (poll_remove i l) = hd_error l) /\
     (forall j, j < i -> nth_error (poll_remove i l) j = nth_error l j)) /\
  (forall rep n s, Nat.ltb 0 n = true -> no_stale (dispatch_select rep n s)) /\
  (forall b sc os s, runs b sc os = (s, false) ->
     NoDup (clist s) /\
     (b = BPoll -> hd_error (map fst (parr s)) = Some 0 /\ Permutation (map fst (parr s)) (0 :: clist s)) /\
     (b = BEpoll -> forall x, In x (ereg s) -> x = 0 \/ In x (clist s))).
Proof. exact iso_all. Qed.
Print Assumptions evl_add_reject_remove_isolated.

(* FULL STATEMENT evl_backends_agree: forall sc fuel, in_S sc = true -> the three loops (on the
   model's kernel function, [runks]) have exited -> agree sc fuel   (same bytes offered, same
   closed/cleared outcome for every context).  NOT PROVED.
   PROVED PART: a visit (read callback with its triggered actions, flagging, close callback and
   removal from ctx_list) transforms the shared state identically in the three back-ends as long as
   the poll table has room for the adds; the back-ends therefore differ only in the order of visits
   and in when a flagged context is noticed. *)
Theorem evl_backends_agree_partial : forall x s s', shared s = shared s' -> read_room x s -> read_room x s' ->
  shared (cb_read x s) = shared (cb_read x s') /\
  shared (set_flag x s) = shared (set_flag x s') /\
  shared (set_clist (rm x (clist (cb_close x s))) (cb_close x s)) =
  shared (set_clist (rm x (clist (cb_close x s'))) (cb_close x s')).
Proof. exact agree_visit. Qed.
Print Assumptions evl_backends_agree_partial.

(* outside S agreement fails: the known finding cross-shutdown (findings/C13-cross-shutdown.case) *)
Theorem evl_backends_agree_refuted : exists sc fuel,
  in_S sc = false /\
  snd (runks BSelect sc fuel) = true /\ snd (runks BPoll sc fuel) = true /\ snd (runks BEpoll sc fuel) = true /\
  ~ agree sc fuel.
Proof. exact agree_refuted. Qed.
Print Assumptions evl_backends_agree_refuted.
