From MV Require Import C13.Model C13.Proofs.
Theorem evl_stub : True.
Proof. exact stub_true. Qed.
Print Assumptions evl_stub.
