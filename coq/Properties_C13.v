(* C13 — event loop life-cycle; select / poll / epoll agree.  Property theorems only: each is
   closed by [exact] of a lemma proved in C13/Proofs*.v and followed by Print Assumptions.
   [runs b sc os] = the loop of back-end b on script sc, one iteration per kernel report in the
   oracle list os (ANY list: the life-cycle theorems do not rely on the kernel behaving);
   the result flag tells whether the loop has exited.  Traces are newest-first. *)
From MV Require Import C13.Model C13.ProofsLife C13.ProofsIso C13.ProofsAgree C13.ProofsRead C13.ProofsFix C13.ProofsFlat.
From MV Require Import Lib.Leaf C13.Decide gen.Params_C13 C13.ProofsGen C13.ProofsGenModel C13.ProofsPrerun C13.ProofsBoundary C13.ProofsTmr C13.ProofsReset.
From Coq Require Import Permutation.

(* the close callback runs at most once per context *)
Theorem evl_close_once : forall b sc os x,
  count_occ ev_eq_dec (tr (fst (runs b sc os))) (EClose x) <= 1.
Proof. exact life_close_once. Qed.
Print Assumptions evl_close_once.

(* after a context's close callback no read, close or clear callback mentions it again *)
Theorem evl_no_callback_after_close : forall b sc os x t1 t2,
  rev (tr (fst (runs b sc os))) = t1 ++ EClose x :: t2 ->
  forall e, In e t2 -> touches e x = false.
Proof. exact life_no_callback_after_close. Qed.
Print Assumptions evl_no_callback_after_close.

(* when the loop exits: clear callback exactly once, in list order, for exactly the contexts that
   add_ctx accepted and that were not closed; nothing cleared or exited before; exit callback last *)
Theorem evl_clear_once_for_remaining : forall b sc os s',
  runs b sc os = (s', true) ->
  exists s1,
    tr s' = EExit :: rev (map EClear (clist s1)) ++ tr s1 /\
    NoDup (clist s1) /\
    (forall x, In x (clist s1) <-> In (EAct (AAdd x) 0) (tr s1) /\ ~ In (EClose x) (tr s1)) /\
    ~ In EExit (tr s1) /\ (forall x, ~ In (EClear x) (tr s1)).
Proof. exact life_clear_and_exit. Qed.
Print Assumptions evl_clear_once_for_remaining.

(* the exit callback runs at most once (exactly once, last, by the previous theorem, when the loop
   exits; never while it is running) *)
Theorem evl_exit_once : forall b sc os,
  count_occ ev_eq_dec (tr (fst (runs b sc os))) EExit <= 1.
Proof. exact life_exit_once. Qed.
Print Assumptions evl_exit_once.

Theorem evl_no_clear_or_exit_while_running : forall b sc os s',
  runs b sc os = (s', false) -> ~ In EExit (tr s') /\ forall x, ~ In (EClear x) (tr s').
Proof. exact life_no_exit_before. Qed.
Print Assumptions evl_no_clear_or_exit_while_running.

(* in every pass, every registered context the kernel reported readable gets its read callback:
   - select: in that pass (the list walk reaches every registered context, also the ones callbacks
     append during the walk);
   - poll: in that pass, or - when the walk stopped above its slot because an fd reporting POLLIN and
     POLLHUP together was counted twice - the slot is untouched, the input still pending, and the
     next kernel call reports the context readable again (the documented one-pass delay; the
     hypothesis ev_in says the report was true, which is the kernel's part);
   - epoll: in that epoll_wait batch. *)
Theorem evl_read_called_when_pending :
  (forall rep n s, Inv s -> bk s = BSelect -> 0 < n ->
     forall x, In x (clist s) -> Nat.eqb (lookup x rep) 0 = false ->
     exists t k, tr (dispatch_select rep n s) = t ++ tr s /\ In (ERead x k) t) /\
  (forall rep n s j x r0, Inv s -> bk s = BPoll ->
     nth_error (parr s) j = Some (x, r0) -> 1 <= j ->
     has_in (lookup x rep) = true -> ev_in (cx s x) = true ->
     let s' := dispatch_poll rep n s in
     (exists t m, tr s' = t ++ tr s /\ In (ERead x m) t) \/
     (exists e, In (x, e) (kern s') /\ has_in e = true)) /\
  (forall rep s, Inv s -> bk s = BEpoll ->
     forall x e, In (x, e) (ep_filter [] (ereg s) rep) -> x <> 0 -> has_in e = true ->
     exists t n, tr (dispatch_epoll rep s) = t ++ tr s /\ In (ERead x n) t).
Proof. exact read_all. Qed.
Print Assumptions evl_read_called_when_pending.

(* poll: how long the delay above can last.  With n at least the number of live slots from j upwards
   (the kernel's return value counts every slot with non-zero revents), a pass either reads the
   ready context in slot j or closes a context - the one in a higher slot that reported POLLIN and
   POLLHUP|POLLERR together and was counted twice; it is flagged, closed and its slot removed.  The
   signal slot 0 is not reached in such a pass, so nothing is appended: a ready slot at index j is
   read after at most nfd - j passes. *)
Theorem evl_poll_delay_step : forall rep n s j x r0, Inv s -> bk s = BPoll ->
  nth_error (parr s) j = Some (x, r0) -> 1 <= j -> has_in (lookup x rep) = true ->
  let s1 := set_parr (map (fun p => (fst p, lookup (fst p) rep)) (parr s)) s in
  lc s1 j (length (parr s1)) <= n ->
  (exists t m, tr (dispatch_poll rep n s) = t ++ tr s /\ In (ERead x m) t) \/
  (exists t y, tr (dispatch_poll rep n s) = t ++ tr s /\ In (EClose y) t).
Proof. exact poll_delay_bound_step. Qed.
Print Assumptions evl_poll_delay_step.

(* poll: the step at slot i leaves every lower slot (context and revents) as it was, so a slot the
   walk does not reach in this pass (n used up by a POLLIN+POLLHUP fd counted twice) is still
   registered with its descriptor and data: the next poll() reports it again *)
Theorem evl_poll_skipped_slot_untouched : forall i n s j, Inv s -> bk s = BPoll ->
  1 <= i -> j < i -> i < length (parr s) ->
  nth_error (parr (fst (poll_step i n s))) j = nth_error (parr s) j.
Proof. exact poll_step_lower. Qed.
Print Assumptions evl_poll_skipped_slot_untouched.

(* every state between two kernel calls satisfies the invariant used above *)
Theorem evl_invariant_reachable : forall b sc os s, runs b sc os = (s, false) -> Inv s /\ bk s = b.
Proof. exact reach_Inv. Qed.
Print Assumptions evl_invariant_reachable.

(* adding, capacity-rejecting or removing one context leaves every other context's registration
   and pending data untouched:
   (1) add: every other context's state is unchanged and the new context goes behind the existing
       entries of every table; a refused add changes no table at all;
   (2) poll's swap-with-last: the array without slot i is a permutation of the new array, slot 0
       (signal fd) and every slot below i stay in place, revents travel with their context;
   (3) select's rebuild (repaired code): after a pass allset holds no descriptor of a context that is
       no longer registered;
   (4) between passes: ctx_list has no duplicates, poll's array is the signal fd followed by a
       permutation of ctx_list, epoll's interest list holds registered contexts only. *)
Theorem evl_add_reject_remove_isolated :
  (forall y s, cadded (cx s y) = false -> y <> 0 ->
     let s' := do_act (AAdd y) s in
     (forall x, x <> y -> cx s' x = cx s x) /\ cq (cx s' y) = cq (cx s y) /\
     ((tr s' = EAct (AAdd y) 0 :: tr s /\ clist s' = clist s ++ [y] /\
       (exists l, parr s' = parr s ++ l) /\ (forall x, In x (sset s) -> In x (sset s')) /\
       (exists l, ereg s' = ereg s ++ l) /\ (exists l, erdl s' = erdl s ++ l)) \/
      (tr s' = EAct (AAdd y) 2 :: tr s /\ tables_same s s'))) /\
  (forall l i p, nth_error l i = Some p ->
     Permutation l (p :: poll_remove i l) /\
     (1 <= i -> hd_error (poll_remove i l) = hd_error l) /\
     (forall j, j < i -> nth_error (poll_remove i l) j = nth_error l j)) /\
  (forall rep n s, Nat.ltb 0 n = true -> no_stale (dispatch_select rep n s)) /\
  (forall b sc os s, runs b sc os = (s, false) ->
     NoDup (clist s) /\
     (b = BPoll -> hd_error (map fst (parr s)) = Some 0 /\ Permutation (map fst (parr s)) (0 :: clist s)) /\
     (b = BEpoll -> forall x, In x (ereg s) -> x = 0 \/ In x (clist s))).
Proof. exact iso_all. Qed.
Print Assumptions evl_add_reject_remove_isolated.

(* FULL STATEMENT evl_backends_agree: forall sc, in_S sc = true -> the three loops (on the model's
   kernel function, [runks]) have exited -> every context has the same outcome (bytes offered,
   closed, cleared) in the three back-ends.
   PROVED for the sub-class SWT of S ([swt]): every read-callback trigger WRITES to, HALF-CLOSES or
   CLOSES some context's peer, or WAKES the loop (threshold >= 1, no two identical trigger lines);
   a peer that some trigger terminates gets all its callback-issued writes and terminators from one
   context (the single-source condition of S, [tsb]) and then the trigger list is in threshold order
   (as the drivers order it, [sorted_tb]); chains and cycles of triggers, several writers into one
   context, self-writes, a context closing its own peer, writes issued after the terminator (dropped
   by every back-end) are all included; every other action (add, and again write / half-close /
   close / wake-up) is issued before run() or from an idle phase, i.e. from the wake callback at
   quiescence, in any number of phases; no scripted exit / shutdown; the adds fit hints_max_fd.
   SW (triggers only write, in any order: evl_backends_agree_sw) and the flat class (no triggers)
   are special cases.
   Method: the back-end-free specification [spec_sw] executes the phases in order and, between two
   phases, fires the LEAST FIXPOINT of "registered and threshold reached by the bytes written so
   far" (Kleene iteration [LP], C13/ProofsFix.v).  A terminator is one more monotone fact: what
   reaches a terminated peer is a PREFIX of its single source's action sequence, so totals only grow
   with the fired set (tot_mono).  Each back-end's loop is simulated against it: whatever the visit
   order, the batches of triggers it fires are enabled by the earlier ones, hence below the fixpoint
   (Just_sound), fired in list order per context (ordU), and at quiescence the fired set is closed,
   hence above it (quiet_closed, closed_is_lfp).  A context whose peer is terminated while input is
   pending is offered that input first in every back-end (EOF is only seen by reading behind the
   data), so there is no divergence there and nothing is added to the known finding.  Each loop ends
   with [spec_outcome_sw]: every registered context was offered every byte written to it and is
   closed iff its peer terminated, cleared otherwise (evl_swt_outcome); hence agreement, each loop
   with its own number of kernel calls.
   NOT PROVED (monitor-only): scripts of S with a trigger that shuts the ACTING context down at its
   threshold, or a trigger that ADDS a context; for those the proved part is evl_backends_agree_visit
   below and the monitor checks agreement on every generated S script. *)
Theorem evl_swt_outcome : forall sc, swt sc = true -> forall b fuel s',
  runks b sc fuel = (s', true) -> forall x, outcome s' x = spec_outcome_sw sc x.
Proof. exact swt_outcome. Qed.
Print Assumptions evl_swt_outcome.

Theorem evl_backends_agree_partial : forall sc, swt sc = true -> forall f1 f2 f3,
  snd (runks BSelect sc f1) = true -> snd (runks BPoll sc f2) = true -> snd (runks BEpoll sc f3) = true ->
  forall x, outcome (fst (runks BSelect sc f1)) x = outcome (fst (runks BPoll sc f2)) x /\
            outcome (fst (runks BSelect sc f1)) x = outcome (fst (runks BEpoll sc f3)) x.
Proof. exact agree_swt. Qed.
Print Assumptions evl_backends_agree_partial.

(* corollary: the class SW of the previous round (triggers that only write, in any order) *)
Theorem evl_backends_agree_sw : forall sc, sw sc = true -> forall f1 f2 f3,
  snd (runks BSelect sc f1) = true -> snd (runks BPoll sc f2) = true -> snd (runks BEpoll sc f3) = true ->
  forall x, outcome (fst (runks BSelect sc f1)) x = outcome (fst (runks BPoll sc f2)) x /\
            outcome (fst (runks BSelect sc f1)) x = outcome (fst (runks BEpoll sc f3)) x.
Proof. exact agree_sw. Qed.
Print Assumptions evl_backends_agree_sw.

Theorem evl_backends_agree_visit : forall x s s', shared s = shared s' -> read_room x s -> read_room x s' ->
  shared (cb_read x s) = shared (cb_read x s') /\
  shared (set_flag x s) = shared (set_flag x s') /\
  shared (set_clist (rm x (clist (cb_close x s))) (cb_close x s)) =
  shared (set_clist (rm x (clist (cb_close x s'))) (cb_close x s')).
Proof. exact agree_visit. Qed.
Print Assumptions evl_backends_agree_visit.

(* outside S agreement fails: the known finding cross-shutdown (findings/C13-cross-shutdown.case) *)
Theorem evl_backends_agree_refuted : exists sc fuel,
  in_S sc = false /\
  snd (runks BSelect sc fuel) = true /\ snd (runks BPoll sc fuel) = true /\ snd (runks BEpoll sc fuel) = true /\
  ~ agree sc fuel.
Proof. exact agree_refuted. Qed.
Print Assumptions evl_backends_agree_refuted.

(* ---- timers and connection resets are inside the quantifier of every theorem above: a script may install a timer
   (interval 0: a tick after every pass, also one in which the kernel reported nothing - n = 0 -, scripted timer
   phases, ETimer in the trace) and may make a peer RESET the connection (AReset: the kernel reports IN | HUP | ERR,
   the read behind the pending data fails with ECONNRESET and flags the context CLOSED exactly like end of file:
   gen_loop_matches_model, muggle_ev_ctx_read).  With a timer every iteration ends with the timer callback, before
   to_exit is tested (so an exit requested from a timer phase is honoured without another kernel call: [run]). *)
Theorem evl_timer_tick_each_pass : forall o s, tmr s = true ->
  exists t, tr (Model.iter o s) = t ++ ETimer :: tr (iter0 o s).
Proof. exact timer_tick_each_pass. Qed.
Print Assumptions evl_timer_tick_each_pass.

(* read errors: from an accepted reset until the context's next read callback (whatever else happens: [fdm_all] is
   the one-way evolution of descriptor state that every step other than the context's own read obeys,
   ProofsRead.fdm_do_acts) the kernel reports IN | HUP | ERR for it, and that read callback - which offers the pending
   bytes first - leaves the context flagged CLOSED; by evl_step_decisions_are_the_models below each back-end closes a
   context that is flagged after its read callback in that very step.  Example of the hypotheses:
   ProofsReset.read_error_flags_example. *)
Theorem evl_read_error_flags : forall y s s2,
  can_reset (cx s y) = true -> fdm_all (do_act (AReset y) s) s2 ->
  events_c (cx s2 y) = 7 /\ cflag (cx (cb_read y s2) y) = true.
Proof. exact read_error_flags. Qed.
Print Assumptions evl_read_error_flags.

(* ---- exit requested BEFORE muggle_evloop_run (by the creating thread: phase 0 of the script).
   muggle_evloop_exit sets to_exit = EXIT and wakes the loop; every back-end tests to_exit only after a pass.
   (1) for EVERY script, back-end and kernel oracle the loop then performs exactly one pass and runs the
       clear / exit epilogue; *)
Theorem evl_prerun_exit_one_pass :
  (forall b sc o os, toexit (start b sc) = true -> runs b sc (o :: os) = (finish (Model.iter o (start b sc)), true)) /\
  (forall b sc fuel, toexit (start b sc) = true ->
     runks b sc (S fuel) = (finish (Model.iter (kern_o (start b sc)) (start b sc)), true)).
Proof. exact (conj prerun_one_pass_oracle prerun_one_pass). Qed.
Print Assumptions evl_prerun_exit_one_pass.

(* (2) on the class PRX (one phase, no triggers, no scripted shutdown, exit in that phase, adds fitting
       hints_max_fd, at most one descriptor reporting input and hang-up together) that pass offers every
       registered context everything that was pending for it, closes it iff its peer's write side was shut,
       clears it otherwise - the same in the three back-ends; *)
Theorem evl_prerun_exit_outcome : forall sc, prx sc = true -> forall b fuel,
  snd (runks b sc (S fuel)) = true /\ forall x, outcome (fst (runks b sc (S fuel))) x = prx_outcome sc x.
Proof. exact prx_outcome_all. Qed.
Print Assumptions evl_prerun_exit_outcome.

Theorem evl_prerun_exit_agree : forall sc, prx sc = true -> forall f1 f2 f3,
  snd (runks BSelect sc (S f1)) = true /\ snd (runks BPoll sc (S f2)) = true /\ snd (runks BEpoll sc (S f3)) = true /\
  forall x, outcome (fst (runks BSelect sc (S f1))) x = outcome (fst (runks BPoll sc (S f2))) x /\
            outcome (fst (runks BSelect sc (S f1))) x = outcome (fst (runks BEpoll sc (S f3))) x.
Proof. exact prerun_agree. Qed.
Print Assumptions evl_prerun_exit_agree.

(* (3) the last condition of PRX is sharp: with two descriptors reporting input and hang-up together above a
       ready slot, poll's count n is used up before that slot and its input stays undelivered in the single
       pass (the documented double decrement, here combined with the exit) - select and epoll deliver it.
       This, and only this, is the pre-run part of the known finding. *)
Theorem evl_prerun_exit_double_refuted :
  prx prx_double_witness = false /\
  cnt (dblc (prx_state prx_double_witness)) (clist (prx_state prx_double_witness)) = 2 /\
  outcome (fst (runks BSelect prx_double_witness 1)) 1 = (5, false, true) /\
  outcome (fst (runks BEpoll prx_double_witness 1)) 1 = (5, false, true) /\
  outcome (fst (runks BPoll prx_double_witness 1)) 1 = (0, false, true).
Proof. exact prerun_double_refuted. Qed.
Print Assumptions evl_prerun_exit_double_refuted.

(* ---- the boundary of the proved class SWT, in both directions (C13/ProofsBoundary.v).
   (1) a script is in SWT iff it has none of fifteen named features (order of [features]: trigger exit, trigger
       shutdown of another context, of its own context before everything was read, of its own context afterwards,
       trigger add, threshold 0, duplicate trigger lines, terminator listed before a later-threshold line, a peer
       terminated by one context and fed by another, exit in a phase, shutdown in a phase, more adds than
       hints_max_fd, a connection reset from a trigger, from a phase, a timer); *)
Theorem evl_swt_boundary_complete : forall sc,
  swt sc = negb (existsb (fun b => b) (features sc)) /\
  (swt sc = true <-> forall b, In b (features sc) -> b = false).
Proof. exact (fun sc => conj (swt_boundary sc) (swt_iff_no_feature sc)). Qed.
Print Assumptions evl_swt_boundary_complete.

(* (2) for ten of them a script having ONLY that feature on which the three loops exit and disagree on a
       context's outcome (the other five - trigger add, own-context shutdown after everything was read,
       duplicate lines, a reset from a trigger or a phase - are open: no disagreement known, agreement not proved,
       monitor-checked). *)
Theorem evl_swt_boundary_witnesses :
  (features w_trig_exit = only 0 /\ disagree w_trig_exit 12 2) /\
  (features witness_cross_shutdown = only 1 /\ disagree witness_cross_shutdown 12 2) /\
  (features w_shut_early = only 2 /\ disagree w_shut_early 12 2) /\
  (features w_thr0 = only 5 /\ disagree w_thr0 12 2) /\
  (features w_unsorted = only 7 /\ disagree w_unsorted 12 2) /\
  (features w_multi = only 8 /\ disagree w_multi 12 3) /\
  (features w_ph_exit = only 9 /\ disagree w_ph_exit 12 2) /\
  (features w_ph_shut = only 10 /\ disagree w_ph_shut 12 1) /\
  (features w_cap = only 11 /\ disagree w_cap 12 2) /\
  (features w_timer = only 14 /\ disagree w_timer 12 2).
Proof. exact boundary_witnesses. Qed.
Print Assumptions evl_swt_boundary_witnesses.

(* ---- second tie (DESIGN.md 4.4): the C text of this run, sliced by lib/props/c13_slice.py into the gen_
   functions of gen/Params_C13.v (callbacks and bookkeeping calls in execution order, tables afterwards; the
   k-th callback havocs the flags (FL k c) and to_exit (TE k); poll: a read callback may register one context;
   instances with a timer (Some (tmo, elapsed)) and with every callback NULL (no_cbs)).
   Each generated instance equals the reference function of C13/Decide.v, which is written once for every table
   size / batch / list; the references' per-visit decisions are the model's (evl_step_decisions_are_the_models). *)
Local Open Scope Z_scope.

(* the constants of the headers of this run have the relations the model relies on *)
Theorem gen_constants_match_model : consts_ok code_consts = true.
Proof. exact code_consts_ok. Qed.
Print Assumptions gen_constants_match_model.

(* poll: one pass of muggle_evloop_run_poll over a table of 2 slots (a read callback may append a slot), of 3
   slots, of the signal slot alone with a timer (n = 0 returns, the timeout of the next poll()), of 2 slots with
   every callback NULL; muggle_evloop_add_ctx_poll; muggle_evloop_init_poll *)
Theorem gen_poll_matches_model :
  (forall FL TE AD NW NS fdof evfd a1 d1 r0 r1 r2 n err,
  gen_poll_run_2 FL TE AD NW NS fdof evfd a1 d1 r0 r1 r2 n err =
  ref_poll_run code_consts FL TE all_cbs None AD NW NS fdof false [(0, evfd, r0); (a1, d1, r1)] n err) /\
  (forall FL TE AD NW NS fdof evfd a1 a2 d1 d2 r0 r1 r2 n err,
  gen_poll_run_3 FL TE AD NW NS fdof evfd a1 a2 d1 d2 r0 r1 r2 n err =
  ref_poll_run code_consts FL TE all_cbs None AD NW NS fdof true [(0, evfd, r0); (a1, d1, r1); (a2, d2, r2)] n err) /\
  (forall FL TE AD NW NS fdof evfd r0 n err tmo elapsed,
  gen_poll_run_timer FL TE AD NW NS fdof evfd r0 n err tmo elapsed =
  ref_poll_run code_consts FL TE all_cbs (Some (tmo, elapsed)) AD NW NS fdof true [(0, evfd, r0)] n err) /\
  (forall FL TE AD NW NS fdof evfd a1 d1 r0 r1 n err,
  gen_poll_run_nocb FL TE AD NW NS fdof evfd a1 d1 r0 r1 n err =
  ref_poll_run code_consts FL TE no_cbs None AD NW NS fdof true [(0, evfd, r0); (a1, d1, r1)] n err) /\
  (forall fdof nfd cap c,
  gen_add_ctx_poll fdof nfd cap c = ref_add_ctx_poll code_consts fdof nfd cap c) /\
  (forall evfd hints,
  gen_init_poll evfd hints = ref_init_poll code_consts evfd hints).
Proof. exact (conj gen_poll_run_2_ref (conj gen_poll_run_3_ref (conj gen_poll_run_timer_ref (conj gen_poll_run_nocb_ref (conj gen_add_ctx_poll_ref gen_init_poll_ref))))). Qed.
Print Assumptions gen_poll_matches_model.

(* epoll: muggle_evloop_run_epoll for the batches {}, error, {ctx}, {signal}, {ctx, signal}, {signal, ctx},
   {ctx, ctx}, {} with a timer, {ctx, signal} with every callback NULL; muggle_evloop_add_ctx_epoll;
   muggle_evloop_init_epoll *)
Theorem gen_epoll_matches_model :
  (forall FL TE fdof evfd epfd cap p1 p2 e1 e2 err,
  gen_epoll_run_none FL TE fdof evfd epfd cap p1 p2 e1 e2 err =
  ref_epoll_run code_consts FL TE all_cbs None fdof evfd cap (Some []) err) /\
  (forall FL TE fdof evfd epfd cap p1 p2 e1 e2 err,
  gen_epoll_run_err FL TE fdof evfd epfd cap p1 p2 e1 e2 err =
  ref_epoll_run code_consts FL TE all_cbs None fdof evfd cap (None) err) /\
  (forall FL TE fdof evfd epfd cap p1 p2 e1 e2 err,
  gen_epoll_run_c FL TE fdof evfd epfd cap p1 p2 e1 e2 err =
  ref_epoll_run code_consts FL TE all_cbs None fdof evfd cap (Some [EvCtx p1 e1]) err) /\
  (forall FL TE fdof evfd epfd cap p1 p2 e1 e2 err,
  gen_epoll_run_s FL TE fdof evfd epfd cap p1 p2 e1 e2 err =
  ref_epoll_run code_consts FL TE all_cbs None fdof evfd cap (Some [EvSig e1]) err) /\
  (forall FL TE fdof evfd epfd cap p1 p2 e1 e2 err,
  gen_epoll_run_cs FL TE fdof evfd epfd cap p1 p2 e1 e2 err =
  ref_epoll_run code_consts FL TE all_cbs None fdof evfd cap (Some [EvCtx p1 e1; EvSig e2]) err) /\
  (forall FL TE fdof evfd epfd cap p1 p2 e1 e2 err,
  gen_epoll_run_sc FL TE fdof evfd epfd cap p1 p2 e1 e2 err =
  ref_epoll_run code_consts FL TE all_cbs None fdof evfd cap (Some [EvSig e1; EvCtx p2 e2]) err) /\
  (forall FL TE fdof evfd epfd cap p1 p2 e1 e2 err,
  gen_epoll_run_cc FL TE fdof evfd epfd cap p1 p2 e1 e2 err =
  ref_epoll_run code_consts FL TE all_cbs None fdof evfd cap (Some [EvCtx p1 e1; EvCtx p2 e2]) err) /\
  (forall FL TE fdof evfd epfd cap p1 p2 e1 e2 err tmo elapsed,
  gen_epoll_run_timer FL TE fdof evfd epfd cap p1 p2 e1 e2 err tmo elapsed =
  ref_epoll_run code_consts FL TE all_cbs (Some (tmo, elapsed)) fdof evfd cap (Some []) err) /\
  (forall FL TE fdof evfd epfd cap p1 p2 e1 e2 err,
  gen_epoll_run_nocb FL TE fdof evfd epfd cap p1 p2 e1 e2 err =
  ref_epoll_run code_consts FL TE no_cbs None fdof evfd cap (Some [EvCtx p1 e1; EvSig e2]) err) /\
  (forall fdof epfd c ctlret,
  gen_add_ctx_epoll fdof epfd c ctlret = ref_add_ctx_epoll code_consts fdof c ctlret) /\
  (forall hints, gen_init_epoll hints = ref_init_epoll code_consts hints).
Proof. exact (conj gen_epoll_run_none_ref (conj gen_epoll_run_err_ref (conj gen_epoll_run_c_ref (conj gen_epoll_run_s_ref (conj gen_epoll_run_cs_ref (conj gen_epoll_run_sc_ref (conj gen_epoll_run_cc_ref (conj gen_epoll_run_timer_ref (conj gen_epoll_run_nocb_ref (conj gen_add_ctx_epoll_ref gen_init_epoll_ref)))))))))). Qed.
Print Assumptions gen_epoll_matches_model.

(* select: muggle_evloop_run_select on a ctx_list of 1 and of 2 contexts (fd-set rebuild, FD_CLR of a closed
   context, nfds = running maximum, what is handed to the next select()), of none with a timer (n = 0 returns leave
   the registrations alone, the timeval is restored after a tick), of 1 with every callback NULL;
   muggle_evloop_add_ctx_select (never refuses: the code has no FD_SETSIZE guard); muggle_evloop_init_select *)
Theorem gen_select_matches_model :
  (forall FL TE RS fdof evfd nf0 c1 n err ks ku,
  gen_select_run_1 FL TE RS fdof evfd nf0 c1 n err =
  ref_select_run code_consts FL TE all_cbs None RS fdof evfd nf0 [c1] n err ks ku) /\
  (forall FL TE RS fdof evfd nf0 c1 c2 n err ks ku,
  gen_select_run_2 FL TE RS fdof evfd nf0 c1 c2 n err =
  ref_select_run code_consts FL TE all_cbs None RS fdof evfd nf0 [c1; c2] n err ks ku) /\
  (forall FL TE RS fdof evfd nf0 n err tmo elapsed ktv_sec ktv_usec,
  gen_select_run_timer FL TE RS fdof evfd nf0 n err tmo elapsed ktv_sec ktv_usec =
  ref_select_run code_consts FL TE all_cbs (Some (tmo, elapsed)) RS fdof evfd nf0 [] n err ktv_sec ktv_usec) /\
  (forall FL TE RS fdof evfd nf0 c1 n err ks ku,
  gen_select_run_nocb FL TE RS fdof evfd nf0 c1 n err =
  ref_select_run code_consts FL TE no_cbs None RS fdof evfd nf0 [c1] n err ks ku) /\
  (forall fdof evfd nf0 c,
  gen_add_ctx_select fdof evfd nf0 c = ref_add_ctx_select fdof nf0 c) /\
  (forall evfd hints garbage, gen_init_select evfd hints garbage = ref_init_select evfd).
Proof. exact (conj gen_select_run_1_ref (conj gen_select_run_2_ref (conj gen_select_run_timer_ref (conj gen_select_run_nocb_ref (conj gen_add_ctx_select_ref gen_init_select_ref))))). Qed.
Print Assumptions gen_select_matches_model.

(* event_loop.c / event_context.c: muggle_evloop_add_ctx (wrong thread and set_nonblock failure refuse without
   touching ctx_list; a context refused by ANY back-end is taken off ctx_list again), the epilogue of
   muggle_evloop_run (clear callback for every context still listed, whatever its flags, then the exit callback;
   also with both NULL), muggle_evloop_init (default of hints_max_fd, node pool size, no timer),
   muggle_ev_ctx_read (end of file AND every error other than would-block / interrupted flag the context CLOSED) *)
Theorem gen_loop_matches_model :
  (forall fdof ty tid cur nbret c0 c bret,
  gen_loop_add_ctx fdof ty tid cur nbret c0 c bret = ref_loop_add_ctx fdof tid cur nbret c0 c bret) /\
  (forall FL TE ty c1 c2, gen_loop_run_2 FL TE ty c1 c2 = ref_loop_run all_cbs [c1; c2]) /\
  (forall FL TE ty c1 c2, gen_loop_run_nocb FL TE ty c1 c2 = ref_loop_run no_cbs [c1; c2]) /\
  (forall hints pool garbage, gen_loop_init hints pool garbage = ref_loop_init code_consts hints pool) /\
  (forall FL fdof c len n err, gen_ctx_read FL fdof c len n err = ref_ctx_read code_consts FL c n err).
Proof. exact (conj gen_loop_add_ctx_ref (conj gen_loop_run_2_ref (conj gen_loop_run_nocb_ref (conj gen_loop_init_ref gen_ctx_read_ref)))). Qed.
Print Assumptions gen_loop_matches_model.
Local Close Scope Z_scope.

(* the per-visit decisions of the reference functions are the decisions of the model's step functions:
   executing dec_poll / dec_epoll / dec_select with the model's callbacks IS poll_step / ep_step / one step of
   sel_walk; the references' swap-with-last is poll_remove; table capacities and refusal are the code's *)
Theorem evl_step_decisions_are_the_models :
  (forall i n s x re, i <> 0 -> nth_error (parr s) i = Some (x, re) ->
     poll_step i n s =
     run_dec_poll (dec_poll (has_in re) (has_hup_err re) (cflag (cx s x)) (cflag (cx (cb_read x s) x))) x i n s) /\
  (forall x e s, x <> 0 ->
     ep_step x e s =
     run_dec_epoll (dec_epoll (has_in e) (has_hup_err e) (cflag (cx s x)) (cflag (cx (cb_read x s) x))) x s) /\
  (forall f i rep s x, nth_error (clist s) i = Some x ->
     sel_walk (S f) i rep s =
     let '(dr, dcl) := dec_select (negb (Nat.eqb (lookup x rep) 0)) (cflag (cx s x)) (cflag (cx (cb_read x s) x)) in
     let s1 := if dr then cb_read x s else s in
     if dcl then
       let s2 := cb_close x (set_sset (rm x (sset s1)) s1) in
       sel_walk f i rep (set_clist (rm x (clist s2)) s2)
     else sel_walk f (S i) rep (set_sset (add_set x (sset s1)) s1)) /\
  (forall i (l : list (nat * nat)), slot_remove (0, 0) i l = poll_remove i l) /\
  (forall b sc, Z.of_nat (pcap (init b sc)) = ref_capacity (Z.of_nat (s_hints sc)) /\
                Z.of_nat (ecap (init b sc)) = ref_capacity (Z.of_nat (s_hints sc)) /\
                length (parr (init b sc)) = 1 /\ sset (init b sc) = [0]) /\
  (forall x s, (bk s = BPoll -> snd (backend_add x s) = negb (Z.of_nat (length (parr s)) =? Z.of_nat (pcap s))%Z) /\
               (bk s = BSelect -> snd (backend_add x s) = true) /\
               (bk s = BEpoll -> snd (backend_add x s) = true)).
Proof.
  exact (conj poll_step_is_dec (conj ep_step_is_dec (conj sel_walk_is_dec (conj slot_remove_is_poll_remove
        (conj model_capacity_is_code model_refusal_is_code))))).
Qed.
Print Assumptions evl_step_decisions_are_the_models.
