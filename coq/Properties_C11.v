(* C11 — property theorems only.  Each is closed by [exact] of a lemma proved
   under C11/ and followed by Print Assumptions.  Definitions used in the
   statements: C11/Model.v (the code), ProofsAL.ref_step / norm_index /
   ref_place (reference sequence), ProofsSeq.ref_st_step / ref_ll_step /
   ref_qu_step, ProofsPS.spec_ok (reference association list of the pointer
   slot), ProofsPS.seg (ring segment [alloc_index, alloc_index + free)). *)
From MV Require Import C11.Model C11.Proofs gen.Params_C11.
Local Open Scope Z_scope.

(* ---- array list ---- *)

(* Every operation with every int index (other than INT_MIN) on every state
   that satisfies the representation invariant: the invariant is kept and the
   contents and result equal the reference list operation; when the operation
   needs storage it cannot get, it is rejected with no effect on contents,
   size and capacity.  (A rejected position leaves contents and size as they
   are by definition of ref_step.) *)
Theorem al_refines_seq : forall s o, al_inv s -> al_op_ok o ->
  al_inv (fst (al_step s o)) /\
  if alloc_fails s o
  then al_contents (fst (al_step s o)) = al_contents s /\ asize (fst (al_step s o)) = asize s /\
       acap (fst (al_step s o)) = acap s /\ snd (al_step s o) = al_rejected
  else (al_contents (fst (al_step s o)), snd (al_step s o)) = ProofsAL.ref_step (al_contents s) o.
Proof. exact al_step_refines. Qed.
Print Assumptions al_refines_seq.

(* every history from init, any initial capacity, growth and malloc failures included *)
Theorem al_history_refines_seq : forall c ok s ops, 0 <= c < two64 -> al_init c ok = Some s -> Forall al_op_ok ops ->
  (al_contents (fst (al_run s ops)), snd (al_run s ops)) = ProofsAL.ref_run [] ops (fail_flags s ops) /\
  asize (fst (al_run s ops)) = zlen (al_contents (fst (al_run s ops))).
Proof. exact al_history_refines. Qed.
Print Assumptions al_history_refines_seq.

(* index normalisation: muggle_array_list_get_index is the reference position *)
Theorem al_get_index_is_norm_index : forall s index, al_inv s -> int_ok index ->
  al_get_index s index = match norm_index (asize s) index with Some p => p | None => -1 end.
Proof. exact al_get_index_spec. Qed.
Print Assumptions al_get_index_is_norm_index.

Theorem al_index_refines_seq : forall s i, al_inv s -> int_ok i ->
  al_index s i = match norm_index (asize s) i with Some p => Some (znth (al_contents s) p) | None => None end.
Proof. exact al_index_refines. Qed.
Print Assumptions al_index_refines_seq.

Theorem al_find_refines_seq : forall cmp s i d, al_inv s -> int_ok i ->
  al_find cmp s i d = match norm_index (asize s) i with
                      | Some p => to_int (find_from cmp (skipn (Z.to_nat p) (al_contents s)) p d)
                      | None => -1 end.
Proof. exact al_find_refines. Qed.
Print Assumptions al_find_refines_seq.

(* ---- stack ---- *)

Theorem stack_refines_seq : forall s o, st_inv s -> st_op_ok o ->
  st_inv (fst (st_step s o)) /\
  if st_alloc_fails s o
  then st_contents (fst (st_step s o)) = st_contents s /\ stop (fst (st_step s o)) = stop s /\
       scap (fst (st_step s o)) = scap s /\ snd (st_step s o) = (false, [])
  else (st_contents (fst (st_step s o)), snd (st_step s o)) = ref_st_step (st_contents s) o.
Proof. exact st_step_refines. Qed.
Print Assumptions stack_refines_seq.

Theorem stack_history_refines_seq : forall c ok s ops, 0 <= c < two64 -> st_init c ok = Some s -> Forall st_op_ok ops ->
  (st_contents (fst (st_run s ops)), snd (st_run s ops)) = ref_st_run [] ops (st_fail_flags s ops).
Proof. exact st_history_refines. Qed.
Print Assumptions stack_history_refines_seq.

(* ---- linked list and queue (functional models; pointer splicing is checked by the driver) ---- *)

Theorem list_refines_seq : forall c ok s ops, ll_init c ok = Some s -> ll_ops_ok s ops ->
  (ll_data (fst (ll_run s ops)), snd (ll_run s ops)) = ref_ll_run [] ops (ll_fail_flags s ops) /\
  NoDup (map fst (litems (fst (ll_run s ops)))) /\
  lsize (fst (ll_run s ops)) = zlen (ll_data (fst (ll_run s ops))).
Proof. exact ll_history_refines. Qed.
Print Assumptions list_refines_seq.

Theorem queue_refines_seq : forall c ok s ops, qu_init c ok = Some s ->
  (qu_data (fst (qu_run s ops)), snd (qu_run s ops)) = ref_qu_run [] ops (qu_fail_flags s ops) /\
  NoDup (map fst (qitems (fst (qu_run s ops)))) /\
  qsize (fst (qu_run s ops)) = zlen (qu_data (fst (qu_run s ops))).
Proof. exact qu_history_refines. Qed.
Print Assumptions queue_refines_seq.

(* ---- pointer slot (repaired init: arrays sized by the rounded capacity) ---- *)

(* In every state reachable from init with any requested capacity <= 2^31 and
   any cursor preset: the ring segment [alloc_index, alloc_index + free) of
   pp_slots lists exactly the free slots, without duplicates; free + live =
   capacity; the cursors are related modulo 2^32; the live list has no
   duplicates and is exactly the set of slots in use. *)
Theorem ps_inv_reachable : forall req a s0 ops, 0 <= req <= two31 -> ps_init req true = Some s0 ->
  Forall op_ok ops ->
  exists s' rs, ps_run (ps_preset s0 a) ops = Some (s', rs) /\
    NoDup (seg s') /\ (forall sid, In sid (seg s') <-> slot_used (slots s') sid false) /\
    zlen (seg s') + zlen (live s') = pcap s' /\
    free_index s' = u32 (alloc_index s' - zlen (live s')) /\
    free_index s' mod pcap s' = (alloc_index s' + zlen (seg s')) mod pcap s' /\
    NoDup (live s') /\ (forall sid, In sid (live s') <-> slot_used (slots s') sid true) /\
    zlen (slots s') = pcap s' /\ zlen (pp s') = pcap s'.
Proof. exact ps_inv_reachable_lem. Qed.
Print Assumptions ps_inv_reachable.

(* reachable states satisfy the invariant used by the step theorems below *)
Theorem ps_reachable_states_invariant : forall req a s0 ops s' rs, 0 <= req <= two31 -> ps_init req true = Some s0 ->
  Forall op_ok ops -> ps_run (ps_preset s0 a) ops = Some (s', rs) -> ps_inv s'.
Proof. exact ps_reachable_inv. Qed.
Print Assumptions ps_reachable_states_invariant.

(* an index handed out is not live, is in range, and resolves to the pointer *)
Theorem ps_unique_live : forall s d s' i, ps_inv s -> ps_insert s d = Some (s', (POk, i)) ->
  ~ In i (live s) /\ NoDup (live s') /\ 0 <= i < pcap s /\ lookup i (ps_iter s') = Some d /\ ps_get s' i = Some d.
Proof. exact ps_insert_then_get. Qed.
Print Assumptions ps_unique_live.

(* ... and keeps resolving to it over any history that does not remove it *)
Theorem ps_get_until_removed : forall ops s i d, ps_inv s -> Forall op_ok ops ->
  lookup i (ps_iter s) = Some d -> ~ In (PRem i) ops ->
  exists s' rs, ps_run s ops = Some (s', rs) /\ lookup i (ps_iter s') = Some d /\ ps_get s' i = Some d.
Proof. exact ps_get_until_removed_run. Qed.
Print Assumptions ps_get_until_removed.

(* insert is refused exactly when every slot is live *)
Theorem ps_full_refuses : forall s d, ps_inv s ->
  (zlen (live s) = pcap s -> ps_insert s d = Some (s, (PFull, -1))) /\
  (zlen (live s) < pcap s -> exists s' i, ps_insert s d = Some (s', (POk, i))).
Proof. exact ps_full_refuses_lem. Qed.
Print Assumptions ps_full_refuses.

(* after a removal the index resolves to NULL and a second removal is refused without effect *)
Theorem ps_double_remove_refused : forall s i s', ps_inv s -> 0 <= i < two32 -> ps_remove s i = Some (s', POk) ->
  ps_get s' i = Some 0 /\ ps_remove s' i = Some (s', PDup).
Proof. exact ps_remove_then_get. Qed.
Print Assumptions ps_double_remove_refused.

(* iteration yields the live (index, pointer) pairs in insertion order: it equals the
   reference association list driven by the results, and every result is one the
   reference allows (spec_ok) *)
Theorem ps_iter_insertion_order : forall req a s0 ops, 0 <= req <= two31 -> ps_init req true = Some s0 ->
  Forall op_ok ops ->
  exists s' rs, ps_run (ps_preset s0 a) ops = Some (s', rs) /\
    ps_iter s' = ProofsPS.ref_run [] ops rs /\ spec_run_ok (pcap s0) [] ops rs.
Proof. exact ps_iter_insertion_order_lem. Qed.
Print Assumptions ps_iter_insertion_order.

(* every single step refines the reference *)
Theorem ps_step_refines_spec : forall s o, ps_inv s -> op_ok o ->
  exists s' r, ps_step s o = Some (s', r) /\ ps_inv s' /\ pcap s' = pcap s /\
               spec_ok (pcap s) (ps_iter s) o r (ps_iter s').
Proof. exact ps_step_refines. Qed.
Print Assumptions ps_step_refines_spec.

(* for every requested capacity no operation of any history reads or writes outside
   slots[] / pp_slots[] (the model returns None on such an access), and both
   arrays have the rounded capacity, which is >= the request *)
Theorem ps_all_capacities : forall req a s0 ops, 0 <= req <= two31 -> ps_init req true = Some s0 ->
  Forall op_ok ops ->
  ps_run (ps_preset s0 a) ops <> None /\ ps_run s0 ops <> None /\
  zlen (slots s0) = pcap s0 /\ zlen (pp s0) = pcap s0 /\ req <= pcap s0 /\ 1 <= pcap s0.
Proof. exact ps_all_capacities_lem. Qed.
Print Assumptions ps_all_capacities.

(* the same statement is false for the code before fixes/C11-pointer-slot-alloc-rounded.patch *)
Theorem ps_all_capacities_refuted_before_repair :
  exists s, ps_init_unrepaired 3 true = Some s /\
            ps_run s [PIns 1; PIns 2; PIns 3; PIns 4] = None /\
            ps_run s [PGet 3] = None.
Proof. exact ps_unrepaired_oob_witness. Qed.
Print Assumptions ps_all_capacities_refuted_before_repair.

(* muggle_next_pow_of_2 (as used by pointer_slot_init) rounds up to a power of two *)
Theorem next_pow_of_2_rounds_up : forall c, 1 <= c <= two31 ->
  is_pow2_cap (u32 (next_pow_of_2 (u64 c))) /\ c <= u32 (next_pow_of_2 (u64 c)).
Proof. exact next_pow_of_2_spec. Qed.
Print Assumptions next_pow_of_2_rounds_up.

(* ---- heap level: explicit next / prev / data maps, head and tail sentinels, every pointer
        assignment of linked_list.c / queue.c / pointer_slot.c transcribed in order
        (C11/ModelHeap.v); these models refine the functional sequence models above ---- *)

(* a well-formed chain head -> l -> tail (links: a->next = b /\ b->prev = a for consecutive
   nodes; all nodes distinct, hence no cycle): next and prev are mutually inverse along it *)
Theorem heap_chain_next_prev_inverse : forall h l, wf_chain h l ->
  (forall x, In x (l ++ [TAIL]) -> hnext h (hprev h x) = x) /\
  (forall x, In x (HEAD :: l) -> hprev h (hnext h x) = x).
Proof. exact wf_chain_inverse. Qed.
Print Assumptions heap_chain_next_prev_inverse.

(* ... the forward walk is the sequence and the backward walk its reverse *)
Theorem heap_chain_walks : forall h l fuel, wf_chain h l -> (length l < fuel)%nat ->
  h_walk_fw fuel h (hnext h HEAD) = l /\ h_walk_bw fuel h (hprev h TAIL) = rev l.
Proof. exact wf_chain_walks. Qed.
Print Assumptions heap_chain_walks.

(* linked list, one operation (insert-before / append-after / remove / clear; node arguments
   found by first + k times next): result and new chain are those of the functional model *)
Theorem list_heap_step_refines : forall hs s o, ll_inv s -> hl_R hs s -> ll_op_ok s o = true ->
  exists hs', hl_pstep hs o = Some (hs', snd (ll_step s o)) /\ hl_R hs' (fst (ll_step s o)).
Proof. exact hl_pstep_refines. Qed.
Print Assumptions list_heap_step_refines.

Theorem list_heap_find_refines : forall cmp hs s pos data, ll_inv s -> hl_R hs s ->
  match pos with None => True | Some k => pos_ok s k = true end ->
  hl_find cmp hs (match pos with None => None | Some k => Some (node_at s k) end) data = ll_find cmp s pos data.
Proof. exact hl_find_refines. Qed.
Print Assumptions list_heap_find_refines.

(* linked list, every history from init (with and without node pool): the heap-level run never
   gets stuck (clear terminates), its forward walk is the functional model's node sequence, the
   backward walk is the reverse, the chain is well formed (acyclic, ids unique), and the data
   sequence and results are those of the reference sequence *)
Theorem list_heap_refines_seq : forall c ok hs ops, hl_init c ok = Some hs ->
  exists s, ll_init c ok = Some s /\
    (ll_ops_ok s ops ->
     exists hs', hl_prun hs ops = Some (hs', snd (ll_run s ops)) /\
       hl_forward hs' = litems (fst (ll_run s ops)) /\
       hl_backward hs' = rev (map fst (hl_forward hs')) /\
       wf_chain (hh hs') (map fst (hl_forward hs')) /\
       (map snd (hl_forward hs'), snd (ll_run s ops)) = ref_ll_run [] ops (ll_fail_flags s ops)).
Proof. exact hl_history. Qed.
Print Assumptions list_heap_refines_seq.

(* queue, every history from init *)
Theorem queue_heap_refines_seq : forall c ok hs ops, hq_init c ok = Some hs ->
  exists q, qu_init c ok = Some q /\
    exists hs', hq_run hs ops = Some (hs', snd (qu_run q ops)) /\
      hl_forward hs' = qitems (fst (qu_run q ops)) /\
      hl_backward hs' = rev (map fst (hl_forward hs')) /\
      wf_chain (hh hs') (map fst (hl_forward hs')) /\
      hq_front hs' = qu_front (fst (qu_run q ops)) /\
      (map snd (hl_forward hs'), snd (qu_run q ops)) = ref_qu_run [] ops (qu_fail_flags q ops).
Proof. exact hq_history. Qed.
Print Assumptions queue_heap_refines_seq.

(* pointer slot, every history from init (+ cursor preset), every requested capacity: the
   head..tail list threaded through slots[] is a well-formed chain over exactly the live
   sequence of the functional model; iterating it gives ps_iter (insertion order) *)
Theorem ps_heap_refines_live_list : forall req a hs0 ops, 0 <= req <= two31 -> hps_init req true = Some hs0 ->
  Forall op_ok ops ->
  exists hs' rs, hps_run (hps_preset hs0 a) ops = Some (hs', rs) /\
                 ps_run (ps_preset (hcore hs0) a) ops = Some (hcore hs', rs) /\
                 wf_chain (hlinks hs') (live (hcore hs')) /\
                 hps_iter hs' = ps_iter (hcore hs') /\ hps_backward hs' = rev (map fst (hps_iter hs')).
Proof. exact hps_reachable. Qed.
Print Assumptions ps_heap_refines_live_list.

(* ---- second tie to the source (DESIGN.md 4.4): the C text of muggle_array_list_get_index,
        re-translated by lib/leaftrans.py on this run (gen/Params_C11.v), equals the model ---- *)
Theorem gen_get_index_eq : forall s index, al_inv s -> int_ok index ->
  gen_muggle_array_list_get_index (asize s) index = al_get_index s index.
Proof. exact gen_get_index_matches_model. Qed.
Print Assumptions gen_get_index_eq.
