(* C11 — property theorems only. *)
From MV Require Import C11.Model C11.Proofs.
Local Open Scope Z_scope.

Theorem ps_unrepaired_out_of_bounds :
  exists s, ps_init_unrepaired 3 true = Some s /\
            ps_run s [PIns 1; PIns 2; PIns 3; PIns 4] = None.
Proof. exact ps_unrepaired_oob_witness. Qed.
Print Assumptions ps_unrepaired_out_of_bounds.
