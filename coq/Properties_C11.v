(* C11 — property theorems only.  Each is closed by [exact] of a lemma proved
   under C11/ and followed by Print Assumptions.  Definitions used in the
   statements: C11/Model.v (the code), ProofsAL.ref_step / norm_index /
   ref_place (reference sequence), ProofsSeq.ref_st_step / ref_ll_step /
   ref_qu_step, ProofsPS.spec_ok (reference association list of the pointer
   slot), ProofsPS.seg (ring segment [alloc_index, alloc_index + free)). *)
From MV Require Import Lib.Leaf C11.Model C11.Proofs gen.Params_C11.
Local Open Scope Z_scope.

(* ---- array list ---- *)

(* Every operation with every int index (INT_MIN included), with and without free-data callback, on every state
   that satisfies the representation invariant: the invariant is kept and the
   contents and result equal the reference list operation; when the operation
   needs storage it cannot get, it is rejected with no effect on contents,
   size and capacity.  (A rejected position leaves contents and size as they
   are by definition of ref_step.) *)
Theorem al_refines_seq : forall s o, al_inv s -> al_op_ok o ->
  al_inv (fst (al_step s o)) /\
  if alloc_fails s o
  then al_contents (fst (al_step s o)) = al_contents s /\ asize (fst (al_step s o)) = asize s /\
       acap (fst (al_step s o)) = acap s /\ snd (al_step s o) = al_rejected
  else (al_contents (fst (al_step s o)), snd (al_step s o)) = ProofsAL.ref_step (al_contents s) o.
Proof. exact al_step_refines. Qed.
Print Assumptions al_refines_seq.

(* every history from init, any initial capacity, growth and malloc failures included *)
Theorem al_history_refines_seq : forall c ok s ops, 0 <= c < two64 -> al_init c ok = Some s -> Forall al_op_ok ops ->
  (al_contents (fst (al_run s ops)), snd (al_run s ops)) = ProofsAL.ref_run [] ops (fail_flags s ops) /\
  asize (fst (al_run s ops)) = zlen (al_contents (fst (al_run s ops))).
Proof. exact al_history_refines. Qed.
Print Assumptions al_history_refines_seq.

(* index normalisation: muggle_array_list_get_index is the reference position *)
Theorem al_get_index_is_norm_index : forall s index, al_inv s -> int_ok index ->
  al_get_index s index = match norm_index (asize s) index with Some p => p | None => -1 end.
Proof. exact al_get_index_spec. Qed.
Print Assumptions al_get_index_is_norm_index.

Theorem al_index_refines_seq : forall s i, al_inv s -> int_ok i ->
  al_index s i = match norm_index (asize s) i with Some p => Some (znth (al_contents s) p) | None => None end.
Proof. exact al_index_refines. Qed.
Print Assumptions al_index_refines_seq.

Theorem al_find_refines_seq : forall cmp s i d, al_inv s -> int_ok i ->
  al_find cmp s i d = match norm_index (asize s) i with
                      | Some p => to_int (find_from cmp (skipn (Z.to_nat p) (al_contents s)) p d)
                      | None => -1 end.
Proof. exact al_find_refines. Qed.
Print Assumptions al_find_refines_seq.

(* ---- stack ---- *)

Theorem stack_refines_seq : forall s o, st_inv s -> st_op_ok o ->
  st_inv (fst (st_step s o)) /\
  if st_alloc_fails s o
  then st_contents (fst (st_step s o)) = st_contents s /\ stop (fst (st_step s o)) = stop s /\
       scap (fst (st_step s o)) = scap s /\ snd (st_step s o) = (false, [])
  else (st_contents (fst (st_step s o)), snd (st_step s o)) = ref_st_step (st_contents s) o.
Proof. exact st_step_refines. Qed.
Print Assumptions stack_refines_seq.

Theorem stack_history_refines_seq : forall c ok s ops, 0 <= c < two64 -> st_init c ok = Some s -> Forall st_op_ok ops ->
  (st_contents (fst (st_run s ops)), snd (st_run s ops)) = ref_st_run [] ops (st_fail_flags s ops).
Proof. exact st_history_refines. Qed.
Print Assumptions stack_history_refines_seq.

(* ---- linked list and queue (functional models; pointer splicing is checked by the driver) ---- *)

Theorem list_refines_seq : forall c ok s ops, ll_init c ok = Some s -> ll_ops_ok s ops ->
  (ll_data (fst (ll_run s ops)), snd (ll_run s ops)) = ref_ll_run [] ops (ll_fail_flags s ops) /\
  NoDup (map fst (litems (fst (ll_run s ops)))) /\
  lsize (fst (ll_run s ops)) = zlen (ll_data (fst (ll_run s ops))).
Proof. exact ll_history_refines. Qed.
Print Assumptions list_refines_seq.

Theorem queue_refines_seq : forall c ok s ops, qu_init c ok = Some s ->
  (qu_data (fst (qu_run s ops)), snd (qu_run s ops)) = ref_qu_run [] ops (qu_fail_flags s ops) /\
  NoDup (map fst (qitems (fst (qu_run s ops)))) /\
  qsize (fst (qu_run s ops)) = zlen (qu_data (fst (qu_run s ops))).
Proof. exact qu_history_refines. Qed.
Print Assumptions queue_refines_seq.

(* ---- pointer slot (repaired init: arrays sized by the rounded capacity; requests above 2^31 refused) ---- *)

(* every requested capacity of type unsigned int: up to 2^31 init succeeds (given memory) in a state that
   satisfies the invariant, with capacity >= the request; above 2^31 (the next power of two does not fit an
   unsigned int) it is refused, malloc or not *)
Theorem ps_init_every_requested_capacity : forall req, 0 <= req < two32 ->
  (req <= two31 -> exists s, ps_init req true = Some s /\ ps_inv s /\ req <= pcap s /\ 1 <= pcap s) /\
  (two31 < req -> forall ok, ps_init req ok = None).
Proof. exact ps_init_every_request. Qed.
Print Assumptions ps_init_every_requested_capacity.

(* In every state reachable from init with any requested capacity (every unsigned int for which init
   succeeds, i.e. <= 2^31) and any cursor preset: the ring segment [alloc_index, alloc_index + free) of
   pp_slots lists exactly the free slots, without duplicates; free + live =
   capacity; the cursors are related modulo 2^32; the live list has no
   duplicates and is exactly the set of slots in use. *)
Theorem ps_inv_reachable : forall req a s0 ops, 0 <= req < two32 -> ps_init req true = Some s0 ->
  Forall op_ok ops ->
  exists s' rs, ps_run (ps_preset s0 a) ops = Some (s', rs) /\
    NoDup (seg s') /\ (forall sid, In sid (seg s') <-> slot_used (slots s') sid false) /\
    zlen (seg s') + zlen (live s') = pcap s' /\
    free_index s' = u32 (alloc_index s' - zlen (live s')) /\
    free_index s' mod pcap s' = (alloc_index s' + zlen (seg s')) mod pcap s' /\
    NoDup (live s') /\ (forall sid, In sid (live s') <-> slot_used (slots s') sid true) /\
    zlen (slots s') = pcap s' /\ zlen (pp s') = pcap s'.
Proof. exact ps_inv_reachable_lem. Qed.
Print Assumptions ps_inv_reachable.

(* reachable states satisfy the invariant used by the step theorems below *)
Theorem ps_reachable_states_invariant : forall req a s0 ops s' rs, 0 <= req < two32 -> ps_init req true = Some s0 ->
  Forall op_ok ops -> ps_run (ps_preset s0 a) ops = Some (s', rs) -> ps_inv s'.
Proof. exact ps_reachable_inv. Qed.
Print Assumptions ps_reachable_states_invariant.

(* an index handed out is not live, is in range, and resolves to the pointer *)
Theorem ps_unique_live : forall s d s' i, ps_inv s -> ps_insert s d = Some (s', (POk, i)) ->
  ~ In i (live s) /\ NoDup (live s') /\ 0 <= i < pcap s /\ lookup i (ps_iter s') = Some d /\ ps_get s' i = Some d.
Proof. exact ps_insert_then_get. Qed.
Print Assumptions ps_unique_live.

(* ... and keeps resolving to it over any history that does not remove it *)
Theorem ps_get_until_removed : forall ops s i d, ps_inv s -> Forall op_ok ops ->
  lookup i (ps_iter s) = Some d -> ~ In (PRem i) ops ->
  exists s' rs, ps_run s ops = Some (s', rs) /\ lookup i (ps_iter s') = Some d /\ ps_get s' i = Some d.
Proof. exact ps_get_until_removed_run. Qed.
Print Assumptions ps_get_until_removed.

(* insert is refused exactly when every slot is live *)
Theorem ps_full_refuses : forall s d, ps_inv s ->
  (zlen (live s) = pcap s -> ps_insert s d = Some (s, (PFull, -1))) /\
  (zlen (live s) < pcap s -> exists s' i, ps_insert s d = Some (s', (POk, i))).
Proof. exact ps_full_refuses_lem. Qed.
Print Assumptions ps_full_refuses.

(* after a removal the index resolves to NULL and a second removal is refused without effect *)
Theorem ps_double_remove_refused : forall s i s', ps_inv s -> 0 <= i < two32 -> ps_remove s i = Some (s', POk) ->
  ps_get s' i = Some 0 /\ ps_remove s' i = Some (s', PDup).
Proof. exact ps_remove_then_get. Qed.
Print Assumptions ps_double_remove_refused.

(* iteration yields the live (index, pointer) pairs in insertion order: it equals the
   reference association list driven by the results, and every result is one the
   reference allows (spec_ok) *)
Theorem ps_iter_insertion_order : forall req a s0 ops, 0 <= req < two32 -> ps_init req true = Some s0 ->
  Forall op_ok ops ->
  exists s' rs, ps_run (ps_preset s0 a) ops = Some (s', rs) /\
    ps_iter s' = ProofsPS.ref_run [] ops rs /\ spec_run_ok (pcap s0) [] ops rs.
Proof. exact ps_iter_insertion_order_lem. Qed.
Print Assumptions ps_iter_insertion_order.

(* every single step refines the reference *)
Theorem ps_step_refines_spec : forall s o, ps_inv s -> op_ok o ->
  exists s' r, ps_step s o = Some (s', r) /\ ps_inv s' /\ pcap s' = pcap s /\
               spec_ok (pcap s) (ps_iter s) o r (ps_iter s').
Proof. exact ps_step_refines. Qed.
Print Assumptions ps_step_refines_spec.

(* for every requested capacity no operation of any history reads or writes outside
   slots[] / pp_slots[] (the model returns None on such an access), and both
   arrays have the rounded capacity, which is >= the request *)
Theorem ps_all_capacities : forall req a s0 ops, 0 <= req < two32 -> ps_init req true = Some s0 ->
  Forall op_ok ops ->
  ps_run (ps_preset s0 a) ops <> None /\ ps_run s0 ops <> None /\
  zlen (slots s0) = pcap s0 /\ zlen (pp s0) = pcap s0 /\ req <= pcap s0 /\ 1 <= pcap s0.
Proof. exact ps_all_capacities_lem. Qed.
Print Assumptions ps_all_capacities.

(* the code before fixes/C11-pointer-slot-capacity-overflow.patch accepted a request above 2^31 with capacity 0
   and the first insert touched memory outside pp_slots[] *)
Theorem ps_capacity_overflow_refuted_before_repair :
  exists s, ps_init_unchecked 2147483649 true = Some s /\ pcap s = 0 /\ ps_run s [PIns 1] = None.
Proof. exact ps_unchecked_overflow_witness. Qed.
Print Assumptions ps_capacity_overflow_refuted_before_repair.

(* the same statement is false for the code before fixes/C11-pointer-slot-alloc-rounded.patch *)
Theorem ps_all_capacities_refuted_before_repair :
  exists s, ps_init_unrepaired 3 true = Some s /\
            ps_run s [PIns 1; PIns 2; PIns 3; PIns 4] = None /\
            ps_run s [PGet 3] = None.
Proof. exact ps_unrepaired_oob_witness. Qed.
Print Assumptions ps_all_capacities_refuted_before_repair.

(* muggle_next_pow_of_2 (as used by pointer_slot_init) rounds up to a power of two *)
Theorem next_pow_of_2_rounds_up : forall c, 1 <= c <= two31 ->
  is_pow2_cap (u32 (next_pow_of_2 (u64 c))) /\ c <= u32 (next_pow_of_2 (u64 c)).
Proof. exact next_pow_of_2_spec. Qed.
Print Assumptions next_pow_of_2_rounds_up.

(* ---- heap level: explicit next / prev / data maps, head and tail sentinels, every pointer
        assignment of linked_list.c / queue.c / pointer_slot.c transcribed in order
        (C11/ModelHeap.v); these models refine the functional sequence models above ---- *)

(* a well-formed chain head -> l -> tail (links: a->next = b /\ b->prev = a for consecutive
   nodes; all nodes distinct, hence no cycle): next and prev are mutually inverse along it *)
Theorem heap_chain_next_prev_inverse : forall h l, wf_chain h l ->
  (forall x, In x (l ++ [TAIL]) -> hnext h (hprev h x) = x) /\
  (forall x, In x (HEAD :: l) -> hprev h (hnext h x) = x).
Proof. exact wf_chain_inverse. Qed.
Print Assumptions heap_chain_next_prev_inverse.

(* ... the forward walk is the sequence and the backward walk its reverse *)
Theorem heap_chain_walks : forall h l fuel, wf_chain h l -> (length l < fuel)%nat ->
  h_walk_fw fuel h (hnext h HEAD) = l /\ h_walk_bw fuel h (hprev h TAIL) = rev l.
Proof. exact wf_chain_walks. Qed.
Print Assumptions heap_chain_walks.

(* linked list, one operation (insert-before / append-after / remove / clear; node arguments
   found by first + k times next): result and new chain are those of the functional model *)
Theorem list_heap_step_refines : forall hs s o, ll_inv s -> hl_R hs s -> ll_op_ok s o = true ->
  exists hs', hl_pstep hs o = Some (hs', snd (ll_step s o)) /\ hl_R hs' (fst (ll_step s o)).
Proof. exact hl_pstep_refines. Qed.
Print Assumptions list_heap_step_refines.

Theorem list_heap_find_refines : forall cmp hs s pos data, ll_inv s -> hl_R hs s ->
  match pos with None => True | Some k => pos_ok s k = true end ->
  hl_find cmp hs (match pos with None => None | Some k => Some (node_at s k) end) data = ll_find cmp s pos data.
Proof. exact hl_find_refines. Qed.
Print Assumptions list_heap_find_refines.

(* linked list, every history from init (with and without node pool): the heap-level run never
   gets stuck (clear terminates), its forward walk is the functional model's node sequence, the
   backward walk is the reverse, the chain is well formed (acyclic, ids unique), and the data
   sequence and results are those of the reference sequence *)
Theorem list_heap_refines_seq : forall c ok hs ops, hl_init c ok = Some hs ->
  exists s, ll_init c ok = Some s /\
    (ll_ops_ok s ops ->
     exists hs', hl_prun hs ops = Some (hs', snd (ll_run s ops)) /\
       hl_forward hs' = litems (fst (ll_run s ops)) /\
       hl_backward hs' = rev (map fst (hl_forward hs')) /\
       wf_chain (hh hs') (map fst (hl_forward hs')) /\
       (map snd (hl_forward hs'), snd (ll_run s ops)) = ref_ll_run [] ops (ll_fail_flags s ops)).
Proof. exact hl_history. Qed.
Print Assumptions list_heap_refines_seq.

(* queue, every history from init *)
Theorem queue_heap_refines_seq : forall c ok hs ops, hq_init c ok = Some hs ->
  exists q, qu_init c ok = Some q /\
    exists hs', hq_run hs ops = Some (hs', snd (qu_run q ops)) /\
      hl_forward hs' = qitems (fst (qu_run q ops)) /\
      hl_backward hs' = rev (map fst (hl_forward hs')) /\
      wf_chain (hh hs') (map fst (hl_forward hs')) /\
      hq_front hs' = qu_front (fst (qu_run q ops)) /\
      (map snd (hl_forward hs'), snd (qu_run q ops)) = ref_qu_run [] ops (qu_fail_flags q ops).
Proof. exact hq_history. Qed.
Print Assumptions queue_heap_refines_seq.

(* pointer slot, every history from init (+ cursor preset), every requested capacity: the
   head..tail list threaded through slots[] is a well-formed chain over exactly the live
   sequence of the functional model; iterating it gives ps_iter (insertion order) *)
Theorem ps_heap_refines_live_list : forall req a hs0 ops, 0 <= req < two32 -> hps_init req true = Some hs0 ->
  Forall op_ok ops ->
  exists hs' rs, hps_run (hps_preset hs0 a) ops = Some (hs', rs) /\
                 ps_run (ps_preset (hcore hs0) a) ops = Some (hcore hs', rs) /\
                 wf_chain (hlinks hs') (live (hcore hs')) /\
                 hps_iter hs' = ps_iter (hcore hs') /\ hps_backward hs' = rev (map fst (hps_iter hs')).
Proof. exact hps_reachable. Qed.
Print Assumptions ps_heap_refines_live_list.

(* ---- second tie to the source (DESIGN.md 4.4): the C text of muggle_array_list_get_index,
        re-translated by lib/leaftrans.py on this run (gen/Params_C11.v), equals the model ---- *)
Theorem gen_get_index_eq : forall s index, al_inv s -> int_ok index ->
  gen_muggle_array_list_get_index (asize s) index = al_get_index s index.
Proof. exact gen_get_index_matches_model. Qed.
Print Assumptions gen_get_index_eq.

(* ---- second tie, slicer kind (DESIGN.md 4.4, lib/props/c11_slice.py): the pointer-splicing, cursor and
        index-range code of the current C text, symbolically executed into the gen_ definitions of
        gen/Params_C11.v on this run (node pointers = ids, p->next / p->prev / p->data stores = updates of the
        maps, HEAD / TAIL = the sentinels, NULLP = NULL), does exactly what the models do.
        ll_res_ok g ret h size cb fr : the generated result g = (return value, next, prev, data maps, size, data
        handed to the free callback, nodes released) has return value ret, maps pointwise equal to those of
        heap h, that size and those lists. ---- *)

(* muggle_linked_list_insert, every related pair of states, every position and NULL, with and without pool,
   allocation failure included *)
Theorem gen_ll_insert_eq : forall hs s pos data ok f_pool, ll_inv s -> hl_R hs s ->
  match pos with None => True | Some k => pos_ok s k = true end -> lsize s < two64 - 1 ->
  ll_res_ok (gen_ll_insert (hnext (hh hs)) (hprev (hh hs)) (hdata (hh hs)) f_pool (hsize hs) (alloc_res hs ok)
                           (optp (node_arg s pos)) data)
            (optp (snd (hl_insert hs (node_arg s pos) data ok))) (hh (fst (hl_insert hs (node_arg s pos) data ok)))
            (hsize (fst (hl_insert hs (node_arg s pos) data ok))) [] [].
Proof. exact gen_ll_insert_matches_model. Qed.
Print Assumptions gen_ll_insert_eq.

Theorem gen_ll_append_eq : forall hs s pos data ok f_pool, ll_inv s -> hl_R hs s ->
  match pos with None => True | Some k => pos_ok s k = true end -> lsize s < two64 - 1 ->
  ll_res_ok (gen_ll_append (hnext (hh hs)) (hprev (hh hs)) (hdata (hh hs)) f_pool (hsize hs) (alloc_res hs ok)
                           (optp (node_arg s pos)) data)
            (optp (snd (hl_append hs (node_arg s pos) data ok))) (hh (fst (hl_append hs (node_arg s pos) data ok)))
            (hsize (fst (hl_append hs (node_arg s pos) data ok))) [] [].
Proof. exact gen_ll_append_matches_model. Qed.
Print Assumptions gen_ll_append_eq.

(* muggle_linked_list_remove, with (cb = true) and without (cb = false) free-data callback: returns the following
   node (NULL at the end), hands the datum to the callback when there is one and the datum is not NULL, clears the
   data pointer, unlinks and releases exactly that node *)
Theorem gen_ll_remove_eq : forall hs s k cb f_pool newp p_pool, ll_inv s -> hl_R hs s ->
  pos_ok s k = true -> lsize s < two64 ->
  ll_res_ok (gen_ll_remove (hnext (hh hs)) (hprev (hh hs)) (hdata (hh hs)) f_pool (hsize hs) newp (node_at s k) (b2z cb) p_pool)
            (optp (snd (fst (hl_remove hs (node_at s k) cb)))) (hh (fst (fst (hl_remove hs (node_at s k) cb))))
            (hsize (fst (fst (hl_remove hs (node_at s k) cb)))) (snd (hl_remove hs (node_at s k) cb)) [node_at s k].
Proof. exact gen_ll_remove_matches_model. Qed.
Print Assumptions gen_ll_remove_eq.

Theorem gen_qu_enqueue_eq : forall hs q data ok f_pool, qu_inv q -> hq_R hs q -> qsize q < two64 - 1 ->
  ll_res_ok (gen_qu_enqueue (hnext (hh hs)) (hprev (hh hs)) (hdata (hh hs)) f_pool (hsize hs) (alloc_res hs ok) data)
            (optp (snd (hq_enqueue hs data ok))) (hh (fst (hq_enqueue hs data ok)))
            (hsize (fst (hq_enqueue hs data ok))) [] [].
Proof. exact gen_qu_enqueue_matches_model. Qed.
Print Assumptions gen_qu_enqueue_eq.

Theorem gen_qu_dequeue_eq : forall hs q cb f_pool newp p_pool, qu_inv q -> hq_R hs q -> qsize q < two64 ->
  ll_res_ok (gen_qu_dequeue (hnext (hh hs)) (hprev (hh hs)) (hdata (hh hs)) f_pool (hsize hs) newp (b2z cb) p_pool)
            0 (hh (fst (hq_dequeue hs cb))) (hsize (fst (hq_dequeue hs cb))) (snd (hq_dequeue hs cb))
            (if hl_is_empty hs then [] else [hnext (hh hs) HEAD]).
Proof. exact gen_qu_dequeue_matches_model. Qed.
Print Assumptions gen_qu_dequeue_eq.

(* muggle_pointer_slot_insert / _remove on every state satisfying the invariant (every capacity, cursors anywhere
   in [0, 2^32)): the ring position (whatever way the text reduces the cursor modulo the capacity), the full test,
   the 32-bit wrap of the cursors, the pp_slots store, in_used / data, the live-list splice, the index written to
   *slot_idx and the error code of this run's err.h are those of Model.ps_insert / ps_remove + ModelHeap *)
Theorem gen_ps_insert_eq : forall s data, ps_inv (hcore s) ->
  exists s' r sid, hps_insert s data = Some (s', (r, sid)) /\
    ps_res_ok (fst (gen_ps_insert (hnext (hlinks s)) (hprev (hlinks s)) (slot_data (slots (hcore s)))
                                  (iu_of (slots (hcore s))) (fun k => k) (pp (hcore s))
                                  (alloc_index (hcore s)) (pcap (hcore s)) (free_index (hcore s)) data))
              (pres_code r) s' /\
    snd (gen_ps_insert (hnext (hlinks s)) (hprev (hlinks s)) (slot_data (slots (hcore s)))
                       (iu_of (slots (hcore s))) (fun k => k) (pp (hcore s))
                       (alloc_index (hcore s)) (pcap (hcore s)) (free_index (hcore s)) data) = sid.
Proof. exact gen_ps_insert_matches_model. Qed.
Print Assumptions gen_ps_insert_eq.

Theorem gen_ps_remove_eq : forall s idx, ps_inv (hcore s) -> 0 <= idx < two32 ->
  exists s' r, hps_remove s idx = Some (s', r) /\
    ps_res_ok (gen_ps_remove (hnext (hlinks s)) (hprev (hlinks s)) (slot_data (slots (hcore s)))
                             (iu_of (slots (hcore s))) (fun k => k) (pp (hcore s))
                             (alloc_index (hcore s)) (pcap (hcore s)) (free_index (hcore s)) idx)
              (pres_code r) s'.
Proof. exact gen_ps_remove_matches_model. Qed.
Print Assumptions gen_ps_remove_eq.

(* array list / stack.  al_out ret s oarg msz cb = (ret, nodes s, acap s, asize s, oarg, msz, cb): return value
   (offset of the node, -1 = NULL; 1 / 0 for bool), the whole storage cell by cell, capacity, size, the capacity
   asked from ensure_capacity (-1 = not called: grow_arg = twice the capacity exactly when size = capacity),
   the size asked from malloc, the data handed to the free callback.  ensure_capacity is opaque inside insert /
   append / push and tied on its own (fresh storage = zeros). *)
Theorem gen_al_insert_eq : forall s index data ok m1 m1_ok, al_inv s -> int_ok index ->
  gen_al_insert (nodes s) (acap s) (asize s) m1 m1_ok
                (b2z (snd (al_ensure s (acap s * 2) ok))) (acap (fst (al_ensure s (acap s * 2) ok)))
                (nodes (fst (al_ensure s (acap s * 2) ok))) index data =
  al_out (optz (snd (al_insert s index data ok))) (fst (al_insert s index data ok))
         (grow_arg (asize s) (acap s)) (-1) [].
Proof. exact gen_al_insert_matches_model. Qed.
Print Assumptions gen_al_insert_eq.

Theorem gen_al_append_eq : forall s index data ok m1 m1_ok, al_inv s -> int_ok index ->
  gen_al_append (nodes s) (acap s) (asize s) m1 m1_ok
                (b2z (snd (al_ensure s (acap s * 2) ok))) (acap (fst (al_ensure s (acap s * 2) ok)))
                (nodes (fst (al_ensure s (acap s * 2) ok))) index data =
  al_out (optz (snd (al_append s index data ok))) (fst (al_append s index data ok))
         (grow_arg (asize s) (acap s)) (-1) [].
Proof. exact gen_al_append_matches_model. Qed.
Print Assumptions gen_al_append_eq.

Theorem gen_al_remove_eq : forall s index cb m1 m1_ok ores hc hn p_pool, al_inv s -> int_ok index ->
  gen_al_remove (nodes s) (acap s) (asize s) m1 m1_ok ores hc hn index (b2z cb) p_pool =
  al_out (b2z (snd (fst (al_remove s index cb)))) (fst (fst (al_remove s index cb))) (-1) (-1) (snd (al_remove s index cb)).
Proof. exact gen_al_remove_matches_model. Qed.
Print Assumptions gen_al_remove_eq.

Theorem gen_al_ensure_eq : forall s c ok ores hc hn, al_inv s -> 0 <= c < two64 ->
  gen_al_ensure (nodes s) (acap s) (asize s) (repeat 0 (Z.to_nat c)) (b2z ok) ores hc hn c =
  al_out (b2z (snd (al_ensure s c ok))) (fst (al_ensure s c ok)) (-1)
         (if (acap s >=? c) || negb (cap_is_valid c) then -1 else 8 * c) [].
Proof. exact gen_al_ensure_matches_model. Qed.
Print Assumptions gen_al_ensure_eq.

Theorem gen_st_push_eq : forall s data ok m1 m1_ok, st_inv s ->
  gen_st_push (snodes s) (scap s) (stop s) m1 m1_ok
              (b2z (snd (st_ensure s (scap s * 2) ok))) (scap (fst (st_ensure s (scap s * 2) ok)))
              (snodes (fst (st_ensure s (scap s * 2) ok))) data =
  st_out (optz (snd (st_push s data ok))) (fst (st_push s data ok)) (grow_arg (stop s) (scap s)) (-1) [].
Proof. exact gen_st_push_matches_model. Qed.
Print Assumptions gen_st_push_eq.

Theorem gen_st_pop_eq : forall s cb m1 m1_ok ores hc hn p_pool, st_inv s ->
  gen_st_pop (snodes s) (scap s) (stop s) m1 m1_ok ores hc hn (b2z cb) p_pool =
  st_out 0 (fst (st_pop s cb)) (-1) (-1) (snd (st_pop s cb)).
Proof. exact gen_st_pop_matches_model. Qed.
Print Assumptions gen_st_pop_eq.

Theorem gen_st_ensure_eq : forall s c ok ores hc hn, st_inv s -> 0 <= c < two64 ->
  gen_st_ensure (snodes s) (scap s) (stop s) (repeat 0 (Z.to_nat c)) (b2z ok) ores hc hn c =
  st_out (b2z (snd (st_ensure s c ok))) (fst (st_ensure s c ok)) (-1)
         (if (scap s >=? c) || negb (cap_is_valid c) then -1 else 8 * c) [].
Proof. exact gen_st_ensure_matches_model. Qed.
Print Assumptions gen_st_ensure_eq.
