(* C17 — property theorems only.  Each is closed by [exact] of a lemma proved in
   C17/Proofs*.v and followed by Print Assumptions.
   Notation: K = max backup_count 1 (the handler never keeps fewer than one
   backup); bk fs i / live fs = lines of <path>.i / <path> ([] when missing);
   retained K fs = bk K ++ ... ++ bk 1 ++ live (backups oldest..newest, then the
   live file); r_written ops = the lines written by the history. *)
From MV Require Import C17.Model C17.Proofs.
Local Open Scope Z_scope.

(* After ANY history of writes and restarts (restarts may change max_bytes), for
   any max_bytes, backup_count and pre-existing files: the backups oldest..newest
   followed by the live file are a contiguous suffix of everything written
   (pre-existing lines count as written first): whole lines, original order; and
   when the lines are distinct no line occurs twice in the files. *)
Theorem rot_concat_is_suffix : forall fs0 mb bc ops,
  let K := Kof bc in
  let h := r_run (r_init fs0 mb bc) ops in
  exists lost,
    retained K fs0 ++ r_written ops = lost ++ retained K (r_fs h) /\
    (NoDup (map m_id (retained K fs0 ++ r_written ops)) -> NoDup (map m_id (retained K (r_fs h)))).
Proof. exact rot_suffix. Qed.
Print Assumptions rot_concat_is_suffix.

(* What is discarded is exactly the segments older than the K most recently
   closed ones, where segments are defined by the specification sp_*: the line
   sequence is cut whenever the open segment has reached max_bytes (tested after
   every write and at every start).  <path>.i is the i-th newest closed segment,
   <path> the open one. *)
Theorem rot_discards_only_beyond_backups : forall fs0 mb bc ops,
  let K := Kof bc in
  let h := r_run (r_init fs0 mb bc) ops in
  let s := sp_run (sp_init K fs0 mb) ops in
  (forall i, (1 <= i <= K)%nat -> bk (r_fs h) i = nth (i - 1) (sp_closed s) []) /\
  fs_get sname_eqb SLive (r_fs h) = Some (sp_live s) /\
  retained K fs0 ++ r_written ops = concat (rev (skipn K (sp_closed s))) ++ retained K (r_fs h).
Proof. exact rot_refines_segments. Qed.
Print Assumptions rot_discards_only_beyond_backups.

(* backup_count = 0: one backup, <path>.1, is kept all the same (it holds the
   most recently closed segment); no other <path>.i (i >= 2) is ever created,
   changed or removed. *)
Theorem rot_backup_count_zero : forall fs0 mb ops,
  let h := r_run (r_init fs0 mb 0) ops in
  let s := sp_run (sp_init 1 fs0 mb) ops in
  bk (r_fs h) 1 = hd [] (sp_closed s) /\
  fs_get sname_eqb SLive (r_fs h) = Some (sp_live s) /\
  (forall i, (2 <= i)%nat -> fs_get sname_eqb (SBak i) (r_fs h) = fs_get sname_eqb (SBak i) fs0) /\
  retained 1 fs0 ++ r_written ops = concat (rev (tl (sp_closed s))) ++ bk (r_fs h) 1 ++ live (r_fs h).
Proof. exact rot_bc_zero. Qed.
Print Assumptions rot_backup_count_zero.

(* Time rotation (repaired code).  For every unit, rotate_mod, zone mode and
   zone offset, every history of writes and restarts whose line times do not run
   backwards within a handler lifetime (well_timed), and pre-existing files that
   are themselves correctly filed: every line of every file lies in the file
   whose name denotes the period (unit, rotate_mod, zone mode) of the line's
   time stamp. *)
Theorem trot_line_in_own_period : forall fs0 clock0 u md local tz ops,
  files_ok u md local tz fs0 ->
  well_timed clock0 ops ->
  let h := t_run (t_init fs0 clock0 u md local tz) ops in
  forall n c m, fs_get tname_eqb n (t_fs h) = Some c -> In m c ->
    period_of_name md n = period_key u md (brokendown local tz (m_ts m)).
Proof. exact trot_in_own_period. Qed.
Print Assumptions trot_line_in_own_period.

(* ... and no line is lost: every line written is in some file (with the time
   the handler used for it).  Needs no assumption on the times. *)
Theorem trot_every_line_stored : forall fs0 clock0 u md local tz ops l,
  In l (t_lines ops) -> stored (t_fs (t_run (t_init fs0 clock0 u md local tz) ops)) l.
Proof. exact trot_stored. Qed.
Print Assumptions trot_every_line_stored.

(* Two times with the same file name lie in the same period (a file never mixes
   periods); for rotate_mod = 1 also conversely: one period, one name. *)
Theorem trot_name_injective_per_period : forall u md t1 t2,
  (t_filename u t1 = t_filename u t2 -> period_key u md t1 = period_key u md t2) /\
  (period_key u 1 t1 = period_key u 1 t2 -> t_filename u t1 = t_filename u t2).
Proof. exact name_period_both. Qed.
Print Assumptions trot_name_injective_per_period.
