(* C17 — property theorems only.  Each is closed by [exact] of a lemma proved in
   C17/Proofs*.v and followed by Print Assumptions.
   Notation: K = max backup_count 1 (the handler never keeps fewer than one
   backup); bk fs i / live fs = records of <path>.i / <path> ([] when missing);
   retained K fs = bk K ++ ... ++ bk 1 ++ live (backups oldest..newest, then the
   live file).  code_msg_max_len = sizeof(buf) = MUGGLE_LOG_MSG_MAX_LEN, taken from
   the headers on every run (gen/Params_C17.v).  A message wants m_len bytes
   (ANY length); r_records / t_records = the records the write functions hand to
   fwrite after the truncation of the code (r_log / t_log = format, truncate,
   write). *)
From MV Require Import C17.Model C17.Proofs gen.Params_C17.
Local Open Scope Z_scope.

(* side condition of the truncation theorems on the constant of the code:
   buf[ret - 1] with ret = sizeof(buf) - 1 needs sizeof(buf) >= 2 *)
Theorem code_msg_max_len_ok : (2 <=? code_msg_max_len) = true.
Proof. vm_compute. reflexivity. Qed.
Print Assumptions code_msg_max_len_ok.

(* Truncation, byte level, with the buffer size of the code, for a formatted line
   of EVERY length (body without newline/NUL + one newline): the bytes handed to
   fwrite end in exactly one newline, what precedes it is a prefix of the line
   without newline or NUL, the record has at most sizeof(buf) - 1 bytes, and its
   length is exactly what the record-level model adds to the offset (wlen):
   the whole line when it fits (length < sizeof(buf)), sizeof(buf) - 1 bytes
   otherwise -- in particular for a line of exactly sizeof(buf) bytes. *)
Theorem rot_record_is_one_terminated_line : forall body : list Z,
  (forall c, In c body -> c <> NL /\ c <> NUL) ->
  exists pre, record_bytes (Z.to_nat code_msg_max_len) (body ++ [NL]) = pre ++ [NL] /\
              (exists rest, body = pre ++ rest) /\
              (forall c, In c pre -> c <> NL /\ c <> NUL) /\
              Z.of_nat (length (pre ++ [NL])) <= code_msg_max_len - 1 /\
              Z.of_nat (length (pre ++ [NL])) = wlen code_msg_max_len (Z.of_nat (length (body ++ [NL]))).
Proof. exact (record_terminated_Z code_msg_max_len code_msg_max_len_ok). Qed.
Print Assumptions rot_record_is_one_terminated_line.

(* ... for every buffer size >= 2, with the explicit shape of the record *)
Theorem rot_record_whole_when_it_fits : forall (B : nat) (body : list Z),
  (2 <= B)%nat ->
  let text := body ++ [NL] in
  let w := Z.to_nat (wlen (Z.of_nat B) (Z.of_nat (length text))) in
  record_bytes B text = firstn (w - 1) body ++ [NL] /\
  length (record_bytes B text) = w /\
  (w <= B - 1)%nat /\
  ((length text < B)%nat -> record_bytes B text = text).
Proof. exact record_bytes_spec. Qed.
Print Assumptions rot_record_whole_when_it_fits.

(* After ANY history of writes (messages of any length) and restarts (restarts
   may change max_bytes), for any max_bytes, backup_count and pre-existing
   files: the backups oldest..newest followed by the live file are a contiguous
   suffix of all records (pre-existing ones count as written first): whole
   records, original order; and when the messages are distinct no record occurs
   twice in the files. *)
Theorem rot_concat_is_suffix : forall fs0 mb bc ops,
  let K := Kof bc in
  let h := r_run_log code_msg_max_len (r_init fs0 mb bc) ops in
  exists lost,
    retained K fs0 ++ r_records code_msg_max_len ops = lost ++ retained K (r_fs h) /\
    (NoDup (map m_id (retained K fs0) ++ map m_id (r_written ops)) -> NoDup (map m_id (retained K (r_fs h)))).
Proof. exact (rot_log_suffix code_msg_max_len). Qed.
Print Assumptions rot_concat_is_suffix.

(* What is discarded is exactly the segments older than the K most recently
   closed ones, where segments are defined by the specification sp_*: the record
   sequence is cut whenever the bytes WRITTEN to the open segment have reached
   max_bytes (tested after every write and at every start).  <path>.i is the
   i-th newest closed segment, <path> the open one. *)
Theorem rot_discards_only_beyond_backups : forall fs0 mb bc ops,
  let K := Kof bc in
  let h := r_run_log code_msg_max_len (r_init fs0 mb bc) ops in
  let s := sp_run (sp_init K fs0 mb) (map (rop_clamp code_msg_max_len) ops) in
  (forall i, (1 <= i <= K)%nat -> bk (r_fs h) i = nth (i - 1) (sp_closed s) []) /\
  fs_get sname_eqb SLive (r_fs h) = Some (sp_live s) /\
  retained K fs0 ++ r_records code_msg_max_len ops = concat (rev (skipn K (sp_closed s))) ++ retained K (r_fs h).
Proof. exact (rot_log_segments code_msg_max_len). Qed.
Print Assumptions rot_discards_only_beyond_backups.

(* backup_count = 0: one backup, <path>.1, is kept all the same (it holds the
   most recently closed segment); no other <path>.i (i >= 2) is ever created,
   changed or removed. *)
Theorem rot_backup_count_zero : forall fs0 mb ops,
  let h := r_run_log code_msg_max_len (r_init fs0 mb 0) ops in
  let s := sp_run (sp_init 1 fs0 mb) (map (rop_clamp code_msg_max_len) ops) in
  bk (r_fs h) 1 = hd [] (sp_closed s) /\
  fs_get sname_eqb SLive (r_fs h) = Some (sp_live s) /\
  (forall i, (2 <= i)%nat -> fs_get sname_eqb (SBak i) (r_fs h) = fs_get sname_eqb (SBak i) fs0) /\
  retained 1 fs0 ++ r_records code_msg_max_len ops = concat (rev (tl (sp_closed s))) ++ bk (r_fs h) 1 ++ live (r_fs h).
Proof. exact (rot_log_bc_zero code_msg_max_len). Qed.
Print Assumptions rot_backup_count_zero.

(* every record written by a history is shorter than the buffer *)
Theorem rot_records_below_limit : forall ops,
  Forall (fun m => 0 <= m_len m) (r_written ops) ->
  Forall (fun r => 0 <= m_len r <= code_msg_max_len - 1) (r_records code_msg_max_len ops).
Proof. exact (fun ops => r_records_bounded_b code_msg_max_len ops code_msg_max_len_ok). Qed.
Print Assumptions rot_records_below_limit.

(* Time rotation (repaired code).  rotate_mod >= 1 is a hypothesis of every theorem below: init
   accepts rotate_mod = 0 and detect() then divides by zero (reported as a candidate defect,
   findings/C17-candidate-rotate-mod-zero.case); the model's x / 0 = 0 must not make them true there.
   For every unit, rotate_mod >= 1, zone mode and
   zone (tz : zone = ANY function instant -> offset given by an initial offset and
   a list of transitions: fixed offsets, daylight saving switches in both
   directions, half-hour zones; "own period" is the key of the local civil time
   as localtime_r gives it, see trot_period_key_is_the_period), every history of writes (messages of any length) and restarts
   whose line times do not run backwards within a handler lifetime (well_timed),
   and pre-existing files that are themselves correctly filed: every record of
   every file lies in the file whose name denotes the period (unit, rotate_mod,
   zone mode) of the record's time stamp. *)
Theorem trot_line_in_own_period : forall fs0 clock0 u md local tz ops,
  1 <= md ->
  files_ok u md local tz fs0 ->
  well_timed clock0 ops ->
  let h := t_run_log code_msg_max_len (t_init fs0 clock0 u md local tz) ops in
  forall n c m, fs_get tname_eqb n (t_fs h) = Some c -> In m c ->
    period_of_name md n = period_key u md (brokendown local tz (m_ts m)).
Proof. exact (trot_log_in_own_period_md code_msg_max_len). Qed.
Print Assumptions trot_line_in_own_period.

(* ... and no record is lost: every record written is in some file (with the
   time the handler used for it).  Needs no assumption on the times. *)
Theorem trot_every_line_stored : forall fs0 clock0 u md local tz ops l,
  1 <= md ->
  In l (t_records code_msg_max_len ops) ->
  stored (t_fs (t_run_log code_msg_max_len (t_init fs0 clock0 u md local tz) ops)) l.
Proof. exact (trot_log_stored_md code_msg_max_len). Qed.
Print Assumptions trot_every_line_stored.

(* Two times with the same file name lie in the same period (a file never mixes
   periods); for rotate_mod = 1 also conversely: one period, one name. *)
Theorem trot_name_injective_per_period : forall u md t1 t2, 1 <= md ->
  (t_filename u t1 = t_filename u t2 -> period_key u md t1 = period_key u md t2) /\
  (period_key u 1 t1 = period_key u 1 t2 -> t_filename u t1 = t_filename u t2).
Proof. exact name_period_both_md. Qed.
Print Assumptions trot_name_injective_per_period.

(* Working directory.  The process may change directory at any point of a
   history (GChdir); the path given to init may be absolute or relative (plain
   name, ./name, sub/dir/name).  The directory the path resolves to AT INIT is
   part of the configuration: every directory other than that one (and than the
   ones a later restart resolves the path to, later_dirs) has exactly the
   contents it had before the history -- no stray log file anywhere. *)
Theorem rot_files_in_configured_dir : forall fs0 cwd p mb bc ops d,
  d <> resolve cwd p -> ~ In d (later_dirs _ _ cwd p ops) ->
  g_dir d (gs_fs r_fs (rg_run code_msg_max_len (rg_start fs0 cwd p mb bc) ops)) = g_dir d fs0.
Proof. exact (rot_frame code_msg_max_len). Qed.
Print Assumptions rot_files_in_configured_dir.

(* ... and the configured directory holds exactly the files of the
   one-directory model run on the writes and restarts of the history (when every
   restart resolves to the same directory: absolute path, or the process is back
   in its start directory), so all rot_* theorems above speak about it. *)
Theorem rot_configured_dir_holds_the_rotation : forall fs0 cwd p mb bc ops,
  stable _ _ (resolve cwd p) cwd p ops ->
  let g := rg_run code_msg_max_len (rg_start fs0 cwd p mb bc) ops in
  gs_dir g = resolve cwd p /\
  g_dir (resolve cwd p) (gs_fs r_fs g) =
    r_fs (r_run_log code_msg_max_len (r_init (g_dir (resolve cwd p) fs0) mb bc) (rops_of ops)).
Proof. exact (rot_project code_msg_max_len). Qed.
Print Assumptions rot_configured_dir_holds_the_rotation.

Theorem trot_files_in_configured_dir : forall fs0 cwd p clock u md local tz ops d,
  d <> resolve cwd p -> ~ In d (later_dirs _ _ cwd p ops) ->
  g_dir d (gs_fs t_fs (tg_run code_msg_max_len (tg_start fs0 cwd p clock u md local tz) ops)) = g_dir d fs0.
Proof. exact (trot_frame code_msg_max_len). Qed.
Print Assumptions trot_files_in_configured_dir.

Theorem trot_configured_dir_holds_the_rotation : forall fs0 cwd p clock u md local tz ops,
  stable _ _ (resolve cwd p) cwd p ops ->
  let g := tg_run code_msg_max_len (tg_start fs0 cwd p clock u md local tz) ops in
  gs_dir g = resolve cwd p /\
  g_dir (resolve cwd p) (gs_fs t_fs g) =
    t_fs (t_run_log code_msg_max_len (t_init (g_dir (resolve cwd p) fs0) clock u md local tz) (tops_of ops)).
Proof. exact (trot_project code_msg_max_len). Qed.
Print Assumptions trot_configured_dir_holds_the_rotation.

(* Restarts that CHANGE backup_count.  Reading taken from the code: the backup files of a
   configuration are <path>.1 .. <path>.K, K = max(backup_count, 1) of the configuration in force;
   a higher-numbered file left by an earlier, larger count is stale (never touched again) and is not
   one of "the backup files".  A history with count changes is a list of phases (max_bytes,
   backup_count, operations), each started by destroy + init on the files as they are.  The
   backups of the LAST configuration oldest..newest + the live file are a contiguous suffix of all
   records, provided that at every change K -> K' either K' <= K or no file numbered K+1..K' holds
   anything at that moment (phases_ok); counts that never grow always qualify. *)
Theorem rot_concat_is_suffix_across_backup_counts : forall ps K fs,
  phases_ok code_msg_max_len K fs ps ->
  exists lost, retained K fs ++ p_records code_msg_max_len ps =
               lost ++ retained (last_K K ps) (r_phases code_msg_max_len fs ps).
Proof. exact (rot_suffix_across_counts code_msg_max_len). Qed.
Print Assumptions rot_concat_is_suffix_across_backup_counts.

Theorem rot_non_growing_counts_qualify : forall ps K fs,
  counts_decrease K ps -> phases_ok code_msg_max_len K fs ps.
Proof. exact (decrease_ok code_msg_max_len). Qed.
Print Assumptions rot_non_growing_counts_qualify.

(* Without the proviso the statement is FALSE for the unchanged code: backup_count 3 (four
   records, each closing a segment), then 1 (two more records: segments are discarded), then 3
   again: <path>.3 <path>.2 are the stale files of the first configuration, [2] [3], followed by
   <path>.1 = [6]: records 4 and 5 are missing in between. *)
Theorem rot_count_increase_over_stale_refuted :
  let final := r_phases 100 [] cx_phases in
  map m_id (retained 3 final) = [2; 3; 6] /\
  map m_id (retained 3 [] ++ p_records 100 cx_phases) = [1; 2; 3; 4; 5; 6] /\
  ~ (exists lost, retained 3 [] ++ p_records 100 cx_phases = lost ++ retained 3 final) /\
  ~ phases_ok 100 3 [] cx_phases /\
  phases_ok 100 3 [] (firstn 2 cx_phases).
Proof. exact count_increase_over_stale_refuted. Qed.
Print Assumptions rot_count_increase_over_stale_refuted.

(* ---------------------------------------------------------------------------
   Calendar.  The broken-down time of the model (civil_from_days, gmtime,
   localtime of a fixed-offset zone) is the proleptic Gregorian calendar, for
   EVERY day number z in Z (the model computes over Z with floor division; the C
   library's gmtime_r / localtime_r are defined where the year fits the int
   tm_year and fail with EOVERFLOW beyond; the correspondence run compares them
   on every run).  Specification: is_leap (divisible by 4 and not by 100, or by
   400), days_in_month (31 / 30 / 28-29), days_from_civil y m d = days of the
   whole years since 1970 + days of the whole months of y + d - 1;
   valid_date y m d = 1 <= m <= 12 /\ 1 <= d <= days_in_month y m;
   valid3 / dfc3 = the same on triples; date_lt = lexicographic order. *)

(* the specification is the calendar: it starts at 1970-01-01 = day 0, a year
   has 365 or 366 days by the leap rule, a month days_in_month days, a day 1 *)
Theorem cal_spec_is_the_calendar :
  days_from_civil 1970 1 1 = 0 /\
  (forall y, days_from_civil (y + 1) 1 1 = days_from_civil y 1 1 + (if is_leap y then 366 else 365)) /\
  (forall y m, 1 <= m -> days_from_civil y (m + 1) 1 = days_from_civil y m 1 + days_in_month y m) /\
  (forall y m d, days_from_civil y m (d + 1) = days_from_civil y m d + 1) /\
  (forall y, is_leap y = true <-> (y mod 4 = 0 /\ (y mod 100 <> 0 \/ y mod 400 = 0))).
Proof. exact calendar_spec_shape. Qed.
Print Assumptions cal_spec_is_the_calendar.

(* for all z: the date is valid and is the date of day z; every valid date is
   recovered from its day number; both directions are strictly monotone *)
Theorem cal_civil_from_days_is_gregorian :
  (forall z, valid3 (civil_from_days z) /\ dfc3 (civil_from_days z) = z) /\
  (forall y m d, valid_date y m d -> civil_from_days (days_from_civil y m d) = (y, m, d)) /\
  (forall z1 z2, z1 < z2 <-> date_lt (civil_from_days z1) (civil_from_days z2)) /\
  (forall a b, valid3 a -> valid3 b -> (date_lt a b <-> dfc3 a < dfc3 b)).
Proof. exact calendar_is_gregorian. Qed.
Print Assumptions cal_civil_from_days_is_gregorian.

(* every field of the broken-down time is in its range, for every instant, zone
   mode and zone offset (so the %02d fields of a file name have two digits) *)
Theorem cal_fields_in_range : forall local tz s,
  let t := brokendown local tz s in
  0 <= tm_sec t <= 59 /\ 0 <= tm_min t <= 59 /\ 0 <= tm_hour t <= 23 /\
  0 <= tm_mon t <= 11 /\ 1 <= tm_mday t <= days_in_month (tm_year t + 1900) (tm_mon t + 1).
Proof. exact brokendown_in_range. Qed.
Print Assumptions cal_fields_in_range.

(* The period key compared by detect() is the period: two instants have the same
   key iff they lie in the same period as the specification defines it on the
   zone's clock (zone_sec = the instant, or the instant + the zone offset):
   same minute / hour / day and same rotate_mod group of the second / minute /
   hour, or same month and same rotate_mod group of the day of the month
   (same_period_spec, stated with days_from_civil only) -- for EVERY zone,
   daylight saving included: in the hour a fall-back switch repeats, the key is
   the one of the local civil time localtime_r gives, so both passes through
   01:xx share the files of 01:xx.  Where the zone's clock never steps back
   (clock_monotone: UTC mode, fixed-offset zones; cal_clock_monotone_cases) the
   key is monotone in time (lexicographic order), hence a period is an interval
   of time. *)
Theorem trot_period_key_is_the_period : forall u md local tz, 1 <= md ->
  (forall s1 s2,
     period_key u md (brokendown local tz s1) = period_key u md (brokendown local tz s2) <->
     same_period_spec u md (zone_sec local tz s1) (zone_sec local tz s2)) /\
  (clock_monotone local tz -> forall s1 s2, s1 <= s2 ->
     lex_le (period_key u md (brokendown local tz s1)) (period_key u md (brokendown local tz s2))) /\
  (clock_monotone local tz -> forall s1 s2 s3, s1 <= s2 <= s3 ->
     period_key u md (brokendown local tz s1) = period_key u md (brokendown local tz s3) ->
     period_key u md (brokendown local tz s2) = period_key u md (brokendown local tz s1)).
Proof. exact period_key_is_the_period_md. Qed.
Print Assumptions trot_period_key_is_the_period.

Theorem cal_clock_monotone_cases :
  (forall tz, clock_monotone false tz) /\ (forall local off, clock_monotone local (fixed_zone off)).
Proof. exact clock_monotone_cases. Qed.
Print Assumptions cal_clock_monotone_cases.

(* ... so, under the hypotheses of trot_line_in_own_period, any two records of
   one file lie in the same period of the specification *)
Theorem trot_file_holds_one_period : forall fs0 clock0 u md local tz ops,
  1 <= md ->
  files_ok u md local tz fs0 ->
  well_timed clock0 ops ->
  let h := t_run_log code_msg_max_len (t_init fs0 clock0 u md local tz) ops in
  forall n c m1 m2, fs_get tname_eqb n (t_fs h) = Some c -> In m1 c -> In m2 c ->
    same_period_spec u md (zone_sec local tz (m_ts m1)) (zone_sec local tz (m_ts m2)).
Proof. exact (trot_log_same_file_same_period_md code_msg_max_len). Qed.
Print Assumptions trot_file_holds_one_period.

(* ---------------------------------------------------------------------------
   Second tie (DESIGN.md 4.4): the integer logic of the handler functions, sliced
   out of the C text of THIS run (lib/props/c17_slice.py + lib/leaftrans.py ->
   gen/Params_C17.v) is the model.  Handler fields, struct tm fields, the
   message time stamp and the results of library calls are integer arguments
   (0 = NULL for pointers); lt / gt stand for localtime_r / gmtime_r (instant ->
   field index -> field).  unit_code u = the character of the header for unit u;
   code_ok = MUGGLE_OK (both re-extracted). *)
From MV Require Import Lib.Leaf C17.ProofsGen.

(* detect(): for every handler state whose last_tm is a broken-down time (true of
   every state the model reaches: gen_hypotheses_hold), rotate_mod in 1 .. 2^32-1,
   every message time stamp ts (0 = none) and clock: the value returned, the new
   last_sec and the new last_tm are those of t_detect at the instant the model
   uses, in local or UTC mode, for EVERY zone *)
Theorem gen_trot_detect_matches_model : forall h ts clock,
  tm_divisible (t_last_tm h) -> 1 <= t_mod h < 2 ^ 32 ->
  gen_trot_detect (t_last_sec h)
    (tm_sec (t_last_tm h)) (tm_min (t_last_tm h)) (tm_hour (t_last_tm h))
    (tm_mday (t_last_tm h)) (tm_mon (t_last_tm h)) (tm_year (t_last_tm h))
    (t_mod h) (unit_code (t_unit h)) (if t_local h then 1 else 0) ts clock
    (fun s k => tm_get (localtime (t_zone h) s) k) (fun s k => tm_get (gmtime s) k)
  = detect_result (t_detect h (if ts =? 0 then clock else ts)).
Proof. exact gen_trot_detect_eq. Qed.
Print Assumptions gen_trot_detect_matches_model.

Theorem gen_hypotheses_hold :
  (forall fs clock u md local zn, tm_divisible (t_last_tm (t_init fs clock u md local zn))) /\
  (forall h sec, tm_divisible (t_last_tm h) -> tm_divisible (t_last_tm (fst (t_detect h sec)))).
Proof. exact (conj init_divisible detect_divisible). Qed.
Print Assumptions gen_hypotheses_hold.

(* rotate() of the time handler: the file opened is named by the numbers of
   t_filename, in the shape the model's driver renders them (name_shape); fp is
   the opened file; MUGGLE_OK is returned (snprintf and fopen succeeding) *)
Theorem gen_trot_rotate_matches_model : forall u (t : tm) fp snp fopen, 0 <= snp -> fopen <> 0 ->
  gen_trot_rotate fp (unit_code u) (tm_sec t) (tm_min t) (tm_hour t) (tm_mday t) (tm_mon t) (tm_year t) snp fopen =
  (code_ok, fopen, name_shape u,
   nth 0 (t_filename u t) 0, nth 1 (t_filename u t) 0, nth 2 (t_filename u t) 0,
   nth 3 (t_filename u t) 0, nth 4 (t_filename u t) 0, nth 5 (t_filename u t) 0).
Proof. exact gen_trot_rotate_eq. Qed.
Print Assumptions gen_trot_rotate_matches_model.

(* write() of the time handler: truncation as wlen (newline at sizeof(buf)-2 when
   cut), and the ORDER of the repaired code: detect is called first, rotate only
   after detect asked for it, the line is handed to fwrite after both; the model's
   t_log returns the same length *)
Theorem gen_trot_write_matches_model :
  (forall fp fmt L dret rret hfp, L < 2 ^ 31 ->
     gen_trot_write fp fmt L dret rret hfp = trot_write_spec code_msg_max_len fp fmt L dret hfp) /\
  (forall h clock m, snd (t_log code_msg_max_len h clock m) = wlen code_msg_max_len (m_len m)).
Proof. exact (conj gen_trot_write_eq (t_log_len code_msg_max_len)). Qed.
Print Assumptions gen_trot_write_matches_model.

(* write() of the size handler is r_log: value returned, bytes handed to fwrite,
   offset += bytes WRITTEN, rotation iff offset >= max_bytes, offset after it *)
Theorem gen_rot_write_matches_model : forall h m fmt rret hfp,
  fmt <> 0 -> 0 <= m_len m < 2 ^ 31 ->
  let B := code_msg_max_len in
  let r := r_log B h m in
  let rotated := r_open h && (r_offset h + wlen B (m_len m) >=? r_max h) in
  gen_rot_write (if r_open h then 1 else 0) (r_max h) (r_offset h) fmt (m_len m) rret hfp 0 =
  (snd r, (if rotated then hfp else if r_open h then 1 else 0), r_offset (fst r), B,
   nl_index B (m_len m), nl_value B (m_len m), (if r_open h then snd r else -1), if rotated then 1 else 0).
Proof. exact gen_rot_write_model. Qed.
Print Assumptions gen_rot_write_matches_model.

(* rotate() of the size handler: running the file operations the three generated
   pieces describe (remove <path>.backup_count if it exists; the loop, from its
   initial value while its condition holds: rename <path>.i -> <path>.(i+1); rename
   <path> -> <path>.1; reopen <path>; offset) on the model's file system gives
   exactly r_rotate, for every backup_count < 2^31 - 2 and every file system
   (the loop variable may be the index renamed or that index plus a constant) *)
Theorem gen_rot_rotate_matches_model : forall h snp fopen,
  0 <= snp -> fopen <> 0 -> Z.of_nat (r_bc h) < 2 ^ 31 - 2 ->
  gen_rotate_run h snp fopen = Some (r_fs (r_rotate h), r_offset (r_rotate h), code_ok).
Proof. exact gen_rot_rotate_run_eq. Qed.
Print Assumptions gen_rot_rotate_matches_model.
