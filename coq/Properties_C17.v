(* C17 — property theorems only.  Each is closed by [exact] of a lemma proved in
   C17/Proofs*.v and followed by Print Assumptions.
   Notation: K = max backup_count 1 (the handler never keeps fewer than one
   backup); bk fs i / live fs = records of <path>.i / <path> ([] when missing);
   retained K fs = bk K ++ ... ++ bk 1 ++ live (backups oldest..newest, then the
   live file).  code_msg_max_len = sizeof(buf) = MUGGLE_LOG_MSG_MAX_LEN, taken from
   the headers on every run (gen/Params_C17.v).  A message wants m_len bytes
   (ANY length); r_records / t_records = the records the write functions hand to
   fwrite after the truncation of the code (r_log / t_log = format, truncate,
   write). *)
From MV Require Import C17.Model C17.Proofs gen.Params_C17.
Local Open Scope Z_scope.

(* side condition of the truncation theorems on the constant of the code:
   buf[ret - 1] with ret = sizeof(buf) - 1 needs sizeof(buf) >= 2 *)
Theorem code_msg_max_len_ok : (2 <=? code_msg_max_len) = true.
Proof. vm_compute. reflexivity. Qed.
Print Assumptions code_msg_max_len_ok.

(* Truncation, byte level, with the buffer size of the code, for a formatted line
   of EVERY length (body without newline/NUL + one newline): the bytes handed to
   fwrite end in exactly one newline, what precedes it is a prefix of the line
   without newline or NUL, the record has at most sizeof(buf) - 1 bytes, and its
   length is exactly what the record-level model adds to the offset (wlen):
   the whole line when it fits (length < sizeof(buf)), sizeof(buf) - 1 bytes
   otherwise -- in particular for a line of exactly sizeof(buf) bytes. *)
Theorem rot_record_is_one_terminated_line : forall body : list Z,
  (forall c, In c body -> c <> NL /\ c <> NUL) ->
  exists pre, record_bytes (Z.to_nat code_msg_max_len) (body ++ [NL]) = pre ++ [NL] /\
              (exists rest, body = pre ++ rest) /\
              (forall c, In c pre -> c <> NL /\ c <> NUL) /\
              Z.of_nat (length (pre ++ [NL])) <= code_msg_max_len - 1 /\
              Z.of_nat (length (pre ++ [NL])) = wlen code_msg_max_len (Z.of_nat (length (body ++ [NL]))).
Proof. exact (record_terminated_Z code_msg_max_len code_msg_max_len_ok). Qed.
Print Assumptions rot_record_is_one_terminated_line.

(* ... for every buffer size >= 2, with the explicit shape of the record *)
Theorem rot_record_whole_when_it_fits : forall (B : nat) (body : list Z),
  (2 <= B)%nat ->
  let text := body ++ [NL] in
  let w := Z.to_nat (wlen (Z.of_nat B) (Z.of_nat (length text))) in
  record_bytes B text = firstn (w - 1) body ++ [NL] /\
  length (record_bytes B text) = w /\
  (w <= B - 1)%nat /\
  ((length text < B)%nat -> record_bytes B text = text).
Proof. exact record_bytes_spec. Qed.
Print Assumptions rot_record_whole_when_it_fits.

(* After ANY history of writes (messages of any length) and restarts (restarts
   may change max_bytes), for any max_bytes, backup_count and pre-existing
   files: the backups oldest..newest followed by the live file are a contiguous
   suffix of all records (pre-existing ones count as written first): whole
   records, original order; and when the messages are distinct no record occurs
   twice in the files. *)
Theorem rot_concat_is_suffix : forall fs0 mb bc ops,
  let K := Kof bc in
  let h := r_run_log code_msg_max_len (r_init fs0 mb bc) ops in
  exists lost,
    retained K fs0 ++ r_records code_msg_max_len ops = lost ++ retained K (r_fs h) /\
    (NoDup (map m_id (retained K fs0) ++ map m_id (r_written ops)) -> NoDup (map m_id (retained K (r_fs h)))).
Proof. exact (rot_log_suffix code_msg_max_len). Qed.
Print Assumptions rot_concat_is_suffix.

(* What is discarded is exactly the segments older than the K most recently
   closed ones, where segments are defined by the specification sp_*: the record
   sequence is cut whenever the bytes WRITTEN to the open segment have reached
   max_bytes (tested after every write and at every start).  <path>.i is the
   i-th newest closed segment, <path> the open one. *)
Theorem rot_discards_only_beyond_backups : forall fs0 mb bc ops,
  let K := Kof bc in
  let h := r_run_log code_msg_max_len (r_init fs0 mb bc) ops in
  let s := sp_run (sp_init K fs0 mb) (map (rop_clamp code_msg_max_len) ops) in
  (forall i, (1 <= i <= K)%nat -> bk (r_fs h) i = nth (i - 1) (sp_closed s) []) /\
  fs_get sname_eqb SLive (r_fs h) = Some (sp_live s) /\
  retained K fs0 ++ r_records code_msg_max_len ops = concat (rev (skipn K (sp_closed s))) ++ retained K (r_fs h).
Proof. exact (rot_log_segments code_msg_max_len). Qed.
Print Assumptions rot_discards_only_beyond_backups.

(* backup_count = 0: one backup, <path>.1, is kept all the same (it holds the
   most recently closed segment); no other <path>.i (i >= 2) is ever created,
   changed or removed. *)
Theorem rot_backup_count_zero : forall fs0 mb ops,
  let h := r_run_log code_msg_max_len (r_init fs0 mb 0) ops in
  let s := sp_run (sp_init 1 fs0 mb) (map (rop_clamp code_msg_max_len) ops) in
  bk (r_fs h) 1 = hd [] (sp_closed s) /\
  fs_get sname_eqb SLive (r_fs h) = Some (sp_live s) /\
  (forall i, (2 <= i)%nat -> fs_get sname_eqb (SBak i) (r_fs h) = fs_get sname_eqb (SBak i) fs0) /\
  retained 1 fs0 ++ r_records code_msg_max_len ops = concat (rev (tl (sp_closed s))) ++ bk (r_fs h) 1 ++ live (r_fs h).
Proof. exact (rot_log_bc_zero code_msg_max_len). Qed.
Print Assumptions rot_backup_count_zero.

(* every record written by a history is shorter than the buffer *)
Theorem rot_records_below_limit : forall ops,
  Forall (fun m => 0 <= m_len m) (r_written ops) ->
  Forall (fun r => 0 <= m_len r <= code_msg_max_len - 1) (r_records code_msg_max_len ops).
Proof. exact (fun ops => r_records_bounded_b code_msg_max_len ops code_msg_max_len_ok). Qed.
Print Assumptions rot_records_below_limit.

(* Time rotation (repaired code).  For every unit, rotate_mod, zone mode and
   zone offset, every history of writes (messages of any length) and restarts
   whose line times do not run backwards within a handler lifetime (well_timed),
   and pre-existing files that are themselves correctly filed: every record of
   every file lies in the file whose name denotes the period (unit, rotate_mod,
   zone mode) of the record's time stamp. *)
Theorem trot_line_in_own_period : forall fs0 clock0 u md local tz ops,
  files_ok u md local tz fs0 ->
  well_timed clock0 ops ->
  let h := t_run_log code_msg_max_len (t_init fs0 clock0 u md local tz) ops in
  forall n c m, fs_get tname_eqb n (t_fs h) = Some c -> In m c ->
    period_of_name md n = period_key u md (brokendown local tz (m_ts m)).
Proof. exact (trot_log_in_own_period code_msg_max_len). Qed.
Print Assumptions trot_line_in_own_period.

(* ... and no record is lost: every record written is in some file (with the
   time the handler used for it).  Needs no assumption on the times. *)
Theorem trot_every_line_stored : forall fs0 clock0 u md local tz ops l,
  In l (t_records code_msg_max_len ops) ->
  stored (t_fs (t_run_log code_msg_max_len (t_init fs0 clock0 u md local tz) ops)) l.
Proof. exact (trot_log_stored code_msg_max_len). Qed.
Print Assumptions trot_every_line_stored.

(* Two times with the same file name lie in the same period (a file never mixes
   periods); for rotate_mod = 1 also conversely: one period, one name. *)
Theorem trot_name_injective_per_period : forall u md t1 t2,
  (t_filename u t1 = t_filename u t2 -> period_key u md t1 = period_key u md t2) /\
  (period_key u 1 t1 = period_key u 1 t2 -> t_filename u t1 = t_filename u t2).
Proof. exact name_period_both. Qed.
Print Assumptions trot_name_injective_per_period.

(* Working directory.  The process may change directory at any point of a
   history (GChdir); the path given to init may be absolute or relative (plain
   name, ./name, sub/dir/name).  The directory the path resolves to AT INIT is
   part of the configuration: every directory other than that one (and than the
   ones a later restart resolves the path to, later_dirs) has exactly the
   contents it had before the history -- no stray log file anywhere. *)
Theorem rot_files_in_configured_dir : forall fs0 cwd p mb bc ops d,
  d <> resolve cwd p -> ~ In d (later_dirs _ _ cwd p ops) ->
  g_dir d (gs_fs r_fs (rg_run code_msg_max_len (rg_start fs0 cwd p mb bc) ops)) = g_dir d fs0.
Proof. exact (rot_frame code_msg_max_len). Qed.
Print Assumptions rot_files_in_configured_dir.

(* ... and the configured directory holds exactly the files of the
   one-directory model run on the writes and restarts of the history (when every
   restart resolves to the same directory: absolute path, or the process is back
   in its start directory), so all rot_* theorems above speak about it. *)
Theorem rot_configured_dir_holds_the_rotation : forall fs0 cwd p mb bc ops,
  stable _ _ (resolve cwd p) cwd p ops ->
  let g := rg_run code_msg_max_len (rg_start fs0 cwd p mb bc) ops in
  gs_dir g = resolve cwd p /\
  g_dir (resolve cwd p) (gs_fs r_fs g) =
    r_fs (r_run_log code_msg_max_len (r_init (g_dir (resolve cwd p) fs0) mb bc) (rops_of ops)).
Proof. exact (rot_project code_msg_max_len). Qed.
Print Assumptions rot_configured_dir_holds_the_rotation.

Theorem trot_files_in_configured_dir : forall fs0 cwd p clock u md local tz ops d,
  d <> resolve cwd p -> ~ In d (later_dirs _ _ cwd p ops) ->
  g_dir d (gs_fs t_fs (tg_run code_msg_max_len (tg_start fs0 cwd p clock u md local tz) ops)) = g_dir d fs0.
Proof. exact (trot_frame code_msg_max_len). Qed.
Print Assumptions trot_files_in_configured_dir.

Theorem trot_configured_dir_holds_the_rotation : forall fs0 cwd p clock u md local tz ops,
  stable _ _ (resolve cwd p) cwd p ops ->
  let g := tg_run code_msg_max_len (tg_start fs0 cwd p clock u md local tz) ops in
  gs_dir g = resolve cwd p /\
  g_dir (resolve cwd p) (gs_fs t_fs g) =
    t_fs (t_run_log code_msg_max_len (t_init (g_dir (resolve cwd p) fs0) clock u md local tz) (tops_of ops)).
Proof. exact (trot_project code_msg_max_len). Qed.
Print Assumptions trot_configured_dir_holds_the_rotation.
