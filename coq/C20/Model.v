(* C20 — pure utilities: executable model transcribing
     muggle/c/base/utils.c   (muggle_next_pow_of_2)
     muggle/c/base/str.c     (startswith/endswith/count/find/lstrip/rstrip, the str_to.. parsers)
     muggle/c/os/path.c      (abspath/basename/dirname/isabs/join/normpath)
     muggle/c/encoding/hex.c (hex_to_byte/hex_to_bytes/hex_from_bytes)
     muggle/c/os/endian.h    (MUGGLE_ENDIAN_SWAP_16/32/64)
   in the REPAIRED form (fixes/C20-*.patch).  Definitions only.

   Conventions: a C string is the [list Z] of its bytes (0..255, no NUL);
   uint64 values are [N] with the wrap written out; all other integers are [Z].
   An output buffer is [buf]: its cells (length = the size the caller passed)
   and a flag [oob] set by any write or read outside the cells.
   The libc functions strtol/strtoul/strtoll/strtoull, strstr, isspace, strncpy,
   memcpy, strlen are MODELLED (assumed behaviour, glibc 2.36, "C" locale); the
   strtol-family model is compared with the real functions by the check run. *)
From Coq Require Export List ZArith NArith Lia Bool.
Export ListNotations.

(* ------------------------------------------------------------------ *)
(* next_pow_of_2 : uint64 as N, wrap explicit                          *)
(* ------------------------------------------------------------------ *)
Definition w64 : N := 18446744073709551616%N.

Definition model_npo2 (x : N) : N :=
  (if (N.land x ((x + w64 - 1) mod w64) =? 0)
   then x
   else
     let x := N.lor x (N.shiftr x 1) in
     let x := N.lor x (N.shiftr x 2) in
     let x := N.lor x (N.shiftr x 4) in
     let x := N.lor x (N.shiftr x 8) in
     let x := N.lor x (N.shiftr x 16) in
     let x := N.lor x (N.shiftr x 32) in
     (x + 1) mod w64)%N.

(* ------------------------------------------------------------------ *)
(* endian swaps: the macros, masks and shifts as written               *)
(* ------------------------------------------------------------------ *)
Definition swap16 (v : N) : N :=
  (N.lor (N.shiftl (N.land v 255) 8) (N.shiftr (N.land v 65280) 8))%N.

Definition swap32 (v : N) : N :=
  (N.lor (N.lor (N.lor
     (N.shiftl (N.land v 255) 24)
     (N.shiftl (N.land v 65280) 8))
     (N.shiftr (N.land v 16711680) 8))
     (N.shiftr (N.land v 4278190080) 24))%N.

Definition swap64 (v : N) : N :=
  (N.lor (N.lor (N.lor (N.lor (N.lor (N.lor (N.lor
     (N.shiftl (N.land v 255) 56)
     (N.shiftl (N.land v 65280) 40))
     (N.shiftl (N.land v 16711680) 24))
     (N.shiftl (N.land v 4278190080) 8))
     (N.shiftr (N.land v 1095216660480) 8))
     (N.shiftr (N.land v 280375465082880) 24))
     (N.shiftr (N.land v 71776119061217280) 40))
     (N.shiftr (N.land v 18374686479671623680) 56))%N.

(* The operand of a swap macro is an object of an integer type T (bits wide, signed or not) holding the
   64-bit pattern v converted to T.  [operand] is its value as the 64-bit two's complement pattern the
   macro sees after the conversion to uintN_t / the usual promotions: v truncated to the width of T and
   sign- or zero-extended.  (Repaired macros: the operand is converted to uintN_t before any shift.) *)
Definition operand (bits : N) (signed : bool) (v : N) : N :=
  (let t := v mod 2 ^ bits in
   if signed && (2 ^ (bits - 1) <=? t) then t + (w64 - 2 ^ bits) else t)%N.

(* what an integer object of the given width sees when it consumes the value r of the macro *)
Definition as_int64 (r : N) : Z :=
  (if (r <? 9223372036854775808)%N then Z.of_N r else Z.of_N r - 18446744073709551616)%Z.

Local Open Scope Z_scope.

Definition zlen (s : list Z) : Z := Z.of_nat (length s).

(* ------------------------------------------------------------------ *)
(* libc pieces (assumed behaviour)                                     *)
(* ------------------------------------------------------------------ *)
(* isspace in the "C" locale *)
Definition is_space (c : Z) : bool := ((9 <=? c) && (c <=? 13)) || (c =? 32).

(* value of a digit character, 99 when it is none *)
Definition digit_val (c : Z) : Z :=
  if (48 <=? c) && (c <=? 57) then c - 48
  else if (97 <=? c) && (c <=? 122) then c - 87
  else if (65 <=? c) && (c <=? 90) then c - 55
  else 99.

Fixpoint skip_ws (s : list Z) : list Z :=
  match s with
  | c :: r => if is_space c then skip_ws r else s
  | [] => []
  end.

(* longest run of digits below base b: accumulated value and the rest *)
Fixpoint digits (b : Z) (s : list Z) (acc : Z) : Z * list Z :=
  match s with
  | c :: r => if digit_val c <? b then digits b r (acc * b + digit_val c) else (acc, s)
  | [] => (acc, [])
  end.

(* the bases the strtol family accepts *)
Definition base_ok (base : Z) : bool := (base =? 0) || ((2 <=? base) && (base <=? 36)).

(* common front end of the strtol family for an accepted base: (negative?, magnitude, end offset).
   End offset 0 = "no conversion".  "0x" not followed by a hex digit converts
   the "0" and stops at the 'x' (glibc). *)
Definition strto_core_v (base : Z) (s : list Z) : bool * Z * nat :=
  let s1 := skip_ws s in
  let c := nth 0 s1 0 in                       (* reading the terminator gives 0 *)
  let neg := c =? 45 in
  let s2 := if (c =? 45) || (c =? 43) then tl s1 else s1 in
  let pre := ((base =? 0) || (base =? 16)) && (nth 0 s2 0 =? 48)
             && ((nth 1 s2 0 =? 120) || (nth 1 s2 0 =? 88)) in
  let b := if pre then 16 else if base =? 0 then (if nth 0 s2 0 =? 48 then 8 else 10) else base in
  let s3 := if pre then skipn 2 s2 else s2 in
  let '(mag, rest) := digits b s3 0 in
  if (length rest =? length s3)%nat
  then (if pre then (false, 0, (length s - length s3 - 1)%nat) else (false, 0, 0%nat))
  else (neg, mag, (length s - length rest)%nat).

(* glibc with any other base: EINVAL, result 0, *endptr NOT written (end offset 0 stands for "endptr
   still has the value it had before the call", which the repaired wrappers never look at) *)
Definition strto_core (base : Z) (s : list Z) : bool * Z * nat :=
  if base_ok base then strto_core_v base s else (false, 0, 0%nat).

(* signed conversion with limits lo..hi : (value, end offset, ERANGE?) *)
Definition strtos (lo hi : Z) (base : Z) (s : list Z) : Z * nat * bool :=
  let '(neg, mag, e) := strto_core base s in
  let v := if neg then - mag else mag in
  if v <? lo then (lo, e, true)
  else if v >? hi then (hi, e, true)
  else (v, e, false).

(* unsigned conversion with limit umax = 2^k - 1: a '-' negates modulo 2^k *)
Definition strtou (umax : Z) (base : Z) (s : list Z) : Z * nat * bool :=
  let '(neg, mag, e) := strto_core base s in
  if mag >? umax then (umax, e, true)
  else ((if neg then (umax + 1 - mag) mod (umax + 1) else mag), e, false).

Definition LONG_MAX : Z := 9223372036854775807.
Definition LONG_MIN : Z := -9223372036854775808.
Definition ULONG_MAX : Z := 18446744073709551615.
Definition INT_MAX : Z := 2147483647.
Definition INT_MIN : Z := -2147483648.
Definition UINT_MAX : Z := 4294967295.

Definition strtol_model := strtos LONG_MIN LONG_MAX.     (* also strtoll on LP64 *)
Definition strtoul_model := strtou ULONG_MAX.            (* also strtoull *)

(* strstr: offset of the first occurrence *)
Fixpoint prefix_eq (p s : list Z) : bool :=
  match p, s with
  | [], _ => true
  | a :: p', b :: s' => (a =? b) && prefix_eq p' s'
  | _ :: _, [] => false
  end.

Fixpoint strstr (s sub : list Z) : option nat :=
  if prefix_eq sub s then Some 0%nat
  else match s with
       | [] => None
       | _ :: r => match strstr r sub with Some k => Some (S k) | None => None end
       end.

(* ------------------------------------------------------------------ *)
(* str.c                                                               *)
(* ------------------------------------------------------------------ *)
Definition startswith (s p : list Z) : bool :=
  if (length s <? length p)%nat then false
  else if negb (prefix_eq p s) then false
  else if negb (length s =? 0)%nat && (length p =? 0)%nat then false
  else true.

(* the loop compares str[len-1-i] with suffix[slen-1-i], i ascending *)
Definition endswith (s p : list Z) : bool :=
  if (length s <? length p)%nat then false
  else if negb (prefix_eq (rev p) (rev s)) then false
  else if negb (length s =? 0)%nat && (length p =? 0)%nat then false
  else true.

Fixpoint lstrip_loop (s : list Z) (idx len : Z) : Z :=
  match s with
  | c :: r => if is_space c
              then (if idx + 1 >=? len then -1 else lstrip_loop r (idx + 1) len)
              else idx
  | [] => idx                      (* str[idx] is the NUL: not a blank *)
  end.
Definition lstrip_idx (s : list Z) : Z := lstrip_loop s 0 (zlen s).

(* idx = n - 1 descending; repaired: the empty string returns -1 before str[-1] is read *)
Fixpoint rstrip_loop (s : list Z) (n : nat) : Z :=
  match n with
  | O => -1
  | S k => if is_space (nth k s 0)
           then (match k with O => -1 | S _ => rstrip_loop s k end)
           else Z.of_nat k
  end.
Definition rstrip_idx (s : list Z) : Z :=
  if (length s =? 0)%nat then -1 else rstrip_loop s (length s).

Definition norm_end (len end_ : Z) : Z :=
  let e := if end_ =? 0 then len else end_ in
  if e >? len then len else e.

Definition str_find (s sub : list Z) (start end_ : Z) : Z :=
  let len := zlen s in
  let sl := zlen sub in
  if (start <? 0) || (end_ <? 0) then -1
  else if start >=? len then -1
  else let e := norm_end len end_ in
       if e <=? start then -1
       else match strstr (skipn (Z.to_nat start) s) sub with
            | None => -1
            | Some off => let pos := start + Z.of_nat off in
                          if pos + sl >? e then -1 else pos
            end.

Fixpoint count_loop (fuel : nat) (s sub : list Z) (pos e cnt : Z) : Z :=
  match fuel with
  | O => cnt
  | S f =>
      match strstr (skipn (Z.to_nat pos) s) sub with
      | None => cnt
      | Some off =>
          let p := pos + Z.of_nat off in
          if p + zlen sub >? e then cnt
          else let cnt := cnt + 1 in
               let p := p + zlen sub in
               if p >=? e then cnt else count_loop f s sub p e cnt
      end
  end.

(* repaired: an empty [sub] returns 0 (the loop would never advance) *)
Definition str_count (s sub : list Z) (start end_ : Z) : Z :=
  let len := zlen s in
  if (start <? 0) || (end_ <? 0) then 0
  else if start >=? len then 0
  else let e := norm_end len end_ in
       if e <=? start then 0
       else if zlen sub =? 0 then 0
       else count_loop (S (length s)) s sub start e 0.

(* "*endptr != 0 => lstrip_idx(endptr) must be -1" *)
Definition tail_ok (s : list Z) (e : nat) : bool :=
  match skipn e s with
  | [] => true
  | t => lstrip_idx t =? -1
  end.

(* str[lstrip_idx(str)] == '-' (only evaluated after a successful conversion) *)
Definition has_minus (s : list Z) : bool :=
  nth (Z.to_nat (lstrip_idx s)) s 0 =? 45.

(* muggle_str_toi (repaired: range checks no longer in the else-if chain) *)
Definition toi (base : Z) (s : list Z) : option Z :=
  if negb (base_ok base) then None else               (* repaired: invalid base refused *)
  let '(ret, e, er) := strtol_model base s in
  if (e =? 0)%nat then None
  else if negb (tail_ok s e) then None
  else if ((ret =? LONG_MAX) || (ret =? LONG_MIN)) && er then None
  else if (ret >? INT_MAX) || (ret <? INT_MIN) then None
  else Some ret.

(* muggle_str_tol / muggle_str_toll (repaired: limits rejected only with ERANGE) *)
Definition tol (base : Z) (s : list Z) : option Z :=
  if negb (base_ok base) then None else               (* repaired: invalid base refused *)
  let '(ret, e, er) := strtol_model base s in
  if (e =? 0)%nat then None
  else if negb (tail_ok s e) then None
  else if ((ret =? LONG_MAX) || (ret =? LONG_MIN)) && er then None
  else Some ret.
Definition toll := tol.

(* muggle_str_tou (repaired: ERANGE / UINT_MAX check, negative numerals rejected) *)
Definition tou (base : Z) (s : list Z) : option Z :=
  if negb (base_ok base) then None else               (* repaired: invalid base refused *)
  let '(ret, e, er) := strtoul_model base s in
  if (e =? 0)%nat then None
  else if negb (tail_ok s e) then None
  else if er || (ret >? UINT_MAX) then None
  else if negb (ret =? 0) && has_minus s then None
  else Some ret.

(* muggle_str_toul / muggle_str_toull (repaired likewise) *)
Definition toul (base : Z) (s : list Z) : option Z :=
  if negb (base_ok base) then None else               (* repaired: invalid base refused *)
  let '(ret, e, er) := strtoul_model base s in
  if (e =? 0)%nat then None
  else if negb (tail_ok s e) then None
  else if (ret =? ULONG_MAX) && er then None
  else if negb (ret =? 0) && has_minus s then None
  else Some ret.
Definition toull := toul.

(* muggle_str_tof/tod/told: wrapper logic over an abstract libc result
   (consumed characters, ERANGE?)  (repaired: EVERY range error the strtod family reports is a failure -
   overflow to an infinity, underflow to zero, and a subnormal result that lost precision; checked also
   after trailing blanks and for negative values) *)
Definition tofloat (s : list Z) (consumed : nat) (er : bool) : bool :=
  if (consumed =? 0)%nat then false
  else if negb (tail_ok s consumed) then false
  else if er then false
  else true.

(* ---- NULL arguments (str.c checks them first): None = a NULL pointer ---- *)
Definition startswith_c (s p : option (list Z)) : bool :=
  match s, p with Some s, Some p => startswith s p | _, _ => false end.
Definition endswith_c (s p : option (list Z)) : bool :=
  match s, p with Some s, Some p => endswith s p | _, _ => false end.
Definition lstrip_idx_c (s : option (list Z)) : Z :=
  match s with Some s => lstrip_idx s | None => -1 end.
Definition rstrip_idx_c (s : option (list Z)) : Z :=
  match s with Some s => rstrip_idx s | None => -1 end.
Definition str_find_c (s sub : option (list Z)) (start end_ : Z) : Z :=
  match s, sub with Some s, Some sub => str_find s sub start end_ | _, _ => -1 end.
Definition str_count_c (s sub : option (list Z)) (start end_ : Z) : Z :=
  match s, sub with Some s, Some sub => str_count s sub start end_ | _, _ => 0 end.
(* the parsers: str == NULL || pval == NULL -> 0 *)
Definition parse_c {A} (f : list Z -> option A) (s : option (list Z)) (pval_null : bool) : option A :=
  match s with Some s => if pval_null then None else f s | None => None end.

(* ------------------------------------------------------------------ *)
(* hex.c                                                               *)
(* ------------------------------------------------------------------ *)
Definition hex_to_byte (c : Z) : Z :=
  if (48 <=? c) && (c <=? 57) then (c - 48) mod 256
  else if (65 <=? c) && (c <=? 70) then (c - 65 + 10) mod 256
  else if (97 <=? c) && (c <=? 102) then (c - 97 + 10) mod 256
  else (-1) mod 256.

(* n = hex_len / 2 pairs; None = return -1; the caller guarantees 2n characters *)
Fixpoint hex_to_bytes (hex : list Z) (n : nat) : option (list Z) :=
  match n with
  | O => Some []
  | S k =>
      match hex with
      | h :: l :: r =>
          let hv := hex_to_byte h in
          let lv := hex_to_byte l in
          if (hv =? 255) || (lv =? 255) then None
          else match hex_to_bytes r k with
               | Some out => Some ((Z.lor (Z.shiftl hv 4) lv) mod 256 :: out)
               | None => None
               end
      | _ => None
      end
  end.

(* s_hex[b][0], s_hex[b][1]: the table rows are the two upper-case hex digits of b *)
Definition hex_digit (n : Z) : Z := if n <? 10 then 48 + n else 55 + n.
Fixpoint hex_from_bytes (b : list Z) : list Z :=
  match b with
  | [] => []
  | x :: r => hex_digit (x / 16) :: hex_digit (x mod 16) :: hex_from_bytes r
  end.

(* ------------------------------------------------------------------ *)
(* output buffers                                                      *)
(* ------------------------------------------------------------------ *)
Record buf := mkbuf { cells : list Z; oob : bool }.
Definition bsize (m : buf) : Z := zlen (cells m).

Fixpoint upd (i : nat) (x : Z) (l : list Z) : list Z :=
  match l, i with
  | [], _ => []
  | _ :: r, O => x :: r
  | a :: r, S j => a :: upd j x r
  end.

Definition inb (i : Z) (m : buf) : bool := (0 <=? i) && (i <? bsize m).
Definition wr (i x : Z) (m : buf) : buf :=
  if inb i m then mkbuf (upd (Z.to_nat i) x (cells m)) (oob m) else mkbuf (cells m) true.
(* a read of cell i: flags oob when outside *)
Definition rdchk (i : Z) (m : buf) : buf :=
  if inb i m then m else mkbuf (cells m) true.
Definition get (i : Z) (m : buf) : Z := nth (Z.to_nat i) (cells m) 0.

Fixpoint wr_list (off : Z) (l : list Z) (m : buf) : buf :=
  match l with
  | [] => m
  | x :: r => wr_list (off + 1) r (wr off x m)
  end.

(* strncpy(ret + off, src, n): exactly n bytes, NUL padded *)
Definition strncpy_to (m : buf) (off : Z) (src : list Z) (n : nat) : buf :=
  wr_list off (firstn n (src ++ repeat 0 n)) m.

(* the C string held by a cell list: bytes before the first NUL *)
Fixpoint cstr (l : list Z) : list Z :=
  match l with
  | [] => []
  | c :: r => if c =? 0 then [] else c :: cstr r
  end.
Definition has_nul (l : list Z) : bool := existsb (fun c => c =? 0) l.
(* strlen(ret): scanning past the end when there is no NUL *)
Definition scan_nul (m : buf) : buf :=
  if has_nul (cells m) then m else mkbuf (cells m) true.

(* ------------------------------------------------------------------ *)
(* path.c                                                              *)
(* ------------------------------------------------------------------ *)
Definition EINVAL : Z := 6.          (* MUGGLE_ERR_INVALID_PARAM *)
Definition MAX_PATH : Z := 1024.     (* MUGGLE_MAX_PATH *)
Definition is_sep (c : Z) : bool := (c =? 47) || (c =? 92).
Definition is_alpha (c : Z) : bool := ((97 <=? c) && (c <=? 122)) || ((65 <=? c) && (c <=? 90)).

Definition isabs (p : list Z) : bool :=
  let len := zlen p in
  if (1 <? len) && (nth 0 p 0 =? 47) then true
  else if (2 <? len) && is_alpha (nth 0 p 0) && (nth 1 p 0 =? 58) && is_sep (nth 2 p 0) then true
  else false.

(* index of the last separator, -1 when there is none (the C loop scans down) *)
Fixpoint last_sep_from (p : list Z) (i acc : Z) : Z :=
  match p with
  | [] => acc
  | c :: r => last_sep_from r (i + 1) (if is_sep c then i else acc)
  end.
Definition last_sep (p : list Z) : Z := last_sep_from p 0 (-1).

Definition basename (p : list Z) (size : Z) (m : buf) : Z * buf :=
  if size <=? 1 then (EINVAL, m)
  else
    let total := zlen p in
    if total <=? 0 then (EINVAL, m)
    else
      let pos := last_sep p in
      if pos <? 0 then
        if total >? size - 1 then (EINVAL, m)
        else
          let m := strncpy_to m 0 p (Z.to_nat (size - 1)) in
          let m := wr (size - 1) 0 m in            (* repaired *)
          (0, m)
      else
        let len := total - 1 - pos in
        if len <=? 0 then (EINVAL, m)
        else if len >=? size then (EINVAL, m)      (* repaired: no silent truncation *)
        else
          let m := wr_list 0 (firstn (Z.to_nat len) (skipn (Z.to_nat (pos + 1)) p)) m in
          let m := wr len 0 m in
          (0, m).

Definition dirname (p : list Z) (size : Z) (m : buf) : Z * buf :=
  if size <=? 1 then (EINVAL, m)
  else
    let total := zlen p in
    if total <=? 0 then (EINVAL, m)
    else
      let pos := last_sep p in
      if pos <? 0 then (EINVAL, m)
      else
        let pos := if pos =? 0 then 1 else pos in
        let pos := if (pos - 1 >? 0) && (nth (Z.to_nat (pos - 1)) p 0 =? 58) then pos + 1 else pos in
        if pos >=? size then (EINVAL, m)
        else
          let m := wr_list 0 (firstn (Z.to_nat pos) p) m in
          let m := wr pos 0 m in
          (0, m).

Definition join (p1 p2 : list Z) (size : Z) (m : buf) : Z * buf :=
  if size <=? 1 then (EINVAL, m)                     (* repaired: size 0 no longer wraps *)
  else
    let max_len := size - 1 in
    let l1 := zlen p1 in
    let l2 := zlen p2 in
    if (l1 <=? 0) || (l2 <=? 0) then (EINVAL, m)
    else if l1 >? max_len then (EINVAL, m)
    else
      let m := strncpy_to m 0 p1 (Z.to_nat max_len) in
      let m := wr l1 0 m in                          (* repaired: terminated before strlen *)
      let m := scan_nul m in                         (* endswith(ret, ..) calls strlen(ret) *)
      let r := cstr (cells m) in
      let ends := endswith r [47] || endswith r [92] in
      if negb ends && (l1 >=? size) then (EINVAL, m)
      else
        let m := if ends then m else wr l1 47 m in
        let pos := if ends then l1 else l1 + 1 in
        let l1 := pos in
        if (nth 0 p2 0 =? 47) && (l2 =? 1) then (EINVAL, m)
        else
          let p := if nth 0 p2 0 =? 47 then tl p2 else p2 in
          let l2 := if nth 0 p2 0 =? 47 then l2 - 1 else l2 in
          if l1 + l2 >? max_len then (EINVAL, m)
          else
            let m := strncpy_to m pos p (Z.to_nat l2) in
            let m := wr (l1 + l2) 0 m in
            (0, m).

(* the ".." branch of normpath at output position pos, c2 = the character after
   the two dots (0 at the end of the string).  None = error return. *)
Definition np_dotdot (pos : Z) (c2 : Z) (m : buf) : option (Z * buf) :=
  let app :=
    let m := wr pos 46 m in
    let m := wr (pos + 1) 46 m in
    if c2 =? 0 then Some (pos + 2, m)                 (* repaired: the NUL is not copied *)
    else Some (pos + 3, wr (pos + 2) c2 m) in
  if pos =? 0 then app
  else
    let m1 := if pos >=? 3 then rdchk (pos - 1) (rdchk (pos - 2) (rdchk (pos - 3) m)) else m in
    if (pos >=? 3) && (get (pos - 3) m =? 46) && (get (pos - 2) m =? 46) && is_sep (get (pos - 1) m)
    then (let m := m1 in
          let m := wr pos 46 m in
          let m := wr (pos + 1) 46 m in
          if c2 =? 0 then Some (pos + 2, m) else Some (pos + 3, wr (pos + 2) c2 m))
    else
      let m := rdchk (pos - 1) m1 in
      if negb (is_sep (get (pos - 1) m)) then None
      else
        let pos := pos - 2 in
        if pos <? 0 then None
        else
          (* i from pos downwards to the previous separator; new pos = i + 1 *)
          let m := rdchk pos m in
          let i := last_sep (firstn (Z.to_nat (pos + 1)) (cells m)) in
          Some (i + 1, m).

Definition np_finish (size pos : Z) (m : buf) : Z * buf :=
  if pos =? 0 then
    if size <=? 2 then (EINVAL, m)
    else (0, wr 2 0 (wr 1 47 (wr 0 46 m)))
  else (0, wr pos 0 m).

Fixpoint np_loop (size : Z) (cur : list Z) (pos : Z) (m : buf) {struct cur} : Z * buf :=
  match cur with
  | [] => np_finish size pos m
  | c0 :: t0 =>
      if (c0 =? 46) && (nth 0 t0 0 =? 46) then
        match t0 with
        | [] => (EINVAL, m)                            (* unreachable *)
        | _ :: t1 =>
            let c2 := nth 0 t1 0 in
            if negb (c2 =? 0) && negb (is_sep c2) then (EINVAL, m)
            else match np_dotdot pos c2 m with
                 | None => (EINVAL, m)
                 | Some (pos', m') =>
                     match t1 with
                     | [] => np_finish size pos' m'
                     | _ :: t2 => np_loop size t2 pos' m'
                     end
                 end
        end
      else np_loop size t0 (pos + 1) (wr pos c0 m)
  end.

Definition normpath (p : list Z) (size : Z) (m : buf) : Z * buf :=
  if zlen p >=? size then (EINVAL, m)
  else
    let cur := if negb (isabs p) && (startswith p [46; 47] || startswith p [46; 92])
               then skipn 2 p else p in
    np_loop size cur 0 m.

(* cwd = what muggle_os_curdir returned (a parameter); junk = the initial content
   of the 1024-byte stack buffer full_path.  [abspath_with J] is the function with the call of
   muggle_path_join abstracted as J; [abspath] is its instance with the model's join (the model driver passes a
   memoising wrapper of the same extracted function, so that the 1024-cell join is computed once per
   (cwd, path) and not once per output size). *)
Definition abspath_with (J : list Z -> list Z -> Z -> buf -> Z * buf)
                        (cwd p : list Z) (size : Z) (junk : list Z) (m : buf) : Z * buf :=
  if size <=? 1 then (EINVAL, m)
  else if isabs p then
    if zlen p >? size - 1 then (EINVAL, m)
    else
      let m := strncpy_to m 0 p (Z.to_nat (size - 1)) in
      let m := wr (size - 1) 0 m in                  (* repaired *)
      (0, m)
  else
    let '(r, fb) := J cwd p MAX_PATH (mkbuf junk false) in
    if negb (r =? 0) then (r, mkbuf (cells m) (oob m || oob fb))
    else
      let '(r2, m2) := normpath (cstr (cells fb)) size m in
      (r2, mkbuf (cells m2) (oob m2 || oob fb)).

Definition abspath (cwd p : list Z) (size : Z) (junk : list Z) (m : buf) : Z * buf :=
  abspath_with join cwd p size junk m.
