(* C20 — numeric parsers: the wrappers succeed with value v iff the string is a single
   well-formed numeral (surrounding blanks allowed) whose value v lies in the target type's
   range.  Relative to the Gallina strtol-family model (Model.strto_core/strtos/strtou). *)
From MV Require Import C20.Model C20.ProofsStr.
Local Open Scope Z_scope.

(* ---------- reference: what a well-formed numeral is ---------- *)
Definition isdig (b c : Z) : Prop := (digit_val c <? b) = true.

(* Horner value of a digit string *)
Fixpoint dval (b : Z) (ds : list Z) (acc : Z) : Z :=
  match ds with [] => acc | c :: r => dval b r (acc * b + digit_val c) end.

Definition valid_base (base : Z) : Prop := base = 0 \/ 2 <= base <= 36.

Lemma base_ok_spec base : base_ok base = true <-> valid_base base.
Proof.
  unfold base_ok, valid_base. rewrite orb_true_iff, andb_true_iff, Z.eqb_eq, !Z.leb_le. tauto.
Qed.

Lemma strto_core_valid base s : valid_base base -> strto_core base s = strto_core_v base s.
Proof. intro H. unfold strto_core. rewrite (proj2 (base_ok_spec base) H). reflexivity. Qed.

(* any other base: glibc converts nothing (and does not write endptr) *)
Lemma strto_core_invalid base s : ~ valid_base base -> strto_core base s = (false, 0, 0%nat).
Proof.
  intro H. unfold strto_core. destruct (base_ok base) eqn:E; [|reflexivity].
  exfalso. apply H, base_ok_spec, E.
Qed.

(* the unsigned body of a numeral in [base] and its magnitude *)
Inductive numeral (base : Z) : list Z -> Z -> Prop :=
| num_plain : forall ds b,
    (base <> 0 -> b = base) ->
    (base = 0 -> (nth 0 ds 0 = 48 -> b = 8) /\ (nth 0 ds 0 <> 48 -> b = 10)) ->
    ds <> [] -> Forall (isdig b) ds ->
    numeral base ds (dval b ds 0)
| num_hex : forall x ds,
    base = 0 \/ base = 16 -> x = 120 \/ x = 88 ->
    ds <> [] -> Forall (isdig 16) ds ->
    numeral base (48 :: x :: ds) (dval 16 ds 0).

Definition sign_of (sg : list Z) (neg : bool) : Prop :=
  (sg = [] /\ neg = false) \/ (sg = [43] /\ neg = false) \/ (sg = [45] /\ neg = true).

(* blanks, optional sign, numeral, blanks; v is the signed value *)
Definition well_formed (base : Z) (s : list Z) (v : Z) : Prop :=
  exists ws1 sg body ws2 neg mag,
    s = ws1 ++ sg ++ body ++ ws2 /\ Forall blank ws1 /\ Forall blank ws2 /\
    sign_of sg neg /\ numeral base body mag /\ v = (if neg then - mag else mag).

(* ---------- character facts ---------- *)
Lemma blank_not_digit c b : is_space c = true -> b <= 36 -> (digit_val c <? b) = false.
Proof.
  unfold is_space, digit_val. intros H Hb.
  apply orb_true_iff in H.
  destruct ((48 <=? c) && (c <=? 57)) eqn:A; [breflect; destruct H; breflect; lia|].
  destruct ((97 <=? c) && (c <=? 122)) eqn:B; [breflect; destruct H; breflect; lia|].
  destruct ((65 <=? c) && (c <=? 90)) eqn:C; [breflect; destruct H; breflect; lia|].
  apply Z.ltb_ge. lia.
Qed.

Lemma digit_not_blank c b : b <= 36 -> isdig b c -> is_space c = false.
Proof.
  intros Hb H. destruct (is_space c) eqn:E; [|reflexivity].
  unfold isdig in H. rewrite (blank_not_digit c b E Hb) in H. discriminate.
Qed.

Lemma digit_val_range c : 0 <= digit_val c.
Proof.
  unfold digit_val.
  destruct ((48 <=? c) && (c <=? 57)) eqn:A; [breflect; lia|].
  destruct ((97 <=? c) && (c <=? 122)) eqn:B; [breflect; lia|].
  destruct ((65 <=? c) && (c <=? 90)) eqn:C; [breflect; lia|]. lia.
Qed.

Lemma digit_chars b c : b <= 36 -> isdig b c -> c <> 45 /\ c <> 43 /\ c <> 0.
Proof.
  intros Hb H. unfold isdig in H. apply Z.ltb_lt in H.
  repeat split; intro; subst c;
    [change (digit_val 45) with 99 in H|change (digit_val 43) with 99 in H|change (digit_val 0) with 99 in H]; lia.
Qed.

Lemma x_not_digit b x : b <= 16 \/ b = 8 \/ b = 10 -> x = 120 \/ x = 88 -> (digit_val x <? b) = false.
Proof.
  intros Hb [->| ->]; [change (digit_val 120) with 33|change (digit_val 88) with 33]; apply Z.ltb_ge; lia.
Qed.

Lemma x_not_blank x : x = 120 \/ x = 88 -> is_space x = false.
Proof. intros [->| ->]; reflexivity. Qed.

(* ---------- skip_ws and digits ---------- *)
Lemma skip_ws_eq s : exists ws, s = ws ++ skip_ws s /\ Forall blank ws /\ is_space (nth 0 (skip_ws s) 0) = false.
Proof.
  induction s as [|c s IH]; cbn [skip_ws].
  - exists []. split; [reflexivity|split; [constructor|reflexivity]].
  - destruct (is_space c) eqn:E.
    + destruct IH as (ws & H1 & H2 & H3). exists (c :: ws). split; [cbn [app]; f_equal; exact H1|].
      split; [constructor; assumption|exact H3].
    + exists []. split; [reflexivity|split; [constructor|exact E]].
Qed.

Lemma skip_ws_app ws r : Forall blank ws -> is_space (nth 0 r 0) = false -> skip_ws (ws ++ r) = r.
Proof.
  intros Hws Hr. induction Hws as [|c ws Hc _ IH]; cbn [app skip_ws].
  - destruct r as [|c r]; [reflexivity|]. cbn [skip_ws]. cbn [nth] in Hr. rewrite Hr. reflexivity.
  - rewrite Hc. exact IH.
Qed.

Lemma digits_eq b : forall s acc, b <= 36 ->
  exists ds, s = ds ++ snd (digits b s acc) /\ Forall (isdig b) ds /\
             fst (digits b s acc) = dval b ds acc /\
             (digit_val (nth 0 (snd (digits b s acc)) 0) <? b) = false.
Proof.
  induction s as [|c s IH]; intros acc Hb; cbn [digits].
  - exists []. split; [reflexivity|]. split; [constructor|]. split; [reflexivity|].
    cbn. apply Z.ltb_ge. lia.
  - destruct (digit_val c <? b) eqn:E.
    + destruct (IH (acc * b + digit_val c) Hb) as (ds & H1 & H2 & H3 & H4).
      exists (c :: ds). split; [cbn [app]; f_equal; exact H1|].
      split; [constructor; assumption|]. split; [exact H3|exact H4].
    + exists []. split; [reflexivity|]. split; [constructor|]. split; [reflexivity|exact E].
Qed.

Lemma digits_app b ds : forall rest acc, Forall (isdig b) ds ->
  (digit_val (nth 0 rest 0) <? b) = false ->
  digits b (ds ++ rest) acc = (dval b ds acc, rest).
Proof.
  induction ds as [|c ds IH]; intros rest acc Hd Hr; cbn [app digits dval].
  - destruct rest as [|c r]; [reflexivity|]. cbn [digits]. cbn [nth] in Hr. rewrite Hr. reflexivity.
  - inversion Hd; subst. unfold isdig in H1. rewrite H1. apply IH; assumption.
Qed.

Lemma dval_nonneg b ds : forall acc, 0 <= b -> 0 <= acc -> 0 <= dval b ds acc.
Proof.
  induction ds as [|c ds IH]; intros acc Hb Ha; cbn [dval]; [exact Ha|].
  apply IH; [exact Hb|]. pose proof (digit_val_range c). nia.
Qed.

(* ---------- strto_core: complete and sound for well-formed prefixes ---------- *)
Lemma numeral_head base body mag : valid_base base -> numeral base body mag ->
  body <> [] /\ is_space (nth 0 body 0) = false /\ nth 0 body 0 <> 45 /\ nth 0 body 0 <> 43 /\ 0 <= mag.
Proof.
  intros Hb H. destruct H as [ds b Hb1 Hb2 Hne Hd | x ds Hb1 Hx Hne Hd].
  - assert (B : 0 <= b <= 36).
    { destruct (Z.eq_dec base 0) as [E|NE].
      - destruct (Hb2 E) as [P Q]. destruct (Z.eq_dec (nth 0 ds 0) 48); [rewrite P by assumption|rewrite Q by assumption]; lia.
      - rewrite (Hb1 NE). destruct Hb; lia. }
    destruct ds as [|c ds]; [congruence|]. inversion Hd; subst. cbn [nth].
    split; [discriminate|]. split; [apply (digit_not_blank c b); [lia|assumption]|].
    destruct (digit_chars b c ltac:(lia) H1) as (P & Q & _).
    split; [exact P|]. split; [exact Q|]. apply dval_nonneg; lia.
  - cbn [nth]. split; [discriminate|]. split; [reflexivity|]. split; [lia|]. split; [lia|].
    apply dval_nonneg; lia.
Qed.

Lemma core_complete base ws1 sg body ws2 neg mag :
  valid_base base -> Forall blank ws1 -> Forall blank ws2 -> sign_of sg neg -> numeral base body mag ->
  strto_core base (ws1 ++ sg ++ body ++ ws2) = (neg, mag, length (ws1 ++ sg ++ body)).
Proof.
  intros Hb H1 H2 Hs Hn.
  destruct (numeral_head base body mag Hb Hn) as (Bne & Bsp & B45 & B43 & Bmag).
  rewrite (strto_core_valid base _ Hb). unfold strto_core_v. cbv zeta.
  assert (Hhd : is_space (nth 0 (sg ++ body ++ ws2) 0) = false).
  { destruct Hs as [[-> _]|[[-> _]|[-> _]]]; cbn [app nth]; try reflexivity.
    destruct body; [congruence|]. exact Bsp. }
  rewrite (skip_ws_app ws1 _ H1 Hhd).
  (* the sign *)
  assert (S2 : (nth 0 (sg ++ body ++ ws2) 0 =? 45) = neg /\
               (if (nth 0 (sg ++ body ++ ws2) 0 =? 45) || (nth 0 (sg ++ body ++ ws2) 0 =? 43)
                then tl (sg ++ body ++ ws2) else sg ++ body ++ ws2) = body ++ ws2).
  { destruct Hs as [[-> ->]|[[-> ->]|[-> ->]]]; cbn [app nth tl]; try (split; reflexivity).
    destruct body as [|c body]; [congruence|]. cbn [app nth] in *.
    apply Z.eqb_neq in B45. apply Z.eqb_neq in B43. rewrite B45, B43. split; reflexivity. }
  destruct S2 as [S2a S2b]. rewrite S2b, S2a. clear S2a S2b Hhd.
  assert (Wd : forall b, b <= 36 -> (digit_val (nth 0 ws2 0) <? b) = false).
  { intros b Hb36. destruct ws2 as [|w ws2]; [cbn; apply Z.ltb_ge; lia|].
    inversion H2; subst. cbn [nth]. apply blank_not_digit; assumption. }
  assert (Len : forall rest, (length (ws1 ++ sg ++ body ++ rest) - length rest)%nat = length (ws1 ++ sg ++ body)).
  { intro rest. rewrite !app_length. lia. }
  destruct Hn as [ds b Hb1 Hb2 Hne Hd | x ds Hb1 Hx Hne Hd].
  - (* plain digits *)
    assert (B : 2 <= b <= 36).
    { destruct (Z.eq_dec base 0) as [E|NE].
      - destruct (Hb2 E) as [P Q]. destruct (Z.eq_dec (nth 0 ds 0) 48); [rewrite P by assumption|rewrite Q by assumption]; lia.
      - rewrite (Hb1 NE). destruct Hb; lia. }
    destruct ds as [|c ds]; [congruence|]. cbn [app nth].
    assert (Pre : ((base =? 0) || (base =? 16)) && (c =? 48) && ((nth 0 (ds ++ ws2) 0 =? 120) || (nth 0 (ds ++ ws2) 0 =? 88)) = false).
    { destruct ((base =? 0) || (base =? 16)) eqn:E16; [|reflexivity].
      destruct (c =? 48) eqn:E48; [|reflexivity]. cbn [andb nth].
      assert (Hx : (digit_val (nth 0 (ds ++ ws2) 0) <? b) = true \/ is_space (nth 0 (ds ++ ws2) 0) = true \/ nth 0 (ds ++ ws2) 0 = 0).
      { destruct ds as [|d ds]; cbn [app nth].
        - destruct ws2 as [|w ws2]; [right; right; reflexivity|]. inversion H2; subst. right; left. assumption.
        - inversion Hd; subst. inversion H4; subst. left. assumption. }
      assert (b <= 16).
      { apply orb_true_iff in E16. breflect. destruct E16 as [E0|E16]; breflect.
        - destruct (Hb2 E0) as [P _]. cbn [nth] in P. rewrite P by assumption. lia.
        - rewrite Hb1 by lia. lia. }
      destruct (nth 0 (ds ++ ws2) 0 =? 120) eqn:X1.
      { breflect. rewrite X1 in Hx. destruct Hx as [Hx|[Hx|Hx]]; [|discriminate|discriminate].
        change (digit_val 120) with 33 in Hx. breflect. lia. }
      destruct (nth 0 (ds ++ ws2) 0 =? 88) eqn:X2; [|reflexivity].
      breflect. rewrite X2 in Hx. destruct Hx as [Hx|[Hx|Hx]]; [|discriminate|discriminate].
      change (digit_val 88) with 33 in Hx. breflect. lia. }
    rewrite Pre.
    assert (Eb : (if base =? 0 then if c =? 48 then 8 else 10 else base) = b).
    { destruct (base =? 0) eqn:E0; breflect.
      - destruct (Hb2 E0) as [P Q]. cbn [nth] in P, Q.
        destruct (c =? 48) eqn:E48; breflect; [symmetry; apply P; assumption|symmetry; apply Q; assumption].
      - symmetry. apply Hb1. assumption. }
    rewrite Eb.
    change (c :: ds ++ ws2) with ((c :: ds) ++ ws2).
    rewrite (digits_app b (c :: ds) ws2 0 Hd (Wd b ltac:(lia))).
    assert (L : (length ws2 =? length ((c :: ds) ++ ws2))%nat = false).
    { apply Nat.eqb_neq. rewrite app_length. cbn [length]. lia. }
    rewrite L, Len. reflexivity.
  - (* 0x prefix *)
    cbn [app nth].
    assert (Pre : ((base =? 0) || (base =? 16)) && (48 =? 48) && ((x =? 120) || (x =? 88)) = true).
    { apply andb_true_iff. split; [apply andb_true_iff; split; [|reflexivity]|].
      - apply orb_true_iff. destruct Hb1 as [->| ->]; [left|right]; reflexivity.
      - apply orb_true_iff. destruct Hx as [->| ->]; [left|right]; reflexivity. }
    rewrite Pre. cbn [skipn].
    rewrite (digits_app 16 ds ws2 0 Hd (Wd 16 ltac:(lia))).
    assert (L : (length ws2 =? length (ds ++ ws2))%nat = false).
    { apply Nat.eqb_neq. rewrite app_length. destruct ds; [congruence|]. cbn [length]. lia. }
    rewrite L.
    change (48 :: x :: ds ++ ws2) with ((48 :: x :: ds) ++ ws2). rewrite Len. reflexivity.
Qed.

Lemma skipn_app_len {A} (a b : list A) : skipn (length a) (a ++ b) = b.
Proof. induction a; cbn; auto. Qed.

Lemma pre_split base s2 :
  let pre := ((base =? 0) || (base =? 16)) && (nth 0 s2 0 =? 48) && ((nth 1 s2 0 =? 120) || (nth 1 s2 0 =? 88)) in
  exists px, s2 = px ++ (if pre then skipn 2 s2 else s2) /\ (pre = false -> px = []) /\
     (pre = true -> exists x, px = [48; x] /\ (x = 120 \/ x = 88) /\ (base = 0 \/ base = 16)).
Proof.
  cbv zeta.
  destruct (((base =? 0) || (base =? 16)) && (nth 0 s2 0 =? 48) && ((nth 1 s2 0 =? 120) || (nth 1 s2 0 =? 88))) eqn:Ep.
  - apply andb_true_iff in Ep. destruct Ep as [Ep Ex]. apply andb_true_iff in Ep. destruct Ep as [Eb E48].
    apply Z.eqb_eq in E48.
    assert (Hx : nth 1 s2 0 = 120 \/ nth 1 s2 0 = 88)
      by (apply orb_true_iff in Ex; destruct Ex as [X|X]; apply Z.eqb_eq in X; auto).
    assert (Hbb : base = 0 \/ base = 16)
      by (apply orb_true_iff in Eb; destruct Eb as [X|X]; apply Z.eqb_eq in X; auto).
    destruct s2 as [|z0 [|z1 r]]; cbn [nth] in *.
    + lia.
    + destruct Hx; lia.
    + subst z0. exists [48; z1]. split; [reflexivity|]. split; [discriminate|]. intros _. exists z1. auto.
  - exists []. split; [reflexivity|]. split; [reflexivity|discriminate].
Qed.

Lemma core_sound base s neg mag e :
  valid_base base -> strto_core base s = (neg, mag, e) -> e <> 0%nat -> Forall blank (skipn e s) ->
  exists ws1 sg body, s = ws1 ++ sg ++ body ++ skipn e s /\ Forall blank ws1 /\
                      sign_of sg neg /\ numeral base body mag.
Proof.
  intros Hb H He Ht. rewrite (strto_core_valid base s Hb) in H. unfold strto_core_v in H.
  destruct (skip_ws_eq s) as (ws1 & Es & Hws1 & Hc).
  set (s1 := skip_ws s) in *. set (c := nth 0 s1 0) in *.
  (* the sign split *)
  assert (Sg : exists sg, s1 = sg ++ (if (c =? 45) || (c =? 43) then tl s1 else s1) /\ sign_of sg (c =? 45)).
  { destruct (c =? 45) eqn:E45; cbn [orb].
    - breflect. destruct s1 as [|c' r]; [subst c; cbn in E45; lia|]. subst c. cbn [nth] in E45. subst c'.
      exists [45]. split; [reflexivity|]. right; right. split; reflexivity.
    - destruct (c =? 43) eqn:E43.
      + breflect. destruct s1 as [|c' r]; [subst c; cbn in E43; lia|]. subst c. cbn [nth] in E43. subst c'.
        exists [43]. split; [reflexivity|]. right; left. split; reflexivity.
      + exists []. split; [reflexivity|]. left. split; reflexivity. }
  destruct Sg as (sg & Es1 & Hsg).
  set (s2 := if (c =? 45) || (c =? 43) then tl s1 else s1) in *.
  set (pre := ((base =? 0) || (base =? 16)) && (nth 0 s2 0 =? 48) && ((nth 1 s2 0 =? 120) || (nth 1 s2 0 =? 88))) in *.
  set (b := if pre then 16 else if base =? 0 then if nth 0 s2 0 =? 48 then 8 else 10 else base) in *.
  set (s3 := if pre then skipn 2 s2 else s2) in *.
  assert (B : 2 <= b <= 36).
  { subst b. destruct pre; [lia|]. destruct (base =? 0) eqn:E0; [destruct (nth 0 s2 0 =? 48); lia|].
    breflect. destruct Hb; lia. }
  destruct (digits_eq b s3 0 ltac:(lia)) as (ds & Ed & Hd & Hv & Hstop).
  destruct (digits b s3 0) as [mag' rest] eqn:Dg. cbn [fst snd] in *.
  (* s2 = prefix ++ s3 *)
  assert (P3 : exists px, s2 = px ++ s3 /\ (pre = false -> px = []) /\
                          (pre = true -> exists x, px = [48; x] /\ (x = 120 \/ x = 88) /\ (base = 0 \/ base = 16))).
  { exact (pre_split base s2). }
  destruct P3 as (px & E2 & Px0 & Px1).
  assert (Bdef : b = if pre then 16 else if base =? 0 then (if nth 0 s2 0 =? 48 then 8 else 10) else base) by reflexivity.
  clearbody b s3 pre. clearbody s2. clearbody c. clearbody s1.
  assert (Stot : s = ws1 ++ sg ++ px ++ ds ++ rest).
  { rewrite Es at 1. f_equal. rewrite Es1 at 1. f_equal. rewrite E2 at 1. f_equal. exact Ed. }
  destruct (length rest =? length s3)%nat eqn:L.
  - (* no digits *)
    apply Nat.eqb_eq in L. assert (ds = []).
    { apply (f_equal (@length Z)) in Ed. rewrite app_length in Ed. destruct ds; [reflexivity|cbn [length] in Ed; lia]. }
    subst ds. cbn [app] in *.
    destruct pre eqn:Ep.
    + exfalso. destruct (Px1 eq_refl) as (x & -> & Hx & _).
      injection H as Hn Hm Hee. subst e.
      assert (Sk : skipn (length s - length s3 - 1) s = x :: s3).
      { rewrite Stot. rewrite <- Ed.
        replace (Nat.sub (Nat.sub (length (ws1 ++ sg ++ [48; x] ++ s3)) (length s3)) 1%nat) with (length (ws1 ++ sg ++ [48])).
        - replace (ws1 ++ sg ++ [48; x] ++ s3) with ((ws1 ++ sg ++ [48]) ++ x :: s3) by (rewrite <- !app_assoc; reflexivity).
          apply skipn_app_len.
        - rewrite !app_length. cbn [length]. lia. }
      rewrite Sk in Ht. inversion Ht; subst. unfold blank in H1. rewrite (x_not_blank x Hx) in H1. discriminate.
    + injection H as Hn Hm Hee. congruence.
  - (* digits present *)
    apply Nat.eqb_neq in L. injection H as Hn Hm Hee. subst neg mag e.
    assert (Sk : skipn (length s - length rest) s = rest).
    { rewrite Stot at 2.
      replace (length s - length rest)%nat with (length (ws1 ++ sg ++ px ++ ds)).
      - replace (ws1 ++ sg ++ px ++ ds ++ rest) with ((ws1 ++ sg ++ px ++ ds) ++ rest) by (rewrite <- !app_assoc; reflexivity).
        apply skipn_app_len.
      - rewrite Stot. rewrite !app_length. lia. }
    rewrite Sk in *.
    assert (Dne : ds <> []).
    { intro. subst ds. cbn [app] in Ed. apply L. rewrite Ed. reflexivity. }
    exists ws1, sg, (px ++ ds). split; [rewrite <- !app_assoc; exact Stot|]. split; [exact Hws1|]. split; [exact Hsg|].
    destruct pre eqn:Ep.
    + destruct (Px1 eq_refl) as (x & -> & Hx & Hb16). subst b. rewrite Hv. cbn [app].
      apply num_hex; assumption.
    + rewrite (Px0 eq_refl). cbn [app]. rewrite Hv.
      assert (Hh : nth 0 s2 0 = nth 0 ds 0).
      { rewrite E2, (Px0 eq_refl), Ed. cbn [app]. destruct ds; [congruence|reflexivity]. }
      apply num_plain; try assumption.
      * intro NE. rewrite Bdef. apply Z.eqb_neq in NE. rewrite NE. reflexivity.
      * intro E0. rewrite Bdef, E0, Hh. cbn [Z.eqb].
        split; intro Q; [apply Z.eqb_eq in Q|apply Z.eqb_neq in Q]; rewrite Q; reflexivity.
Qed.

(* ---------- signed wrappers ---------- *)
Lemma tail_of_wf (ws1 sg body ws2 : list Z) : skipn (length (ws1 ++ sg ++ body)) (ws1 ++ sg ++ body ++ ws2) = ws2.
Proof.
  replace (ws1 ++ sg ++ body ++ ws2) with ((ws1 ++ sg ++ body) ++ ws2) by (rewrite <- !app_assoc; reflexivity).
  apply skipn_app_len.
Qed.

Lemma wf_len_pos base ws1 sg body mag : valid_base base -> numeral base body mag ->
  length (ws1 ++ sg ++ body) <> 0%nat.
Proof.
  intros Hb Hn. destruct (numeral_head _ _ _ Hb Hn) as (Bne & _). rewrite !app_length.
  destruct body; [congruence|]. cbn [length]. lia.
Qed.

(* generic signed wrapper: limits lo..hi of strtol, accepted range rlo..rhi within them *)
Definition signed_wrapper (lo hi rlo rhi : Z) (base : Z) (s : list Z) : option Z :=
  let '(ret, e, er) := strtos lo hi base s in
  if (e =? 0)%nat then None
  else if negb (tail_ok s e) then None
  else if ((ret =? hi) || (ret =? lo)) && er then None
  else if (ret >? rhi) || (ret <? rlo) then None
  else Some ret.

Lemma signed_wrapper_exact lo hi rlo rhi base s v :
  valid_base base -> lo <= rlo -> rhi <= hi ->
  (signed_wrapper lo hi rlo rhi base s = Some v <-> well_formed base s v /\ rlo <= v <= rhi).
Proof.
  intros Hb Hlo Hhi. unfold signed_wrapper, strtos. split.
  - destruct (strto_core base s) as [[neg mag] e] eqn:C.
    remember (if neg then - mag else mag) as sv eqn:Hsv.
    assert (K : forall ret er, (ret, e, er) = (if sv <? lo then (lo, e, true) else if sv >? hi then (hi, e, true) else (sv, e, false)) ->
                (if (e =? 0)%nat then None else if negb (tail_ok s e) then None
                 else if ((ret =? hi) || (ret =? lo)) && er then None
                 else if (ret >? rhi) || (ret <? rlo) then None else Some ret) = Some v ->
                well_formed base s v /\ rlo <= v <= rhi).
    { intros ret er Eq R.
      destruct (e =? 0)%nat eqn:E0; [discriminate|]. apply Nat.eqb_neq in E0.
      destruct (tail_ok s e) eqn:T; [|discriminate]. cbn [negb] in R. apply tail_ok_spec in T.
      destruct (((ret =? hi) || (ret =? lo)) && er) eqn:R1; [discriminate|].
      destruct ((ret >? rhi) || (ret <? rlo)) eqn:R2; [discriminate|]. inversion R; subst v. clear R.
      breflect.
      assert (ret = sv /\ rlo <= ret <= rhi).
      { destruct (sv <? lo) eqn:A; [inversion Eq; subst; rewrite Z.eqb_refl, orb_true_r in R1; discriminate|].
        destruct (sv >? hi) eqn:A2; [inversion Eq; subst; rewrite Z.eqb_refl in R1; discriminate|].
        inversion Eq; subst. breflect. split; [reflexivity|lia]. }
      destruct H1 as [-> Rg]. split; [|exact Rg].
      destruct (core_sound base s neg mag e Hb C E0 T) as (ws1 & sg & body & Es & W1 & Sg & Nm).
      exists ws1, sg, body, (skipn e s), neg, mag. repeat split; assumption. }
    destruct (sv <? lo) eqn:A; [intro R; apply (K lo true); [try rewrite A; reflexivity|exact R]|].
    destruct (sv >? hi) eqn:A2; intro R; [apply (K hi true)|apply (K sv false)];
      try exact R; try rewrite A; try rewrite A2; reflexivity.
  - intros [(ws1 & sg & body & ws2 & neg & mag & -> & W1 & W2 & Sg & Nm & ->) Rg].
    rewrite (core_complete base ws1 sg body ws2 neg mag Hb W1 W2 Sg Nm).
    remember (if neg then - mag else mag) as sv eqn:Hsv.
    assert (A : (sv <? lo) = false) by (apply Z.ltb_ge; lia). rewrite A.
    assert (A2 : (sv >? hi) = false) by (rewrite Z.gtb_ltb; apply Z.ltb_ge; lia). rewrite A2.
    assert (E0 : (length (ws1 ++ sg ++ body) =? 0)%nat = false) by (apply Nat.eqb_neq; eapply wf_len_pos; eassumption).
    rewrite E0.
    assert (T : tail_ok (ws1 ++ sg ++ body ++ ws2) (length (ws1 ++ sg ++ body)) = true)
      by (apply tail_ok_spec; rewrite tail_of_wf; exact W2).
    rewrite T. cbn [negb]. rewrite andb_false_r.
    assert (R2 : (sv >? rhi) || (sv <? rlo) = false).
    { apply orb_false_iff. split; [rewrite Z.gtb_ltb|]; apply Z.ltb_ge; lia. }
    rewrite R2. reflexivity.
Qed.

(* the repaired wrappers refuse a base the strtol family does not accept before calling it *)
Lemma guarded_exact (f g : Z -> list Z -> option Z) (P : Z -> Prop) base s v :
  (forall b x, f b x = if negb (base_ok b) then None else g b x) ->
  (valid_base base -> (g base s = Some v <-> well_formed base s v /\ P v)) ->
  (f base s = Some v <-> valid_base base /\ well_formed base s v /\ P v).
Proof.
  intros Hf Hg. rewrite Hf. destruct (base_ok base) eqn:E; cbn [negb].
  - apply base_ok_spec in E. rewrite (Hg E). tauto.
  - split; [discriminate|]. intros [Hb _]. apply base_ok_spec in Hb. congruence.
Qed.

Lemma toi_exact_l base s v :
  toi base s = Some v <-> valid_base base /\ well_formed base s v /\ INT_MIN <= v <= INT_MAX.
Proof.
  apply (guarded_exact toi (signed_wrapper LONG_MIN LONG_MAX INT_MIN INT_MAX) (fun v => INT_MIN <= v <= INT_MAX)).
  - intros b x. reflexivity.
  - intro Hb. apply (signed_wrapper_exact LONG_MIN LONG_MAX INT_MIN INT_MAX base s v Hb); vm_compute; discriminate.
Qed.

Lemma tol_as_wrapper base s :
  tol base s = if negb (base_ok base) then None else signed_wrapper LONG_MIN LONG_MAX LONG_MIN LONG_MAX base s.
Proof.
  unfold tol. destruct (negb (base_ok base)); [reflexivity|].
  unfold signed_wrapper, strtol_model, strtos.
  destruct (strto_core base s) as [[neg mag] e].
  set (sv := if neg then - mag else mag).
  assert (K : forall ret er, LONG_MIN <= ret <= LONG_MAX ->
     (if (e =? 0)%nat then None else if negb (tail_ok s e) then None
      else if ((ret =? LONG_MAX) || (ret =? LONG_MIN)) && er then None else Some ret) =
     (if (e =? 0)%nat then None else if negb (tail_ok s e) then None
      else if ((ret =? LONG_MAX) || (ret =? LONG_MIN)) && er then None
      else if (ret >? LONG_MAX) || (ret <? LONG_MIN) then None else Some ret)).
  { intros ret er Rg.
    assert (R2 : (ret >? LONG_MAX) || (ret <? LONG_MIN) = false).
    { apply orb_false_iff. split; [rewrite Z.gtb_ltb|]; apply Z.ltb_ge; lia. }
    rewrite R2. reflexivity. }
  destruct (sv <? LONG_MIN) eqn:A; [apply K; vm_compute; split; discriminate|].
  destruct (sv >? LONG_MAX) eqn:A2; [apply K; vm_compute; split; discriminate|].
  apply K. breflect. lia.
Qed.

Lemma tol_exact_l base s v :
  tol base s = Some v <-> valid_base base /\ well_formed base s v /\ LONG_MIN <= v <= LONG_MAX.
Proof.
  apply (guarded_exact tol (signed_wrapper LONG_MIN LONG_MAX LONG_MIN LONG_MAX) (fun v => LONG_MIN <= v <= LONG_MAX)).
  - intros b x. apply tol_as_wrapper.
  - intro Hb. apply signed_wrapper_exact; [exact Hb|lia|lia].
Qed.

(* ---------- unsigned wrappers ---------- *)
Lemma has_minus_wf ws1 sg body ws2 neg base mag :
  valid_base base -> Forall blank ws1 -> sign_of sg neg -> numeral base body mag ->
  has_minus (ws1 ++ sg ++ body ++ ws2) = neg.
Proof.
  intros Hb W1 Sg Nm. destruct (numeral_head _ _ _ Hb Nm) as (Bne & Bsp & B45 & B43 & _).
  unfold has_minus.
  assert (Hne : sg ++ body ++ ws2 <> []) by (destruct sg; [destruct body; [congruence|discriminate]|discriminate]).
  assert (Hhd : is_space (nth 0 (sg ++ body ++ ws2) 0) = false).
  { destruct Sg as [[-> _]|[[-> _]|[-> _]]]; cbn [app nth]; try reflexivity.
    destruct body; [congruence|]. exact Bsp. }
  rewrite (lstrip_app ws1 _ W1 Hne Hhd). unfold zlen. rewrite Nat2Z.id, app_nth2 by lia. rewrite Nat.sub_diag.
  destruct Sg as [[-> ->]|[[-> ->]|[-> ->]]]; cbn [app nth]; try reflexivity.
  destruct body; [congruence|]. cbn [app nth] in *. apply Z.eqb_neq. exact B45.
Qed.

(* generic unsigned wrapper: strtoul limit umax = 2^k - 1, accepted range 0..rhi *)
Definition unsigned_wrapper (umax rhi : Z) (chk : Z -> bool -> bool) (base : Z) (s : list Z) : option Z :=
  let '(ret, e, er) := strtou umax base s in
  if (e =? 0)%nat then None
  else if negb (tail_ok s e) then None
  else if chk ret er then None
  else if negb (ret =? 0) && has_minus s then None
  else Some ret.

Lemma unsigned_wrapper_exact umax rhi chk base s v :
  valid_base base -> 0 <= rhi <= umax ->
  (forall ret er, 0 <= ret <= umax -> (er = true -> ret = umax) ->
                  (chk ret er = false <-> er = false /\ ret <= rhi)) ->
  (unsigned_wrapper umax rhi chk base s = Some v <-> well_formed base s v /\ 0 <= v <= rhi).
Proof.
  intros Hb Hr Hchk. unfold unsigned_wrapper, strtou. split.
  - destruct (strto_core base s) as [[neg mag] e] eqn:C.
    intro R.
    assert (P : exists ret er,
      (ret, e, er) = (if mag >? umax then (umax, e, true)
                      else ((if neg then (umax + 1 - mag) mod (umax + 1) else mag), e, false)) /\
      (if (e =? 0)%nat then None else if negb (tail_ok s e) then None else if chk ret er then None
       else if negb (ret =? 0) && has_minus s then None else Some ret) = Some v).
    { destruct (mag >? umax); eexists; eexists; (split; [reflexivity|exact R]). }
    clear R. destruct P as (ret & er & Eq & R).
    destruct (e =? 0)%nat eqn:E0; [discriminate|]. apply Nat.eqb_neq in E0.
    destruct (tail_ok s e) eqn:T; [|discriminate]. cbn [negb] in R. apply tail_ok_spec in T.
    destruct (core_sound base s neg mag e Hb C E0 T) as (ws1 & sg & body & Es & W1 & Sg & Nm).
    destruct (numeral_head _ _ _ Hb Nm) as (_ & _ & _ & _ & Mg).
    assert (HM : has_minus s = neg) by (rewrite Es; eapply has_minus_wf; eassumption).
    destruct (chk ret er) eqn:K; [discriminate|].
    rewrite HM in R.
    destruct (negb (ret =? 0) && neg) eqn:Z0; [discriminate|]. injection R as <-.
    destruct (mag >? umax) eqn:A.
    + injection Eq as -> ->.
      apply (Hchk umax true ltac:(lia) ltac:(auto)) in K. destruct K; discriminate.
    + injection Eq as -> ->. breflect.
      assert (Rr : 0 <= (if neg then (umax + 1 - mag) mod (umax + 1) else mag) <= umax).
      { destruct neg; [|lia]. pose proof (Z.mod_pos_bound (umax + 1 - mag) (umax + 1) ltac:(lia)). lia. }
      apply (Hchk _ false Rr ltac:(discriminate)) in K. destruct K as [_ K].
      assert (Ev : (if neg then (umax + 1 - mag) mod (umax + 1) else mag) = (if neg then - mag else mag)).
      { destruct neg; [|reflexivity]. rewrite andb_true_r in Z0. breflect.
        destruct (Z.eq_dec mag 0) as [->|NZ]; [rewrite Z.sub_0_r, Z.mod_same by lia; reflexivity|].
        rewrite Z.mod_small in Z0 by lia. lia. }
      split; [|rewrite Ev in *; lia].
      exists ws1, sg, body, (skipn e s), neg, mag. repeat split; try assumption.
  - intros [(ws1 & sg & body & ws2 & neg & mag & -> & W1 & W2 & Sg & Nm & ->) Rg].
    rewrite (core_complete base ws1 sg body ws2 neg mag Hb W1 W2 Sg Nm).
    destruct (numeral_head _ _ _ Hb Nm) as (_ & _ & _ & _ & Mg).
    assert (A : (mag >? umax) = false) by (rewrite Z.gtb_ltb; apply Z.ltb_ge; destruct neg; lia). rewrite A.
    assert (E0 : (length (ws1 ++ sg ++ body) =? 0)%nat = false) by (apply Nat.eqb_neq; eapply wf_len_pos; eassumption).
    rewrite E0.
    assert (T : tail_ok (ws1 ++ sg ++ body ++ ws2) (length (ws1 ++ sg ++ body)) = true)
      by (apply tail_ok_spec; rewrite tail_of_wf; exact W2).
    rewrite T. cbn [negb].
    rewrite (has_minus_wf ws1 sg body ws2 neg base mag Hb W1 Sg Nm).
    assert (Rv : (if neg then (umax + 1 - mag) mod (umax + 1) else mag) = (if neg then - mag else mag)).
    { destruct neg; [|reflexivity]. assert (mag = 0) by lia. subst mag. rewrite Z.sub_0_r, Z.mod_same by lia. reflexivity. }
    rewrite Rv.
    assert (K : chk (if neg then - mag else mag) false = false).
    { apply Hchk; [lia|discriminate|]. split; [reflexivity|lia]. }
    rewrite K.
    assert (Z0 : negb ((if neg then - mag else mag) =? 0) && neg = false).
    { destruct neg; [|apply andb_false_r]. assert (mag = 0) by lia. subst mag. reflexivity. }
    rewrite Z0. reflexivity.
Qed.

Lemma tou_exact_l base s v :
  tou base s = Some v <-> valid_base base /\ well_formed base s v /\ 0 <= v <= UINT_MAX.
Proof.
  apply (guarded_exact tou (unsigned_wrapper ULONG_MAX UINT_MAX (fun ret er => er || (ret >? UINT_MAX)))
                       (fun v => 0 <= v <= UINT_MAX)); [intros b x; reflexivity|].
  intro Hb.
  apply unsigned_wrapper_exact; [exact Hb|vm_compute; split; discriminate|].
  intros ret er Rr Hu. rewrite orb_false_iff, Z.gtb_ltb, Z.ltb_ge. tauto.
Qed.

Lemma toul_exact_l base s v :
  toul base s = Some v <-> valid_base base /\ well_formed base s v /\ 0 <= v <= ULONG_MAX.
Proof.
  apply (guarded_exact toul (unsigned_wrapper ULONG_MAX ULONG_MAX (fun ret er => (ret =? ULONG_MAX) && er))
                       (fun v => 0 <= v <= ULONG_MAX)); [intros b x; reflexivity|].
  intro Hb.
  apply unsigned_wrapper_exact; [exact Hb|vm_compute; split; discriminate|].
  intros ret er Rr Hu. rewrite andb_false_iff. split.
  - intros [H|H]; [|split; [exact H|lia]]. destruct er; [|split; [reflexivity|lia]].
    breflect. specialize (Hu eq_refl). congruence.
  - intros [-> _]. right. reflexivity.
Qed.

(* non-vacuity and the limit cases the unchanged code got wrong *)
Definition str (l : list Z) := l.
Example parse_witnesses :
  toi 10 [50;49;52;55;52;56;51;54;52;55] = Some 2147483647 /\          (* "2147483647" *)
  toi 10 [50;49;52;55;52;56;51;54;52;56;32] = None /\                  (* "2147483648 " *)
  toi 16 [32;45;48;120;49;102;9] = Some (-31) /\                       (* " -0x1f\t" *)
  tou 10 [45;50] = None /\ tou 10 [45;48] = Some 0 /\                  (* "-2", "-0" *)
  tol 10 [57;50;50;51;51;55;50;48;51;54;56;53;52;55;55;53;56;48;55] = Some LONG_MAX /\
  toul 10 [49;56;52;52;54;55;52;52;48;55;51;55;48;57;53;53;49;54;49;53] = Some ULONG_MAX /\
  toul 10 [49;56;52;52;54;55;52;52;48;55;51;55;48;57;53;53;49;54;49;54] = None /\
  toi 0 [48;120] = None /\ toi 0 [48;55;55] = Some 63 /\
  toi 1 [49] = None /\ toul 37 [49] = None /\ tol (-10) [49] = None /\ tou 36 [122] = Some 35.   (* bases 1, 37, -10: refused *)
Proof. vm_compute. repeat split; reflexivity. Qed.

(* ---------- float wrappers: logic over the abstract libc result ---------- *)
Lemma tofloat_exact_l : forall s consumed er,
  tofloat s consumed er = true <->
  consumed <> 0%nat /\ Forall blank (skipn consumed s) /\ er = false.
Proof.
  intros s consumed er. unfold tofloat.
  destruct (consumed =? 0)%nat eqn:E0.
  - apply Nat.eqb_eq in E0. split; [discriminate|]. intros [H _]. congruence.
  - apply Nat.eqb_neq in E0. destruct (tail_ok s consumed) eqn:T; cbn [negb].
    + apply tail_ok_spec in T. destruct er.
      * split; [discriminate|]. intros (_ & _ & H). discriminate.
      * split; [|reflexivity]. intros _. repeat split; assumption.
    + split; [discriminate|]. intros (_ & H & _). apply tail_ok_spec in H. congruence.
Qed.

(* non-vacuity: "1e-50" as a float (ERANGE: underflow to zero) and "1e39 " (ERANGE: overflow) are refused,
   "0" and " 1.5 " are accepted, "1.5x" is refused *)
Example tofloat_witnesses :
  tofloat [49;101;45;53;48] 5 true = false /\
  tofloat [49;101;51;57;32] 4 true = false /\
  tofloat [48] 1 false = true /\
  tofloat [32;49;46;53;32] 4 false = true /\
  tofloat [49;46;53;120] 3 false = false.
Proof. vm_compute. repeat split; reflexivity. Qed.
