(* C20 — next_pow_of_2: the smearing lemma over N.testbit and the least-power-of-two theorem. *)
From MV Require Import C20.Model.
Local Open Scope N_scope.

Definition is_pow2 (p : N) : Prop := exists k, p = 2 ^ k.

Definition smear (x : N) : N :=
  let x := N.lor x (N.shiftr x 1) in
  let x := N.lor x (N.shiftr x 2) in
  let x := N.lor x (N.shiftr x 4) in
  let x := N.lor x (N.shiftr x 8) in
  let x := N.lor x (N.shiftr x 16) in
  let x := N.lor x (N.shiftr x 32) in
  x.

Lemma model_npo2_unfold x :
  model_npo2 x = if (N.land x ((x + w64 - 1) mod w64) =? 0) then x else (smear x + 1) mod w64.
Proof. reflexivity. Qed.

(* bit i of y is set iff some bit of x in the window [i, i+n) is set *)
Definition window (x y n : N) : Prop :=
  forall i, N.testbit y i = true <-> exists j, i <= j /\ j < i + n /\ N.testbit x j = true.

Lemma window_base x : window x x 1.
Proof.
  intro i; split.
  - intro H; exists i; split; [lia|split; [lia|exact H]].
  - intros (j & H1 & H2 & H3). replace i with j by lia. exact H3.
Qed.

Lemma window_step x y n : window x y n -> window x (N.lor y (N.shiftr y n)) (n + n).
Proof.
  intros W i. rewrite N.lor_spec, N.shiftr_spec', orb_true_iff. split.
  - intros [H|H]; apply W in H; destruct H as (j & H1 & H2 & H3); exists j; repeat split; try lia; exact H3.
  - intros (j & H1 & H2 & H3).
    destruct (N.lt_ge_cases j (i + n)).
    + left. apply W. exists j; repeat split; try lia; exact H3.
    + right. apply W. exists j; repeat split; try lia; exact H3.
Qed.

Lemma smear_window x : window x (smear x) 64.
Proof.
  unfold smear; cbv zeta.
  pose proof (window_step _ _ _ (window_base x)) as H1; change (1 + 1) with 2 in H1.
  pose proof (window_step _ _ _ H1) as H2; change (2 + 2) with 4 in H2.
  pose proof (window_step _ _ _ H2) as H3; change (4 + 4) with 8 in H3.
  pose proof (window_step _ _ _ H3) as H4; change (8 + 8) with 16 in H4.
  pose proof (window_step _ _ _ H4) as H5; change (16 + 16) with 32 in H5.
  pose proof (window_step _ _ _ H5) as H6; change (32 + 32) with 64 in H6.
  exact H6.
Qed.

(* the smearing lemma: every bit up to the highest set bit becomes set *)
Lemma smear_ones x : 0 < x -> x < w64 -> smear x = N.ones (N.succ (N.log2 x)).
Proof.
  intros Hpos Hlt.
  assert (Hk : N.log2 x < 64) by (apply N.log2_lt_pow2; [exact Hpos|exact Hlt]).
  apply N.bits_inj; intro i.
  destruct (N.le_gt_cases i (N.log2 x)) as [Hi|Hi].
  - rewrite N.ones_spec_low by lia.
    apply (smear_window x). exists (N.log2 x). repeat split; try lia.
    apply N.bit_log2. lia.
  - rewrite N.ones_spec_high by lia.
    destruct (N.testbit (smear x) i) eqn:E; [|reflexivity].
    apply (smear_window x) in E. destruct E as (j & H1 & H2 & H3).
    rewrite N.bits_above_log2 in H3 by lia. discriminate.
Qed.

Lemma ones_succ n : N.ones n + 1 = 2 ^ n.
Proof.
  rewrite N.ones_equiv. assert (2 ^ n <> 0) by (apply N.pow_nonzero; lia). lia.
Qed.

Lemma dec_mod x : 0 < x -> x < w64 -> (x + w64 - 1) mod w64 = x - 1.
Proof.
  intros. replace (x + w64 - 1) with ((x - 1) + 1 * w64) by lia.
  rewrite N.mod_add by (unfold w64; lia). apply N.mod_small. lia.
Qed.

Lemma pow2_test k : N.land (2 ^ k) (2 ^ k - 1) = 0.
Proof.
  replace (2 ^ k - 1) with (N.ones k) by (rewrite N.ones_equiv; lia).
  rewrite N.land_ones. apply N.mod_same. apply N.pow_nonzero; lia.
Qed.

Lemma test_pow2 x : 0 < x -> N.land x (x - 1) = 0 -> x = 2 ^ N.log2 x.
Proof.
  intros Hpos H0.
  destruct (N.log2_spec x Hpos) as [Hlo Hhi].
  destruct (N.eq_dec x (2 ^ N.log2 x)) as [E|NE]; [exact E|exfalso].
  set (k := N.log2 x) in *.
  assert (Hl : N.log2 (x - 1) = k) by (apply N.log2_unique; [lia|split; lia]).
  assert (Hb1 : N.testbit x k = true) by (apply N.bit_log2; lia).
  assert (Hb2 : N.testbit (x - 1) k = true).
  { rewrite <- Hl. apply N.bit_log2. assert (0 < 2 ^ k) by (apply N.neq_0_lt_0, N.pow_nonzero; lia). lia. }
  assert (Hb : N.testbit (N.land x (x - 1)) k = true) by (rewrite N.land_spec, Hb1, Hb2; reflexivity).
  rewrite H0, N.bits_0 in Hb. discriminate.
Qed.

Lemma pow2_lt_w64 k : 2 ^ k < w64 -> k < 64.
Proof. intro H. apply (N.pow_lt_mono_r_iff 2); [lia|exact H]. Qed.

(* result on an argument that is not a power of two *)
Lemma npo2_nonpow2 x : 0 < x -> x < w64 -> x <> 2 ^ N.log2 x ->
  model_npo2 x = (2 ^ N.succ (N.log2 x)) mod w64.
Proof.
  intros Hpos Hlt NE. rewrite model_npo2_unfold, dec_mod by assumption.
  destruct (N.eqb_spec (N.land x (x - 1)) 0) as [E|_].
  - exfalso. apply NE. apply test_pow2; assumption.
  - rewrite smear_ones, ones_succ by assumption. reflexivity.
Qed.

Lemma npo2_pow2 k : 2 ^ k < w64 -> model_npo2 (2 ^ k) = 2 ^ k.
Proof.
  intro Hlt. assert (0 < 2 ^ k) by (apply N.neq_0_lt_0, N.pow_nonzero; lia).
  rewrite model_npo2_unfold, dec_mod, pow2_test by assumption. reflexivity.
Qed.

(* FULL STATEMENT: on 1 <= x <= 2^63 the result is a power of two, not below x, and the least such *)
Lemma npo2_least_pow2_l : forall x, 1 <= x -> x <= 2 ^ 63 ->
  is_pow2 (model_npo2 x) /\ x <= model_npo2 x /\
  (forall p, is_pow2 p -> x <= p -> model_npo2 x <= p).
Proof.
  intros x H1 H63.
  assert (Hpos : 0 < x) by lia.
  assert (Hlt : x < w64) by (unfold w64; change (2 ^ 63) with 9223372036854775808 in H63; lia).
  destruct (N.log2_spec x Hpos) as [Hlo Hhi].
  destruct (N.eq_dec x (2 ^ N.log2 x)) as [E|NE].
  - remember (N.log2 x) as k eqn:Hk0. clear Hk0. subst x.
    rewrite npo2_pow2 by exact Hlt.
    split; [exists k; reflexivity|]. split; [lia|].
    intros p _ Hp. exact Hp.
  - rewrite npo2_nonpow2 by assumption.
    set (k := N.log2 x) in *.
    assert (Hk : k < 63).
    { apply (N.pow_lt_mono_r_iff 2); [lia|]. lia. }
    assert (Hs : 2 ^ N.succ k <= 2 ^ 63) by (apply N.pow_le_mono_r; lia).
    rewrite N.mod_small by (unfold w64; change (2 ^ 63) with 9223372036854775808 in Hs; lia).
    split; [exists (N.succ k); reflexivity|]. split; [lia|].
    intros p [m Hm] Hp. subst p.
    apply N.pow_le_mono_r; [lia|].
    destruct (N.le_gt_cases (N.succ k) m) as [Hkm|Hkm]; [exact Hkm|exfalso].
    assert (2 ^ m <= 2 ^ k) by (apply N.pow_le_mono_r; lia). lia.
Qed.

(* outside the domain: 0 -> 0, and above 2^63 the sum wraps to 0 *)
Lemma npo2_zero_l : model_npo2 0 = 0.
Proof. reflexivity. Qed.

Lemma npo2_above_l : forall x, 2 ^ 63 < x -> x < w64 -> model_npo2 x = 0.
Proof.
  intros x H63 Hlt.
  assert (Hpos : 0 < x) by lia.
  assert (Hl : N.log2 x = 63).
  { apply N.log2_unique; [lia|]. split; [lia|]. exact Hlt. }
  rewrite npo2_nonpow2; try assumption.
  - rewrite Hl. reflexivity.
  - rewrite Hl. lia.
Qed.

(* a corollary used by the ring-capacity arguments of other properties *)
Lemma npo2_is_pow2_l : forall x, 1 <= x -> x <= 2 ^ 63 -> exists k, model_npo2 x = 2 ^ k /\ x <= 2 ^ k.
Proof.
  intros x H1 H2. destruct (npo2_least_pow2_l x H1 H2) as ([k Hk] & Hle & _).
  exists k. split; [exact Hk|rewrite <- Hk; exact Hle].
Qed.

Example npo2_witness : model_npo2 (2 ^ 33 + 1) = 2 ^ 34 /\ model_npo2 1 = 1 /\ model_npo2 (2 ^ 63) = 2 ^ 63.
Proof. repeat split; vm_compute; reflexivity. Qed.
