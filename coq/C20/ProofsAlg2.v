(* C20 — basename / dirname against the reference "split at the last separator", for every
   input string without NUL bytes and every buffer size. *)
From MV Require Import C20.Model C20.ProofsStr C20.ProofsPath.
Local Open Scope Z_scope.

Definition nonzero (l : list Z) : Prop := Forall (fun c => c <> 0) l.
Definition nosep (l : list Z) : Prop := Forall (fun c => is_sep c = false) l.

(* ---------- what a sequence of writes leaves in the cells ---------- *)
Lemma firstn_S_upd i x : forall c, (i < length c)%nat -> firstn (S i) (upd i x c) = firstn i c ++ [x].
Proof.
  induction i as [|i IH]; intros [|a c] H; cbn [length] in H; try lia; cbn [upd firstn app].
  - reflexivity.
  - f_equal. apply IH. lia.
Qed.

Lemma skipn_upd_above i x : forall c k, (i < k)%nat -> skipn k (upd i x c) = skipn k c.
Proof.
  induction i as [|i IH]; intros [|a c] [|k] H; try lia; cbn [upd skipn]; try reflexivity.
  apply IH. lia.
Qed.

Lemma firstn_upd_below i x : forall c k, (k <= i)%nat -> firstn k (upd i x c) = firstn k c.
Proof.
  induction i as [|i IH]; intros [|a c] [|k] H; try lia; cbn [upd firstn]; try reflexivity.
  f_equal. apply IH. lia.
Qed.

Lemma cells_wr m size i x : ok m size -> 0 <= i < size -> cells (wr i x m) = upd (Z.to_nat i) x (cells m).
Proof.
  intros [Hs Ho] Hi. unfold wr, inb. rewrite Hs.
  assert (E : (0 <=? i) && (i <? size) = true) by (apply andb_true_iff; split; [apply Z.leb_le|apply Z.ltb_lt]; lia).
  rewrite E. reflexivity.
Qed.

(* writing l at offset off replaces exactly that segment *)
Lemma cells_wr_list l : forall m size off, ok m size -> 0 <= off -> off + zlen l <= size ->
  cells (wr_list off l m) =
  firstn (Z.to_nat off) (cells m) ++ l ++ skipn (Z.to_nat off + length l) (cells m).
Proof.
  induction l as [|x l IH]; intros m size off Hok Hoff Hle; cbn [wr_list app length].
  - rewrite Nat.add_0_r, firstn_skipn. reflexivity.
  - rewrite zlen_cons in Hle. pose proof (zlen_nonneg l).
    assert (Hok' : ok (wr off x m) size) by (apply wr_ok; [exact Hok|lia]).
    rewrite (IH (wr off x m) size (off + 1) Hok' ltac:(lia) ltac:(lia)).
    rewrite (cells_wr m size off x Hok ltac:(lia)).
    assert (Hlen : (Z.to_nat off < length (cells m))%nat) by (destruct Hok as [Hs _]; unfold bsize, zlen in Hs; lia).
    replace (Z.to_nat (off + 1)) with (S (Z.to_nat off)) by lia.
    rewrite firstn_S_upd by exact Hlen. rewrite skipn_upd_above by lia.
    rewrite <- app_assoc. cbn [app]. f_equal. f_equal. f_equal. f_equal. lia.
Qed.

Lemma firstn_repeat_z (x : Z) : forall n k, firstn k (repeat x n) = repeat x (Nat.min k n).
Proof.
  induction n as [|n IH]; intros [|k]; cbn [repeat firstn Nat.min]; try reflexivity.
  f_equal. apply IH.
Qed.

Lemma cstr_app_nul l r : nonzero l -> cstr (l ++ 0 :: r) = l.
Proof.
  intro H. induction H as [|c l Hc _ IH]; cbn [app cstr]; [reflexivity|].
  destruct (c =? 0) eqn:E; [apply Z.eqb_eq in E; contradiction|]. f_equal. exact IH.
Qed.

Lemma upd_at_len (l : list Z) x y r : upd (length l) x (l ++ y :: r) = l ++ x :: r.
Proof. induction l as [|a l IH]; cbn [length app upd]; [reflexivity|f_equal; exact IH]. Qed.

(* write l at 0, then a NUL behind it: the C string is l *)
Lemma cstr_written m size l : ok m size -> zlen l < size -> nonzero l ->
  cstr (cells (wr (zlen l) 0 (wr_list 0 l m))) = l.
Proof.
  intros Hok Hl Hnz. pose proof (zlen_nonneg l).
  assert (Hok' : ok (wr_list 0 l m) size) by (apply wr_list_ok; [exact Hok|lia|lia]).
  rewrite (cells_wr _ size (zlen l) 0 Hok' ltac:(lia)).
  rewrite (cells_wr_list l m size 0 Hok ltac:(lia) ltac:(lia)).
  cbn [Z.to_nat firstn app Nat.add].
  assert (Hlen : (length l < length (cells m))%nat) by (destruct Hok as [Hs _]; unfold bsize, zlen in *; lia).
  destruct (skipn (length l) (cells m)) as [|y r] eqn:E.
  - apply (f_equal (@length Z)) in E. rewrite skipn_length in E. cbn in E. lia.
  - unfold zlen. rewrite Nat2Z.id, upd_at_len. apply cstr_app_nul. exact Hnz.
Qed.

(* ---------- the last separator ---------- *)
Lemma last_sep_from_spec p : forall i acc,
  (nosep p /\ last_sep_from p i acc = acc) \/
  (exists a c b, p = a ++ c :: b /\ is_sep c = true /\ nosep b /\ last_sep_from p i acc = i + zlen a).
Proof.
  induction p as [|c p IH]; intros i acc; cbn [last_sep_from].
  - left. split; [constructor|reflexivity].
  - destruct (IH (i + 1) (if is_sep c then i else acc)) as [[N E]|(a & c' & b & E1 & E2 & E3 & E4)].
    + destruct (is_sep c) eqn:S.
      * right. exists [], c, p. split; [reflexivity|]. split; [exact S|]. split; [exact N|]. rewrite E, zlen_nil. lia.
      * left. split; [constructor; assumption|exact E].
    + right. exists (c :: a), c', b. split; [cbn [app]; f_equal; exact E1|]. split; [exact E2|]. split; [exact E3|].
      rewrite E4, zlen_cons. lia.
Qed.

Lemma last_sep_spec p :
  (nosep p /\ last_sep p = -1) \/
  (exists a c b, p = a ++ c :: b /\ is_sep c = true /\ nosep b /\ last_sep p = zlen a).
Proof.
  unfold last_sep. destruct (last_sep_from_spec p 0 (-1)) as [H|(a & c & b & H1 & H2 & H3 & H4)]; [left; exact H|].
  right. exists a, c, b. repeat split; try assumption; lia.
Qed.

Lemma nonzero_app_inv (a b : list Z) : nonzero (a ++ b) -> nonzero a /\ nonzero b.
Proof. apply Forall_app. Qed.

(* ---------- basename ---------- *)
(* reference: with p = a ++ sep :: b and no separator in b the base name is b; without any
   separator it is p; success iff the base name is non-empty and fits with its NUL *)
Definition base_of (p : list Z) : list Z :=
  if last_sep p <? 0 then p else skipn (Z.to_nat (last_sep p + 1)) p.

Lemma skipn_app_cons (a : list Z) c b : skipn (Z.to_nat (zlen a + 1)) (a ++ c :: b) = b.
Proof.
  replace (Z.to_nat (zlen a + 1)) with (length (a ++ [c])) by (rewrite app_length; unfold zlen; cbn [length]; lia).
  replace (a ++ c :: b) with ((a ++ [c]) ++ b) by (rewrite <- app_assoc; reflexivity).
  induction (a ++ [c]); cbn; auto.
Qed.

Lemma base_of_ref p :
  (nosep p /\ base_of p = p) \/
  (exists a c b, p = a ++ c :: b /\ is_sep c = true /\ nosep b /\ base_of p = b).
Proof.
  unfold base_of. destruct (last_sep_spec p) as [[Hns Hls]|(a & c & b & Hp & Hc & Hb & Hls)].
  - left. rewrite Hls. split; [exact Hns|reflexivity].
  - right. exists a, c, b. rewrite Hls. pose proof (zlen_nonneg a).
    assert (E : (zlen a <? 0) = false) by (apply Z.ltb_ge; lia). rewrite E.
    repeat split; try assumption. rewrite Hp at 1. apply skipn_app_cons.
Qed.

Lemma basename_algebra_l : forall p size m, ok m size -> nonzero p ->
  (fst (basename p size m) = 0 <-> base_of p <> [] /\ zlen (base_of p) < size /\ 1 < size) /\
  (fst (basename p size m) = 0 -> cstr (cells (snd (basename p size m))) = base_of p).
Proof.
  intros p size m Hok Hnz. unfold basename, base_of.
  pose proof (zlen_nonneg p) as Hp0.
  destruct (last_sep_spec p) as [[Hns Hls]|(a & c & b & Hp & Hc & Hb & Hls)].
  - (* no separator *)
    rewrite Hls. change (-1 <? 0) with true. cbv iota.
    destruct (size <=? 1) eqn:S1; [breflect; split; [split; [intro E; unfold EINVAL in E; cbn in E; lia|intros (_ & _ & H); lia]|intro E; unfold EINVAL in E; cbn in E; lia]|].
    destruct (zlen p <=? 0) eqn:T0.
    { breflect. assert (p = []) by (apply zlen_0; lia). subst p.
      split; [split; [intro E; unfold EINVAL in E; cbn in E; lia|intros (H & _); congruence]|intro E; unfold EINVAL in E; cbn in E; lia]. }
    destruct (zlen p >? size - 1) eqn:G; breflect.
    { split; [split; [intro E; unfold EINVAL in E; cbn in E; lia|intros (_ & H & _); lia]|intro E; unfold EINVAL in E; cbn in E; lia]. }
    cbn [fst snd]. split.
    + split; [intros _|reflexivity]. split; [intro; subst p; rewrite zlen_nil in T0; lia|lia].
    + intros _. unfold strncpy_to.
      set (l := firstn (Z.to_nat (size - 1)) (p ++ repeat 0 (Z.to_nat (size - 1)))).
      assert (Hl : length l = Z.to_nat (size - 1)) by apply strncpy_len.
      assert (Hok' : ok (wr_list 0 l m) size) by (apply wr_list_ok; [exact Hok|lia|unfold zlen; lia]).
      rewrite (cells_wr _ size (size - 1) 0 Hok' ltac:(lia)).
      rewrite (cells_wr_list l m size 0 Hok ltac:(lia) ltac:(unfold zlen; lia)).
      cbn [Z.to_nat firstn app Nat.add].
      assert (El : l = p ++ repeat 0 (Z.to_nat (size - 1) - length p)).
      { subst l. rewrite firstn_app. rewrite firstn_all2 by (unfold zlen in *; lia). f_equal.
        rewrite firstn_repeat_z. f_equal. lia. }
      assert (Hcm : (length (cells m) = Z.to_nat size)%nat) by (destruct Hok as [Hs _]; unfold bsize, zlen in Hs; lia).
      destruct (skipn (length l) (cells m)) as [|y r] eqn:E.
      { apply (f_equal (@length Z)) in E. rewrite skipn_length in E. cbn in E. lia. }
      replace (Z.to_nat (size - 1)) with (length l) by lia. rewrite upd_at_len.
      rewrite El, <- app_assoc. destruct (Z.to_nat (size - 1) - length p)%nat; cbn [repeat app]; apply cstr_app_nul; exact Hnz.
  - (* separator at index zlen a *)
    rewrite Hls. pose proof (zlen_nonneg a) as Ha0. pose proof (zlen_nonneg b) as Hb0.
    assert (Hlen : zlen p = zlen a + 1 + zlen b) by (rewrite Hp, zlen_app, zlen_cons; lia).
    assert (Hskip : skipn (Z.to_nat (zlen a + 1)) p = b) by (rewrite Hp at 1; apply skipn_app_cons).
    assert (P0 : (zlen a <? 0) = false) by (apply Z.ltb_ge; lia).
    rewrite P0, Hskip.
    destruct (size <=? 1) eqn:S1; [breflect; split; [split; [intro E; unfold EINVAL in E; cbn in E; lia|intros (_ & _ & H); lia]|intro E; unfold EINVAL in E; cbn in E; lia]|].
    destruct (zlen p <=? 0) eqn:T0; [breflect; lia|].
    replace (zlen p - 1 - zlen a) with (zlen b) by lia.
    destruct (zlen b <=? 0) eqn:L0.
    { breflect. assert (b = []) by (apply zlen_0; lia). subst b.
      split; [split; [intro E; unfold EINVAL in E; cbn in E; lia|intros (HH & _); congruence]|intro E; unfold EINVAL in E; cbn in E; lia]. }
    destruct (zlen b >=? size) eqn:L1; breflect.
    { split; [split; [intro E; unfold EINVAL in E; cbn in E; lia|intros (_ & HH & _); lia]|intro E; unfold EINVAL in E; cbn in E; lia]. }
    cbn [fst snd].
    assert (Hf : firstn (Z.to_nat (zlen b)) b = b) by (apply firstn_all2; unfold zlen; lia).
    rewrite Hf. split.
    + split; [intros _|reflexivity]. split; [intro HH; apply (f_equal zlen) in HH; rewrite zlen_nil in HH; lia|lia].
    + intros _. apply (cstr_written m size b Hok); [lia|].
      rewrite Hp in Hnz. apply nonzero_app_inv in Hnz. destruct Hnz as [_ Hnz]. inversion Hnz; assumption.
Qed.

(* ---------- dirname ---------- *)
(* reference: with p = a ++ sep :: b and no separator in b the directory is a, except that the
   separator is kept for the root (a empty) and after a drive colon ("c:/") *)
Definition dir_ref (a : list Z) (c : Z) : list Z :=
  if (length a =? 0)%nat then [c]
  else if (1 <? zlen a) && (nth (length a - 1) a 0 =? 58) then a ++ [c] else a.

Lemma in_firstn_z n : forall (l : list Z) x, In x (firstn n l) -> In x l.
Proof.
  induction n as [|n IH]; intros [|a l] x; cbn [firstn In]; try tauto.
  intros [H|H]; [left; exact H|right; apply IH; exact H].
Qed.

Lemma firstn_app_len (a b : list Z) : firstn (length a) (a ++ b) = a.
Proof. induction a; cbn; [destruct b; reflexivity|f_equal; auto]. Qed.

Lemma dirname_algebra_l : forall a c b size m, ok m size -> nonzero (a ++ c :: b) ->
  is_sep c = true -> nosep b ->
  let p := a ++ c :: b in
  (fst (dirname p size m) = 0 <-> zlen (dir_ref a c) < size /\ 1 < size) /\
  (fst (dirname p size m) = 0 -> cstr (cells (snd (dirname p size m))) = dir_ref a c).
Proof.
  intros a c b size m Hok Hnz Hc Hb p.
  assert (Hls : last_sep p = zlen a).
  { destruct (last_sep_spec p) as [[Hns _]|(a' & c' & b' & Hp & Hc' & Hb' & Hls)].
    - exfalso. subst p. unfold nosep in Hns. apply Forall_app in Hns. destruct Hns as [_ Hns].
      inversion Hns; subst. congruence.
    - rewrite Hls. f_equal.
      (* both decompositions split at the last separator *)
      subst p. clear - Hp Hc Hb Hc' Hb'.
      revert a' Hp. induction a as [|x a IH]; intros [|y a'] Hp; cbn [app] in Hp.
      + reflexivity.
      + inversion Hp; subst. exfalso. unfold nosep in Hb. apply Forall_app in Hb. destruct Hb as [_ Hb].
        inversion Hb; subst. congruence.
      + inversion Hp; subst. exfalso. unfold nosep in Hb'. apply Forall_app in Hb'. destruct Hb' as [_ Hb'].
        inversion Hb'; subst. congruence.
      + inversion Hp; subst. f_equal. apply IH. assumption. }
  pose proof (zlen_nonneg a) as Ha0. pose proof (zlen_nonneg b) as Hb0.
  assert (Hlen : zlen p = zlen a + 1 + zlen b) by (subst p; rewrite zlen_app, zlen_cons; lia).
  unfold dirname. rewrite Hls.
  set (pos1 := if zlen a =? 0 then 1 else zlen a).
  set (pos2 := if (pos1 - 1 >? 0) && (nth (Z.to_nat (pos1 - 1)) p 0 =? 58) then pos1 + 1 else pos1).
  assert (Hd : firstn (Z.to_nat pos2) p = dir_ref a c /\ zlen (dir_ref a c) = pos2).
  { unfold dir_ref. subst pos2 pos1.
    destruct (length a =? 0)%nat eqn:E0.
    - apply Nat.eqb_eq in E0. destruct a; [|discriminate]. rewrite zlen_nil. cbn [Z.eqb Z.sub Z.gtb Z.compare andb].
      subst p. cbn. split; reflexivity.
    - apply Nat.eqb_neq in E0. assert (Ez : (zlen a =? 0) = false) by (apply Z.eqb_neq; unfold zlen; lia). rewrite Ez.
      assert (Hn : nth (Z.to_nat (zlen a - 1)) p 0 = nth (length a - 1) a 0).
      { subst p. rewrite app_nth1 by (unfold zlen; lia). f_equal. unfold zlen. lia. }
      rewrite Hn, Z.gtb_ltb. replace (0 <? zlen a - 1) with (1 <? zlen a) by (destruct (1 <? zlen a) eqn:X; breflect; [symmetry; apply Z.ltb_lt|symmetry; apply Z.ltb_ge]; lia).
      destruct ((1 <? zlen a) && (nth (length a - 1) a 0 =? 58)).
      + subst p. split.
        * replace (Z.to_nat (zlen a + 1)) with (length (a ++ [c])) by (rewrite app_length; unfold zlen; cbn [length]; lia).
          replace (a ++ c :: b) with ((a ++ [c]) ++ b) by (rewrite <- app_assoc; reflexivity). apply firstn_app_len.
        * rewrite zlen_app, zlen_cons, zlen_nil. lia.
      + subst p. split; [|reflexivity]. unfold zlen. rewrite Nat2Z.id. apply firstn_app_len. }
  destruct Hd as [Hd1 Hd2]. rewrite Hd1. rewrite Hd2.
  assert (Hp2 : 0 < pos2) by (subst pos2 pos1; destruct (zlen a =? 0) eqn:E; breflect; destruct (_ && _); lia).
  destruct (size <=? 1) eqn:S1; [breflect; split; [split; [intro E; unfold EINVAL in E; cbn in E; lia|intros (_ & H); lia]|intro E; unfold EINVAL in E; cbn in E; lia]|].
  destruct (zlen p <=? 0) eqn:T0; [breflect; lia|].
  destruct (zlen a <? 0) eqn:P0; [breflect; lia|].
  destruct (pos2 >=? size) eqn:G; breflect.
  { split; [split; [intro E; unfold EINVAL in E; cbn in E; lia|intros (H & _); lia]|intro E; unfold EINVAL in E; cbn in E; lia]. }
  cbn [fst snd]. split; [split; [intros _; lia|reflexivity]|].
  intros _. rewrite <- Hd2. apply (cstr_written m size (dir_ref a c) Hok); [lia|].
  rewrite <- Hd1. unfold nonzero in *. apply Forall_forall. intros x Hx.
  rewrite Forall_forall in Hnz. apply Hnz. eapply in_firstn_z; exact Hx.
Qed.
