(* C20 — normpath: the buffer-level loop refines a pure list function (np_pure), and np_pure
   on a rendered component list is the component algebra (ProofsNorm2.v). *)
From MV Require Import C20.Model C20.ProofsStr C20.ProofsPath C20.ProofsAlg2 C20.ProofsAlg4.
Local Open Scope Z_scope.

Definition gz (l : list Z) (i : Z) : Z := nth (Z.to_nat i) l 0.

(* the ".." step on the output produced so far; c2 = character behind the two dots (0 at the end) *)
Definition dd_pure (out : list Z) (c2 : Z) : option (list Z) :=
  let n := zlen out in
  let app := out ++ 46 :: 46 :: (if c2 =? 0 then [] else [c2]) in
  if n =? 0 then Some app
  else if (n >=? 3) && (gz out (n - 3) =? 46) && (gz out (n - 2) =? 46) && is_sep (gz out (n - 1))
  then Some app
  else if negb (is_sep (gz out (n - 1))) then None
  else if n - 2 <? 0 then None
  else Some (firstn (Z.to_nat (last_sep (firstn (Z.to_nat (n - 2 + 1)) out) + 1)) out).

Fixpoint np_pure (cur : list Z) (out : list Z) {struct cur} : option (list Z) :=
  match cur with
  | [] => Some out
  | c0 :: t0 =>
      if (c0 =? 46) && (nth 0 t0 0 =? 46) then
        match t0 with
        | [] => None
        | _ :: t1 =>
            let c2 := nth 0 t1 0 in
            if negb (c2 =? 0) && negb (is_sep c2) then None
            else match dd_pure out c2 with
                 | None => None
                 | Some out' => match t1 with
                                | [] => Some out'
                                | _ :: t2 => np_pure t2 out'
                                end
                 end
        end
      else np_pure t0 (out ++ [c0])
  end.

(* ---------- list helpers ---------- *)
Lemma nth_firstn_z n : forall (l : list Z) i, (i < n)%nat -> nth i (firstn n l) 0 = nth i l 0.
Proof.
  induction n as [|n IH]; intros [|a l] [|i] H; try lia; cbn [firstn nth]; try reflexivity.
  apply IH. lia.
Qed.

Lemma firstn_len_le (l : list Z) n : firstn n l = l -> True.
Proof. trivial. Qed.

Lemma zlen_firstn (l : list Z) k : 0 <= k <= zlen l -> zlen (firstn (Z.to_nat k) l) = k.
Proof. intro H. unfold zlen in *. rewrite firstn_length. lia. Qed.

(* one more character behind the prefix written so far *)
Lemma wr_push m size pos out x :
  ok m size -> firstn (Z.to_nat pos) (cells m) = out -> pos = zlen out -> pos < size ->
  ok (wr pos x m) size /\ firstn (Z.to_nat (pos + 1)) (cells (wr pos x m)) = out ++ [x] /\
  pos + 1 = zlen (out ++ [x]).
Proof.
  intros Hok Hf Hp Hlt. pose proof (zlen_nonneg out).
  assert (Hlen : (Z.to_nat pos < length (cells m))%nat) by (destruct Hok as [Hs _]; unfold bsize, zlen in Hs; lia).
  split; [apply wr_ok; [exact Hok|lia]|]. split.
  - rewrite (cells_wr m size pos x Hok ltac:(lia)).
    replace (Z.to_nat (pos + 1)) with (S (Z.to_nat pos)) by lia.
    rewrite firstn_S_upd by exact Hlen. rewrite Hf. reflexivity.
  - rewrite zlen_app, zlen_cons, zlen_nil. lia.
Qed.

Lemma get_prefix m pos out i :
  firstn (Z.to_nat pos) (cells m) = out -> 0 <= i < pos -> get i m = gz out i.
Proof.
  intros Hf Hi. unfold get, gz. rewrite <- Hf. symmetry. apply nth_firstn_z. lia.
Qed.

(* ---------- the ".." step: buffer level refines dd_pure ---------- *)
Lemma dd_refine m size pos out c2 :
  ok m size -> firstn (Z.to_nat pos) (cells m) = out -> pos = zlen out ->
  pos + (if c2 =? 0 then 2 else 3) <= size ->
  match dd_pure out c2 with
  | None => np_dotdot pos c2 m = None
  | Some out' => exists m', np_dotdot pos c2 m = Some (zlen out', m') /\ ok m' size /\
                            firstn (Z.to_nat (zlen out')) (cells m') = out'
  end.
Proof.
  intros Hok Hf Hp Hb. pose proof (zlen_nonneg out) as Ho0.
  assert (App : forall m0, ok m0 size -> firstn (Z.to_nat pos) (cells m0) = out ->
     exists m',
       (if c2 =? 0 then Some (pos + 2, wr (pos + 1) 46 (wr pos 46 m0))
        else Some (pos + 3, wr (pos + 2) c2 (wr (pos + 1) 46 (wr pos 46 m0)))) =
       Some (zlen (out ++ 46 :: 46 :: (if c2 =? 0 then [] else [c2])), m') /\ ok m' size /\
       firstn (Z.to_nat (zlen (out ++ 46 :: 46 :: (if c2 =? 0 then [] else [c2])))) (cells m') =
       out ++ 46 :: 46 :: (if c2 =? 0 then [] else [c2])).
  { intros m0 H0 F0.
    destruct (wr_push m0 size pos out 46 H0 F0 Hp ltac:(destruct (c2 =? 0); lia)) as (O1 & F1 & P1).
    destruct (wr_push _ size (pos + 1) (out ++ [46]) 46 O1 F1 P1 ltac:(destruct (c2 =? 0); lia)) as (O2 & F2 & P2).
    replace (pos + 1 + 1) with (pos + 2) in * by lia.
    rewrite <- app_assoc in F2, P2. cbn [app] in F2, P2.
    destruct (c2 =? 0) eqn:Z0.
    - eexists. split; [rewrite <- P2; reflexivity|]. split; [exact O2|]. rewrite <- P2. exact F2.
    - destruct (wr_push _ size (pos + 2) (out ++ [46; 46]) c2 O2 F2 P2 ltac:(lia)) as (O3 & F3 & P3).
      replace (pos + 2 + 1) with (pos + 3) in * by lia.
      rewrite <- app_assoc in F3, P3. cbn [app] in F3, P3.
      eexists. split; [rewrite <- P3; reflexivity|]. split; [exact O3|]. rewrite <- P3. exact F3. }
  unfold dd_pure, np_dotdot. rewrite <- Hp.
  destruct (pos =? 0) eqn:P0; [exact (App m Hok Hf)|]. breflect.
  assert (c2size : pos < size) by (destruct (c2 =? 0); lia).
  assert (Hm1 : (if pos >=? 3 then rdchk (pos - 1) (rdchk (pos - 2) (rdchk (pos - 3) m)) else m) = m).
  { destruct (pos >=? 3) eqn:P3; [|reflexivity]. breflect.
    rewrite (rdchk_ok m size (pos - 3) Hok) by lia. rewrite (rdchk_ok m size (pos - 2) Hok) by lia.
    apply (rdchk_ok m size); [exact Hok|lia]. }
  rewrite Hm1.
  assert (G1 : get (pos - 1) m = gz out (pos - 1)) by (apply (get_prefix m pos); [exact Hf|lia]).
  assert (G23 : pos >= 3 -> get (pos - 2) m = gz out (pos - 2) /\ get (pos - 3) m = gz out (pos - 3)).
  { intro. split; apply (get_prefix m pos); try exact Hf; lia. }
  assert (Cnd : (pos >=? 3) && (get (pos - 3) m =? 46) && (get (pos - 2) m =? 46) && is_sep (get (pos - 1) m) =
                (pos >=? 3) && (gz out (pos - 3) =? 46) && (gz out (pos - 2) =? 46) && is_sep (gz out (pos - 1))).
  { destruct (pos >=? 3) eqn:P3; [|reflexivity]. breflect. destruct (G23 ltac:(lia)) as [A B].
    rewrite A, B, G1. reflexivity. }
  rewrite Cnd.
  destruct ((pos >=? 3) && (gz out (pos - 3) =? 46) && (gz out (pos - 2) =? 46) && is_sep (gz out (pos - 1)));
    [exact (App m Hok Hf)|].
  rewrite (rdchk_ok m size (pos - 1) Hok) by lia. rewrite G1.
  destruct (negb (is_sep (gz out (pos - 1)))); [reflexivity|].
  destruct (pos - 2 <? 0) eqn:P2; [reflexivity|]. breflect.
  rewrite (rdchk_ok m size (pos - 2) Hok) by lia.
  assert (Fe : firstn (Z.to_nat (pos - 2 + 1)) (cells m) = firstn (Z.to_nat (pos - 2 + 1)) out).
  { rewrite <- Hf, firstn_firstn. f_equal. lia. }
  rewrite Fe.
  pose proof (last_sep_bounds (firstn (Z.to_nat (pos - 2 + 1)) out)) as LB.
  rewrite zlen_firstn in LB by lia.
  set (ls := last_sep (firstn (Z.to_nat (pos - 2 + 1)) out)) in *.
  assert (Hz : zlen (firstn (Z.to_nat (ls + 1)) out) = ls + 1) by (apply zlen_firstn; lia).
  exists m. rewrite Hz. split; [reflexivity|]. split; [exact Hok|].
  transitivity (firstn (Z.to_nat (ls + 1)) (firstn (Z.to_nat pos) (cells m)));
    [rewrite firstn_firstn; f_equal; lia|rewrite Hf; reflexivity].
Qed.

Lemma dd_pure_len out c2 o : dd_pure out c2 = Some o -> zlen o <= zlen out + (if c2 =? 0 then 2 else 3).
Proof.
  unfold dd_pure. pose proof (zlen_nonneg out).
  assert (A : zlen (out ++ 46 :: 46 :: (if c2 =? 0 then [] else [c2])) = zlen out + (if c2 =? 0 then 2 else 3)).
  { rewrite zlen_app, !zlen_cons. destruct (c2 =? 0); [rewrite zlen_nil|rewrite zlen_cons, zlen_nil]; lia. }
  destruct (zlen out =? 0); [intro E; inversion E; subst; lia|].
  destruct (_ && _); [intro E; inversion E; subst; lia|].
  destruct (negb _); [discriminate|].
  destruct (zlen out - 2 <? 0) eqn:P2; [discriminate|]. breflect.
  intro E. inversion E; subst. unfold zlen. rewrite firstn_length. destruct (c2 =? 0); lia.
Qed.

(* ---------- the loop refines np_pure ---------- *)
Lemma np_refine size : forall n cur pos m out, (length cur <= n)%nat ->
  ok m size -> firstn (Z.to_nat pos) (cells m) = out -> pos = zlen out -> pos + zlen cur < size ->
  match np_pure cur out with
  | None => fst (np_loop size cur pos m) = EINVAL
  | Some out' => exists m', np_loop size cur pos m = np_finish size (zlen out') m' /\ ok m' size /\
                            firstn (Z.to_nat (zlen out')) (cells m') = out' /\ zlen out' <= pos + zlen cur
  end.
Proof.
  induction n as [|n IH]; intros cur pos m out Hn Hok Hf Hp Hb.
  - destruct cur; [|cbn in Hn; lia]. cbn [np_pure np_loop]. exists m. rewrite <- Hp, zlen_nil.
    split; [reflexivity|]. split; [exact Hok|]. split; [exact Hf|lia].
  - destruct cur as [|c0 t0]; cbn [np_pure np_loop].
    + exists m. rewrite <- Hp, zlen_nil. split; [reflexivity|]. split; [exact Hok|]. split; [exact Hf|lia].
    + rewrite zlen_cons in Hb. pose proof (zlen_nonneg t0). cbn [length] in Hn.
      destruct ((c0 =? 46) && (nth 0 t0 0 =? 46)) eqn:DD.
      * destruct t0 as [|c1 t1]; [reflexivity|].
        rewrite zlen_cons in Hb. pose proof (zlen_nonneg t1). cbn [length] in Hn.
        destruct (negb (nth 0 t1 0 =? 0) && negb (is_sep (nth 0 t1 0))); [reflexivity|].
        assert (Hc2 : pos + (if nth 0 t1 0 =? 0 then 2 else 3) <= size).
        { destruct (nth 0 t1 0 =? 0) eqn:Z0; [lia|]. destruct t1 as [|x t1']; [cbn in Z0; discriminate|].
          rewrite zlen_cons in Hb. pose proof (zlen_nonneg t1'). lia. }
        pose proof (dd_refine m size pos out (nth 0 t1 0) Hok Hf Hp Hc2) as R.
        destruct (dd_pure out (nth 0 t1 0)) as [o|] eqn:D.
        -- destruct R as (m' & E & Hok' & Hf'). rewrite E.
           pose proof (dd_pure_len _ _ _ D) as Hl. rewrite <- Hp in Hl.
           destruct t1 as [|x t2].
           ++ cbn [nth Z.eqb] in Hl. rewrite zlen_nil in Hb. exists m'.
              split; [reflexivity|]. split; [exact Hok'|]. split; [exact Hf'|]. rewrite !zlen_cons, zlen_nil. lia.
           ++ rewrite zlen_cons in Hb. pose proof (zlen_nonneg t2). cbn [length] in Hn.
              assert (Hb' : zlen o + zlen t2 < size) by (destruct (nth 0 (x :: t2) 0 =? 0); lia).
              pose proof (IH t2 (zlen o) m' o ltac:(lia) Hok' Hf' eq_refl Hb') as R2.
              destruct (np_pure t2 o) as [o2|].
              ** destruct R2 as (m2 & E2 & A & B & C). exists m2. split; [exact E2|]. split; [exact A|]. split; [exact B|].
                 rewrite !zlen_cons. destruct (nth 0 (x :: t2) 0 =? 0); lia.
              ** exact R2.
        -- rewrite R. reflexivity.
      * destruct (wr_push m size pos out c0 Hok Hf Hp ltac:(lia)) as (O1 & F1 & P1).
        pose proof (IH t0 (pos + 1) (wr pos c0 m) (out ++ [c0]) ltac:(lia) O1 F1 P1 ltac:(lia)) as R.
        destruct (np_pure t0 (out ++ [c0])) as [o|]; [|exact R].
        destruct R as (m' & E & A & B & C). exists m'. split; [exact E|]. split; [exact A|]. split; [exact B|].
        rewrite zlen_cons. lia.
Qed.

(* ---------- nonzero is preserved ---------- *)
Lemma nonzero_firstn n (l : list Z) : nonzero l -> nonzero (firstn n l).
Proof.
  unfold nonzero. rewrite !Forall_forall. intros H x Hx. apply H. eapply in_firstn_z. exact Hx.
Qed.

Lemma dd_pure_nonzero out c2 o : nonzero out -> dd_pure out c2 = Some o -> nonzero o.
Proof.
  intros Hz. unfold dd_pure.
  assert (A : nonzero (out ++ 46 :: 46 :: (if c2 =? 0 then [] else [c2]))).
  { apply Forall_app. split; [exact Hz|]. constructor; [lia|]. constructor; [lia|].
    destruct (c2 =? 0) eqn:E; [constructor|]. breflect. constructor; [exact E|constructor]. }
  destruct (zlen out =? 0); [intro E; inversion E; subst; exact A|].
  destruct (_ && _); [intro E; inversion E; subst; exact A|].
  destruct (negb _); [discriminate|]. destruct (_ <? 0); [discriminate|].
  intro E. inversion E; subst. apply nonzero_firstn. exact Hz.
Qed.

Lemma np_pure_nonzero : forall n cur out o, (length cur <= n)%nat -> nonzero cur -> nonzero out ->
  np_pure cur out = Some o -> nonzero o.
Proof.
  induction n as [|n IH]; intros cur out o Hn Hc Ho.
  - destruct cur; [|cbn in Hn; lia]. cbn. intro E; inversion E; subst; exact Ho.
  - destruct cur as [|c0 t0]; cbn [np_pure]; [intro E; inversion E; subst; exact Ho|].
    cbn [length] in Hn. inversion Hc as [|? ? Hc0 Ht0]; subst.
    destruct ((c0 =? 46) && (nth 0 t0 0 =? 46)).
    + destruct t0 as [|c1 t1]; [discriminate|]. cbn [length] in Hn. inversion Ht0 as [|? ? Hc1 Ht1]; subst.
      destruct (negb _ && negb _); [discriminate|].
      destruct (dd_pure out (nth 0 t1 0)) as [o'|] eqn:D; [|discriminate].
      pose proof (dd_pure_nonzero _ _ _ Ho D) as Ho'.
      destruct t1 as [|x t2]; [intro E; inversion E; subst; exact Ho'|].
      cbn [length] in Hn. inversion Ht1; subst. apply IH; [lia|assumption|exact Ho'].
    + apply IH; [lia|exact Ht0|]. apply Forall_app. split; [exact Ho|]. constructor; [exact Hc0|constructor].
Qed.

(* ---------- the end of the loop ---------- *)
Lemma np_finish_algebra size o m : ok m size -> firstn (Z.to_nat (zlen o)) (cells m) = o ->
  zlen o < size -> nonzero o ->
  (fst (np_finish size (zlen o) m) = 0 <-> (o = [] -> 2 < size)) /\
  (fst (np_finish size (zlen o) m) = 0 ->
     cstr (cells (snd (np_finish size (zlen o) m))) = if (length o =? 0)%nat then [46; 47] else o).
Proof.
  intros Hok Hf Hlt Hz. unfold np_finish. pose proof (zlen_nonneg o) as Ho0.
  assert (Hc : length (cells m) = Z.to_nat size) by (destruct Hok as [Hs _]; unfold bsize, zlen in Hs; lia).
  destruct (zlen o =? 0) eqn:Z0; breflect.
  - assert (o = []) by (apply zlen_0; exact Z0). subst o. cbn [length Nat.eqb].
    destruct (size <=? 2) eqn:S2; breflect.
    + cbn [fst]. unfold EINVAL. split; [split; [lia|intro X; specialize (X eq_refl); lia]|lia].
    + cbn [fst snd]. split; [split; [intros _ _; lia|reflexivity]|]. intros _.
      assert (O1 : ok (wr 0 46 m) size) by (apply wr_ok; [exact Hok|lia]).
      assert (O2 : ok (wr 1 47 (wr 0 46 m)) size) by (apply wr_ok; [exact O1|lia]).
      rewrite (cells_wr _ size 2 0 O2 ltac:(lia)), (cells_wr _ size 1 47 O1 ltac:(lia)), (cells_wr _ size 0 46 Hok ltac:(lia)).
      destruct (cells m) as [|a0 [|a1 [|a2 r]]]; cbn [length] in Hc; try lia. reflexivity.
  - assert (Hn : (length o =? 0)%nat = false) by (apply Nat.eqb_neq; unfold zlen in Z0; lia). rewrite Hn.
    cbn [fst snd]. split; [split; [intros _ X; subst o; rewrite zlen_nil in Z0; lia|reflexivity]|].
    intros _. rewrite (cells_wr m size (zlen o) 0 Hok ltac:(lia)).
    apply cstr_upd_after; [exact Hf|lia|exact Hz].
Qed.

(* normpath in terms of np_pure: for EVERY NUL-free input *)
Lemma normpath_pure_l : forall p size m, ok m size -> nonzero p ->
  match np_pure (np_cursor p) [] with
  | None => fst (normpath p size m) <> 0
  | Some o =>
      (fst (normpath p size m) = 0 <-> zlen p < size /\ (o = [] -> 2 < size)) /\
      (fst (normpath p size m) = 0 ->
         cstr (cells (snd (normpath p size m))) = if (length o =? 0)%nat then [46; 47] else o)
  end.
Proof.
  intros p size m Hok Hnz. unfold normpath. fold (np_cursor p).
  set (q := np_cursor p).
  assert (Hq : zlen q <= zlen p).
  { subst q. unfold np_cursor. destruct (_ && _); [|lia]. unfold zlen. rewrite skipn_length. lia. }
  assert (Hqz : nonzero q).
  { subst q. unfold np_cursor. destruct (_ && _); [|exact Hnz].
    unfold nonzero in *. rewrite Forall_forall in *. intros x Hx. apply Hnz.
    rewrite <- (firstn_skipn 2 p). apply in_or_app. right. exact Hx. }
  pose proof (zlen_nonneg q) as Hq0.
  destruct (zlen p >=? size) eqn:G; breflect.
  { destruct (np_pure q []); cbn [fst]; unfold EINVAL; [split; [split; [lia|intros [H _]; lia]|lia]|lia]. }
  pose proof (np_refine size (length q) q 0 m [] (le_n _) Hok eq_refl eq_refl ltac:(lia)) as R.
  destruct (np_pure q []) as [o|] eqn:P.
  - destruct R as (m' & E & Hm' & Hf & Hl). rewrite E.
    pose proof (np_pure_nonzero (length q) q [] o (le_n _) Hqz ltac:(constructor) P) as Hoz.
    destruct (np_finish_algebra size o m' Hm' Hf ltac:(lia) Hoz) as [A B].
    split; [|exact B]. rewrite A. split; [intro X; split; [lia|exact X]|intros [_ X]; exact X].
  - rewrite R. unfold EINVAL. lia.
Qed.
