(* C20 — the endian swap macros on operands of EVERY integer type (int8..int64, uint8..uint64).
   The (repaired) macros convert the operand to uintN_t first, so the value depends only on the low N
   bits of the operand's two's complement pattern, lies in [0, 2^N), and the nested round trip returns
   exactly those N bits: for an intN_t / uintN_t object the round trip restores its representation,
   negative values and INT_MIN included. *)
From MV Require Import C20.Model C20.ProofsHex.
Local Open Scope N_scope.

Lemma sigma16_lt i : i < 16 -> sigma16 i < 16.
Proof. unfold sigma16. intro H. destruct (N.ltb_spec i 8); lia. Qed.
Lemma sigma32_lt i : i < 32 -> sigma32 i < 32.
Proof.
  unfold sigma32. intro H.
  destruct (N.ltb_spec i 8); [lia|]. destruct (N.ltb_spec i 16); [lia|]. destruct (N.ltb_spec i 24); lia.
Qed.
Lemma sigma64_lt i : i < 64 -> sigma64 i < 64.
Proof.
  unfold sigma64. intro H.
  destruct (N.ltb_spec i 8); [lia|]. destruct (N.ltb_spec i 16); [lia|]. destruct (N.ltb_spec i 24); [lia|].
  destruct (N.ltb_spec i 32); [lia|]. destruct (N.ltb_spec i 40); [lia|]. destruct (N.ltb_spec i 48); [lia|].
  destruct (N.ltb_spec i 56); lia.
Qed.

(* only the low N bits of the operand matter *)
Lemma swap16_low v : swap16 (v mod 2 ^ 16) = swap16 v.
Proof.
  apply N.bits_inj; intro i. rewrite !swap16_bits.
  destruct (N.ltb_spec i 16) as [Hi|Hi]; cbn [andb]; [|reflexivity].
  apply N.mod_pow2_bits_low, sigma16_lt, Hi.
Qed.
Lemma swap32_low v : swap32 (v mod 2 ^ 32) = swap32 v.
Proof.
  apply N.bits_inj; intro i. rewrite !swap32_bits.
  destruct (N.ltb_spec i 32) as [Hi|Hi]; cbn [andb]; [|reflexivity].
  apply N.mod_pow2_bits_low, sigma32_lt, Hi.
Qed.
Lemma swap64_low v : swap64 (v mod 2 ^ 64) = swap64 v.
Proof.
  apply N.bits_inj; intro i. rewrite !swap64_bits.
  destruct (N.ltb_spec i 64) as [Hi|Hi]; cbn [andb]; [|reflexivity].
  apply N.mod_pow2_bits_low, sigma64_lt, Hi.
Qed.

(* the nested round trip returns the low N bits of ANY operand *)
Lemma swap16_roundtrip_any v : swap16 (swap16 v) = v mod 2 ^ 16.
Proof. rewrite <- (swap16_low v). apply swap16_involutive_l. apply N.mod_lt. discriminate. Qed.
Lemma swap32_roundtrip_any v : swap32 (swap32 v) = v mod 2 ^ 32.
Proof. rewrite <- (swap32_low v). apply swap32_involutive_l. apply N.mod_lt. discriminate. Qed.
Lemma swap64_roundtrip_any v : swap64 (swap64 v) = v mod 2 ^ 64.
Proof. rewrite <- (swap64_low v). apply swap64_involutive_l. apply N.mod_lt. discriminate. Qed.

(* the operand: a 64-bit pattern that keeps the low [bits] bits of v (conversion to the type T), the
   remaining bits being the sign or zero extension *)
Lemma pow2_le_64 bits : bits <= 64 -> 2 ^ bits <= w64.
Proof. intro H. change w64 with (2 ^ 64). apply N.pow_le_mono_r; [discriminate|exact H]. Qed.

Lemma operand_spec bits sg v : 0 < bits -> bits <= 64 ->
  operand bits sg v < w64 /\ operand bits sg v mod 2 ^ bits = v mod 2 ^ bits.
Proof.
  intros H0 H64. unfold operand. cbv zeta.
  pose proof (pow2_le_64 bits H64) as Hp.
  assert (Hpos : 2 ^ bits <> 0) by (apply N.pow_nonzero; discriminate).
  pose proof (N.mod_lt v (2 ^ bits) Hpos) as Hlt.
  destruct (sg && (2 ^ (bits - 1) <=? v mod 2 ^ bits)) eqn:E.
  - split; [lia|].
    (* w64 - 2^bits is a multiple of 2^bits *)
    assert (M : exists k, w64 - 2 ^ bits = k * 2 ^ bits).
    { exists (2 ^ (64 - bits) - 1). rewrite N.mul_sub_distr_r, N.mul_1_l, <- N.pow_add_r.
      replace (64 - bits + bits) with 64 by lia. reflexivity. }
    destruct M as [k ->]. rewrite N.mod_add by exact Hpos. apply N.mod_mod, Hpos.
  - split; [lia|]. apply N.mod_mod, Hpos.
Qed.

(* an object of type intN_t / uintN_t: the round trip restores its N-bit representation *)
Lemma swap_roundtrip_object sg v :
  swap16 (swap16 (operand 16 sg v)) = v mod 2 ^ 16 /\
  swap32 (swap32 (operand 32 sg v)) = v mod 2 ^ 32 /\
  swap64 (swap64 (operand 64 sg v)) = v mod 2 ^ 64.
Proof.
  rewrite swap16_roundtrip_any, swap32_roundtrip_any, swap64_roundtrip_any.
  repeat split; apply operand_spec; lia.
Qed.

Lemma endian_swap_any_operand_l :
  (forall x, swap16 x = swap16 (x mod 2 ^ 16) /\ swap16 (swap16 x) = x mod 2 ^ 16) /\
  (forall x, swap32 x = swap32 (x mod 2 ^ 32) /\ swap32 (swap32 x) = x mod 2 ^ 32) /\
  (forall x, swap64 x = swap64 (x mod 2 ^ 64) /\ swap64 (swap64 x) = x mod 2 ^ 64) /\
  (forall bits sg v, 0 < bits -> bits <= 64 ->
     operand bits sg v < 2 ^ 64 /\ operand bits sg v mod 2 ^ bits = v mod 2 ^ bits) /\
  (forall sg v, swap16 (swap16 (operand 16 sg v)) = v mod 2 ^ 16 /\
                swap32 (swap32 (operand 32 sg v)) = v mod 2 ^ 32 /\
                swap64 (swap64 (operand 64 sg v)) = v mod 2 ^ 64).
Proof.
  split; [intro x; split; [symmetry; apply swap16_low|apply swap16_roundtrip_any]|].
  split; [intro x; split; [symmetry; apply swap32_low|apply swap32_roundtrip_any]|].
  split; [intro x; split; [symmetry; apply swap64_low|apply swap64_roundtrip_any]|].
  split; [exact operand_spec|exact swap_roundtrip_object].
Qed.

(* non-vacuity: int32_t 0x80000080 (negative, low byte >= 0x80 — the operand on which the unchanged
   macro shifted into the sign bit), int8_t -1 under SWAP_32, INT64_MIN under SWAP_64 *)
Example swapt_witnesses :
  operand 32 true 2147483776 = 18446744071562068096 /\ swap32 (operand 32 true 2147483776) = 2147483776 /\
  swap32 (operand 8 true 255) = 4294967295 /\ swap16 (operand 8 false 255) = 65280 /\
  swap64 (operand 64 true 9223372036854775808) = 128 /\
  swap32 (swap32 (operand 32 true 4294967295)) = 4294967295.
Proof. vm_compute. repeat split; reflexivity. Qed.
