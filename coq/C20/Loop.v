(* C20 — generic loop combinator used by the terms the leaf translator generates for C functions of the
   shape  <prelude> ; ONE loop ; <epilogue>  (lib/props/c20_leaf.py, translate_loop).  Definitions only.

   One iteration, started at the loop head in state [st] (the single integer variable the loop assigns), is a
   function  iter : Z -> Z + R :  [inl st'] = control is back at the loop head with state st',
   [inr v] = the FUNCTION returns v (from inside the body, or because the loop condition failed and the
   epilogue ran).  Folding the epilogue into the iteration makes `while (c) { .. }  return x;`,
   `for (;;) { if (!c) return x; .. }` and `for (..; c; ) { .. }` produce pointwise equal iterations. *)
From Coq Require Import ZArith List.

Fixpoint run_loop {R : Type} (fuel : nat) (iter : Z -> Z + R) (st : Z) : option R :=
  match fuel with
  | O => None
  | S f => match iter st with
           | inl st' => run_loop f iter st'
           | inr v => Some v
           end
  end.

(* memcmp(p + a, q + b, n) == 0 on NUL-terminated strings given as byte lists (reading the terminator or
   beyond yields 0, as for nth) *)
Fixpoint mem_eq (p : list Z) (a : nat) (q : list Z) (b : nat) (n : nat) : bool :=
  match n with
  | O => true
  | S k => (Z.eqb (nth a p 0%Z) (nth b q 0%Z) && mem_eq p (S a) q (S b) k)%bool
  end.
